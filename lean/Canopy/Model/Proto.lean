import Canopy.Model.Bytes
import Canopy.Model.Sha256
import Canopy.Model.Sha256Nat
/-!
M-proto: a protobuf *wire* model and the schema-directed decoding of `lib.Transaction`
(`lib/.proto/tx.proto`), core Lean only, executable, every function total and structurally
recursive (so the kernel can evaluate it: `decide`).

What is modelled, and from where:

* `decVarint`  — `protowire.ConsumeVarint`: at most 10 bytes, the 10th byte at most 1, non-minimal
  encodings accepted.
* `decField` / `parse` — the wire scan of `proto.Unmarshal` (google.golang.org/protobuf, table-driven
  decoder `impl.unmarshalPointerEager`): any field order, field numbers 1 … 2^29-1, wire types
  varint / fixed64 / len / fixed32. A START GROUP tag (wire type 3), whatever its field number, opens
  a group that `protowire.ConsumeFieldValue` skips (`skipGroup`): tags inside a group may carry field
  numbers up to 2^31-1, values are skipped by wire type, groups nest, the END GROUP tag must carry
  the opening number; a well-formed group is retained as an UNKNOWN field (`WireVal.group`, so the
  critical-message check reports "unknown fields"), a malformed one is a decode error. A stray END
  GROUP (wire type 4) at message level and the wire types 6, 7 are decode errors. Not modelled: the
  recursion limit of 10000 nested groups / messages (unreachable below 64 MB only in theory: 20 kB
  of start-group tags reach it; the drivers stay far below).
  The pre-flight scan still refuses wire types 3 and 4 at the top level of a critical message, so
  groups only get through inside nested sub-messages (`signature`, `msg`).
* `preflight` — `lib.preflightProtoBytes` (`lib/util.go`), statement by statement.
* `decodeTx` — `lib.Unmarshal(bytes, *Transaction)`: size cap, pre-flight, decode with
  last-occurrence-wins for scalars, *merge* for repeated occurrences of a sub-message (`msg`,
  `signature`), UTF-8 validation of `string` fields, unknown fields (also: known number with another
  wire type) reported and — this message being critical — refused at every nesting level.
* `canon` — `lib.Marshal` (`proto.MarshalOptions{Deterministic: true}`): ascending field numbers,
  default values omitted, minimal varints.
* `signBytes`, `txId` — `Transaction.GetSignBytes` (canonical re-marshal without the signature) and
  the identity `crypto.HashString(raw)` used by `ApplyTransactions` / `CheckReplay`.
-/
namespace Canopy.Proto
open Canopy

/-! ## varints -/

/-- minimal varint encoding of `n` (`protowire.AppendVarint`); exact for `n < 128^10`. -/
def encVarintAux : Nat → Nat → Bytes
  | 0, _ => []
  | k+1, n => if n < 128 then [UInt8.ofNat n] else UInt8.ofNat (n % 128 + 128) :: encVarintAux k (n / 128)

def encVarint (n : Nat) : Bytes := encVarintAux 10 n

/-- up to `fuel` bytes of a base-128 little-endian number; the last byte is the first one < 0x80 -/
def decVarintAux : Nat → Bytes → Option (Nat × Bytes)
  | 0, _ => none
  | _+1, [] => none
  | k+1, b :: rest =>
    if b < 128 then some (b.toNat, rest)
    else match decVarintAux k rest with
      | some (v, r) => some (b.toNat - 128 + 128 * v, r)
      | none => none

/-- `protowire.ConsumeVarint`: ten bytes at most and the value must fit 64 bits (for a 10-byte
encoding this is exactly Go's "10th byte ≤ 1"; shorter encodings are below 2^63). -/
def decVarint (b : Bytes) : Option (Nat × Bytes) :=
  match decVarintAux 10 b with
  | some (v, r) => if v < 2^64 then some (v, r) else none
  | none => none

/-- `b.length < l`, evaluated in O(min l |b|) (a message with 10^5 fields is scanned in linear time) -/
def shorter (b : Bytes) : Nat → Bool
  | 0 => false
  | l+1 => (b.drop l).isEmpty

/-! ## wire fields -/

inductive WireVal
  | varint (n : Nat)
  | i64 (b : Bytes)
  | len (b : Bytes)
  | i32 (b : Bytes)
  | group (b : Bytes)   -- a skipped group: the raw bytes after the start tag, end tag included
  deriving DecidableEq, Repr

structure Field where
  num : Nat
  val : WireVal
  deriving DecidableEq, Repr

/-- `protowire.MaxValidNumber` (what `proto.Unmarshal` accepts) -/
def maxFieldNum : Nat := 2^29 - 1
/-- what `protowire.ConsumeTag` accepts (`DecodeTag`: up to `math.MaxInt32`) -/
def maxTagNum : Nat := 2^31 - 1

/-- `protowire.ConsumeFieldValue(num, StartGroupType, b)`: skip to the END GROUP tag that closes
group `num`; the remaining bytes, or `none` for an error (bad tag, number above 2^31-1, value that
does not fit, END GROUP with another number, reserved wire type, input exhausted). One unit of fuel
per tag; `b.length + 1` always suffices. -/
def skipGroup : Nat → Nat → Bytes → Option Bytes
  | 0, _, _ => none
  | k+1, num, b =>
    match decVarint b with                     -- protowire.ConsumeTag
    | none => none
    | some (tag, r) =>
      let n2 := tag / 8
      if n2 < 1 ∨ maxTagNum < n2 then none
      else match tag % 8 with
        | 4 => if n2 == num then some r else none
        | 0 => match decVarint r with
          | some (_, r') => skipGroup k num r'
          | none => none
        | 1 => if shorter r 8 then none else skipGroup k num (r.drop 8)
        | 5 => if shorter r 4 then none else skipGroup k num (r.drop 4)
        | 2 => match decVarint r with
          | some (l, r') => if shorter r' l then none else skipGroup k num (r'.drop l)
          | none => none
        | 3 => match skipGroup k n2 r with
          | some r' => skipGroup k num r'
          | none => none
        | _ => none

/-- one field off the front of `b` -/
def decField (b : Bytes) : Option (Field × Bytes) :=
  match decVarint b with
  | none => none
  | some (tag, r) =>
    let num := tag / 8
    if num < 1 ∨ maxFieldNum < num then none
    else match tag % 8 with
      | 0 => match decVarint r with
        | some (v, r') => some (⟨num, .varint v⟩, r')
        | none => none
      | 1 => if shorter r 8 then none else some (⟨num, .i64 (r.take 8)⟩, r.drop 8)
      | 2 => match decVarint r with
        | some (l, r') => if shorter r' l then none else some (⟨num, .len (r'.take l)⟩, r'.drop l)
        | none => none
      | 5 => if shorter r 4 then none else some (⟨num, .i32 (r.take 4)⟩, r.drop 4)
      | 3 => match skipGroup (r.length + 1) num r with
        | some r' => some (⟨num, .group (r.take (r.length - r'.length))⟩, r')
        | none => none
      | _ => none                                -- stray END GROUP (4), reserved (6, 7)

def parseAux : Nat → Bytes → Option (List Field)
  | _, [] => some []
  | 0, _ :: _ => none
  | k+1, b => match decField b with
    | some (f, r) => match parseAux k r with
      | some fs => some (f :: fs)
      | none => none
    | none => none

/-- the field list of a message; `none` = the Go decoder returns an error -/
def parse (b : Bytes) : Option (List Field) := parseAux b.length b

def encTag (num wt : Nat) : Bytes := encVarint (num * 8 + wt)

def encField (f : Field) : Bytes :=
  match f.val with
  | .varint n => encTag f.num 0 ++ encVarint n
  | .i64 b => encTag f.num 1 ++ b
  | .len b => encTag f.num 2 ++ encVarint b.length ++ b
  | .i32 b => encTag f.num 5 ++ b
  | .group b => encTag f.num 3 ++ b

def encFields (fs : List Field) : Bytes := fs.flatMap encField

/-! ## `lib.preflightProtoBytes` -/

def protoMaxFieldBytes : Nat := 32 * 1024 * 1024
def protoMaxMessageBytes : Nat := 64 * 1024 * 1024

/-- the loop of `preflightProtoBytes`, one iteration per unit of fuel; total by construction -/
def preflightAux : Nat → Bytes → Bool
  | _, [] => true
  | 0, _ :: _ => false
  | k+1, b =>
    match decVarint b with                       -- protowire.ConsumeTag
    | none => false
    | some (tag, r) =>
      if tag / 8 < 1 ∨ maxTagNum < tag / 8 then false
      else match tag % 8 with
        | 0 => match decVarint r with              -- VarintType
          | some (_, r') => preflightAux k r'
          | none => false
        | 5 => if shorter r 4 then false else preflightAux k (r.drop 4)   -- Fixed32Type
        | 1 => if shorter r 8 then false else preflightAux k (r.drop 8)   -- Fixed64Type
        | 2 => match decVarint r with              -- BytesType
          | some (l, r') =>
            if protoMaxFieldBytes < l then false
            else if shorter r' l then false
            else preflightAux k (r'.drop l)
          | none => false
        | _ => false                               -- "unsupported wire type"

/-- `preflightProtoBytes b == nil` -/
def preflight (b : Bytes) : Bool := preflightAux b.length b

/-! ## UTF-8 (`utf8.Valid`, applied by the decoder and the encoder to proto3 `string` fields) -/

def isCont (b : UInt8) : Bool := 0x80 ≤ b && b ≤ 0xBF

def validUtf8Aux : Nat → Bytes → Bool
  | _, [] => true
  | 0, _ :: _ => false
  | k+1, b0 :: rest =>
    if b0 < 0x80 then validUtf8Aux k rest
    else if 0xC2 ≤ b0 && b0 ≤ 0xDF then
      match rest with
      | b1 :: r => isCont b1 && validUtf8Aux k r
      | _ => false
    else if 0xE0 ≤ b0 && b0 ≤ 0xEF then
      match rest with
      | b1 :: b2 :: r =>
        (if b0 == 0xE0 then 0xA0 ≤ b1 && b1 ≤ 0xBF
         else if b0 == 0xED then 0x80 ≤ b1 && b1 ≤ 0x9F
         else isCont b1) && isCont b2 && validUtf8Aux k r
      | _ => false
    else if 0xF0 ≤ b0 && b0 ≤ 0xF4 then
      match rest with
      | b1 :: b2 :: b3 :: r =>
        (if b0 == 0xF0 then 0x90 ≤ b1 && b1 ≤ 0xBF
         else if b0 == 0xF4 then 0x80 ≤ b1 && b1 ≤ 0x8F
         else isCont b1) && isCont b2 && isCont b3 && validUtf8Aux k r
      | _ => false
    else false

def validUtf8 (b : Bytes) : Bool := validUtf8Aux b.length b

/-! ## the `Transaction` schema -/

/-- `google.protobuf.Any`: `type_url = 1` (string), `value = 2` (bytes) -/
structure AnyC where
  typeUrl : Bytes
  value : Bytes
  deriving DecidableEq, Repr

/-- `lib.Signature`: `public_key = 1`, `signature = 2` (bytes) -/
structure SigC where
  publicKey : Bytes
  signature : Bytes
  deriving DecidableEq, Repr

/-- the decoded `lib.Transaction`; an empty `bytes`/`string` and a zero integer are the proto3
defaults (Go: `nil` / `""` / `0`), sub-messages have presence. -/
structure TxContent where
  messageType : Bytes
  msg : Option AnyC
  signature : Option SigC
  createdHeight : Nat
  time : Nat
  fee : Nat
  memo : Bytes
  networkId : Nat
  chainId : Nat
  nonce : Nat
  deriving DecidableEq, Repr

def AnyC.empty : AnyC := ⟨[], []⟩
def SigC.empty : SigC := ⟨[], []⟩
def TxContent.empty : TxContent := ⟨[], none, none, 0, 0, 0, [], 0, 0, 0⟩

/-- decoder state: the message so far, and whether an unknown field has been seen -/
abbrev St (α : Type) := α × Bool

def applyAny (s : St AnyC) (f : Field) : Option (St AnyC) :=
  match f.num, f.val with
  | 1, .len b => if validUtf8 b then some ({ s.1 with typeUrl := b }, s.2) else none
  | 2, .len b => some ({ s.1 with value := b }, s.2)
  | _, _ => some (s.1, true)

def applySig (s : St SigC) (f : Field) : Option (St SigC) :=
  match f.num, f.val with
  | 1, .len b => some ({ s.1 with publicKey := b }, s.2)
  | 2, .len b => some ({ s.1 with signature := b }, s.2)
  | _, _ => some (s.1, true)

def foldFields {α : Type} (step : St α → Field → Option (St α)) : St α → List Field → Option (St α)
  | s, [] => some s
  | s, f :: fs => match step s f with
    | some s' => foldFields step s' fs
    | none => none

/-- a further occurrence of a sub-message field is *merged* into what is already there -/
def mergeAny (cur : Option AnyC) (b : Bytes) : Option (St AnyC) :=
  match parse b with
  | some fs => foldFields applyAny (cur.getD AnyC.empty, false) fs
  | none => none

def mergeSig (cur : Option SigC) (b : Bytes) : Option (St SigC) :=
  match parse b with
  | some fs => foldFields applySig (cur.getD SigC.empty, false) fs
  | none => none

def applyTx (s : St TxContent) (f : Field) : Option (St TxContent) :=
  match f.num, f.val with
  | 1, .len b => if validUtf8 b then some ({ s.1 with messageType := b }, s.2) else none
  | 2, .len b => match mergeAny s.1.msg b with
    | some (a, u) => some ({ s.1 with msg := some a }, s.2 || u)
    | none => none
  | 3, .len b => match mergeSig s.1.signature b with
    | some (g, u) => some ({ s.1 with signature := some g }, s.2 || u)
    | none => none
  | 4, .varint n => some ({ s.1 with createdHeight := n }, s.2)
  | 5, .varint n => some ({ s.1 with time := n }, s.2)
  | 6, .varint n => some ({ s.1 with fee := n }, s.2)
  | 7, .len b => if validUtf8 b then some ({ s.1 with memo := b }, s.2) else none
  | 8, .varint n => some ({ s.1 with networkId := n }, s.2)
  | 9, .varint n => some ({ s.1 with chainId := n }, s.2)
  | 10, .varint n => some ({ s.1 with nonce := n }, s.2)
  | _, _ => some (s.1, true)

/-- `proto.Unmarshal(raw, *Transaction)`: the message and whether unknown fields were retained -/
def decodeLoose (raw : Bytes) : Option (St TxContent) :=
  match parse raw with
  | some fs => foldFields applyTx (TxContent.empty, false) fs
  | none => none

/-- `lib.Unmarshal(raw, *Transaction)` (a *critical* message): size cap, pre-flight scan, decode,
unknown fields refused. -/
def decodeTx (raw : Bytes) : Option TxContent :=
  if protoMaxMessageBytes < raw.length then none
  else if !preflight raw then none
  else match decodeLoose raw with
    | some (c, false) => some c
    | _ => none

/-! ## deterministic marshalling -/

def encLen (num : Nat) (b : Bytes) : Bytes := encTag num 2 ++ encVarint b.length ++ b
def encUint (num n : Nat) : Bytes := encTag num 0 ++ encVarint n
def optLen (num : Nat) (b : Bytes) : Bytes := if b.isEmpty then [] else encLen num b
def optUint (num n : Nat) : Bytes := if n == 0 then [] else encUint num n

def canonAny (a : AnyC) : Bytes := optLen 1 a.typeUrl ++ optLen 2 a.value
def canonSig (s : SigC) : Bytes := optLen 1 s.publicKey ++ optLen 2 s.signature

def optMsg {α : Type} (num : Nat) (enc : α → Bytes) : Option α → Bytes
  | some a => encLen num (enc a)
  | none => []

/-- `lib.Marshal(tx)` -/
def canon (t : TxContent) : Bytes :=
  optLen 1 t.messageType ++ optMsg 2 canonAny t.msg ++ optMsg 3 canonSig t.signature ++
  optUint 4 t.createdHeight ++ optUint 5 t.time ++ optUint 6 t.fee ++ optLen 7 t.memo ++
  optUint 8 t.networkId ++ optUint 9 t.chainId ++ optUint 10 t.nonce

/-- the projection `Transaction.GetSignBytes` applies before marshalling: everything but the signature -/
def TxContent.unsigned (t : TxContent) : TxContent := { t with signature := none }

/-- `Transaction.GetSignBytes` -/
def signBytes (t : TxContent) : Bytes := canon t.unsigned

/-- the identity used by the replay filter: `crypto.HashString(raw)` — SHA-256 of the RAW bytes.
`Sha256Nat.hash` is the same function as `Canopy.sha256`, in a form the kernel evaluates quickly; the
driver checks both against Go's `crypto.HashString` and against each other on every `txid` op. -/
def txId (raw : Bytes) : Bytes := Sha256Nat.hash raw

/-- `Transaction.GetHash`: the hash of the canonical form -/
def canonId (t : TxContent) : Bytes := Sha256Nat.hash (canon t)

end Canopy.Proto
