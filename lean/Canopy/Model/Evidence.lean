import Canopy.Model.Gate
import Canopy.Gen.Evidence
/-!
M-evidence (C14): double-sign evidence handling and the ledger side of slashing.

* `checkBasic`, `check`, `processDSE`, `addDSE`, `validateByzantineEvidence` transcribe
  `DoubleSignEvidence.CheckBasic/Check`, `BFT.ProcessDSE`, `BFT.AddDSE`, `BFT.ValidateByzantineEvidence`
  (bft/evidence.go) in the code's order; `doubleSigners` is `AggregateSignature.GetDoubleSigners`.
  View equality is the **generated** `Gen.Evidence.viewEquals`.
* `handleDoubleSigners`, `slashValidators`, `slashValidator` transcribe fsm/byzantine.go; the tracker
  conditions and the stake arithmetic are the **generated** `slashBlocked`, `slashCapped`, `cappedPercent`,
  `stakeAfterSlash` (uint64, as the code computes them).

Signatures are symbolic exactly as in `Canopy.Model.Gate` (C02): an aggregate is the multiset of individual
`(key, payload)` signatures it combines, bound to the ordered committee key list.
What the ledger model leaves out: supply counters, committee/delegation tallies, pausing, the
force-unstake below the minimum stake (none of them changes a stake or the two guards). Core Lean only.
-/
namespace Canopy.Evidence
open Canopy Canopy.Gate
open Canopy.Gen.Err.lib
open Canopy.Gen.Evidence (viewEquals slashBlocked slashCapped cappedPercent stakeAfterSlash phasePropose phaseElectionVote)

abbrev Addr := Bytes

/-! ## evidence side (bft/evidence.go) -/

/-- what `QuorumCertificate.SignBytes` covers: for ELECTION_VOTE the minified certificate (header and
proposer key), otherwise header, the two hashes and the proposer key -/
def signPayload (q : QC) (h : View) : Payload :=
  if h.phase == phaseElectionVote then
    { header := h, blockHash := [], resultsHash := [], proposerKey := q.proposerKey.getD [] }
  else payloadOf q h

/-- what `ProcessDSE` asks of its controller and of `b.View` -/
structure Env where
  networkId : UInt64
  chainId : UInt64
  /-- `b.RootHeight`: the root height the replica is currently at -/
  rootHeight : UInt64
  globalMaxBlockSize : Nat
  /-- `LoadCommittee(rootChainId, rootHeight)` -/
  committeeAt : UInt64 → Option (List Member)
  /-- `LoadMinimumEvidenceHeight(rootChainId, rootHeight)` -/
  minEvidenceAt : UInt64 → Option UInt64
  /-- `!IsValidDoubleSigner(rootChainId, rootHeight, address(key))`: already slashed for that height -/
  alreadySlashed : KeyId → UInt64 → Bool

/-- error kind of a failing controller call (`LoadMinimumEvidenceHeight`) -/
def ErrEnv : String := "env"

/-- `AggregateSignature.Check` against the certificate's own sign bytes: (isPartial, error) -/
def sigCheck (q : QC) (h : View) (ms : List Member) : Except String Bool :=
  match q.signature with
  | none => .error ErrEmptyAggregateSignature
  | some sig =>
    if !sig.lenOK then .error ErrInvalidAggrSignatureLength
    else if sig.bitmap.length == 0 then .error ErrEmptySignerBitmap
    else if sig.bitmap.length != (ms.length + 7) / 8 * 8 then .error ErrInvalidSignerBitmap
    else if !aggVerifies sig (ms.map (·.key)) ((selected sig.bitmap ms).map (·.key)) (signPayload q h) then
      .error ErrInvalidAggrSignature
    else
      .ok (decide (signedPower sig.bitmap ms < Gen.Committee.minPowerFor23Maj (totalPower ms)))

/-- `QuorumCertificate.Check(vs, 0, b.View, false)` as `DoubleSignEvidence.Check` calls it
(partial certificates are not an error; max block size 0) -/
def qcCheck (env : Env) (q : QC) (ms : List Member) : Except String Bool :=
  match Gate.checkBasic q env.globalMaxBlockSize with
  | some c => .error c
  | none =>
    match q.header with
    | none => .error ErrEmptyView
    | some h =>
      if env.networkId != h.networkId then .error ErrWrongNetworkID
      else if env.chainId != h.chainId then .error ErrWrongChainId
      else
        match q.block with
        | some b =>
          if !b.decodes then .error ErrUnmarshal
          else if b.txsSize > 0 then .error ErrExpectedMaxBlockSize
          else sigCheck q h ms
        | none => sigCheck q h ms

structure DSE where
  voteA : Option QC
  voteB : Option QC

/-- the nil tests of `CheckBasic`: the two certificates and their headers -/
def unpack (x : Option DSE) : Except String (QC × QC × View × View) :=
  match x with
  | none => .error ErrEmptyEvidence
  | some ⟨some a, some b⟩ =>
    match a.header, b.header with
    | some ha, some hb => .ok (a, b, ha, hb)
    | _, _ => .error ErrEmptyQuorumCertificate
  | some _ => .error ErrEmptyQuorumCertificate

/-- `DoubleSignEvidence.CheckBasic` -/
def checkBasic (x : Option DSE) : Option String :=
  match unpack x with
  | .error e => some e
  | .ok (_, _, ha, hb) => if !viewEquals (some ha) (some hb) then some ErrMismatchEvidenceAndHeader else none

/-- `DoubleSignEvidence.Check(vs, view, minimumEvidenceHeight)` on evidence that passed `CheckBasic` -/
def check (env : Env) (a b : QC) (ha hb : View) (ms : List Member) (minHeight : UInt64) : Option String :=
  if ha.rootHeight < minHeight then some ErrEvidenceTooOld
  else if a.block.isSome || b.block.isSome then some ErrNonNilBlock
  else if a.results.isSome || b.results.isSome then some ErrNonNilCertResults
  else
    match qcCheck env a ms with
    | .error e => some e
    | .ok _ =>
      match qcCheck env b ms with
      | .error e => some e
      | .ok _ =>
        if !viewEquals (some ha) (some hb) then some ErrInvalidEvidenceHeights
        else if signPayload b hb == signPayload a ha then some ErrNonEquivocatingVote
        else if ha.phase ≤ phasePropose then some ErrWrongPhase
        else none

/-- members whose bit is set in both bitmaps (committee order) -/
def both : List Bool → List Bool → List Member → List KeyId
  | x :: xs, y :: ys, m :: ms => if x && y then m.key :: both xs ys ms else both xs ys ms
  | _, _, _ => []

/-- `AggregateSignature.GetDoubleSigners` -/
def doubleSigners (sa sb : AggSig) (ms : List Member) : Except String (List KeyId) :=
  if sa.bitmap.length != (ms.length + 7) / 8 * 8 then .error ErrInvalidSignerBitmap
  else if sb.bitmap.length != (ms.length + 7) / 8 * 8 then .error ErrInvalidSignerBitmap
  else .ok (both sa.bitmap sb.bitmap ms)

/-- one element of the loop of `ProcessDSE` up to the list of double signers: (committee height, keys).
The minimum evidence height is asked for as of the replica's current root height
(`b.LoadMinimumEvidenceHeight(rootChainId, b.RootHeight)`, repair c09f5c7); `preFix = true` is the behaviour
before that repair — as of the evidence's own root height — kept as a witness (see `Props/C14`). -/
def processOneWith (preFix : Bool) (env : Env) (x : Option DSE) : Except String (UInt64 × List KeyId) :=
  match unpack x with
  | .error e => .error e
  | .ok (a, b, ha, hb) =>
    if !viewEquals (some ha) (some hb) then .error ErrMismatchEvidenceAndHeader
    else
      match env.committeeAt ha.rootHeight with
      | none => .error ErrNoValidators
      | some ms =>
        match env.minEvidenceAt (if preFix then ha.rootHeight else env.rootHeight) with
        | none => .error ErrEnv
        | some minHeight =>
          match check env a b ha hb ms minHeight with
          | some e => .error e
          | none =>
            if signPayload b hb == signPayload a ha then .error ErrNonEquivocatingVote
            else
              match a.signature, b.signature with
              | some sa, some sb =>
                match doubleSigners sa sb ms with
                | .error e => .error e
                | .ok ks => .ok (ha.rootHeight, ks)
              | _, _ => .error ErrEmptyAggregateSignature

def processOne := processOneWith false

/-- `lib.DoubleSigner` -/
structure DS where
  id : KeyId
  heights : List UInt64
deriving DecidableEq, Repr

/-- `DoubleSigner.AddHeight` -/
def addHeight (hs : List UInt64) (h : UInt64) : List UInt64 := if hs.contains h then hs else hs ++ [h]

/-- the `results` update of `ProcessDSE`: first entry with this id gets the height, else a new entry at the end -/
def addSigner : List DS → KeyId → UInt64 → List DS
  | [], k, h => [⟨k, [h]⟩]
  | d :: ds, k, h => if d.id == k then ⟨d.id, addHeight d.heights h⟩ :: ds else d :: addSigner ds k h

/-- the inner loop over the double signers of one piece of evidence -/
def addSigners (env : Env) (h : UInt64) : List KeyId → List DS → List DS
  | [], acc => acc
  | k :: ks, acc => addSigners env h ks (if env.alreadySlashed k h then acc else addSigner acc k h)

/-- `BFT.ProcessDSE(dse...)` with the accumulator made explicit -/
def processDSEFrom (preFix : Bool) (env : Env) : List (Option DSE) → List DS → Except String (List DS)
  | [], acc => .ok acc
  | x :: xs, acc =>
    match processOneWith preFix env x with
    | .error e => .error e
    | .ok (h, ks) => processDSEFrom preFix env xs (addSigners env h ks acc)

def processDSEWith (preFix : Bool) (env : Env) (xs : List (Option DSE)) : Except String (List DS) :=
  processDSEFrom preFix env xs []

/-- `BFT.ProcessDSE` -/
def processDSE := processDSEWith false

/-- the `slices.ContainsFunc` test of `ValidateByzantineEvidence` -/
def justified (localDS : List DS) (ds : DS) : Bool :=
  localDS.any fun s => s.id == ds.id && ds.heights.all (fun h => s.heights.contains h)

def validateList (localDS : List DS) : List (Option DS) → Option String
  | [] => none
  | none :: _ => some ErrEmptyDoubleSigner
  | some ds :: rest => if !justified localDS ds then some ErrMismatchEvidenceAndHeader else validateList localDS rest

/-- `BFT.ValidateByzantineEvidence(slashRecipients, be)`: `none` = accepted -/
def validateByzantineEvidenceWith (preFix : Bool) (env : Env) (slash : Option (List (Option DS))) (be : List (Option DSE)) : Option String :=
  match slash with
  | none => none
  | some l =>
    if l.length == 0 then none
    else
      match processDSEWith preFix env be with
      | .error e => some e
      | .ok localDS => validateList localDS l

def validateByzantineEvidence := validateByzantineEvidenceWith false

/-- `AddDSE` nullifies block and results of both votes before processing -/
def stripQC (q : QC) : QC := { q with block := none, results := none }
def strip (x : DSE) : DSE := { voteA := x.voteA.map stripQC, voteB := x.voteB.map stripQC }

inductive AddResult
  | added | duplicate | rejected (code : String)
deriving DecidableEq, Repr

/-- `BFT.AddDSE`: the decision (the pool itself is kept by the caller; `isDup` = the de-duplicator hit) -/
def addDSEWith (preFix : Bool) (env : Env) (isDup : Bool) (x : Option DSE) : AddResult :=
  match checkBasic x with
  | some e => .rejected e
  | none =>
    match processDSEWith preFix env [x.map strip] with
    | .error e => .rejected e
    | .ok bad => if bad.length == 0 then .rejected ErrInvalidEvidence else if isDup then .duplicate else .added

def addDSE := addDSEWith false

/-- one iteration of `addDSEByPartialQC`: the certificate a stored partial QC is paired with — for the
current height the leader message one phase above in the same round, for an earlier height (PRECOMMIT_VOTE
only) the committed certificate of that height -/
def partialCandidate (curHeight : UInt64) (hd : View) (proposalAt : UInt64 → Nat → Option QC)
    (certAt : UInt64 → Option QC) : Option (Option QC) :=
  if hd.height == curHeight then (proposalAt hd.round (hd.phase + 1)).map some
  else if hd.phase != PRECOMMIT_VOTE then none
  else some (certAt hd.height)

/-- `GetLocalDSE` with one stored partial QC: is a piece of evidence produced? -/
def localDSE (env : Env) (curHeight : UInt64) (pqc : QC) (hd : View) (proposalAt : UInt64 → Nat → Option QC)
    (certAt : UInt64 → Option QC) : Bool :=
  match partialCandidate curHeight hd proposalAt certAt with
  | none => false
  | some qa => addDSE env false (some ⟨qa, some pqc⟩) == .added

/-! ## ledger side (fsm/byzantine.go, store/indexer.go) -/

structure Val where
  stake : UInt64
  committees : List UInt64
  /-- `UnstakingHeight != 0` (force-unstaked validators stay slashable members until they leave) -/
  unstaking : Bool := false
deriving DecidableEq, Repr

structure Params where
  /-- `IsFeatureEnabled(2)`: committee-scoped slashing with the per-block cap -/
  committeeScoped : Bool
  maxSlash : UInt64          -- `MaxSlashPerCommittee`
  dsPercent : UInt64         -- `DoubleSignSlashPercentage`
  minStake : UInt64 := 0     -- `MinimumStakeForValidators`

structure Ledger where
  vals : Addr → Option Val
  /-- the double-signer index: `!IsValidDoubleSigner(address, height)` -/
  indexed : Addr → UInt64 → Bool
  /-- `SlashTracker`: (address, committee) ↦ percent slashed so far in this block -/
  tracker : Addr → UInt64 → UInt64
  /-- ghost: sum of the percentages really applied to the stake per (address, committee) in this block -/
  charged : Addr → UInt64 → Nat
  /-- ghost: every (address, height) handed to the slashing routine for double signing, newest first, all blocks -/
  slashLog : List (Addr × UInt64)

def Ledger.empty : Ledger :=
  { vals := fun _ => none, indexed := fun _ _ => false, tracker := fun _ _ => 0, charged := fun _ _ => 0, slashLog := [] }

def upd2 {β} (f : Addr → UInt64 → β) (a : Addr) (c : UInt64) (v : β) : Addr → UInt64 → β :=
  fun a' c' => if a' = a ∧ c' = c then v else f a' c'

def upd1 {β} (f : Addr → β) (a : Addr) (v : β) : Addr → β := fun a' => if a' = a then v else f a'

/-- `StateMachine.Reset` at a block boundary: a fresh slash tracker -/
def newBlock (L : Ledger) : Ledger := { L with tracker := fun _ _ => 0, charged := fun _ _ => 0 }

/-- the stake part of `SlashValidator`: zero stake deletes the validator; a stake left below the minimum
force-unstakes it (`SetValidatorUnstakingIfBelowMinimum`, an early return of the Go function — the tracker was
already updated by then) -/
def applySlash (minStake : UInt64) (L : Ledger) (a : Addr) (v : Val) (chain percent : UInt64) (cs : List UInt64) : Ledger :=
  let after := stakeAfterSlash v.stake percent
  let L' := { L with charged := upd2 L.charged a chain (L.charged a chain + percent.toNat) }
  if after == 0 then { L' with vals := upd1 L.vals a none }
  else { L' with vals := upd1 L.vals a (some { stake := after, committees := cs,
                                                unstaking := v.unstaking || decide (after < minStake) }) }

/-- `StateMachine.SlashValidator(validator, chainId, percent, p)` -/
def slashValidator (P : Params) (L : Ledger) (a : Addr) (v : Val) (chain percent : UInt64) : Ledger :=
  if P.committeeScoped then
    if !v.committees.contains chain then L
    else
      let slashTotal := L.tracker a chain
      if slashBlocked slashTotal P.maxSlash then L
      else
        let capped := slashCapped slashTotal percent P.maxSlash
        let percent' := if capped then cappedPercent slashTotal P.maxSlash else percent
        let cs := if capped then v.committees.erase chain else v.committees
        applySlash P.minStake { L with tracker := upd2 L.tracker a chain (slashTotal + percent') } a v chain percent' cs
  else applySlash P.minStake L a v chain percent v.committees

/-- `StateMachine.SlashValidators(addresses, chainId, percent, p)`: unknown validators are skipped -/
def slashValidators (P : Params) (L : Ledger) (chain percent : UInt64) : List Addr → Ledger
  | [] => L
  | a :: as =>
    match L.vals a with
    | none => slashValidators P L chain percent as
    | some v => slashValidators P (slashValidator P L a v chain percent) chain percent as

/-- the per-height loop of `HandleDoubleSigners`: `IsValidDoubleSigner`, then `IndexDoubleSigner` -/
def indexHeights (L : Ledger) (a : Addr) : List UInt64 → Except String Ledger
  | [] => .ok L
  | h :: hs =>
    if L.indexed a h then .error ErrInvalidDoubleSigner
    else indexHeights { L with indexed := upd2 L.indexed a h true, slashLog := (a, h) :: L.slashLog } a hs

/-- the outer loop of `HandleDoubleSigners`: the ledger with the new index entries and the slash list -/
def indexAll (addrOf : KeyId → Option Addr) (L : Ledger) : List (Option DS) → Except String (Ledger × List Addr)
  | [] => .ok (L, [])
  | none :: _ => .error ErrEmptyDoubleSigner
  | some ds :: rest =>
    if ds.id.isEmpty then .error ErrEmptyDoubleSigner
    else if ds.heights.isEmpty then .error ErrInvalidDoubleSignHeights
    else
      match addrOf ds.id with
      | none => .error ErrPubKeyFromBytes
      | some a =>
        match indexHeights L a ds.heights with
        | .error e => .error e
        | .ok L1 =>
          match indexAll addrOf L1 rest with
          | .error e => .error e
          | .ok (L2, sl) => .ok (L2, List.replicate ds.heights.length a ++ sl)

/-- `StateMachine.HandleDoubleSigners(chainId, params, doubleSigners)`; an error leaves the caller's state
untouched (the caller's store transaction is discarded, C07) -/
def handleDoubleSigners (P : Params) (addrOf : KeyId → Option Addr) (L : Ledger) (chain : UInt64)
    (dss : List (Option DS)) : Except String Ledger :=
  match indexAll addrOf L dss with
  | .error e => .error e
  | .ok (L1, sl) => .ok (slashValidators P L1 chain P.dsPercent sl)

/-- what can slash inside one block -/
inductive Op
  /-- a certificate result with slash recipients: `HandleByzantine` → `HandleDoubleSigners` -/
  | doubleSign (chain : UInt64) (dss : List (Option DS))
  /-- any other slash (`SlashNonSigners`, or a direct call of `SlashValidators`) -/
  | slash (chain percent : UInt64) (addrs : List Addr)

def stepOp (P : Params) (addrOf : KeyId → Option Addr) (L : Ledger) : Op → Ledger
  | .doubleSign chain dss =>
    match handleDoubleSigners P addrOf L chain dss with
    | .ok L' => L'
    | .error _ => L
  | .slash chain percent addrs => slashValidators P L chain percent addrs

def runOps (P : Params) (addrOf : KeyId → Option Addr) (L : Ledger) (ops : List Op) : Ledger :=
  ops.foldl (stepOp P addrOf) L

/-- one block: fresh tracker, then the block's slashing operations -/
def runBlock (P : Params) (addrOf : KeyId → Option Addr) (L : Ledger) (ops : List Op) : Ledger :=
  runOps P addrOf (newBlock L) ops

def runBlocks (P : Params) (addrOf : KeyId → Option Addr) (L : Ledger) (blocks : List (List Op)) : Ledger :=
  blocks.foldl (runBlock P addrOf) L

def stakeOf (L : Ledger) (a : Addr) : UInt64 := match L.vals a with | some v => v.stake | none => 0

/-! ## certificate results of a nested committee on the root chain (fsm/message_helpers.go, fsm/message.go, fsm/automatic.go)

This is the path on which a proposer-supplied slash list of a NESTED chain reaches `HandleDoubleSigners`: a
certificate-results transaction carries a certificate of the nested committee with `Results` attached. -/

/-- `lib.CommitteeData` as far as the guards of `HandleCertificateResults` read it -/
structure CommitteeData where
  lastRootHeight : UInt64 := 0
  lastChainHeight : UInt64 := 0
deriving DecidableEq, Repr

/-- `MessageCertificateResults.Check`, the part about the certificate (reward recipients, orders and checkpoint
are inputs taken as well-formed). `phaseRule = false` is the behaviour before the repair: an ELECTION_VOTE
certificate — whose sign bytes cover header and proposer key only — was let through with results attached. -/
def certResultsCheck (phaseRule : Bool) (globalMax : Nat) (q : QC) : Option String :=
  match Gate.checkBasic q globalMax with
  | some e => some e
  | none =>
    if q.results.isNone then some Gen.Evidence.fsmErrEmptyCertificateResults
    else if q.block.isSome then some ErrNilBlock
    else
      match q.header with
      | none => some ErrEmptyView
      | some hd => if phaseRule && hd.phase == phaseElectionVote then some ErrWrongPhase else none

/-- a certificate-results transaction through `CheckTx` (stateless check, then the authorised signer: the
certificate's proposer key) and `HandleMessageCertificateResults` → `HandleCertificateResults` →
`HandleByzantine` → `HandleDoubleSigners`; the slash list is the one inside `Results`, which `CheckBasic` ties
to `ResultsHash`. Not modelled: root/own chain id refusal, retirement, dex batch, swaps, checkpoint, non-signer
counting, reward percents (none of them reads or writes a stake, the index or the tracker). -/
def certificateResultsWith (phaseRule : Bool) (env : Env) (P : Params) (addrOf : KeyId → Option Addr) (L : Ledger)
    (cd : CommitteeData) (q : QC) (signedByProposer : Bool) (slash : Option (List (Option DS))) :
    Except String (Ledger × CommitteeData) :=
  match certResultsCheck phaseRule env.globalMaxBlockSize q with
  | some e => .error e
  | none =>
    if !signedByProposer then .error Gen.Evidence.fsmErrUnauthorizedTx
    else
      match q.header with
      | none => .error ErrEmptyView
      | some hd =>
        match env.committeeAt hd.rootHeight with
        | none => .error ErrNoValidators
        | some ms =>
          match qcCheck { env with chainId := hd.chainId } q ms with
          | .error e => .error e
          | .ok true => .error ErrNoMaj23
          | .ok false =>
            if hd.rootHeight < cd.lastRootHeight then .error ErrInvalidQCRootChainHeight
            else if hd.height ≤ cd.lastChainHeight then .error ErrInvalidQCCommitteeHeight
            else
              match slash with
              | none => .ok (L, { lastRootHeight := hd.rootHeight, lastChainHeight := hd.height })
              | some l =>
                match handleDoubleSigners P addrOf L hd.chainId l with
                | .error e => .error e
                | .ok L' => .ok (L', { lastRootHeight := hd.rootHeight, lastChainHeight := hd.height })

def certificateResults := certificateResultsWith true

/-! ## the expiry bound as the node wires it -/

/-- `fsm.TimeMachine(height)` clamp followed by `LoadMinimumEvidenceHeight` on that state:
what `LoadMinimumEvidenceHeight(rootChainId, h)` answers on a root chain at height `cur` -/
def wiredMinEvidence (cur unstakingBlocks h : UInt64) : UInt64 :=
  Gen.Evidence.minEvidenceHeight (if h == 0 || h > cur then cur else h) unstakingBlocks

end Canopy.Evidence
