/-
M-bytes / M-key: byte strings, the one-byte length-prefixed segment codec of `lib.JoinLenPrefix` /
`lib.DecodeLengthPrefixed`, and big-endian `formatUint64`. Core Lean only (used by the driver).
-/
namespace Canopy

abbrev Bytes := List UInt8

/-- `lib.JoinLenPrefix` on non-nil segments: each segment preceded by `byte(len(seg))`
(so the length byte is `len mod 256`, exactly as the Go conversion truncates). -/
def joinLenPrefix : List Bytes → Bytes
  | [] => []
  | s :: rest => UInt8.ofNat s.length :: (s ++ joinLenPrefix rest)

/-- `lib.JoinLenPrefix` as called: `nil` arguments are skipped. -/
def joinLenPrefixOpt (segs : List (Option Bytes)) : Bytes :=
  joinLenPrefix (segs.filterMap id)

/-- `lib.DecodeLengthPrefixed`; `none` is the Go `panic("corrupt or incomplete key")`. -/
def decodeLenPrefixed : Bytes → Option (List Bytes)
  | [] => some []
  | n :: rest =>
    if _h : n.toNat ≤ rest.length then
      match decodeLenPrefixed (rest.drop n.toNat) with
      | some segs => some (rest.take n.toNat :: segs)
      | none => none
    else none
termination_by b => b.length
decreasing_by simp [List.length_drop]; omega

/-- big-endian 8-byte encoding (`binary.BigEndian.PutUint64`) -/
def formatUint64 (u : UInt64) : Bytes :=
  [(u >>> 56).toUInt8, (u >>> 48).toUInt8, (u >>> 40).toUInt8, (u >>> 32).toUInt8,
   (u >>> 24).toUInt8, (u >>> 16).toUInt8, (u >>> 8).toUInt8, u.toUInt8]

def hexDigit (n : Nat) : Char :=
  if n < 10 then Char.ofNat (48 + n) else Char.ofNat (87 + n)

def toHex (b : Bytes) : String :=
  String.ofList (b.flatMap fun x => [hexDigit (x.toNat / 16), hexDigit (x.toNat % 16)])

def hexVal (c : Char) : Option Nat :=
  if '0' ≤ c ∧ c ≤ '9' then some (c.toNat - 48)
  else if 'a' ≤ c ∧ c ≤ 'f' then some (c.toNat - 87)
  else if 'A' ≤ c ∧ c ≤ 'F' then some (c.toNat - 55)
  else none

def ofHexAux : List Char → Option Bytes
  | [] => some []
  | [_] => none
  | a :: b :: rest => do
    let x ← hexVal a
    let y ← hexVal b
    let r ← ofHexAux rest
    pure (UInt8.ofNat (x * 16 + y) :: r)

/-- hex decoding; "-" denotes the empty string on the wire protocol -/
def ofHex (s : String) : Option Bytes :=
  if s == "-" then some [] else ofHexAux s.toList

def hexOrDash (b : Bytes) : String := if b.isEmpty then "-" else toHex b

end Canopy

namespace Canopy
/-- typed argument of a generated function, as carried by the driver's line protocol -/
inductive Arg
  | u (x : UInt64)
  | b (x : Bytes)

/-- `u:<decimal>` or `b:<hex or ->` -/
def Arg.parse (s : String) : Option Arg :=
  if s.startsWith "u:" then (s.drop 2).toString.toNat?.map (fun n => Arg.u (UInt64.ofNat n))
  else if s.startsWith "b:" then (ofHex (s.drop 2).toString).map Arg.b
  else none
end Canopy
