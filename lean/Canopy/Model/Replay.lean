import Canopy.Model.Proto
/-!
C06 model: the transaction admission path of the state machine (`fsm.CheckTx`, `CheckReplay`,
`CheckSignature`, `ApplyTransactions`) for `send` transactions, over the M-proto decoder.

Cryptography is symbolic (DESIGN §5): an environment `Env` lists the key pairs that exist (canonical
public key ↦ address) and the signatures that have been produced (key, message, signature); a
signature verifies iff it is listed. Public-key *parsing* is modelled structurally from
`crypto.NewPublicKeyFromBytes` (scheme by length; a 65-byte key with the SEC1 prefix `0x04` is the
same Ethereum key as its 64-byte tail). The Ethereum RLP conversion (`fsm.RLPToCanopyTransaction[V2]`)
and the Ethereum transaction hash are uninterpreted functions tabulated in `Env.rlp`.

`Chain.strictTx` / `Chain.strictKey` select the behaviour of the *repaired* code (bytes must equal the
canonical marshalling of their decoded form; the public key must be in the encoding
`PublicKeyI.Bytes()` produces); the code as it stands has both `false`. The drivers take the flags
from `Gen.Proto.canonicalTxEnforced` / `canonicalKeyEnforced`, i.e. from the source of `CheckTx` /
`CheckSignature`.
-/
namespace Canopy.Replay
open Canopy Canopy.Proto

/-- rejection classes (coarsening of `lib.ErrorI.Code()`) -/
inductive Rej
  | unmarshal | emptyMsg | msgName | emptySig | txHeight | txTime | memo | nilNetwork | emptyChain
  | wrongNetwork | wrongChain | dup | rlp | protocol | msg | fee | sig | nonce | funds
  | unsupported
  deriving DecidableEq, Repr

def Rej.toString : Rej → String
  | .unmarshal => "unmarshal" | .emptyMsg => "empty-msg" | .msgName => "msg-name"
  | .emptySig => "empty-sig" | .txHeight => "tx-height" | .txTime => "tx-time" | .memo => "memo"
  | .nilNetwork => "nil-network" | .emptyChain => "empty-chain" | .wrongNetwork => "wrong-network"
  | .wrongChain => "wrong-chain" | .dup => "dup" | .rlp => "rlp" | .protocol => "protocol"
  | .msg => "msg" | .fee => "fee" | .sig => "sig" | .nonce => "nonce" | .funds => "funds"
  | .unsupported => "unsupported"

def Rej.all : List Rej :=
  [.unmarshal, .emptyMsg, .msgName, .emptySig, .txHeight, .txTime, .memo, .nilNetwork, .emptyChain, .wrongNetwork,
   .wrongChain, .dup, .rlp, .protocol, .msg, .fee, .sig, .nonce, .funds, .unsupported]

def Rej.ofString (s : String) : Option Rej := Rej.all.find? (·.toString == s)

inductive Scheme | ed25519 | eth | secp | bls | multi
  deriving DecidableEq, Repr

/-- `crypto.NewPublicKeyFromBytes`: scheme and canonical key bytes (`PublicKeyI.Bytes()`); whether the
bytes are a point on the curve is not modelled (a key that does not exist has no signatures).
Any other length is offered to `NewMultiBLSFromPublicKey` (a protobuf `MultiPublicKey`: key list, signer
bitmap, threshold); the model treats the whole byte string as the key, so two signer subsets of one
multi-signature account are two keys with one address. -/
def pkDecode (pk : Bytes) : Option (Scheme × Bytes) :=
  if pk.length == 32 then some (.ed25519, pk)
  else if pk.length == 64 then some (.eth, pk)
  else if pk.length == 65 then
    match pk with
    | 4 :: t => some (.eth, t)
    | _ => none
  else if pk.length == 33 then some (.secp, pk)
  else if pk.length == 48 then some (.bls, pk)
  else some (.multi, pk)

/-- a serialized `crypto.MultiPublicKey` (public_keys = 1 repeated bytes, bitmap = 2, threshold = 3):
the signer bitmap has one bit per key, padded to whole bytes; the padding bits are zero. They are
outside the signed bytes, the address (keys + threshold) and the aggregation, so each pattern of them
would be another byte string for the same key and signature. -/
def multiKeyShape (pk : Bytes) : Option (Nat × Bytes) :=
  match parse pk with
  | none => none
  | some fs =>
    let n := (fs.filter fun f => f.num == 1 && (match f.val with | .len _ => true | _ => false)).length
    let bitmap : Bytes := fs.foldl (fun acc f => match f.num, f.val with
      | 2, .len b => b
      | _, _ => acc) []
    some (n, bitmap)

/-- `sign.Mask.SetMask`: the bitmap has exactly ⌈n/8⌉ bytes (enforced by the code as it stands) -/
def multiLenOk (pk : Bytes) : Bool :=
  match multiKeyShape pk with
  | some (n, bitmap) => n != 0 && bitmap.length == (n + 7) / 8
  | none => false

/-- … and its padding bits are zero (the repaired parser) -/
def multiPadOk (pk : Bytes) : Bool :=
  match multiKeyShape pk with
  | some (n, bitmap) =>
    bitmap.length == (n + 7) / 8 &&
      (n % 8 == 0 || (match bitmap.getLast? with
        | some last => last.toNat >>> (n % 8) == 0
        | none => false))
  | none => false

/-- the public key is in the encoding `PublicKeyI.Bytes()` produces -/
def pkCanonical (pk : Bytes) : Bool :=
  match pkDecode pk with
  | some (_, k) => k == pk
  | none => false

structure RlpEntry where
  v2 : Bool
  ethTx : Bytes        -- the raw Ethereum transaction carried in `Signature.signature`
  ethHash : Bytes      -- its Ethereum hash (lookup alias in the indexer)
  canonTx : Bytes      -- `lib.Marshal` of the Canopy transaction the conversion yields
  convErr : Option Rej -- the conversion fails with this class instead
  deriving DecidableEq, Repr

structure Env where
  keys : List (Bytes × Bytes)            -- canonical public key ↦ address
  sigs : List (Bytes × Bytes × Bytes)    -- (canonical public key, message, signature) that verify
  rlp : List RlpEntry
  deriving Repr

def Env.empty : Env := ⟨[], [], []⟩

def Env.address (e : Env) (k : Bytes) : Option Bytes := (e.keys.find? (·.1 == k)).map (·.2)
def Env.verifies (e : Env) (k m s : Bytes) : Bool := e.sigs.contains (k, m, s)
def Env.rlpOf (e : Env) (v2 : Bool) (tx : Bytes) : Option RlpEntry :=
  e.rlp.find? (fun r => r.v2 == v2 && r.ethTx == tx)
/-- `ethereumTxHashFromRawBytes` does not depend on the memo -/
def Env.ethHash (e : Env) (tx : Bytes) : Option Bytes := (e.rlp.find? (·.ethTx == tx)).map (·.ethHash)

structure Account where
  addr : Bytes
  balance : Nat
  nonce : Nat
  deriving DecidableEq, Repr

structure Chain where
  networkId : Nat
  chainId : Nat
  height : Nat
  minFee : Nat
  legacyRlpDisabled : Bool
  strictTx : Bool            -- repaired code: bytes must be the canonical marshalling
  strictKey : Bool           -- repaired code: public key must be in canonical encoding
  strictPad : Bool := false  -- repaired code: padding bits of a multi-signature key's bitmap must be zero
  vesting : List (Bytes × Nat × Nat × Nat) := []   -- terms of the vesting tranche an account received (start, cliff, end)
  index : List Bytes          -- hashes under which included transactions can be looked up
  accounts : List Account
  deriving Repr

def Chain.account (c : Chain) (a : Bytes) : Account :=
  (c.accounts.find? (·.addr == a)).getD ⟨a, 0, 0⟩

def Chain.setAccount (c : Chain) (acc : Account) : Chain :=
  if c.accounts.any (·.addr == acc.addr) then
    { c with accounts := c.accounts.map fun x => if x.addr == acc.addr then acc else x }
  else { c with accounts := c.accounts ++ [acc] }

/-! ## the `send` payload -/

structure SendC where
  fromAddr : Bytes
  toAddr : Bytes
  amount : Nat
  vs : Nat := 0       -- vesting_start_height
  vc : Nat := 0       -- vesting_cliff_height
  ve : Nat := 0       -- vesting_end_height
  deriving DecidableEq, Repr

def SendC.hasVesting (s : SendC) : Bool := s.vs != 0 || s.vc != 0 || s.ve != 0

def applySend (s : SendC) (f : Field) : SendC :=
  match f.num, f.val with
  | 1, .len b => { s with fromAddr := b }
  | 2, .len b => { s with toAddr := b }
  | 3, .varint n => { s with amount := n }
  | 4, .varint n => { s with vs := n }
  | 5, .varint n => { s with vc := n }
  | 6, .varint n => { s with ve := n }
  | _, _ => s

def slash : UInt8 := 47

/-- the part of a type URL after its last '/' (`protoregistry.Types.FindMessageByURL`) -/
def typeName (url : Bytes) : Bytes :=
  ((url.reverse.takeWhile (· != slash))).reverse

/-- "types.MessageSend" -/
def sendTypeName : Bytes := [116, 121, 112, 101, 115, 46, 77, 101, 115, 115, 97, 103, 101, 83, 101, 110, 100]
/-- "RLP" (`lib.RLPIndicator`) -/
def rlpMemo : Bytes := [82, 76, 80]
/-- "RLP.V2" (`lib.RLPV2Indicator`) -/
def rlpV2Memo : Bytes := [82, 76, 80, 46, 86, 50]

/-- `CheckMessage` for a send: `FromAny`, `MessageSend.Check` -/
def checkSend (a : AnyC) : Except Rej SendC :=
  if typeName a.typeUrl != sendTypeName then .error .unsupported
  else match parse a.value with
    | none => .error .msg
    | some fs =>
      let s := fs.foldl applySend ⟨[], [], 0, 0, 0, 0⟩
      if s.fromAddr.length != 20 then .error .msg
      else if s.toAddr.length != 20 then .error .msg
      else if s.amount == 0 then .error .msg
      -- `MessageSend.Check`: a vesting schedule, if any, is start < end with the cliff in between
      else if s.hasVesting && (s.ve <= s.vs || s.vc < s.vs || s.ve < s.vc) then .error .msg
      else .ok s

/-! ## `Transaction.CheckBasic` -/

def checkBasic (t : TxContent) : Except Rej (AnyC × SigC) :=
  match t.msg with
  | none => .error .emptyMsg
  | some a =>
    if t.messageType.isEmpty then .error .msgName
    else match t.signature with
      | none => .error .emptySig
      | some g =>
        if g.signature.isEmpty || g.publicKey.isEmpty then .error .emptySig
        else if t.createdHeight == 0 then .error .txHeight
        else if t.time == 0 then .error .txTime
        else if 200 < t.memo.length then .error .memo
        else if t.networkId == 0 then .error .nilNetwork
        else if t.chainId == 0 then .error .emptyChain
        else .ok (a, g)

/-! ## `StateMachine.CheckReplay` -/

def blockAcceptanceRange : Nat := 4320

/-- the acceptance window (transcribed from the tail of `CheckReplay`) -/
def inWindow (height created : Nat) : Bool :=
  let maxHeight := height + blockAcceptanceRange
  let minHeight := if height > blockAcceptanceRange then height - blockAcceptanceRange else 0
  !(created > maxHeight || created < minHeight)

def isRlpMemo (m : Bytes) : Bool := m == rlpMemo || m == rlpV2Memo

def isEthKey (pk : Bytes) : Bool :=
  match pkDecode pk with
  | some (.eth, _) => true
  | _ => false

/-- `withHash = false` is the first pass of `ApplyTransactions` (`CheckTx(tx, "", batch)`): no lookup -/
def checkReplay (e : Env) (c : Chain) (withHash : Bool) (raw : Bytes) (t : TxContent) (g : SigC) : Except Rej Unit :=
  if c.networkId != t.networkId then .error .wrongNetwork
  else if c.chainId != t.chainId then .error .wrongChain
  else if c.height < 2 then .ok ()
  else
    let dupCheck : Except Rej Unit :=
      if !withHash then .ok ()
      else if c.index.contains (txId raw) then .error .dup
      else if isRlpMemo t.memo && isEthKey g.publicKey then
        match e.ethHash g.signature with
        | none => .error .rlp
        | some h => if c.index.contains h then .error .dup else .ok ()
      else .ok ()
    match dupCheck with
    | .error r => .error r
    | .ok () =>
      if t.memo == rlpV2Memo then .ok ()
      else if inWindow c.height t.createdHeight then .ok ()
      else .error .txHeight

/-! ## `StateMachine.CheckSignature` -/

def checkSignature (e : Env) (strict : Bool) (pad : Bool) (t : TxContent) (g : SigC) (authorized : Bytes) : Except Rej Bytes :=
  match pkDecode g.publicKey with
  | none => .error .sig
  | some (sch, k) =>
    -- `NewMultiBLSFromPublicKey` (repaired): a multi-signature key with raised padding bits does not parse
    if sch == .multi && !multiLenOk g.publicKey then .error .sig else
    if pad && sch == .multi && !multiPadOk g.publicKey then .error .sig else
    -- the repaired code: the key bytes are what `PublicKeyI.Bytes()` returns for the parsed key
    if strict && k != g.publicKey then .error .sig else
    let hasEth := sch == .eth
    let verified : Except Rej Unit :=
      if t.memo == rlpV2Memo || (t.memo == rlpMemo && hasEth) then
        if !hasEth then .error .sig
        else match e.rlpOf (t.memo == rlpV2Memo) g.signature with
          | none => .error .rlp
          | some r =>                                                        -- `VerifyRLPBytes`
            match r.convErr with
            | some err => .error err
            | none => if r.canonTx == canon t then .ok () else .error .sig
      else if e.verifies k (signBytes t) g.signature then .ok () else .error .sig
    match verified with
    | .error r => .error r
    | .ok () =>
      match e.address k with
      | none => .error .sig
      | some a => if a == authorized then .ok a else .error .sig

/-! ## `StateMachine.CheckTx` -/

structure Checked where
  tx : TxContent
  send : SendC
  sender : Bytes
  deriving Repr

def maxUint64 : Nat := 2^64 - 1

def checkTx (e : Env) (c : Chain) (withHash : Bool) (raw : Bytes) : Except Rej Checked :=
  match decodeTx raw with
  | none => .error .unmarshal
  | some t =>
    -- the repaired code: the bytes are the canonical marshalling of what they decode to
    if c.strictTx && raw != canon t then .error .unmarshal
    else match checkBasic t with
    | .error r => .error r
    | .ok (a, g) =>
      match checkReplay e c withHash raw t g with
      | .error r => .error r
      | .ok () =>
        if t.memo == rlpMemo && c.legacyRlpDisabled then .error .protocol
        else match checkSend a with
        | .error r => .error r
        | .ok s =>
          if t.fee < c.minFee then .error .fee
          else match checkSignature e c.strictKey c.strictPad t g s.fromAddr with
          | .error r => .error r
          | .ok sender =>
            if t.memo == rlpV2Memo && (t.nonce < (c.account sender).nonce || t.nonce == maxUint64) then .error .nonce
            else .ok ⟨t, s, sender⟩

/-- the transaction passes `CheckTx` as `ApplyTransaction` calls it (with its hash) -/
def accepted (e : Env) (c : Chain) (raw : Bytes) : Bool :=
  match checkTx e c true raw with
  | .ok _ => true
  | .error _ => false

/-! ## execution (`ApplyTransaction` for a send) and `ApplyTransactions` -/

/-- the vesting terms recorded for an account -/
def Chain.vestingOf (c : Chain) (a : Bytes) : Option (Nat × Nat × Nat) := (c.vesting.find? (·.1 == a)).map (·.2)

/-- a second tranche with other terms than the recorded one -/
def Chain.vestingConflict (c : Chain) (s : SendC) : Bool :=
  s.hasVesting && (match c.vestingOf s.toAddr with
    | some t => t != (s.vs, s.vc, s.ve)
    | none => false)

/-- remember the terms of the first vesting tranche an account receives -/
def Chain.noteVesting (c : Chain) (s : SendC) : Chain :=
  if s.hasVesting && (c.vestingOf s.toAddr).isNone
  then { c with vesting := (s.toAddr, s.vs, s.vc, s.ve) :: c.vesting } else c

/-- fee, debit, credit, and — for RLP.V2 — the nonce floor -/
def applyTransfer (c : Chain) (k : Checked) : Except Rej Chain :=
  let s := c.account k.sender
  if s.balance < k.tx.fee then .error .funds
  else
    let c := c.setAccount { s with balance := s.balance - k.tx.fee }
    let s := c.account k.send.fromAddr
    if s.balance < k.send.amount then .error .funds
    else
      let c := c.setAccount { s with balance := s.balance - k.send.amount }
      let r := c.account k.send.toAddr
      let c := c.setAccount { r with balance := r.balance + k.send.amount }
      if k.tx.memo == rlpV2Memo then
        let s := c.account k.sender
        .ok (c.setAccount { s with nonce := k.tx.nonce + 1 })
      else .ok c

/-- A send with a vesting schedule (`AccountAddWithVesting`) credits the recipient like a plain send;
the model does not track how much of a tranche is still locked (senders in the driver's scenarios
never spend locked funds), and answers `unsupported` when a second tranche with OTHER terms arrives
(the code then decides by the locked remainder: `ErrIncompatibleVesting`). Receiving a send — plain
or vesting — never touches the recipient's nonce. -/
def applyChecked (c : Chain) (k : Checked) : Except Rej Chain :=
  if maxUint64 - k.tx.fee < k.send.amount then .error .msg
  else if c.vestingConflict k.send then .error .unsupported
  else applyTransfer (c.noteVesting k.send) k

/-- the hashes under which an included transaction is indexed (`store.indexedTxHashes`) -/
def indexedHashes (e : Env) (raw : Bytes) (t : TxContent) : List Bytes :=
  let h := txId raw
  match t.signature with
  | some g =>
    if isRlpMemo t.memo && !g.signature.isEmpty then
      match e.ethHash g.signature with
      | some eh => if eh == h then [h] else [h, eh]
      | none => [h]
    else [h]
  | none => [h]

inductive TxOutcome
  | ok
  | rej (r : Rej)
  deriving DecidableEq, Repr

def TxOutcome.toString : TxOutcome → String
  | .ok => "ok"
  | .rej r => "rej:" ++ r.toString

/-- one block: pass 1 checks every transaction against the state at the start of the block (no hash
lookup); pass 2 executes the survivors in order, each re-checked with its hash against the current
state; a repeated hash inside the block makes the whole block invalid (`none`). Included
transactions are indexed when the block is committed (so the lookup sees earlier blocks only). -/
def applyBlock (e : Env) (c : Chain) (txs : List Bytes) : Option (Chain × List TxOutcome) :=
  let pass1 := txs.map fun raw => checkTx e c false raw
  let rec go (cur : Chain) (seen : List Bytes) (newIdx : List Bytes) (acc : List TxOutcome) :
      List (Bytes × Except Rej Checked) → Option (Chain × List TxOutcome)
    | [] => some ({ cur with index := cur.index ++ newIdx, height := cur.height + 1 }, acc.reverse)
    | (raw, p1) :: rest =>
      match p1 with
      | .error r => go cur seen newIdx (.rej r :: acc) rest
      | .ok _ =>
        if seen.contains (txId raw) then none
        else
          let seen := txId raw :: seen
          match checkTx e cur true raw with
          | .error r => go cur seen newIdx (.rej r :: acc) rest
          | .ok k =>
            match applyChecked cur k with
            | .error r => go cur seen newIdx (.rej r :: acc) rest
            | .ok c' => go c' seen (newIdx ++ indexedHashes e raw k.tx) (.ok :: acc) rest
  go c [] [] [] (txs.zip pass1)

end Canopy.Replay
