import Canopy.Model.Proto
/-!
C19 (b) model: the bytes that get signed / hashed for certificates, consensus messages and evidence,
as `canon ∘ project` over the M-proto wire model.

* `canonView`, `canonQc`, `canonDse`, `canonMsg` — `lib.Marshal` of `lib.View`,
  `lib.QuorumCertificate`, `bft.DoubleSignEvidence`, `bft.Message` (field numbers from
  `lib/.proto/{consensus,certificate,bft}.proto`, pinned by facts in `Props/C19.lean`).
  Sub-messages that the sign-bytes functions never look into are carried as their own canonical
  bytes (opaque): `CertificateResult`, `AggregateSignature`, `VDF`.
* `qcSignBytes` — `QuorumCertificate.SignBytes` (`lib/certificate.go`): the ELECTION_VOTE special
  case keeps `Header` and `ProposerKey`; the general case strips `Results`, `Block`, `Signature`.
* `msgSignBytes` — `bft.Message.SignBytes` (`bft/msg.go`): proposer / replica / pacemaker cases.

Core Lean only, executable (used by the driver).
-/
namespace Canopy.SignBytes
open Canopy Canopy.Proto

/-- the wire values one schema field contributes, under its field number -/
abbrev Slot := Nat × List WireVal

/-- deterministic marshalling: slots in ascending field-number order, each value a field -/
def assemble (l : List Slot) : List Field := l.flatMap fun s => s.2.map (Field.mk s.1)

def uintO (n : Nat) : List WireVal := if n == 0 then [] else [.varint n]
def lenO (b : Bytes) : List WireVal := if b.isEmpty then [] else [.len b]
def msgO {α : Type} (enc : α → Bytes) : Option α → List WireVal
  | some a => [.len (enc a)]
  | none => []
def repO {α : Type} (enc : α → Bytes) (l : List α) : List WireVal := l.map fun a => .len (enc a)

/-! ## `lib.View` -/

structure ViewC where
  networkId : Nat
  chainId : Nat
  height : Nat
  rootHeight : Nat
  round : Nat
  phase : Nat
  deriving DecidableEq, Repr

def ViewC.slots (v : ViewC) : List Slot :=
  [(1, uintO v.networkId), (2, uintO v.chainId), (3, uintO v.height), (4, uintO v.rootHeight),
   (5, uintO v.round), (6, uintO v.phase)]

def canonView (v : ViewC) : Bytes := encFields (assemble v.slots)

/-! ## `lib.QuorumCertificate` -/

structure QcC where
  header : Option ViewC
  results : Option Bytes       -- `lib.Marshal(x.Results)` (opaque)
  resultsHash : Bytes
  block : Bytes
  blockHash : Bytes
  proposerKey : Bytes
  signature : Option Bytes     -- `lib.Marshal(x.Signature)` (opaque)
  deriving DecidableEq, Repr

def QcC.slots (q : QcC) : List Slot :=
  [(1, msgO canonView q.header), (2, msgO id q.results), (3, lenO q.resultsHash), (4, lenO q.block),
   (5, lenO q.blockHash), (6, lenO q.proposerKey), (7, msgO id q.signature)]

def canonQc (q : QcC) : Bytes := encFields (assemble q.slots)

/-- `lib.Phase` values (consensus.proto) -/
def phElection : Nat := 1
def phElectionVote : Nat := 2
def phPropose : Nat := 3
def phProposeVote : Nat := 4
def phPrecommit : Nat := 5
def phPrecommitVote : Nat := 6
def phCommit : Nat := 7
def phRoundInterrupt : Nat := 9

def QcC.isElectionVote (q : QcC) : Bool :=
  match q.header with
  | some h => h.phase == phElectionVote
  | none => false

/-- what `QuorumCertificate.SignBytes` keeps -/
def QcC.signProjection (q : QcC) : QcC :=
  if q.isElectionVote then ⟨q.header, none, [], [], [], q.proposerKey, none⟩
  else { q with results := none, block := [], signature := none }

/-- `QuorumCertificate.SignBytes` -/
def qcSignBytes (q : QcC) : Bytes := canonQc q.signProjection

/-! ## `bft.DoubleSignEvidence`, `bft.Message` -/

structure DseC where
  voteA : Option QcC
  voteB : Option QcC
  deriving DecidableEq, Repr

def DseC.slots (d : DseC) : List Slot := [(1, msgO canonQc d.voteA), (2, msgO canonQc d.voteB)]
def canonDse (d : DseC) : Bytes := encFields (assemble d.slots)

structure MsgC where
  header : Option ViewC
  vrf : Option SigC
  qc : Option QcC
  highQc : Option QcC
  evidence : List DseC
  vdf : Option Bytes           -- `lib.Marshal(x.Vdf)` (opaque)
  signature : Option SigC
  timestamp : Nat
  rcBuildHeight : Nat
  deriving DecidableEq, Repr

def MsgC.slots (m : MsgC) : List Slot :=
  [(1, msgO canonView m.header), (2, msgO canonSig m.vrf), (3, msgO canonQc m.qc), (4, msgO canonQc m.highQc),
   (5, repO canonDse m.evidence), (6, msgO id m.vdf), (7, msgO canonSig m.signature),
   (8, uintO m.timestamp), (9, uintO m.rcBuildHeight)]

def canonMsg (m : MsgC) : Bytes := encFields (assemble m.slots)

def MsgC.empty : MsgC := ⟨none, none, none, none, [], none, none, 0, 0⟩

/-- `Message.IsProposerMessage` -/
def MsgC.isProposer (m : MsgC) : Bool :=
  match m.header with
  | some h => h.phase == phElection || h.phase == phPropose || h.phase == phPrecommit || h.phase == phCommit
  | none => false

/-- `Message.IsReplicaMessage` -/
def MsgC.isReplica (m : MsgC) : Bool :=
  match m.qc with
  | some q => match q.header with
    | some h => m.header.isNone && (h.phase == phElectionVote || h.phase == phProposeVote || h.phase == phPrecommitVote)
    | none => false
  | none => false

/-- `Message.IsPacemakerMessage` -/
def MsgC.isPacemaker (m : MsgC) : Bool :=
  match m.qc with
  | some q => match q.header with
    | some h => h.phase == phRoundInterrupt
    | none => false
  | none => false

/-- the message the proposer case marshals: header, vrf, high-QC, evidence and the QC with block and
results replaced by their hashes (kept: header, block hash, results hash, proposer key, signature).
NOT covered: `vdf`, `timestamp`, `rcBuildHeight`. -/
def MsgC.proposerProjection (m : MsgC) : MsgC :=
  { header := m.header, vrf := m.vrf,
    qc := m.qc.map fun q => { q with results := none, block := [] },
    highQc := m.highQc, evidence := m.evidence, vdf := none, signature := none, timestamp := 0, rcBuildHeight := 0 }

/-- the certificate a replica vote signs (then through `QuorumCertificate.SignBytes`) -/
def voteProjection (q : QcC) : QcC := ⟨q.header, none, q.resultsHash, [], q.blockHash, q.proposerKey, none⟩

def MsgC.pacemakerProjection (q : QcC) : MsgC :=
  { MsgC.empty with qc := some ⟨q.header, none, [], [], [], [], none⟩ }

/-- `bft.Message.SignBytes` (`nil` = `[]` when no case applies) -/
def msgSignBytes (m : MsgC) : Bytes :=
  if m.isProposer then canonMsg m.proposerProjection
  else if m.isReplica then
    match m.qc with
    | some q => qcSignBytes (voteProjection q)
    | none => []
  else if m.isPacemaker then
    match m.qc with
    | some q => canonMsg (MsgC.pacemakerProjection q)
    | none => []
  else []

/-! ## well-formedness the handlers demand of a decoded, validly signed message -/

/-- `bft.checkSignatureBasic`: present, 48-byte BLS public key, 96-byte BLS signature -/
def sigBasicOk : Option SigC → Bool
  | some g => g.publicKey.length == 48 && g.signature.length == 96
  | none => false

/-- the ELECTION branch of `BFT.CheckProposerMessage` (beyond header and message signature): the VRF is
present with the right element sizes and names the sender — only then is `x.Vrf.PublicKey` read -/
def MsgC.electionWellFormed (m : MsgC) (senderKey : Bytes) : Bool :=
  sigBasicOk m.vrf && (match m.vrf with
    | some g => g.publicKey == senderKey
    | none => false)

end Canopy.SignBytes
