import Canopy.Model.Bytes
import Canopy.Gen.Mux
/-!
M-mux (C18): `p2p.MultiConn` — per-topic send queues, an arbitrary scheduler, the receiver's
per-topic assembler with its size cap, the inbox. Core Lean only.

Everything is parametric in the limits (`Limits`); the instance `Limits.code` takes them from the
constants generated from `p2p/conn.go` and the topic enum of `lib/peer.pb.go`.
-/
namespace Canopy.Mux
open Canopy

structure Packet where
  topic : Nat
  eof : Bool
  bytes : Bytes
  deriving DecidableEq, Repr

structure Limits where
  /-- `maxDataChunkSize`: payload bytes per packet -/
  chunk : Nat
  /-- `maxMessageSize`: cap of the receiver's assembler -/
  maxMsg : Nat
  /-- `maxInboxQueueSize` -/
  inboxCap : Nat
  /-- `lib.Topic_HEARTBEAT`: handled by the connection itself, never assembled -/
  heartbeat : Nat
  /-- `lib.Topic_INVALID`: `NewStreams` creates a stream for every id below it -/
  invalid : Nat
  /-- ids `< inboxTopics` other than the heartbeat have an application inbox (`p2p.New` makes channels
  for `0..Topic_HEARTBEAT`); streams `inboxTopics ≤ id < invalid` exist but their inbox is a nil channel -/
  inboxTopics : Nat
  /-- `Send` ends the connection when `queueSends` reports that only a prefix of the message was
  enqueued (generated fact `partialEnqueueTearsDown`) -/
  tearDownOnPartial : Bool
  chunk_pos : 0 < chunk

def Limits.code : Limits where
  chunk := Gen.Mux.maxDataChunkSize
  maxMsg := Gen.Mux.maxMessageSize
  inboxCap := Gen.Mux.maxInboxQueueSize
  heartbeat := Gen.Mux.topic_HEARTBEAT
  invalid := Gen.Mux.topic_INVALID
  inboxTopics := Gen.Mux.topic_HEARTBEAT
  tearDownOnPartial := Gen.Mux.partialEnqueueTearsDown
  chunk_pos := by decide

/-- `p2p.split(buf, lim)`:
`if len(buf)==0 {return [buf]}; for len(buf) >= lim {chunk, buf = buf[:lim], buf[lim:]; append}; if len(buf) > 0 {append(buf)}`.
`fuel` bounds the loop (each round removes `lim ≥ 1` bytes); `split` supplies enough. -/
def splitLoop (lim : Nat) : Nat → Bytes → List Bytes
  | 0, _ => []
  | fuel + 1, buf =>
    if buf.length ≥ lim then buf.take lim :: splitLoop lim fuel (buf.drop lim)
    else if buf.length > 0 then [buf] else []

def split (buf : Bytes) (lim : Nat) : List Bytes :=
  if buf.length = 0 then [buf] else splitLoop lim (buf.length + 1) buf

/-- the chunk LENGTHS `split` produces, computed from the length alone (what `split` determines besides
the bytes themselves; used for messages too large to materialise) -/
def splitLensLoop (lim : Nat) : Nat → Nat → List Nat
  | 0, _ => []
  | fuel + 1, n =>
    if n ≥ lim then lim :: splitLensLoop lim fuel (n - lim)
    else if n > 0 then [n] else []

def splitLens (n lim : Nat) : List Nat :=
  if n = 0 then [0] else splitLensLoop lim (n + 1) n

/-- mark the last packet with EOF (`Eof: i == len(chunks)-1`) -/
def markEof (topic : Nat) : List Bytes → List Packet
  | [] => []
  | [c] => [⟨topic, true, c⟩]
  | c :: cs => ⟨topic, false, c⟩ :: markEof topic cs

/-- the packets `MultiConn.Send(topic, msg)` builds -/
def packetsOf (L : Limits) (topic : Nat) (msg : Bytes) : List Packet :=
  markEof topic (split msg L.chunk)

/-! ### sender: per-topic FIFO queues and an arbitrary scheduler -/

/-- finite map topic ↦ list, as an association function over a list of pairs (executable) -/
abbrev TMap (α : Type) := List (Nat × List α)

def TMap.get {α} (m : TMap α) (t : Nat) : List α :=
  match m with
  | [] => []
  | (k, v) :: rest => if k = t then v else TMap.get rest t

def TMap.set {α} (m : TMap α) (t : Nat) (v : List α) : TMap α :=
  match m with
  | [] => [(t, v)]
  | (k, w) :: rest => if k = t then (k, v) :: rest else (k, w) :: TMap.set rest t v

structure Sender where
  /-- `Stream.sendQueue` per topic -/
  queues : TMap Packet
  /-- what has been written to the connection, in order -/
  wire : List Packet
  /-- the connection has been stopped on this side (`MultiConn.Stop`): every stream is closed, the
  send loop has quit -/
  dead : Bool
  deriving Repr

def Sender.init : Sender := ⟨[], [], false⟩

/-- `Send` with an atomic enqueue: all packets of the message, contiguously (the stream mutex);
refused (returns false, nothing queued) once the connection is stopped -/
def Sender.send (L : Limits) (s : Sender) (topic : Nat) (msg : Bytes) : Sender :=
  if s.dead then s
  else { s with queues := s.queues.set topic (s.queues.get topic ++ packetsOf L topic msg) }

/-- `queueSends` giving up after `queueSendTimeout` BETWEEN packets: only the first `k` packets are
enqueued and they stay in the queue (DESIGN §8-F8); `Send` returns false — and, when the code has
the repair (`tearDownOnPartial`), ends the connection in the same call. (The model takes the failed
enqueue and the teardown as one step: `c.Error` follows in the same goroutine, and the orphaned
packets sit behind a queue that has been full for the whole timeout.) -/
def Sender.sendPartial (L : Limits) (s : Sender) (topic : Nat) (msg : Bytes) (k : Nat) : Sender :=
  if s.dead then s
  else { s with queues := s.queues.set topic (s.queues.get topic ++ (packetsOf L topic msg).take k),
                dead := L.tearDownOnPartial }

/-- one turn of the send loop's `select`: it takes the head of ANY non-empty queue -/
def Sender.pick (s : Sender) (topic : Nat) : Sender :=
  if s.dead then s
  else match s.queues.get topic with
    | [] => s
    | p :: rest => { s with queues := s.queues.set topic rest, wire := s.wire ++ [p] }

/-! ### receiver -/

inductive CloseReason
  | badStream        -- ErrBadStream
  | maxMessageSize   -- ErrMaxMessageSize
  | malformed        -- the wire frame is not a well-formed `Envelope{Packet}` (read / unmarshal / FromAny / type error)
  deriving DecidableEq, Repr

structure Receiver where
  /-- `Stream.msgAssembler` per topic -/
  asm : TMap UInt8
  /-- application inbox per topic (the channel's current content) -/
  inbox : TMap Bytes
  /-- ghost: every message ever put into the inbox of a topic, in order -/
  log : TMap Bytes
  closed : Option CloseReason
  deriving Repr

def Receiver.init : Receiver := ⟨[], [], [], none⟩

/-- the receive loop on one packet: heartbeat packets bypass the streams; an unknown stream id closes;
otherwise `Stream.handlePacket` -/
def Receiver.handle (L : Limits) (r : Receiver) (p : Packet) : Receiver :=
  if r.closed.isSome then r
  else if p.topic = L.heartbeat then r
  else if p.topic ≥ L.invalid then { r with closed := some .badStream }
  else
    let a := r.asm.get p.topic
    if L.maxMsg < a.length + p.bytes.length then
      { r with asm := r.asm.set p.topic [], closed := some .maxMessageSize }
    else
      let a' := a ++ p.bytes
      if p.eof then
        let r' := { r with asm := r.asm.set p.topic [] }
        -- `select { case s.inbox <- m: … default: drop newest }`; streams without a channel always drop
        if p.topic < L.inboxTopics ∧ (r.inbox.get p.topic).length < L.inboxCap then
          { r' with inbox := r'.inbox.set p.topic (r.inbox.get p.topic ++ [a']),
                    log := r'.log.set p.topic (r.log.get p.topic ++ [a']) }
        else r'
      else { r with asm := r.asm.set p.topic a' }

/-- a wire frame that does not decode to a packet (zero-length or undecodable envelope, unknown or empty
payload type, a message that is not a `Packet`, a length prefix above `maxPacketSize`, a truncated
frame): `waitForAndHandleWireBytes` returns an error or the dispatch hits `default`, the receive loop
calls `c.Error` and returns. No stream is touched. -/
def Receiver.malformed (r : Receiver) : Receiver :=
  if r.closed.isSome then r else { r with closed := some .malformed }

/-- the application takes everything currently in the inbox of `topic` -/
def Receiver.drain (r : Receiver) (topic : Nat) : Receiver :=
  { r with inbox := r.inbox.set topic [] }

def Receiver.run (L : Limits) (r : Receiver) : List Packet → Receiver
  | [] => r
  | p :: ps => Receiver.run L (r.handle L p) ps

/-! ### the whole connection under every interleaving -/

inductive MuxOp
  | send (topic : Nat) (msg : Bytes)
  /-- a send whose enqueue stopped after `k` packets (timeout between packets) -/
  | sendPartial (topic : Nat) (msg : Bytes) (k : Nat)
  | pick (topic : Nat)        -- the scheduler moves one packet of that topic to the wire …
  | deliver                   -- … the network hands the next wire packet to the receiver
  | drain (topic : Nat)
  deriving Repr

structure Conn where
  s : Sender
  r : Receiver
  /-- how many wire packets the receiver has already been handed -/
  rcvd : Nat
  deriving Repr

def Conn.init : Conn := ⟨Sender.init, Receiver.init, 0⟩

def Conn.step (L : Limits) (c : Conn) : MuxOp → Conn
  | .send t m => { c with s := c.s.send L t m }
  | .sendPartial t m k => { c with s := c.s.sendPartial L t m k }
  | .pick t => { c with s := c.s.pick t }
  | .deliver =>
    match c.s.wire[c.rcvd]? with
    | some p => { c with r := c.r.handle L p, rcvd := c.rcvd + 1 }
    | none => c
  | .drain t => { c with r := c.r.drain t }

def Conn.run (L : Limits) (c : Conn) : List MuxOp → Conn
  | [] => c
  | op :: ops => Conn.run L (c.step L op) ops

/-- the messages sent (atomically) on `topic`, in order -/
def sentOn (topic : Nat) : List MuxOp → List Bytes
  | [] => []
  | .send t m :: ops => if t = topic then m :: sentOn topic ops else sentOn topic ops
  | _ :: ops => sentOn topic ops

def MuxOp.atomic : MuxOp → Bool
  | .sendPartial _ _ _ => false
  | _ => true

/-- every enqueue in the history was all-or-nothing (decidable) -/
def EnqueueAtomic (ops : List MuxOp) : Prop := ∀ op ∈ ops, op.atomic = true

instance (ops : List MuxOp) : Decidable (EnqueueAtomic ops) := by unfold EnqueueAtomic; infer_instance

def MuxOp.valid (L : Limits) : MuxOp → Bool
  | .send t m => t != L.heartbeat && decide (t < L.invalid) && decide (m.length ≤ L.maxMsg)
  | _ => true

/-- what the `send`s of a history must satisfy to be within the statement: a real stream id that is
not the heartbeat, and a size up to the limit (decidable) -/
def SendsValid (L : Limits) (ops : List MuxOp) : Prop := ∀ op ∈ ops, op.valid L = true

instance (L : Limits) (ops : List MuxOp) : Decidable (SendsValid L ops) := by unfold SendsValid; infer_instance

/-- the packets of one topic -/
def ofTopic (t : Nat) (ps : List Packet) : List Packet := ps.filter (fun p => p.topic == t)

/-- length-only abstraction of the receiver on ONE topic (used by the driver for traffic too large to
materialise): assembler length, delivered message lengths, closed? -/
def lenSim (L : Limits) (topicHasInbox : Bool) : Nat → List (Nat × Bool) → List Nat × Bool
  | _, [] => ([], false)
  | a, (n, eof) :: rest =>
    if L.maxMsg < a + n then ([], true)
    else if eof then
      let (d, c) := lenSim L topicHasInbox 0 rest
      (if topicHasInbox then (a + n) :: d else d, c)
    else lenSim L topicHasInbox (a + n) rest

/-! ### whose messages these are

A `MultiConn` has exactly one remote identity. `AddPeer` records it in the `PeerInfo` that every inbox
entry of the connection carries as `Sender` and under which the peer is registered in the peer set. -/

/-- `P2P.AddPeer` after the handshake authenticated key `auth` (C17 `auth`): an outbound dial with
`strictPublicKey` is refused when the dialed key is not the authenticated one
(`src_strictKeyCheck`); otherwise the recorded identity is the AUTHENTICATED key — never the key the
caller dialed or claimed (generated fact `attributionIsAuthenticatedKey`). -/
def recordedIdentity (auth : Nat) (claimed : Option Nat) (outbound strict : Bool) : Option Nat :=
  if outbound ∧ strict ∧ claimed ≠ some auth then none else some auth

/-- an inbox entry as the application sees it: the payload and the recorded sender -/
structure Tagged where
  sender : Nat
  msg : Bytes
  deriving DecidableEq, Repr

/-- every message of a connection's log, tagged as the real code tags it -/
def Receiver.tagged (r : Receiver) (sender : Nat) (t : Nat) : List Tagged := (r.log.get t).map (Tagged.mk sender)

end Canopy.Mux
