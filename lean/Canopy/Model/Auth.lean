import Canopy.Model.Bytes
import Canopy.Model.Sha256
import Canopy.Gen.ErrCodes
/-!
C05 model: authorization of transactions (core Lean only, executable; linked into `driver_C05`).

What is modelled, following `fsm/transaction.go`, `fsm/message.go`, `fsm/validator.go`,
`fsm/ethereum.go`, `lib/tx.go`, `lib/crypto/{key,bls}.go`:

* `Content` — every field of `lib.Transaction` that `GetSignBytes` copies (all but `Signature`); the
  payload is carried as the fields authorization and the handlers' debits look at plus a digest token
  `rest` of the whole payload (stands for every other field). A signature is over a `Content`.
* symbolic signatures (`Env`): `signed` is the set of (key, content, signature) triples honest key
  holders produced, `aggs` the BDN aggregates formed from them, `rlp` the graph of
  `RLPToCanopyTransaction(V2)` (raw Ethereum transaction ↦ the Canopy transaction it converts to),
  `qcs` the certificates the committee signed. `verifies` holds exactly for what is in these sets.
* `addrOf` — address per key type: SHA-256 prefix for BLS / ed25519 (computed), declared table for
  secp256k1 (RIPEMD160∘SHA-256) and Ethereum (Keccak) keys, SHA-256 of sorted member keys ‖ threshold
  for a BLS multisig (computed).
* `authorized` — transcribed from the table generated from `GetAuthorizedSignersFor`
  (`Gen/Auth.lean`; `Props/C05.lean` proves the transcription equals the generated table).
* `checkSignature`, the order of checks of `CheckTx`, and per message kind the effect of
  `ApplyTransaction` as a list of `Change`s (who is debited / credited / redirected).

The state is read-only here: every transaction of the correspondence run is applied to the same base
state inside a discarded store transaction, so the model returns the *changes* a transaction makes.
-/
namespace Canopy.Auth
open Canopy

abbrev Addr := Bytes

/-! ## message kinds -/

inductive Kind
  | send | stake | editStake | unstake | pause | unpause | changeParameter | daoTransfer
  | certificateResults | subsidy | createOrder | editOrder | deleteOrder
  | dexLimitOrder | dexLiquidityDeposit | dexLiquidityWithdraw
  deriving DecidableEq, Repr, Inhabited

/-- in the order of the type switch of `GetAuthorizedSignersFor` -/
def Kind.all : List Kind :=
  [.send, .stake, .editStake, .unstake, .pause, .unpause, .changeParameter, .daoTransfer, .subsidy,
   .certificateResults, .createOrder, .editOrder, .deleteOrder, .dexLimitOrder, .dexLiquidityDeposit,
   .dexLiquidityWithdraw]

def Kind.goType : Kind → String
  | .send => "MessageSend" | .stake => "MessageStake" | .editStake => "MessageEditStake"
  | .unstake => "MessageUnstake" | .pause => "MessagePause" | .unpause => "MessageUnpause"
  | .changeParameter => "MessageChangeParameter" | .daoTransfer => "MessageDAOTransfer"
  | .certificateResults => "MessageCertificateResults" | .subsidy => "MessageSubsidy"
  | .createOrder => "MessageCreateOrder" | .editOrder => "MessageEditOrder" | .deleteOrder => "MessageDeleteOrder"
  | .dexLimitOrder => "MessageDexLimitOrder" | .dexLiquidityDeposit => "MessageDexLiquidityDeposit"
  | .dexLiquidityWithdraw => "MessageDexLiquidityWithdraw"

/-- `Name()` of the message -/
def Kind.name : Kind → String
  | .send => "send" | .stake => "stake" | .editStake => "editStake" | .unstake => "unstake"
  | .pause => "pause" | .unpause => "unpause" | .changeParameter => "changeParameter"
  | .daoTransfer => "daoTransfer" | .certificateResults => "certificateResults" | .subsidy => "subsidy"
  | .createOrder => "createOrder" | .editOrder => "editOrder" | .deleteOrder => "deleteOrder"
  | .dexLimitOrder => "dexLimitOrder" | .dexLiquidityDeposit => "dexLiquidityDeposit"
  | .dexLiquidityWithdraw => "dexLiquidityWithdraw"

def Kind.ofName (s : String) : Option Kind := Kind.all.find? (·.name == s)

/-! ## keys -/

inductive Scheme | bls | ed25519 | secp256k1 | eth
  deriving DecidableEq, Repr

inductive PubKey
  | single (s : Scheme) (b : Bytes)
  /-- `BLS12381MultiPublicKey`: member keys in serialized order, bitmap, threshold -/
  | multi (keys : List Bytes) (bits : List Bool) (thr : Nat)
  /-- non-empty bytes that `NewPublicKeyFromBytes` rejects -/
  | garbage (b : Bytes)
  deriving DecidableEq, Repr

/-- the guards of `NewMultiBLSFromPublicKey` (non-empty, threshold ≤ n, no duplicate member) plus the
bitmap length kyber's mask enforces -/
def PubKey.wf : PubKey → Bool
  | .single _ _ => true
  | .multi ks bits thr => !ks.isEmpty && decide (thr ≤ ks.length) && decide ks.Nodup && bits.length == ks.length
  | .garbage _ => false

def PubKey.isEth : PubKey → Bool
  | .single .eth _ => true
  | _ => false

def PubKey.isBls : PubKey → Bool
  | .single .bls _ => true
  | _ => false

/-- members whose bit is set, in key order -/
def enabled (ks : List Bytes) (bits : List Bool) : List Bytes :=
  ((ks.zip bits).filter (·.2)).map (·.1)

/-- `bytes.Compare(a, b) ≤ 0` -/
def bytesLe : Bytes → Bytes → Bool
  | [], _ => true
  | _ :: _, [] => false
  | a :: as, b :: bs => if a < b then true else if b < a then false else bytesLe as bs

def insertSorted (x : Bytes) : List Bytes → List Bytes
  | [] => [x]
  | y :: ys => if bytesLe x y then x :: y :: ys else y :: insertSorted x ys

def sortBytes (l : List Bytes) : List Bytes := l.foldr insertSorted []

def be32 (n : Nat) : Bytes :=
  [UInt8.ofNat (n / 16777216 % 256), UInt8.ofNat (n / 65536 % 256), UInt8.ofNat (n / 256 % 256), UInt8.ofNat (n % 256)]

/-! ## messages, contents, transactions -/

/-- the fields of a payload that authorization and the debits look at -/
structure Msg where
  kind : Kind
  /-- FromAddress / Address / Signer (changeParameter) / SellersSendAddress -/
  a : Addr := []
  /-- stake: PublicKey; certificateResults: Qc.ProposerKey (`none`: bytes that are no key) -/
  pk : Option PubKey := none
  /-- OutputAddress -/
  out : Addr := []
  /-- OrderId; certificateResults: identity of the certificate -/
  oid : Bytes := []
  /-- ChainId (orders, subsidy, dex, certificate header) -/
  ch : Nat := 0
  /-- ToAddress / SellerReceiveAddress -/
  to : Bytes := []
  /-- Amount / AmountForSale / Percent -/
  amt : Nat := 0
  sh : Nat := 0
  eh : Nat := 0
  delegate : Bool := false
  /-- the wire carried a non-empty `Signer` (stake, edit-stake) -/
  wireSigner : Bool := false
  mint : Bool := false
  /-- certificateResults: the certificate's results do not hash to its results hash -/
  resultsMismatch : Bool := false
  /-- digest of the whole payload: stands for every field not listed above -/
  rest : String := ""
  deriving DecidableEq, Repr

/-- everything `GetSignBytes` marshals: the transaction minus its signature -/
structure Content where
  messageType : String
  msg : Option Msg
  time : Nat
  createdHeight : Nat
  fee : Nat
  memo : String
  networkId : Nat
  chainId : Nat
  nonce : Nat
  deriving DecidableEq, Repr

/-- the names of the Go fields `Content` stands for, in the order of `lib.Transaction` -/
def Content.goFields : List String :=
  ["MessageType", "Msg", "CreatedHeight", "Time", "Fee", "Memo", "NetworkId", "ChainId", "Nonce"]

structure Tx where
  content : Content
  /-- decoded `Signature.PublicKey` (`none`: empty or undecodable) -/
  pk : Option PubKey
  /-- `Signature.Signature` as an opaque token; "-" is the empty signature -/
  sig : String
  deriving DecidableEq, Repr

/-! ## symbolic cryptography -/

structure RlpEntry where
  v2 : Bool
  raw : String
  content : Content
  pk : PubKey
  deriving DecidableEq, Repr

structure Env where
  /-- graph of the address function for key types whose hash is not modelled -/
  addrs : List (Bytes × Addr) := []
  /-- (key, content, signature): the holder of `key` produced `signature` over `content` -/
  signed : List (Bytes × Content × String) := []
  /-- (aggregate, content, member keys, bitmap): the aggregate of the enabled members' signatures -/
  aggs : List (String × Content × List Bytes × List Bool) := []
  /-- graph of `RLPToCanopyTransaction` / `V2` on the raw transactions that convert -/
  rlp : List RlpEntry := []
  /-- raw transactions whose conversion fails, with the error -/
  rlpFail : List (Bool × String × String) := []
  /-- certificates signed by the committee: (id, full +2/3 majority?) -/
  qcs : List (Bytes × Bool) := []

def Env.addrOf (e : Env) : PubKey → Option Addr
  | .single .bls b => some (shortHash b)
  | .single .ed25519 b => some (shortHash b)
  | .single _ b => (e.addrs.find? (·.1 == b)).map (·.2)
  | .multi ks _ thr => some (shortHash ((sortBytes ks).flatten ++ be32 thr))
  | .garbage _ => none

/-- the encoding of the identity of G2 (0xc0 followed by 95 zero bytes) as a signature token -/
def identitySig : String := "identity"

/-- the aggregate check of a multi key: the signature is the aggregate formed over exactly the enabled
members — or, when NO member is enabled, the identity: kyber aggregates the keys of an empty mask to
the identity of G1, and `e(identity, H(m)) = e(g, identity)` holds for every message. -/
def Env.aggregateValid (e : Env) (ks : List Bytes) (bits : List Bool) (c : Content) (sig : String) : Bool :=
  e.aggs.contains (sig, c, ks, bits) || ((enabled ks bits).isEmpty && sig == identitySig)

/-- `VerifyBytes` per key type. Multi key: aggregate valid ∧ (threshold = 0 ∨ enabled ≥ threshold),
exactly `BLS12381MultiPublicKey.VerifyBytes`. -/
def Env.verifies (e : Env) (pk : PubKey) (c : Content) (sig : String) : Bool :=
  match pk with
  | .single _ b => e.signed.contains (b, c, sig)
  | .multi ks bits thr => e.aggregateValid ks bits c sig && (thr == 0 || decide ((enabled ks bits).length ≥ thr))
  | .garbage _ => false

/-- an aggregate exists only over signatures its members produced -/
def Env.WF (e : Env) : Prop :=
  ∀ sig c ks bits, (sig, c, ks, bits) ∈ e.aggs → ∀ k ∈ enabled ks bits, ∃ s, (k, c, s) ∈ e.signed

/-! ## the signature cache -/

/-- `BatchTuple.Key()`: the key under which a verified (public key, message, signature) triple is
remembered — the three byte strings in full, one after the other -/
def cacheKey (pk msg sig : Bytes) : Bytes := pk ++ msg ++ sig

/-- `CheckCache`: a triple counts as verified when its key is among the remembered keys -/
def cacheHit (remembered : List (Bytes × Bytes × Bytes)) (pk msg sig : Bytes) : Bool :=
  (remembered.map fun t => cacheKey t.1 t.2.1 t.2.2).contains (cacheKey pk msg sig)

/-! ## errors -/

open Canopy.Gen.Err.lib in
section
def errSM (code : Nat) : String := s!"err:state_machine/{code}"
def errMain (code : Nat) : String := s!"err:main/{code}"
def errCons (code : Nat) : String := s!"err:consensus/{code}"

def eEmptyMessage := errSM CodeEmptyMessage
def eUnknownMsgName := errSM CodeUnknownMsgName
def eEmptySignature := errSM CodeEmptySignature
def eInvalidTxHeight := errCons CodeInvalidTxHeight
def eInvalidTxTime := errCons CodeInvalidTxTime
def eInvalidMemo := errCons CodeInvalidMemo
def eNilNetworkID := errMain CodeNilNetworkID
def eEmptyChainId := errSM CodeEmptyChainId
def eWrongNetworkID := errSM CodeWrongNetworkID
def eWrongChainId := errSM CodeWrongChainId
def eInvalidProtocolVersion := errSM CodeInvalidProtocolVersion
def eFromAny := errMain CodeFromAny
def eAddressEmpty := errSM CodeAddressEmpty
def eAddressSize := errSM CodeAddressSize
def eInvalidAmount := errSM CodeInvalidAmount
def eNotEmpty := errSM CodeErrNotEmpty
def eFeeBelowState := errSM CodeFeeBelowState
def eInvalidPublicKey := errSM CodeInvalidPublicKey
def eValidatorNotExists := errSM CodeValidatorNotExists
def eOrderNotFound := errSM CodeOrderNotFound
def eInvalidSignature := errSM CodeInvalidSignature
def eUnauthorizedTx := errSM CodeUnauthorizedTx
def eInvalidTxNonce := errSM CodeInvalidTxNonce
def eInsufficientFunds := errSM CodeInsufficientFunds
def eValidatorExists := errSM CodeValidatorExists
def eStakeBelowMinimum := errSM CodeStakeBelowMinimum
def eValidatorUnstaking := errSM CodeValidatorUnstaking
def eValidatorPaused := errSM CodeValidatorPaused
def eValidatorNotPaused := errSM CodeValidatorNotPaused
def eValidatorIsADelegate := errSM CodeValidatorIsADelegate
def eRejectProposal := errSM CodeRejectProposal
def eInvalidCertificateResults := errSM CodeInvalidCertificateResults
def eInvalidAggrSignature := errCons CodeInvalidAggregateSignature
def eNoMaj23 := errCons CodeNoMaj23
def eMismatchResultsHash := errCons CodeMismatchResultsHash
def eMinimumOrderSize := errSM CodeMinimumOrderSize
def eOrderLocked := errSM CodeOrderLocked
def eInvalidLiquidityPool := errSM CodeInvalidLiquidityPool
def ePointHolderNotFound := errSM CodePointHolderNotFound
end

/-! ## state and configuration -/

structure Validator where
  address : Addr
  output : Addr
  stake : Nat
  delegate : Bool
  paused : Bool
  unstaking : Bool
  deriving DecidableEq, Repr

structure Order where
  chain : Nat
  id : Bytes
  seller : Addr
  amount : Nat
  locked : Bool
  recv : Bytes
  deriving DecidableEq, Repr

structure State where
  bal : Addr → Nat := fun _ => 0
  nonce : Addr → Nat := fun _ => 0
  val : Addr → Option Validator := fun _ => none
  order : Nat → Bytes → Option Order := fun _ _ => none
  pool : Nat → Nat := fun _ => 0
  /-- liquidity points: chain → holder -/
  lp : Nat → Addr → Bool := fun _ _ => false

structure Cfg where
  net : Nat := 0
  chain : Nat := 0
  root : Nat := 0
  height : Nat := 0
  /-- protocol feature: legacy RLP wrappers are refused -/
  legacyOff : Bool := false
  /-- local governance configuration approves proposals -/
  approve : Bool := true
  minOrder : Nat := 0
  minStakeV : Nat := 0
  minStakeD : Nat := 0
  fee : Kind → Nat := fun _ => 0
  /-- `CheckSignature` refuses a multisig key with no enabled signer (repair dc0ba0c; which value the
  drivers run is read from the regenerated source fact `Gen.Auth.multisigSignerGuardInPlace`) -/
  requireSigner : Bool := true

/-- pool id arithmetic of `fsm/key.go` (MaxUint16 = 65535) -/
def holdingPool (ch : Nat) : Nat := ch + 65535 / 4
def liquidityPool (ch : Nat) : Nat := ch + 2 * 65535 / 4
def escrowPool (ch : Nat) : Nat := ch + 4 * 65535 / 4
def daoPool : Nat := 2 * 65535 + 1
def maxUint64 : Nat := 2 ^ 64 - 1

/-! ## who may sign: `GetAuthorizedSignersFor` -/

/-- the shapes of the expressions in the generated table -/
inductive SignerExpr
  | field (name : String)
  | pubKeyAddr (field : String)
  | validatorSigners (field : String)
  | orderSeller
  deriving DecidableEq, Repr

def SignerExpr.render : SignerExpr → String
  | .field n => "x." ++ n
  | .pubKeyAddr f => "s.pubKeyBytesToAddress(x." ++ f ++ ")"
  | .validatorSigners f => "s.GetAuthorizedSignersForValidator(x." ++ f ++ ")"
  | .orderSeller => "s.GetOrder(x.OrderId, x.ChainId).SellersSendAddress"

/-- hand transcription of the table; `Props/C05.lean` proves `render` of it equals the generated one -/
def authSpec : Kind → List SignerExpr
  | .send => [.field "FromAddress"]
  | .stake => [.pubKeyAddr "PublicKey", .field "OutputAddress"]
  | .editStake | .unstake | .pause | .unpause => [.validatorSigners "Address"]
  | .changeParameter => [.field "Signer"]
  | .daoTransfer | .subsidy | .dexLimitOrder | .dexLiquidityDeposit | .dexLiquidityWithdraw => [.field "Address"]
  | .certificateResults => [.pubKeyAddr "Qc.ProposerKey"]
  | .createOrder => [.field "SellersSendAddress"]
  | .editOrder | .deleteOrder => [.orderSeller]

/-- `GetAuthorizedSignersForValidator`: the operator, plus the output address when it differs -/
def validatorSigners (st : State) (a : Addr) : Except String (List Addr) :=
  match st.val a with
  | none => .error eValidatorNotExists
  | some v => if v.address = v.output then .ok [v.address] else .ok [v.address, v.output]

/-- `pubKeyBytesToAddress` -/
def pubKeyAddr (e : Env) (pk : Option PubKey) : Except String Addr :=
  match pk with
  | none => .error eInvalidPublicKey
  | some k => if k.wf then
      match e.addrOf k with
      | some a => .ok a
      | none => .error eInvalidPublicKey
    else .error eInvalidPublicKey

/-- value of one signer expression on a message -/
def SignerExpr.eval (e : Env) (st : State) (m : Msg) : SignerExpr → Except String (List Addr)
  | .field "OutputAddress" => .ok [m.out]
  | .field _ => .ok [m.a]
  | .pubKeyAddr _ => (Canopy.Auth.pubKeyAddr e m.pk).map ([·])
  | .validatorSigners _ => Canopy.Auth.validatorSigners st m.a
  | .orderSeller =>
    match st.order m.ch m.oid with
    | none => .error eOrderNotFound
    | some o => .ok [o.seller]

def evalAll (e : Env) (st : State) (m : Msg) : List SignerExpr → Except String (List Addr)
  | [] => .ok []
  | x :: xs =>
    match x.eval e st m with
    | .error err => .error err
    | .ok l =>
      match evalAll e st m xs with
      | .error err => .error err
      | .ok r => .ok (l ++ r)

/-- `GetAuthorizedSignersFor` -/
def authorized (e : Env) (st : State) (m : Msg) : Except String (List Addr) :=
  evalAll e st m (authSpec m.kind)

/-! ## `CheckTx` up to the signature -/

def rlpMemo : String := "RLP"
def rlpV2Memo : String := "RLP.V2"

/-- the modelled kinds whose `Check()` validates an owner address -/
def Kind.hasOwnerAddress (k : Kind) : Bool :=
  k ≠ .stake && k ≠ .certificateResults && k ≠ .editOrder && k ≠ .deleteOrder

/-- the modelled kinds whose `Check()` rejects a zero amount -/
def Kind.hasAmount (k : Kind) : Bool :=
  k = .send || k = .stake || k = .editStake || k = .daoTransfer || k = .createOrder || k = .editOrder ||
  k = .dexLimitOrder || k = .dexLiquidityDeposit

/-- the rejection conditions in the order the code evaluates them: `Transaction.CheckBasic`,
`CheckReplay` (network, chain; the created-height window applies from height 2), the legacy-RLP switch,
the modelled part of `Message.Check` (owner address, reserved signer field, certificate integrity,
amount), `CheckFee` -/
def checks (cfg : Cfg) (tx : Tx) (m : Msg) : List (Bool × String) :=
  let c := tx.content
  [ (c.messageType = "", eUnknownMsgName),
    (tx.pk.isNone || tx.sig = "-", eEmptySignature),
    (c.createdHeight = 0, eInvalidTxHeight),
    (c.time = 0, eInvalidTxTime),
    (c.memo.length > 200, eInvalidMemo),
    (c.networkId = 0, eNilNetworkID),
    (c.chainId = 0, eEmptyChainId),
    (c.networkId ≠ cfg.net, eWrongNetworkID),
    (c.chainId ≠ cfg.chain, eWrongChainId),
    (cfg.height ≥ 2 && c.memo ≠ rlpV2Memo &&
      (c.createdHeight > cfg.height + 4320 || (cfg.height > 4320 && c.createdHeight < cfg.height - 4320)), eInvalidTxHeight),
    (c.memo = rlpMemo && cfg.legacyOff, eInvalidProtocolVersion),
    (m.kind.hasOwnerAddress && m.a.isEmpty, eAddressEmpty),
    (m.kind.hasOwnerAddress && m.a.length ≠ 20, eAddressSize),
    (m.wireSigner, eNotEmpty),
    (m.kind = .certificateResults && m.resultsMismatch, eMismatchResultsHash),
    (m.kind.hasAmount && m.amt = 0, eInvalidAmount),
    (c.fee < cfg.fee m.kind, eFeeBelowState) ]

/-- `CheckTx` up to (excluding) the authorized-signer lookup: the first failing check, or the payload -/
def precheck (cfg : Cfg) (tx : Tx) : Except String Msg :=
  match tx.content.msg with
  | none => .error eFromAny
  | some m =>
    match (checks cfg tx m).find? (·.1) with
    | some p => .error p.2
    | none => .ok m

/-- the Ethereum wrapper path of `CheckSignature`: `VerifyRLPBytes` re-derives the transaction from the
raw bytes in the signature field and demands equality of the two transactions -/
def verifyRLP (e : Env) (tx : Tx) (pk : PubKey) : Except String Unit :=
  let v2 := tx.content.memo = rlpV2Memo
  match e.rlpFail.find? (fun f => f.1 == v2 && f.2.1 == tx.sig) with
  | some f => .error f.2.2
  | none =>
    match e.rlp.find? (fun r => r.v2 == v2 && r.raw == tx.sig) with
    | none => .error eInvalidSignature
    | some r => if r.content = tx.content ∧ r.pk = pk then .ok () else .error eInvalidSignature

/-- is the transaction authenticated by `pk`: wrapper equality for RLP, signature over the content otherwise -/
def authenticates (e : Env) (tx : Tx) (pk : PubKey) : Except String Unit :=
  if tx.content.memo = rlpV2Memo || (tx.content.memo = rlpMemo && pk.isEth) then
    if !pk.isEth then .error eInvalidSignature else verifyRLP e tx pk
  else if e.verifies pk tx.content tx.sig then .ok () else .error eInvalidSignature

/-- a multisig key under which nobody is marked as signer -/
def PubKey.noSigner : PubKey → Bool
  | .single _ _ => false
  | .multi ks bits _ => (enabled ks bits).isEmpty
  | .garbage _ => false

/-- `CheckSignature`: (with the guard) refuse a multisig key naming no signer; authenticate; derive the
address from the VERIFIED key; match it against the list -/
def checkSignature (guard : Bool) (e : Env) (tx : Tx) (auth : List Addr) : Except String Addr :=
  if tx.sig = "-" then .error eEmptySignature else
  match tx.pk with
  | none => .error eInvalidPublicKey
  | some pk =>
    if !pk.wf then .error eInvalidPublicKey
    else if guard && pk.noSigner then .error eInvalidSignature else
    match authenticates e tx pk with
    | .error err => .error err
    | .ok () =>
      match e.addrOf pk with
      | none => .error eInvalidPublicKey
      | some a => if a ∈ auth then .ok a else .error eUnauthorizedTx

/-! ## effects -/

inductive Change
  | debit (a : Addr) (n : Nat)
  | credit (a : Addr) (n : Nat)
  | nonce (a : Addr)
  | valNew (a out : Addr) (stake : Nat)
  | valOut (a new : Addr)
  | valStake (a : Addr) (n : Nat)
  | valUnstaking (a : Addr)
  | valPaused (a : Addr)
  | valUnpaused (a : Addr)
  | ordNew (ch : Nat) (id : Bytes) (seller : Addr) (amt : Nat) (recv : Bytes)
  | ordDel (ch : Nat) (id : Bytes)
  | ordAmt (ch : Nat) (id : Bytes) (delta : Int)
  | ordRecv (ch : Nat) (id : Bytes) (recv : Bytes)
  | pool (id : Nat) (delta : Int)
  | sys (family : String)
  deriving DecidableEq, Repr

/-- balance of `a` after the changes so far -/
def avail (st : State) (log : List Change) (a : Addr) : Int :=
  log.foldl (fun acc c => match c with
    | .debit b n => if b = a then acc - n else acc
    | .credit b n => if b = a then acc + n else acc
    | _ => acc) (st.bal a : Int)

def poolAvail (st : State) (log : List Change) (id : Nat) : Int :=
  log.foldl (fun acc c => match c with
    | .pool i d => if i = id then acc + d else acc
    | _ => acc) (st.pool id : Int)

/-- `AccountSub` -/
def debit (st : State) (log : List Change) (a : Addr) (n : Nat) : Except String (List Change) :=
  if avail st log a < n then .error eInsufficientFunds
  else if n = 0 then .ok log else .ok (log ++ [.debit a n])

/-- `PoolSub` -/
def poolSub (st : State) (log : List Change) (id : Nat) (n : Nat) : Except String (List Change) :=
  if poolAvail st log id < n then .error eInsufficientFunds else .ok (log ++ [.pool id (-(n : Int))])

/-- `ApproveProposal` -/
def approve (cfg : Cfg) (m : Msg) : Bool := !(cfg.height < m.sh || cfg.height > m.eh) && cfg.approve

/-- edit-stake: how much the new amount exceeds the current stake (a lower amount is not a withdrawal) -/
def amountToAdd (m : Msg) (v : Validator) : Nat := if m.amt > v.stake then m.amt - v.stake else 0

/-- edit-stake: the record changes after the debit -/
def editStakeTail (m : Msg) (v : Validator) : List Change :=
  (if v.output ≠ m.out then [.valOut m.a m.out] else []) ++
  (if amountToAdd m v > 0 then [.valStake m.a (amountToAdd m v), .sys "supply", .sys (if v.delegate then "delegate" else "committee")] else [])

/-- edit-order: the seller's receive address changes -/
def recvChange (m : Msg) (o : Order) : List Change := if o.recv ≠ m.to then [.ordRecv m.ch m.oid m.to] else []

/-- dao-transfer with `Mint`: the amount is minted into the DAO pool first -/
def mintChanges (m : Msg) : List Change := if m.mint then [.pool daoPool m.amt, .sys "supply"] else []

/-- the handler of each kind (`HandleMessage…`), appended to the log that already holds the fee.
`signer` is the address `CheckSignature` returned; `newId` the order id `PopulateSpecialMessageFields`
derives from the transaction hash. -/
def handle (e : Env) (cfg : Cfg) (st : State) (m : Msg) (signer : Addr) (newId : Bytes) (log : List Change) :
    Except String (List Change) :=
  match m.kind with
  | .send =>
    match debit st log m.a m.amt with
    | .error err => .error err
    | .ok l => .ok (l ++ [.credit m.to m.amt])
  | .stake =>
    match m.pk with
    | none => .error eInvalidPublicKey
    | some k =>
      if !k.wf then .error eInvalidPublicKey
      else if !m.delegate && !k.isBls then .error eInvalidPublicKey
      else match e.addrOf k with
        | none => .error eInvalidPublicKey
        | some address =>
          if (st.val address).isSome then .error eValidatorExists
          else if m.amt < (if m.delegate then cfg.minStakeD else cfg.minStakeV) then .error eStakeBelowMinimum
          else match debit st log signer m.amt with
            | .error err => .error err
            | .ok l => .ok (l ++ [.sys "supply", .sys (if m.delegate then "delegate" else "committee"), .valNew address m.out m.amt])
  | .editStake =>
    match st.val m.a with
    | none => .error eValidatorNotExists
    | some v =>
      if v.unstaking then .error eValidatorUnstaking
      else if v.output ≠ m.out && v.output ≠ signer then .error eUnauthorizedTx
      else
        match debit st log signer (amountToAdd m v) with
        | .error err => .error err
        | .ok l => .ok (l ++ editStakeTail m v)
  | .unstake =>
    match st.val m.a with
    | none => .error eValidatorNotExists
    | some v => if v.unstaking then .error eValidatorUnstaking else .ok (log ++ [.valUnstaking m.a, .sys "unstaking-marker"])
  | .pause =>
    match st.val m.a with
    | none => .error eValidatorNotExists
    | some v =>
      if v.paused then .error eValidatorPaused
      else if v.unstaking then .error eValidatorUnstaking
      else if v.delegate then .error eValidatorIsADelegate
      else .ok (log ++ [.valPaused m.a, .sys "paused-marker"])
  | .unpause =>
    match st.val m.a with
    | none => .error eValidatorNotExists
    | some v =>
      if !v.paused then .error eValidatorNotPaused
      else if v.unstaking then .error eValidatorUnstaking
      else if v.delegate then .error eValidatorIsADelegate
      else .ok (log ++ [.valUnpaused m.a, .sys "paused-marker"])
  | .changeParameter =>
    if !approve cfg m then .error eRejectProposal else .ok (log ++ [.sys "params"])
  | .daoTransfer =>
    if !approve cfg m then .error eRejectProposal
    else
      match poolSub st (log ++ mintChanges m) daoPool m.amt with
      | .error err => .error err
      | .ok l => .ok (l ++ [.credit m.a m.amt])
  | .certificateResults =>
    if m.ch = cfg.root || m.ch = cfg.chain then .error eInvalidCertificateResults
    else match e.qcs.find? (·.1 == m.oid) with
      | none => .error eInvalidAggrSignature
      | some q => if q.2 then .ok (log ++ [.sys "cdata"]) else .error eNoMaj23
  | .subsidy =>
    match debit st log m.a m.amt with
    | .error err => .error err
    | .ok l => .ok (l ++ [.pool m.ch m.amt])
  | .createOrder =>
    if m.amt < cfg.minOrder then .error eMinimumOrderSize
    else match debit st log m.a m.amt with
      | .error err => .error err
      | .ok l => .ok (l ++ [.pool (escrowPool m.ch) m.amt, .ordNew m.ch newId m.a m.amt m.to])
  | .editOrder =>
    match st.order m.ch m.oid with
    | none => .error eOrderNotFound
    | some o =>
      if o.locked then .error eOrderLocked
      else if m.amt < cfg.minOrder then .error eMinimumOrderSize
      else if m.amt > o.amount then
        match debit st log o.seller (m.amt - o.amount) with
        | .error err => .error err
        | .ok l => .ok (l ++ [.pool (escrowPool m.ch) (m.amt - o.amount : Nat), .ordAmt m.ch m.oid (m.amt - o.amount : Nat)] ++ recvChange m o)
      else if m.amt < o.amount then
        match poolSub st log (escrowPool m.ch) (o.amount - m.amt) with
        | .error err => .error err
        | .ok l => .ok (l ++ [.credit o.seller (o.amount - m.amt), .ordAmt m.ch m.oid (-((o.amount - m.amt : Nat) : Int))] ++ recvChange m o)
      else .ok (log ++ recvChange m o)
  | .deleteOrder =>
    match st.order m.ch m.oid with
    | none => .error eOrderNotFound
    | some o =>
      if o.locked then .error eOrderLocked
      else match poolSub st log (escrowPool m.ch) o.amount with
        | .error err => .error err
        | .ok l => .ok (l ++ [.credit o.seller o.amount, .ordDel m.ch m.oid])
  | .dexLimitOrder =>
    if st.pool (liquidityPool m.ch) = 0 || cfg.chain = m.ch then .error eInvalidLiquidityPool
    else match debit st log m.a m.amt with
      | .error err => .error err
      | .ok l => .ok (l ++ [.pool (holdingPool m.ch) m.amt, .sys "dex"])
  | .dexLiquidityDeposit =>
    if st.pool (liquidityPool m.ch) = 0 || cfg.chain = m.ch then .error eInvalidLiquidityPool
    else match debit st log m.a m.amt with
      | .error err => .error err
      | .ok l => .ok (l ++ [.pool (holdingPool m.ch) m.amt, .sys "dex"])
  | .dexLiquidityWithdraw =>
    if st.pool (liquidityPool m.ch) = 0 || cfg.chain = m.ch then .error eInvalidLiquidityPool
    else if !st.lp m.ch m.a then .error ePointHolderNotFound
    else .ok (log ++ [.sys "dex"])

/-- `ApplyTransaction` after `CheckTx`: fee from the verified signer, handler, RLP.V2 nonce floor -/
def effects (e : Env) (cfg : Cfg) (st : State) (c : Content) (m : Msg) (signer : Addr) (newId : Bytes) :
    Except String (List Change) :=
  if m.kind = .send && m.amt > maxUint64 - c.fee then .error eInvalidAmount else
  match debit st [] signer c.fee with
  | .error err => .error err
  | .ok l0 =>
    match handle e cfg st m signer newId (l0 ++ (if c.fee > 0 then [.pool cfg.chain c.fee] else [])) with
    | .error err => .error err
    | .ok l => .ok (if c.memo = rlpV2Memo && st.nonce signer ≠ c.nonce + 1 then l ++ [.nonce signer] else l)

/-- `CheckTx` followed by `ApplyTransaction`: the verified signer and the changes, or the error -/
def applyTx (e : Env) (cfg : Cfg) (st : State) (tx : Tx) (newId : Bytes) : Except String (Addr × List Change) :=
  match precheck cfg tx with
  | .error err => .error err
  | .ok m =>
    match authorized e st m with
    | .error err => .error err
    | .ok auth =>
      match checkSignature cfg.requireSigner e tx auth with
      | .error err => .error err
      | .ok signer =>
        if tx.content.memo = rlpV2Memo && (tx.content.nonce < st.nonce signer || tx.content.nonce = maxUint64) then
          .error eInvalidTxNonce
        else match effects e cfg st tx.content m signer newId with
          | .error err => .error err
          | .ok log => .ok (signer, log)

/-! ## what the property speaks about -/

def Change.debitedAddr : Change → Option Addr
  | .debit a _ => some a | _ => none
def Change.creditedAddr : Change → Option Addr
  | .credit a _ => some a | _ => none
/-- an existing validator whose record changes -/
def Change.changedValidator : Change → Option Addr
  | .valOut a _ => some a | .valStake a _ => some a
  | .valUnstaking a => some a | .valPaused a => some a | .valUnpaused a => some a | _ => none
/-- a validator whose payout address is redirected -/
def Change.redirectedValidator : Change → Option Addr
  | .valOut a _ => some a | _ => none
/-- a validator that is created: (address, output) -/
def Change.createdValidator : Change → Option (Addr × Addr)
  | .valNew a out _ => some (a, out) | _ => none
/-- an existing order that changes or disappears -/
def Change.touchedOrder : Change → Option (Nat × Bytes)
  | .ordDel ch id => some (ch, id) | .ordAmt ch id _ => some (ch, id) | .ordRecv ch id _ => some (ch, id) | _ => none
/-- the seller of an order that is created -/
def Change.createdOrderSeller : Change → Option Addr
  | .ordNew _ _ seller _ _ => some seller | _ => none

/-- accounts debited by a change log -/
def debited (log : List Change) : List Addr := log.filterMap Change.debitedAddr
/-- accounts credited by a change log -/
def credited (log : List Change) : List Addr := log.filterMap Change.creditedAddr
def validatorsChanged (log : List Change) : List Addr := log.filterMap Change.changedValidator
def outputsRedirected (log : List Change) : List Addr := log.filterMap Change.redirectedValidator
def validatorsCreated (log : List Change) : List (Addr × Addr) := log.filterMap Change.createdValidator
def ordersTouched (log : List Change) : List (Nat × Bytes) := log.filterMap Change.touchedOrder
def ordersCreated (log : List Change) : List Addr := log.filterMap Change.createdOrderSeller

/-- validators whose record changes or is created -/
def validatorsTouched (log : List Change) : List Addr :=
  log.filterMap fun
    | .valNew a _ _ => some a | .valOut a _ => some a | .valStake a _ => some a
    | .valUnstaking a => some a | .valPaused a => some a | .valUnpaused a => some a | _ => none

/-! ## `GetAuthorizedSignersFor`, written out per kind (proved equal to the table form in `Proof/Auth.lean`) -/

def authorizedDirect (e : Env) (st : State) (m : Msg) : Except String (List Addr) :=
  match m.kind with
  | .send | .changeParameter | .daoTransfer | .subsidy | .createOrder
  | .dexLimitOrder | .dexLiquidityDeposit | .dexLiquidityWithdraw => .ok [m.a]
  | .stake =>
    match pubKeyAddr e m.pk with
    | .error err => .error err
    | .ok a => .ok [a, m.out]
  | .certificateResults =>
    match pubKeyAddr e m.pk with
    | .error err => .error err
    | .ok a => .ok [a]
  | .editStake | .unstake | .pause | .unpause => validatorSigners st m.a
  | .editOrder | .deleteOrder =>
    match st.order m.ch m.oid with
    | none => .error eOrderNotFound
    | some o => .ok [o.seller]

end Canopy.Auth
