import Canopy.Model.Bytes
/-!
M-committee (C13, used by C02): derivation of a committee / delegate set from validator records,
as `fsm.getValidatorSet` + `lib.NewValidatorSet` compute it. Core Lean only.
-/
namespace Canopy.Committee
open Canopy

/-- the fields of `fsm.Validator` that committee derivation reads -/
structure Val where
  address : Bytes
  publicKey : Bytes
  stake : UInt64
  committees : List UInt64
  maxPausedHeight : UInt64
  unstakingHeight : UInt64
  delegate : Bool
deriving Repr, BEq, DecidableEq

/-- `Validator.PassesFilter{Unstaking: Exclude, Paused: Exclude, Delegate: MustBe|Exclude, Committee: chain}`;
note the code's `Committee != 0` guard: chain id 0 disables the membership test -/
def elig (chain : UInt64) (delegate : Bool) (v : Val) : Bool :=
  v.unstakingHeight == 0 && v.maxPausedHeight == 0 && v.delegate == delegate &&
  (chain == 0 || v.committees.contains chain)

/-- lexicographic order on byte strings = Go's `bytes.Compare ≤ 0` -/
def bytesLe : Bytes → Bytes → Bool
  | [], _ => true
  | _ :: _, [] => false
  | a :: as, b :: bs => if a < b then true else if b < a then false else bytesLe as bs

/-- "a is placed before b (or ties with it)": the comparator of `slices.SortFunc` in
`getValidatorSet` — highest stake first, then highest address first -/
def before (a b : Val) : Bool :=
  if b.stake < a.stake then true
  else if a.stake < b.stake then false
  else bytesLe b.address a.address

/-- `limit`: `0` means unlimited -/
def limit (n : Nat) (cap : UInt64) : Nat :=
  if cap > 0 then min n cap.toNat else n

/-- the ordered member list -/
def members (vals : List Val) (chain cap : UInt64) (delegate : Bool) : List Val :=
  let f := vals.filter (elig chain delegate)
  let s := f.mergeSort before
  s.take (limit s.length cap)

/-- `totalPower` as `NewValidatorSet` accumulates it: an unguarded `uint64` sum -/
def totalPower (ms : List Val) : UInt64 := ms.foldl (fun acc v => acc + v.stake) 0

/-- the exact (unbounded) sum of stakes -/
def totalPowerNat (ms : List Val) : Nat := (ms.map (·.stake.toNat)).sum

end Canopy.Committee
