import Canopy.Model.BftGen
/-!
# M-bft-live — what C15 adds to the BFT model (core Lean only)

* the pacemaker as a function of the claims a replica holds (`bft.go Pacemaker()`): the loop (sort the pacemaker
  messages by claimed round, accumulate voting power from the top) is modelled by hand and compared with the real
  function by the driver; the threshold test is the generated `Gen.Bft.pacemakerReached`;
* a *good round*: what the correct replicas add to a history in a round whose leader follows the protocol and in which
  every message is delivered before the timer of its phase fires — ELECTION_VOTEs carry the locks, the leader keeps the
  highest reported certificate (folding the generated replacement test), re-proposes its block with that certificate as
  justification (or a fresh block when nothing is locked), everybody propose-votes, the leader broadcasts the PROPOSE_VOTE
  certificate of the round, everybody locks and precommit-votes;
* the phase timers: `Gen.Bft.waitTime`, `Gen.Bft.msLeftInRound`.

Leader election is not modelled: VRF sortition and the stake-weighted fallback are hashes of (last proposers, root
height, height, round); which round first has a correct leader that all correct replicas vote for is a hypothesis.
-/
namespace Canopy.Bft

/-! ### pacemaker -/

/-- voting power behind claims of round ≥ `R`; `claims` holds one `(validator, claimed round)` per validator
    (`PacemakerMessages` is keyed by public key) -/
def claimPower (pw : Nat → Nat) (claims : List (Nat × Nat)) (R : Nat) : Nat :=
  ((claims.filter fun c => decide (R ≤ c.2)).map fun c => pw c.1).sum

/-- the round the loop of `Pacemaker()` stops at: the highest claimed round `R` such that the power claiming `≥ R`
    passes the threshold test `reached`; 0 if there is none -/
def pacemakerTarget (pw : Nat → Nat) (reached : Nat → Bool) (claims : List (Nat × Nat)) : Nat :=
  (((claims.map (·.2)).filter fun R => reached (claimPower pw claims R)).foldl Nat.max 0)

/-- `Pacemaker()`: `NewRound(false)` then jump if the target is higher -/
def pacemakerStep (pw : Nat → Nat) (reached : Nat → Bool) (claims : List (Nat × Nat)) (round : Nat) : Nat :=
  let t := pacemakerTarget pw reached claims
  if round + 1 < t then t else round + 1

/-- the generated threshold test for a committee with total power `total` -/
def genReached (total : Nat) (voted : Nat) : Bool :=
  Gen.Bft.pacemakerReached (UInt64.ofNat voted) (Gen.Bft.minimumMaj23 (UInt64.ofNat total)) (UInt64.ofNat total)

/-! ### a good round -/

/-- `handleHighQCVDFAndEvidence` at the leader: keep the higher of the current and the reported certificate -/
def pickHigher (c : Cfg) (cur : Option (View × Nat)) (nw : View × Nat) : Option (View × Nat) :=
  match cur with
  | none => some nw
  | some (w, b) => if c.adoptOk w nw.1 then some nw else some (w, b)

/-- the leader's `HighQC` after all reported locks were processed (in any order: the list's) -/
def highestLock (c : Cfg) (reported : List (View × Nat)) : Option (View × Nat) :=
  reported.foldl (pickHigher c) none

/-- the PROPOSE_VOTEs of the correct replicas `H` for the leader's proposal -/
def proposeRound (H : List Nat) (v : View) (b : Nat) (hq : Option View) : List Ev :=
  H.map fun r => Ev.propose r v b hq

/-- their PRECOMMIT_VOTEs, each locking on the PROPOSE_VOTE certificate of the round -/
def precommitRound (H : List Nat) (v : View) (b : Nat) : List Ev :=
  H.map fun r => Ev.precommit r v b v true

/-- the history after a good round at view `v` (newest first) -/
def goodRound (tr : List Ev) (H : List Nat) (v : View) (b : Nat) (hq : Option View) : List Ev :=
  precommitRound H v b ++ (proposeRound H v b hq ++ tr)

/-- what a correct leader proposes: the block of the highest reported lock justified by its certificate, else `fresh` -/
def leaderProposal (c : Cfg) (reported : List (View × Nat)) (fresh : Nat) : Nat × Option View :=
  match highestLock c reported with
  | some (y, b) => (b, some y)
  | none => (fresh, none)

/-! ### timers -/

/-- the configured phase timeouts in milliseconds, indexed by phase number (ELECTION .. COMMIT) -/
structure Timeouts where
  election : Nat
  electionVote : Nat
  propose : Nat
  proposeVote : Nat
  precommit : Nat
  precommitVote : Nat
  commit : Nat
deriving Repr

open Canopy.Gen.Bft in
def Timeouts.of (t : Timeouts) (phase : Nat) : Nat :=
  if phase = phase_ELECTION then t.election else if phase = phase_ELECTION_VOTE then t.electionVote
  else if phase = phase_PROPOSE then t.propose else if phase = phase_PROPOSE_VOTE then t.proposeVote
  else if phase = phase_PRECOMMIT then t.precommit else if phase = phase_PRECOMMIT_VOTE then t.precommitVote
  else if phase = phase_COMMIT then t.commit else 0

/-- `WaitTime(phase, round)` for the phases ELECTION .. COMMIT -/
def Timeouts.wait (t : Timeouts) (round phase : Nat) : Nat := Gen.Bft.waitTime (t.of phase) round

def Timeouts.sum (t : Timeouts) : Nat :=
  t.election + t.electionVote + t.propose + t.proposeVote + t.precommit + t.precommitVote + t.commit

def Timeouts.min (t : Timeouts) : Nat :=
  [t.electionVote, t.propose, t.proposeVote, t.precommit, t.precommitVote, t.commit].foldl Nat.min t.election

/-- the length of round `r` (every replica spends exactly this long in a round that does not commit:
    `RoundInterrupt` waits for `msLeftInRound`) -/
def Timeouts.roundLength (t : Timeouts) (r : Nat) : Nat :=
  Gen.Bft.msLeftInRound Gen.Bft.phase_ELECTION (t.wait r)

end Canopy.Bft
