import Canopy.Gen.LedgerFacts
/-!
# M-ledger — executable model of the canopy state machine's token and staking ledger

Hand transcription (DESIGN §7 C04/C12) of `fsm/account.go`, `validator.go`, `committee.go`,
`byzantine.go`, `message.go`, `automatic.go`, `gov.go`, `genesis.go`, `transaction.go`.
Core Lean only: this file is linked into `driver_C04` / `driver_C12`, which replay the operation lines the
Go harness produced while running the REAL `fsm.StateMachine`, and must reproduce every result and
every end-of-block state dump.

Conventions
* every `uint64` is a `Nat`; where the Go code adds without a guard the model reduces `% U64`
  (`AddToTotalSupply`, `PoolAdd`, `val.StakedAmount + amountToAdd`, `Height() + blocks`,
  `dividend * 100`), where the Go code guards the model returns the same error;
* an operation that returns an error leaves the ledger unchanged (`Except`): the real code rolls a
  failed transaction / block back, and the harness does the same around every operation;
* maps are association lists kept in key order (`AMap`): the order is the store's iteration order,
  which several handlers depend on.

Not modelled (the harness never produces them, see `checks/C04.py`): vesting sends and vesting
accounts, RLP nonces, net-address syntax, DEX / order-book messages and pools' liquidity points,
plugins, polls, checkpoints, certificate results for a chain other than the node's own.
-/
namespace Canopy.Ledger
open Canopy.Gen.LedgerFacts

def U64 : Nat := 18446744073709551616
def MAXU : Nat := 18446744073709551615

abbrev Addr := Nat

/-! ## association lists in key order -/

class KLt (κ : Type) where
  lt : κ → κ → Bool

instance : KLt Nat := ⟨fun a b => decide (a < b)⟩
instance {α β} [KLt α] [KLt β] [DecidableEq α] : KLt (α × β) :=
  ⟨fun a b => KLt.lt a.1 b.1 || (decide (a.1 = b.1) && KLt.lt a.2 b.2)⟩

namespace AMap
variable {κ ν : Type} [DecidableEq κ]

def find? : List (κ × ν) → κ → Option ν
  | [], _ => none
  | (k', v) :: t, k => if k' = k then some v else find? t k

/-- removes the first entry with key `k` -/
def erase : List (κ × ν) → κ → List (κ × ν)
  | [], _ => []
  | (k', v) :: t, k => if k' = k then t else (k', v) :: erase t k

/-- inserts before the first entry whose key is not smaller -/
def ins [KLt κ] : List (κ × ν) → κ → ν → List (κ × ν)
  | [], k, v => [(k, v)]
  | (k', v') :: t, k, v => if KLt.lt k' k then (k', v') :: ins t k v else (k, v) :: (k', v') :: t

def set [KLt κ] (m : List (κ × ν)) (k : κ) (v : ν) : List (κ × ν) := ins (erase m k) k v

def sumBy (f : ν → Nat) : List (κ × ν) → Nat
  | [] => 0
  | (_, v) :: t => f v + sumBy f t

def mem (m : List (κ × ν)) (k : κ) : Bool := (find? m k).isSome
end AMap

/-- `Nat`-valued map where absent = 0 and 0 is never stored (accounts, pools, supply pools) -/
abbrev NMap (κ : Type) := List (κ × Nat)
namespace NMap
variable {κ : Type} [DecidableEq κ] [KLt κ]
def get (m : NMap κ) (k : κ) : Nat := (AMap.find? m k).getD 0
def put (m : NMap κ) (k : κ) (v : Nat) : NMap κ := if v = 0 then AMap.erase m k else AMap.set m k v
def total (m : NMap κ) : Nat := AMap.sumBy id m
end NMap

abbrev KSet (κ : Type) := List (κ × Unit)
namespace KSet
variable {κ : Type} [DecidableEq κ] [KLt κ]
def add (m : KSet κ) (k : κ) : KSet κ := AMap.set m k ()
def del (m : KSet κ) (k : κ) : KSet κ := AMap.erase m k
def has (m : KSet κ) (k : κ) : Bool := AMap.mem m k
end KSet

/-! ## errors (codes regenerated from the Go source into `Gen/LedgerFacts`) -/

inductive Err
  | insufficientFunds | invalidAmount | insufficientSupply
  | validatorExists | validatorNotExists | validatorUnstaking | validatorPaused | validatorNotPaused
  | validatorIsADelegate | stakeBelowMinimum | unauthorizedTx | feeBelowLimit
  | invalidNumCommittees | invalidChainId | rejectProposal | nonSubsidizedCommittee
  | invalidQCCommitteeHeight | invalidQCRootChainHeight | invalidDoubleSigner | invalidDoubleSignHeights
  | invalidPercentAllocation | invalidParam | unknownParam | unknownParamSpace | invalidArgument
  | invalidBlockRange | invalidAddress | invalidSellOrder | incompatibleVesting | invalidVesting
  deriving DecidableEq, Repr

def Err.code : Err → String
  | .insufficientFunds => errInsufficientFunds | .invalidAmount => errInvalidAmount
  | .insufficientSupply => errInsufficientSupply | .validatorExists => errValidatorExists
  | .validatorNotExists => errValidatorNotExists | .validatorUnstaking => errValidatorUnstaking
  | .validatorPaused => errValidatorPaused | .validatorNotPaused => errValidatorNotPaused
  | .validatorIsADelegate => errValidatorIsADelegate | .stakeBelowMinimum => errStakeBelowMinimum
  | .unauthorizedTx => errUnauthorizedTx | .feeBelowLimit => errTxFeeBelowStateLimit
  | .invalidNumCommittees => errInvalidNumCommittees | .invalidChainId => errInvalidChainId
  | .rejectProposal => errRejectProposal | .nonSubsidizedCommittee => errNonSubsidizedCommittee
  | .invalidQCCommitteeHeight => errInvalidQCCommitteeHeight
  | .invalidQCRootChainHeight => errInvalidQCRootChainHeight
  | .invalidDoubleSigner => errInvalidDoubleSigner | .invalidDoubleSignHeights => errInvalidDoubleSignHeights
  | .invalidPercentAllocation => errInvalidPercentAllocation | .invalidParam => errInvalidParam
  | .unknownParam => errUnknownParam | .unknownParamSpace => errUnknownParamSpace
  | .invalidArgument => errInvalidArgument | .invalidBlockRange => errInvalidBlockRange
  | .invalidAddress => errInvalidAddress | .invalidSellOrder => errInvalidSellOrder
  | .incompatibleVesting => errIncompatibleVesting | .invalidVesting => errInvalidVesting

abbrev M := Except Err

/-! ## state -/

structure Validator where
  stake : Nat
  committees : List Nat
  delegate : Bool
  compound : Bool
  output : Addr
  unstakingHeight : Nat := 0
  maxPausedHeight : Nat := 0
  deriving DecidableEq, Repr

structure NonSigner where
  counter : Nat
  chains : NMap Nat          -- per-chain counters (protocol v2)
  deriving DecidableEq, Repr

structure Supply where
  total : Nat := 0
  staked : Nat := 0
  delegatedOnly : Nat := 0
  committee : NMap Nat := []   -- Supply.CommitteeStaked      (chain id ↦ amount, zeroes dropped)
  delegated : NMap Nat := []   -- Supply.CommitteeDelegatedOnly
  deriving DecidableEq, Repr

/-- the governance parameters the modelled handlers read -/
structure Params where
  pvVersion : Nat := 1
  pvHeight : Nat := 0
  rootChainId : Nat := 1
  unstakingBlocks : Nat := 2
  delegateUnstakingBlocks : Nat := 2
  maxPauseBlocks : Nat := 4380
  nonSignWindow : Nat := 5
  maxNonSign : Nat := 3
  nonSignSlashPercentage : Nat := 1
  doubleSignSlashPercentage : Nat := 10
  maxSlashPerCommittee : Nat := 15
  minStakeValidators : Nat := 0
  minStakeDelegates : Nat := 0
  maxCommittees : Nat := 15
  earlyWithdrawalPenalty : Nat := 20
  stakePercentForSubsidized : Nat := 33
  daoRewardPercentage : Nat := 5
  sendFee : Nat := 10000
  stakeFee : Nat := 10000
  editStakeFee : Nat := 10000
  unstakeFee : Nat := 10000
  pauseFee : Nat := 10000
  unpauseFee : Nat := 10000
  changeParameterFee : Nat := 10000
  daoTransferFee : Nat := 10000
  subsidyFee : Nat := 10000
  deriving DecidableEq, Repr

/-- node configuration (`lib.Config`) the handlers read -/
structure Config where
  chainId : Nat := 1
  blocksPerHalvening : Nat := 3150000
  initialTokensPerBlock : Nat := 80000000
  faucet : Option Addr := none
  deriving DecidableEq, Repr

structure CommitteeData where
  chainId : Nat
  lastRootHeight : Nat := 0
  lastChainHeight : Nat := 0
  samples : Nat := 0
  percents : List (Addr × Nat) := []      -- payment percents (address, percent), in arrival order
  deriving DecidableEq, Repr

/-- the vesting fields of an `Account` record: `VestingAmount`, `VestingStartHeight`, `VestingCliffHeight`,
`VestingEndHeight`. Kept in a map of their own next to the balances (`Ledger.vesting`); both are written together by
`setAccount`, the transcription of `SetAccount`. -/
structure Vest where
  amount : Nat
  start : Nat
  cliff : Nat
  stop : Nat
  deriving DecidableEq, Repr

structure Ledger where
  cfg : Config := {}
  params : Params := {}
  height : Nat := 0
  accounts : NMap Addr := []
  pools : NMap Nat := []
  validators : List (Addr × Validator) := []
  supply : Supply := {}
  unstaking : KSet (Nat × Addr) := []        -- prefix 5: (finish height, address)
  paused : KSet (Nat × Addr) := []           -- prefix 6: (max paused height, address)
  nonSigners : List (Addr × NonSigner) := []
  committeeKeys : KSet (Nat × Nat × Addr) := []  -- prefix 4 (legacy index, protocol v1): (chain, stake, addr)
  delegateKeys : KSet (Nat × Nat × Addr) := []   -- prefix 11
  committeesData : List CommitteeData := []
  retired : List Nat := []
  doubleSigners : KSet (Addr × Nat) := []    -- indexer: (address, height) already slashed for
  slashTracker : NMap (Addr × Nat) := []     -- per block: (address, chain) ↦ percent slashed so far
  vesting : List (Addr × Vest) := []         -- the vesting tranche of an account record (absent = all four fields 0)
  deriving Repr

/-! ## protocol version gate (`IsFeatureEnabled`) -/

def featureEnabled (L : Ledger) (required : Nat) : Bool :=
  if L.height < L.params.pvHeight then
    if L.params.pvVersion = 0 then false else decide (L.params.pvVersion - 1 ≥ required)
  else decide (L.params.pvVersion ≥ required)

def v2 (L : Ledger) : Bool := featureEnabled L 2

/-! ## accounts, pools, supply (`fsm/account.go`) -/

def accGet (L : Ledger) (a : Addr) : Nat := NMap.get L.accounts a
def accPut (L : Ledger) (a : Addr) (v : Nat) : Ledger := { L with accounts := NMap.put L.accounts a v }
def poolGet (L : Ledger) (id : Nat) : Nat := NMap.get L.pools id
def poolPut (L : Ledger) (id : Nat) (v : Nat) : Ledger := { L with pools := NMap.put L.pools id v }

def vestGet? (L : Ledger) (a : Addr) : Option Vest := AMap.find? L.vesting a

/-- `AccountVestedAmount` at height `h` (the quotient of the 128-bit product: no overflow, `stop − start > 0` whenever
the last branch is reached) -/
def vestedAmount (h : Nat) (t : Vest) : Nat :=
  if h < t.start || h < t.cliff then 0
  else if h ≥ t.stop then t.amount
  else t.amount * (h - t.start) / (t.stop - t.start)

/-- `AccountLockedAmount` -/
def lockedAmount (h : Nat) : Option Vest → Nat
  | none => 0
  | some t => if t.amount = 0 then 0 else if vestedAmount h t ≥ t.amount then 0 else t.amount - vestedAmount h t

/-- `AccountSpendableAmount` -/
def accSpendable (L : Ledger) (a : Addr) : Nat :=
  if lockedAmount L.height (vestGet? L a) ≥ accGet L a then 0 else accGet L a - lockedAmount L.height (vestGet? L a)

/-- `SetAccount`: a tranche with nothing locked any more is cleared (`clearAccountVestingIfFullyVested`), a record with
balance 0 is deleted (nonces are outside the model) -/
def setAccount (L : Ledger) (a : Addr) (amount : Nat) (t : Option Vest) : Ledger :=
  let t' := if lockedAmount L.height t = 0 then none else t
  { accPut L a amount with
    vesting := if amount = 0 then AMap.erase L.vesting a
               else match t' with
                 | none => AMap.erase L.vesting a
                 | some v => AMap.set L.vesting a v }

/-- `AccountAdd`: guarded against overflow -/
def accountAdd (L : Ledger) (a : Addr) (x : Nat) : M Ledger :=
  if x = 0 then .ok L
  else if accGet L a > MAXU - x then .error .invalidAmount
  else .ok (setAccount L a (accGet L a + x) (vestGet? L a))

/-- `AccountSub`: only the spendable part (balance less the still-locked part of the tranche) may be withdrawn -/
def accountSub (L : Ledger) (a : Addr) (x : Nat) : M Ledger :=
  if x = 0 then .ok L
  else if accSpendable L a < x then .error .insufficientFunds
  else .ok (setAccount L a (accGet L a - x) (vestGet? L a))

/-- `ValidateAccountAddWithVesting`: a still-locked tranche accepts another vesting send only with identical terms -/
def validateAddWithVesting (L : Ledger) (dst : Addr) (start cliff stop : Nat) : M Unit :=
  match vestGet? L dst with
  | none => .ok ()
  | some t =>
    if t.amount ≠ 0 && lockedAmount L.height (some t) ≠ 0 then
      if t.start ≠ start || t.cliff ≠ cliff || t.stop ≠ stop then .error .incompatibleVesting else .ok ()
    else .ok ()

/-- `acc.VestingAmount` of a record -/
def vestAmount : Option Vest → Nat
  | some t => t.amount
  | none => 0

/-- the tranche after a top-up: `acc.VestingAmount += msg.Amount`, terms kept -/
def vestTopUp (o : Option Vest) (amount start cliff stop : Nat) : Option Vest :=
  match o with
  | some t => some { t with amount := t.amount + amount }
  | none => some ⟨amount, start, cliff, stop⟩

/-- `AccountAddWithVesting` -/
def accountAddWithVesting (L : Ledger) (dst : Addr) (amount start cliff stop : Nat) : M Ledger :=
  if accGet L dst > MAXU - amount || vestAmount (vestGet? L dst) > MAXU - amount then .error .invalidAmount
  else match validateAddWithVesting L dst start cliff stop with
    | .error e => .error e
    | .ok _ =>
      if vestAmount (vestGet? L dst) = 0 || lockedAmount L.height (vestGet? L dst) = 0 then
        .ok (setAccount L dst (accGet L dst + amount) (some ⟨amount, start, cliff, stop⟩))
      else .ok (setAccount L dst (accGet L dst + amount) (vestTopUp (vestGet? L dst) amount start cliff stop))

/-- `PoolAdd`: NOT guarded (`pool.Amount += amountToAdd`) -/
def poolAdd (L : Ledger) (id x : Nat) : Ledger := poolPut L id ((poolGet L id + x) % U64)

/-- `PoolSub`: guarded -/
def poolSub (L : Ledger) (id x : Nat) : M Ledger :=
  if poolGet L id < x then .error .insufficientFunds else .ok (poolPut L id (poolGet L id - x))

/-- `AddToTotalSupply`: NOT guarded (`supply.Total += amount`) -/
def addToTotal (L : Ledger) (x : Nat) : Ledger :=
  { L with supply := { L.supply with total := (L.supply.total + x) % U64 } }

def subFromTotal (L : Ledger) (x : Nat) : M Ledger :=
  if L.supply.total < x then .error .insufficientSupply
  else .ok { L with supply := { L.supply with total := L.supply.total - x } }

def addToStaked (L : Ledger) (x : Nat) : M Ledger :=
  if L.supply.staked > MAXU - x then .error .invalidAmount
  else .ok { L with supply := { L.supply with staked := L.supply.staked + x } }

def subFromStaked (L : Ledger) (x : Nat) : M Ledger :=
  if L.supply.staked < x then .error .insufficientSupply
  else .ok { L with supply := { L.supply with staked := L.supply.staked - x } }

def addToDelegated (L : Ledger) (x : Nat) : M Ledger :=
  if L.supply.delegatedOnly > MAXU - x then .error .invalidAmount
  else .ok { L with supply := { L.supply with delegatedOnly := L.supply.delegatedOnly + x } }

def subFromDelegated (L : Ledger) (x : Nat) : M Ledger :=
  if L.supply.delegatedOnly < x then .error .insufficientSupply
  else .ok { L with supply := { L.supply with delegatedOnly := L.supply.delegatedOnly - x } }

/-- `AddToCommitteeSupplyForChain` (guarded; zero pools are filtered out of the list) -/
def addToCommitteeSupply (L : Ledger) (c x : Nat) : M Ledger :=
  if NMap.get L.supply.committee c > MAXU - x then .error .invalidAmount
  else .ok { L with supply := { L.supply with committee := NMap.put L.supply.committee c (NMap.get L.supply.committee c + x) } }

def subFromCommitteeSupply (L : Ledger) (c x : Nat) : M Ledger :=
  if NMap.get L.supply.committee c < x then .error .insufficientSupply
  else .ok { L with supply := { L.supply with committee := NMap.put L.supply.committee c (NMap.get L.supply.committee c - x) } }

def addToDelegateSupply (L : Ledger) (c x : Nat) : M Ledger :=
  if NMap.get L.supply.delegated c > MAXU - x then .error .invalidAmount
  else .ok { L with supply := { L.supply with delegated := NMap.put L.supply.delegated c (NMap.get L.supply.delegated c + x) } }

def subFromDelegateSupply (L : Ledger) (c x : Nat) : M Ledger :=
  if NMap.get L.supply.delegated c < x then .error .insufficientSupply
  else .ok { L with supply := { L.supply with delegated := NMap.put L.supply.delegated c (NMap.get L.supply.delegated c - x) } }

/-- `MintToPool` -/
def mintToPool (L : Ledger) (id x : Nat) : Ledger := poolAdd (addToTotal L x) id x

/-- `MintToAccount` -/
def mintToAccount (L : Ledger) (a : Addr) (x : Nat) : M Ledger :=
  if x = 0 then .ok L else accountAdd (addToTotal L x) a x

/-- `AccountDeductFees` -/
def deductFees (L : Ledger) (a : Addr) (fee : Nat) : M Ledger := do
  let L ← accountSub L a fee
  pure (poolAdd L L.cfg.chainId fee)

/-! ## committees (`fsm/committee.go`) -/

def setCommitteeMember (L : Ledger) (a : Addr) (c stake : Nat) : Ledger :=
  if v2 L then L else { L with committeeKeys := KSet.add L.committeeKeys (c, stake, a) }
def deleteCommitteeMember (L : Ledger) (a : Addr) (c stake : Nat) : Ledger :=
  if v2 L then L else { L with committeeKeys := KSet.del L.committeeKeys (c, stake, a) }
def setDelegate (L : Ledger) (a : Addr) (c stake : Nat) : Ledger :=
  if v2 L then L else { L with delegateKeys := KSet.add L.delegateKeys (c, stake, a) }
def deleteDelegate (L : Ledger) (a : Addr) (c stake : Nat) : Ledger :=
  if v2 L then L else { L with delegateKeys := KSet.del L.delegateKeys (c, stake, a) }

def setCommittees (L : Ledger) (a : Addr) (stake : Nat) : List Nat → M Ledger
  | [] => .ok L
  | c :: cs => do
    let L1 ← addToCommitteeSupply (setCommitteeMember L a c stake) c stake
    setCommittees L1 a stake cs

def deleteCommittees (L : Ledger) (a : Addr) (stake : Nat) : List Nat → M Ledger
  | [] => .ok L
  | c :: cs => do
    let L1 ← subFromCommitteeSupply (deleteCommitteeMember L a c stake) c stake
    deleteCommittees L1 a stake cs

def setDelegations (L : Ledger) (a : Addr) (stake : Nat) : List Nat → M Ledger
  | [] => .ok L
  | c :: cs => do
    let L1 ← addToDelegateSupply (setDelegate L a c stake) c stake
    let L2 ← addToCommitteeSupply L1 c stake
    setDelegations L2 a stake cs

def deleteDelegations (L : Ledger) (a : Addr) (stake : Nat) : List Nat → M Ledger
  | [] => .ok L
  | c :: cs => do
    let L1 ← subFromDelegateSupply (deleteDelegate L a c stake) c stake
    let L2 ← subFromCommitteeSupply L1 c stake
    deleteDelegations L2 a stake cs

def updateCommittees (L : Ledger) (a : Addr) (old : Validator) (newStake : Nat) (newCs : List Nat) : M Ledger := do
  let L1 ← deleteCommittees L a old.stake old.committees
  setCommittees L1 a newStake newCs

def updateDelegations (L : Ledger) (a : Addr) (old : Validator) (newStake : Nat) (newCs : List Nat) : M Ledger := do
  let L1 ← deleteDelegations L a old.stake old.committees
  setDelegations L1 a newStake newCs

/-! ## validators (`fsm/validator.go`) -/

def valGet? (L : Ledger) (a : Addr) : Option Validator := AMap.find? L.validators a
def valPut (L : Ledger) (a : Addr) (v : Validator) : Ledger := { L with validators := AMap.set L.validators a v }
def valDel (L : Ledger) (a : Addr) : Ledger := { L with validators := AMap.erase L.validators a }

def getValidator (L : Ledger) (a : Addr) : M Validator :=
  match valGet? L a with
  | some v => .ok v
  | none => .error .validatorNotExists

/-- `UpdateValidatorStake` -/
def updateValidatorStake (L : Ledger) (a : Addr) (val : Validator) (newCs : List Nat) (amountToAdd : Nat) : M Ledger := do
  let L1 ← addToStaked L amountToAdd
  let newStake := (val.stake + amountToAdd) % U64
  let L2 ← if val.delegate then do
      let L' ← addToDelegated L1 amountToAdd
      updateDelegations L' a val newStake newCs
    else updateCommittees L1 a val newStake newCs
  pure (valPut L2 a { val with committees := newCs, stake := newStake })

/-- `DeleteValidator` -/
def deleteValidator (L : Ledger) (a : Addr) (val : Validator) : M Ledger := do
  let L1 ← subFromStaked L val.stake
  let L2 ← if val.delegate then do
      let L' ← subFromDelegated L1 val.stake
      deleteDelegations L' a val.stake val.committees
    else deleteCommittees L1 a val.stake val.committees
  pure (valDel L2 a)

/-- `SetValidatorUnstaking` (incl. the `SetValidatorUnpaused` it performs on a paused validator) -/
def setValidatorUnstaking (L : Ledger) (a : Addr) (val : Validator) (finish : Nat) : Ledger :=
  let L1 := { L with unstaking := KSet.add L.unstaking (finish, a) }
  let L2 := if val.maxPausedHeight ≠ 0 then { L1 with paused := KSet.del L1.paused (val.maxPausedHeight, a) } else L1
  valPut L2 a { val with maxPausedHeight := 0, unstakingHeight := finish }

/-- `SetValidatorPaused` -/
def setValidatorPaused (L : Ledger) (a : Addr) (val : Validator) (maxPaused : Nat) : Ledger :=
  valPut { L with paused := KSet.add L.paused (maxPaused, a) } a { val with maxPausedHeight := maxPaused }

/-- `SetValidatorUnpaused` -/
def setValidatorUnpaused (L : Ledger) (a : Addr) (val : Validator) : Ledger :=
  valPut { L with paused := KSet.del L.paused (val.maxPausedHeight, a) } a { val with maxPausedHeight := 0 }

/-- `SetValidatorUnstakingIfBelowMinimum`: `(wasSet, ledger)` -/
def setUnstakingIfBelowMinimum (L : Ledger) (a : Addr) (val : Validator) : Bool × Ledger :=
  if val.unstakingHeight ≠ 0 then (false, L)
  else if val.delegate then
    if val.stake < L.params.minStakeDelegates then
      (true, setValidatorUnstaking L a val ((L.height + L.params.delegateUnstakingBlocks) % U64))
    else (false, L)
  else
    if val.stake < L.params.minStakeValidators then
      (true, setValidatorUnstaking L a val ((L.height + L.params.unstakingBlocks) % U64))
    else (false, L)

/-! ## message handlers (`fsm/message.go`) -/

/-- `HandleMessageSend` (no vesting fields) -/
def handleSend (L : Ledger) (src dst : Addr) (amount : Nat) : M Ledger := do
  let L1 ← accountSub L src amount
  accountAdd L1 dst amount

/-- `HandleMessageSend` with a vesting schedule (`VestingStartHeight ≠ 0 ∨ VestingEndHeight ≠ 0`, which after
`MessageSend.Check` is the same as "not all three heights are 0") -/
def handleSendVesting (L : Ledger) (src dst : Addr) (amount start cliff stop : Nat) : M Ledger := do
  validateAddWithVesting L dst start cliff stop
  let L1 ← accountSub L src amount
  accountAddWithVesting L1 dst amount start cliff stop

/-- `HandleMessageStake`; `a` is the address of the message's public key -/
def handleStake (L : Ledger) (signer a : Addr) (amount : Nat) (cs : List Nat) (delegate compound : Bool) (output : Addr) : M Ledger := do
  if (valGet? L a).isSome then throw .validatorExists
  if delegate then
    if amount < L.params.minStakeDelegates then throw .stakeBelowMinimum
  else
    if amount < L.params.minStakeValidators then throw .stakeBelowMinimum
  let L1 ← accountSub L signer amount
  let L2 ← addToStaked L1 amount
  let L3 ← if delegate then do
      let L' ← addToDelegated L2 amount
      setDelegations L' a amount cs
    else setCommittees L2 a amount cs
  pure (valPut L3 a { stake := amount, committees := cs, delegate := delegate, compound := compound, output := output })

/-- `HandleMessageEditStake` -/
def handleEditStake (L : Ledger) (signer a : Addr) (amount : Nat) (cs : List Nat) (compound : Bool) (output : Addr) : M Ledger := do
  let val ← getValidator L a
  if val.unstakingHeight ≠ 0 then throw .validatorUnstaking
  if val.output ≠ output && val.output ≠ signer then throw .unauthorizedTx
  let amountToAdd := if amount ≤ val.stake then 0 else amount - val.stake
  let L1 ← accountSub L signer amountToAdd
  updateValidatorStake L1 a { val with output := output, compound := compound } cs amountToAdd

/-- `HandleMessageUnstake` -/
def handleUnstake (L : Ledger) (a : Addr) : M Ledger := do
  let val ← getValidator L a
  if val.unstakingHeight ≠ 0 then throw .validatorUnstaking
  let blocks := if val.delegate then L.params.delegateUnstakingBlocks else L.params.unstakingBlocks
  pure (setValidatorUnstaking L a val ((L.height + blocks) % U64))

/-- `HandleMessagePause` -/
def handlePause (L : Ledger) (a : Addr) : M Ledger := do
  let val ← getValidator L a
  if val.maxPausedHeight ≠ 0 then throw .validatorPaused
  if val.unstakingHeight ≠ 0 then throw .validatorUnstaking
  if val.delegate then throw .validatorIsADelegate
  pure (setValidatorPaused L a val ((L.height + L.params.maxPauseBlocks) % U64))

/-- `HandleMessageUnpause` -/
def handleUnpause (L : Ledger) (a : Addr) : M Ledger := do
  let val ← getValidator L a
  if val.maxPausedHeight = 0 then throw .validatorNotPaused
  if val.unstakingHeight ≠ 0 then throw .validatorUnstaking
  if val.delegate then throw .validatorIsADelegate
  pure (setValidatorUnpaused L a val)

/-- `ApproveProposal` with the default `AcceptAllProposals` configuration -/
def approveProposal (L : Ledger) (start stop : Nat) : M Unit :=
  if L.height < start || L.height > stop then .error .rejectProposal else .ok ()

/-- `HandleMessageDAOTransfer` -/
def handleDaoTransfer (L : Ledger) (a : Addr) (amount : Nat) (mint : Bool) (start stop : Nat) : M Ledger := do
  approveProposal L start stop
  let L1 := if mint then mintToPool L daoPoolId amount else L
  let L2 ← poolSub L1 daoPoolId amount
  accountAdd L2 a amount

/-- `HandleMessageSubsidy` -/
def handleSubsidy (L : Ledger) (a : Addr) (chain amount : Nat) : M Ledger := do
  if L.retired.contains chain then throw .nonSubsidizedCommittee
  let L1 ← accountSub L a amount
  pure (poolAdd L1 chain amount)

/-! ## slashing and non-signers (`fsm/byzantine.go`) -/

/-- `lib.SafeMulDiv(a, b, c)` for `c ≠ 0`, result truncated to 64 bits like `big.Int.Uint64` -/
def safeMulDiv (a b c : Nat) : Nat := if c = 0 then 0 else (a * b / c) % U64

/-- the slash-percent / committee-ejection prelude of `SlashValidator` under protocol v2:
`none` = nothing happens, `some (percent', committees', ledger')` otherwise -/
def slashScope (L : Ledger) (a : Addr) (val : Validator) (chain percent : Nat) : Option (Nat × List Nat × Ledger) :=
  if v2 L then
    if !val.committees.contains chain then none
    else
      let soFar := NMap.get L.slashTracker (a, chain)
      if soFar ≥ L.params.maxSlashPerCommittee then none
      else
        let capped := decide ((soFar + percent) % U64 ≥ L.params.maxSlashPerCommittee)
        let percent' := if capped then L.params.maxSlashPerCommittee - soFar else percent
        let cs' := if capped then val.committees.erase chain else val.committees
        some (percent', cs', { L with slashTracker := NMap.put L.slashTracker (a, chain) ((soFar + percent') % U64) })
  else some (percent, val.committees, L)

/-- stake left after slashing `percent` -/
def stakeAfterSlash (stake percent : Nat) : Nat :=
  if percent ≥ 100 || stake = 0 then 0
  else if percent = 0 then stake
  else safeMulDiv stake (100 - percent) 100

/-- the zero-stake branch of `SlashValidator` removes the deferred-action markers of the validator it is about to
delete (repair 6a62009); `markerCleanup = false` is the behaviour before that repair (defect F3) -/
def slashCleanMarkers (markerCleanup : Bool) (L : Ledger) (a : Addr) (val : Validator) : Ledger :=
  let L2 := if markerCleanup && val.unstakingHeight ≠ 0 then
      { L with unstaking := KSet.del L.unstaking (val.unstakingHeight, a) } else L
  if markerCleanup && val.maxPausedHeight ≠ 0 then
      { L2 with paused := KSet.del L2.paused (val.maxPausedHeight, a) } else L2

/-- the committee / delegation bookkeeping of the non-zero branch (delegates: repair of the delegated tallies) -/
def slashMembership (L : Ledger) (a : Addr) (val : Validator) (after : Nat) (newCs : List Nat) (slashAmount : Nat) : M Ledger :=
  if val.delegate then do
    let L' ← subFromDelegated L slashAmount
    updateDelegations L' a val after newCs
  else updateCommittees L a val after newCs

/-- the end of the non-zero branch: force-unstake below the minimum, otherwise write the record -/
def slashFinish (L : Ledger) (a : Addr) (val' : Validator) : Ledger :=
  let r := setUnstakingIfBelowMinimum L a val'
  if r.1 then r.2 else valPut r.2 a val'

/-- `SlashValidator` -/
def slashValidatorWith (markerCleanup : Bool) (L : Ledger) (a : Addr) (val : Validator) (chain percent : Nat) : M Ledger :=
  match slashScope L a val chain percent with
  | none => .ok L
  | some (percent, newCs, L0) =>
    let after := stakeAfterSlash val.stake percent
    let slashAmount := val.stake - after
    match subFromTotal L0 slashAmount with
    | .error e => .error e
    | .ok L1 =>
      if after = 0 then deleteValidator (slashCleanMarkers markerCleanup L1 a val) a val
      else
        match subFromStaked L1 slashAmount with
        | .error e => .error e
        | .ok L2 =>
          match slashMembership L2 a val after newCs slashAmount with
          | .error e => .error e
          | .ok L3 => .ok (slashFinish L3 a { val with committees := newCs, stake := after })

def slashValidator := slashValidatorWith true
/-- the pre-repair variant kept as a witness (see `Props/C12`) -/
def slashNoMarkerCleanup := slashValidatorWith false

/-- `SlashValidators` -/
def slashValidatorsWith (mc : Bool) (L : Ledger) (chain percent : Nat) : List Addr → M Ledger
  | [] => .ok L
  | a :: as =>
    match valGet? L a with
    | none => slashValidatorsWith mc L chain percent as
    | some val => do
      let L1 ← slashValidatorWith mc L a val chain percent
      slashValidatorsWith mc L1 chain percent as

def slashValidators := slashValidatorsWith true

/-- `SetValidatorsPaused` (auto-pause of the non-signers that are about to be slashed); errors are swallowed -/
def setValidatorsPaused (L : Ledger) (chain : Nat) : List Addr → Ledger
  | [] => L
  | a :: as =>
    match valGet? L a with
    | none => setValidatorsPaused L chain as
    | some val =>
      if v2 L && !val.committees.contains chain then setValidatorsPaused L chain as
      else match handlePause L a with
        | .ok L1 => setValidatorsPaused L1 chain as
        | .error _ => setValidatorsPaused L chain as

/-- the non-signers that exceeded `MaxNonSign` in this window, in address order -/
def badNonSigners (L : Ledger) (chain : Nat) : List Addr :=
  L.nonSigners.filterMap fun (a, ns) =>
    let count := if v2 L && !ns.chains.isEmpty then NMap.get ns.chains chain else ns.counter
    if count > L.params.maxNonSign then some a else none

/-- `SlashAndResetNonSigners` -/
def slashAndResetNonSigners (L : Ledger) (chain : Nat) : M Ledger :=
  let bad := badNonSigners L chain
  match slashValidators (setValidatorsPaused L chain bad) chain L.params.nonSignSlashPercentage bad with
  | .error e => .error e
  | .ok L2 => .ok { L2 with nonSigners := [] }

/-- `IncrementNonSigners` -/
def incrementNonSigners (L : Ledger) (chain : Nat) : List Addr → Ledger
  | [] => L
  | a :: as =>
    let ns := (AMap.find? L.nonSigners a).getD { counter := 0, chains := [] }
    let ns1 : NonSigner := { ns with counter := (ns.counter + 1) % U64 }
    let ns2 : NonSigner := if v2 L then { ns1 with chains := NMap.put ns1.chains chain ((NMap.get ns1.chains chain + 1) % U64) } else ns1
    incrementNonSigners { L with nonSigners := AMap.set L.nonSigners a ns2 } chain as

/-- index the heights of one double signer: every (address, height) must be new -/
def indexHeights (L : Ledger) (a : Addr) : List Nat → M Ledger
  | [] => .ok L
  | h :: hs =>
    if KSet.has L.doubleSigners (a, h) then .error .invalidDoubleSigner
    else indexHeights { L with doubleSigners := KSet.add L.doubleSigners (a, h) } a hs

/-- `HandleDoubleSigners`, first part: validate and index; returns the slash list (one entry per listed height) -/
def indexDoubleSigners (L : Ledger) : List (Addr × List Nat) → M (Ledger × List Addr)
  | [] => .ok (L, [])
  | (a, hs) :: rest =>
    if hs.isEmpty then .error .invalidDoubleSignHeights
    else match indexHeights L a hs with
      | .error e => .error e
      | .ok L1 => match indexDoubleSigners L1 rest with
        | .error e => .error e
        | .ok (L2, more) => .ok (L2, hs.map (fun _ => a) ++ more)

def handleDoubleSigners (L : Ledger) (chain : Nat) (ds : List (Addr × List Nat)) : M Ledger :=
  match indexDoubleSigners L ds with
  | .error e => .error e
  | .ok r => slashValidators r.1 chain L.params.doubleSignSlashPercentage r.2

/-- `lib.Uint64PercentageDiv` (the multiplication is unguarded) -/
def percentageDiv (dividend divisor : Nat) : Nat :=
  if dividend = 0 || divisor = 0 then 0
  else let p := (dividend * 100) % U64 / divisor; if p > 100 then 100 else p

/-- `lib.Uint64ReducePercentage` -/
def reducePercentage (full percentage : Nat) : Nat :=
  if percentage ≥ 100 || full = 0 then 0
  else if percentage = 0 then full
  else (full * (100 - percentage)) % U64 / 100

/-- `HandleByzantine` for a committee given as (address, voting power, signed) in validator-set order;
returns the non-signer percent -/
def handleByzantine (L : Ledger) (chain : Nat) (members : List (Addr × Nat × Bool)) (ds : List (Addr × List Nat)) : M (Ledger × Nat) :=
  match (if L.height % L.params.nonSignWindow = 0 then slashAndResetNonSigners L chain else .ok L) with
  | .error e => .error e
  | .ok L1 =>
    let nonSigners := members.filterMap fun (a, _, signed) => if signed then none else some a
    let nsPower := (members.foldl (fun acc (_, p, signed) => if signed then acc else acc + p) 0) % U64
    let total := (members.foldl (fun acc (_, p, _) => acc + p) 0) % U64
    match handleDoubleSigners (incrementNonSigners L1 chain nonSigners) chain ds with
    | .error e => .error e
    | .ok L3 => .ok (L3, percentageDiv nsPower total)

/-! ## committee data and rewards (`fsm/committee.go`, `fsm/automatic.go`) -/

def getCommitteeData (L : Ledger) (chain : Nat) : CommitteeData :=
  (L.committeesData.find? (·.chainId = chain)).getD { chainId := chain }

def putCommitteeData (L : Ledger) (d : CommitteeData) : Ledger :=
  if L.committeesData.any (·.chainId = d.chainId) then
    { L with committeesData := L.committeesData.map fun e => if e.chainId = d.chainId then d else e }
  else { L with committeesData := L.committeesData ++ [d] }

/-- `RetireCommittee` (the retired set is kept in chain-id order, the order of the store scan) -/
def retireCommittee (L : Ledger) (c : Nat) : Ledger :=
  if L.retired.contains c then L
  else { L with retired := L.retired.filter (· < c) ++ [c] ++ L.retired.filter (· > c) }

/-- `CommitteeData.addPercents` for a non-zero percent: add to the first stub of that address, else append -/
def addPercentAt : List (Addr × Nat) → Addr → Nat → M (List (Addr × Nat))
  | [], a, p => .ok [(a, p)]
  | (b, old) :: t, a, p =>
    if b = a then
      if old > MAXU - p then .error .invalidPercentAllocation else .ok ((b, old + p) :: t)
    else match addPercentAt t a p with
      | .error e => .error e
      | .ok t' => .ok ((b, old) :: t')

/-- `CommitteeData.addPercents` -/
def addPercent (ps : List (Addr × Nat)) (a : Addr) (p : Nat) : M (List (Addr × Nat)) :=
  if p = 0 then .ok ps else addPercentAt ps a p

/-- `UpsertCommitteeData` with `CommitteeData.Combine`: `pay` = (address, percent, chain id) -/
def upsertCommitteeData (L : Ledger) (chain qcHeight qcRootHeight : Nat) (pay : List (Addr × Nat × Nat)) : M Ledger :=
  let data := getCommitteeData L chain
  if qcHeight ≤ data.lastChainHeight then .error .invalidQCCommitteeHeight
  else if qcRootHeight < data.lastRootHeight then .error .invalidQCRootChainHeight
  else
    match pay.foldlM (fun ps (e : Addr × Nat × Nat) => if e.2.2 = chain then addPercent ps e.1 e.2.1 else pure ps) data.percents with
    | .error e => .error e
    | .ok percents =>
      if data.samples = MAXU then .error .invalidPercentAllocation
      else .ok (putCommitteeData L { chainId := chain, lastRootHeight := qcRootHeight, lastChainHeight := qcHeight,
                                     samples := data.samples + 1, percents := percents })

/-- `HandleCertificateResults` for the node's own chain with the committee given explicitly
(the root-chain `BeginBlock` path): `pay` = (address, percent, chain id) -/
def handleCertificateResults (L : Ledger) (qcHeight qcRootHeight : Nat) (members : List (Addr × Nat × Bool))
    (ds : List (Addr × List Nat)) (pay : List (Addr × Nat × Nat)) : M Ledger :=
  let chain := L.cfg.chainId
  if L.retired.contains chain then .error .nonSubsidizedCommittee
  else if qcRootHeight < (getCommitteeData L chain).lastRootHeight then .error .invalidQCRootChainHeight
  else if qcHeight ≤ (getCommitteeData L chain).lastChainHeight then .error .invalidQCCommitteeHeight
  else
    match handleByzantine L chain members ds with
    | .error e => .error e
    | .ok r =>
      -- the payment percents are reduced by the share of voting power that did not sign
      upsertCommitteeData r.1 chain qcHeight qcRootHeight (pay.map fun (a, p, c) => (a, reducePercentage p r.2, c))

/-- the two reward amounts of `DistributeCommitteeReward`: (full, after the early-withdrawal penalty) -/
def rewardAmounts (L : Ledger) (percent poolAmount samples : Nat) : Nat × Nat :=
  let full := if samples ≠ 0 then (percent * poolAmount / (samples * 100)) % U64 else 0
  let early :=
    if L.params.earlyWithdrawalPenalty ≥ 100 || full = 0 then 0
    else if L.params.earlyWithdrawalPenalty = 0 then full
    else safeMulDiv full (100 - L.params.earlyWithdrawalPenalty) 100
  (full, early)

/-- `DistributeCommitteeReward`: `(distributed, ledger)` -/
def distributeReward (L : Ledger) (a : Addr) (percent poolAmount samples : Nat) : M (Nat × Ledger) :=
  let full := (rewardAmounts L percent poolAmount samples).1
  let early := (rewardAmounts L percent poolAmount samples).2
  match valGet? L a with
  | none => match accountAdd L a early with
    | .error e => .error e
    | .ok L1 => .ok (early, L1)
  | some val =>
    if val.compound && val.unstakingHeight = 0 then
      match updateValidatorStake L a val val.committees full with
      | .error e => .error e
      | .ok L1 => .ok (full, L1)
    else match accountAdd L val.output early with
      | .error e => .error e
      | .ok L1 => .ok (early, L1)

def distributeStubs (L : Ledger) (poolAmount samples : Nat) : List (Addr × Nat) → Nat → M (Nat × Ledger)
  | [], tot => .ok (tot, L)
  | (a, p) :: rest, tot =>
    match distributeReward L a p poolAmount samples with
    | .error e => .error e
    | .ok (d, L1) =>
      if d > 0 then
        if tot > MAXU - d then .error .invalidAmount
        else distributeStubs L1 poolAmount samples rest (tot + d)
      else distributeStubs L1 poolAmount samples rest tot

/-- the end of one committee's distribution: burn the undistributed remainder, empty the pool, clear the committee
data (keeping the heights). `rewardPool.Amount - totalDistributed` is an unguarded uint64 subtraction. -/
def distributeFinish (L : Ledger) (d : CommitteeData) (poolAmount tot : Nat) : M Ledger :=
  subFromTotal L ((poolAmount + U64 - tot) % U64) >>= fun L2 =>
    .ok (putCommitteeData (poolPut L2 d.chainId 0)
      { chainId := d.chainId, lastRootHeight := d.lastRootHeight, lastChainHeight := d.lastChainHeight })

/-- one committee of `DistributeCommitteeRewards`: pay the stubs, then `distributeFinish` -/
def distributeFor (L : Ledger) (d : CommitteeData) : M Ledger :=
  if d.percents.isEmpty then .ok L
  else
    match distributeStubs L (poolGet L d.chainId) d.samples d.percents 0 with
    | .error e => .error e
    | .ok r => distributeFinish r.2 d (poolGet L d.chainId) r.1

/-- `DistributeCommitteeRewards` (the list of committee data is read once, before the loop) -/
def distributeCommitteeRewards (L : Ledger) : M Ledger := L.committeesData.foldlM distributeFor L

/-! ## automatic begin / end block actions (`fsm/automatic.go`) -/

/-! `GetParamsGov`: since repair 2ceccba a governance space whose only field is 0 (it encodes to zero bytes and
reads back as `nil` once committed) is returned as the zero-valued space instead of `ErrEmptyGovParams`; before
that repair `FundCommitteeRewardPools` failed at every height after `daoRewardPercentage` had become 0
(corpus scenario `zero-dao-percentage`). -/

/-- `GetSubsidizedCommittees`, in ascending chain-id order (the order does not influence the result:
every subsidized pool receives the same amount through the unguarded `PoolAdd`) -/
def subsidizedCommittees (L : Ledger) : List Nat :=
  let paid := L.supply.committee.filterMap fun (c, amount) =>
    if percentageDiv amount L.supply.staked ≥ L.params.stakePercentForSubsidized && !L.retired.contains c then some c else none
  if paid.contains L.cfg.chainId then paid else paid ++ [L.cfg.chainId]

/-- `FundCommitteeRewardPools` (via `GetBlockMintStats`) -/
def fundCommitteeRewardPools (L : Ledger) : M Ledger :=
  if L.cfg.blocksPerHalvening = 0 then .error .invalidArgument
  else
    let paid := subsidizedCommittees L
    let halvenings := L.height / L.cfg.blocksPerHalvening
    let totalMint := L.cfg.initialTokensPerBlock / 2 ^ halvenings
    if paid.length = 0 || totalMint = 0 then .ok L
    else
      let afterDao :=
        if L.params.daoRewardPercentage ≥ 100 then 0
        else if L.params.daoRewardPercentage = 0 then totalMint
        else safeMulDiv totalMint (100 - L.params.daoRewardPercentage) 100
      let daoCut := totalMint - afterDao
      let perCommittee := afterDao / paid.length
      .ok (paid.foldl (fun L c => mintToPool L c perCommittee) (mintToPool L daoPoolId daoCut))

/-- `ForceUnstakeValidator` -/
def forceUnstakeValidator (L : Ledger) (a : Addr) : Ledger :=
  match valGet? L a with
  | none => L
  | some val =>
    if val.unstakingHeight ≠ 0 then L
    else setValidatorUnstaking L a val ((L.height + L.params.unstakingBlocks) % U64)

/-- the addresses with a marker at height `h`, in address order -/
def dueAt (m : KSet (Nat × Addr)) (h : Nat) : List Addr :=
  m.filterMap fun e => if e.1.1 = h then some e.1.2 else none

/-- `ForceUnstakeMaxPaused` -/
def forceUnstakeMaxPaused (L : Ledger) : Ledger :=
  let due := dueAt L.paused L.height
  let L1 := due.foldl forceUnstakeValidator L
  due.foldl (fun L a => { L with paused := KSet.del L.paused (L.height, a) }) L1

/-- one marker of `DeleteFinishedUnstaking`: return the stake to the output address, delete the validator -/
def finishUnstakingStep (L : Ledger) (a : Addr) : M Ledger :=
  match valGet? L a with
  | none => .error .validatorNotExists
  | some val =>
    match accountAdd L val.output val.stake with
    | .error e => .error e
    | .ok L1 => deleteValidator L1 a val

/-- `DeleteFinishedUnstaking` -/
def deleteFinishedUnstaking (L : Ledger) : M Ledger :=
  let due := dueAt L.unstaking L.height
  match due.foldlM finishUnstakingStep L with
  | .error e => .error e
  | .ok L1 => .ok (due.foldl (fun L a => { L with unstaking := KSet.del L.unstaking (L.height, a) }) L1)

/-- `EndBlock` followed by the block boundary (height + 1, fresh slash tracker) -/
def endBlock (L : Ledger) : M Ledger :=
  match distributeCommitteeRewards L with
  | .error e => .error e
  | .ok L1 =>
    match deleteFinishedUnstaking (forceUnstakeMaxPaused L1) with
    | .error e => .error e
    | .ok L3 => .ok { L3 with height := L3.height + 1, slashTracker := [] }

/-- the ledger part of `BeginBlock` that does not depend on the previous certificate -/
def beginBlockMint (L : Ledger) : M Ledger :=
  if L.height ≤ 1 then .ok L else fundCommitteeRewardPools L

/-- an empty block: begin-block mint, no transactions, end block -/
def emptyBlock (L : Ledger) : M Ledger := do
  let L1 ← beginBlockMint L
  endBlock L1

/-! ## governance parameter changes (`fsm/gov.go`, `fsm/gov_params.go`) -/

/-- `ValidatorParams.Check` restricted to the modelled parameters -/
def Params.checkVal (p : Params) : M Unit := do
  if p.unstakingBlocks = 0 then throw .invalidParam
  if p.maxPauseBlocks = 0 then throw .invalidParam
  if p.nonSignSlashPercentage > 100 then throw .invalidParam
  if p.nonSignWindow = 0 then throw .invalidParam
  if p.maxNonSign > p.nonSignWindow then throw .invalidParam
  if p.doubleSignSlashPercentage > 100 then throw .invalidParam
  if p.maxCommittees > 100 then throw .invalidParam
  if p.delegateUnstakingBlocks < 2 then throw .invalidParam
  if p.earlyWithdrawalPenalty > 100 then throw .invalidParam
  if p.stakePercentForSubsidized = 0 || p.stakePercentForSubsidized > 100 then throw .invalidParam
  if p.maxSlashPerCommittee = 0 || p.maxSlashPerCommittee > 100 then throw .invalidParam

def Params.setUint (p : Params) (space key : String) (v : Nat) : M Params :=
  if space = "val" then do
    let p' ← match key with
      | "unstakingBlocks" => pure { p with unstakingBlocks := v }
      | "delegateUnstakingBlocks" => pure { p with delegateUnstakingBlocks := v }
      | "maxPauseBlocks" => pure { p with maxPauseBlocks := v }
      | "nonSignWindow" => pure { p with nonSignWindow := v }
      | "maxNonSign" => pure { p with maxNonSign := v }
      | "nonSignSlashPercentage" => pure { p with nonSignSlashPercentage := v }
      | "doubleSignSlashPercentage" => pure { p with doubleSignSlashPercentage := v }
      | "maxSlashPerCommittee" => pure { p with maxSlashPerCommittee := v }
      | "minimumStakeForValidators" => pure { p with minStakeValidators := v }
      | "minimumStakeForDelegates" => pure { p with minStakeDelegates := v }
      | "maxCommittees" => pure { p with maxCommittees := v }
      | "earlyWithdrawalPenalty" => pure { p with earlyWithdrawalPenalty := v }
      | "stakePercentForSubsidizedCommittee" => pure { p with stakePercentForSubsidized := v }
      | _ => throw .unknownParam
    p'.checkVal
    pure p'
  else if space = "fee" then
    match key with
    | "sendFee" => pure { p with sendFee := v }
    | "stakeFee" => pure { p with stakeFee := v }
    | "editStakeFee" => pure { p with editStakeFee := v }
    | "unstakeFee" => pure { p with unstakeFee := v }
    | "pauseFee" => pure { p with pauseFee := v }
    | "unpauseFee" => pure { p with unpauseFee := v }
    | "changeParameterFee" => pure { p with changeParameterFee := v }
    | "daoTransferFee" => pure { p with daoTransferFee := v }
    | "subsidyFee" => pure { p with subsidyFee := v }
    | _ => throw .unknownParam
  else if space = "gov" then
    match key with
    | "daoRewardPercentage" => if v > 100 then throw .invalidParam else pure { p with daoRewardPercentage := v }
    | _ => throw .unknownParam
  else throw .unknownParamSpace

/-- the committee-trimming step of `ConformStateToParamUpdate` for one validator; `idx` is the running
rotation counter -/
def trimCommittees (cs : List Nat) (maxC idx : Nat) : List Nat :=
  (List.range maxC).map fun i => cs.getD ((idx % cs.length + i) % cs.length) 0

/-- one step of the minimum-stake scan of `ConformStateToParamUpdate` (the validator prefix is iterated in address
order; every record is visited once, so the record the iterator yields is the current one) -/
def conformMinStakeStep (L : Ledger) (a : Addr) : Ledger :=
  match valGet? L a with
  | some val => (setUnstakingIfBelowMinimum L a val).2
  | none => L

/-- one step of the committee-trimming scan; the `Nat` is the running rotation counter `idx` -/
def conformTrimStep (acc : Ledger × Nat) (a : Addr) : M (Ledger × Nat) :=
  let (L, idx) := acc
  match valGet? L a with
  | none => .ok (L, idx)
  | some val =>
    if val.committees.length ≤ L.params.maxCommittees then .ok (L, idx)
    else
      let newCs := trimCommittees val.committees L.params.maxCommittees idx
      match (if val.delegate then updateDelegations L a val val.stake newCs else updateCommittees L a val val.stake newCs) with
      | .error e => .error e
      | .ok L' => .ok (valPut L' a { val with committees := newCs }, idx + 1)

/-- `ConformStateToParamUpdate` (minimum stake raised; MaxCommittees lowered) -/
def conformMinStake (L : Ledger) (prev : Params) : Ledger :=
  if prev.minStakeValidators < L.params.minStakeValidators || prev.minStakeDelegates < L.params.minStakeDelegates then
    (L.validators.map (·.1)).foldl conformMinStakeStep L
  else L

def conformStateToParamUpdate (L : Ledger) (prev : Params) : M Ledger :=
  let L1 := conformMinStake L prev
  if prev.maxCommittees ≤ L1.params.maxCommittees then .ok L1
  else
    match (L1.validators.map (·.1)).foldlM conformTrimStep (L1, 0) with
    | .error e => .error e
    | .ok r => .ok r.1

/-- `HandleMessageChangeParameter` for a `uint64` value -/
def handleChangeParameter (L : Ledger) (space key : String) (v : Nat) (start stop : Nat) : M Ledger :=
  match approveProposal L start stop with
  | .error e => .error e
  | .ok _ =>
    match L.params.setUint space key v with
    | .error e => .error e
    | .ok p => conformStateToParamUpdate { L with params := p } L.params

/-! ## transactions (`fsm/transaction.go`) -/

inductive Msg
  | send (src dst : Addr) (amount : Nat)
  /-- a `MessageSend` whose three vesting heights are not all 0 (the same message kind in the code; a constructor of
  its own here so that the plain send keeps its shape) -/
  | sendVesting (src dst : Addr) (amount start cliff stop : Nat)
  | stake (a : Addr) (amount : Nat) (cs : List Nat) (delegate compound : Bool) (output : Addr)
  | editStake (a : Addr) (amount : Nat) (cs : List Nat) (compound : Bool) (output : Addr)
  | unstake (a : Addr)
  | pause (a : Addr)
  | unpause (a : Addr)
  | daoTransfer (a : Addr) (amount : Nat) (mint : Bool) (start stop : Nat)
  | subsidy (a : Addr) (chain amount : Nat)
  | changeParameter (signer : Addr) (space key : String) (v : Nat) (start stop : Nat)
  deriving Repr

/-- `checkCommittees` -/
def checkCommittees (cs : List Nat) : M Unit :=
  if cs.length > 1000 || cs.length = 0 then .error .invalidNumCommittees
  else
    let rec go (seen : List Nat) : List Nat → M Unit
      | [] => .ok ()
      | c :: rest =>
        if seen.contains c then .error .invalidNumCommittees
        else if reservedIds.contains c || c > maxChainId then .error .invalidChainId
        else go (c :: seen) rest
    go [] cs

/-- the stateless `Check()` of each message (address sizes are always 20 here) -/
def Msg.check : Msg → M Unit
  | .send _ _ amount => if amount = 0 then .error .invalidAmount else .ok ()
  | .sendVesting _ _ amount start cliff stop =>
    if amount = 0 then .error .invalidAmount
    else if stop ≤ start then .error .invalidVesting
    else if cliff < start || cliff > stop then .error .invalidVesting
    else .ok ()
  | .stake _ amount cs _ _ _ => do checkCommittees cs; if amount = 0 then throw .invalidAmount
  | .editStake _ amount cs _ _ => do checkCommittees cs; if amount = 0 then throw .invalidAmount
  | .unstake _ | .pause _ | .unpause _ => .ok ()
  | .daoTransfer _ amount _ start stop => do
    if start ≥ stop then throw .invalidBlockRange
    if stop - start > 10000 then throw .invalidBlockRange
    if amount = 0 then throw .invalidAmount
  | .subsidy _ chain _ => if reservedIds.contains chain || chain > maxChainId then .error .invalidChainId else .ok ()   -- `checkChainId` (eca9d8a)
  | .changeParameter _ _ _ _ start stop => do
    if start ≥ stop then throw .invalidBlockRange
    if stop - start > 10000 then throw .invalidBlockRange

/-- `GetFeeForMessageName` -/
def Msg.stateFee (p : Params) : Msg → Nat
  | .send .. => p.sendFee | .sendVesting .. => p.sendFee | .stake .. => p.stakeFee | .editStake .. => p.editStakeFee
  | .unstake _ => p.unstakeFee | .pause _ => p.pauseFee | .unpause _ => p.unpauseFee
  | .daoTransfer .. => p.daoTransferFee | .subsidy .. => p.subsidyFee
  | .changeParameter .. => p.changeParameterFee

def signersForValidator (L : Ledger) (a : Addr) : M (List Addr) := do
  let val ← getValidator L a
  pure (if val.output = a then [a] else [a, val.output])

/-- `GetAuthorizedSignersFor` -/
def authorizedSigners (L : Ledger) : Msg → M (List Addr)
  | .send src _ _ => .ok [src]
  | .sendVesting src .. => .ok [src]
  | .stake a _ _ _ _ output => .ok [a, output]
  | .editStake a .. => signersForValidator L a
  | .unstake a | .pause a | .unpause a => signersForValidator L a
  | .daoTransfer a .. => .ok [a]
  | .subsidy a .. => .ok [a]
  | .changeParameter signer .. => .ok [signer]

/-- `HandleMessage` (with the `Signer` field populated from the transaction's signer) -/
def handleMessage (L : Ledger) (sender : Addr) : Msg → M Ledger
  | .send src dst amount => handleSend L src dst amount
  | .sendVesting src dst amount start cliff stop => handleSendVesting L src dst amount start cliff stop
  | .stake a amount cs delegate compound output => handleStake L sender a amount cs delegate compound output
  | .editStake a amount cs compound output => handleEditStake L sender a amount cs compound output
  | .unstake a => handleUnstake L a
  | .pause a => handlePause L a
  | .unpause a => handleUnpause L a
  | .daoTransfer a amount mint start stop => handleDaoTransfer L a amount mint start stop
  | .subsidy a chain amount => handleSubsidy L a chain amount
  | .changeParameter _ space key v start stop => handleChangeParameter L space key v start stop

/-- `maybeFaucetTopUpForSendTx` -/
def faucetTopUp (L : Ledger) (sender : Addr) (required : Nat) : M Ledger :=
  match L.cfg.faucet with
  | none => .ok L
  | some f =>
    if sender ≠ f then .ok L
    else if accSpendable L sender ≥ required then .ok L
    else mintToAccount L sender (required - accSpendable L sender)

/-- the faucet step of `ApplyTransaction` (send transactions only) -/
def txFaucet (L : Ledger) (sender : Addr) (fee : Nat) : Msg → M Ledger
  | .send _ _ amount => if amount > MAXU - fee then .error .invalidAmount else faucetTopUp L sender (amount + fee)
  | .sendVesting _ _ amount _ _ _ => if amount > MAXU - fee then .error .invalidAmount else faucetTopUp L sender (amount + fee)
  | _ => .ok L

/-- `ApplyTransaction` (`CheckTx` + fee + handler) for a correctly signed transaction from `sender` -/
def applyTx (L : Ledger) (sender : Addr) (fee : Nat) (msg : Msg) : M Ledger :=
  match msg.check with
  | .error e => .error e
  | .ok _ =>
    if fee < msg.stateFee L.params then .error .feeBelowLimit
    else match authorizedSigners L msg with
      | .error e => .error e
      | .ok signers =>
        if !signers.contains sender then .error .unauthorizedTx
        else match txFaucet L sender fee msg with
          | .error e => .error e
          | .ok L1 => match deductFees L1 sender fee with
            | .error e => .error e
            | .ok L2 => handleMessage L2 sender msg

/-! ## genesis (`fsm/genesis.go`) -/

structure GenesisValidator where
  addr : Addr
  val : Validator

/-- `SetValidators` for one validator -/
def genesisValidator (L : Ledger) (g : GenesisValidator) : M Ledger :=
  let v := g.val
  if L.supply.total > MAXU - v.stake || L.supply.staked > MAXU - v.stake then .error .invalidAmount
  else if v.delegate && L.supply.delegatedOnly > MAXU - v.stake then .error .invalidAmount
  else
    -- the unstaking / paused marker (an unstaking validator is never paused)
    let L1 :=
      if v.unstakingHeight ≠ 0 then setValidatorUnstaking L g.addr v v.unstakingHeight
      else if v.maxPausedHeight ≠ 0 then setValidatorPaused L g.addr v v.maxPausedHeight
      else L
    let v1 : Validator := if v.unstakingHeight ≠ 0 then { v with maxPausedHeight := 0 } else v
    let L2 := { L1 with supply := { L1.supply with total := L1.supply.total + v.stake, staked := L1.supply.staked + v.stake } }
    let L3 := valPut L2 g.addr v1
    if v.delegate then
      setDelegations { L3 with supply := { L3.supply with delegatedOnly := L3.supply.delegatedOnly + v.stake } } g.addr v.stake v.committees
    else setCommittees L3 g.addr v.stake v.committees

/-- `SetAccounts` for one account: the running total is guarded -/
def genesisAccount (L : Ledger) (e : Addr × Nat) : M Ledger :=
  if L.supply.total > MAXU - e.2 then .error .invalidAmount
  else .ok (accPut { L with supply := { L.supply with total := L.supply.total + e.2 } } e.1 e.2)

/-- `SetPools` for one pool -/
def genesisPool (L : Ledger) (e : Nat × Nat) : M Ledger :=
  if L.supply.total > MAXU - e.2 then .error .invalidAmount
  else .ok (poolPut { L with supply := { L.supply with total := L.supply.total + e.2 } } e.1 e.2)

/-- some element occurs twice (`lib.DeDuplicator`) -/
def hasDup : List Nat → Bool
  | [] => false
  | x :: xs => xs.contains x || hasDup xs

/-- the validator loop of `ValidateGenesisState`, in file order: a validator address seen before is rejected
(b164a5d), then a committee listed twice by that validator (0262f16); `none` = every validator passes -/
def genesisValidatorsError (seen : List Addr) : List GenesisValidator → Option Err
  | [] => none
  | g :: rest =>
    if seen.contains g.addr then some .invalidAddress
    else if hasDup g.val.committees then some .invalidNumCommittees
    else genesisValidatorsError (g.addr :: seen) rest

/-- a genesis order book as far as the ledger is concerned: the chain id and the `AmountForSale` of its sell orders
(order ids are not modelled; the harness never repeats one inside a book) -/
abbrev GenesisBook := Nat × List Nat

/-- the order-book part of `ValidateGenesisState`: a chain listed twice or a book without orders is rejected -/
def validateBooks (seen : List Nat) : List GenesisBook → M Unit
  | [] => .ok ()
  | b :: rest =>
    if seen.contains b.1 then .error .invalidSellOrder
    else if b.2.length = 0 then .error .invalidSellOrder
    else validateBooks (b.1 :: seen) rest

/-- `ValidateGenesisState` on the modelled part of the genesis file -/
def validateGenesis (params : Params) (accounts : List (Addr × Nat)) (pools : List (Nat × Nat)) (vals : List GenesisValidator)
    (books : List GenesisBook := []) : M Unit :=
  match params.checkVal with
  | .error e => .error e
  | .ok _ =>
    if params.daoRewardPercentage > 100 then .error .invalidParam
    -- a validator address, a committee of one validator, an account address or a pool id listed twice is rejected
    else match genesisValidatorsError [] vals with
      | some e => .error e
      | none =>
        if hasDup (accounts.map (·.1)) then .error .invalidAddress
        else if hasDup (pools.map (·.1)) then .error .invalidChainId
        else validateBooks [] books

/-- `SetOrderBooks` for one sell order of chain `chain`: the running total is guarded, the credit to the chain's swap
escrow pool is the unguarded `PoolAdd` — ON TOP of whatever `SetPools` wrote for that pool -/
def genesisOrder (chain : Nat) (L : Ledger) (amount : Nat) : M Ledger :=
  if L.supply.total > MAXU - amount then .error .invalidAmount
  else .ok (poolAdd { L with supply := { L.supply with total := L.supply.total + amount } } (chain + escrowPoolAddend) amount)

def genesisBook (L : Ledger) (b : GenesisBook) : M Ledger := b.2.foldlM (genesisOrder b.1) L

/-- `NewStateFromGenesis` (accounts, pools, validators, order books, retired committees) at height 1, in the order of
the source (`Canopy.Gen.LedgerFacts.genesisSteps`): `SetPools` overwrites, `SetOrderBooks` adds, so the listed pools
come first. Protocol-gated genesis writes look at the height the state machine has while loading: 0. -/
def genesis (cfg : Config) (params : Params) (accounts : List (Addr × Nat)) (pools : List (Nat × Nat))
    (vals : List GenesisValidator) (retired : List Nat) (books : List GenesisBook := []) : M Ledger :=
  match validateGenesis params accounts pools vals books with
  | .error e => .error e
  | .ok _ =>
    match accounts.foldlM genesisAccount ({ cfg := cfg, params := params, height := 0 } : Ledger) with
    | .error e => .error e
    | .ok L1 => match pools.foldlM genesisPool L1 with
      | .error e => .error e
      | .ok L2 => match vals.foldlM genesisValidator L2 with
        | .error e => .error e
        | .ok L3 => match books.foldlM genesisBook L3 with
          | .error e => .error e
          | .ok L4 => .ok { L4 with retired := retired, height := 1 }

/-- the composition the seeded change pending4-C04 produces (`SetOrderBooks` moved in front of `SetPools`): the listed
pool overwrites the order credit while both stay counted in the total. Kept as a witness (`Props/C04`). -/
def genesisBooksBeforePools (cfg : Config) (params : Params) (accounts : List (Addr × Nat)) (pools : List (Nat × Nat))
    (vals : List GenesisValidator) (retired : List Nat) (books : List GenesisBook) : M Ledger :=
  match validateGenesis params accounts pools vals books with
  | .error e => .error e
  | .ok _ =>
    match accounts.foldlM genesisAccount ({ cfg := cfg, params := params, height := 0 } : Ledger) with
    | .error e => .error e
    | .ok L1 => match books.foldlM genesisBook L1 with
      | .error e => .error e
      | .ok L2 => match pools.foldlM genesisPool L2 with
        | .error e => .error e
        | .ok L3 => match vals.foldlM genesisValidator L3 with
          | .error e => .error e
          | .ok L4 => .ok { L4 with retired := retired, height := 1 }

end Canopy.Ledger
