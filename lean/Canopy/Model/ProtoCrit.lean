import Canopy.Model.Proto
/-!
Generic, schema-directed model of `lib.Unmarshal` for the *critical* messages (`Block`,
`Transaction`, `QuorumCertificate`, `lib/util.go`): size cap, pre-flight scan, `proto.Unmarshal`
(wire scan per nesting level, wire-type match per declared field, UTF-8 of `string` fields, packed
and unpacked repeated scalars), then the walker `detectUnknownProtoFields`: an unknown field — an
undeclared number, a declared number with another wire type, a group — at ANY nesting position
(top level, singular sub-message, element of a repeated message field, recursively), or a repeated
field with more than `protoMaxListLen` elements, refuses the message.

The schemas are data (`Gen.Proto.messages`, regenerated from `lib/.proto`), passed as a parameter so
that this module stays core-only. Not modelled (reported as `unsupported`, which the driver prints
as such): `map<,>` and `oneof` fields — none is reachable from the three critical messages (checked
by a theorem in `Props/C19.lean`); the walker's recursion bound (32) exceeds the nesting depth of
these schemas. Merging of repeated occurrences of a singular sub-message keeps the unknown fields of
every occurrence, so for the accept / reject verdict each occurrence is inspected on its own.
-/
namespace Canopy.ProtoCrit
open Canopy Canopy.Proto

abbrev FieldDecl := Nat × String × String × String
abbrev Schemas := List (String × List FieldDecl)

def protoMaxListLen : Nat := 100000

inductive Kind
  | varint | i64 | i32 | str | bytes
  | msg (name : String)
  | unsupported
  deriving DecidableEq, Repr

def anyDecl : List FieldDecl := [(1, "type_url", "string", ""), (2, "value", "bytes", "")]

def kindOf (S : Schemas) (enums : List String) (ty : String) : Kind :=
  if ty ∈ ["uint64", "uint32", "int64", "int32", "sint64", "sint32", "bool"] then .varint
  else if ty ∈ ["fixed64", "sfixed64", "double"] then .i64
  else if ty ∈ ["fixed32", "sfixed32", "float"] then .i32
  else if ty == "string" then .str
  else if ty == "bytes" then .bytes
  else if enums.contains ty then .varint
  else if ty == "google.protobuf.Any" then .msg ty
  else if S.any (·.1 == ty) then .msg ty
  else .unsupported

def declsOf (S : Schemas) (name : String) : List FieldDecl :=
  if name == "google.protobuf.Any" then anyDecl
  else match S.find? (·.1 == name) with
    | some m => m.2
    | none => []

/-- number of complete varints in a packed payload (`none`: the payload does not end on a boundary) -/
def countVarints : Nat → Bytes → Option Nat
  | _, [] => some 0
  | 0, _ :: _ => none
  | k+1, b => match decVarint b with
    | some (_, r) => (countVarints k r).map (· + 1)
    | none => none

/-- walker result: unknown field somewhere / a list longer than the limit somewhere / not modelled -/
structure Flags where
  unknown : Bool
  oversize : Bool
  unsupported : Bool
  deriving DecidableEq, Repr

def Flags.none : Flags := ⟨false, false, false⟩
def Flags.or (a b : Flags) : Flags := ⟨a.unknown || b.unknown, a.oversize || b.oversize, a.unsupported || b.unsupported⟩

/-- one field occurrence: `none` = decode error; otherwise flags and how many list elements it adds -/
def checkField (S : Schemas) (enums : List String) (rec : String → Bytes → Option Flags)
    (decls : List FieldDecl) (f : Field) : Option (Flags × Nat) :=
  match decls.find? (·.1 == f.num) with
  | none => some (⟨true, false, false⟩, 0)
  | some d =>
    let repeated := d.2.2.2 == "repeated"
    if d.2.2.2 == "map" || d.2.2.2 == "oneof" then some (⟨false, false, true⟩, 0)
    else match kindOf S enums d.2.2.1, f.val with
      | .varint, .varint _ => some (Flags.none, 1)
      | .varint, .len b =>
        if repeated then (countVarints b.length b).map fun n => (Flags.none, n)      -- packed
        else some (⟨true, false, false⟩, 0)
      | .i64, .i64 _ => some (Flags.none, 1)
      | .i64, .len b => if repeated then (if b.length % 8 == 0 then some (Flags.none, b.length / 8) else none) else some (⟨true, false, false⟩, 0)
      | .i32, .i32 _ => some (Flags.none, 1)
      | .i32, .len b => if repeated then (if b.length % 4 == 0 then some (Flags.none, b.length / 4) else none) else some (⟨true, false, false⟩, 0)
      | .str, .len b => if validUtf8 b then some (Flags.none, 1) else none
      | .bytes, .len _ => some (Flags.none, 1)
      | .msg name, .len b => (rec name b).map fun fl => (fl, 1)
      | .unsupported, _ => some (⟨false, false, true⟩, 0)
      | _, _ => some (⟨true, false, false⟩, 0)     -- declared number, other wire type (groups included)

/-- fold the occurrences of one message level; counts per field number -/
def foldLevel (S : Schemas) (enums : List String) (rec : String → Bytes → Option Flags) (decls : List FieldDecl) :
    List Field → Flags → List (Nat × Nat) → Option (Flags × List (Nat × Nat))
  | [], fl, cnt => some (fl, cnt)
  | f :: fs, fl, cnt =>
    match checkField S enums rec decls f with
    | none => none
    | some (g, n) =>
      let cur := ((cnt.find? (·.1 == f.num)).map (·.2)).getD 0
      foldLevel S enums rec decls fs (fl.or g) ((f.num, cur + n) :: cnt.filter (·.1 != f.num))

/-- `proto.Unmarshal` + `detectUnknownProtoFields` below one message; fuel bounds the nesting depth -/
def checkMsg (S : Schemas) (enums : List String) : Nat → String → Bytes → Option Flags
  | 0, _, _ => some ⟨false, false, true⟩
  | k+1, name, b =>
    match parse b with
    | none => none
    | some fs =>
      let decls := declsOf S name
      match foldLevel S enums (checkMsg S enums k) decls fs Flags.none [] with
      | none => none
      | some (fl, cnt) =>
        let over := decls.any fun d => d.2.2.2 == "repeated" && protoMaxListLen < (((cnt.find? (·.1 == d.1)).map (·.2)).getD 0)
        some (fl.or ⟨false, over, false⟩)

inductive Verdict | ok | err | walk | unsupported
  deriving DecidableEq, Repr

def Verdict.toString : Verdict → String
  | .ok => "ok" | .err => "err" | .walk => "err walk" | .unsupported => "unsupported"

/-- `lib.Unmarshal(raw, new(<name>))` for a critical message -/
def checkCritical (S : Schemas) (enums : List String) (name : String) (raw : Bytes) : Verdict :=
  if protoMaxMessageBytes < raw.length then .err
  else if !preflight raw then .err
  else match checkMsg S enums 40 name raw with
    | none => .err
    | some fl =>
      if fl.unsupported then .unsupported
      else if fl.unknown || fl.oversize then .walk
      else .ok

end Canopy.ProtoCrit
