/-!
M-smt, node cache (C08). Core Lean only.

`store/smt.go` keeps an in-memory `nodeCache` in front of the node store and touches nodes only through three
functions. This file models exactly their cache discipline, with the capacity (`MaxCacheSize`) and the admission rules as
parameters, so that the rules the source has today are one instance (`Discipline` built from generated facts in
`Props/C08.lean`) and a mutated rule is another:

* `setNode`: `if len(cache) >= cap { cache = {} }` (the drop), then — in the source unconditionally — `cache[k] = n`,
  then `store.Set(k, n)`;
* `delNode`: `delete(cache, k)`, then `store.Delete(k)`;
* `getNode`: a cache hit returns the cached node; a miss reads the store and, if the node exists and
  `len(cache) < cap`, caches what it read.

Nodes are values here (the contents handed to `setNode`). In Go the cache holds pointers, so a cached inner node that
is mutated in place is *ahead* of the store until the `setNode` that follows the mutation; that transient is part of
the L2 behaviour covered by the correspondence run, not of this model.
-/
namespace Canopy.Smt.Cache

variable {K V : Type} [DecidableEq K]

/-- the admission rules, as functions of (current number of cached entries, capacity) -/
structure Discipline where
  /-- `setNode` empties the cache before writing -/
  setDrop : Nat → Nat → Bool
  /-- `setNode` writes the node into the cache (after a possible drop; the length is the one after the drop) -/
  setWrite : Nat → Nat → Bool
  /-- `getNode` caches a node it had to read from the store -/
  getAdmit : Nat → Nat → Bool
  /-- `delNode` removes the key from the cache -/
  delEvict : Bool

/-- node store and node cache (an association list with one entry per key; `length` = `len(nodeCache)`) -/
structure St (K V : Type) where
  store : K → Option V
  cache : List (K × V)

def cachePut (c : List (K × V)) (k : K) (v : V) : List (K × V) := (k, v) :: c.filter (fun e => e.1 ≠ k)
def cacheDel (c : List (K × V)) (k : K) : List (K × V) := c.filter (fun e => e.1 ≠ k)
def cacheGet (c : List (K × V)) (k : K) : Option V := (c.find? (fun e => e.1 = k)).map (·.2)

def setNode (d : Discipline) (cap : Nat) (s : St K V) (k : K) (v : V) : St K V :=
  let c1 := if d.setDrop s.cache.length cap then [] else s.cache
  let c2 := if d.setWrite c1.length cap then cachePut c1 k v else c1
  { store := fun k' => if k' = k then some v else s.store k', cache := c2 }

def delNode (d : Discipline) (s : St K V) (k : K) : St K V :=
  { store := fun k' => if k' = k then none else s.store k',
    cache := if d.delEvict then cacheDel s.cache k else s.cache }

/-- `getNode`: what the tree is handed (`none` = the empty node of a missing key), and the state afterwards -/
def getNode (d : Discipline) (cap : Nat) (s : St K V) (k : K) : Option V × St K V :=
  match cacheGet s.cache k with
  | some v => (some v, s)
  | none =>
    match s.store k with
    | none => (none, s)
    | some v => (some v, if d.getAdmit s.cache.length cap then { s with cache := cachePut s.cache k v } else s)

/-- one access of the tree code to its nodes -/
inductive Acc (K V : Type) where
  | set (k : K) (v : V)
  | del (k : K)
  | get (k : K)
  | drop            -- `s.nodeCache = make(…)`: the cleanup of `addSyntheticBorders` starts from an empty cache

def step (d : Discipline) (cap : Nat) (s : St K V) : Acc K V → St K V
  | .set k v => setNode d cap s k v
  | .del k => delNode d s k
  | .get k => (getNode d cap s k).2
  | .drop => { s with cache := [] }

def run (d : Discipline) (cap : Nat) (s : St K V) (as : List (Acc K V)) : St K V := as.foldl (step d cap) s

/-- the node store without any cache -/
def stepStore (st : K → Option V) : Acc K V → K → Option V
  | .set k v => fun k' => if k' = k then some v else st k'
  | .del k => fun k' => if k' = k then none else st k'
  | .get _ => st
  | .drop => st

def runStore (st : K → Option V) (as : List (Acc K V)) : K → Option V := as.foldl stepStore st

/-- **cache coherence**: every cached entry is the store's latest node for that key -/
def Coherent (s : St K V) : Prop := ∀ k v, cacheGet s.cache k = some v → s.store k = some v

/-- the rules of the source as found by `facts` (see `Gen/SmtFacts.lean`), at any capacity -/
def fromFacts (dropsAtCapacity writeAlways writeBelowCapacity admitAlways admitBelowCapacity evicts : Bool) : Discipline :=
  { setDrop := fun len cap => dropsAtCapacity && decide (cap ≤ len)
    setWrite := fun len cap => writeAlways || (writeBelowCapacity && decide (len < cap))
    getAdmit := fun len cap => admitAlways || (admitBelowCapacity && decide (len < cap))
    delEvict := evicts }

/-- the rules of store/smt.go -/
def original : Discipline := fromFacts true true false false true true

/-- the mutated rule "cache the written node only while there is room; never drop" -/
def admitOnlyBelowCapacity : Discipline := fromFacts false false true false true true

end Canopy.Smt.Cache
