/-!
# M-bft-abs — the history model of the vote / lock / commit core of `bft/` (C01)

One fixed target-chain height. A *view* is `(rootHeight, round)`, ordered lexicographically — the order
in which a replica moves through views (a round change raises the round; a NEW_COMMITTEE reset raises
the root height and restarts the round at 0).

A history is the list of everything that was signed or locked, newest first:

* `propose r v b hq`     replica `r` signed a PROPOSE_VOTE for block `b` in view `v`; the proposal it answered
                         carried the justification certificate `hq` (view of `msg.HighQc`, if any);
* `precommit r v b q qp` replica `r` signed a PRECOMMIT_VOTE for `b` in view `v`; the PRECOMMIT message it
                         answered carried a certificate with header view `q` (`qp`: a PROPOSE_VOTE one);
                         `StartPrecommitVotePhase` stores that certificate as the lock (`b.HighQC = msg.Qc`);
* `adopt r q b`          replica `r` replaced its lock by a certificate for `b` at view `q` that arrived as
                         the `HighQc` of an ELECTION_VOTE (`handleHighQCVDFAndEvidence`).

There is no other state: the lock of a replica is its most recent `precommit`/`adopt` entry, a block is
committed when a PRECOMMIT_VOTE quorum for it exists. A certificate for `(view, phase, block)` *exists*
when the votes present in the history reach `2T/3+1` — signatures are symbolic (only the key holder
adds a vote under its name) and the adversary is the aggregator and the scheduler: message loss,
duplication, delay, reordering and withholding are all "some subset of the votes sent so far".
Timeouts, pacemaker jumps and resets appear only through the guard "a replica's votes are cast in
non-decreasing views"; Byzantine replicas add arbitrary entries.

The guards are deliberately weak (a weaker guard admits more histories, so the theorem is stronger): a
PRECOMMIT_VOTE is *not* required to follow an own PROPOSE_VOTE for the same block (the code enforces it through
`b.Block`, which `handleHighQCVDFAndEvidence` can overwrite mid-round), and the proposer key inside the signed payload
is ignored (votes for one block under two proposer keys count towards one certificate).

`Cfg` carries the three decisions of the code the proof depends on as *parameters*
(`unlock`, `adoptOk`, `certBound`); `Canopy.Bft.genCfg` (Model/BftGen.lean) instantiates them with the functions
regenerated from `/repo`. This file is core Lean only (it is linked into the driver).
-/
namespace Canopy.Bft

structure View where
  root : Nat
  round : Nat
deriving DecidableEq, Repr

def View.lt (a b : View) : Prop := a.root < b.root ∨ (a.root = b.root ∧ a.round < b.round)
instance : LT View := ⟨View.lt⟩
instance (a b : View) : Decidable (a < b) := by unfold LT.lt instLTView View.lt; exact inferInstance
def View.le (a b : View) : Prop := a < b ∨ a = b
instance : LE View := ⟨View.le⟩
instance (a b : View) : Decidable (a ≤ b) := by unfold LE.le instLEView View.le; exact inferInstance

/-- history entries, newest first in a trace -/
inductive Ev where
  | propose (r : Nat) (v : View) (b : Nat) (hq : Option View)
  | precommit (r : Nat) (v : View) (b : Nat) (q : View) (qp : Bool)
  | adopt (r : Nat) (q : View) (b : Nat)
deriving DecidableEq, Repr

def Ev.rep : Ev → Nat
  | .propose r _ _ _ => r
  | .precommit r _ _ _ _ => r
  | .adopt r _ _ => r

/-- the view a vote was cast in (`adopt` is not a vote) -/
def Ev.voteView : Ev → Option View
  | .propose _ v _ _ => some v
  | .precommit _ v _ _ _ => some v
  | .adopt _ _ _ => none

def Ev.isProposeAt (e : Ev) (r : Nat) (v : View) : Bool :=
  match e with
  | .propose r' v' _ _ => decide (r' = r) && decide (v' = v)
  | _ => false
def Ev.isPrecommitAt (e : Ev) (r : Nat) (v : View) : Bool :=
  match e with
  | .precommit r' v' _ _ _ => decide (r' = r) && decide (v' = v)
  | _ => false
def Ev.isProposeFor (e : Ev) (r : Nat) (v : View) (b : Nat) : Bool :=
  match e with
  | .propose r' v' b' _ => decide (r' = r) && decide (v' = v) && decide (b' = b)
  | _ => false
def Ev.isPrecommitFor (e : Ev) (r : Nat) (v : View) (b : Nat) : Bool :=
  match e with
  | .precommit r' v' b' _ _ => decide (r' = r) && decide (v' = v) && decide (b' = b)
  | _ => false

/-- replica `r` signed a PROPOSE_VOTE for `b` at `v` -/
def votedPropose (tr : List Ev) (r : Nat) (v : View) (b : Nat) : Bool :=
  tr.any (fun e => e.isProposeFor r v b)
/-- replica `r` signed a PRECOMMIT_VOTE for `b` at `v` -/
def votedPrecommit (tr : List Ev) (r : Nat) (v : View) (b : Nat) : Bool :=
  tr.any (fun e => e.isPrecommitFor r v b)

structure Cfg where
  committee : List Nat
  pw : Nat → Nat
  byz : Nat → Bool
  /-- `SafeNode`, LIVENESS branch: accept a justification at view `y` over a lock at view `w` -/
  unlock : View → View → Bool
  /-- `handleHighQCVDFAndEvidence`: replace a lock at view `w` by a received certificate at view `y` -/
  adoptOk : View → View → Bool
  /-- `CheckProposerMessage`: a PRECOMMIT message whose certificate has header view `q` (`qp`: phase
      PROPOSE_VOTE) is accepted by a replica that will precommit-vote in view `v` -/
  certBound : View → Bool → View → Bool

namespace Cfg
variable (c : Cfg)

def powerOf (p : Nat → Bool) : Nat := ((c.committee.filter p).map c.pw).sum
def total : Nat := (c.committee.map c.pw).sum
/-- the +2/3 threshold, `NewValidatorSet`'s `MinimumMaj23` (see `Props/C01.minimumMaj23_eq`) -/
def maj : Nat := 2 * c.total / 3 + 1

def proposeQC (tr : List Ev) (v : View) (b : Nat) : Prop :=
  c.maj ≤ c.powerOf (fun r => votedPropose tr r v b)
/-- a commit certificate -/
def precommitQC (tr : List Ev) (v : View) (b : Nat) : Prop :=
  c.maj ≤ c.powerOf (fun r => votedPrecommit tr r v b)
/-- the certificate a PRECOMMIT message carries exists -/
def certQC (tr : List Ev) (q : View) (qp : Bool) (b : Nat) : Prop :=
  if qp then c.proposeQC tr q b else c.precommitQC tr q b

/-- the lock of replica `r` (`b.HighQC`): its most recent precommit certificate or adopted certificate -/
def lock : List Ev → Nat → Option (View × Nat)
  | [], _ => none
  | .precommit r' _ b q _ :: tr, r => if r' = r then some (q, b) else lock tr r
  | .adopt r' q b :: tr, r => if r' = r then some (q, b) else lock tr r
  | .propose _ _ _ _ :: tr, r => lock tr r

/-- the LIVENESS branch of `SafeNode`: a justification `y` that the unlock comparison accepts over the
    lock view `w` and that is a PROPOSE_VOTE quorum for the proposed block (`CheckHighQC` + the
    hash-justification check of `SafeNode`) -/
def justified (tr : List Ev) (b : Nat) (w : View) : Option View → Prop
  | none => False
  | some y => c.unlock w y = true ∧ c.proposeQC tr y b

/-- `SafeNode` (called iff locked): same block as the lock, or justified -/
def safeCond (tr : List Ev) (b : Nat) (hq : Option View) : Option (View × Nat) → Prop
  | none => True
  | some (w, bw) => bw = b ∨ c.justified tr b w hq

/-- votes of `r` so far were cast in views ≤ `v` -/
def viewsUpTo (tr : List Ev) (r : Nat) (v : View) : Prop :=
  ∀ e ∈ tr, e.rep = r → ∀ w, e.voteView = some w → w ≤ v

def adoptCond (q : View) : Option (View × Nat) → Prop
  | none => True
  | some (w, _) => c.adoptOk w q = true

/-- what a protocol-following replica has checked before it signs / locks; `tr` is the history so far -/
def guard (tr : List Ev) : Ev → Prop
  | .propose r v b hq =>
      viewsUpTo tr r v ∧
      (∀ e ∈ tr, e.isProposeAt r v = false) ∧
      c.safeCond tr b hq (lock tr r)
  | .precommit r v b q qp =>
      viewsUpTo tr r v ∧
      (∀ e ∈ tr, e.isPrecommitAt r v = false) ∧
      c.certBound q qp v = true ∧
      c.certQC tr q qp b
  | .adopt r q b =>
      c.proposeQC tr q b ∧ c.adoptCond q (lock tr r)

inductive Valid : List Ev → Prop
  | nil : Valid []
  | honest (e : Ev) (tr : List Ev) : Valid tr → c.byz e.rep = false → c.guard tr e → Valid (e :: tr)
  | byzantine (e : Ev) (tr : List Ev) : Valid tr → c.byz e.rep = true → Valid (e :: tr)

/-- the same notion as `Valid`, by recursion, so that concrete traces can be checked by `decide` and by the driver -/
def validP : List Ev → Prop
  | [] => True
  | e :: tr => validP tr ∧ (c.byz e.rep = true ∨ c.guard tr e)

theorem validP_sound : ∀ tr, c.validP tr → c.Valid tr
  | [], _ => Valid.nil
  | e :: tr, h => by
    cases hb : c.byz e.rep
    · rcases h.2 with h2 | h2
      · rw [hb] at h2; cases h2
      · exact Valid.honest e tr (validP_sound tr h.1) hb h2
    · exact Valid.byzantine e tr (validP_sound tr h.1) hb

/-- every honest PRECOMMIT_VOTE in the history locked on the PROPOSE_VOTE certificate of the very view it was cast in -/
def Fresh (tr : List Ev) : Prop :=
  ∀ r v b q qp, Ev.precommit r v b q qp ∈ tr → c.byz r = false → q = v ∧ qp = true

/-! ### decidability (driver, `decide`-checked witnesses) -/

instance (tr : List Ev) (v : View) (b : Nat) : Decidable (c.proposeQC tr v b) := by
  unfold proposeQC; exact inferInstance
instance (tr : List Ev) (v : View) (b : Nat) : Decidable (c.precommitQC tr v b) := by
  unfold precommitQC; exact inferInstance
instance (tr : List Ev) (q : View) (qp : Bool) (b : Nat) : Decidable (c.certQC tr q qp b) := by
  unfold certQC; exact inferInstance
instance (tr : List Ev) (b : Nat) (w : View) : (hq : Option View) → Decidable (c.justified tr b w hq)
  | none => by unfold justified; exact inferInstance
  | some _ => by unfold justified; exact inferInstance
instance (tr : List Ev) (b : Nat) (hq : Option View) :
    (l : Option (View × Nat)) → Decidable (c.safeCond tr b hq l)
  | none => by unfold safeCond; exact inferInstance
  | some (_, _) => by unfold safeCond; exact inferInstance
instance (q : View) : (l : Option (View × Nat)) → Decidable (c.adoptCond q l)
  | none => by unfold adoptCond; exact inferInstance
  | some (_, _) => by unfold adoptCond; exact inferInstance

/-- `viewsUpTo` as a check -/
def viewsUpToB (tr : List Ev) (r : Nat) (v : View) : Bool :=
  tr.all fun e => !(decide (e.rep = r)) || (match e.voteView with | none => true | some w => decide (w ≤ v))

theorem viewsUpToB_iff (tr : List Ev) (r : Nat) (v : View) : viewsUpToB tr r v = true ↔ viewsUpTo tr r v := by
  unfold viewsUpToB viewsUpTo
  rw [List.all_eq_true]
  constructor
  · intro h e he hr w hw
    have := h e he
    simp [hr, hw] at this
    exact this
  · intro h e he
    by_cases hr : e.rep = r
    · cases hw : e.voteView with
      | none => simp [hr]
      | some w => simp [hr]; exact h e he hr w hw
    · simp [hr]

instance (tr : List Ev) (r : Nat) (v : View) : Decidable (viewsUpTo tr r v) :=
  decidable_of_iff _ (viewsUpToB_iff tr r v)

instance (tr : List Ev) : (e : Ev) → Decidable (c.guard tr e)
  | .propose _ _ _ _ => by unfold guard; exact inferInstance
  | .precommit _ _ _ _ _ => by unfold guard; exact inferInstance
  | .adopt _ _ _ => by unfold guard; exact inferInstance

instance : (tr : List Ev) → Decidable (c.validP tr)
  | [] => by unfold validP; exact inferInstance
  | e :: tr => by
    unfold validP
    have := instDecidableValidP tr
    exact inferInstance

end Cfg
end Canopy.Bft
