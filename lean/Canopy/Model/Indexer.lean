import Canopy.Model.Store
/-!
M-store, indexer partition (C10: "what a reader observes as of height v — state, committee, BLOCKS —
never changes"): `store/indexer.go` over the `i/` partition of the same versioned key space, and the
process-wide `blockCache` (one LRU of 64 entries keyed by HEIGHT, shared by every store object and
every read-only view of the process; `IndexBlock` fills it before the commit, `GetBlockByHeight`,
`GetBlockHeaderByHeight` and `GetQCByHeight` read it first and fill it — also with what a miss in
their view produced). The cache is part of what a reader observes, so it is part of the model.

Values are abstracted to what the harness compares: a block header is `(height, hash)`, a tx result
`(height, index, hash)`, a QC `(height, blockHash)`; an absent value decodes to the zero message, as
`lib.Unmarshal(nil, …)` does. Core Lean only.
-/
namespace Canopy.Store
open Canopy

def idxPrefix : Bytes := joinLenPrefix [[105, 47]]   -- "i/"

/-! ## keys (`Indexer.key(prefix, param1, param2) = JoinLenPrefix(prefix, param1, param2)`) -/

def txHashKey (hash : Bytes) : Bytes := joinLenPrefix [[1], hash]
def txHeightKey (h : Nat) : Bytes := joinLenPrefix [[2], be8 h]
def txHeightIndexKey (h i : Nat) : Bytes := joinLenPrefix [[2], be8 h, be8 i]
def blockHashKey (hash : Bytes) : Bytes := joinLenPrefix [[5], hash]
def blockHeightKey (h : Nat) : Bytes := joinLenPrefix [[6], be8 h]
def qcHeightKey (h : Nat) : Bytes := joinLenPrefix [[7], be8 h]

/-! ## values -/

def encHdr (h : Nat) (hash : Bytes) : Bytes := be8 h ++ hash
def decHdr (b : Bytes) : Nat × Bytes := if b.isEmpty then (0, []) else (beNat (b.take 8), b.drop 8)
def encTx (h i : Nat) (hash : Bytes) : Bytes := be8 h ++ be8 i ++ hash
def decTxHash (b : Bytes) : Bytes := b.drop 16
def encQC (h : Nat) (blockHash : Bytes) : Bytes := be8 h ++ blockHash
def decQC (b : Bytes) : Nat × Bytes := if b.isEmpty then (0, []) else (beNat (b.take 8), b.drop 8)

/-- a `lib.BlockResult` as the harness observes it: header height, header hash, tx hashes -/
structure BlockRes where
  hHeight : Nat := 0
  hash : Bytes := []
  txs : List Bytes := []
  deriving DecidableEq, Repr

/-! ## the indexer of one store object or read-only view: `Indexer.db`, a `Txn` over the historical reader at
the view's version. A `Txn` keeps its operations in a hash map (`ops`: what `Get` consults) and — only when it
was built with `sort = true` — also in the sorted tree (`sorted`) its iterators merge with the parent's. -/

structure IView where
  idb : DB
  version : Nat
  /-- `txn.ops`: the pending operations point reads see -/
  pend : Overlay := []
  /-- `txn.sorted`: the pending operations iteration sees — `pend` for a `Txn` built with `sort = true`,
  nothing for one built with `sort = false` (and nothing for a read-only view, which has no writes) -/
  ipend : Overlay := []

/-- `Txn.Get`: pending operations first, then the versioned store; absent = empty -/
def IView.getB (v : IView) (k : Bytes) : Bytes :=
  match smGet v.pend k with
  | some op => (op.read).getD []
  | none => ((VS.mk v.idb v.version).get (idxPrefix ++ k)).getD []

/-- the parent iterator: the versioned store under the indexer prefix, `seek = false` (linear forward strategy) -/
def IView.dbIter (v : IView) (p : Bytes) : List (Bytes × Bytes) :=
  ((VS.mk v.idb v.version).iter (idxPrefix ++ p) false false).map fun kv => (kv.1.drop idxPrefix.length, kv.2)

/-- `Txn.Iterator`: the `TxnIterator` merge (C10's `mergeRun`) of the sorted pending operations under the
prefix with the parent iterator -/
def IView.iter (v : IView) (p : Bytes) : List (Bytes × Bytes) :=
  match v.ipend with
  | [] => v.dbIter p   -- nothing to merge: the merge of no items with the parent is the parent
  | ov => mergeRun false (txnItems ov p false) (v.dbIter p)

/-- `GetTxsByHeightNonPaginated(h, false)`: the tx hashes in index order -/
def IView.txsByHeight (v : IView) (h : Nat) : List Bytes :=
  (v.iter (txHeightKey h)).map fun kv => decTxHash (v.getB kv.2)

/-- `getBlock(hashKey, transactions)` -/
def IView.getBlock (v : IView) (hashKey : Bytes) (withTxs : Bool) : BlockRes :=
  let hd := decHdr (v.getB hashKey)
  { hHeight := hd.1, hash := hd.2, txs := if withTxs then v.txsByHeight hd.1 else [] }

def IView.getBlockByHash (v : IView) (hash : Bytes) : BlockRes := v.getBlock (blockHashKey hash) true
def IView.getTxByHash (v : IView) (hash : Bytes) : Bytes := decTxHash (v.getB (txHashKey hash))

/-- what the database part alone says about the block at a height (no cache) -/
def IView.dbBlockByHeight (v : IView) (h : Nat) : BlockRes := v.getBlock (v.getB (blockHeightKey h)) true
def IView.dbQCByHeight (v : IView) (h : Nat) : Nat × Bytes := decQC (v.getB (qcHeightKey h))

/-! ## `blockCache`: one LRU of 64 block results for the whole process — most recently used first.

Two keyings are modelled. `byHashKey` is the code as it stands (commits fbabcb4, dac697d): the key is
`string(hashKey)`, the block's hash key, and every reader first resolves `height → hashKey` through its
OWN view (`t.db.Get(t.blockHeightKey(height))`), answers an absent height from the view without touching
the cache, and only then consults the cache; header-only results are never cached. `byHeight` is the
code before that commit: `lru.New[uint64, …]` keyed by the height, consulted before the view, filled by
every miss (kept as the model of the defect: `Props/C10.lean`, `block_cache_defect_*`). Which one applies
is derived from generated facts (`Canopy.Gen.Store`) in `Props/C10.lean`. -/

inductive CacheKeying
  | byHeight
  | byHashKey
  deriving DecidableEq, Repr

/-- the key is the height (`be8 h`) under `byHeight`, the hash key under `byHashKey` -/
abbrev Cache := List (Bytes × BlockRes)

def Cache.lookup (c : Cache) (k : Bytes) : Option BlockRes := (c.find? fun e => e.1 == k).map (·.2)
/-- `Get`: a hit moves the entry to the front -/
def Cache.touch (c : Cache) (k : Bytes) : Cache :=
  match c.find? fun e => e.1 == k with
  | some e => e :: c.filter fun x => x.1 != k
  | none => c
/-- `Add`: insert or update at the front, evict the least recently used beyond 64 -/
def Cache.add (c : Cache) (k : Bytes) (b : BlockRes) : Cache := ((k, b) :: c.filter fun x => x.1 != k).take 64

/-- `GetBlockByHeight` -/
def getBlockByHeight (mode : CacheKeying) (c : Cache) (v : IView) (h : Nat) : BlockRes × Cache :=
  match mode with
  | .byHeight =>
    match c.lookup (be8 h) with
    | some b => (b, c.touch (be8 h))
    | none => let b := v.dbBlockByHeight h; (b, c.add (be8 h) b)
  | .byHashKey =>
    let hk := v.getB (blockHeightKey h)
    if hk.isEmpty then (v.getBlock hk true, c)
    else match c.lookup hk with
      | some b => (b, c.touch hk)
      | none =>
        let b := v.getBlock hk true
        -- `if !t.hasPendingWrites()`: only blocks read from committed data are cached (commit dac697d)
        (b, if v.pend.isEmpty then c.add hk b else c)

/-- `GetBlockHeaderByHeight` -/
def getBlockHeaderByHeight (mode : CacheKeying) (c : Cache) (v : IView) (h : Nat) : BlockRes × Cache :=
  match mode with
  | .byHeight =>
    match c.lookup (be8 h) with
    | some b => (b, c.touch (be8 h))
    | none => let b := v.getBlock (v.getB (blockHeightKey h)) false; (b, c.add (be8 h) b)
  | .byHashKey =>
    let hk := v.getB (blockHeightKey h)
    if hk.isEmpty then (v.getBlock hk false, c)
    else match c.lookup hk with
      | some b => (b, c.touch hk)
      | none => (v.getBlock hk false, c)

/-- `GetQCByHeight`: the QC from the view, its block through `GetBlockByHeight` -/
def getQCByHeight (mode : CacheKeying) (c : Cache) (v : IView) (h : Nat) : (Nat × Bytes × BlockRes) × Cache :=
  let qc := v.dbQCByHeight h
  let r := getBlockByHeight mode c v h
  ((qc.1, qc.2, r.1), r.2)

/-! ## `GetBlocks(PageParams)`: a page of blocks, newest first

`getBlockForPage(height, transactions)` resolves the height through the view, serves a cached block result,
otherwise loads the block — with or without its transactions — and (the code as it stands, derived from
generated facts in `Props/C10.lean`) does NOT put what it loaded into the cache. `setBlocksTook` calls it with
`transactions = false` for the block just below the page. -/

/-- whether `getBlockForPage` adds what it loaded to the block cache -/
inductive PageFill
  | none
  | addsLoaded
  deriving DecidableEq, Repr

def getBlockForPage (pf : PageFill) (c : Cache) (v : IView) (h : Nat) (withTxs : Bool) : BlockRes × Cache :=
  let hk := v.getB (blockHeightKey h)
  match (if hk.isEmpty then none else c.lookup hk) with
  | some b => (b, c.touch hk)
  | none =>
    let b := v.getBlock hk withTxs
    (b, match pf with
      | .none => c
      | .addsLoaded => if !hk.isEmpty && v.pend.isEmpty then c.add hk b else c)

/-- the heights present in the block-height index of the view, ascending (`blockHeightBounds` takes the first
and the last by a forward and a reverse iterator) -/
def IView.blockHeights (v : IView) : List Nat :=
  (v.iter (joinLenPrefix [[6]])).map fun kv => beNat (kv.1.drop 3)

/-- the blocks of the page, in order, threading the cache -/
def pageReads (pf : PageFill) (v : IView) (hs : List Nat) (c : Cache) : List BlockRes × Cache :=
  hs.foldl (fun (acc : List BlockRes × Cache) h =>
    let r := getBlockForPage pf acc.2 v h true
    (acc.1 ++ [r.1], r.2)) ([], c)

/-- the heights of page `pageNumber` of size `perPage` (`PageParams.skipToIndex`, `Page.LoadCounted`) -/
def pageHeights (oldest newest pageNumber perPage : Nat) : List Nat :=
  let pp := if perPage = 0 then 10 else if perPage > 5000 then 5000 else perPage
  let pn := if pageNumber = 0 then 1 else pageNumber
  let start := (pn - 1) * pp
  let total := newest - oldest + 1
  ((List.range pp).map (· + start)).filterMap fun i => if i < total then some (newest - i) else none

/-- `GetBlocks`: the page and the total count; then `setBlocksTook` reads the header of the block below the
page (through the cache) unless the last block of the page is the oldest -/
def getBlocks (pf : PageFill) (c : Cache) (v : IView) (pageNumber perPage : Nat) : (List BlockRes × Nat) × Cache :=
  let hs := v.blockHeights
  match hs.head?, hs.getLast? with
  | some oldest, some newest =>
    let r := pageReads pf v (pageHeights oldest newest pageNumber perPage) c
    let c2 := match r.1.getLast? with
      | some last => if oldest ≥ last.hHeight then r.2 else (getBlockForPage pf r.2 v (last.hHeight - 1) false).2
      | none => r.2
    ((r.1, newest - oldest + 1), c2)
  | _, _ => (([], 0), c)

/-- the key `IndexBlock` caches the block under -/
def indexCacheKey (mode : CacheKeying) (h : Nat) (hash : Bytes) : Bytes :=
  match mode with
  | .byHeight => be8 h
  | .byHashKey => blockHashKey hash

/-! ## the process: the store of C10 plus its indexer partition and the block cache -/

structure IState where
  st : State := {}
  /-- the `i/` partition of the key space (disjoint from `s/`, `h/` by prefix) -/
  idb : DB := []
  /-- pending operations of the store's indexer txn -/
  idxOv : Overlay := []
  cache : Cache := []
  /-- the `sort` flag the block-level indexer `Txn` is built with (`NewStoreWithDB`, `Reset`): `true` is the
  code as it stands (derived from generated facts in `Props/C10.lean`), `false` the code before -/
  idxSort : Bool := true

/-- the indexer of the store object itself -/
def IState.live (s : IState) : IView :=
  { idb := s.idb, version := s.st.version, pend := s.idxOv, ipend := if s.idxSort then s.idxOv else [] }
/-- the indexer of `NewReadOnly(v)` -/
def IState.ro (s : IState) (v : Nat) : IView := { idb := s.idb, version := v }

/-- `IndexBlock`: the cache first, then header by hash, hash key by height, every tx by hash and by
height.index (IndexByAccount off) -/
def IState.indexBlock (mode : CacheKeying) (s : IState) (h : Nat) (hash : Bytes) (txs : List Bytes) : IState :=
  let ov0 := smSet (smSet s.idxOv (blockHashKey hash) (.set (encHdr h hash))) (blockHeightKey h) (.set (blockHashKey hash))
  let ov := (txs.zipIdx).foldl (fun o (th, i) =>
    smSet (smSet o (txHashKey th) (.set (encTx h i th))) (txHeightIndexKey h i) (.set (txHashKey th))) ov0
  { s with cache := s.cache.add (indexCacheKey mode h hash) { hHeight := h, hash := hash, txs := txs }, idxOv := ov }

/-- `IndexQC` -/
def IState.indexQC (s : IState) (h : Nat) (blockHash : Bytes) : IState :=
  { s with idxOv := smSet s.idxOv (qcHeightKey h) (.set (encQC h blockHash)) }

/-- the indexer txn's part of the commit batch: every pending operation at `version + 1` -/
def idxBatch (ov : Overlay) (next : Nat) : List BatchOp :=
  ov.map fun e => BatchOp.put (mkKey (idxPrefix ++ e.1) next) (rawOf e.2)

/-- `Commit` (only from the base store, no nested txn): state and indexer in the one batch -/
def IState.commit (s : IState) : IState :=
  match s.st.main with
  | [_] => { s with st := s.st.commit, idb := applyBatch s.idb (idxBatch s.idxOv (s.st.version + 1)), idxOv := [] }
  | _ => s

/-- `Reset()`: the pending state and indexer operations are dropped — the block cache is not touched -/
def IState.reset (s : IState) : IState := { s with st := { s.st with main := [{}] }, idxOv := [] }

/-- `pruneVersionWindow` over the indexer prefix -/
def idxPrune (idb : DB) (lo hi : Nat) : DB := idb.filter fun e => !(decide (lo ≤ versionOf e.1) && decide (versionOf e.1 ≤ hi))

/-- `Rollback(t)`: state as in C10; indexer entries above `t` deleted; `blockCache.Purge()` -/
def IState.rollback (s : IState) (t : Nat) : Option IState :=
  match s.st.rollback t with
  | none => none
  | some st' =>
    if t = s.st.version then some s
    else some { s with st := st', idb := idxPrune s.idb (t + 1) s.st.version, idxOv := [], cache := [] }

/-- the operations of the process: the store operations of C10 (commit and rollback act on state and
indexer together), indexing, abandoning a commit, and the reads that go through — and write — the
block cache (`view = none`: the store object, `some v`: `NewReadOnly(v)`) -/
inductive IOp
  | store (op : Op)
  | indexBlock (h : Nat) (hash : Bytes) (txs : List Bytes)
  | indexQC (h : Nat) (blockHash : Bytes)
  | reset
  | purgeCache
  | getBlock (view : Option Nat) (h : Nat) (headerOnly : Bool)
  | getQC (view : Option Nat) (h : Nat)
  | getBlocks (view : Option Nat) (pageNumber perPage : Nat)

def IState.view (s : IState) : Option Nat → IView
  | none => s.live
  | some v => s.ro v

def IState.apply (mode : CacheKeying) (s : IState) : IOp → IState
  | .store .commit => s.commit
  | .store (.rollback t) => match s.st.main with
    | [_] => (s.rollback t).getD s
    | _ => s
  | .store op => { s with st := s.st.apply op }
  | .indexBlock h hash txs => s.indexBlock mode h hash txs
  | .indexQC h bh => s.indexQC h bh
  | .reset => match s.st.main with
    | [_] => s.reset
    | _ => s
  | .purgeCache => { s with cache := [] }
  | .getBlock vw h hdr =>
    { s with cache := (if hdr then getBlockHeaderByHeight mode s.cache (s.view vw) h
        else getBlockByHeight mode s.cache (s.view vw) h).2 }
  | .getQC vw h => { s with cache := (getQCByHeight mode s.cache (s.view vw) h).2 }
  | .getBlocks vw pn pp => { s with cache := (getBlocks .none s.cache (s.view vw) pn pp).2 }

end Canopy.Store
