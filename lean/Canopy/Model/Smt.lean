import Canopy.Model.Sha256
/-!
M-smt: the sparse Merkle tree of `store/smt.go` (C08, C16). Core Lean only (linked into the drivers).

* L0 (specification): the state is a finite map from `n`-bit keys to value bytes that always contains
  the two sentinels; `canon` builds the compressed binary trie of a key/value list directly from the
  definition (node = greatest common prefix of all keys below it + the two non-empty halves);
  `root` is the value of the top node, hashed exactly as `updateParentValue` does:
  `SHA-256(enc(lkey) ‖ lval ‖ enc(rkey) ‖ rval)` over the *encoded* child keys (`newNodeKey` encoding with its
  padding byte), so a model root is byte-identical to the Go root.
* L1 (algorithm): `insert` / `delete` as `set()` / `delete()` perform them after `traverse()` (new parent at the
  greatest common prefix; parent replaced by the sibling), `commit` (sorted batch, sequential),
  `commitParallel` (14 synthetic borders, 8 workers each confined to the subtree below its 3-bit prefix,
  border cleanup).

The hash is a parameter (`H4`, applied to the 4-tuple) wherever a theorem needs the collision-free idealisation;
the executable instance is `sha4 lk lv rk rv := sha256 (lk ++ lv ++ rk ++ rv)`.
-/
namespace Canopy.Smt

abbrev Key := List Bool

/-! ## key codec (`newNodeKey`, `key.bytes()`) -/

/-- bits of one byte, most significant first -/
def byteBits (b : UInt8) : List Bool :=
  [b.toNat / 128 % 2 == 1, b.toNat / 64 % 2 == 1, b.toNat / 32 % 2 == 1, b.toNat / 16 % 2 == 1,
   b.toNat / 8 % 2 == 1, b.toNat / 4 % 2 == 1, b.toNat / 2 % 2 == 1, b.toNat % 2 == 1]

def bytesBits (bs : Bytes) : List Bool := bs.flatMap byteBits

/-- value of a bit string read most-significant-bit first -/
def bitsVal : List Bool → Nat
  | [] => 0
  | b :: bs => (if b then 2 ^ bs.length else 0) + bitsVal bs

/-- number of leading zero bits -/
def leadingZeros : List Bool → Nat
  | false :: bs => leadingZeros bs + 1
  | _ => 0

/-- the meta byte of a final chunk: its leading zeroes, one fewer when the chunk is all zero
(`bits.LeadingZeros8(b) - (8 - lastByteBits)`, then `leftPadding--` when `b == 0`) -/
def padOf (chunk : List Bool) : Nat :=
  if bitsVal chunk = 0 then chunk.length - 1 else leadingZeros chunk

/-- `key.bytes()` of a non-empty bit string: full bytes, the last 1..8 bits right-aligned in one byte,
then the meta byte. (The Go zero key has `nil` bytes; the tree never hashes it.) -/
def encodeKeyAux : Nat → Key → Bytes
  | _, [] => []
  | 0, k => [UInt8.ofNat (bitsVal k), UInt8.ofNat (padOf k)]
  | fuel + 1, k =>
    if k.length ≤ 8 then [UInt8.ofNat (bitsVal k), UInt8.ofNat (padOf k)]
    else UInt8.ofNat (bitsVal (k.take 8)) :: encodeKeyAux fuel (k.drop 8)

def encodeKey (k : Key) : Bytes := encodeKeyAux (k.length / 8) k

/-! ### decoder of the node-key encoding (what `totalBits()` / `bitAt()` read back) -/

def sigBits (v : UInt8) : List Bool :=
  let s := (byteBits v).dropWhile (fun b => !b)
  if s.isEmpty then [false] else s

/-- the last 1..8 bits from (value byte, meta byte) — what `totalBits()`/`bitAt()` reconstruct -/
def decodeLast (v pad : UInt8) : List Bool := List.replicate pad.toNat false ++ sigBits v

def decodeKey : Bytes → Key
  | [] => []
  | [_] => []
  | [v, pad] => decodeLast v pad
  | b :: x :: y :: rest => byteBits b ++ decodeKey (x :: y :: rest)

/-- `newNodeKey(data, n)`: the first `n` bits of `data` (zero-extended like Go's `copy` into a zeroed slice) -/
def keyOfBytes (n : Nat) (data : Bytes) : Key :=
  let bits := bytesBits data
  (bits ++ List.replicate (n - bits.length) false).take n

/-- the SMT key of a user key: `newNodeKey(crypto.Hash(k), n)` -/
def keyOfUser (n : Nat) (userKey : Bytes) : Key := keyOfBytes n (sha256 userKey)

def minKey (n : Nat) : Key := List.replicate n false
def maxKey (n : Nat) : Key := List.replicate n true
/-- `newNodeKey(RootKey, n)`: the storage key of the root node lives in the leaf key space -/
def rootKey (n : Nat) : Key := (false :: List.replicate (n - 1) true).take n
def minVal : Bytes := List.replicate 20 0
def maxVal : Bytes := List.replicate 20 255

/-! ## the trie -/

inductive Trie where
  | leaf (k : Key) (v : Bytes)
  | node (p : Key) (l r : Trie)
deriving Repr, DecidableEq, Inhabited

namespace Trie

/-- the node key: full key of a leaf, common prefix of an inner node -/
def key : Trie → Key
  | leaf k _ => k
  | node p _ _ => p

/-- in-order contents -/
def toList : Trie → List (Key × Bytes)
  | leaf k v => [(k, v)]
  | node _ l r => toList l ++ toList r

def keys (t : Trie) : List Key := t.toList.map Prod.fst

def size : Trie → Nat
  | leaf _ _ => 1
  | node _ l r => size l + size r + 1

/-- the node value under an abstract 4-ary hash: a leaf carries its value, an inner node the hash of
(encoded left key, left value, encoded right key, right value) — `updateParentValue` -/
def value (H4 : Bytes → Bytes → Bytes → Bytes → Bytes) : Trie → Bytes
  | leaf _ v => v
  | node _ l r => H4 (encodeKey l.key) (value H4 l) (encodeKey r.key) (value H4 r)

end Trie

/-- the concrete hash: SHA-256 of the unframed concatenation -/
def sha4 (lk lv rk rv : Bytes) : Bytes := sha256 (lk ++ lv ++ rk ++ rv)

/-- the Go root: value of the top node -/
def Trie.root (t : Trie) : Bytes := t.value sha4

/-- the tree `initializeTree` builds -/
def empty (n : Nat) : Trie := .node [] (.leaf (minKey n) minVal) (.leaf (maxKey n) maxVal)

/-! ## L0: canonical trie of a key/value list, straight from the definition -/

/-- greatest common prefix of two bit strings -/
def gcp : Key → Key → Key
  | a :: as, b :: bs => if a = b then a :: gcp as bs else []
  | _, _ => []

def gcpAll : List Key → Key
  | [] => []
  | k :: ks => ks.foldl gcp k

/-- the compressed trie of a list of distinct keys; `none` on an empty list or duplicate keys -/
def build : Nat → List (Key × Bytes) → Option Trie
  | 0, _ => none
  | _ + 1, [] => none
  | _ + 1, [(k, v)] => some (.leaf k v)
  | fuel + 1, kvs =>
    let p := gcpAll (kvs.map Prod.fst)
    let ls := kvs.filter fun kv => kv.1.getD p.length false == false
    let rs := kvs.filter fun kv => kv.1.getD p.length false == true
    match build fuel ls, build fuel rs with
    | some l, some r => some (.node p l r)
    | _, _ => none

def canon (kvs : List (Key × Bytes)) : Option Trie := build kvs.length kvs

/-- L0 root of a key/value list (which must contain both sentinels for the top prefix to be empty) -/
def rootOf (kvs : List (Key × Bytes)) : Option Bytes := (canon kvs).map Trie.root

/-! ## L1: the algorithm -/

/-- new parent of `t` and the new leaf at their greatest common prefix (`set()`, insert branch) -/
def join (k : Key) (v : Bytes) (t : Trie) : Trie :=
  let g := gcp k t.key
  if (g ++ [false]) <+: k then .node g (.leaf k v) t else .node g t (.leaf k v)

/-- `traverse()` then `set()` -/
def insert (k : Key) (v : Bytes) : Trie → Trie
  | .leaf k' v' => if k = k' then .leaf k v else join k v (.leaf k' v')
  | .node p l r =>
    if (p ++ [false]) <+: k then .node p (insert k v l) r
    else if (p ++ [true]) <+: k then .node p l (insert k v r)
    else join k v (.node p l r)

/-- `traverse()` then `delete()`: the parent of the target is replaced by the target's sibling; absent key = no-op -/
def delete (k : Key) : Trie → Trie
  | .leaf k' v' => .leaf k' v'
  | .node p l r =>
    if (p ++ [false]) <+: k then
      match l with
      | .leaf k' _ => if k' = k then r else .node p l r
      | .node _ _ _ => .node p (delete k l) r
    else if (p ++ [true]) <+: k then
      match r with
      | .leaf k' _ => if k' = k then l else .node p l r
      | .node _ _ _ => .node p l (delete k r)
    else .node p l r

/-- a deferred operation of one batch, already on SMT keys and hashed values (`valueOpToSMTNode`) -/
inductive Op where
  | set (k : Key) (v : Bytes)
  | del (k : Key)
deriving Repr, DecidableEq, Inhabited

def Op.key : Op → Key
  | .set k _ => k
  | .del k => k

def Op.apply (t : Trie) : Op → Trie
  | .set k v => insert k v t
  | .del k => delete k t

/-- lexicographic order on bit strings (`key.cmp` on keys of equal length) -/
def keyLe : Key → Key → Bool
  | [], _ => true
  | _ :: _, [] => false
  | a :: as, b :: bs => if a = b then keyLe as bs else (!a && b)

/-- `key.cmp` on two keys of equal length: -1 / 0 / 1 by the first bit that differs -/
def keyCmp : Key → Key → Int
  | a :: as, b :: bs => if a = b then keyCmp as bs else if !a && b then -1 else 1
  | _, _ => 0

def sortOps (ops : List Op) : List Op := ops.mergeSort fun a b => keyLe a.key b.key

/-- outcome of a commit on the real object: the new tree, an error return, or a Go panic -/
inductive Outcome (α : Type) where
  | ok (a : α)
  | reserved          -- `ErrReserveKeyWrite` (only `CommitParallel` validates targets)
  | crash             -- the Go code panics (e.g. `GrandParent()` of the root when a top-level leaf is deleted)
deriving Repr

def isLeafAt (k : Key) : Trie → Bool
  | .leaf k' _ => k' == k
  | .node _ _ _ => false

/-- one step at the top of the main tree: deleting a leaf that hangs directly under the root indexes
`traversed.Nodes[-1]` in Go (`GrandParent()` of a one-element path) -/
def stepTop (t : Trie) (op : Op) : Option Trie :=
  match op, t with
  | .del k, .node p l r =>
    if ((p ++ [false]) <+: k ∧ isLeafAt k l = true) ∨ ((p ++ [true]) <+: k ∧ isLeafAt k r = true) then none
    else some (delete k t)
  | .del _, .leaf _ _ => none
  | .set k v, _ => some (insert k v t)

def runTop (t : Trie) : List Op → Option Trie
  | [] => some t
  | op :: ops => match stepTop t op with
    | some t' => runTop t' ops
    | none => none

/-- `SMT.Commit`: sort, then apply left to right on the single tree -/
def commit (t : Trie) (ops : List Op) : Outcome Trie :=
  match runTop t (sortOps ops) with
  | some t' => .ok t'
  | none => .crash

/-! ### parallel commit -/

def bits3 (i : Nat) : Key := [i / 4 % 2 == 1, i / 2 % 2 == 1, i % 2 == 1]

/-- `generatePrefixRange(i, n)` -/
def borderLow (n i : Nat) : Key := (bits3 i ++ List.replicate (n - 3) false).take n
def borderHigh (n i : Nat) : Key := (bits3 i ++ List.replicate (n - 3) true).take n

/-- the 14 synthetic borders in the order `addSyntheticBorders` lists them -/
def borders (n : Nat) : List Key :=
  (List.range 8).flatMap fun i =>
    (if i != 0 then [borderLow n i] else []) ++ (if i != 7 then [borderHigh n i] else [])

def borderVal : Bytes := [0]

/-- apply `f` to the subtrie whose prefix is exactly `path` (the worker's root, `getSubtreeRoots`);
a tree without such a node is left alone -/
def applyAt (path : Key) (f : Trie → Trie) : Trie → Trie
  | .leaf k v => .leaf k v
  | .node p l r =>
    if p = path then f (.node p l r)
    else if (p ++ [false]) <+: path then .node p (applyAt path f l) r
    else if (p ++ [true]) <+: path then .node p l (applyAt path f r)
    else .node p l r

/-- what one worker does: its sorted group, applied below its subtree root -/
def worker (i : Nat) (ops : List Op) (t : Trie) : Trie :=
  let mine := (sortOps ops).filter fun op => op.key.take 3 == bits3 i
  applyAt (bits3 i) (fun s => mine.foldl Op.apply s) t

/-- `CommitParallel` on a batch that is large enough and sits on a `*Txn`; `sched` is the order in which the
workers' results are considered (any permutation of 0..7 — they touch disjoint subtrees) -/
def commitParallelWith (sched : List Nat) (n : Nat) (t : Trie) (ops : List Op) : Outcome Trie :=
  if ops.any (fun op => op.key == minKey n || op.key == maxKey n || op.key == rootKey n) then .reserved else
  -- addSyntheticBorders: a sequential commit of 14 `set`s
  match commit t ((borders n).map fun b => Op.set b borderVal) with
  | .ok t1 =>
    let t2 := sched.foldl (fun s i => worker i ops s) t1
    -- cleanup: a sequential commit of 14 deletes
    commit t2 ((borders n).map Op.del)
  | o => o

def commitParallel (n : Nat) (t : Trie) (ops : List Op) : Outcome Trie :=
  commitParallelWith (List.range 8) n t ops

/-- `CommitParallel` as called by `Store.Root()`: small batches fall back to `Commit` -/
def commitAuto (n : Nat) (t : Trie) (ops : List Op) : Outcome Trie :=
  if ops.length < 16 then commit t ops else commitParallel n t ops

end Canopy.Smt

/-! ## store wiring of the root (`Store.Root()`, `Store.Copy()`) -/
namespace Canopy.Smt

/-- `Store.Root()`: the cached state-commitment object if there is one (`s.sc != nil`), otherwise the tree committed
from the pending state operations on top of the last committed tree -/
def storeRootTree (n : Nat) (cached : Option Trie) (base : Trie) (pending : List Op) : Outcome Trie :=
  match cached with
  | some t => .ok t
  | none => commitAuto n base pending

/-- the operations `Store.Root()` hands to the tree: the pending state operations themselves when the argument of
`CommitParallel` is `s.ss.txn.ops` (generated fact `rootCommitsPendingOpsUnfiltered`), otherwise some selection of them -/
def handedOps (unfiltered : Bool) (keep : Op → Bool) (pending : List Op) : List Op :=
  if unfiltered then pending else pending.filter keep

/-- the root `Store.Commit()` records for the new height: the root of the tree `Root()` returns when the statement that
assigns `root` in `Commit` is the unconditional `root, err = s.Root()` (generated fact `commitTakesRootFromRoot`);
a `Commit` with a shortcut for blocks without pending operations and without a cached tree would record `recorded`
(whatever the commit-id lookup for the current height finds: nothing on a fresh database) instead -/
def storeCommitRoot (viaRoot : Bool) (recorded : Bytes) (cached : Option Trie) (pending : List Op)
    (rootTree : Outcome Trie) : Outcome Bytes :=
  if viaRoot || cached.isSome || !pending.isEmpty then
    match rootTree with
    | .ok t => .ok t.root
    | .reserved => .reserved
    | .crash => .crash
  else .ok recorded

/-- the tree the live store continues from after `Store.Rollback(v)`: the tree committed for `v` when the prefix the tree
lives under is among the prefixes `Rollback` prunes above `v` (generated fact `rollbackPrunedPrefixes`); otherwise the
nodes of the abandoned heights stay, and the store (which reads the tree at "latest") goes on from the abandoned tip -/
def rollbackTree (pruned : List Bytes) (treePrefix : Bytes) (target tip : Trie) : Trie :=
  if pruned.contains treePrefix then target else tip

/-- what `Store.Copy()` hands to the clone as cached commitment: nothing, unless the composite literal of `Copy` carries
the field `sc` over (generated fact `copyCarriesCommitment`) -/
def copyCached (carriesSc : Bool) (cached : Option Trie) : Option Trie := if carriesSc then cached else none

end Canopy.Smt

/-! ## specification predicates (used by the theorems in `Props/C08.lean`, `Props/C16.lean`) -/
namespace Canopy.Smt

/-- well-formed for key length `n`: leaves hold full-length keys; below a node with prefix `p` the left
subtree holds keys extending `p ++ [false]`, the right subtree keys extending `p ++ [true]` (both non-empty
by construction, so a parent with one child does not exist) -/
def Trie.WF (n : Nat) : Trie → Prop
  | .leaf k _ => k.length = n
  | .node p l r => Trie.WF n l ∧ Trie.WF n r ∧ (∀ k ∈ l.keys, p ++ [false] <+: k) ∧ (∀ k ∈ r.keys, p ++ [true] <+: k)

/-- the abstract state: a partial map from keys to leaf values -/
abbrev KMap := Key → Option Bytes

def KMap.set (S : KMap) (k : Key) (v : Bytes) : KMap := fun k' => if k' = k then some v else S k'
def KMap.erase (S : KMap) (k : Key) : KMap := fun k' => if k' = k then none else S k'

def KMap.apply (S : KMap) : Op → KMap
  | .set k v => S.set k v
  | .del k => S.erase k

/-- `t` is a canonical-form tree of key length `n` whose contents are exactly the map `S` -/
def Trie.Rep (n : Nat) (t : Trie) (S : KMap) : Prop :=
  t.WF n ∧ ∀ k v, (k, v) ∈ t.toList ↔ S k = some v

/-- a history: operations applied one after the other (any order, any batching) -/
def Trie.run (t : Trie) (ops : List Op) : Trie := ops.foldl Op.apply t
def KMap.run (S : KMap) (ops : List Op) : KMap := ops.foldl KMap.apply S

/-- both reserved leaves are present -/
def KMap.HasSentinels (n : Nat) (S : KMap) : Prop := S (minKey n) ≠ none ∧ S (maxKey n) ≠ none

/-- an operation the tree is meant to receive: a key of the tree's length; the two reserved leaves are never deleted -/
def Op.Valid (n : Nat) : Op → Prop
  | .set k _ => k.length = n
  | .del k => k ≠ minKey n ∧ k ≠ maxKey n

/-- the state `initializeTree` starts from: the two sentinels -/
def initMap (n : Nat) : KMap := fun k =>
  if k = minKey n then some minVal else if k = maxKey n then some maxVal else none

end Canopy.Smt
