import Canopy.Gen.Dex
/-!
# AMM arithmetic of the DEX (C20) — total versions of the generated `big.Int` functions

`Canopy.Gen.Dex.SafeMulDiv`, `SqrtProductUint64`, `SafeComputeDY` are *generated* from `lib/util.go` /
`fsm/dex.go` on every run (big.Int rendered as `Nat`, `.Uint64()` as `% 2^64`, a zero divisor as `none`).
This module gives the names the executable model uses and the two functions that are outside the
translator's subset (`lib.AddUint64`: `bits.Add64`; `liquidityDepositPoints`: tuple results), written by
hand against the normalised source recorded in `Gen.Dex.src_*` (pinned in `Props/C20`), and run
differentially against the real functions. Core Lean only.
-/
namespace Canopy.Dex
open Canopy.Gen.Dex

/-- 2^64 -/
def U64 : Nat := 18446744073709551616

/-- `lib.AddUint64`: `bits.Add64(a, b, 0)` → (low 64 bits of the sum, carry ≠ 0) -/
def addUint64 (a b : Nat) : Nat × Bool := ((a + b) % U64, decide (U64 ≤ a + b))

/-- `lib.SafeMulDiv` as a total function (`safeMulDiv_gen` shows the generated one never panics) -/
def safeMulDiv (a b c : Nat) : Nat := if c = 0 then 0 else a * b / c % U64

/-- `lib.SqrtProductUint64` -/
def sqrtProduct (x y : Nat) : Nat := Nat.sqrt (x * y) % U64

/-- `fsm.SafeComputeDY`; `none` = panic (only at `x = 0 ∧ dX = 0`) -/
def computeDY (x y dX : Nat) : Option Nat := SafeComputeDY x y dX

inductive DepErr | invalidLiquidityPool
  deriving DecidableEq, Repr

/-- `fsm.liquidityDepositPoints(totalPoints, x, y, amount)` -/
def liquidityDepositPoints (totalPoints x y amount : Nat) : Except DepErr Nat :=
  if (addUint64 x amount).2 then .error .invalidLiquidityPool
  else if sqrtProduct x y = 0 ∨ sqrtProduct (addUint64 x amount).1 y < sqrtProduct x y then .error .invalidLiquidityPool
  else .ok (safeMulDiv totalPoints (sqrtProduct (addUint64 x amount).1 y - sqrtProduct x y) (sqrtProduct x y))

end Canopy.Dex
