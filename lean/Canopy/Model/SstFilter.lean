import Canopy.Model.Store
/-!
M-sstfilter (C10): the one place where the LSM layout reaches the read semantics. The store's reads are
modelled over the whole key space (`Model/Store.lean`); the real historical readers install the
block-property filter `newTargetWindowFilter(0, v)` and pebble then skips every sstable (block) whose recorded
version interval misses `[0, v+1)`. The interval of a table is the hull of what
`versionedCollector.MapPointKey` returns for each of its point keys. This model has just enough of that to
state when the filter is transparent: tables are lists of records, a record is a physical key (user key,
version), a sequence number and a value or a physical deletion (`Rollback` is the only writer of those).
Core Lean only.
-/
namespace Canopy.SstFilter
open Canopy Canopy.Store

structure Rec where
  uk : Bytes
  ver : Nat
  seq : Nat
  /-- `none` = a physical pebble deletion (`InternalKeyKindDelete`) -/
  val : Option Bytes
  deriving DecidableEq, Repr

abbrev Table := List Rec

/-- which point keys `MapPointKey` maps to a version interval: every kind (the code as it stands — read off
the source in `Props/C10.lean`), or every kind but physical deletions -/
inductive Collector
  | everyKind
  | skipsDeletions
  deriving DecidableEq, Repr

/-- `MapPointKey`: the version `w` of the interval `[w, w+1)` a record contributes; `none` = the empty
interval (version 0, and the reserved latest-state version, which a half-open interval cannot hold) -/
def contributes (c : Collector) (r : Rec) : Option Nat :=
  if r.ver = 0 ∨ r.ver = maxVer then none
  else match c, r.val with
    | .skipsDeletions, none => none
    | _, _ => some r.ver

/-- `newTargetWindowFilter(0, v)`: a table is read iff its interval — the hull of the contributed
`[w, w+1)` — meets `[0, v+1)`, i.e. iff some record contributes a version ≤ `v` -/
def admitted (c : Collector) (v : Nat) (t : Table) : Bool :=
  t.any fun r => match contributes c r with
    | some w => decide (w ≤ v)
    | none => false

/-- the records a reader at version `v` can take into account: those of versions `1 … v` -/
def inWindow (v : Nat) (r : Rec) : Bool := decide (1 ≤ r.ver) && decide (r.ver ≤ v)

/-- … through the filter -/
def visible (c : Collector) (v : Nat) (ts : List Table) : List Rec :=
  ((ts.filter (admitted c v)).flatten).filter (inWindow v)

/-- … and without it -/
def unfiltered (v : Nat) (ts : List Table) : List Rec := ts.flatten.filter (inWindow v)

/-- the versioned read over a set of records: per physical key the record with the greatest sequence number
counts; of the physical keys of `uk` whose record is a value, the newest version -/
def readOf (recs : List Rec) (uk : Bytes) : Option Bytes :=
  let mine := recs.filter fun r => r.uk = uk
  let live := mine.filter fun r => r.val.isSome && mine.all fun r' => r'.ver != r.ver || decide (r'.seq ≤ r.seq)
  let best := live.foldl (fun (b : Option Rec) r => match b with
    | none => some r
    | some x => if x.ver < r.ver then some r else some x) none
  best.bind (·.val)

def read (c : Collector) (v : Nat) (ts : List Table) (uk : Bytes) : Option Bytes := readOf (visible c v ts) uk

end Canopy.SstFilter
