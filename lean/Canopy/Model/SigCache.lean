/-! The process-wide signature cache (`crypto.SignatureCache`) as a memo of signature verification.

`verify` is the pure verdict of a (public key, message, signature) tuple. A verifier first looks the
tuple up in the cache and trusts a hit; the cache outlives every reset of every state machine and is
shared by everything the process executes (proposal validation, discarded speculative executions,
mempool checks, commits). `Cfg.fillsOnlyVerified` is the mechanism switch: whether every write of the
cache sits under a positive verification of the tuple written (`ExecFacts.signatureCacheFact`,
regenerated from `lib/crypto/*.go`). Core Lean only. -/
namespace Canopy.SigCache

structure Cfg where
  /-- every cache write is guarded by a successful verification of the written tuple -/
  fillsOnlyVerified : Bool

variable {τ : Type} [DecidableEq τ]

/-- verdict of one tuple as the verifiers compute it: a cache hit is trusted -/
def verdict (verify : τ → Bool) (cache : List τ) (x : τ) : Bool :=
  decide (x ∈ cache) || verify x

/-- one batch verification (`BatchVerifier.Verify`): the verdicts, and the cache afterwards. With the
switch on, the tuples written are the ones whose verdict was positive; with it off, the whole batch is
written whatever the outcome. -/
def batch (cfg : Cfg) (verify : τ → Bool) (cache : List τ) (xs : List τ) : List Bool × List τ :=
  (xs.map (verdict verify cache),
   (if cfg.fillsOnlyVerified then xs.filter (verdict verify cache) else xs) ++ cache)

/-- what a process does to the cache: batches, and losing it (restart, expiry, `Reset`) -/
inductive Ev (τ : Type) where
  | batch (xs : List τ)
  | drop

def step (cfg : Cfg) (verify : τ → Bool) (cache : List τ) : Ev τ → List τ
  | .batch xs => (batch cfg verify cache xs).2
  | .drop => []

def run (cfg : Cfg) (verify : τ → Bool) (cache : List τ) (evs : List (Ev τ)) : List τ :=
  evs.foldl (step cfg verify) cache

/-- cached ⇒ verified -/
def Sound (verify : τ → Bool) (cache : List τ) : Prop := ∀ x, x ∈ cache → verify x = true

theorem verdict_eq_verify {verify : τ → Bool} {cache : List τ} (h : Sound verify cache) (x : τ) :
    verdict verify cache x = verify x := by
  unfold verdict
  by_cases hx : x ∈ cache
  · simp [hx, h x hx]
  · simp [hx]

theorem step_sound {cfg : Cfg} (hcfg : cfg.fillsOnlyVerified = true) {verify : τ → Bool} {cache : List τ}
    (h : Sound verify cache) (e : Ev τ) : Sound verify (step cfg verify cache e) := by
  cases e with
  | drop => intro x hx; cases hx
  | batch xs =>
    intro x hx
    simp only [step, batch, hcfg, if_true] at hx
    rcases List.mem_append.mp hx with hf | hc
    · have := (List.mem_filter.mp hf).2
      rw [verdict_eq_verify h] at this
      exact this
    · exact h x hc

theorem run_sound {cfg : Cfg} (hcfg : cfg.fillsOnlyVerified = true) {verify : τ → Bool} :
    ∀ (evs : List (Ev τ)) {cache : List τ}, Sound verify cache → Sound verify (run cfg verify cache evs)
  | [], _, h => h
  | e :: evs, _, h => by
    unfold run
    rw [List.foldl_cons]
    exact run_sound hcfg evs (step_sound hcfg h e)

/-- **cache contents never change a verdict.** Whatever the process executed before (any batches of any
tuples, valid or not, and any cache losses), a batch gets the verdicts of `verify`: the verdicts of a
process with an empty cache. -/
theorem cache_never_changes_a_verdict {cfg : Cfg} (hcfg : cfg.fillsOnlyVerified = true) (verify : τ → Bool)
    (evs : List (Ev τ)) (xs : List τ) :
    (batch cfg verify (run cfg verify [] evs) xs).1 = (batch cfg verify [] xs).1 := by
  have hs : Sound verify (run cfg verify [] evs) := run_sound hcfg evs (fun x hx => by cases hx)
  have h0 : Sound verify ([] : List τ) := fun x hx => by cases hx
  simp only [batch]
  apply List.map_congr_left
  intro x _
  rw [verdict_eq_verify hs, verdict_eq_verify h0]

/-- with the switch off the property fails: tuple 1 does not verify; a batch [0, 1] rejects it and
writes it; the same batch executed again accepts it, while a process with an empty cache rejects it -/
theorem warm_cache_accepts_rejected_tuple :
    let verify : Nat → Bool := fun x => x == 0
    (batch ⟨false⟩ verify [] [0, 1]).1 = [true, false] ∧
    (batch ⟨false⟩ verify (run ⟨false⟩ verify [] [.batch [0, 1]]) [0, 1]).1 = [true, true] ∧
    (batch ⟨false⟩ verify (run ⟨false⟩ verify [] [.batch [0, 1], .drop]) [0, 1]).1 = [true, false] := by
  decide

end Canopy.SigCache
