import Canopy.Model.Bytes
import Canopy.Gen.Committee
import Canopy.Gen.ErrCodes
/-!
M-gate (C02): the decision "may this block message be committed?" as `controller.HandlePeerBlock`
(non-sync path) makes it, composing `QuorumCertificate.CheckBasic`, `Check`, `View.Check`,
`AggregateSignature.Check`, `CheckProposalBasic` and the phase test, in the code's order.

Signatures are symbolic (DESIGN §5): an aggregate signature is the multiset of individual signatures
`(key, payload)` that were combined; it verifies under a set of keys for a payload iff it is exactly
the aggregate of those keys' signatures on that payload. Hashes are the recorded digests of the
objects. Core Lean only.
-/
namespace Canopy.Gate
open Canopy

abbrev Digest := Bytes
abbrev KeyId := Bytes

structure View where
  height : UInt64
  round : UInt64
  phase : Nat
  rootHeight : UInt64
  networkId : UInt64
  chainId : UInt64
deriving DecidableEq, Repr

def PRECOMMIT_VOTE : Nat := 6

/-- what a committee member signs for a certificate: `QuorumCertificate.SignBytes` keeps the header,
the two hashes and the proposer key (Block, Results and Signature are stripped) -/
structure Payload where
  header : View
  blockHash : Bytes
  resultsHash : Bytes
  proposerKey : Bytes
deriving DecidableEq, Repr

/-- symbolic aggregate signature -/
structure AggSig where
  lenOK : Bool                       -- `len(Signature) == BLS12381SignatureSize`
  parts : List (KeyId × Payload)     -- the individual signatures that were aggregated
  group : List KeyId                 -- the ordered key list whose hash fixed the BDN coefficients
  bitmap : List Bool                 -- bits in kyber's order (bit i of byte i/8), byte-padded
deriving Repr

/-- the block carried inside the certificate, as far as the stateless checks look at it -/
structure BlockInfo where
  decodes : Bool          -- `Unmarshal` succeeds
  headerOK : Bool         -- the size/nil checks of `BlockHeader.Check` other than ids
  lastQCNetOK : Bool      -- height ≤ 1 or the last certificate names this network
  lastQCChainOK : Bool    -- … and this chain
  networkId : UInt64
  height : UInt64
  hashFromBytes : Digest  -- `BytesToBlockHash(blockBytes)`
  hashFromHeader : Digest -- `block.Hash()` after decoding
  txsSize : Nat
  size : Nat
deriving Repr

structure ResultsInfo where
  basicOK : Bool
  hash : Digest
deriving Repr

structure QC where
  header : Option View
  blockHash : Option Bytes      -- nil vs present matters to CheckBasic
  resultsHash : Option Bytes
  proposerKey : Option Bytes
  block : Option BlockInfo
  results : Option ResultsInfo
  signature : Option AggSig
deriving Repr

structure Member where
  key : KeyId
  power : UInt64
deriving Repr, DecidableEq

structure Node where
  height : UInt64               -- `FSM.Height()`: the next height to be committed
  networkId : UInt64
  chainId : UInt64
  maxBlockSize : Nat
  globalMaxBlockSize : Nat
  committeeAt : UInt64 → Option (List Member)   -- `LoadCommittee(rootChain, rootHeight)`

inductive Verdict
  | commit                       -- every gate passed: `CommitCertificate` is reached
  | reject (code : String)
deriving DecidableEq, Repr

open Gen.Err.lib

/-- bits of the bitmap that select committee members (indices `< n`); padding bits are ignored by
`SignerEnabledAt`/kyber's `CountEnabled` -/
def selected (bm : List Bool) (ms : List Member) : List Member :=
  (ms.zip bm).filterMap fun (m, b) => if b then some m else none

def signedPower (bm : List Bool) (ms : List Member) : UInt64 :=
  (selected bm ms).foldl (fun acc m => acc + m.power) 0

def totalPower (ms : List Member) : UInt64 := ms.foldl (fun acc m => acc + m.power) 0

def payloadOf (q : QC) (h : View) : Payload :=
  { header := h, blockHash := q.blockHash.getD [], resultsHash := q.resultsHash.getD [],
    proposerKey := q.proposerKey.getD [] }

/-- same multiset of parts as "each selected key signed exactly `p`", aggregated for this very
committee key list (BDN coefficients are derived from the whole ordered list of public keys) -/
def aggVerifies (sig : AggSig) (group keys : List KeyId) (p : Payload) : Bool :=
  sig.group == group &&
  sig.parts.length == keys.length &&
  keys.all (fun k => sig.parts.count (k, p) == keys.count k)

/-- `AggregateSignature.CheckBasic` -/
def sigBasic (q : QC) : Option String :=
  match q.signature with
  | none => some ErrEmptyAggregateSignature
  | some sig =>
    if !sig.lenOK then some ErrInvalidAggrSignatureLength
    else if sig.bitmap.length == 0 then some ErrEmptySignerBitmap
    else none

/-- `QuorumCertificate.CheckBasic` before its final signature check (results branch / election branch) -/
def checkBasicBody (q : QC) (globalMax : Nat) : Option String :=
  if q.resultsHash.isNone && q.proposerKey.isNone then some ErrEmptyQuorumCertificate
  else match q.header with
  | none => some ErrEmptyView
  | some _ =>
    match q.resultsHash with
    | some rh =>
      if (q.blockHash.getD []).length != 32 then some ErrInvalidBlockHash
      else if rh.length != 32 then some ErrInvalidResultsHash
      else
        let r1 := match q.results with
          | some r => if !r.basicOK then some "res"  -- Results.CheckBasic failure (kind abstracted)
                      else if rh != r.hash then some ErrMismatchResultsHash else none
          | none => none
        match r1 with
        | some c => some c
        | none =>
          match q.block with
          | some b =>
            if q.blockHash.getD [] != b.hashFromBytes then some ErrMismatchQCBlockHash
            else if b.size > globalMax then some ErrExpectedMaxBlockSize
            else none
          | none => none
    | none =>
      if (q.proposerKey.getD []).length != 48 then some ErrInvalidSigner
      else if q.results.isSome then some ErrMismatchResultsHash
      else if (q.blockHash.getD []).length != 0 || q.block.isSome then some ErrNonNilBlock
      else none

/-- `QuorumCertificate.CheckBasic`: the body, then `AggregateSignature.CheckBasic` -/
def checkBasic (q : QC) (globalMax : Nat) : Option String :=
  match checkBasicBody q globalMax with
  | some c => some c
  | none => sigBasic q

/-- `AggregateSignature.Check`: (isPartial, error) -/
def sigCheck (q : QC) (h : View) (ms : List Member) : Except String Bool :=
  match q.signature with
  | none => .error ErrEmptyAggregateSignature
  | some sig =>
    if !sig.lenOK then .error ErrInvalidAggrSignatureLength
    else if sig.bitmap.length == 0 then .error ErrEmptySignerBitmap
    else if sig.bitmap.length != (ms.length + 7) / 8 * 8 then .error ErrInvalidSignerBitmap
    else if !aggVerifies sig (ms.map (·.key)) ((selected sig.bitmap ms).map (·.key)) (payloadOf q h) then
      .error ErrInvalidAggrSignature
    else
      let maj := Gen.Committee.minPowerFor23Maj (totalPower ms)
      .ok (decide (signedPower sig.bitmap ms < maj))

/-- `QuorumCertificate.Check(vs, maxBlockSize, view, enforceHeights = false)` -/
def qcCheck (n : Node) (q : QC) (ms : List Member) : Except String Bool :=
  match checkBasic q n.globalMaxBlockSize with
  | some c => .error c
  | none =>
    match q.header with
    | none => .error ErrEmptyView
    | some h =>
      if n.networkId != h.networkId then .error ErrWrongNetworkID
      else if n.chainId != h.chainId then .error ErrWrongChainId
      else
        -- `Unmarshal(x.Block, block)` of a nil block yields an empty block: size 0
        match q.block with
        | some b =>
          if !b.decodes then .error ErrUnmarshal
          else if b.txsSize > n.maxBlockSize then .error ErrExpectedMaxBlockSize
          else sigCheck q h ms
        | none => sigCheck q h ms

/-- `CheckProposalBasic(height, networkId, chainId)` -/
def proposalBasic (n : Node) (q : QC) (h : View) : Option String :=
  match q.block with
  | none => some ErrNilBlock
  | some b =>
    if !b.decodes then some ErrUnmarshal
    else if !b.headerOK then some "hdr"       -- header size/nil/hash checks (kind abstracted)
    else if !b.lastQCNetOK then some ErrWrongNetworkID
    else if !b.lastQCChainOK then some ErrWrongChainId
    else if b.networkId != n.networkId then some ErrWrongNetworkID
    else if h.height != b.height then some ErrMismatchCertBlockHeight
    else if n.height > b.height then some ErrWrongBlockHeight
    else if n.height < b.height then some ErrNewHeight
    else if q.blockHash.getD [] != b.hashFromHeader then some ErrMismatchHeaderBlockHash
    else if q.results.isNone then some ErrNilCertResults
    else none

/-- the finality gate of `HandlePeerBlock(msg, syncing = false)` up to `CommitCertificate` -/
def admitQC (n : Node) (q : QC) : Verdict :=
  match checkBasic q n.globalMaxBlockSize with
  | some c => .reject c
  | none =>
    match q.header with
    | none => .reject ErrEmptyView
    | some h =>
      match n.committeeAt h.rootHeight with
      | none => .reject ErrNoValidators
      | some ms =>
        match qcCheck n q ms with
        | .error c => .reject c
        | .ok true => .reject ErrNoMaj23
        | .ok false =>
          match proposalBasic n q h with
          | some c => .reject c
          | none => if h.phase != PRECOMMIT_VOTE then .reject ErrWrongPhase else .commit

end Canopy.Gate
