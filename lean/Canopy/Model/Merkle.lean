import Canopy.Model.Bytes
import Canopy.Model.Sha256
/-!
Reference semantics of `crypto.MerkleTree` (`lib/crypto/hash.go`; behind `lib.MerkleTree`,
`ApplyBlockResults.TransactionRoot`, `ConsensusValidators.Root`): hash every item, then pair the
nodes up level by level — an odd last node is paired with itself — until one node is left. The Go
code lays the same computation out in a linear array padded to the next power of two (`nil` parents of
`nil` children); the correspondence run compares the two on every run. Empty list: empty root.

Generic in the hash type and in the two hash functions so that the theorems can take their
injectivity as explicit hypotheses. Core Lean only.
-/
namespace Canopy.Merkle
open Canopy

/-- one level up: neighbours are combined, an odd last node with itself -/
def pairUp {α : Type} (node : α → α → α) : List α → List α
  | [] => []
  | [a] => [node a a]
  | a :: b :: rest => node a b :: pairUp node rest

/-- repeat until a single node is left; `fuel ≥ length` always suffices -/
def rootAux {α : Type} (node : α → α → α) : Nat → List α → Option α
  | _, [] => none
  | _, [a] => some a
  | 0, _ :: _ :: _ => none
  | k+1, l => rootAux node k (pairUp node l)

/-- the Merkle root of the items (`none` for the empty list) -/
def root {α β : Type} (leaf : β → α) (node : α → α → α) (items : List β) : Option α :=
  rootAux node items.length (items.map leaf)

/-- `crypto.MerkleTree(items)` root: SHA-256 leaves, `SHA-256(left ‖ right)` nodes, `[]` when empty -/
def merkleRoot (items : List Bytes) : Bytes :=
  (root sha256 (fun a b => sha256 (a ++ b)) items).getD []

end Canopy.Merkle
