import Canopy.Model.Bytes
/-! SHA-256 (FIPS 180-4), executable, core Lean only. Used by the drivers so that model roots and
hashes can be compared byte-for-byte with the implementation (`crypto.Hash`). No theorem depends on
any property of this function other than being a function; it is validated by the correspondence run
(`sha256` ops) against Go's crypto/sha256. -/
namespace Canopy.Sha256

def K : Array UInt32 := #[
  0x428a2f98, 0x71374491, 0xb5c0fbcf, 0xe9b5dba5, 0x3956c25b, 0x59f111f1, 0x923f82a4, 0xab1c5ed5,
  0xd807aa98, 0x12835b01, 0x243185be, 0x550c7dc3, 0x72be5d74, 0x80deb1fe, 0x9bdc06a7, 0xc19bf174,
  0xe49b69c1, 0xefbe4786, 0x0fc19dc6, 0x240ca1cc, 0x2de92c6f, 0x4a7484aa, 0x5cb0a9dc, 0x76f988da,
  0x983e5152, 0xa831c66d, 0xb00327c8, 0xbf597fc7, 0xc6e00bf3, 0xd5a79147, 0x06ca6351, 0x14292967,
  0x27b70a85, 0x2e1b2138, 0x4d2c6dfc, 0x53380d13, 0x650a7354, 0x766a0abb, 0x81c2c92e, 0x92722c85,
  0xa2bfe8a1, 0xa81a664b, 0xc24b8b70, 0xc76c51a3, 0xd192e819, 0xd6990624, 0xf40e3585, 0x106aa070,
  0x19a4c116, 0x1e376c08, 0x2748774c, 0x34b0bcb5, 0x391c0cb3, 0x4ed8aa4a, 0x5b9cca4f, 0x682e6ff3,
  0x748f82ee, 0x78a5636f, 0x84c87814, 0x8cc70208, 0x90befffa, 0xa4506ceb, 0xbef9a3f7, 0xc67178f2]

def H0 : Array UInt32 := #[0x6a09e667, 0xbb67ae85, 0x3c6ef372, 0xa54ff53a, 0x510e527f, 0x9b05688c, 0x1f83d9ab, 0x5be0cd19]

@[inline] def rotr (x : UInt32) (n : UInt32) : UInt32 := (x >>> n) ||| (x <<< (32 - n))

def pad (msg : Bytes) : Bytes :=
  let l := msg.length
  let zeros := (119 - l % 64) % 64   -- so that (l + 1 + zeros) % 64 = 56
  let bitLen : UInt64 := UInt64.ofNat (8 * l)
  msg ++ [0x80] ++ List.replicate zeros 0 ++ formatUint64 bitLen

def wordAt (b : Array UInt8) (i : Nat) : UInt32 :=
  (b[i]!.toUInt32 <<< 24) ||| (b[i+1]!.toUInt32 <<< 16) ||| (b[i+2]!.toUInt32 <<< 8) ||| b[i+3]!.toUInt32

def schedule (blk : Array UInt8) (off : Nat) : Array UInt32 := Id.run do
  let mut w : Array UInt32 := Array.mkEmpty 64
  for t in [0:16] do
    w := w.push (wordAt blk (off + 4 * t))
  for t in [16:64] do
    let w15 := w[t-15]!
    let w2 := w[t-2]!
    let s0 := rotr w15 7 ^^^ rotr w15 18 ^^^ (w15 >>> 3)
    let s1 := rotr w2 17 ^^^ rotr w2 19 ^^^ (w2 >>> 10)
    w := w.push (w[t-16]! + s0 + w[t-7]! + s1)
  return w

def compress (h : Array UInt32) (blk : Array UInt8) (off : Nat) : Array UInt32 := Id.run do
  let w := schedule blk off
  let mut a := h[0]!
  let mut b := h[1]!
  let mut c := h[2]!
  let mut d := h[3]!
  let mut e := h[4]!
  let mut f := h[5]!
  let mut g := h[6]!
  let mut hh := h[7]!
  for t in [0:64] do
    let S1 := rotr e 6 ^^^ rotr e 11 ^^^ rotr e 25
    let ch := (e &&& f) ^^^ ((~~~ e) &&& g)
    let t1 := hh + S1 + ch + K[t]! + w[t]!
    let S0 := rotr a 2 ^^^ rotr a 13 ^^^ rotr a 22
    let maj := (a &&& b) ^^^ (a &&& c) ^^^ (b &&& c)
    let t2 := S0 + maj
    hh := g; g := f; f := e; e := d + t1; d := c; c := b; b := a; a := t1 + t2
  return #[h[0]! + a, h[1]! + b, h[2]! + c, h[3]! + d, h[4]! + e, h[5]! + f, h[6]! + g, h[7]! + hh]

def word32Bytes (w : UInt32) : Bytes :=
  [(w >>> 24).toUInt8, (w >>> 16).toUInt8, (w >>> 8).toUInt8, w.toUInt8]

def hash (msg : Bytes) : Bytes := Id.run do
  let p := (pad msg).toArray
  let mut h := H0
  for i in [0:p.size / 64] do
    h := compress h p (64 * i)
  return h.toList.flatMap word32Bytes

end Canopy.Sha256

namespace Canopy
/-- `crypto.Hash` -/
def sha256 (b : Bytes) : Bytes := Sha256.hash b
/-- `crypto.ShortHash`: first 20 bytes -/
def shortHash (b : Bytes) : Bytes := (Sha256.hash b).take 20
end Canopy
