import Canopy.Model.BftGen
/-!
# M-bft-exec — what the driver runs against the real replicas (core Lean only)

`World` = the history of M-bft-abs (every vote any key holder signed, every lock adoption) plus, for every
replica, the part of `bft.BFT`'s state the vote / lock / commit handlers read and write
(`View.RootHeight`, `View.Round`, `View.Phase`, `HighQC` header + hashes, the block of the round, the proposer).
The handlers are modelled replica-side: what a leader or the network hands a replica is described on the op
line (it is adversarial input); how the replica reacts is computed here from the *generated* decision functions
(`Gen.Bft.safeNode`, `leaderMsgChecks`, `leaderMsgHeaderRejected`, `checkHighQCPost`, `adoptHigher`, `isPartialQC`)
and compared line by line with what the real code did.
-/
namespace Canopy.Bft
open Canopy.Gen.Bft (phase_ELECTION phase_ELECTION_VOTE phase_PROPOSE phase_PROPOSE_VOTE phase_PRECOMMIT
  phase_PRECOMMIT_VOTE phase_COMMIT phase_COMMIT_PROCESS phase_ROUND_INTERRUPT phase_PACEMAKER)

/-- a block-and-results pair `(blockHash id, resultsHash id)` as one number -/
def encBlk (bh rh : Nat) : Nat := bh * 65536 + rh
def blkHashOf (b : Nat) : Nat := b / 65536
def resHashOf (b : Nat) : Nat := b % 65536

structure Rep where
  root : Nat
  round : Nat
  phase : Nat
  lock : Option (View × Nat × Nat)   -- certificate header view, its phase, block
  blk : Option Nat
  proposer : Option Nat
  commits : List Nat
deriving Repr

structure World where
  n : Nat := 0
  pw : List Nat := []
  byz : List Nat := []
  hist : List Ev := []
  reps : List Rep := []
  /-- `CommitteeData.LastRootHeightUpdated`: lock certificates from a root height below it are stale -/
  lrhu : Nat := 0

def World.init : World := {}

def World.cfg (w : World) : Cfg :=
  genCfg (List.range w.n) (fun r => w.pw.getD r 0) (fun r => w.byz.contains r)

/-- a certificate as described on an op line: header view, header phase, block, signer set -/
structure CertD where
  view : View
  phase : Nat
  blk : Nat
  signers : List Nat
deriving Repr

/-- a leader message as described on an op line -/
structure MsgD where
  sender : Nat
  hdr : View          -- x.Header (root height, round)
  hdrPhase : Nat
  qc : CertD          -- x.Qc
  hq : Option CertD   -- x.HighQc
  qcProposer : Option Nat := none  -- x.Qc.ProposerKey (PROPOSE messages)
  hasBlock : Bool := true          -- x.Qc.Block != nil
  hasResults : Bool := true        -- x.Qc.Results != nil
deriving Repr

inductive Op where
  | cfg (n : Nat) (byz : List Nat) (pw : List Nat) (root : Nat) (lrhu : Nat)
  | vote (e : Ev)
  | adopt (r : Nat) (q : View) (b : Nat)
  | commit (r : Nat) (v : View) (b : Nat)
  | agree
  /-- NEW_COMMITTEE reset of replica `r` to root height `root` (`NewHeight(true)`) -/
  | reset (r : Nat) (root : Nat)
  /-- phase handler of replica `r`; `phase` = the phase the real replica stood in; `args` = phase-specific input -/
  | ph (r : Nat) (phase : Nat) (args : List String)
  /-- a PROPOSE / PRECOMMIT / COMMIT leader message handed to `HandleMessage` of replica `r` -/
  | dl (r : Nat) (m : MsgD)
  /-- an ELECTION_VOTE of view `v` carrying `HighQc` handed to `HandleMessage` of replica `r` -/
  | ev (r : Nat) (v : View) (named : Option Nat) (hq : CertD) (hasBlock hasResults : Bool)

/-! ### parsing -/

def parseNat (s : String) : Option Nat := s.toNat?

def parseList (s : String) : Option (List Nat) :=
  if s == "-" then some [] else (s.splitOn ",").mapM parseNat

def parseView (s : String) : Option View :=
  match s.splitOn "." with
  | [a, b] => do some ⟨← parseNat a, ← parseNat b⟩
  | _ => none

def parseOptView (s : String) : Option (Option View) :=
  if s == "-" then some none else (parseView s).map some

def parseBlk (s : String) : Option Nat :=
  match s.splitOn "." with
  | [a, b] => do some (encBlk (← parseNat a) (← parseNat b))
  | _ => none

/-- `<root>.<round>/<phase>/<bh>.<rh>/<signers csv>` -/
def parseCert (s : String) : Option CertD :=
  match s.splitOn "/" with
  | [v, ph, b, sg] => do some { view := ← parseView v, phase := ← parseNat ph, blk := ← parseBlk b, signers := ← parseList sg }
  | _ => none

def parseOptCert (s : String) : Option (Option CertD) :=
  if s == "-" then some none else (parseCert s).map some

def parseOptNat (s : String) : Option (Option Nat) :=
  if s == "-" then some none else (parseNat s).map some

def parseBit (s : String) : Option Bool :=
  if s == "1" then some true else if s == "0" then some false else none

def showView (v : View) : String := toString v.root ++ "." ++ toString v.round
def showBlk (b : Nat) : String := toString (blkHashOf b) ++ "." ++ toString (resHashOf b)

def parseOp : List String → Option Op
  | ["cfg", n, byz, pw, root] => do some (.cfg (← parseNat n) (← parseList byz) (← parseList pw) (← parseNat root) 0)
  | ["cfg", n, byz, pw, root, l] => do
      some (.cfg (← parseNat n) (← parseList byz) (← parseList pw) (← parseNat root) (← parseNat l))
  | ["vote", "propose", r, v, b, hq] => do
      some (.vote (.propose (← parseNat r) (← parseView v) (← parseBlk b) (← parseOptView hq)))
  | ["vote", "precommit", r, v, b, q, qph] => do
      let ph ← parseNat qph
      if ph != phase_PROPOSE_VOTE && ph != phase_PRECOMMIT_VOTE then none
      some (.vote (.precommit (← parseNat r) (← parseView v) (← parseBlk b) (← parseView q) (ph == phase_PROPOSE_VOTE)))
  | ["adopt", r, q, b] => do some (.adopt (← parseNat r) (← parseView q) (← parseBlk b))
  | ["commit", r, v, b] => do some (.commit (← parseNat r) (← parseView v) (← parseBlk b))
  | ["agree?"] => some .agree
  | ["reset", r, root] => do some (.reset (← parseNat r) (← parseNat root))
  | "ph" :: r :: phase :: args => do some (.ph (← parseNat r) (← parseNat phase) args)
  | ["dl", r, sender, hdr, hdrPhase, qc, hq, qcp, hb, hr] => do
      some (.dl (← parseNat r) { sender := ← parseNat sender, hdr := ← parseView hdr, hdrPhase := ← parseNat hdrPhase,
                                 qc := ← parseCert qc, hq := ← parseOptCert hq, qcProposer := ← parseOptNat qcp,
                                 hasBlock := ← parseBit hb, hasResults := ← parseBit hr })
  | ["ev", r, v, named, hq, hb, hr] => do
      some (.ev (← parseNat r) (← parseView v) (← parseOptNat named) (← parseCert hq) (← parseBit hb) (← parseBit hr))
  | _ => none

/-! ### per-replica handlers -/

def showLock : Option (View × Nat × Nat) → String
  | none => "-"
  | some (v, ph, b) => showView v ++ "/" ++ toString ph ++ "/" ++ showBlk b

def showOptBlk : Option Nat → String
  | none => "-"
  | some b => showBlk b

def Rep.show (s : Rep) : String :=
  "view=" ++ toString s.root ++ "." ++ toString s.round ++ " ph=" ++ toString s.phase ++
  " lock=" ++ showLock s.lock ++ " blk=" ++ showOptBlk s.blk

/-- `RoundInterrupt()` followed by `SetTimerForNextPhase`: the replica stands at PACEMAKER -/
def Rep.interrupt (s : Rep) : Rep := { s with phase := phase_PACEMAKER }

/-- error constructor → the reason the simulator reads from the real replica's log -/
def whyOf (e : String) : String :=
  if e == "ErrNoSafeNodeJustification" then "nojustification"
  else if e == "ErrMismatchedProposals" then "mismatch"
  else if e == "ErrFailedSafeNodePredicate" then "safenode"
  else e

/-- the full header of a certificate of the modelled height -/
def certHdr (c : CertD) : Gen.Bft.View := hdrOf c.view c.phase

def World.power (w : World) (signers : List Nat) : Nat :=
  (signers.eraseDups.map fun r => w.pw.getD r 0).sum

/-- `AggregateSignature.Check`'s partial test on the signers of a certificate (signatures themselves are valid: symbolic) -/
def World.isPartial (w : World) (signers : List Nat) : Bool :=
  Gen.Bft.isPartialQC (UInt64.ofNat (w.power signers)) (Gen.Bft.minimumMaj23 (UInt64.ofNat w.cfg.total)) (UInt64.ofNat w.cfg.total)

/-- what `SafeNode` reads when a replica locked on `(lv, lph, lb)` examines a proposal for `b` justified by `hq` -/
def safeNodeInput (lv : View) (lph lb b : Nat) (hq : Option CertD) : Gen.Bft.SafeNodeIn :=
  let hqb := (hq.map (·.blk)).getD 0
  { hasMsg := true, hasQc := true, hasHighQc := hq.isSome,
    proposalBlockHash := blkHashOf b, proposalResultsHash := resHashOf b,
    highBlockHash := blkHashOf hqb, highResultsHash := resHashOf hqb,
    lockBlockHash := blkHashOf lb, lockResultsHash := resHashOf lb,
    lock := hdrOf lv lph,
    msgHigh := match hq with | some c => certHdr c | none => hdrOf ⟨0, 0⟩ 0 }

/-- the `if b.HighQC != nil { SafeNode(msg) }` step of `StartProposeVotePhase`: `none` = vote -/
def proposeDecision (lock : Option (View × Nat × Nat)) (b : Nat) (hq : Option CertD) : Option String :=
  match lock with
  | none => none
  | some (lv, lph, lb) => Gen.Bft.safeNode (safeNodeInput lv lph lb b hq)

/-- symbolic aggregate signature: the certificate verifies iff every listed signer signed exactly this payload
    (PROPOSE_VOTE / PRECOMMIT_VOTE certificates; ELECTION_VOTE certificates are not recorded in the history) -/
def World.sigValid (w : World) (c : CertD) : Bool :=
  if c.phase == phase_PROPOSE_VOTE then c.signers.all fun r => votedPropose w.hist r c.view c.blk
  else if c.phase == phase_PRECOMMIT_VOTE then c.signers.all fun r => votedPrecommit w.hist r c.view c.blk
  else true

/-- `StartProposeVotePhase` -/
def proposeVote (s : Rep) (prop : Option (Nat × Nat × Option CertD)) : Rep × String :=
  match prop with
  | none => (s.interrupt, "interrupt:noproposal")
  | some (sender, b, hq) =>
    let s := { s with proposer := some sender }
    match proposeDecision s.lock b hq with
    | some e => (s.interrupt, "interrupt:" ++ whyOf e)
    | none =>
      let br := match s.lock with
        | none => "nolock"
        | some (_, _, lb) => if some lb == hq.map (·.blk) then "same" else "unlock"
      ({ s with blk := some b, phase := phase_PRECOMMIT }, "vote:" ++ br)

/-- `CheckProposerAndProposal` -/
def checkProposerAndProposal (s : Rep) (sender b : Nat) : Option String :=
  if s.proposer != some sender then some "wrongproposer"
  else if s.blk != some b then some "mismatch"
  else none

/-- `StartPrecommitVotePhase` -/
def precommitVote (s : Rep) (msg : Option (Nat × CertD)) : Rep × String :=
  match msg with
  | none => (s.interrupt, "interrupt:noproposal")
  | some (sender, c) =>
    match checkProposerAndProposal s sender c.blk with
    | some why => (s.interrupt, "interrupt:" ++ why)
    | none => ({ s with lock := some (c.view, c.phase, c.blk), phase := phase_COMMIT }, "vote")

/-- `StartCommitProcessPhase` + the controller's gate on the certificate's phase -/
def commitProcess (s : Rep) (msg : Option (Nat × CertD)) : Rep × String :=
  match msg with
  | none => (s.interrupt, "interrupt:noproposal")
  | some (sender, c) =>
    match checkProposerAndProposal s sender c.blk with
    | some why => (s.interrupt, "interrupt:" ++ why)
    | none =>
      if c.phase == phase_PRECOMMIT_VOTE then ({ s with commits := c.blk :: s.commits }, "commit:accepted")
      else (s, "commit:rejected:phase")

/-- `NewRound(false)` after the pacemaker chose `round` -/
def Rep.newRound (s : Rep) (round : Nat) : Rep :=
  { s with round := round, phase := phase_ELECTION, blk := none, proposer := none }

def parseProp : List String → Option (Option (Nat × Nat × Option CertD))
  | ["-"] => some none
  | [sender, b, hq] => do some (some (← parseNat sender, ← parseBlk b, ← parseOptCert hq))
  | _ => none

def parseLeaderMsg : List String → Option (Option (Nat × CertD))
  | ["-"] => some none
  | [sender, c] => do some (some (← parseNat sender, ← parseCert c))
  | _ => none

/-- one phase handler + `SetTimerForNextPhase`; `none` = malformed op -/
def Rep.phaseStep (s : Rep) (args : List String) : Option (Rep × String) :=
  if s.phase == phase_ELECTION || s.phase == phase_ELECTION_VOTE then
    match args with
    | [] => some ({ s with phase := s.phase + 1 }, "")
    | _ => none
  else if s.phase == phase_PROPOSE then
    -- a leader that holds an ELECTION_VOTE majority sets its block (input: the block it holds afterwards)
    match args with
    | ["-"] => some ({ s with phase := phase_PROPOSE_VOTE }, "")
    | [b] => do some ({ s with blk := some (← parseBlk b), phase := phase_PROPOSE_VOTE }, "")
    | _ => none
  else if s.phase == phase_PROPOSE_VOTE then do
    let p ← parseProp args
    some (proposeVote s p)
  else if s.phase == phase_PRECOMMIT || s.phase == phase_COMMIT then
    -- leader side (vote aggregation) is input: ok = not leader or majority reached; fail = leader without majority
    match args with
    | ["ok"] => some ({ s with phase := s.phase + 1 }, "")
    | ["fail"] => some (s.interrupt, "interrupt:nomaj")
    | _ => none
  else if s.phase == phase_PRECOMMIT_VOTE then do
    let m ← parseLeaderMsg args
    some (precommitVote s m)
  else if s.phase == phase_COMMIT_PROCESS then do
    let m ← parseLeaderMsg args
    some (commitProcess s m)
  else if s.phase == phase_PACEMAKER then
    match args with
    | [round] => do
      let rd ← parseNat round
      if rd ≤ s.round then none else some (s.newRound rd, "")
    | _ => none
  else none

/-- public keys as ids for the generated checks: replica index + 1, 0 = no key -/
def keyId : Option Nat → Nat
  | none => 0
  | some r => r + 1

inductive Verdict where
  | ok | partialQC | err (e : String)
deriving DecidableEq, Repr

def Verdict.show : Verdict → String
  | .ok => "ok" | .partialQC => "partial" | .err e => "err:" ++ e

/-- `CheckProposerMessage` for a PROPOSE / PRECOMMIT / COMMIT message whose sender signature and certificate
    signatures verify (symbolic): accepted, stored as partial-QC evidence, or rejected with an error constructor -/
def World.leaderVerdict (w : World) (s : Rep) (m : MsgD) : Verdict :=
  let qc := certHdr m.qc
  let hdr := hdrOf m.hdr m.hdrPhase
  let isPartial := w.isPartial m.qc.signers
  -- HighQc, when present, is validated before the root-height verdict on the certificate
  let hqErr : Option String :=
    match m.hq with
    | none => none
    | some c =>
      if !(w.sigValid c) then some "ErrInvalidAggrSignature"
      else Gen.Bft.checkHighQCPost (w.isPartial c.signers) (certHdr c) (hdrOf ⟨s.root, s.round⟩ s.phase) w.lrhu
  if !(w.sigValid m.qc) then .err "ErrInvalidAggrSignature" else
  match hqErr with
  | some e => .err e
  | none =>
    if Gen.Bft.leaderMsgWrongRoot qc s.root then (if isPartial then .partialQC else .err "ErrWrongRootHeight")
    else if isPartial then .partialQC
    else if Gen.Bft.leaderMsgWrongHeight hdr modelHeight then .err "ErrWrongCertHeight"
    else if Gen.Bft.leaderMsgQcTooOld qc 0 then .err "ErrInvalidQCCommitteeHeight"
    else if m.hdrPhase == phase_PROPOSE then
      match Gen.Bft.proposeMsgChecks qc hdr (keyId (some m.sender)) (keyId m.qcProposer) m.hasBlock m.hasResults with
      | none => .ok
      | some e => .err e
    else
      let saved := s.blk.getD 0
      match Gen.Bft.leaderMsgChecks qc hdr (keyId (some m.sender)) (keyId s.proposer) s.blk.isSome
          (blkHashOf m.qc.blk) (resHashOf m.qc.blk) (blkHashOf saved) (resHashOf saved) with
      | none => .ok
      | some e => .err e

def World.checkLeaderMsg (w : World) (s : Rep) (m : MsgD) : String := (w.leaderVerdict s m).show

/-- `handleHighQCVDFAndEvidence` for an ELECTION_VOTE carrying a HighQc that passed `CheckReplicaMessage` (same height
    and root height); `named` = the candidate the vote names -/
def World.electionVote (w : World) (r : Nat) (s : Rep) (v : View) (named : Option Nat) (hq : CertD)
    (hasBlock hasResults : Bool) : Rep × String :=
  if v.root != s.root then (s, "err:ErrWrongRootHeight") else
  if Gen.Bft.electionVoteIgnored (named == some r) v.round s.round s.phase then (s, "keep") else
  if Gen.Bft.highQcMissingProposal hasBlock hasResults then (s, "err:ErrNilBlock") else
  if !(w.sigValid hq) then (s, "err:ErrInvalidAggrSignature") else
  match Gen.Bft.checkHighQCPost (w.isPartial hq.signers) (certHdr hq) (hdrOf ⟨s.root, s.round⟩ s.phase) w.lrhu with
  | some e => (s, "err:" ++ e)
  | none =>
    let (hasLock, lockHdr) := match s.lock with
      | none => (false, hdrOf ⟨0, 0⟩ 0)
      | some (lv, lph, _) => (true, hdrOf lv lph)
    if Gen.Bft.adoptHigher hasLock lockHdr (certHdr hq) (hdrOf v phase_ELECTION_VOTE) then
      -- b.HighQC = vote.HighQc (the block of the round is left alone)
      ({ s with lock := some (hq.view, hq.phase, hq.blk) }, "adopt")
    else (s, "keep")

def World.setRep (w : World) (r : Nat) (s : Rep) : World := { w with reps := w.reps.set r s }

/-- the lock of the abstract history and the lock of the per-replica state must be the same thing -/
def World.lockAgrees (w : World) (r : Nat) : Bool :=
  match w.reps[r]? with
  | none => true
  | some s => (s.lock.map fun (v, _, b) => (v, b)) == Cfg.lock w.hist r

/-! ### the step function -/

def World.apply (w : World) : Op → World × String
  | .cfg n byz pw root lrhu =>
    if pw.length != n || byz.any (· ≥ n) then (w, "bad-op") else
    let rep0 : Rep := { root := root, round := 0, phase := phase_ELECTION, lock := none, blk := none, proposer := none, commits := [] }
    let w' : World := { n := n, pw := pw, byz := byz, hist := [], reps := (List.range n).map fun _ => rep0, lrhu := lrhu }
    let c := w'.cfg
    let m := (Gen.Bft.minimumMaj23 (UInt64.ofNat c.total)).toNat
    if m != c.maj then (w', "maj-mismatch") else
    (w', "ok total=" ++ toString c.total ++ " maj=" ++ toString m)
  | .vote e =>
    if e.rep ≥ w.n then (w, "bad-op") else
    let res := checkEntry w.cfg w.hist e
    let w' := { w with hist := e :: w.hist }
    -- an honest replica's vote is cast with / creates the lock the per-replica state holds, and signs the block and
    -- results the replica holds for the round
    let holds := match e, w.reps[e.rep]? with
      | .propose _ _ b _, some s => s.blk == some b
      | .precommit _ _ b _ _, some s => s.blk == some b
      | _, _ => true
    if w.byz.contains e.rep || res != "ok" then (w', res)
    else if !(w'.lockAgrees e.rep) then (w', "lock-mismatch")
    else if !holds then (w', "payload-mismatch")
    else (w', res)
  | .adopt r q b =>
    if r ≥ w.n then (w, "bad-op") else
    let e := Ev.adopt r q b
    let res := checkEntry w.cfg w.hist e
    let w' := { w with hist := e :: w.hist }
    if !(w.byz.contains r) && res == "ok" && !(w'.lockAgrees r) then (w', "lock-mismatch") else (w', res)
  | .commit r v b =>
    if r ≥ w.n then (w, "bad-op") else
    (w, if decide (w.cfg.precommitQC w.hist v b) then "ok" else "guard-violated:commit-without-quorum")
  | .agree =>
    let bs := committedBlocks w.cfg w.hist
    (w, if bs.length ≤ 1 then "agree" else "disagree:" ++ String.intercalate "," (bs.map showBlk))
  | .reset r root =>
    match w.reps[r]? with
    | none => (w, "bad-op")
    | some s =>
      -- NewHeight(true): round 0, phase ELECTION, block and proposer cleared, lock kept
      let s' := { s with root := root, round := 0, phase := phase_ELECTION, blk := none, proposer := none }
      (w.setRep r s', s'.show)
  | .ph r phase args =>
    match w.reps[r]? with
    | none => (w, "bad-op")
    | some s =>
      if s.phase != phase then (w, "phase-mismatch model=" ++ toString s.phase) else
      match s.phaseStep args with
      | none => (w, "bad-op")
      | some (s', res) => (w.setRep r s', (if res == "" then "" else res ++ " ") ++ s'.show)
  | .dl r m =>
    match w.reps[r]? with
    | none => (w, "bad-op")
    | some s => (w, w.checkLeaderMsg s m)
  | .ev r v named hq hb hr =>
    match w.reps[r]? with
    | none => (w, "bad-op")
    | some s =>
      let (s', res) := w.electionVote r s v named hq hb hr
      (w.setRep r s', res ++ " " ++ s'.show)

end Canopy.Bft
