import Canopy.Proof.LedgerStaking
/-! C12: effect of the committee / delegation bookkeeping loops on the per-committee supply pools. -/
namespace Canopy.Ledger
open AMap

set_option linter.unusedSimpArgs false
set_option linter.unusedVariables false

namespace NMap
set_option linter.unusedSectionVars false
variable {κ : Type} [DecidableEq κ] [KLt κ] [LawfulKLt κ]

theorem get_put (m : NMap κ) (k k' : κ) (v : Nat) (hn : NodupKeys m) : get (put m k v) k' = if k = k' then v else get m k' := by
  by_cases h : k = k'
  · subst h
    simp only [if_true]
    unfold put get
    by_cases hv : v = 0
    · simp [hv, find?_erase_self m k hn]
    · simp [hv, find?_set_self]
  · simp only [h, if_false]; exact get_put_ne m v h

theorem nodup_put (m : NMap κ) (k : κ) (v : Nat) (hn : NodupKeys m) : NodupKeys (put m k v) := by
  unfold put; split
  · exact nodup_erase m k hn
  · exact nodup_set m k v hn
end NMap

/-! ### single pool updates -/

theorem addToCommitteeSupply_eff {L L' : Ledger} {c x : Nat} (hn : NodupKeys L.supply.committee)
    (h : addToCommitteeSupply L c x = .ok L') :
    (∀ c', comGet L' c' = comGet L c' + (if c = c' then x else 0)) ∧ L'.supply.delegated = L.supply.delegated ∧
    NodupKeys L'.supply.committee := by
  unfold addToCommitteeSupply at h
  split at h
  · exact absurd h (by intro h; cases h)
  · obtain rfl := Except.ok.inj h
    refine ⟨fun c' => ?_, rfl, NMap.nodup_put _ _ _ hn⟩
    show NMap.get (NMap.put _ _ _) c' = _
    rw [NMap.get_put _ _ _ _ hn]
    unfold comGet
    by_cases hc : c = c'
    · subst hc; simp
    · simp [hc]

theorem subFromCommitteeSupply_eff {L L' : Ledger} {c x : Nat} (hn : NodupKeys L.supply.committee)
    (h : subFromCommitteeSupply L c x = .ok L') :
    (∀ c', comGet L' c' + (if c = c' then x else 0) = comGet L c') ∧ L'.supply.delegated = L.supply.delegated ∧
    NodupKeys L'.supply.committee := by
  unfold subFromCommitteeSupply at h
  split at h
  · exact absurd h (by intro h; cases h)
  · next hge =>
    obtain rfl := Except.ok.inj h
    refine ⟨fun c' => ?_, rfl, NMap.nodup_put _ _ _ hn⟩
    show NMap.get (NMap.put _ _ _) c' + _ = _
    rw [NMap.get_put _ _ _ _ hn]
    unfold comGet
    by_cases hc : c = c'
    · subst hc; simp; omega
    · simp [hc]

theorem subFromCommitteeSupply_ok_of (L : Ledger) (c x : Nat) (hle : x ≤ comGet L c) : ∃ L', subFromCommitteeSupply L c x = .ok L' := by
  unfold subFromCommitteeSupply
  unfold comGet at hle
  rw [if_neg (by omega)]
  exact ⟨_, rfl⟩

theorem addToDelegateSupply_eff {L L' : Ledger} {c x : Nat} (hn : NodupKeys L.supply.delegated)
    (h : addToDelegateSupply L c x = .ok L') :
    (∀ c', delGet L' c' = delGet L c' + (if c = c' then x else 0)) ∧ L'.supply.committee = L.supply.committee ∧
    NodupKeys L'.supply.delegated := by
  unfold addToDelegateSupply at h
  split at h
  · exact absurd h (by intro h; cases h)
  · obtain rfl := Except.ok.inj h
    refine ⟨fun c' => ?_, rfl, NMap.nodup_put _ _ _ hn⟩
    show NMap.get (NMap.put _ _ _) c' = _
    rw [NMap.get_put _ _ _ _ hn]
    unfold delGet
    by_cases hc : c = c'
    · subst hc; simp
    · simp [hc]

theorem subFromDelegateSupply_eff {L L' : Ledger} {c x : Nat} (hn : NodupKeys L.supply.delegated)
    (h : subFromDelegateSupply L c x = .ok L') :
    (∀ c', delGet L' c' + (if c = c' then x else 0) = delGet L c') ∧ L'.supply.committee = L.supply.committee ∧
    NodupKeys L'.supply.delegated := by
  unfold subFromDelegateSupply at h
  split at h
  · exact absurd h (by intro h; cases h)
  · next hge =>
    obtain rfl := Except.ok.inj h
    refine ⟨fun c' => ?_, rfl, NMap.nodup_put _ _ _ hn⟩
    show NMap.get (NMap.put _ _ _) c' + _ = _
    rw [NMap.get_put _ _ _ _ hn]
    unfold delGet
    by_cases hc : c = c'
    · subst hc; simp; omega
    · simp [hc]

theorem subFromDelegateSupply_ok_of (L : Ledger) (c x : Nat) (hle : x ≤ delGet L c) : ∃ L', subFromDelegateSupply L c x = .ok L' := by
  unfold subFromDelegateSupply
  unfold delGet at hle
  rw [if_neg (by omega)]
  exact ⟨_, rfl⟩

/-- the index keys do not matter for the pools -/
theorem comGet_member (L : Ledger) (a : Addr) (c s c' : Nat) :
    comGet (setCommitteeMember L a c s) c' = comGet L c' ∧ comGet (deleteCommitteeMember L a c s) c' = comGet L c' ∧
    comGet (setDelegate L a c s) c' = comGet L c' ∧ comGet (deleteDelegate L a c s) c' = comGet L c' := by
  unfold setCommitteeMember deleteCommitteeMember setDelegate deleteDelegate
  refine ⟨?_, ?_, ?_, ?_⟩ <;> split <;> rfl

theorem supply_member (L : Ledger) (a : Addr) (c s : Nat) :
    (setCommitteeMember L a c s).supply = L.supply ∧ (deleteCommitteeMember L a c s).supply = L.supply ∧
    (setDelegate L a c s).supply = L.supply ∧ (deleteDelegate L a c s).supply = L.supply := by
  unfold setCommitteeMember deleteCommitteeMember setDelegate deleteDelegate
  refine ⟨?_, ?_, ?_, ?_⟩ <;> split <;> rfl

/-- per-committee state of the two supply pool lists, as far as the invariants look at it -/
structure Pools (L : Ledger) : Prop where
  committee : NodupKeys L.supply.committee
  delegated : NodupKeys L.supply.delegated

/-! ### the loops -/

theorem setCommittees_eff {a : Addr} {s : Nat} : ∀ {cs : List Nat} {L L' : Ledger}, Pools L → setCommittees L a s cs = .ok L' →
    (∀ c, comGet L' c = comGet L c + s * cs.count c) ∧ (∀ c, delGet L' c = delGet L c) ∧ Pools L'
  | [], L, L', hp, h => by obtain rfl := Except.ok.inj h; exact ⟨fun c => by simp, fun c => rfl, hp⟩
  | c0 :: cs, L, L', hp, h => by
    simp only [setCommittees] at h
    obtain ⟨L1, h1, h2⟩ := bind_ok h
    have hs := (supply_member L a c0 s).1
    obtain ⟨e1, e2, e3⟩ := addToCommitteeSupply_eff (by rw [hs]; exact hp.committee) h1
    have hp1 : Pools L1 := ⟨e3, by rw [e2, hs]; exact hp.delegated⟩
    obtain ⟨i1, i2, i3⟩ := setCommittees_eff hp1 h2
    refine ⟨fun c => ?_, fun c => ?_, i3⟩
    · rw [i1 c, e1 c, (comGet_member L a c0 s c).1, List.count_cons]
      by_cases hc : c0 = c
      · subst hc; simp [Nat.mul_add]; omega
      · have : (c0 == c) = false := by simpa using hc
        simp [hc, this]
    · rw [i2 c]; unfold delGet; rw [e2, hs]

theorem deleteCommittees_eff {a : Addr} {s : Nat} : ∀ {cs : List Nat} {L L' : Ledger}, Pools L → deleteCommittees L a s cs = .ok L' →
    (∀ c, comGet L' c + s * cs.count c = comGet L c) ∧ (∀ c, delGet L' c = delGet L c) ∧ Pools L'
  | [], L, L', hp, h => by obtain rfl := Except.ok.inj h; exact ⟨fun c => by simp, fun c => rfl, hp⟩
  | c0 :: cs, L, L', hp, h => by
    simp only [deleteCommittees] at h
    obtain ⟨L1, h1, h2⟩ := bind_ok h
    have hs := (supply_member L a c0 s).2.1
    obtain ⟨e1, e2, e3⟩ := subFromCommitteeSupply_eff (by rw [hs]; exact hp.committee) h1
    have hp1 : Pools L1 := ⟨e3, by rw [e2, hs]; exact hp.delegated⟩
    obtain ⟨i1, i2, i3⟩ := deleteCommittees_eff hp1 h2
    refine ⟨fun c => ?_, fun c => ?_, i3⟩
    · have := i1 c; have := e1 c
      rw [(comGet_member L a c0 s c).2.1] at this
      rw [List.count_cons]
      by_cases hc : c0 = c
      · subst hc; simp [Nat.mul_add] at *; omega
      · have hb : (c0 == c) = false := by simpa using hc
        simp [hc, hb] at *; omega
    · rw [i2 c]; unfold delGet; rw [e2, hs]

/-- the deletion loop succeeds when every pool holds what is to be taken out -/
theorem deleteCommittees_ok_of {a : Addr} {s : Nat} : ∀ (cs : List Nat) (L : Ledger), Pools L →
    (∀ c, s * cs.count c ≤ comGet L c) → ∃ L', deleteCommittees L a s cs = .ok L'
  | [], L, _, _ => ⟨L, rfl⟩
  | c0 :: cs, L, hp, hle => by
    simp only [deleteCommittees]
    have hs := (supply_member L a c0 s).2.1
    have h0 := hle c0
    simp only [List.count_cons_self, Nat.mul_add, Nat.mul_one] at h0
    obtain ⟨L1, h1⟩ := subFromCommitteeSupply_ok_of (deleteCommitteeMember L a c0 s) c0 s (by
      rw [(comGet_member L a c0 s c0).2.1]; omega)
    obtain ⟨e1, e2, e3⟩ := subFromCommitteeSupply_eff (by rw [hs]; exact hp.committee) h1
    have hp1 : Pools L1 := ⟨e3, by rw [e2, hs]; exact hp.delegated⟩
    obtain ⟨L', h2⟩ := deleteCommittees_ok_of (a := a) (s := s) cs L1 hp1 (by
      intro c
      have := e1 c; have := hle c
      rw [(comGet_member L a c0 s c).2.1] at *
      rw [List.count_cons] at *
      by_cases hc : c0 = c
      · subst hc; simp [Nat.mul_add] at *; omega
      · have hb : (c0 == c) = false := by simpa using hc
        simp [hc, hb] at *; omega)
    exact ⟨L', by rw [h1]; exact h2⟩

theorem delGet_member (L : Ledger) (a : Addr) (c s c' : Nat) :
    delGet (setCommitteeMember L a c s) c' = delGet L c' ∧ delGet (deleteCommitteeMember L a c s) c' = delGet L c' ∧
    delGet (setDelegate L a c s) c' = delGet L c' ∧ delGet (deleteDelegate L a c s) c' = delGet L c' := by
  unfold setCommitteeMember deleteCommitteeMember setDelegate deleteDelegate
  refine ⟨?_, ?_, ?_, ?_⟩ <;> split <;> rfl

theorem setDelegations_eff {a : Addr} {s : Nat} : ∀ {cs : List Nat} {L L' : Ledger}, Pools L → setDelegations L a s cs = .ok L' →
    (∀ c, comGet L' c = comGet L c + s * cs.count c) ∧ (∀ c, delGet L' c = delGet L c + s * cs.count c) ∧ Pools L'
  | [], L, L', hp, h => by obtain rfl := Except.ok.inj h; exact ⟨fun c => by simp, fun c => by simp, hp⟩
  | c0 :: cs, L, L', hp, h => by
    simp only [setDelegations] at h
    obtain ⟨L1, h1, h2⟩ := bind_ok h
    obtain ⟨L2, h3, h4⟩ := bind_ok h2
    have hs := (supply_member L a c0 s).2.2.1
    obtain ⟨d1, d2, d3⟩ := addToDelegateSupply_eff (by rw [hs]; exact hp.delegated) h1
    obtain ⟨e1, e2, e3⟩ := addToCommitteeSupply_eff (by rw [d2, hs]; exact hp.committee) h3
    have hp2 : Pools L2 := ⟨e3, by rw [e2]; exact d3⟩
    obtain ⟨i1, i2, i3⟩ := setDelegations_eff hp2 h4
    refine ⟨fun c => ?_, fun c => ?_, i3⟩
    · have := i1 c; have := e1 c
      have hc1 : comGet L1 c = comGet L c := by unfold comGet; rw [d2, hs]
      rw [List.count_cons]
      by_cases hc : c0 = c
      · subst hc; simp [Nat.mul_add] at *; omega
      · have hb : (c0 == c) = false := by simpa using hc
        simp [hc, hb] at *; omega
    · have := i2 c; have := d1 c
      have hc2 : delGet L2 c = delGet L1 c := by unfold delGet; rw [e2]
      rw [(delGet_member L a c0 s c).2.2.1] at this
      rw [List.count_cons]
      by_cases hc : c0 = c
      · subst hc; simp [Nat.mul_add] at *; omega
      · have hb : (c0 == c) = false := by simpa using hc
        simp [hc, hb] at *; omega

theorem deleteDelegations_eff {a : Addr} {s : Nat} : ∀ {cs : List Nat} {L L' : Ledger}, Pools L → deleteDelegations L a s cs = .ok L' →
    (∀ c, comGet L' c + s * cs.count c = comGet L c) ∧ (∀ c, delGet L' c + s * cs.count c = delGet L c) ∧ Pools L'
  | [], L, L', hp, h => by obtain rfl := Except.ok.inj h; exact ⟨fun c => by simp, fun c => by simp, hp⟩
  | c0 :: cs, L, L', hp, h => by
    simp only [deleteDelegations] at h
    obtain ⟨L1, h1, h2⟩ := bind_ok h
    obtain ⟨L2, h3, h4⟩ := bind_ok h2
    have hs := (supply_member L a c0 s).2.2.2
    obtain ⟨d1, d2, d3⟩ := subFromDelegateSupply_eff (by rw [hs]; exact hp.delegated) h1
    obtain ⟨e1, e2, e3⟩ := subFromCommitteeSupply_eff (by rw [d2, hs]; exact hp.committee) h3
    have hp2 : Pools L2 := ⟨e3, by rw [e2]; exact d3⟩
    obtain ⟨i1, i2, i3⟩ := deleteDelegations_eff hp2 h4
    refine ⟨fun c => ?_, fun c => ?_, i3⟩
    · have := i1 c; have := e1 c
      have hc1 : comGet L1 c = comGet L c := by unfold comGet; rw [d2, hs]
      rw [List.count_cons]
      by_cases hc : c0 = c
      · subst hc; simp [Nat.mul_add] at *; omega
      · have hb : (c0 == c) = false := by simpa using hc
        simp [hc, hb] at *; omega
    · have := i2 c; have := d1 c
      have hc2 : delGet L2 c = delGet L1 c := by unfold delGet; rw [e2]
      rw [(delGet_member L a c0 s c).2.2.2] at this
      rw [List.count_cons]
      by_cases hc : c0 = c
      · subst hc; simp [Nat.mul_add] at *; omega
      · have hb : (c0 == c) = false := by simpa using hc
        simp [hc, hb] at *; omega

theorem deleteDelegations_ok_of {a : Addr} {s : Nat} : ∀ (cs : List Nat) (L : Ledger), Pools L →
    (∀ c, s * cs.count c ≤ comGet L c) → (∀ c, s * cs.count c ≤ delGet L c) → ∃ L', deleteDelegations L a s cs = .ok L'
  | [], L, _, _, _ => ⟨L, rfl⟩
  | c0 :: cs, L, hp, hle, hld => by
    simp only [deleteDelegations]
    have hs := (supply_member L a c0 s).2.2.2
    have h0 := hle c0; have h0d := hld c0
    simp only [List.count_cons_self, Nat.mul_add, Nat.mul_one] at h0 h0d
    obtain ⟨L1, h1⟩ := subFromDelegateSupply_ok_of (deleteDelegate L a c0 s) c0 s (by
      rw [(delGet_member L a c0 s c0).2.2.2]; omega)
    obtain ⟨d1, d2, d3⟩ := subFromDelegateSupply_eff (by rw [hs]; exact hp.delegated) h1
    have hc1 : ∀ c, comGet L1 c = comGet L c := by intro c; unfold comGet; rw [d2, hs]
    obtain ⟨L2, h3⟩ := subFromCommitteeSupply_ok_of L1 c0 s (by rw [hc1]; omega)
    obtain ⟨e1, e2, e3⟩ := subFromCommitteeSupply_eff (by rw [d2, hs]; exact hp.committee) h3
    have hp2 : Pools L2 := ⟨e3, by rw [e2]; exact d3⟩
    obtain ⟨L', h4⟩ := deleteDelegations_ok_of (a := a) (s := s) cs L2 hp2 (by
      intro c
      have := e1 c; have := hle c; have := hc1 c
      rw [List.count_cons] at *
      by_cases hc : c0 = c
      · subst hc; simp [Nat.mul_add] at *; omega
      · have hb : (c0 == c) = false := by simpa using hc
        simp [hc, hb] at *; omega) (by
      intro c
      have := d1 c; have := hld c
      have hc2 : delGet L2 c = delGet L1 c := by unfold delGet; rw [e2]
      rw [(delGet_member L a c0 s c).2.2.2] at *
      rw [List.count_cons] at *
      by_cases hc : c0 = c
      · subst hc; simp [Nat.mul_add] at *; omega
      · have hb : (c0 == c) = false := by simpa using hc
        simp [hc, hb] at *; omega)
    exact ⟨L', by rw [h1]; simp only [bind, Except.bind]; rw [h3]; exact h4⟩

/-! ### deleting a validator -/

theorem Pools.of_sameCore_supply {L L' : Ledger} (hp : Pools L) (h : L'.supply.committee = L.supply.committee)
    (h2 : L'.supply.delegated = L.supply.delegated) : Pools L' := ⟨by rw [h]; exact hp.committee, by rw [h2]; exact hp.delegated⟩

/-- `DeleteValidator` succeeds on a ledger whose tallies are right -/
theorem deleteValidator_ok_of {L : Ledger} {a : Addr} {val : Validator} (ht : Tallies L) (hp : Pools L)
    (hg : valGet? L a = some val) : ∃ L', deleteValidator L a val = .ok L' := by
  have w1 := ow_le_sumBy (fun v : Validator => v.stake) L.validators a
  have w2 := ow_le_sumBy (fun v : Validator => if v.delegate then v.stake else 0) L.validators a
  have w3 := fun c => ow_le_sumBy (fun v : Validator => v.stake * v.committees.count c) L.validators a
  have w4 := fun c => ow_le_sumBy (fun v : Validator => if v.delegate then v.stake * v.committees.count c else 0) L.validators a
  unfold valGet? at hg
  rw [hg] at w1 w2
  simp only [ow_some] at w1 w2
  have w3' : ∀ c, val.stake * val.committees.count c ≤ comGet L c := by
    intro c; have := w3 c; rw [hg] at this; simp only [ow_some] at this; rw [ht.committee c]; exact this
  unfold deleteValidator
  have hs : L.supply.staked ≥ val.stake := by rw [ht.staked]; exact w1
  have e1 : subFromStaked L val.stake = .ok { L with supply := { L.supply with staked := L.supply.staked - val.stake } } := by
    unfold subFromStaked; rw [if_neg (by omega)]
  rw [e1]
  simp only [bind, Except.bind]
  cases hd : val.delegate with
  | false =>
    simp only [Bool.false_eq_true, if_false]
    obtain ⟨L2, h2⟩ := deleteCommittees_ok_of (a := a) (s := val.stake) val.committees
      { L with supply := { L.supply with staked := L.supply.staked - val.stake } } ⟨hp.committee, hp.delegated⟩ w3'
    rw [h2]; exact ⟨_, rfl⟩
  | true =>
    simp only [if_true]
    rw [hd] at w2; simp only [if_true] at w2
    have hdl : L.supply.delegatedOnly ≥ val.stake := by rw [ht.delegated]; exact w2
    have e2 : subFromDelegated { L with supply := { L.supply with staked := L.supply.staked - val.stake } } val.stake =
        .ok { L with supply := { L.supply with staked := L.supply.staked - val.stake, delegatedOnly := L.supply.delegatedOnly - val.stake } } := by
      unfold subFromDelegated; rw [if_neg (by show ¬ L.supply.delegatedOnly < val.stake; omega)]
    rw [e2]
    have w4' : ∀ c, val.stake * val.committees.count c ≤ delGet L c := by
      intro c; have := w4 c; rw [hg] at this; simp only [ow_some, hd, if_true] at this; rw [ht.committeeDelegated c]; exact this
    obtain ⟨L2, h2⟩ := deleteDelegations_ok_of (a := a) (s := val.stake) val.committees
      { L with supply := { L.supply with staked := L.supply.staked - val.stake, delegatedOnly := L.supply.delegatedOnly - val.stake } }
      ⟨hp.committee, hp.delegated⟩ w3' w4'
    simp only []
    rw [h2]; exact ⟨_, rfl⟩

/-- everything except the validator records, the staking tallies and the index keys -/
structure SameEnv (L L' : Ledger) : Prop where
  cfg : L'.cfg = L.cfg
  params : L'.params = L.params
  height : L'.height = L.height
  accounts : L'.accounts = L.accounts
  pools : L'.pools = L.pools
  total : L'.supply.total = L.supply.total
  unstaking : L'.unstaking = L.unstaking
  paused : L'.paused = L.paused
  committeesData : L'.committeesData = L.committeesData

theorem SameCore.sameEnv {L L' : Ledger} (h : SameCore L L') : SameEnv L L' :=
  ⟨h.cfg, h.params, h.height, h.accounts, h.pools, h.total, h.unstaking, h.paused, h.committeesData⟩
theorem SameEnv.trans {A B C : Ledger} (h1 : SameEnv A B) (h2 : SameEnv B C) : SameEnv A C :=
  ⟨h2.cfg.trans h1.cfg, h2.params.trans h1.params, h2.height.trans h1.height, h2.accounts.trans h1.accounts,
   h2.pools.trans h1.pools, h2.total.trans h1.total, h2.unstaking.trans h1.unstaking, h2.paused.trans h1.paused,
   h2.committeesData.trans h1.committeesData⟩

/-- `DeleteValidator` keeps the tallies right -/
theorem deleteValidator_tallies {L L' : Ledger} {a : Addr} {val : Validator} (ht : Tallies L) (hp : Pools L)
    (hg : valGet? L a = some val) (h : deleteValidator L a val = .ok L') :
    Tallies L' ∧ Pools L' ∧ L'.validators = AMap.erase L.validators a ∧ SameEnv L L' := by
  have w1 := sumBy_erase (fun v : Validator => v.stake) L.validators a
  have w2 := sumBy_erase (fun v : Validator => if v.delegate then v.stake else 0) L.validators a
  have w3 := fun c => sumBy_erase (fun v : Validator => v.stake * v.committees.count c) L.validators a
  have w4 := fun c => sumBy_erase (fun v : Validator => if v.delegate then v.stake * v.committees.count c else 0) L.validators a
  unfold valGet? at hg
  rw [hg] at w1 w2
  simp only [ow_some] at w1 w2
  unfold deleteValidator at h
  obtain ⟨L1, h1, h⟩ := bind_ok h
  obtain ⟨hle, rfl⟩ := subFromStaked_ok h1
  dsimp only at h
  cases hd : val.delegate with
  | false =>
    simp only [hd, Bool.false_eq_true, if_false] at h w2
    obtain ⟨L2, h2, h⟩ := bind_ok h
    obtain rfl := Except.ok.inj h
    have sc := sameCore_deleteCommittees h2
    obtain ⟨c1, c2, c3⟩ := deleteCommittees_eff (L := { L with supply := { L.supply with staked := L.supply.staked - val.stake } })
      ⟨hp.committee, hp.delegated⟩ h2
    refine ⟨⟨?_, ?_, ?_, ?_⟩, ⟨c3.committee, c3.delegated⟩, ?_, ?_⟩
    · show L2.supply.staked = sumBy _ (AMap.erase L2.validators a)
      rw [sc.staked, sc.validators]; dsimp only; show L.supply.staked - val.stake = _
      have := ht.staked; unfold stakeSum at this; omega
    · show L2.supply.delegatedOnly = sumBy _ (AMap.erase L2.validators a)
      rw [sc.delegatedOnly, sc.validators]; dsimp only; show L.supply.delegatedOnly = _
      have := ht.delegated; unfold dstakeSum at this; omega
    · intro c
      show comGet L2 c = sumBy _ (AMap.erase L2.validators a)
      rw [sc.validators]; dsimp only
      have q1 := c1 c; have q2 := w3 c; have q3 := ht.committee c
      rw [hg] at q2; simp only [ow_some] at q2
      unfold comSum at q3
      unfold comGet at *
      dsimp only at *
      omega
    · intro c
      show delGet L2 c = sumBy _ (AMap.erase L2.validators a)
      rw [sc.validators]; dsimp only
      have q1 := c2 c; have q2 := w4 c; have q3 := ht.committeeDelegated c
      rw [hg] at q2; simp only [ow_some, hd, Bool.false_eq_true, if_false] at q2
      unfold dcomSum at q3
      unfold delGet at *
      dsimp only at *
      omega
    · show AMap.erase L2.validators a = _; rw [sc.validators]
    · have e3 : SameEnv L2 (valDel L2 a) := ⟨rfl, rfl, rfl, rfl, rfl, rfl, rfl, rfl, rfl⟩
      have e0 := sc.sameEnv
      exact ⟨e0.cfg, e0.params, e0.height, e0.accounts, e0.pools, e0.total, e0.unstaking, e0.paused, e0.committeesData⟩
  | true =>
    simp only [hd, if_true] at h w2
    obtain ⟨L1', h3, h⟩ := bind_ok h
    obtain ⟨hle2, rfl⟩ := subFromDelegated_ok h3
    dsimp only at h
    obtain ⟨L2, h2, h⟩ := bind_ok h
    obtain rfl := Except.ok.inj h
    have sc := sameCore_deleteDelegations h2
    obtain ⟨c1, c2, c3⟩ := deleteDelegations_eff (L := { L with supply := { L.supply with staked := L.supply.staked - val.stake, delegatedOnly := L.supply.delegatedOnly - val.stake } })
      ⟨hp.committee, hp.delegated⟩ h2
    refine ⟨⟨?_, ?_, ?_, ?_⟩, ⟨c3.committee, c3.delegated⟩, ?_, ?_⟩
    · show L2.supply.staked = sumBy _ (AMap.erase L2.validators a)
      rw [sc.staked, sc.validators]; dsimp only; show L.supply.staked - val.stake = _
      have := ht.staked; unfold stakeSum at this; omega
    · show L2.supply.delegatedOnly = sumBy _ (AMap.erase L2.validators a)
      rw [sc.delegatedOnly, sc.validators]; dsimp only; show L.supply.delegatedOnly - val.stake = _
      have := ht.delegated; unfold dstakeSum at this
      have hx : val.stake ≤ L.supply.delegatedOnly := hle2
      omega
    · intro c
      show comGet L2 c = sumBy _ (AMap.erase L2.validators a)
      rw [sc.validators]; dsimp only
      have q1 := c1 c; have q2 := w3 c; have q3 := ht.committee c
      rw [hg] at q2; simp only [ow_some] at q2
      unfold comSum at q3
      unfold comGet at *
      dsimp only at *
      omega
    · intro c
      show delGet L2 c = sumBy _ (AMap.erase L2.validators a)
      rw [sc.validators]; dsimp only
      have q1 := c2 c; have q2 := w4 c; have q3 := ht.committeeDelegated c
      rw [hg] at q2; simp only [ow_some, hd, if_true] at q2
      unfold dcomSum at q3
      unfold delGet at *
      dsimp only at *
      omega
    · show AMap.erase L2.validators a = _; rw [sc.validators]
    · have e3 : SameEnv L2 (valDel L2 a) := ⟨rfl, rfl, rfl, rfl, rfl, rfl, rfl, rfl, rfl⟩
      have e0 := sc.sameEnv
      exact ⟨e0.cfg, e0.params, e0.height, e0.accounts, e0.pools, e0.total, e0.unstaking, e0.paused, e0.committeesData⟩

end Canopy.Ledger
