import Canopy.Model.Evidence
/-!
Helper lemmas for C14, evidence side: what a successful `processOne` / `processDSE` /
`validateByzantineEvidence` establishes. The property statements are in `Canopy.Props.C14`.
-/
namespace Canopy.Evidence
open Canopy Canopy.Gate
open Canopy.Gen.Evidence (viewEquals phasePropose phaseElectionVote)

/-- `View.Equals` compares all six fields: equal views are the same record -/
theorem viewEquals_eq {x v : View} (h : viewEquals (some x) (some v) = true) : x = v := by
  simp only [viewEquals] at h
  repeat (split at h; · contradiction)
  rename_i h1 h2 h3 h4 h5 h6
  simp only [ne_eq, decide_not, Bool.not_eq_true', decide_eq_false_iff_not, Decidable.not_not] at h1 h2 h3 h4 h5 h6
  cases x; cases v
  simp_all

theorem viewEquals_refl (x : View) : viewEquals (some x) (some x) = true := by
  simp [viewEquals]

/-- the payload names its own view -/
theorem signPayload_header (q : QC) (h : View) : (signPayload q h).header = h := by
  unfold signPayload
  split <;> rfl

/-- a member selected by both bitmaps is selected by each -/
theorem both_sub (xs ys : List Bool) (ms : List Member) (k : KeyId) (h : k ∈ both xs ys ms) :
    k ∈ (selected xs ms).map (·.key) ∧ k ∈ (selected ys ms).map (·.key) := by
  induction ms generalizing xs ys with
  | nil => cases xs <;> cases ys <;> simp [both] at h
  | cons m ms ih =>
    cases xs with
    | nil => simp [both] at h
    | cons x xs =>
      cases ys with
      | nil => simp [both] at h
      | cons y ys =>
        simp only [both] at h
        have hsel : ∀ (b : Bool) (bs : List Bool), selected (b :: bs) (m :: ms) =
            (if b then [m] else []) ++ selected bs ms := by
          intro b bs
          cases b <;> simp [selected]
        rw [hsel, hsel]
        split at h
        · rename_i hxy
          simp only [Bool.and_eq_true] at hxy
          simp only [hxy.1, hxy.2, ↓reduceIte, List.singleton_append, List.map_cons, List.mem_cons]
          rcases List.mem_cons.mp h with h | h
          · exact ⟨Or.inl h, Or.inl h⟩
          · have := ih xs ys h
            exact ⟨Or.inr this.1, Or.inr this.2⟩
        · have := ih xs ys h
          constructor
          · simp only [List.map_append, List.mem_append]; exact Or.inr this.1
          · simp only [List.map_append, List.mem_append]; exact Or.inr this.2

/-- selected members are committee members -/
theorem selected_sub (bm : List Bool) (ms : List Member) (k : KeyId) (h : k ∈ (selected bm ms).map (·.key)) :
    k ∈ ms.map (·.key) := by
  induction ms generalizing bm with
  | nil => simp [selected] at h
  | cons m ms ih =>
    cases bm with
    | nil => simp [selected] at h
    | cons b bm =>
      have hsel : selected (b :: bm) (m :: ms) = (if b then [m] else []) ++ selected bm ms := by
        cases b <;> simp [selected]
      rw [hsel] at h
      simp only [List.map_append, List.mem_append] at h
      simp only [List.map_cons, List.mem_cons]
      rcases h with h | h
      · cases b
        · simp at h
        · simp at h; exact Or.inl h
      · exact Or.inr (ih bm h)

/-- every selected key's individual signature over exactly this payload is inside the aggregate -/
theorem agg_parts (sig : AggSig) (group keys : List KeyId) (p : Payload)
    (h : aggVerifies sig group keys p = true) : ∀ k ∈ keys, (k, p) ∈ sig.parts := by
  intro k hk
  simp only [aggVerifies, Bool.and_eq_true, List.all_eq_true, beq_iff_eq] at h
  have hc := h.2 k hk
  have : 0 < keys.count k := List.count_pos_iff.mpr hk
  exact List.count_pos_iff.mp (by omega)

/-- what a certificate that passes `qcCheck` carries -/
structure ValidQC (env : Env) (q : QC) (ms : List Member) (hd : View) (sig : AggSig) : Prop where
  header : q.header = some hd
  signature : q.signature = some sig
  network : hd.networkId = env.networkId
  chain : hd.chainId = env.chainId
  verifies : aggVerifies sig (ms.map (·.key)) ((selected sig.bitmap ms).map (·.key)) (signPayload q hd) = true
  bitmapLen : sig.bitmap.length = (ms.length + 7) / 8 * 8

theorem sigCheck_ok {q : QC} {hd : View} {ms : List Member} {p : Bool} (h : sigCheck q hd ms = .ok p) :
    ∃ sig, q.signature = some sig ∧
      aggVerifies sig (ms.map (·.key)) ((selected sig.bitmap ms).map (·.key)) (signPayload q hd) = true ∧
      sig.bitmap.length = (ms.length + 7) / 8 * 8 := by
  unfold sigCheck at h
  split at h; · contradiction
  rename_i sig hsig
  repeat (split at h; · contradiction)
  rename_i _ _ hlen hv
  refine ⟨sig, hsig, by simpa using hv, by simpa using hlen⟩

theorem qcCheck_ok {env : Env} {q : QC} {ms : List Member} {p : Bool} (h : qcCheck env q ms = .ok p) :
    ∃ hd sig, ValidQC env q ms hd sig := by
  unfold qcCheck at h
  split at h; · contradiction
  split at h; · contradiction
  rename_i hd hhd
  split at h; · contradiction
  split at h; · contradiction
  rename_i hnet hchain
  have hs : ∃ p, sigCheck q hd ms = .ok p := by
    split at h
    · split at h; · contradiction
      split at h; · contradiction
      exact ⟨p, h⟩
    · exact ⟨p, h⟩
  obtain ⟨p', hs⟩ := hs
  obtain ⟨sig, e1, e2, e3⟩ := sigCheck_ok hs
  refine ⟨hd, sig, ⟨hhd, e1, ?_, ?_, e2, e3⟩⟩
  · simp only [bne_iff_ne, ne_eq, Decidable.not_not] at hnet; exact hnet.symm
  · simp only [bne_iff_ne, ne_eq, Decidable.not_not] at hchain; exact hchain.symm

/-- everything `DoubleSignEvidence.Check` establishes -/
theorem check_none {env : Env} {a b : QC} {ha hb : View} {ms : List Member} {m : UInt64}
    (h : check env a b ha hb ms m = none) :
    ¬ ha.rootHeight < m ∧ a.block = none ∧ b.block = none ∧ a.results = none ∧ b.results = none ∧
    (∃ p, qcCheck env a ms = .ok p) ∧ (∃ p, qcCheck env b ms = .ok p) ∧
    viewEquals (some ha) (some hb) = true ∧ signPayload b hb ≠ signPayload a ha ∧ phasePropose < ha.phase := by
  unfold check at h
  split at h; · contradiction
  rename_i h1
  split at h; · contradiction
  rename_i h2
  split at h; · contradiction
  rename_i h3
  split at h; · contradiction
  rename_i pa hqa
  split at h; · contradiction
  rename_i pb hqb
  split at h; · contradiction
  rename_i h4
  split at h; · contradiction
  rename_i h5
  split at h; · contradiction
  rename_i h6
  simp only [Bool.or_eq_true, Option.isSome_iff_ne_none, ne_eq, not_or, Decidable.not_not] at h2 h3
  refine ⟨h1, h2.1, h2.2, h3.1, h3.2, ⟨pa, hqa⟩, ⟨pb, hqb⟩, by simpa using h4, by simpa using h5, by omega⟩

/-- evidence `x` shows that key `k` double-signed under the committee of root height `h`:
two certificates with EQUAL views, each individually valid against that committee (partial allowed),
over DIFFERENT payloads, both containing `k`'s own signature; in a phase after PROPOSE; not below the
minimum evidence height the controller answered (asked as of the replica's current root height; before
repair c09f5c7, `preFix = true`, as of the evidence's own root height) -/
structure Equivocation (preFix : Bool) (env : Env) (x : Option DSE) (k : KeyId) (h : UInt64) : Prop where
  ex : ∃ a b hd ms sa sb minH,
    x = some ⟨some a, some b⟩ ∧
    ValidQC env a ms hd sa ∧ ValidQC env b ms hd sb ∧
    hd.rootHeight = h ∧ env.committeeAt h = some ms ∧ k ∈ ms.map (·.key) ∧
    signPayload a hd ≠ signPayload b hd ∧
    (k, signPayload a hd) ∈ sa.parts ∧ (k, signPayload b hd) ∈ sb.parts ∧
    phasePropose < hd.phase ∧
    env.minEvidenceAt (if preFix then h else env.rootHeight) = some minH ∧ minH ≤ h

theorem unpack_ok {x : Option DSE} {a b : QC} {ha hb : View} (h : unpack x = .ok (a, b, ha, hb)) :
    x = some ⟨some a, some b⟩ ∧ a.header = some ha ∧ b.header = some hb := by
  unfold unpack at h
  split at h
  · contradiction
  · rename_i a' b'
    split at h
    · rename_i ha' hb' e1 e2
      simp only [Except.ok.injEq, Prod.mk.injEq] at h
      obtain ⟨rfl, rfl, rfl, rfl⟩ := h
      exact ⟨rfl, e1, e2⟩
    · contradiction
  · contradiction

/-- **one piece of evidence**: every key `processOne` returns equivocated -/
theorem processOne_sound {preFix : Bool} {env : Env} {x : Option DSE} {h : UInt64} {ks : List KeyId}
    (hp : processOneWith preFix env x = .ok (h, ks)) : ∀ k ∈ ks, Equivocation preFix env x k h := by
  unfold processOneWith at hp
  split at hp; · contradiction
  rename_i a b ha hb hun
  split at hp; · contradiction
  rename_i hveq
  split at hp; · contradiction
  rename_i ms hms
  split at hp; · contradiction
  rename_i minH hmin
  split at hp; · contradiction
  rename_i hchk
  split at hp; · contradiction
  split at hp
  · rename_i sa sb hsa hsb
    split at hp; · contradiction
    rename_i ks' hds
    simp only [Except.ok.injEq, Prod.mk.injEq] at hp
    obtain ⟨rfl, rfl⟩ := hp
    obtain ⟨hx, hah, hbh⟩ := unpack_ok hun
    obtain ⟨hexp, _, _, _, _, ⟨pa, hqa⟩, ⟨pb, hqb⟩, hve, hne, hph⟩ := check_none hchk
    have hab : ha = hb := viewEquals_eq hve
    subst hab
    obtain ⟨hda, sa', va⟩ := qcCheck_ok hqa
    obtain ⟨hdb, sb', vb⟩ := qcCheck_ok hqb
    have e1 : hda = ha := by have := va.header; rw [hah] at this; cases this; rfl
    have e2 : hdb = ha := by have := vb.header; rw [hbh] at this; cases this; rfl
    have e3 : sa' = sa := by have := va.signature; rw [hsa] at this; cases this; rfl
    have e4 : sb' = sb := by have := vb.signature; rw [hsb] at this; cases this; rfl
    subst e1 e2 e3 e4
    intro k hk
    unfold doubleSigners at hds
    split at hds; · contradiction
    split at hds; · contradiction
    simp only [Except.ok.injEq] at hds
    subst hds
    obtain ⟨ka, kb⟩ := both_sub _ _ _ _ hk
    refine ⟨⟨a, b, _, ms, _, _, minH, hx, va, vb, rfl, hms, selected_sub _ _ _ ka, fun e => hne e.symm,
      agg_parts _ _ _ _ va.verifies k ka, agg_parts _ _ _ _ vb.verifies k kb, hph, hmin, ?_⟩⟩
    rw [UInt64.le_iff_toNat_le]
    rw [UInt64.lt_iff_toNat_lt] at hexp
    omega
  · contradiction

/-! ### the accumulator of `ProcessDSE` -/

theorem addHeight_mem {hs : List UInt64} {h h' : UInt64} (hm : h' ∈ addHeight hs h) : h' ∈ hs ∨ h' = h := by
  unfold addHeight at hm
  split at hm
  · exact Or.inl hm
  · simpa using hm

theorem addHeight_ne_nil (hs : List UInt64) (h : UInt64) (hne : hs ≠ []) : addHeight hs h ≠ [] := by
  unfold addHeight
  split
  · exact hne
  · simp

/-- an entry of `addSigner acc k h` is an old entry (same id, possibly one more height `h` when the id is `k`) or the new one -/
theorem addSigner_mem {acc : List DS} {k : KeyId} {h : UInt64} {d : DS} (hd : d ∈ addSigner acc k h) :
    (d.heights ≠ [] ∨ ∃ d0 ∈ acc, d0.heights = []) ∧
    ∀ h' ∈ d.heights, (∃ d0 ∈ acc, d0.id = d.id ∧ h' ∈ d0.heights) ∨ (d.id = k ∧ h' = h) := by
  induction acc with
  | nil =>
    simp only [addSigner, List.mem_singleton] at hd
    subst hd
    refine ⟨Or.inl (by simp), ?_⟩
    intro h' hh'
    simp only [List.mem_singleton] at hh'
    exact Or.inr ⟨rfl, hh'⟩
  | cons e acc ih =>
    simp only [addSigner] at hd
    split at hd
    · rename_i hek
      simp only [beq_iff_eq] at hek
      rcases List.mem_cons.mp hd with rfl | hd
      · constructor
        · by_cases he : e.heights = []
          · exact Or.inr ⟨e, List.mem_cons_self, he⟩
          · exact Or.inl (addHeight_ne_nil _ _ he)
        · intro h' hh'
          rcases addHeight_mem hh' with hh' | hh'
          · exact Or.inl ⟨e, List.mem_cons_self, rfl, hh'⟩
          · exact Or.inr ⟨hek, hh'⟩
      · constructor
        · by_cases he : d.heights = []
          · exact Or.inr ⟨d, List.mem_cons_of_mem _ hd, he⟩
          · exact Or.inl he
        · intro h' hh'
          exact Or.inl ⟨d, List.mem_cons_of_mem _ hd, rfl, hh'⟩
    · rcases List.mem_cons.mp hd with rfl | hd
      · constructor
        · by_cases he : d.heights = []
          · exact Or.inr ⟨d, List.mem_cons_self, he⟩
          · exact Or.inl he
        · intro h' hh'
          exact Or.inl ⟨d, List.mem_cons_self, rfl, hh'⟩
      · obtain ⟨i1, i2⟩ := ih hd
        constructor
        · rcases i1 with i1 | ⟨d0, hd0, e0⟩
          · exact Or.inl i1
          · exact Or.inr ⟨d0, List.mem_cons_of_mem _ hd0, e0⟩
        · intro h' hh'
          rcases i2 h' hh' with ⟨d0, hd0, e0⟩ | r
          · exact Or.inl ⟨d0, List.mem_cons_of_mem _ hd0, e0⟩
          · exact Or.inr r

/-- the invariant of the accumulator: every entry has a height, and every (id, height) in it is backed
by a piece of evidence of the list -/
def Backed (preFix : Bool) (env : Env) (be : List (Option DSE)) (acc : List DS) : Prop :=
  ∀ d ∈ acc, d.heights ≠ [] ∧ ∀ h ∈ d.heights, env.alreadySlashed d.id h = false ∧ ∃ x ∈ be, Equivocation preFix env x d.id h

theorem addSigners_backed {preFix : Bool} {env : Env} {be : List (Option DSE)} {x : Option DSE} (hx : x ∈ be) {h : UInt64}
    (ks : List KeyId) (hks : ∀ k ∈ ks, Equivocation preFix env x k h) (acc : List DS) (hacc : Backed preFix env be acc) :
    Backed preFix env be (addSigners env h ks acc) := by
  induction ks generalizing acc with
  | nil => exact hacc
  | cons k ks ih =>
    simp only [addSigners]
    apply ih (fun k' hk' => hks k' (List.mem_cons_of_mem _ hk'))
    split
    · exact hacc
    · rename_i hns
      intro d hd
      obtain ⟨i1, i2⟩ := addSigner_mem hd
      constructor
      · rcases i1 with i1 | ⟨d0, hd0, e0⟩
        · exact i1
        · exact absurd e0 (hacc d0 hd0).1
      · intro h' hh'
        rcases i2 h' hh' with ⟨d0, hd0, e0, hh0⟩ | ⟨e1, e2⟩
        · rw [← e0]; exact (hacc d0 hd0).2 h' hh0
        · rw [e1, e2]; exact ⟨by simpa using hns, x, hx, hks k List.mem_cons_self⟩

theorem processDSEFrom_backed {preFix : Bool} {env : Env} {be : List (Option DSE)} (xs : List (Option DSE)) (hsub : ∀ x ∈ xs, x ∈ be)
    (acc : List DS) (hacc : Backed preFix env be acc) {res : List DS} (h : processDSEFrom preFix env xs acc = .ok res) :
    Backed preFix env be res := by
  induction xs generalizing acc with
  | nil => simp only [processDSEFrom, Except.ok.injEq] at h; subst h; exact hacc
  | cons x xs ih =>
    simp only [processDSEFrom] at h
    split at h; · contradiction
    rename_i hh ks hone
    exact ih (fun y hy => hsub y (List.mem_cons_of_mem _ hy)) _
      (addSigners_backed (hsub x List.mem_cons_self) ks (processOne_sound hone) acc hacc) h

/-- **ProcessDSE**: every (id, height) it returns is backed by an equivocation proved by one of its inputs -/
theorem processDSE_backed {preFix : Bool} {env : Env} {be : List (Option DSE)} {res : List DS}
    (h : processDSEWith preFix env be = .ok res) : Backed preFix env be res :=
  processDSEFrom_backed be (fun _ hx => hx) [] (fun _ hd => by simp at hd) h

/-- any failing element makes the whole call fail -/
theorem processDSEFrom_error {preFix : Bool} {env : Env} (xs : List (Option DSE)) (acc : List DS) {x : Option DSE} (hx : x ∈ xs)
    {e : String} (he : processOneWith preFix env x = .error e) : ∃ e', processDSEFrom preFix env xs acc = .error e' := by
  induction xs generalizing acc with
  | nil => simp at hx
  | cons y ys ih =>
    simp only [processDSEFrom]
    rcases List.mem_cons.mp hx with rfl | hx
    · rw [he]; exact ⟨e, rfl⟩
    · split
      · rename_i e' _; exact ⟨e', rfl⟩
      · exact ih _ hx

/-- **AddDSE**: evidence is only added to a pool when it proves somebody's equivocation -/
theorem addDSE_sound {preFix : Bool} {env : Env} {dup : Bool} {x : Option DSE} (h : addDSEWith preFix env dup x = .added) :
    ∃ k hh, Equivocation preFix env (x.map strip) k hh := by
  unfold addDSEWith at h
  split at h; · contradiction
  split at h; · contradiction
  rename_i bad hbad
  split at h; · contradiction
  rename_i hlen
  cases bad with
  | nil => simp at hlen
  | cons d _ =>
    obtain ⟨hne, hb⟩ := processDSE_backed hbad d List.mem_cons_self
    cases hh : d.heights with
    | nil => exact absurd hh hne
    | cons h0 _ =>
      obtain ⟨_, y, hy, hex⟩ := hb h0 (by rw [hh]; exact List.mem_cons_self)
      simp only [List.mem_singleton] at hy
      subst hy
      exact ⟨d.id, h0, hex⟩

theorem validateList_justified {localDS : List DS} {l : List (Option DS)} (h : validateList localDS l = none) :
    ∀ ds, some ds ∈ l → justified localDS ds = true := by
  induction l with
  | nil => intro ds hds; simp at hds
  | cons o l ih =>
    cases o with
    | none => simp [validateList] at h
    | some d =>
      simp only [validateList] at h
      split at h; · contradiction
      rename_i hj
      intro ds hds
      rcases List.mem_cons.mp hds with e | hds
      · cases e; simpa using hj
      · exact ih h ds hds

theorem justified_spec {localDS : List DS} {ds : DS} (h : justified localDS ds = true) :
    ∃ s ∈ localDS, s.id = ds.id ∧ ∀ h ∈ ds.heights, h ∈ s.heights := by
  simp only [justified, List.any_eq_true, Bool.and_eq_true, beq_iff_eq, List.all_eq_true, List.contains_iff_mem] at h
  obtain ⟨s, hs, e, hh⟩ := h
  exact ⟨s, hs, e, hh⟩

/-- **ValidateByzantineEvidence**: every listed validator, and every height it is listed for, is backed by an
equivocation proved by the attached evidence -/
theorem validate_sound {preFix : Bool} {env : Env} {slash : List (Option DS)} {be : List (Option DSE)}
    (hacc : validateByzantineEvidenceWith preFix env (some slash) be = none) {ds : DS} (hds : some ds ∈ slash) :
    (∃ x ∈ be, ∃ h, Equivocation preFix env x ds.id h) ∧
    (∀ h ∈ ds.heights, ∃ x ∈ be, Equivocation preFix env x ds.id h) := by
  unfold validateByzantineEvidenceWith at hacc
  simp only at hacc
  split at hacc
  · rename_i hlen
    have : slash = [] := List.eq_nil_of_length_eq_zero (by simpa using hlen)
    rw [this] at hds; simp at hds
  · split at hacc; · contradiction
    rename_i localDS hproc
    have hb := processDSE_backed hproc
    obtain ⟨s, hs, hid, hh⟩ := justified_spec (validateList_justified hacc ds hds)
    obtain ⟨hne, hback⟩ := hb s hs
    constructor
    · cases hsh : s.heights with
      | nil => exact absurd hsh hne
      | cons h0 _ =>
        obtain ⟨_, x, hx, hex⟩ := hback h0 (by rw [hsh]; exact List.mem_cons_self)
        exact ⟨x, hx, h0, hid ▸ hex⟩
    · intro h hmem
      obtain ⟨_, x, hx, hex⟩ := hback h (hh h hmem)
      exact ⟨x, hx, hid ▸ hex⟩

end Canopy.Evidence
