import Canopy.Model.Mux
/-!
Helper lemmas for C18: the association map, `split`, the single-topic assembly function and the
connection invariant. Core Lean only.
-/
namespace Canopy.Mux
open Canopy

@[simp] theorem TMap.get_set_self {α} (m : TMap α) (t : Nat) (v : List α) : (m.set t v).get t = v := by
  induction m with
  | nil => simp [TMap.set, TMap.get]
  | cons kv rest ih =>
    obtain ⟨k, w⟩ := kv
    simp only [TMap.set]
    split
    · rename_i h; simp [TMap.get, h]
    · rename_i h; simp [TMap.get, h, ih]

theorem TMap.get_set_ne {α} (m : TMap α) (t t' : Nat) (v : List α) (h : t' ≠ t) : (m.set t v).get t' = m.get t' := by
  induction m with
  | nil => simp [TMap.set, TMap.get, Ne.symm h]
  | cons kv rest ih =>
    obtain ⟨k, w⟩ := kv
    simp only [TMap.set]
    split
    · rename_i hk; subst hk; simp [TMap.get, Ne.symm h]
    · simp only [TMap.get, ih]

@[simp] theorem TMap.get_nil {α} (t : Nat) : TMap.get ([] : TMap α) t = [] := rfl

/-! ### split -/

theorem splitLoop_flatten (lim : Nat) (hl : 0 < lim) (fuel : Nat) (buf : Bytes) (hf : buf.length < fuel) :
    (splitLoop lim fuel buf).flatten = buf := by
  induction fuel generalizing buf with
  | zero => omega
  | succ fuel ih =>
    simp only [splitLoop]
    split
    · rename_i h
      simp only [List.flatten_cons]
      rw [ih (buf.drop lim) (by simp only [List.length_drop]; omega), List.take_append_drop]
    · split
      · simp
      · rename_i h1 h2
        have : buf.length = 0 := by omega
        simp [List.eq_nil_of_length_eq_zero this]

theorem splitLoop_bound (lim : Nat) (hl : 0 < lim) (fuel : Nat) (buf : Bytes) :
    ∀ c ∈ splitLoop lim fuel buf, 0 < c.length ∧ c.length ≤ lim := by
  induction fuel generalizing buf with
  | zero => simp [splitLoop]
  | succ fuel ih =>
    simp only [splitLoop]
    split
    · rename_i h
      intro c hc
      simp only [List.mem_cons] at hc
      rcases hc with rfl | hc
      · simp only [List.length_take]; omega
      · exact ih _ c hc
    · split
      · intro c hc; simp only [List.mem_singleton] at hc; subst hc; omega
      · simp

theorem split_flatten (buf : Bytes) (lim : Nat) (hl : 0 < lim) : (split buf lim).flatten = buf := by
  unfold split
  split
  · rename_i h; simp [List.eq_nil_of_length_eq_zero h]
  · exact splitLoop_flatten lim hl _ buf (by omega)

theorem split_ne_nil (buf : Bytes) (lim : Nat) : split buf lim ≠ [] := by
  unfold split
  split
  · simp
  · rename_i h
    simp only [splitLoop]
    split
    · simp
    · split
      · simp
      · omega

/-- chunk sizes: every packet carries between 1 and `lim` bytes, except the single empty packet of the empty message -/
theorem split_bound (buf : Bytes) (lim : Nat) (hl : 0 < lim) : ∀ c ∈ split buf lim, c.length ≤ lim := by
  unfold split
  split
  · rename_i h; intro c hc; simp only [List.mem_singleton] at hc; subst hc; omega
  · intro c hc; exact (splitLoop_bound lim hl _ buf c hc).2
/-- what the receiver completes from the `pending` packets of ONE topic, starting with assembler
`asm`; `none` = the cap is hit, or a partial message is left dangling at the end -/
def assembleOk (L : Limits) : Bytes → List Packet → Option (List Bytes)
  | asm, [] => if asm = [] then some [] else none
  | asm, p :: ps =>
    if L.maxMsg < asm.length + p.bytes.length then none
    else if p.eof then (assembleOk L [] ps).map ((asm ++ p.bytes) :: ·)
    else assembleOk L (asm ++ p.bytes) ps

theorem assembleOk_markEof (L : Limits) (t : Nat) (cs : List Bytes) (hne : cs ≠ []) (asm : Bytes)
    (hlen : asm.length + cs.flatten.length ≤ L.maxMsg) :
    assembleOk L asm (markEof t cs) = some [asm ++ cs.flatten] := by
  induction cs generalizing asm with
  | nil => exact absurd rfl hne
  | cons c cs ih =>
    cases cs with
    | nil =>
      simp only [List.flatten_cons, List.flatten_nil, List.append_nil, List.length_append] at hlen ⊢
      simp [markEof, assembleOk, show ¬ L.maxMsg < asm.length + c.length from by omega]
    | cons c' cs' =>
      simp only [List.flatten_cons, List.length_append] at hlen
      have := ih (by simp) (asm ++ c) (by simp only [List.length_append, List.flatten_cons]; omega)
      simp only [markEof, assembleOk, show ¬ L.maxMsg < asm.length + c.length from by omega, if_false]
      simpa [List.append_assoc] using this

theorem assembleOk_packetsOf (L : Limits) (t : Nat) (m : Bytes) (h : m.length ≤ L.maxMsg) :
    assembleOk L [] (packetsOf L t m) = some [m] := by
  have := assembleOk_markEof L t (split m L.chunk) (split_ne_nil m L.chunk) [] (by
    rw [split_flatten m L.chunk L.chunk_pos]; simpa using h)
  simpa [packetsOf, split_flatten m L.chunk L.chunk_pos] using this

theorem assembleOk_append (L : Limits) (xs ys : List Packet) (asm : Bytes) (t1 : List Bytes)
    (h : assembleOk L asm xs = some t1) :
    assembleOk L asm (xs ++ ys) = (assembleOk L [] ys).map (t1 ++ ·) := by
  induction xs generalizing asm t1 with
  | nil =>
    simp only [assembleOk] at h
    split at h
    · rename_i ha; cases h; subst ha; simp
    · cases h
  | cons p ps ih =>
    simp only [assembleOk, List.cons_append] at h ⊢
    split
    · rename_i ho; simp [ho] at h
    · rename_i ho
      simp only [ho, if_false] at h
      split
      · rename_i he
        simp only [he, if_true] at h
        cases h2 : assembleOk L [] ps with
        | none => simp [h2] at h
        | some t2 =>
          simp only [h2, Option.map_some, Option.some.injEq] at h
          subst h
          rw [ih [] t2 h2]
          cases assembleOk L [] ys <;> simp
      · rename_i he
        simp only [he] at h
        exact ih _ _ h

theorem packetsOf_topic (L : Limits) (t : Nat) (m : Bytes) : ∀ p ∈ packetsOf L t m, p.topic = t := by
  unfold packetsOf
  generalize split m L.chunk = cs
  induction cs with
  | nil => simp [markEof]
  | cons c cs ih =>
    cases cs with
    | nil => simp [markEof]
    | cons c' cs' =>
      intro p hp
      simp only [markEof, List.mem_cons] at hp
      rcases hp with rfl | hp
      · rfl
      · exact ih p (by simpa [markEof] using hp)
/-- packets of topic `t` the receiver has not been handed yet: on the wire, then in the send queue -/
def pending (c : Conn) (t : Nat) : List Packet := ofTopic t (c.s.wire.drop c.rcvd) ++ c.s.queues.get t

/-- per-topic clause of the connection invariant; `sent` = messages sent on this topic so far -/
def TInv (L : Limits) (c : Conn) (t : Nat) (sent : List Bytes) : Prop :=
  ∃ done todo, assembleOk L (c.r.asm.get t) (pending c t) = some todo ∧ sent = done ++ todo ∧
    (c.r.log.get t).Sublist done ∧ (c.r.inbox.get t).length ≤ (c.r.log.get t).length ∧
    (t < L.inboxTopics → sent.length ≤ L.inboxCap → c.r.log.get t = done)

structure CInv (L : Limits) (c : Conn) (sent : Nat → List Bytes) : Prop where
  alive : c.s.dead = false
  rcvd_le : c.rcvd ≤ c.s.wire.length
  open_ : c.r.closed = none
  qtopic : ∀ t, ∀ p ∈ c.s.queues.get t, p.topic = t
  qvalid : ∀ t, c.s.queues.get t ≠ [] → t ≠ L.heartbeat ∧ t < L.invalid
  wvalid : ∀ p ∈ c.s.wire, p.topic ≠ L.heartbeat ∧ p.topic < L.invalid
  topic : ∀ t, TInv L c t (sent t)

theorem ofTopic_append (t : Nat) (xs ys : List Packet) : ofTopic t (xs ++ ys) = ofTopic t xs ++ ofTopic t ys := by
  simp [ofTopic]

theorem ofTopic_cons_self (t : Nat) (p : Packet) (ps : List Packet) (h : p.topic = t) :
    ofTopic t (p :: ps) = p :: ofTopic t ps := by simp [ofTopic, h]

theorem ofTopic_cons_ne (t : Nat) (p : Packet) (ps : List Packet) (h : p.topic ≠ t) :
    ofTopic t (p :: ps) = ofTopic t ps := by simp [ofTopic, h]

theorem CInv.init (L : Limits) : CInv L Conn.init (fun _ => []) where
  alive := rfl
  rcvd_le := Nat.le_refl _
  open_ := rfl
  qtopic := by simp [Conn.init, Sender.init]
  qvalid := by simp [Conn.init, Sender.init]
  wvalid := by simp [Conn.init, Sender.init]
  topic := fun t => ⟨[], [], by simp [pending, Conn.init, Sender.init, Receiver.init, ofTopic, assembleOk], rfl,
    by simp [Conn.init, Receiver.init], by simp [Conn.init, Receiver.init], fun _ _ => by simp [Conn.init, Receiver.init]⟩

theorem CInv.send {L c sent} (h : CInv L c sent) (t0 : Nat) (m : Bytes)
    (hv : t0 ≠ L.heartbeat ∧ t0 < L.invalid ∧ m.length ≤ L.maxMsg) :
    CInv L (c.step L (.send t0 m)) (fun t => if t = t0 then sent t ++ [m] else sent t) where
  alive := by simp [Conn.step, Sender.send, h.alive]
  rcvd_le := by simpa [Conn.step, Sender.send, h.alive] using h.rcvd_le
  open_ := h.open_
  qtopic := by
    intro t p hp
    simp only [Conn.step, Sender.send, h.alive, Bool.false_eq_true, if_false] at hp
    by_cases ht : t = t0
    · subst ht
      rw [TMap.get_set_self, List.mem_append] at hp
      rcases hp with hp | hp
      · exact h.qtopic t p hp
      · exact packetsOf_topic L t m p hp
    · rw [TMap.get_set_ne _ _ _ _ ht] at hp; exact h.qtopic t p hp
  qvalid := by
    intro t hne
    simp only [Conn.step, Sender.send, h.alive, Bool.false_eq_true, if_false] at hne
    by_cases ht : t = t0
    · subst ht; exact ⟨hv.1, hv.2.1⟩
    · rw [TMap.get_set_ne _ _ _ _ ht] at hne; exact h.qvalid t hne
  wvalid := by simpa [Conn.step, Sender.send, h.alive] using h.wvalid
  topic := by
    intro t
    obtain ⟨done, todo, ha, hs, hl, hi, he⟩ := h.topic t
    by_cases ht : t = t0
    · subst ht
      refine ⟨done, todo ++ [m], ?_, by simp [hs, List.append_assoc], hl, hi, ?_⟩
      · simp only [pending, Conn.step, Sender.send, h.alive, Bool.false_eq_true, if_false, TMap.get_set_self, ← List.append_assoc]
        have := assembleOk_append L (ofTopic t (c.s.wire.drop c.rcvd) ++ c.s.queues.get t) (packetsOf L t m) _ todo ha
        rw [this, assembleOk_packetsOf L t m hv.2.2]; rfl
      · intro h1 h2
        simp only [if_true, List.length_append, List.length_cons, List.length_nil] at h2
        exact he h1 (by omega)
    · refine ⟨done, todo, ?_, by simp [ht, hs], hl, hi, ?_⟩
      · simpa [pending, Conn.step, Sender.send, h.alive, TMap.get_set_ne _ _ _ _ ht] using ha
      · simpa [ht, Conn.step] using he

theorem CInv.pick {L c sent} (h : CInv L c sent) (t0 : Nat) : CInv L (c.step L (.pick t0)) sent := by
  simp only [Conn.step, Sender.pick, h.alive, Bool.false_eq_true, if_false]
  cases hq : c.s.queues.get t0 with
  | nil => exact h
  | cons p rest =>
    have hpt : p.topic = t0 := h.qtopic t0 p (by simp [hq])
    have hval := h.qvalid t0 (by simp [hq])
    show CInv L ⟨⟨c.s.queues.set t0 rest, c.s.wire ++ [p], false⟩, c.r, c.rcvd⟩ sent
    refine ⟨rfl, by simp only [List.length_append, List.length_cons, List.length_nil]; have := h.rcvd_le; omega, h.open_, ?_, ?_, ?_, ?_⟩
    · intro t q hq'
      by_cases ht : t = t0
      · subst ht
        simp only [TMap.get_set_self] at hq'
        exact h.qtopic t q (by simp [hq, hq'])
      · simp only [TMap.get_set_ne _ _ _ _ ht] at hq'; exact h.qtopic t q hq'
    · intro t hne
      by_cases ht : t = t0
      · subst ht; exact hval
      · simp only [TMap.get_set_ne _ _ _ _ ht] at hne; exact h.qvalid t hne
    · intro q hq'
      simp only [List.mem_append, List.mem_singleton] at hq'
      rcases hq' with hq' | rfl
      · exact h.wvalid q hq'
      · rw [hpt]; exact hval
    · intro t
      obtain ⟨done, todo, ha, hs, hl, hi, he⟩ := h.topic t
      refine ⟨done, todo, ?_, hs, hl, hi, he⟩
      have hd : (c.s.wire ++ [p]).drop c.rcvd = c.s.wire.drop c.rcvd ++ [p] := List.drop_append_of_le_length h.rcvd_le
      simp only [pending, hd, ofTopic_append] at ha ⊢
      by_cases ht : t = t0
      · subst ht
        have hf : ofTopic t [p] = [p] := by simp [ofTopic, hpt]
        rw [hf, TMap.get_set_self, List.append_assoc, List.singleton_append]
        rwa [hq] at ha
      · have hf : ofTopic t [p] = [] := by
          have : p.topic ≠ t := by rw [hpt]; exact Ne.symm ht
          simp [ofTopic, this]
        rw [hf, TMap.get_set_ne _ _ _ _ ht, List.append_nil]
        exact ha

theorem CInv.drain {L c sent} (h : CInv L c sent) (t0 : Nat) : CInv L (c.step L (.drain t0)) sent := by
  refine ⟨h.alive, h.rcvd_le, h.open_, h.qtopic, h.qvalid, h.wvalid, ?_⟩
  intro t
  obtain ⟨done, todo, ha, hs, hl, hi, he⟩ := h.topic t
  refine ⟨done, todo, ha, hs, hl, ?_, he⟩
  simp only [Conn.step, Receiver.drain]
  by_cases ht : t = t0
  · subst ht; simp
  · rw [TMap.get_set_ne _ _ _ _ ht]; exact hi
theorem CInv.deliver {L c sent} (h : CInv L c sent) : CInv L (c.step L .deliver) sent := by
  simp only [Conn.step]
  cases hw : c.s.wire[c.rcvd]? with
  | none => exact h
  | some p =>
    show CInv L ⟨c.s, c.r.handle L p, c.rcvd + 1⟩ sent
    have hlt : c.rcvd < c.s.wire.length := by
      rcases Nat.lt_or_ge c.rcvd c.s.wire.length with h1 | h1
      · exact h1
      · rw [List.getElem?_eq_none h1] at hw; cases hw
    have hp : c.s.wire[c.rcvd] = p := by
      have := List.getElem?_eq_getElem hlt; rw [this] at hw; exact Option.some.inj hw
    have hdrop : c.s.wire.drop c.rcvd = p :: c.s.wire.drop (c.rcvd + 1) := by
      rw [List.drop_eq_getElem_cons hlt, hp]
    have hval := h.wvalid p (hp ▸ List.getElem_mem hlt)
    -- the clause of p's own topic tells us the packet fits
    obtain ⟨done, todo, ha, hs, hl, hi, he⟩ := h.topic p.topic
    have hpend : pending c p.topic = p :: (ofTopic p.topic (c.s.wire.drop (c.rcvd + 1)) ++ c.s.queues.get p.topic) := by
      simp only [pending, hdrop, ofTopic_cons_self _ _ _ rfl, List.cons_append]
    rw [hpend] at ha
    simp only [assembleOk] at ha
    have hfit : ¬ L.maxMsg < (c.r.asm.get p.topic).length + p.bytes.length := by
      intro hc; simp [hc] at ha
    simp only [hfit, if_false] at ha
    -- other topics are untouched
    have hother : ∀ t, t ≠ p.topic → ∀ r' : Receiver,
        r'.asm.get t = c.r.asm.get t → r'.log.get t = c.r.log.get t → r'.inbox.get t = c.r.inbox.get t →
        TInv L ⟨c.s, r', c.rcvd + 1⟩ t (sent t) := by
      intro t ht r' h1 h2 h3
      obtain ⟨done', todo', ha', hs', hl', hi', he'⟩ := h.topic t
      refine ⟨done', todo', ?_, hs', by rw [h2]; exact hl', by rw [h2, h3]; exact hi', by rw [h2]; exact he'⟩
      simp only [pending, hdrop, ofTopic_cons_ne _ _ _ (Ne.symm ht)] at ha'
      simpa [pending, h1] using ha'
    have hhandle : c.r.handle L p =
        (if p.eof then
          (if p.topic < L.inboxTopics ∧ (c.r.inbox.get p.topic).length < L.inboxCap then
            { c.r with asm := c.r.asm.set p.topic [],
                       inbox := c.r.inbox.set p.topic (c.r.inbox.get p.topic ++ [c.r.asm.get p.topic ++ p.bytes]),
                       log := c.r.log.set p.topic (c.r.log.get p.topic ++ [c.r.asm.get p.topic ++ p.bytes]) }
          else { c.r with asm := c.r.asm.set p.topic [] })
        else { c.r with asm := c.r.asm.set p.topic (c.r.asm.get p.topic ++ p.bytes) }) := by
      simp only [Receiver.handle, h.open_, Option.isSome_none, Bool.false_eq_true, if_false, hval.1,
        show ¬ p.topic ≥ L.invalid from by have := hval.2; omega, hfit]
    have hbase : c.rcvd + 1 ≤ c.s.wire.length := hlt
    by_cases heof : p.eof = true
    · -- the message completes
      simp only [heof, if_true] at ha hhandle
      cases h2 : assembleOk L [] (ofTopic p.topic (c.s.wire.drop (c.rcvd + 1)) ++ c.s.queues.get p.topic) with
      | none => simp [h2] at ha
      | some todo' =>
        simp only [h2, Option.map_some, Option.some.injEq] at ha
        subst ha
        by_cases hroom : p.topic < L.inboxTopics ∧ (c.r.inbox.get p.topic).length < L.inboxCap
        · simp only [hroom, and_self, if_true] at hhandle
          rw [hhandle]
          refine ⟨h.alive, hbase, h.open_, h.qtopic, h.qvalid, h.wvalid, ?_⟩
          intro t
          by_cases ht : t = p.topic
          · subst ht
            refine ⟨done ++ [c.r.asm.get p.topic ++ p.bytes], todo', ?_, by simp [hs, List.append_assoc], ?_, ?_, ?_⟩
            · simpa [pending] using h2
            · simp only [TMap.get_set_self]; exact List.Sublist.append hl (List.Sublist.refl _)
            · simp only [TMap.get_set_self, List.length_append, List.length_cons, List.length_nil]; omega
            · intro h1 h3
              simp only [TMap.get_set_self]
              rw [he h1 h3]
          · exact hother t ht _ (TMap.get_set_ne _ _ _ _ ht) (TMap.get_set_ne _ _ _ _ ht) (TMap.get_set_ne _ _ _ _ ht)
        · simp only [hroom, if_false] at hhandle
          rw [hhandle]
          refine ⟨h.alive, hbase, h.open_, h.qtopic, h.qvalid, h.wvalid, ?_⟩
          intro t
          by_cases ht : t = p.topic
          · subst ht
            refine ⟨done ++ [c.r.asm.get p.topic ++ p.bytes], todo', ?_, by simp [hs, List.append_assoc], ?_, hi, ?_⟩
            · simpa [pending] using h2
            · exact List.Sublist.trans hl (List.sublist_append_left _ _)
            · intro h1 h3
              -- with room guaranteed by the cap hypothesis this branch is impossible
              exfalso
              apply hroom
              refine ⟨h1, ?_⟩
              have hd := he h1 h3
              have : (c.r.log.get p.topic).length = done.length := by rw [hd]
              have : (sent p.topic).length = done.length + (todo'.length + 1) := by
                rw [hs]; simp
              omega
          · exact hother t ht _ (TMap.get_set_ne _ _ _ _ ht) rfl rfl
    · -- a middle packet
      simp only [heof, Bool.false_eq_true, if_false] at ha hhandle
      rw [hhandle]
      refine ⟨h.alive, hbase, h.open_, h.qtopic, h.qvalid, h.wvalid, ?_⟩
      intro t
      by_cases ht : t = p.topic
      · subst ht
        exact ⟨done, todo, by simpa [pending] using ha, hs, hl, hi, he⟩
      · exact hother t ht _ (TMap.get_set_ne _ _ _ _ ht) rfl rfl
theorem run_inv (L : Limits) (ops : List MuxOp) (hA : EnqueueAtomic ops) (hV : SendsValid L ops)
    {c : Conn} {sent : Nat → List Bytes} (h : CInv L c sent) :
    CInv L (Conn.run L c ops) (fun t => sent t ++ sentOn t ops) := by
  induction ops generalizing c sent with
  | nil => simpa [Conn.run, sentOn] using h
  | cons op ops ih =>
    have hA' : EnqueueAtomic ops := fun o ho => hA o (List.mem_cons_of_mem _ ho)
    have hV' : SendsValid L ops := fun o ho => hV o (List.mem_cons_of_mem _ ho)
    simp only [Conn.run]
    cases op with
    | send t0 m =>
      have hv0 := hV (.send t0 m) (List.mem_cons_self ..)
      have hv : t0 ≠ L.heartbeat ∧ t0 < L.invalid ∧ m.length ≤ L.maxMsg := by
        simpa [MuxOp.valid, and_assoc] using hv0
      have := ih hA' hV' (h.send t0 m hv)
      have heq : (fun t => (if t = t0 then sent t ++ [m] else sent t) ++ sentOn t ops) =
          (fun t => sent t ++ sentOn t (MuxOp.send t0 m :: ops)) := by
        funext t
        by_cases ht : t = t0
        · subst ht; simp [sentOn]
        · simp [sentOn, ht, Ne.symm ht]
      rw [← heq]; exact this
    | sendPartial t0 m k => exact absurd (hA _ (List.mem_cons_self ..)) (by simp [MuxOp.atomic])
    | pick t0 => simpa [sentOn] using ih hA' hV' (h.pick t0)
    | deliver => simpa [sentOn] using ih hA' hV' h.deliver
    | drain t0 => simpa [sentOn] using ih hA' hV' (h.drain t0)

theorem assembleOk_nil_inv (L : Limits) (asm : Bytes) (todo : List Bytes) (h : assembleOk L asm [] = some todo) :
    asm = [] ∧ todo = [] := by
  simp only [assembleOk] at h
  split at h
  · rename_i ha; cases h; exact ⟨ha, rfl⟩
  · cases h

/-! ### over-limit -/

theorem handle_closed (L : Limits) (r : Receiver) (p : Packet) (h : r.closed.isSome) : r.handle L p = r := by
  simp [Receiver.handle, h]

theorem run_closed (L : Limits) (r : Receiver) (ps : List Packet) (h : r.closed.isSome) : r.run L ps = r := by
  induction ps with
  | nil => rfl
  | cons p ps ih => simp only [Receiver.run, handle_closed L r p h, ih]

/-- a message whose chunks overflow the cap closes the connection before its EOF packet is accepted -/
theorem run_overflow (L : Limits) (t : Nat) (ht : t ≠ L.heartbeat ∧ t < L.invalid) (cs : List Bytes) (hne : cs ≠ [])
    (r : Receiver) (ho : r.closed = none) (hlen : L.maxMsg < (r.asm.get t).length + cs.flatten.length) :
    (r.run L (markEof t cs)).closed = some .maxMessageSize ∧ (r.run L (markEof t cs)).log = r.log ∧
      (r.run L (markEof t cs)).inbox = r.inbox := by
  induction cs generalizing r with
  | nil => exact absurd rfl hne
  | cons c cs ih =>
    have hnv : ¬ t ≥ L.invalid := by omega
    by_cases hfit : L.maxMsg < (r.asm.get t).length + c.length
    · -- this packet overflows
      have hh : ∀ e, r.handle L ⟨t, e, c⟩ = { r with asm := r.asm.set t [], closed := some .maxMessageSize } := by
        intro e; simp [Receiver.handle, ho, ht.1, hnv, hfit]
      cases cs with
      | nil => simp [markEof, Receiver.run, hh]
      | cons c' cs' =>
        simp only [markEof, Receiver.run, hh]
        rw [run_closed L _ _ (by simp)]
        simp
    · cases cs with
      | nil =>
        simp only [List.flatten_cons, List.flatten_nil, List.append_nil] at hlen
        exact absurd hlen hfit
      | cons c' cs' =>
        have hh : r.handle L ⟨t, false, c⟩ = { r with asm := r.asm.set t (r.asm.get t ++ c) } := by
          simp [Receiver.handle, ho, ht.1, hnv, hfit]
        simp only [markEof, Receiver.run, hh]
        have := ih (by simp) { r with asm := r.asm.set t (r.asm.get t ++ c) } ho (by
          simp only [TMap.get_set_self, List.length_append]
          simp only [List.flatten_cons, List.length_append] at hlen ⊢
          omega)
        simpa [markEof] using this
/-- the operations that still have an effect once this side has stopped: the network delivering what
is already on the wire, and the consumer -/
def recvOnly : List MuxOp → List MuxOp
  | [] => []
  | .deliver :: ops => .deliver :: recvOnly ops
  | .drain t :: ops => .drain t :: recvOnly ops
  | _ :: ops => recvOnly ops

theorem run_append (L : Limits) (c : Conn) (xs ys : List MuxOp) :
    Conn.run L c (xs ++ ys) = Conn.run L (Conn.run L c xs) ys := by
  induction xs generalizing c with
  | nil => rfl
  | cons x xs ih => simp only [List.cons_append, Conn.run, ih]

theorem sentOn_append (t : Nat) (xs ys : List MuxOp) : sentOn t (xs ++ ys) = sentOn t xs ++ sentOn t ys := by
  induction xs with
  | nil => rfl
  | cons x xs ih =>
    cases x <;> simp only [List.cons_append, sentOn, ih]
    split <;> simp

theorem sentOn_recvOnly (t : Nat) (ops : List MuxOp) : sentOn t (recvOnly ops) = [] := by
  induction ops with
  | nil => rfl
  | cons x xs ih => cases x <;> simp [recvOnly, sentOn, ih]

theorem recvOnly_atomic (ops : List MuxOp) : EnqueueAtomic (recvOnly ops) := by
  induction ops with
  | nil => intro o ho; cases ho
  | cons x xs ih =>
    cases x <;> simp only [recvOnly] <;> try exact ih
    all_goals
      intro o ho
      simp only [List.mem_cons] at ho
      rcases ho with rfl | ho
      · rfl
      · exact ih o ho

theorem recvOnly_valid (L : Limits) (ops : List MuxOp) : SendsValid L (recvOnly ops) := by
  induction ops with
  | nil => intro o ho; cases ho
  | cons x xs ih =>
    cases x <;> simp only [recvOnly] <;> try exact ih
    all_goals
      intro o ho
      simp only [List.mem_cons] at ho
      rcases ho with rfl | ho
      · rfl
      · exact ih o ho

/-- what the receiver's future depends on -/
def Same (c c₀ : Conn) : Prop := c₀.s.wire = c.s.wire ∧ c₀.r = c.r ∧ c₀.rcvd = c.rcvd

/-- once this side has stopped, a history acts on the receiver exactly like its deliveries and drains
alone (sends are refused, the send loop has quit, nothing new reaches the wire) -/
theorem run_dead (L : Limits) (ops : List MuxOp) {c c₀ : Conn} (hd : c.s.dead = true) (hs : Same c c₀) :
    (Conn.run L c ops).r = (Conn.run L c₀ (recvOnly ops)).r := by
  induction ops generalizing c c₀ with
  | nil => exact hs.2.1.symm
  | cons op ops ih =>
    obtain ⟨h1, h2, h3⟩ := hs
    cases op with
    | send t m => exact ih (c := c.step L (.send t m)) (by simp [Conn.step, Sender.send, hd]) ⟨by simp [Conn.step, Sender.send, hd, h1], h2, h3⟩
    | sendPartial t m k => exact ih (c := c.step L (.sendPartial t m k)) (by simp [Conn.step, Sender.sendPartial, hd]) ⟨by simp [Conn.step, Sender.sendPartial, hd, h1], h2, h3⟩
    | pick t => exact ih (c := c.step L (.pick t)) (by simp [Conn.step, Sender.pick, hd]) ⟨by simp [Conn.step, Sender.pick, hd, h1], h2, h3⟩
    | deliver =>
      simp only [recvOnly, Conn.run]
      refine ih (c := c.step L .deliver) (c₀ := c₀.step L .deliver) ?_ ?_
      · simp only [Conn.step]; split <;> exact hd
      · simp only [Conn.step, h1, h3]
        cases c.s.wire[c.rcvd]? with
        | none => exact ⟨h1, h2, h3⟩
        | some p => exact ⟨h1, by simp [h2], by simp⟩
    | drain t =>
      simp only [recvOnly, Conn.run]
      exact ih (c := c.step L (.drain t)) (c₀ := c₀.step L (.drain t)) hd ⟨h1, by simp [Conn.step, h2], h3⟩

theorem exists_first_partial (ops : List MuxOp) (h : ¬ EnqueueAtomic ops) :
    ∃ ops₁ t m k ops₂, ops = ops₁ ++ .sendPartial t m k :: ops₂ ∧ EnqueueAtomic ops₁ := by
  induction ops with
  | nil => exact absurd (fun o ho => by cases ho) h
  | cons x xs ih =>
    by_cases hx : x.atomic = true
    · have : ¬ EnqueueAtomic xs := fun hxs => h (fun o ho => by
        simp only [List.mem_cons] at ho; rcases ho with rfl | ho
        · exact hx
        · exact hxs o ho)
      obtain ⟨o1, t, m, k, o2, he, ha⟩ := ih this
      refine ⟨x :: o1, t, m, k, o2, by simp [he], ?_⟩
      intro o ho
      simp only [List.mem_cons] at ho
      rcases ho with rfl | ho
      · exact hx
      · exact ha o ho
    · cases x with
      | sendPartial t m k => exact ⟨[], t, m, k, xs, rfl, fun o ho => by cases ho⟩
      | _ => simp [MuxOp.atomic] at hx

/-- the receiver's side of `delivery`, for a history cut by a partial enqueue that ends the connection -/
theorem delivery_after_teardown (L : Limits) (hT : L.tearDownOnPartial = true)
    (ops₁ ops₂ : List MuxOp) (t0 : Nat) (m : Bytes) (k : Nat)
    (hA : EnqueueAtomic ops₁) (hV : SendsValid L ops₁) (t : Nat) :
    let c := Conn.run L Conn.init (ops₁ ++ .sendPartial t0 m k :: ops₂)
    c.r.closed = none ∧ ∃ done todo, sentOn t ops₁ = done ++ todo ∧ (c.r.log.get t).Sublist done := by
  intro c
  have h1 := run_inv L ops₁ hA hV (CInv.init L)
  simp only [List.nil_append] at h1
  -- the state right after the failed enqueue is dead and looks, to the receiver, like the state before
  have hc : c.r = (Conn.run L (Conn.run L Conn.init ops₁) (recvOnly ops₂)).r := by
    show (Conn.run L Conn.init (ops₁ ++ .sendPartial t0 m k :: ops₂)).r = _
    rw [run_append]
    simp only [Conn.run]
    refine run_dead L ops₂ ?_ ?_
    · simp [Conn.step, Sender.sendPartial, h1.alive, hT]
    · exact ⟨by simp [Conn.step, Sender.sendPartial, h1.alive], rfl, rfl⟩
  have h2 := run_inv L (recvOnly ops₂) (recvOnly_atomic ops₂) (recvOnly_valid L ops₂) h1
  simp only [sentOn_recvOnly, List.append_nil] at h2
  rw [hc]
  refine ⟨h2.open_, ?_⟩
  obtain ⟨done, todo, _, hs, hl, _, _⟩ := h2.topic t
  exact ⟨done, todo, hs, hl⟩
/-! ### chunk lengths and chunk count of `split` -/

theorem splitLoop_lens (lim fuel : Nat) (buf : Bytes) :
    (splitLoop lim fuel buf).map List.length = splitLensLoop lim fuel buf.length := by
  induction fuel generalizing buf with
  | zero => rfl
  | succ fuel ih =>
    simp only [splitLoop, splitLensLoop]
    split
    · rename_i h
      simp only [List.map_cons, ih, List.length_take, List.length_drop]
      rw [Nat.min_eq_left h]
    · split <;> simp

theorem split_lens_eq (buf : Bytes) (lim : Nat) : (split buf lim).map List.length = splitLens buf.length lim := by
  unfold split splitLens
  split
  · rename_i h; simp [h]
  · exact splitLoop_lens lim _ buf

theorem splitLensLoop_length (lim : Nat) (hl : 0 < lim) (fuel n : Nat) (hf : n < fuel) :
    (splitLensLoop lim fuel n).length = (n + lim - 1) / lim := by
  induction fuel generalizing n with
  | zero => omega
  | succ fuel ih =>
    simp only [splitLensLoop]
    split
    · rename_i h
      simp only [List.length_cons, ih (n - lim) (by omega)]
      have : n + lim - 1 = (n - lim + lim - 1) + lim := by omega
      rw [this, Nat.add_div_right _ hl]
    · split
      · rename_i h1 h2
        simp only [List.length_cons, List.length_nil]
        rw [eq_comm, Nat.div_eq_iff hl]; omega
      · rename_i h1 h2
        have : n = 0 := by omega
        subst this
        simp only [List.length_nil, Nat.zero_add]
        exact (Nat.div_eq_of_lt (by omega)).symm

theorem splitLensLoop_sum (lim : Nat) (hl : 0 < lim) (fuel n : Nat) (hf : n < fuel) :
    (splitLensLoop lim fuel n).sum = n := by
  induction fuel generalizing n with
  | zero => omega
  | succ fuel ih =>
    simp only [splitLensLoop]
    split
    · rename_i h
      simp only [List.sum_cons, ih (n - lim) (by omega)]; omega
    · split
      · simp
      · simp; omega

end Canopy.Mux
