import Canopy.Proof.SmtProofFixed
/-! Completeness of the repaired verifier: the honest proof for a key verifies for the true statement about that key.
Core only. -/
namespace Canopy.Smt
open Trie

theorem keyOfBytes_length (n : Nat) (data : Bytes) : (keyOfBytes n data).length = n := by
  unfold keyOfBytes
  simp [List.length_take]
  omega

/-! ### what `descend` returns -/

/-- `c` and the head of `acc` are the two children of a node with prefix `q`, and the target goes to `c`'s side -/
def PathInv (k : Key) (c : Trie) (acc : List (Trie × Bool)) : Prop :=
  ∃ s0 side rest q, acc = (s0, side) :: rest ∧ q ++ [!side] <+: k ∧ q ++ [!side] <+: c.key ∧ q ++ [side] <+: s0.key

theorem descend_inv {n : Nat} {k : Key} : ∀ (c : Trie) (acc : List (Trie × Bool)), WF n c → PathInv k c acc →
    PathInv k (descend k c acc).1 (descend k c acc).2
  | .leaf _ _, _, _, h => h
  | .node p l r, acc, hw, h => by
    unfold descend
    by_cases h1 : p ++ [false] <+: k
    · rw [if_pos h1]
      exact descend_inv l _ hw.1 ⟨r, true, acc, p, rfl, h1, child_prefix hw.1 hw.2.2.1, child_prefix hw.2.1 hw.2.2.2⟩
    · rw [if_neg h1]
      by_cases h2 : p ++ [true] <+: k
      · rw [if_pos h2]
        exact descend_inv r _ hw.2.1 ⟨l, false, acc, p, rfl, h2, child_prefix hw.2.1 hw.2.2.2, child_prefix hw.1 hw.2.2.1⟩
      · rw [if_neg h2]; exact h

/-- the traversal stops at a leaf, or at an inner node whose prefix the target does not extend -/
def Stops (k : Key) : Trie → Prop
  | .leaf _ _ => True
  | .node p _ _ => ¬ p ++ [false] <+: k ∧ ¬ p ++ [true] <+: k

theorem descend_stops {k : Key} : ∀ (c : Trie) (acc : List (Trie × Bool)), Stops k (descend k c acc).1
  | .leaf _ _, _ => trivial
  | .node p l r, acc => by
    unfold descend
    by_cases h1 : p ++ [false] <+: k
    · rw [if_pos h1]; exact descend_stops l _
    · rw [if_neg h1]
      by_cases h2 : p ++ [true] <+: k
      · rw [if_pos h2]; exact descend_stops r _
      · rw [if_neg h2]; exact ⟨h1, h2⟩

theorem descend_wf {n : Nat} {k : Key} : ∀ (c : Trie) (acc : List (Trie × Bool)), WF n c → WF n (descend k c acc).1
  | .leaf _ _, _, h => h
  | .node p l r, acc, h => by
    unfold descend
    by_cases h1 : p ++ [false] <+: k
    · rw [if_pos h1]; exact descend_wf l _ h.1
    · rw [if_neg h1]
      by_cases h2 : p ++ [true] <+: k
      · rw [if_pos h2]; exact descend_wf r _ h.2.1
      · rw [if_neg h2]; exact h

theorem descend_keys {k : Key} : ∀ (c : Trie) (acc : List (Trie × Bool)) (x : Key),
    x ∈ (descend k c acc).1.keys → x ∈ c.keys
  | .leaf _ _, _, _, h => h
  | .node p l r, acc, x, h => by
    unfold descend at h
    by_cases h1 : p ++ [false] <+: k
    · rw [if_pos h1] at h; exact mem_keys_node.mpr (Or.inl (descend_keys l _ x h))
    · rw [if_neg h1] at h
      by_cases h2 : p ++ [true] <+: k
      · rw [if_pos h2] at h; exact mem_keys_node.mpr (Or.inr (descend_keys r _ x h))
      · rw [if_neg h2] at h; exact h

/-- a present key is found -/
theorem descend_mem {n : Nat} {k : Key} {v : Bytes} : ∀ (c : Trie) (acc : List (Trie × Bool)), WF n c →
    (k, v) ∈ c.toList → (descend k c acc).1 = .leaf k v
  | .leaf k' v', _, _, h => by
    simp [toList] at h
    simp [descend, h.1, h.2]
  | .node p l r, acc, hw, h => by
    unfold descend
    rcases mem_toList_node.mp h with hl | hr
    · have h1 : p ++ [false] <+: k := hw.2.2.1 _ (mem_keys_of_mem hl)
      rw [if_pos h1]; exact descend_mem l _ hw.1 hl
    · have h2 : p ++ [true] <+: k := hw.2.2.2 _ (mem_keys_of_mem hr)
      have h1 : ¬ p ++ [false] <+: k := fun x => absurd (prefix_bit_unique x h2) (by simp)
      rw [if_neg h1, if_pos h2]; exact descend_mem r _ hw.2.1 hr

/-! ### the hash fold along the honest path -/

theorem foldFixed_step (H4 : Bytes → Bytes → Bytes → Bytes → Bytes) (cur : Key) (hash : Bytes) (p : PNode) (rest : List PNode)
    (h1 : ¬ (gcp cur (decodeKey p.key)).length = min cur.length (decodeKey p.key).length)
    (h2 : ((gcp cur (decodeKey p.key)).length = 0) = rest.isEmpty) :
    foldFixed H4 cur hash (p :: rest) = foldFixed H4 (gcp cur (decodeKey p.key))
      (if p.bitmask = 0 then H4 p.key p.value (encodeKey cur) hash else H4 (encodeKey cur) hash p.key p.value)
      rest := by
  simp only [foldFixed]
  rw [if_neg h1]
  have : (decide ((gcp cur (decodeKey p.key)).length = 0) != rest.isEmpty) = false := by
    cases hr : rest.isEmpty <;> simp [hr] at h2 ⊢ <;> exact h2
  rw [this]
  simp

theorem decode_child_key {n : Nat} {p : Key} {l r : Trie} (h : WF n (node p l r)) :
    decodeKey (encodeKey l.key) = l.key ∧ decodeKey (encodeKey r.key) = r.key :=
  ⟨decodeKey_encodeKey _ _ rfl (child_key_ne_nil h).1, decodeKey_encodeKey _ _ rfl (child_key_ne_nil h).2⟩

/-- folding from where the traversal stops, over the siblings it passed, is folding from where it started -/
theorem fold_descend (H4 : Bytes → Bytes → Bytes → Bytes → Bytes) {n : Nat} {k : Key} : ∀ (c : Trie) (acc : List (Trie × Bool)),
    WF n c → c.key ≠ [] → acc ≠ [] →
    foldFixed H4 (descend k c acc).1.key ((descend k c acc).1.value H4) ((descend k c acc).2.map (toPNode H4))
      = foldFixed H4 c.key (c.value H4) (acc.map (toPNode H4))
  | .leaf _ _, _, _, _, _ => rfl
  | .node p l r, acc, hw, hp, hacc => by
    have hkeys := child_key_ne_nil hw
    have hlen := child_key_length_gt hw
    have hdec := decode_child_key hw
    have hp0 : ¬ p.length = 0 := fun e => hp (List.eq_nil_of_length_eq_zero e)
    have hemp : (acc.map (toPNode H4)).isEmpty = false := by
      cases acc with
      | nil => exact absurd rfl hacc
      | cons _ _ => rfl
    unfold descend
    by_cases h1 : p ++ [false] <+: k
    · rw [if_pos h1, fold_descend H4 l _ hw.1 hkeys.1 (by simp)]
      simp only [List.map_cons]
      rw [foldFixed_step]
      · simp only [toPNode, hdec.2, gcp_children hw]
        simp [Trie.value, Trie.key]
      · simp only [toPNode, hdec.2, gcp_children hw]; omega
      · simp only [toPNode, hdec.2, gcp_children hw, hemp]; simp [hp0]
    · rw [if_neg h1]
      by_cases h2 : p ++ [true] <+: k
      · rw [if_pos h2, fold_descend H4 r _ hw.2.1 hkeys.2 (by simp)]
        simp only [List.map_cons]
        have hg : gcp r.key l.key = p := by rw [gcp_comm]; exact gcp_children hw
        rw [foldFixed_step]
        · simp only [toPNode, hdec.1, hg]
          simp [Trie.value, Trie.key]
        · simp only [toPNode, hdec.1, hg]; omega
        · simp only [toPNode, hdec.1, hg, hemp]; simp [hp0]
      · rw [if_neg h2]

end Canopy.Smt

namespace Canopy.Smt
open Trie

/-! ### the honest proof from the root -/

/-- facts about `descendTop` on a tree that holds both sentinels -/
theorem descendTop_facts (H4 : Bytes → Bytes → Bytes → Bytes → Bytes) {n : Nat} (hn : 0 < n) {l r : Trie} (hw : WF n (node [] l r)) {k : Key}
    (hk : k.length = n) :
    let d := descendTop k l r
    PathInv k d.1 d.2 ∧ Stops k d.1 ∧ WF n d.1 ∧ (∀ x ∈ d.1.keys, x ∈ (node [] l r).keys) ∧
    (∀ v, (k, v) ∈ (node [] l r).toList → d.1 = .leaf k v) ∧
    foldFixed H4 d.1.key (d.1.value H4) (d.2.map (toPNode H4)) = some ((node [] l r).value H4) := by
  have hkeys := child_key_ne_nil hw
  have hlen := child_key_length_gt hw
  have hdec := decode_child_key hw
  have hl0 : [] ++ [false] <+: l.key := child_prefix hw.1 hw.2.2.1
  have hr0 : [] ++ [true] <+: r.key := child_prefix hw.2.1 hw.2.2.2
  cases k with
  | nil => simp at hk; omega
  | cons b bs =>
    cases b
    · -- first bit 0: the traversal goes left
      have hd : descendTop (false :: bs) l r = descend (false :: bs) l [(r, true)] := by simp [descendTop]
      have hk0 : [] ++ [false] <+: false :: bs := by simp
      simp only [hd]
      refine ⟨descend_inv l _ hw.1 ⟨r, true, [], [], rfl, hk0, hl0, hr0⟩, descend_stops l _, descend_wf l _ hw.1,
        fun x hx => mem_keys_node.mpr (Or.inl (descend_keys l _ x hx)), ?_, ?_⟩
      · intro v hv
        rcases mem_toList_node.mp hv with h | h
        · exact descend_mem l _ hw.1 h
        · exact absurd (prefix_bit_unique hk0 (hw.2.2.2 _ (mem_keys_of_mem h))) (by simp)
      · rw [fold_descend H4 l _ hw.1 hkeys.1 (by simp)]
        simp only [List.map_cons, List.map_nil]
        rw [foldFixed_step]
        · simp only [toPNode, hdec.2, gcp_children hw]
          simp [foldFixed, Trie.value, Trie.key]
        · simp only [toPNode, hdec.2, gcp_children hw]; simp at hlen ⊢; omega
        · simp only [toPNode, hdec.2, gcp_children hw]; simp
    · have hd : descendTop (true :: bs) l r = descend (true :: bs) r [(l, false)] := by simp [descendTop]
      have hk0 : [] ++ [true] <+: true :: bs := by simp
      simp only [hd]
      refine ⟨descend_inv r _ hw.2.1 ⟨l, false, [], [], rfl, hk0, hr0, hl0⟩, descend_stops r _, descend_wf r _ hw.2.1,
        fun x hx => mem_keys_node.mpr (Or.inr (descend_keys r _ x hx)), ?_, ?_⟩
      · intro v hv
        rcases mem_toList_node.mp hv with h | h
        · exact absurd (prefix_bit_unique hk0 (hw.2.2.1 _ (mem_keys_of_mem h))) (by simp)
        · exact descend_mem r _ hw.2.1 h
      · rw [fold_descend H4 r _ hw.2.1 hkeys.2 (by simp)]
        simp only [List.map_cons, List.map_nil]
        have hg : gcp r.key l.key = [] := by rw [gcp_comm]; exact gcp_children hw
        rw [foldFixed_step]
        · simp only [toPNode, hdec.1, hg]
          simp [foldFixed, Trie.value, Trie.key]
        · simp only [toPNode, hdec.1, hg]; simp at hlen ⊢; omega
        · simp only [toPNode, hdec.1, hg]; simp

end Canopy.Smt

namespace Canopy.Smt
open Trie

theorem descend_sibs {n : Nat} {k : Key} : ∀ (c : Trie) (acc : List (Trie × Bool)), WF n c →
    ∀ s ∈ (descend k c acc).2, s ∈ acc ∨ (WF n s.1 ∧ s.1.key ≠ [])
  | .leaf _ _, _, _, s, h => Or.inl h
  | .node p l r, acc, hw, s, h => by
    unfold descend at h
    have hkeys := child_key_ne_nil hw
    by_cases h1 : p ++ [false] <+: k
    · rw [if_pos h1] at h
      rcases descend_sibs l _ hw.1 s h with x | x
      · simp at x
        rcases x with rfl | x
        · exact Or.inr ⟨hw.2.1, hkeys.2⟩
        · exact Or.inl x
      · exact Or.inr x
    · rw [if_neg h1] at h
      by_cases h2 : p ++ [true] <+: k
      · rw [if_pos h2] at h
        rcases descend_sibs r _ hw.2.1 s h with x | x
        · simp at x
          rcases x with rfl | x
          · exact Or.inr ⟨hw.1, hkeys.1⟩
          · exact Or.inl x
        · exact Or.inr x
      · rw [if_neg h2] at h; exact Or.inl h

theorem descendTop_sibs {n : Nat} {k : Key} {l r : Trie} (hw : WF n (node [] l r)) :
    ∀ s ∈ (descendTop k l r).2, WF n s.1 ∧ s.1.key ≠ [] := by
  intro s hs
  have hkeys := child_key_ne_nil hw
  unfold descendTop at hs
  split at hs
  · rcases descend_sibs l _ hw.1 s hs with x | x
    · simp at x; subst x; exact ⟨hw.2.1, hkeys.2⟩
    · exact x
  · rcases descend_sibs r _ hw.2.1 s hs with x | x
    · simp at x; subst x; exact ⟨hw.1, hkeys.1⟩
    · exact x

theorem descend_toList {k : Key} : ∀ (c : Trie) (acc : List (Trie × Bool)) (kv : Key × Bytes),
    kv ∈ (descend k c acc).1.toList → kv ∈ c.toList
  | .leaf _ _, _, _, h => h
  | .node p l r, acc, kv, h => by
    unfold descend at h
    by_cases h1 : p ++ [false] <+: k
    · rw [if_pos h1] at h; exact mem_toList_node.mpr (Or.inl (descend_toList l _ kv h))
    · rw [if_neg h1] at h
      by_cases h2 : p ++ [true] <+: k
      · rw [if_pos h2] at h; exact mem_toList_node.mpr (Or.inr (descend_toList r _ kv h))
      · rw [if_neg h2] at h; exact h

theorem descend_sibs_toList {k : Key} : ∀ (c : Trie) (acc : List (Trie × Bool)),
    ∀ s ∈ (descend k c acc).2, s ∈ acc ∨ (∀ kv ∈ s.1.toList, kv ∈ c.toList)
  | .leaf _ _, _, s, h => Or.inl h
  | .node p l r, acc, s, h => by
    unfold descend at h
    by_cases h1 : p ++ [false] <+: k
    · rw [if_pos h1] at h
      rcases descend_sibs_toList l _ s h with x | x
      · simp at x
        rcases x with rfl | x
        · exact Or.inr fun kv hkv => mem_toList_node.mpr (Or.inr hkv)
        · exact Or.inl x
      · exact Or.inr fun kv hkv => mem_toList_node.mpr (Or.inl (x kv hkv))
    · rw [if_neg h1] at h
      by_cases h2 : p ++ [true] <+: k
      · rw [if_pos h2] at h
        rcases descend_sibs_toList r _ s h with x | x
        · simp at x
          rcases x with rfl | x
          · exact Or.inr fun kv hkv => mem_toList_node.mpr (Or.inl hkv)
          · exact Or.inl x
        · exact Or.inr fun kv hkv => mem_toList_node.mpr (Or.inr (x kv hkv))
      · rw [if_neg h2] at h; exact Or.inl h

/-- everything `descendTop` returns is made of leaves of the tree -/
theorem descendTop_toList {k : Key} {l r : Trie} :
    (∀ kv ∈ (descendTop k l r).1.toList, kv ∈ (node [] l r).toList) ∧
    (∀ s ∈ (descendTop k l r).2, ∀ kv ∈ s.1.toList, kv ∈ (node [] l r).toList) := by
  unfold descendTop
  split
  · refine ⟨fun kv h => mem_toList_node.mpr (Or.inl (descend_toList l _ kv h)), fun s hs kv hkv => ?_⟩
    rcases descend_sibs_toList l _ s hs with x | x
    · simp at x; subst x; exact mem_toList_node.mpr (Or.inr hkv)
    · exact mem_toList_node.mpr (Or.inl (x kv hkv))
  · refine ⟨fun kv h => mem_toList_node.mpr (Or.inr (descend_toList r _ kv h)), fun s hs kv hkv => ?_⟩
    rcases descend_sibs_toList r _ s hs with x | x
    · simp at x; subst x; exact mem_toList_node.mpr (Or.inl hkv)
    · exact mem_toList_node.mpr (Or.inr (x kv hkv))

/-- the sizes the strict verifier expects: node hashes of 32 bytes, leaf values of 32 bytes except the two reserved
leaves (20 bytes) -/
def WellSized (H4 : Bytes → Bytes → Bytes → Bytes → Bytes) (n : Nat) (S : KMap) : Prop :=
  (∀ a b c d, (H4 a b c d).length = 32) ∧
  ∀ k v, S k = some v → v.length = 32 ∨ (v.length = 20 ∧ (k = minKey n ∨ k = maxKey n))

theorem valueLenOk_of_sub {H4 : Bytes → Bytes → Bytes → Bytes → Bytes} {n : Nat} {t : Trie} {S : KMap}
    (h : t.Rep n S) (hz : WellSized H4 n S) (s : Trie) (hsub : ∀ kv ∈ s.toList, kv ∈ t.toList) (bm : Nat) :
    valueLenOk n { key := encodeKey s.key, value := s.value H4, bitmask := bm } = true := by
  cases s with
  | node p a b => simp [valueLenOk, Trie.value, hz.1]
  | leaf k v =>
    have hS : S k = some v := (h.2 k v).mp (hsub _ (by simp [toList]))
    rcases hz.2 k v hS with h32 | ⟨h20, hk⟩
    · simp [valueLenOk, Trie.value, h32]
    · rcases hk with rfl | rfl <;> simp [valueLenOk, Trie.value, Trie.key, h20]

/-- **Completeness of the repaired verifier.** For every key length, every canonical tree holding the sentinels and every
non-reserved key: the proof `GetMerkleProof` produces for the key verifies against the tree's root — as a membership
proof with the stored value if the key is present, as a non-membership proof if it is absent. -/
theorem verifyFixed_complete (strict : Bool) (H : Bytes → Bytes) (H4 : Bytes → Bytes → Bytes → Bytes → Bytes) {n : Nat} (hn : 0 < n) {t : Trie} {S : KMap}
    (h : t.Rep n S) (hs : S.HasSentinels n) (hz : strict = true → WellSized H4 n S) (userKey value : Bytes)
    (hres : keyOfBytes n (H userKey) ≠ rootKey n ∧ keyOfBytes n (H userKey) ≠ minKey n ∧
      keyOfBytes n (H userKey) ≠ maxKey n) :
    (S (keyOfBytes n (H userKey)) = some (H value) →
      verifyFixed strict H H4 n userKey value true (t.value H4) (prove H4 t (keyOfBytes n (H userKey))) = .accept) ∧
    (S (keyOfBytes n (H userKey)) = none →
      verifyFixed strict H H4 n userKey value false (t.value H4) (prove H4 t (keyOfBytes n (H userKey))) = .accept) := by
  have hk : (keyOfBytes n (H userKey)).length = n := keyOfBytes_length n _
  obtain ⟨k, hkd⟩ : ∃ k, keyOfBytes n (H userKey) = k := ⟨_, rfl⟩
  rw [hkd] at hres hk ⊢
  have hnode := rep_isNode h hs hn
  have htop := top_key_nil h hs hn
  cases t with
  | leaf _ _ => cases hnode
  | node p l r =>
    simp only [Trie.key] at htop
    subst htop
    obtain ⟨hinv, hstop, hwf, hsub, hmem, hfold⟩ := descendTop_facts H4 hn h.1 hk
    have hsibs := descendTop_sibs (k := k) h.1
    obtain ⟨s0, side, rest, q, hacc, hqk, hqc, hqs⟩ := hinv
    -- the pieces of the proof
    have hstopne : (descendTop k l r).1.key ≠ [] := by
      intro e; rw [e] at hqc; have := hqc.length_le; simp at this
    have hdec0 : decodeKey (encodeKey (descendTop k l r).1.key) = (descendTop k l r).1.key :=
      decodeKey_encodeKey _ _ rfl hstopne
    have hs0 := hsibs (s0, side) (by rw [hacc]; simp)
    have hdecs0 : decodeKey (encodeKey s0.key) = s0.key := decodeKey_encodeKey _ _ rfl hs0.2
    have hlist := descendTop_toList (k := k) (l := l) (r := r)
    have hvalid : ((prove H4 (node [] l r) k).all fun p => nodeOk strict n p) = true := by
      simp only [prove, List.all_cons, Bool.and_eq_true, List.all_eq_true, List.mem_map, nodeOk, Bool.or_eq_true,
        Bool.not_eq_true']
      refine ⟨⟨validNodeKey_encodeKey hstopne (key_length_le hwf), ?_⟩, ?_⟩
      · cases hst : strict
        · exact Or.inl rfl
        · exact Or.inr (valueLenOk_of_sub h (hz hst) _ hlist.1 0)
      · rintro p ⟨s, hs', rfl⟩
        have := hsibs s hs'
        refine ⟨validNodeKey_encodeKey this.2 (key_length_le this.1), ?_⟩
        cases hst : strict
        · exact Or.inl rfl
        · exact Or.inr (valueLenOk_of_sub h (hz hst) s.1 (hlist.2 s hs') _)
    -- the branch prefix
    have hgq : gcp (descendTop k l r).1.key s0.key = q := by
      cases side
      · exact gcp_of_diverge (x := true) hqc hqs
      · exact gcp_of_diverge (x := false) hqc hqs
    have hshared : q.length + 1 ≤ (gcp k (descendTop k l r).1.key).length := by
      have := (prefix_gcp _ _ _ hqk hqc).length_le
      simpa using this
    have hnot_res : (k == rootKey n || k == minKey n || k == maxKey n) = false := by
      simp [hres.1, hres.2.1, hres.2.2]
    -- unfold the verifier on this proof
    have hprove : prove H4 (node [] l r) k =
        { key := encodeKey (descendTop k l r).1.key, value := (descendTop k l r).1.value H4, bitmask := 0 } ::
          toPNode H4 (s0, side) :: rest.map (toPNode H4) := by
      simp only [prove, hacc, List.map_cons]
    have hfold' : foldFixed H4 (descendTop k l r).1.key ((descendTop k l r).1.value H4)
        (toPNode H4 (s0, side) :: rest.map (toPNode H4)) = some ((node [] l r).value H4) := by
      have := hfold; rw [hacc] at this; simpa using this
    have hbranch : branchBits (descendTop k l r).1.key (toPNode H4 (s0, side) :: rest.map (toPNode H4))
        = q.length + 1 := by
      simp only [branchBits, toPNode, hdecs0, hgq]
    constructor
    · -- membership
      intro hS
      have hleaf := hmem (H value) ((h.2 k (H value)).mpr hS)
      unfold verifyFixed verifyFixedF
      rw [hprove] at hvalid ⊢
      simp only [hkd, hvalid, Bool.not_true, Bool.false_eq_true, if_false, hnot_res, hdec0, hfold', hbranch]
      rw [hleaf] at hshared ⊢
      simp only [Trie.key, Trie.value] at hshared ⊢
      have : ¬ (gcp k k).length < q.length + 1 := by omega
      simp [this, FVerdict.toVerdict]
    · -- non-membership
      intro hS
      have hknot : k ∉ (node [] l r).keys := by
        intro hin
        obtain ⟨v, hv⟩ := exists_mem_of_mem_keys hin
        have := (h.2 k v).mp hv
        rw [hS] at this; cases this
      have hne : encodeKey k ≠ encodeKey (descendTop k l r).1.key := by
        intro e
        have hkne : k ≠ [] := by intro e'; rw [e'] at hk; simp at hk; omega
        have := encodeKey_injective hkne hstopne e
        -- the stop node would have the target's key: a leaf holding it, or an inner node of full length
        cases hd : (descendTop k l r).1 with
        | leaf k' v' =>
          rw [hd] at this hsub
          simp only [Trie.key] at this
          exact hknot (hsub k (by rw [keys_leaf, this]; simp))
        | node p' l' r' =>
          rw [hd] at this hwf
          simp only [Trie.key] at this
          have hlt := node_prefix_lt hwf
          have hl : k.length = p'.length := by rw [this]
          omega
      have hnotpre : (gcp k (descendTop k l r).1.key).length ≠ (descendTop k l r).1.key.length := by
        intro e
        have hpre := (gcp_length_eq_iff _ _).mp e
        cases hd : (descendTop k l r).1 with
        | leaf k' v' =>
          rw [hd] at hpre hwf hne
          simp only [Trie.key] at hpre hne
          have : k' = k := hpre.eq_of_length (by rw [hk]; exact hwf)
          exact hne (by rw [this])
        | node p' l' r' =>
          rw [hd] at hpre hwf hstop
          simp only [Trie.key] at hpre
          have hlt : p'.length < k.length := by rw [hk]; exact node_prefix_lt hwf
          rcases snoc_prefix_of_prefix_lt hpre hlt with x | x
          · exact hstop.1 x
          · exact hstop.2 x
      unfold verifyFixed verifyFixedF
      rw [hprove] at hvalid ⊢
      simp only [hkd, hvalid, Bool.not_true, Bool.false_eq_true, if_false, hnot_res, hdec0, hfold', hbranch]
      have : ¬ (gcp k (descendTop k l r).1.key).length < q.length + 1 := by omega
      simp [this, hne, hnotpre, FVerdict.toVerdict]

end Canopy.Smt
