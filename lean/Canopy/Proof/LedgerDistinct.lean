import Canopy.Proof.LedgerEndBlockLive
/-! C12: duplicate-free committee lists (`CommitteesDistinct`, counted by `dupCommittees`) are kept by every modelled
operation: the count of records with a doubly listed committee never grows. New lists come from messages
(`checkCommittees` rejects duplicates), from the committee-scoped ejection (`erase`), or from the rotation of
`ConformStateToParamUpdate` (distinct indices of the old list). -/
namespace Canopy.Ledger
open AMap

set_option linter.unusedSimpArgs false
set_option linter.unusedVariables false

theorem dup_same {L L' : Ledger} (e : L'.validators = L.validators) : dupCommittees L' = dupCommittees L := by
  unfold dupCommittees; rw [e]

theorem dup_valPut_le {L L2 : Ledger} {a : Addr} {v' : Validator} (e : L2.validators = L.validators)
    (hle : dupC v' ≤ ow dupC (find? L.validators a)) : dupCommittees (valPut L2 a v') ≤ dupCommittees L := by
  unfold dupCommittees valPut
  dsimp only
  have := sumBy_set dupC L2.validators a v'
  rw [e] at this ⊢
  omega

theorem dup_valPut_nodup {L L2 : Ledger} {a : Addr} {v' : Validator} (e : L2.validators = L.validators)
    (hn : v'.committees.Nodup) : dupCommittees (valPut L2 a v') ≤ dupCommittees L :=
  dup_valPut_le e (by unfold dupC; rw [if_pos hn]; omega)

theorem dup_valDel_le {L L2 : Ledger} {a : Addr} (e : L2.validators = L.validators) : dupCommittees (valDel L2 a) ≤ dupCommittees L := by
  unfold dupCommittees valDel
  dsimp only
  have := sumBy_erase dupC L2.validators a
  rw [e] at this ⊢
  omega

theorem dupC_of_get {L : Ledger} {a : Addr} {val : Validator} (hg : valGet? L a = some val) : ow dupC (find? L.validators a) = dupC val := by
  unfold valGet? at hg; rw [hg]; rfl

/-! ### status changes -/

theorem setValidatorUnstaking_dup_le {L : Ledger} {a : Addr} {val : Validator} (f : Nat)
    (hle : dupC val ≤ ow dupC (find? L.validators a)) : dupCommittees (setValidatorUnstaking L a val f) ≤ dupCommittees L := by
  unfold setValidatorUnstaking
  dsimp only
  refine dup_valPut_le ?_ hle
  split <;> rfl

theorem setValidatorPaused_dup_le {L : Ledger} {a : Addr} {val : Validator} (f : Nat)
    (hle : dupC val ≤ ow dupC (find? L.validators a)) : dupCommittees (setValidatorPaused L a val f) ≤ dupCommittees L := by
  unfold setValidatorPaused
  exact dup_valPut_le rfl hle

theorem setValidatorUnpaused_dup_le {L : Ledger} {a : Addr} {val : Validator}
    (hle : dupC val ≤ ow dupC (find? L.validators a)) : dupCommittees (setValidatorUnpaused L a val) ≤ dupCommittees L := by
  unfold setValidatorUnpaused
  exact dup_valPut_le rfl hle

theorem setUnstakingIfBelowMinimum_dup_le {L : Ledger} {a : Addr} {val : Validator}
    (hle : dupC val ≤ ow dupC (find? L.validators a)) : dupCommittees (setUnstakingIfBelowMinimum L a val).2 ≤ dupCommittees L := by
  unfold setUnstakingIfBelowMinimum
  split
  · exact Nat.le_refl _
  · split
    · split
      · exact setValidatorUnstaking_dup_le _ hle
      · exact Nat.le_refl _
    · split
      · exact setValidatorUnstaking_dup_le _ hle
      · exact Nat.le_refl _

theorem handleUnstake_dup_le {L L' : Ledger} {a : Addr} (h : handleUnstake L a = .ok L') : dupCommittees L' ≤ dupCommittees L := by
  unfold handleUnstake at h
  obtain ⟨val, hv, h⟩ := bind_ok h
  guard_at h
  obtain rfl := Except.ok.inj h
  exact setValidatorUnstaking_dup_le _ (by rw [dupC_of_get (getValidator_ok hv)]; exact Nat.le_refl _)

theorem handlePause_dup_le {L L' : Ledger} {a : Addr} (h : handlePause L a = .ok L') : dupCommittees L' ≤ dupCommittees L := by
  unfold handlePause at h
  obtain ⟨val, hv, h⟩ := bind_ok h
  guard_at h; guard_at h; guard_at h
  obtain rfl := Except.ok.inj h
  exact setValidatorPaused_dup_le _ (by rw [dupC_of_get (getValidator_ok hv)]; exact Nat.le_refl _)

theorem handleUnpause_dup_le {L L' : Ledger} {a : Addr} (h : handleUnpause L a = .ok L') : dupCommittees L' ≤ dupCommittees L := by
  unfold handleUnpause at h
  obtain ⟨val, hv, h⟩ := bind_ok h
  guard_at h; guard_at h; guard_at h
  obtain rfl := Except.ok.inj h
  exact setValidatorUnpaused_dup_le (by rw [dupC_of_get (getValidator_ok hv)]; exact Nat.le_refl _)

/-! ### stake and edit-stake: the list comes from the message -/

theorem checkCommittees_go_nodup : ∀ (cs seen : List Nat), checkCommittees.go seen cs = .ok () → cs.Nodup ∧ ∀ c ∈ cs, c ∉ seen
  | [], _, _ => ⟨List.nodup_nil, fun _ h => by simp at h⟩
  | c :: rest, seen, h => by
    unfold checkCommittees.go at h
    split at h
    · exact absurd h (by intro h; cases h)
    · next hs =>
      split at h
      · exact absurd h (by intro h; cases h)
      · obtain ⟨i1, i2⟩ := checkCommittees_go_nodup rest (c :: seen) h
        refine ⟨List.nodup_cons.2 ⟨fun hm => ?_, i1⟩, ?_⟩
        · exact i2 c hm (List.mem_cons_self ..)
        · intro x hx
          simp only [List.mem_cons] at hx
          rcases hx with rfl | hx
          · simpa using hs
          · exact fun hm => i2 x hx (List.mem_cons_of_mem _ hm)

theorem checkCommittees_nodup {cs : List Nat} (h : checkCommittees cs = .ok ()) : cs.Nodup := by
  unfold checkCommittees at h
  split at h
  · exact absurd h (by intro h; cases h)
  · exact (checkCommittees_go_nodup cs [] h).1

theorem updateValidatorStake_dup_le {L L' : Ledger} {a : Addr} {val : Validator} {cs : List Nat} {amt : Nat}
    (hle : ∀ v' : Validator, v'.committees = cs → dupC v' ≤ ow dupC (find? L.validators a))
    (h : updateValidatorStake L a val cs amt = .ok L') : dupCommittees L' ≤ dupCommittees L := by
  unfold updateValidatorStake at h
  obtain ⟨La, ha, h⟩ := bind_ok h
  rw [addToStaked_ok ha] at h
  dsimp only at h
  split at h
  · obtain ⟨Lb, hb, h⟩ := bind_ok h
    obtain ⟨Lc, hc, h⟩ := bind_ok h
    obtain rfl := Except.ok.inj h
    rw [addToDelegated_ok hb] at hc
    exact dup_valPut_le (sameCore_updateDelegations hc).validators (hle _ rfl)
  · obtain ⟨Lc, hc, h⟩ := bind_ok h
    obtain rfl := Except.ok.inj h
    exact dup_valPut_le (sameCore_updateCommittees hc).validators (hle _ rfl)

theorem handleEditStake_dup_le {L L' : Ledger} {signer a : Addr} {amount : Nat} {cs : List Nat} {compound : Bool} {output : Addr}
    (hn : cs.Nodup) (h : handleEditStake L signer a amount cs compound output = .ok L') : dupCommittees L' ≤ dupCommittees L := by
  unfold handleEditStake at h
  obtain ⟨val, hv, h⟩ := bind_ok h
  guard_at h; guard_at h
  obtain ⟨L1, h1, h⟩ := bind_ok h
  have e := (sameStaking_accountSub h1).validators
  have := updateValidatorStake_dup_le (L := L1) (fun v' hc => by unfold dupC; rw [hc, if_pos hn]; omega) h
  rw [dup_same e] at this
  exact this

theorem handleStake_dup_le {L L' : Ledger} {signer a : Addr} {amount : Nat} {cs : List Nat} {delegate compound : Bool} {output : Addr}
    (hn : cs.Nodup) (h : handleStake L signer a amount cs delegate compound output = .ok L') : dupCommittees L' ≤ dupCommittees L := by
  obtain ⟨_, _, L1, L2, L3, h1, h2, h3, rfl⟩ := handleStake_inv h
  have e1 := (sameStaking_accountSub h1).validators
  obtain rfl := addToStaked_ok h2
  have e3 : L3.validators = L.validators := by
    split at h3
    · obtain ⟨Lb, hb, h3⟩ := h3
      rw [addToDelegated_ok hb] at h3
      rw [(sameCore_setDelegations h3).validators]; exact e1
    · rw [(sameCore_setCommittees h3).validators]; exact e1
  exact dup_valPut_nodup e3 hn

end Canopy.Ledger
