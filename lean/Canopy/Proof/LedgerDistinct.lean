import Canopy.Proof.LedgerEndBlockLive
/-! C12: duplicate-free committee lists (`CommitteesDistinct`, counted by `dupCommittees`) are kept by every modelled
operation: the count of records with a doubly listed committee never grows. New lists come from messages
(`checkCommittees` rejects duplicates), from the committee-scoped ejection (`erase`), or from the rotation of
`ConformStateToParamUpdate` (distinct indices of the old list). -/
namespace Canopy.Ledger
open AMap

set_option linter.unusedSimpArgs false
set_option linter.unusedVariables false

theorem dup_same {L L' : Ledger} (e : L'.validators = L.validators) : dupCommittees L' = dupCommittees L := by
  unfold dupCommittees; rw [e]

theorem dup_valPut_le {L L2 : Ledger} {a : Addr} {v' : Validator} (e : L2.validators = L.validators)
    (hle : dupC v' ≤ ow dupC (find? L.validators a)) : dupCommittees (valPut L2 a v') ≤ dupCommittees L := by
  unfold dupCommittees valPut
  dsimp only
  have := sumBy_set dupC L2.validators a v'
  rw [e] at this ⊢
  omega

theorem dup_valPut_nodup {L L2 : Ledger} {a : Addr} {v' : Validator} (e : L2.validators = L.validators)
    (hn : v'.committees.Nodup) : dupCommittees (valPut L2 a v') ≤ dupCommittees L :=
  dup_valPut_le e (by unfold dupC; rw [if_pos hn]; omega)

theorem dup_valDel_le {L L2 : Ledger} {a : Addr} (e : L2.validators = L.validators) : dupCommittees (valDel L2 a) ≤ dupCommittees L := by
  unfold dupCommittees valDel
  dsimp only
  have := sumBy_erase dupC L2.validators a
  rw [e] at this ⊢
  omega

theorem dupC_of_get {L : Ledger} {a : Addr} {val : Validator} (hg : valGet? L a = some val) : ow dupC (find? L.validators a) = dupC val := by
  unfold valGet? at hg; rw [hg]; rfl

/-! ### status changes -/

theorem setValidatorUnstaking_dup_le {L : Ledger} {a : Addr} {val : Validator} (f : Nat)
    (hle : dupC val ≤ ow dupC (find? L.validators a)) : dupCommittees (setValidatorUnstaking L a val f) ≤ dupCommittees L := by
  unfold setValidatorUnstaking
  dsimp only
  refine dup_valPut_le ?_ hle
  split <;> rfl

theorem setValidatorPaused_dup_le {L : Ledger} {a : Addr} {val : Validator} (f : Nat)
    (hle : dupC val ≤ ow dupC (find? L.validators a)) : dupCommittees (setValidatorPaused L a val f) ≤ dupCommittees L := by
  unfold setValidatorPaused
  exact dup_valPut_le rfl hle

theorem setValidatorUnpaused_dup_le {L : Ledger} {a : Addr} {val : Validator}
    (hle : dupC val ≤ ow dupC (find? L.validators a)) : dupCommittees (setValidatorUnpaused L a val) ≤ dupCommittees L := by
  unfold setValidatorUnpaused
  exact dup_valPut_le rfl hle

theorem setUnstakingIfBelowMinimum_dup_le {L : Ledger} {a : Addr} {val : Validator}
    (hle : dupC val ≤ ow dupC (find? L.validators a)) : dupCommittees (setUnstakingIfBelowMinimum L a val).2 ≤ dupCommittees L := by
  unfold setUnstakingIfBelowMinimum
  split
  · exact Nat.le_refl _
  · split
    · split
      · exact setValidatorUnstaking_dup_le _ hle
      · exact Nat.le_refl _
    · split
      · exact setValidatorUnstaking_dup_le _ hle
      · exact Nat.le_refl _

theorem handleUnstake_dup_le {L L' : Ledger} {a : Addr} (h : handleUnstake L a = .ok L') : dupCommittees L' ≤ dupCommittees L := by
  unfold handleUnstake at h
  obtain ⟨val, hv, h⟩ := bind_ok h
  guard_at h
  obtain rfl := Except.ok.inj h
  exact setValidatorUnstaking_dup_le _ (by rw [dupC_of_get (getValidator_ok hv)]; exact Nat.le_refl _)

theorem handlePause_dup_le {L L' : Ledger} {a : Addr} (h : handlePause L a = .ok L') : dupCommittees L' ≤ dupCommittees L := by
  unfold handlePause at h
  obtain ⟨val, hv, h⟩ := bind_ok h
  guard_at h; guard_at h; guard_at h
  obtain rfl := Except.ok.inj h
  exact setValidatorPaused_dup_le _ (by rw [dupC_of_get (getValidator_ok hv)]; exact Nat.le_refl _)

theorem handleUnpause_dup_le {L L' : Ledger} {a : Addr} (h : handleUnpause L a = .ok L') : dupCommittees L' ≤ dupCommittees L := by
  unfold handleUnpause at h
  obtain ⟨val, hv, h⟩ := bind_ok h
  guard_at h; guard_at h; guard_at h
  obtain rfl := Except.ok.inj h
  exact setValidatorUnpaused_dup_le (by rw [dupC_of_get (getValidator_ok hv)]; exact Nat.le_refl _)

/-! ### stake and edit-stake: the list comes from the message -/

theorem checkCommittees_go_nodup : ∀ (cs seen : List Nat), checkCommittees.go seen cs = .ok () → cs.Nodup ∧ ∀ c ∈ cs, c ∉ seen
  | [], _, _ => ⟨List.nodup_nil, fun _ h => by simp at h⟩
  | c :: rest, seen, h => by
    unfold checkCommittees.go at h
    split at h
    · exact absurd h (by intro h; cases h)
    · next hs =>
      split at h
      · exact absurd h (by intro h; cases h)
      · obtain ⟨i1, i2⟩ := checkCommittees_go_nodup rest (c :: seen) h
        refine ⟨List.nodup_cons.2 ⟨fun hm => ?_, i1⟩, ?_⟩
        · exact i2 c hm (List.mem_cons_self ..)
        · intro x hx
          simp only [List.mem_cons] at hx
          rcases hx with rfl | hx
          · simpa using hs
          · exact fun hm => i2 x hx (List.mem_cons_of_mem _ hm)

theorem checkCommittees_nodup {cs : List Nat} (h : checkCommittees cs = .ok ()) : cs.Nodup := by
  unfold checkCommittees at h
  split at h
  · exact absurd h (by intro h; cases h)
  · exact (checkCommittees_go_nodup cs [] h).1

theorem updateValidatorStake_dup_le {L L' : Ledger} {a : Addr} {val : Validator} {cs : List Nat} {amt : Nat}
    (hle : ∀ v' : Validator, v'.committees = cs → dupC v' ≤ ow dupC (find? L.validators a))
    (h : updateValidatorStake L a val cs amt = .ok L') : dupCommittees L' ≤ dupCommittees L := by
  unfold updateValidatorStake at h
  obtain ⟨La, ha, h⟩ := bind_ok h
  rw [addToStaked_ok ha] at h
  dsimp only at h
  split at h
  · obtain ⟨Lb, hb, h⟩ := bind_ok h
    obtain ⟨Lc, hc, h⟩ := bind_ok h
    obtain rfl := Except.ok.inj h
    rw [addToDelegated_ok hb] at hc
    exact dup_valPut_le (sameCore_updateDelegations hc).validators (hle _ rfl)
  · obtain ⟨Lc, hc, h⟩ := bind_ok h
    obtain rfl := Except.ok.inj h
    exact dup_valPut_le (sameCore_updateCommittees hc).validators (hle _ rfl)

theorem handleEditStake_dup_le {L L' : Ledger} {signer a : Addr} {amount : Nat} {cs : List Nat} {compound : Bool} {output : Addr}
    (hn : cs.Nodup) (h : handleEditStake L signer a amount cs compound output = .ok L') : dupCommittees L' ≤ dupCommittees L := by
  unfold handleEditStake at h
  obtain ⟨val, hv, h⟩ := bind_ok h
  guard_at h; guard_at h
  obtain ⟨L1, h1, h⟩ := bind_ok h
  have e := (sameStaking_accountSub h1).validators
  have := updateValidatorStake_dup_le (L := L1) (fun v' hc => by unfold dupC; rw [hc, if_pos hn]; omega) h
  rw [dup_same e] at this
  exact this

theorem handleStake_dup_le {L L' : Ledger} {signer a : Addr} {amount : Nat} {cs : List Nat} {delegate compound : Bool} {output : Addr}
    (hn : cs.Nodup) (h : handleStake L signer a amount cs delegate compound output = .ok L') : dupCommittees L' ≤ dupCommittees L := by
  obtain ⟨_, _, L1, L2, L3, h1, h2, h3, rfl⟩ := handleStake_inv h
  have e1 := (sameStaking_accountSub h1).validators
  obtain rfl := addToStaked_ok h2
  have e3 : L3.validators = L.validators := by
    split at h3
    · obtain ⟨Lb, hb, h3⟩ := h3
      rw [addToDelegated_ok hb] at h3
      rw [(sameCore_setDelegations h3).validators]; exact e1
    · rw [(sameCore_setCommittees h3).validators]; exact e1
  exact dup_valPut_nodup e3 hn

/-! ### slashing: the list stays or loses the slashed committee -/

theorem dupC_erase_le (val : Validator) (ch : Nat) (v' : Validator) (hc : v'.committees = val.committees.erase ch) : dupC v' ≤ dupC val := by
  unfold dupC
  by_cases hn : val.committees.Nodup
  · rw [if_pos hn, hc, if_pos (hn.erase ch)]; omega
  · rw [if_neg hn]; split <;> omega

theorem slashValidator_dup_le {L L' : Ledger} {a : Addr} {val : Validator} {ch p : Nat} (hg : valGet? L a = some val)
    (h : slashValidator L a val ch p = .ok L') : dupCommittees L' ≤ dupCommittees L := by
  unfold slashValidator slashValidatorWith at h
  split at h
  · obtain rfl := Except.ok.inj h; exact Nat.le_refl _
  · next p' cs' L0 hsc =>
    have e0 : L0.validators = L.validators ∧ (cs' = val.committees ∨ cs' = val.committees.erase ch) := by
      refine ⟨(sameStaking_slashScope hsc).validators, ?_⟩
      unfold slashScope at hsc
      split at hsc
      · split at hsc
        · cases hsc
        · dsimp only at hsc
          split at hsc
          · cases hsc
          · simp only [Option.some.injEq, Prod.mk.injEq] at hsc
            obtain ⟨_, rfl, _⟩ := hsc
            split
            · exact Or.inr rfl
            · exact Or.inl rfl
      · simp only [Option.some.injEq, Prod.mk.injEq] at hsc
        obtain ⟨_, rfl, _⟩ := hsc
        exact Or.inl rfl
    dsimp only at h
    split at h
    · exact absurd h (by intro h; cases h)
    · next L1 h1 =>
      obtain ⟨_, rfl⟩ := subFromTotal_ok h1
      split at h
      · -- the record is deleted
        unfold deleteValidator at h
        obtain ⟨La, ha, h⟩ := bind_ok h
        obtain ⟨_, rfl⟩ := subFromStaked_ok ha
        have ev : (slashCleanMarkers true { L0 with supply := { L0.supply with total := L0.supply.total - (val.stake - stakeAfterSlash val.stake p') } } a val).validators = L.validators := by
          unfold slashCleanMarkers
          dsimp only
          rw [← e0.1]
          split <;> split <;> rfl
        dsimp only at h
        split at h
        · obtain ⟨Lb, hb, h⟩ := bind_ok h
          obtain ⟨Lc, hc, h⟩ := bind_ok h
          obtain rfl := Except.ok.inj h
          obtain ⟨_, rfl⟩ := subFromDelegated_ok hb
          exact dup_valDel_le ((sameCore_deleteDelegations hc).validators.trans ev)
        · obtain ⟨Lc, hc, h⟩ := bind_ok h
          obtain rfl := Except.ok.inj h
          exact dup_valDel_le ((sameCore_deleteCommittees hc).validators.trans ev)
      · split at h
        · exact absurd h (by intro h; cases h)
        · next L2 h2 =>
          obtain ⟨_, rfl⟩ := subFromStaked_ok h2
          split at h
          · exact absurd h (by intro h; cases h)
          · next L3 h3 =>
            obtain rfl := Except.ok.inj h
            have e3 : L3.validators = L.validators := by
              unfold slashMembership at h3
              split at h3
              · obtain ⟨Lb, hb, h3⟩ := bind_ok h3
                obtain ⟨_, rfl⟩ := subFromDelegated_ok hb
                rw [(sameCore_updateDelegations h3).validators]; exact e0.1
              · rw [(sameCore_updateCommittees h3).validators]; exact e0.1
            have hle : dupC { val with committees := cs', stake := stakeAfterSlash val.stake p' } ≤ ow dupC (find? L.validators a) := by
              rw [dupC_of_get hg]
              rcases e0.2 with rfl | rfl
              · exact Nat.le_refl _
              · exact dupC_erase_le val ch _ rfl
            unfold slashFinish
            dsimp only
            split
            · have := setUnstakingIfBelowMinimum_dup_le (L := L3) (a := a) (val := { val with committees := cs', stake := stakeAfterSlash val.stake p' }) (by rw [e3]; exact hle)
              rw [dup_same e3] at this; exact this
            · have e4 : (setUnstakingIfBelowMinimum L3 a { val with committees := cs', stake := stakeAfterSlash val.stake p' }).2 = L3 := by
                rename_i hr
                unfold setUnstakingIfBelowMinimum at hr ⊢
                split
                · rfl
                · split
                  · split
                    · rw [if_neg (by assumption), if_pos (by assumption), if_pos (by assumption)] at hr; exact absurd rfl hr
                    · rfl
                  · split
                    · rw [if_neg (by assumption), if_neg (by assumption), if_pos (by assumption)] at hr; exact absurd rfl hr
                    · rfl
              rw [e4]
              exact dup_valPut_le e3 hle

theorem slashValidators_dup_le {ch p : Nat} : ∀ {as : List Addr} {L L' : Ledger}, slashValidators L ch p as = .ok L' →
    dupCommittees L' ≤ dupCommittees L
  | [], L, L', h => by obtain rfl := Except.ok.inj h; exact Nat.le_refl _
  | a :: as, L, L', h => by
    unfold slashValidators slashValidatorsWith at h
    split at h
    · exact slashValidators_dup_le (as := as) h
    · next val hv =>
      obtain ⟨L1, h1, h2⟩ := bind_ok h
      exact Nat.le_trans (slashValidators_dup_le (as := as) h2) (slashValidator_dup_le hv h1)

/-! ### `ConformStateToParamUpdate`: the rotation picks distinct positions of the old list -/

theorem getD_mem : ∀ (l : List Nat) (i : Nat), i < l.length → l.getD i 0 ∈ l
  | [], _, h => by simp at h
  | x :: t, 0, _ => by simp
  | x :: t, i + 1, h => by
    have := getD_mem t i (by simpa using h)
    simp only [List.getD_cons_succ]
    exact List.mem_cons_of_mem _ this

theorem getD_inj_of_nodup : ∀ (l : List Nat), l.Nodup → ∀ i j, i < l.length → j < l.length → l.getD i 0 = l.getD j 0 → i = j
  | [], _, _, _, h, _, _ => by simp at h
  | x :: t, hn, i, j, hi, hj, e => by
    rw [List.nodup_cons] at hn
    cases i with
    | zero =>
      cases j with
      | zero => rfl
      | succ j =>
        simp only [List.getD_cons_zero, List.getD_cons_succ] at e
        exact absurd (e ▸ getD_mem t j (by simpa using hj)) hn.1
    | succ i =>
      cases j with
      | zero =>
        simp only [List.getD_cons_zero, List.getD_cons_succ] at e
        exact absurd (e ▸ getD_mem t i (by simpa using hi)) hn.1
      | succ j =>
        simp only [List.getD_cons_succ] at e
        rw [getD_inj_of_nodup t hn.2 i j (by simpa using hi) (by simpa using hj) e]

theorem trimCommittees_nodup {cs : List Nat} {maxC idx : Nat} (hn : cs.Nodup) (hlt : maxC ≤ cs.length) :
    (trimCommittees cs maxC idx).Nodup := by
  unfold trimCommittees
  unfold List.Nodup
  rw [List.pairwise_map]
  refine List.Pairwise.imp_of_mem ?_ (List.pairwise_lt_range (n := maxC))
  intro i j hi hj hij e
  rw [List.mem_range] at hi hj
  have hpos : 0 < cs.length := by omega
  have hmi := Nat.mod_lt (idx % cs.length + i) hpos
  have hmj := Nat.mod_lt (idx % cs.length + j) hpos
  have heq := getD_inj_of_nodup cs hn _ _ hmi hmj e
  have h0 := Nat.sub_mod_eq_zero_of_mod_eq heq.symm
  have : idx % cs.length + j - (idx % cs.length + i) = j - i := by omega
  rw [this, Nat.mod_eq_of_lt (by omega)] at h0
  omega

theorem conformMinStakeStep_dup_le (L : Ledger) (a : Addr) : dupCommittees (conformMinStakeStep L a) ≤ dupCommittees L := by
  unfold conformMinStakeStep
  split
  · next val hv => exact setUnstakingIfBelowMinimum_dup_le (by rw [dupC_of_get hv]; exact Nat.le_refl _)
  · exact Nat.le_refl _

theorem foldl_conformMinStake_dup_le : ∀ (as : List Addr) (L : Ledger), dupCommittees (as.foldl conformMinStakeStep L) ≤ dupCommittees L
  | [], _ => Nat.le_refl _
  | a :: as, L => by
    simp only [List.foldl_cons]
    exact Nat.le_trans (foldl_conformMinStake_dup_le as _) (conformMinStakeStep_dup_le L a)

theorem conformTrimStep_dup_le {acc r : Ledger × Nat} {a : Addr} (h : conformTrimStep acc a = .ok r) :
    dupCommittees r.1 ≤ dupCommittees acc.1 := by
  obtain ⟨L, idx⟩ := acc
  unfold conformTrimStep at h
  dsimp only at h
  split at h
  · obtain rfl := Except.ok.inj h; exact Nat.le_refl _
  · next val hv =>
    split at h
    · obtain rfl := Except.ok.inj h; exact Nat.le_refl _
    · next hlen =>
      split at h
      · exact absurd h (by intro h; cases h)
      · next L1 h1 =>
        obtain rfl := Except.ok.inj h
        have e1 : L1.validators = L.validators := by
          split at h1
          · exact (sameCore_updateDelegations h1).validators
          · exact (sameCore_updateCommittees h1).validators
        refine dup_valPut_le e1 ?_
        rw [dupC_of_get hv]
        unfold dupC
        by_cases hn : val.committees.Nodup
        · rw [if_pos hn, if_pos (trimCommittees_nodup hn (by omega))]; omega
        · rw [if_neg hn]; split <;> omega

theorem foldlM_trim_dup_le : ∀ (as : List Addr) (acc r : Ledger × Nat), as.foldlM conformTrimStep acc = .ok r →
    dupCommittees r.1 ≤ dupCommittees acc.1
  | [], acc, r, h => by obtain rfl := Except.ok.inj h; exact Nat.le_refl _
  | a :: as, acc, r, h => by
    simp only [List.foldlM_cons] at h
    obtain ⟨acc1, h1, h2⟩ := bind_ok h
    exact Nat.le_trans (foldlM_trim_dup_le as acc1 r h2) (conformTrimStep_dup_le h1)

theorem handleChangeParameter_dup_le {L L' : Ledger} {space key : String} {v start stop : Nat}
    (h : handleChangeParameter L space key v start stop = .ok L') : dupCommittees L' ≤ dupCommittees L := by
  unfold handleChangeParameter at h
  split at h
  · exact absurd h (by intro h; cases h)
  · split at h
    · exact absurd h (by intro h; cases h)
    · next p hp =>
      unfold conformStateToParamUpdate at h
      dsimp only at h
      have e1 : dupCommittees (conformMinStake { L with params := p } L.params) ≤ dupCommittees L := by
        unfold conformMinStake
        split
        · exact foldl_conformMinStake_dup_le _ _
        · exact Nat.le_refl _
      split at h
      · obtain rfl := Except.ok.inj h; exact e1
      · split at h
        · exact absurd h (by intro h; cases h)
        · next r hr =>
          obtain rfl := Except.ok.inj h
          exact Nat.le_trans (foldlM_trim_dup_le _ _ r hr) e1

/-! ### transactions -/

theorem handleMessage_dup_le {L L' : Ledger} {sender : Addr} {msg : Msg} (hc : msg.check = .ok ())
    (h : handleMessage L sender msg = .ok L') : dupCommittees L' ≤ dupCommittees L := by
  cases msg with
  | send s d x =>
    simp only [handleMessage, handleSend] at h
    obtain ⟨L1, h1, h2⟩ := bind_ok h
    exact Nat.le_of_eq (dup_same ((sameStaking_accountSub h1).trans (sameStaking_accountAdd h2)).validators)
  | sendVesting s d x st cl en =>
    simp only [handleMessage, handleSendVesting] at h
    obtain ⟨_, _, h⟩ := bind_ok h
    obtain ⟨L1, h1, h2⟩ := bind_ok h
    exact Nat.le_of_eq (dup_same ((sameStaking_accountSub h1).trans (sameStaking_accountAddWithVesting h2)).validators)
  | stake a x cs dl c o =>
    simp only [Msg.check] at hc
    obtain ⟨_, hcc, _⟩ := bind_ok hc
    exact handleStake_dup_le (checkCommittees_nodup hcc) h
  | editStake a x cs c o =>
    simp only [Msg.check] at hc
    obtain ⟨_, hcc, _⟩ := bind_ok hc
    exact handleEditStake_dup_le (checkCommittees_nodup hcc) h
  | unstake a => exact handleUnstake_dup_le h
  | pause a => exact handlePause_dup_le h
  | unpause a => exact handleUnpause_dup_le h
  | daoTransfer a x m s e =>
    simp only [handleMessage, handleDaoTransfer] at h
    obtain ⟨_, _, h⟩ := bind_ok h
    obtain ⟨L2, h2, h3⟩ := bind_ok h
    have s1 : SameStaking L (if m = true then mintToPool L Canopy.Gen.LedgerFacts.daoPoolId x else L) := by
      split
      · exact mintToPool_sameStaking ..
      · exact SameStaking.refl L
    exact Nat.le_of_eq (dup_same ((s1.trans (sameStaking_poolSub h2)).trans (sameStaking_accountAdd h3)).validators)
  | subsidy a c x =>
    simp only [handleMessage, handleSubsidy] at h
    split at h
    · exact absurd h (by intro h; cases h)
    · obtain ⟨L1, h1, h2⟩ := bind_ok h
      obtain rfl := Except.ok.inj h2
      exact Nat.le_of_eq (dup_same ((sameStaking_accountSub h1).trans (sameStaking_poolAdd _ _ _)).validators)
  | changeParameter sg sp k v s e => exact handleChangeParameter_dup_le h

theorem applyTx_dup_le {L L' : Ledger} {sender : Addr} {fee : Nat} {msg : Msg} (h : applyTx L sender fee msg = .ok L') :
    dupCommittees L' ≤ dupCommittees L := by
  unfold applyTx at h
  split at h
  · exact absurd h (by intro h; cases h)
  · next u hc =>
    split at h
    · exact absurd h (by intro h; cases h)
    · split at h
      · exact absurd h (by intro h; cases h)
      · split at h
        · exact absurd h (by intro h; cases h)
        · split at h
          · exact absurd h (by intro h; cases h)
          · next L1 h1 =>
            split at h
            · exact absurd h (by intro h; cases h)
            · next L2 h2 =>
              have ss := (sameStaking_txFaucet h1).trans (sameStaking_deductFees h2)
              have := handleMessage_dup_le (by cases u; exact hc) h
              rw [dup_same ss.validators] at this
              exact this

/-! ### certificate results -/

theorem setValidatorsPaused_dup_le (chain : Nat) : ∀ (as : List Addr) (L : Ledger),
    dupCommittees (setValidatorsPaused L chain as) ≤ dupCommittees L
  | [], _ => Nat.le_refl _
  | a :: as, L => by
    unfold setValidatorsPaused
    split
    · exact setValidatorsPaused_dup_le chain as L
    · split
      · exact setValidatorsPaused_dup_le chain as L
      · split
        · next L1 h1 => exact Nat.le_trans (setValidatorsPaused_dup_le chain as L1) (handlePause_dup_le h1)
        · exact setValidatorsPaused_dup_le chain as L

theorem handleCertificateResults_dup_le {L L' : Ledger} {qh qrh : Nat} {members : List (Addr × Nat × Bool)}
    {ds : List (Addr × List Nat)} {pay : List (Addr × Nat × Nat)}
    (h : handleCertificateResults L qh qrh members ds pay = .ok L') : dupCommittees L' ≤ dupCommittees L := by
  unfold handleCertificateResults at h
  dsimp only at h
  split at h
  · exact absurd h (by intro h; cases h)
  · split at h
    · exact absurd h (by intro h; cases h)
    · split at h
      · exact absurd h (by intro h; cases h)
      · split at h
        · exact absurd h (by intro h; cases h)
        · next r hr =>
          have k : dupCommittees r.1 ≤ dupCommittees L := by
            unfold handleByzantine at hr
            split at hr
            · exact absurd hr (by intro h; cases h)
            · next L1 h1 =>
              have k1 : dupCommittees L1 ≤ dupCommittees L := by
                split at h1
                · unfold slashAndResetNonSigners at h1
                  dsimp only at h1
                  split at h1
                  · exact absurd h1 (by intro h; cases h)
                  · next L2 h2 =>
                    obtain rfl := Except.ok.inj h1
                    have k2 : dupCommittees L2 ≤ dupCommittees L :=
                      Nat.le_trans (slashValidators_dup_le h2) (setValidatorsPaused_dup_le _ _ _)
                    exact k2
                · obtain rfl := Except.ok.inj h1; exact Nat.le_refl _
              dsimp only at hr
              split at hr
              · exact absurd hr (by intro h; cases h)
              · next L3 h3 =>
                obtain rfl := Except.ok.inj hr
                unfold handleDoubleSigners at h3
                split at h3
                · exact absurd h3 (by intro h; cases h)
                · next r' hr' =>
                  have ss := (sameStaking_incrementNonSigners _ _ L1).trans (sameStaking_indexDoubleSigners ds _ r' hr')
                  have := slashValidators_dup_le h3
                  rw [dup_same ss.validators] at this
                  exact Nat.le_trans this k1
          unfold upsertCommitteeData at h
          dsimp only at h
          split at h
          · exact absurd h (by intro h; cases h)
          · split at h
            · exact absurd h (by intro h; cases h)
            · split at h
              · exact absurd h (by intro h; cases h)
              · split at h
                · exact absurd h (by intro h; cases h)
                · obtain rfl := Except.ok.inj h
                  have : ∀ (X : Ledger) (cd : CommitteeData), dupCommittees (putCommitteeData X cd) = dupCommittees X := by
                    intro X cd; unfold putCommitteeData; split <;> rfl
                  rw [this]; exact k

/-! ### genesis -/

theorem foldlM_genesisAccount_validators : ∀ (es : List (Addr × Nat)) (L L' : Ledger), es.foldlM genesisAccount L = .ok L' →
    L'.validators = L.validators
  | [], L, L', h => by obtain rfl := Except.ok.inj h; rfl
  | e :: es, L, L', h => by
    simp only [List.foldlM_cons] at h
    obtain ⟨L1, h1, h2⟩ := bind_ok h
    unfold genesisAccount at h1
    split at h1
    · exact absurd h1 (by intro h; cases h)
    · obtain rfl := Except.ok.inj h1
      exact (foldlM_genesisAccount_validators es _ L' h2).trans rfl

theorem foldlM_genesisPool_validators : ∀ (es : List (Nat × Nat)) (L L' : Ledger), es.foldlM genesisPool L = .ok L' →
    L'.validators = L.validators
  | [], L, L', h => by obtain rfl := Except.ok.inj h; rfl
  | e :: es, L, L', h => by
    simp only [List.foldlM_cons] at h
    obtain ⟨L1, h1, h2⟩ := bind_ok h
    unfold genesisPool at h1
    split at h1
    · exact absurd h1 (by intro h; cases h)
    · obtain rfl := Except.ok.inj h1
      exact (foldlM_genesisPool_validators es _ L' h2).trans rfl

theorem genesisValidator_dup_le {L L' : Ledger} {g : GenesisValidator} (hn : g.val.committees.Nodup)
    (h : genesisValidator L g = .ok L') : dupCommittees L' ≤ dupCommittees L := by
  have h0 : ∀ a, dupC g.val ≤ ow dupC (find? L.validators a) := by intro a; unfold dupC; rw [if_pos hn]; omega
  unfold genesisValidator at h
  dsimp only at h
  split at h
  · exact absurd h (by intro h; cases h)
  · split at h
    · exact absurd h (by intro h; cases h)
    · have k1 : dupCommittees (if g.val.unstakingHeight ≠ 0 then setValidatorUnstaking L g.addr g.val g.val.unstakingHeight
          else if g.val.maxPausedHeight ≠ 0 then setValidatorPaused L g.addr g.val g.val.maxPausedHeight else L) ≤ dupCommittees L := by
        split
        · exact setValidatorUnstaking_dup_le _ (h0 _)
        · split
          · exact setValidatorPaused_dup_le _ (h0 _)
          · exact Nat.le_refl _
      have hv1 : (if g.val.unstakingHeight ≠ 0 then { g.val with maxPausedHeight := 0 } else g.val : Validator).committees.Nodup := by
        split <;> exact hn
      split at h
      · have := (sameCore_setDelegations h).validators
        rw [dup_same this]
        exact Nat.le_trans (dup_valPut_nodup rfl hv1) k1
      · have := (sameCore_setCommittees h).validators
        rw [dup_same this]
        exact Nat.le_trans (dup_valPut_nodup rfl hv1) k1

theorem foldlM_genesisValidator_dup_le : ∀ (vals : List GenesisValidator) (L L' : Ledger), (∀ g ∈ vals, g.val.committees.Nodup) →
    vals.foldlM genesisValidator L = .ok L' → dupCommittees L' ≤ dupCommittees L
  | [], L, L', _, h => by obtain rfl := Except.ok.inj h; exact Nat.le_refl _
  | g :: vals, L, L', hn, h => by
    simp only [List.foldlM_cons] at h
    obtain ⟨L1, h1, h2⟩ := bind_ok h
    exact Nat.le_trans (foldlM_genesisValidator_dup_le vals L1 L' (fun g' hg' => hn g' (List.mem_cons_of_mem _ hg')) h2)
      (genesisValidator_dup_le (hn g (List.mem_cons_self ..)) h1)

/-- an accepted genesis has duplicate-free committee lists (the loader rejects the others since 0262f16) -/
theorem genesis_dup_zero {cfg : Config} {params : Params} {accounts : List (Addr × Nat)} {pools : List (Nat × Nat)}
    {vals : List GenesisValidator} {retired : List Nat} {books : List GenesisBook} {L : Ledger}
    (h : genesis cfg params accounts pools vals retired books = .ok L) : dupCommittees L = 0 := by
  unfold genesis at h
  split at h
  · exact absurd h (by intro h; cases h)
  · next hval =>
    unfold validateGenesis at hval
    split at hval
    · exact absurd hval (by intro h; cases h)
    · split at hval
      · exact absurd hval (by intro h; cases h)
      · split at hval
        · exact absurd hval (by intro h; cases h)
        · next hcv =>
          have hdc := (genesisValidatorsError_none _ _ hcv).2.2
          split at h
          · exact absurd h (by intro h; cases h)
          · next L1 h1 =>
            split at h
            · exact absurd h (by intro h; cases h)
            · next L2 h2 =>
              split at h
              · exact absurd h (by intro h; cases h)
              · next L3 h3 =>
                split at h
                · exact absurd h (by intro h; cases h)
                next L4 h4 =>
                obtain rfl := Except.ok.inj h
                have e4 := (foldlM_genesisBook_rest books L3 L4 h4).validators
                have e1 := foldlM_genesisAccount_validators _ _ _ h1
                have e2 := foldlM_genesisPool_validators _ _ _ h2
                have k := foldlM_genesisValidator_dup_le vals L2 L3 (fun g hg => hasDup_false_nodup _ (hdc g hg)) h3
                have z : dupCommittees L2 = 0 := by unfold dupCommittees; rw [e2, e1]; rfl
                show dupCommittees L4 = 0
                rw [dup_same e4]
                omega

end Canopy.Ledger
