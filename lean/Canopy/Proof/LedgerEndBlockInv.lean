import Canopy.Proof.LedgerConformInv
/-! C12: the full `InvStaking` through `EndBlock`: max-pause force-unstake, finished unstaking, reward distribution
with auto-compounding. -/
namespace Canopy.Ledger
open AMap

set_option linter.unusedSimpArgs false
set_option linter.unusedVariables false

/-! ### max-pause force-unstake -/

theorem has_del_absent {κ} [DecidableEq κ] (m : KSet κ) (k k' : κ) (h : KSet.has m k = false) :
    KSet.has (KSet.del m k) k' = KSet.has m k' := by
  by_cases hk : k = k'
  · subst hk
    rw [h]
    cases hd : KSet.has (KSet.del m k) k with
    | false => rfl
    | true => rw [has_del_of m k k hd] at h; cases h
  · exact has_del_ne m hk

theorem forceUnstakeValidator_inv {L : Ledger} (a : Addr) (hs : InvStaking L) (hh : (L.height + L.params.unstakingBlocks) % U64 ≠ 0) :
    InvStaking (forceUnstakeValidator L a) ∧ SameCtx L (forceUnstakeValidator L a) ∧
    (∀ k, KSet.has (forceUnstakeValidator L a).paused k = true → KSet.has L.paused k = true) ∧
    KSet.has (forceUnstakeValidator L a).paused (L.height, a) = false := by
  have absent_or : KSet.has L.paused (L.height, a) = false ∨ KSet.has L.paused (L.height, a) = true := by
    cases KSet.has L.paused (L.height, a) <;> simp
  unfold forceUnstakeValidator
  split
  · next hv =>
    refine ⟨hs, SameCtx.refl L, fun k hk => hk, ?_⟩
    rcases absent_or with h0 | h1
    · exact h0
    · obtain ⟨v, hv', _, _⟩ := (hs.markers.paused _ _).1 h1
      rw [hv] at hv'; cases hv'
  · next val hv =>
    split
    · next hu =>
      refine ⟨hs, SameCtx.refl L, fun k hk => hk, ?_⟩
      rcases absent_or with h0 | h1
      · exact h0
      · obtain ⟨v, hv', he, hne⟩ := (hs.markers.paused _ _).1 h1
        rw [hv] at hv'; cases hv'
        have := hs.markers.exclusive a val hv hu
        rw [this] at he; exact absurd he.symm hne
    · next hu =>
      have hu0 : val.unstakingHeight = 0 := by simpa using hu
      have hm := setValidatorUnstaking_money L a val ((L.height + L.params.unstakingBlocks) % U64)
      obtain ⟨m, w⟩ := markers_setValidatorUnstaking (val := val) hs.markers hs.wfm hv hu0 rfl hh
      have hpa : (setValidatorUnstaking L a val ((L.height + L.params.unstakingBlocks) % U64)).paused =
          if val.maxPausedHeight ≠ 0 then KSet.del L.paused (val.maxPausedHeight, a) else L.paused := by
        unfold setValidatorUnstaking valPut; split <;> rfl
      refine ⟨InvStaking.mk' (tallies_status hs.tallies hv hm.supply (setValidatorUnstaking_validators ..) rfl rfl rfl) m w
        ⟨by rw [hm.supply]; exact hs.wf.committee, by rw [hm.supply]; exact hs.wf.delegated⟩, ?_, ?_, ?_⟩
      · unfold setValidatorUnstaking valPut; split <;> exact ⟨rfl, rfl, rfl, rfl⟩
      · intro k hk
        rw [hpa] at hk
        split at hk
        · exact has_del_of _ _ _ hk
        · exact hk
      · rw [hpa]
        rcases absent_or with h0 | h1
        · split
          · cases hd : KSet.has (KSet.del L.paused (val.maxPausedHeight, a)) (L.height, a) with
            | false => rfl
            | true => rw [has_del_of _ _ _ hd] at h0; cases h0
          · exact h0
        · obtain ⟨v, hv', he, hne⟩ := (hs.markers.paused _ _).1 h1
          rw [hv] at hv'; cases hv'
          rw [if_pos (by rw [he]; exact hne), he]
          exact has_del_self _ _ hs.wf.paused

theorem foldl_forceUnstake_inv : ∀ (as : List Addr) (L : Ledger), InvStaking L → (L.height + L.params.unstakingBlocks) % U64 ≠ 0 →
    InvStaking (as.foldl forceUnstakeValidator L) ∧ SameCtx L (as.foldl forceUnstakeValidator L) ∧
    (∀ k, KSet.has (as.foldl forceUnstakeValidator L).paused k = true → KSet.has L.paused k = true) ∧
    (∀ b ∈ as, KSet.has (as.foldl forceUnstakeValidator L).paused (L.height, b) = false)
  | [], L, hs, _ => ⟨hs, SameCtx.refl L, fun k hk => hk, fun b hb => by simp at hb⟩
  | a :: as, L, hs, hh => by
    obtain ⟨i1, c1, mono1, abs1⟩ := forceUnstakeValidator_inv a hs hh
    obtain ⟨i2, c2, mono2, abs2⟩ := foldl_forceUnstake_inv as _ i1 (by rw [c1.height, c1.params]; exact hh)
    refine ⟨i2, c1.trans c2, fun k hk => mono1 k (mono2 k hk), ?_⟩
    intro b hb
    simp only [List.mem_cons] at hb
    rcases hb with rfl | hb
    · cases hd : KSet.has (List.foldl forceUnstakeValidator (forceUnstakeValidator L b) as).paused (L.height, b) with
      | false => exact hd
      | true => rw [mono2 _ hd] at abs1; cases abs1
    · have := abs2 b hb; rw [c1.height] at this; exact this

/-- deleting paused keys that are not there changes nothing the invariant sees -/
theorem foldl_pausedDel_inv : ∀ (as : List Addr) (L : Ledger), InvStaking L →
    (∀ b ∈ as, KSet.has L.paused (L.height, b) = false) →
    InvStaking (as.foldl (fun L a => { L with paused := KSet.del L.paused (L.height, a) }) L)
  | [], L, hs, _ => hs
  | a :: as, L, hs, habs => by
    have h0 := habs a (List.mem_cons_self ..)
    have hs1 : InvStaking { L with paused := KSet.del L.paused (L.height, a) } := by
      refine ⟨⟨hs.tallies.staked, hs.tallies.delegated, hs.tallies.committee, hs.tallies.committeeDelegated⟩, ⟨hs.markers.unstaking, ?_, hs.markers.exclusive⟩,
        ⟨hs.wf.validators, hs.wf.unstaking, nodup_erase _ _ hs.wf.paused, hs.wf.committee, hs.wf.delegated⟩⟩
      intro h b
      show KSet.has (KSet.del L.paused (L.height, a)) (h, b) = true ↔ _
      rw [has_del_absent _ _ _ h0]; exact hs.markers.paused h b
    refine foldl_pausedDel_inv as _ hs1 ?_
    intro b hb
    show KSet.has (KSet.del L.paused (L.height, a)) (L.height, b) = false
    rw [has_del_absent _ _ _ h0]; exact habs b (List.mem_cons_of_mem _ hb)

/-- `ForceUnstakeMaxPaused` keeps `InvStaking` -/
theorem forceUnstakeMaxPaused_inv {L : Ledger} (hs : InvStaking L) (hh : (L.height + L.params.unstakingBlocks) % U64 ≠ 0) :
    InvStaking (forceUnstakeMaxPaused L) := by
  unfold forceUnstakeMaxPaused
  dsimp only
  obtain ⟨i1, c1, _, abs1⟩ := foldl_forceUnstake_inv (dueAt L.paused L.height) L hs hh
  exact foldl_pausedDel_inv _ _ i1 (fun b hb => by rw [c1.height]; exact abs1 b hb)

end Canopy.Ledger

namespace Canopy.Ledger
open AMap
set_option linter.unusedSimpArgs false
set_option linter.unusedVariables false

/-! ### finished unstaking -/

theorem finishUnstakingStep_paused {L L' : Ledger} {a : Addr} (h : finishUnstakingStep L a = .ok L') : L'.paused = L.paused := by
  unfold finishUnstakingStep at h
  split at h
  · exact absurd h (by intro h; cases h)
  · split at h
    · exact absurd h (by intro h; cases h)
    · next La ha =>
      obtain ⟨acc, vs, rfl, _⟩ := accountAdd_ok ha
      unfold deleteValidator at h
      obtain ⟨L1, h1, h⟩ := bind_ok h
      obtain ⟨_, rfl⟩ := subFromStaked_ok h1
      dsimp only at h
      split at h
      · obtain ⟨L1', h3, h⟩ := bind_ok h
        obtain ⟨_, rfl⟩ := subFromDelegated_ok h3
        dsimp only at h
        obtain ⟨L2, h2, h⟩ := bind_ok h
        obtain rfl := Except.ok.inj h
        exact (sameCore_deleteDelegations h2).paused
      · obtain ⟨L2, h2, h⟩ := bind_ok h
        obtain rfl := Except.ok.inj h
        exact (sameCore_deleteCommittees h2).paused

theorem foldlM_finishUnstaking_paused : ∀ (as : List Addr) (L L' : Ledger), as.foldlM finishUnstakingStep L = .ok L' → L'.paused = L.paused
  | [], L, L', h => by obtain rfl := Except.ok.inj h; rfl
  | a :: as, L, L', h => by
    simp only [List.foldlM_cons] at h
    obtain ⟨L1, h1, h2⟩ := bind_ok h
    exact (foldlM_finishUnstaking_paused as L1 L' h2).trans (finishUnstakingStep_paused h1)

/-- the marker deletion fold, characterised completely -/
theorem foldl_unstakingDel_iff : ∀ (as : List Addr) (L : Ledger), NodupKeys L.unstaking →
    let L' := as.foldl (fun L a => { L with unstaking := KSet.del L.unstaking (L.height, a) }) L
    L'.validators = L.validators ∧ L'.supply = L.supply ∧ L'.paused = L.paused ∧ NodupKeys L'.unstaking ∧
    (∀ k, KSet.has L'.unstaking k = true ↔ (KSet.has L.unstaking k = true ∧ ∀ b ∈ as, k ≠ (L.height, b)))
  | [], L, hn => ⟨rfl, rfl, rfl, hn, fun k => ⟨fun hk => ⟨hk, fun _ h => by simp at h⟩, fun hk => hk.1⟩⟩
  | a :: as, L, hn => by
    have hn1 : NodupKeys (KSet.del L.unstaking (L.height, a)) := nodup_erase _ _ hn
    obtain ⟨i1, i2, i3, i4, i5⟩ := foldl_unstakingDel_iff as { L with unstaking := KSet.del L.unstaking (L.height, a) } hn1
    refine ⟨i1, i2, i3, i4, ?_⟩
    intro k
    constructor
    · intro hk
      obtain ⟨j1, j2⟩ := (i5 k).1 hk
      refine ⟨has_del_of _ _ _ j1, ?_⟩
      intro b hb
      simp only [List.mem_cons] at hb
      rcases hb with rfl | hb
      · intro e; subst e
        have : KSet.has (KSet.del L.unstaking (L.height, b)) (L.height, b) = false := has_del_self _ _ hn
        rw [this] at j1; cases j1
      · exact j2 b hb
    · rintro ⟨j1, j2⟩
      refine (i5 k).2 ⟨?_, fun b hb => j2 b (List.mem_cons_of_mem _ hb)⟩
      show KSet.has (KSet.del L.unstaking (L.height, a)) k = true
      rw [has_del_ne _ (Ne.symm (j2 a (List.mem_cons_self ..)))]; exact j1

/-- `DeleteFinishedUnstaking` succeeds and keeps the full `InvStaking` -/
theorem deleteFinishedUnstaking_inv {L : Ledger} (hi : InvSupply L) (hs : InvStaking L) :
    ∃ L', deleteFinishedUnstaking L = .ok L' ∧ InvStaking L' ∧ SameCtx L L' := by
  have hl := (⟨hi, hs.tallies, hs.wf.validators, ⟨hs.wf.committee, hs.wf.delegated⟩, hs.wf.unstaking,
    fun h a hb => (hs.markers.unstaking h a).1 hb⟩ : Live L)
  unfold deleteFinishedUnstaking
  dsimp only
  have hnd := nodup_dueAt L.unstaking L.height hl.unst
  have hdue : ∀ a, a ∈ dueAt L.unstaking L.height ↔ KSet.has L.unstaking (L.height, a) = true := by
    intro a; rw [mem_dueAt, has_iff_mem_keys]
  have hex : ∀ a ∈ dueAt L.unstaking L.height, ∃ v, valGet? L a = some v := by
    intro a ha
    obtain ⟨v, hv, _, _⟩ := hl.sound _ _ ((hdue a).1 ha)
    exact ⟨v, hv⟩
  obtain ⟨L1, h1, i1, t1, n1, p1, u1, c1, k1, d1⟩ :=
    foldlM_finishUnstaking_ok (dueAt L.unstaking L.height) L hl.supply hl.tallies hl.vals hl.pools hnd hex
  have pa1 := foldlM_finishUnstaking_paused _ L L1 h1
  rw [h1]
  dsimp only
  obtain ⟨j1, j2, j3, j4, j5⟩ := foldl_unstakingDel_iff (dueAt L.unstaking L.height) L1 (by rw [u1]; exact hl.unst)
  refine ⟨_, rfl, ?_, ?_⟩
  · have hget : ∀ b, valGet? (List.foldl (fun L a => { L with unstaking := KSet.del L.unstaking (L.height, a) }) L1 (dueAt L.unstaking L.height)) b =
        if b ∈ dueAt L.unstaking L.height then none else valGet? L b := by
      intro b
      unfold valGet?; rw [j1]
      by_cases hb : b ∈ dueAt L.unstaking L.height
      · rw [if_pos hb]; exact d1 b hb
      · rw [if_neg hb]; exact k1 b hb
    refine InvStaking.mk' ?_ ⟨?_, ?_, ?_⟩ ⟨by rw [j1]; exact n1, j4, by rw [j3, pa1]; exact hs.wf.paused⟩
      ⟨by rw [j2]; exact p1.committee, by rw [j2]; exact p1.delegated⟩
    · exact ⟨by unfold stakeSum; rw [j2, j1]; exact t1.staked, by unfold dstakeSum; rw [j2, j1]; exact t1.delegated,
        fun c => by unfold comGet comSum; rw [j2, j1]; exact t1.committee c,
        fun c => by unfold delGet dcomSum; rw [j2, j1]; exact t1.committeeDelegated c⟩
    · -- unstaking markers
      intro h b
      rw [j5, hget, u1, c1.height]
      constructor
      · rintro ⟨q1, q2⟩
        obtain ⟨v, hv, he, hne⟩ := (hs.markers.unstaking h b).1 q1
        have hb : b ∉ dueAt L.unstaking L.height := by
          intro hm
          obtain ⟨v2, hv2, he2, _⟩ := (hs.markers.unstaking _ _).1 ((hdue b).1 hm)
          rw [hv] at hv2; cases hv2
          exact q2 b hm (by rw [← he, he2])
        exact ⟨v, by rw [if_neg hb]; exact hv, he, hne⟩
      · rintro ⟨v, hv, he, hne⟩
        by_cases hb : b ∈ dueAt L.unstaking L.height
        · rw [if_pos hb] at hv; cases hv
        · rw [if_neg hb] at hv
          refine ⟨(hs.markers.unstaking h b).2 ⟨v, hv, he, hne⟩, ?_⟩
          intro b' hb' e
          simp only [Prod.mk.injEq] at e
          exact hb (e.2 ▸ hb')
    · -- paused markers: a validator that finished unstaking was not paused
      intro h b
      rw [j3, pa1, hget]
      constructor
      · intro q1
        obtain ⟨v, hv, he, hne⟩ := (hs.markers.paused h b).1 q1
        have hb : b ∉ dueAt L.unstaking L.height := by
          intro hm
          obtain ⟨v2, hv2, he2, hne2⟩ := (hs.markers.unstaking _ _).1 ((hdue b).1 hm)
          rw [hv] at hv2; cases hv2
          have := hs.markers.exclusive b v hv (by rw [he2]; exact hne2)
          rw [this] at he; exact hne he.symm
        exact ⟨v, by rw [if_neg hb]; exact hv, he, hne⟩
      · rintro ⟨v, hv, he, hne⟩
        by_cases hb : b ∈ dueAt L.unstaking L.height
        · rw [if_pos hb] at hv; cases hv
        · rw [if_neg hb] at hv; exact (hs.markers.paused h b).2 ⟨v, hv, he, hne⟩
    · intro b v hv
      rw [hget] at hv
      by_cases hb : b ∈ dueAt L.unstaking L.height
      · rw [if_pos hb] at hv; cases hv
      · rw [if_neg hb] at hv; exact hs.markers.exclusive b v hv
  · obtain ⟨_, _, _, _, c5, _, _⟩ := foldl_unstakingDel (dueAt L.unstaking L.height) L1 (by rw [u1]; exact hl.unst)
    exact c1.trans c5

end Canopy.Ledger

namespace Canopy.Ledger
open AMap
set_option linter.unusedSimpArgs false
set_option linter.unusedVariables false

/-! ### reward distribution with auto-compounding -/

theorem updateValidatorStake_ctx {L L' : Ledger} {a : Addr} {val : Validator} {cs : List Nat} {amt : Nat}
    (h : updateValidatorStake L a val cs amt = .ok L') : L'.height = L.height ∧ L'.params = L.params := by
  unfold updateValidatorStake at h
  obtain ⟨La, ha, h⟩ := bind_ok h
  rw [addToStaked_ok ha] at h
  dsimp only at h
  split at h
  · obtain ⟨Lb, hb, h⟩ := bind_ok h
    obtain ⟨Lc, hc, h⟩ := bind_ok h
    obtain rfl := Except.ok.inj h
    rw [addToDelegated_ok hb] at hc
    exact ⟨(sameCore_updateDelegations hc).height, (sameCore_updateDelegations hc).params⟩
  · obtain ⟨Lc, hc, h⟩ := bind_ok h
    obtain rfl := Except.ok.inj h
    exact ⟨(sameCore_updateCommittees hc).height, (sameCore_updateCommittees hc).params⟩

theorem distributeReward_inv {L L1 : Ledger} {a : Addr} {p pool samples d : Nat} (hs : InvStaking L)
    (hw : ∀ val, valGet? L a = some val → val.stake + fullOf p pool samples < U64)
    (h : distributeReward L a p pool samples = .ok (d, L1)) : InvStaking L1 ∧ L1.height = L.height ∧ L1.params = L.params := by
  have hr := rewardAmounts_le L p pool samples
  unfold distributeReward at h
  dsimp only at h
  split at h
  · split at h
    · exact absurd h (by intro h; cases h)
    · next L' h1 =>
      simp only [Except.ok.injEq, Prod.mk.injEq] at h
      obtain ⟨_, rfl⟩ := h
      obtain ⟨acc, vs, rfl, _⟩ := accountAdd_ok h1
      exact ⟨hs.of_same rfl rfl rfl rfl rfl rfl rfl, rfl, rfl⟩
  · next val hv =>
    split at h
    · split at h
      · exact absurd h (by intro h; cases h)
      · next L' h1 =>
        simp only [Except.ok.injEq, Prod.mk.injEq] at h
        obtain ⟨_, rfl⟩ := h
        have hw' := hw val hv
        obtain ⟨c1, c2⟩ := updateValidatorStake_ctx h1
        exact ⟨updateValidatorStake_inv (old := val) hs hv rfl rfl rfl rfl rfl (by omega) h1, c1, c2⟩
    · split at h
      · exact absurd h (by intro h; cases h)
      · next L' h1 =>
        simp only [Except.ok.injEq, Prod.mk.injEq] at h
        obtain ⟨_, rfl⟩ := h
        obtain ⟨acc, vs, rfl, _⟩ := accountAdd_ok h1
        exact ⟨hs.of_same rfl rfl rfl rfl rfl rfl rfl, rfl, rfl⟩

theorem distributeStubs_inv {chain pool samples : Nat} : ∀ (ps : List (Addr × Nat)) (L L1 : Ledger) (tot tot' : Nat),
    InvStaking L → poolGet L chain = pool → bal L + fullSum ps pool samples < U64 + pool →
    distributeStubs L pool samples ps tot = .ok (tot', L1) →
    InvStaking L1 ∧ L1.height = L.height ∧ L1.params = L.params
  | [], L, L1, tot, tot', hs, hp, hb, h => by
    simp only [distributeStubs, Except.ok.injEq, Prod.mk.injEq] at h
    obtain ⟨_, rfl⟩ := h
    exact ⟨hs, rfl, rfl⟩
  | (a, p) :: rest, L, L1, tot, tot', hs, hp, hb, h => by
    unfold distributeStubs at h
    simp only [fullSum, List.map_cons, List.sum_cons] at hb
    split at h
    · exact absurd h (by intro h; cases h)
    · next d L2 h1 =>
      have hw : ∀ val, valGet? L a = some val → val.stake + fullOf p pool samples < U64 := by
        intro val hv
        have h1 := stake_le L a val hv
        have h2 := poolGet_le L chain
        unfold bal at hb; omega
      obtain ⟨hd, ht, hpools, hbal, hcd⟩ := distributeReward_ok hw h1
      obtain ⟨i2, e1, e2⟩ := distributeReward_inv hs hw h1
      have hp2 : poolGet L2 chain = pool := by unfold poolGet at hp ⊢; rw [hpools]; exact hp
      have hb2 : bal L2 + fullSum rest pool samples < U64 + pool := by unfold fullSum; omega
      split at h
      · split at h
        · exact absurd h (by intro h; cases h)
        · obtain ⟨i3, f1, f2⟩ := distributeStubs_inv rest L2 L1 (tot + d) tot' i2 hp2 hb2 h
          exact ⟨i3, f1.trans e1, f2.trans e2⟩
      · obtain ⟨i3, f1, f2⟩ := distributeStubs_inv rest L2 L1 tot tot' i2 hp2 hb2 h
        exact ⟨i3, f1.trans e1, f2.trans e2⟩

theorem distributeFor_inv {L L' : Ledger} {d : CommitteeData} (hi : InvSupply L) (hs : InvStaking L)
    (hd : percentSum d.percents ≤ 100 * d.samples) (h : distributeFor L d = .ok L') :
    InvStaking L' ∧ L'.height = L.height ∧ L'.params = L.params := by
  unfold distributeFor at h
  split at h
  · obtain rfl := Except.ok.inj h; exact ⟨hs, rfl, rfl⟩
  · split at h
    · exact absurd h (by intro h; cases h)
    · next r hds =>
      obtain ⟨tot, L1⟩ := r
      have hfs := Nat.le_trans (fullSum_le d.percents (poolGet L d.chainId) d.samples) (fullOf_le_pool hd)
      have hpl := poolGet_le L d.chainId
      obtain ⟨i1, i2⟩ := hi
      obtain ⟨s1, e1, e2⟩ := distributeStubs_inv (chain := d.chainId) d.percents L L1 0 tot hs rfl (by
        unfold bal at i1 ⊢; omega) hds
      unfold distributeFinish at h
      obtain ⟨L2, h2, h⟩ := bind_ok h
      obtain rfl := Except.ok.inj h
      have ss := sameStaking_subFromTotal h2
      have s2 := s1.of_sameStaking ss
      have e3 : (putCommitteeData (poolPut L2 d.chainId 0) { chainId := d.chainId, lastRootHeight := d.lastRootHeight, lastChainHeight := d.lastChainHeight }).height = L2.height := by
        unfold putCommitteeData; split <;> rfl
      have e4 : (putCommitteeData (poolPut L2 d.chainId 0) { chainId := d.chainId, lastRootHeight := d.lastRootHeight, lastChainHeight := d.lastChainHeight }).params = L2.params := by
        unfold putCommitteeData; split <;> rfl
      refine ⟨?_, by rw [e3, ss.ctx.height, e1], by rw [e4, ss.ctx.params, e2]⟩
      unfold putCommitteeData
      split <;> exact s2.of_same rfl rfl rfl rfl rfl rfl rfl

theorem distributeCommitteeRewards_inv {L L' : Ledger} (hi : InvSupply L) (hp : PercentsOK L) (hs : InvStaking L)
    (h : distributeCommitteeRewards L = .ok L') : InvStaking L' ∧ L'.height = L.height ∧ L'.params = L.params := by
  unfold distributeCommitteeRewards at h
  have key : ∀ (ds : List CommitteeData) (A B : Ledger), (∀ d ∈ ds, percentSum d.percents ≤ 100 * d.samples) → InvSupply A →
      InvStaking A → ds.foldlM distributeFor A = .ok B → InvStaking B ∧ B.height = A.height ∧ B.params = A.params := by
    intro ds
    induction ds with
    | nil => intro A B _ _ sA h; obtain rfl := Except.ok.inj h; exact ⟨sA, rfl, rfl⟩
    | cons d ds ih =>
      intro A B hds iA sA h
      simp only [List.foldlM_cons] at h
      obtain ⟨A1, h1, h2⟩ := bind_ok h
      have hd := hds d (List.mem_cons_self ..)
      obtain ⟨s1, e1, e2⟩ := distributeFor_inv iA sA hd h1
      have i1 := (distributeFor_burns iA hd h1).inv iA
      obtain ⟨s2, f1, f2⟩ := ih A1 B (fun d' hd' => hds d' (List.mem_cons_of_mem _ hd')) i1 s1 h2
      exact ⟨s2, f1.trans e1, f2.trans e2⟩
  exact key L.committeesData L L' hp hi hs h

/-- **`EndBlock` keeps the full `InvStaking`** -/
theorem endBlock_inv {L L' : Ledger} (hi : InvSupply L) (hp : PercentsOK L) (hs : InvStaking L) (hh : (L.height + L.params.unstakingBlocks) % U64 ≠ 0)
    (h : endBlock L = .ok L') : InvStaking L' := by
  unfold endBlock at h
  split at h
  · exact absurd h (by intro h; cases h)
  · next L1 h1 =>
    obtain ⟨b1, _⟩ := distributeCommitteeRewards_burns hi hp h1
    obtain ⟨s1, e1, e2⟩ := distributeCommitteeRewards_inv hi hp hs h1
    have i1 := b1.inv hi
    have s2 := forceUnstakeMaxPaused_inv s1 (by rw [e1, e2]; exact hh)
    have i2 := (forceUnstakeMaxPaused_moves L1).inv i1
    obtain ⟨L3, h3, s3, _⟩ := deleteFinishedUnstaking_inv i2 s2
    rw [h3] at h
    dsimp only at h
    obtain rfl := Except.ok.inj h
    exact s3.of_same rfl rfl rfl rfl rfl rfl rfl

end Canopy.Ledger
