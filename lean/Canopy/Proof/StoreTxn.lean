import Canopy.Proof.StoreView
/-! `Txn`: an overlay of pending operations over a parent reader, nested arbitrarily (C10).
`mergeRun` (the `TxnIterator`'s `Valid/Next` loop) yields exactly the prefix scan of the parent's view
with the pending operations applied: own writes visible, deletes hide, ordered, duplicate-free. -/
namespace Canopy.Store
open Canopy

/-- pending operations applied on top of a view -/
def applyOvR (ov : Overlay) (R : View) : View := fun k x =>
  match smGet ov k with
  | some op => op.read = some x
  | none => R k x

/-- order in iteration direction -/
def dlt (reverse : Bool) (a b : Bytes) : Prop := if reverse then blt b a = true else blt a b = true

theorem dlt_irrefl (r : Bool) (a : Bytes) : ¬ dlt r a a := by
  unfold dlt; cases r <;> simp [blt_irrefl]

theorem dlt_trans {r : Bool} {a b c : Bytes} (h1 : dlt r a b) (h2 : dlt r b c) : dlt r a c := by
  unfold dlt at *
  cases r
  · simp only [Bool.false_eq_true, if_false] at *; exact blt_trans h1 h2
  · simp only [if_true] at *; exact blt_trans h2 h1

theorem dlt_asymm {r : Bool} {a b : Bytes} (h1 : dlt r a b) : ¬ dlt r b a :=
  fun h2 => dlt_irrefl r a (dlt_trans h1 h2)

theorem cmpDir_lt {r : Bool} {a b : Bytes} : cmpDir r a b = .lt ↔ dlt r a b := by
  unfold cmpDir dlt
  rcases blt_trichotomy a b with h | h | h
  · have h' := blt_asymm h
    cases r <;> simp [h, h', Ordering.swap]
  · subst h; cases r <;> simp [blt_irrefl, Ordering.swap]
  · have h' := blt_asymm h
    have hne : a ≠ b := by intro e; subst e; simp [blt_irrefl] at h
    cases r <;> simp [h, h', hne, Ordering.swap]

theorem cmpDir_eq {r : Bool} {a b : Bytes} : cmpDir r a b = .eq ↔ a = b := by
  unfold cmpDir
  rcases blt_trichotomy a b with h | h | h
  · have hne : a ≠ b := by intro e; subst e; simp [blt_irrefl] at h
    cases r <;> simp [h, hne, Ordering.swap]
  · subst h; cases r <;> simp [blt_irrefl, Ordering.swap]
  · have h' := blt_asymm h
    have hne : a ≠ b := by intro e; subst e; simp [blt_irrefl] at h
    cases r <;> simp [h', hne, Ordering.swap]

theorem cmpDir_gt {r : Bool} {a b : Bytes} : cmpDir r a b = .gt ↔ dlt r b a := by
  unfold cmpDir dlt
  rcases blt_trichotomy a b with h | h | h
  · have h' := blt_asymm h
    cases r <;> simp [h, h', Ordering.swap]
  · subst h; cases r <;> simp [blt_irrefl, Ordering.swap]
  · have h' := blt_asymm h
    have hne : a ≠ b := by intro e; subst e; simp [blt_irrefl] at h
    cases r <;> simp [h, h', hne, Ordering.swap]

theorem keysSorted_cons {r : Bool} {k : Bytes} {ks : List Bytes} :
    KeysSorted r (k :: ks) ↔ (∀ k' ∈ ks, dlt r k k') ∧ KeysSorted r ks := by
  unfold KeysSorted dlt
  rw [List.pairwise_cons]

/-- every key the merged run yields comes from one of the two sides -/
theorem mem_mergeRun_src (r : Bool) (ts : Overlay) (ps : List (Bytes × Bytes)) (k x : Bytes)
    (h : (k, x) ∈ mergeRun r ts ps) : (∃ op, (k, op) ∈ ts) ∨ (k, x) ∈ ps := by
  fun_induction mergeRun r ts ps with
  | case1 ps => exact Or.inr h
  | case2 tk ts ih =>
    rcases ih h with ⟨op, hop⟩ | h'
    · exact Or.inl ⟨op, List.mem_cons_of_mem _ hop⟩
    · cases h'
  | case3 tk ts v ih =>
    rcases List.mem_cons.mp h with h | h
    · exact Or.inl ⟨.set v, by simp only [Prod.mk.injEq] at h; rw [h.1]; exact List.mem_cons_self⟩
    · rcases ih h with ⟨op, hop⟩ | h'
      · exact Or.inl ⟨op, List.mem_cons_of_mem _ hop⟩
      · cases h'
  | case4 tk top ts pk pv ps hc ih =>
    rcases List.mem_cons.mp h with h | h
    · exact Or.inr (by rw [h]; exact List.mem_cons_self)
    · rcases ih h with h' | h'
      · exact Or.inl h'
      · exact Or.inr (List.mem_cons_of_mem _ h')
  | case5 tk ts pk pv ps hc ih =>
    rcases ih h with ⟨op, hop⟩ | h'
    · exact Or.inl ⟨op, List.mem_cons_of_mem _ hop⟩
    · exact Or.inr (List.mem_cons_of_mem _ h')
  | case6 tk ts pk pv ps hc v ih =>
    rcases List.mem_cons.mp h with h | h
    · exact Or.inl ⟨.set v, by simp only [Prod.mk.injEq] at h; rw [h.1]; exact List.mem_cons_self⟩
    · rcases ih h with ⟨op, hop⟩ | h'
      · exact Or.inl ⟨op, List.mem_cons_of_mem _ hop⟩
      · exact Or.inr (List.mem_cons_of_mem _ h')
  | case7 tk ts pk pv ps hc ih =>
    rcases ih h with ⟨op, hop⟩ | h'
    · exact Or.inl ⟨op, List.mem_cons_of_mem _ hop⟩
    · exact Or.inr h'
  | case8 tk ts pk pv ps hc v ih =>
    rcases List.mem_cons.mp h with h | h
    · exact Or.inl ⟨.set v, by simp only [Prod.mk.injEq] at h; rw [h.1]; exact List.mem_cons_self⟩
    · rcases ih h with ⟨op, hop⟩ | h'
      · exact Or.inl ⟨op, List.mem_cons_of_mem _ hop⟩
      · exact Or.inr h'

end Canopy.Store

namespace Canopy.Store
open Canopy

theorem sorted_head_lt {α : Type} {r : Bool} {k : Bytes} {a : α} {l : List (Bytes × α)}
    (h : KeysSorted r (((k, a) :: l).map (·.1))) : (∀ e ∈ l, dlt r k e.1) ∧ KeysSorted r (l.map (·.1)) := by
  rw [List.map_cons, keysSorted_cons] at h
  exact ⟨fun e he => h.1 e.1 (List.mem_map_of_mem he), h.2⟩

theorem mergeRun_sorted (r : Bool) (ts : Overlay) (ps : List (Bytes × Bytes))
    (hts : KeysSorted r (ts.map (·.1))) (hps : KeysSorted r (ps.map (·.1))) :
    KeysSorted r ((mergeRun r ts ps).map (·.1)) := by
  -- the head `h` precedes every key of a merge of two lists whose keys it precedes
  have key : ∀ (h : Bytes) (ts' : Overlay) (ps' : List (Bytes × Bytes)),
      (∀ e ∈ ts', dlt r h e.1) → (∀ e ∈ ps', dlt r h e.1) → ∀ k' ∈ (mergeRun r ts' ps').map (·.1), dlt r h k' := by
    intro h ts' ps' h1 h2 k' hk'
    obtain ⟨⟨k, x⟩, hm, rfl⟩ := List.mem_map.mp hk'
    rcases mem_mergeRun_src r ts' ps' k x hm with ⟨op, hop⟩ | hp
    · exact h1 _ hop
    · exact h2 _ hp
  fun_induction mergeRun r ts ps with
  | case1 ps => exact hps
  | case2 tk ts ih => exact ih (sorted_head_lt hts).2 hps
  | case3 tk ts v ih =>
    have ht := sorted_head_lt hts
    rw [List.map_cons, keysSorted_cons]
    exact ⟨key tk ts [] ht.1 (by simp), ih ht.2 hps⟩
  | case4 tk top ts pk pv ps hc ih =>
    have hp := sorted_head_lt hps
    have hgt := cmpDir_gt.mp hc
    rw [List.map_cons, keysSorted_cons]
    refine ⟨key pk _ ps ?_ hp.1, ih hts hp.2⟩
    intro e he
    rcases List.mem_cons.mp he with rfl | he
    · exact hgt
    · exact dlt_trans hgt ((sorted_head_lt hts).1 e he)
  | case5 tk ts pk pv ps hc ih => exact ih (sorted_head_lt hts).2 (sorted_head_lt hps).2
  | case6 tk ts pk pv ps hc v ih =>
    have ht := sorted_head_lt hts
    have hp := sorted_head_lt hps
    have he := cmpDir_eq.mp hc
    rw [List.map_cons, keysSorted_cons]
    exact ⟨key tk ts ps ht.1 (fun e h => he ▸ hp.1 e h), ih ht.2 hp.2⟩
  | case7 tk ts pk pv ps hc ih => exact ih (sorted_head_lt hts).2 hps
  | case8 tk ts pk pv ps hc v ih =>
    have ht := sorted_head_lt hts
    have hp := sorted_head_lt hps
    have hlt := cmpDir_lt.mp hc
    rw [List.map_cons, keysSorted_cons]
    refine ⟨key tk ts _ ht.1 ?_, ih ht.2 hps⟩
    intro e he
    rcases List.mem_cons.mp he with rfl | he
    · exact hlt
    · exact dlt_trans hlt (hp.1 e he)

theorem mem_mergeRun (r : Bool) (ts : Overlay) (ps : List (Bytes × Bytes))
    (hts : KeysSorted r (ts.map (·.1))) (hps : KeysSorted r (ps.map (·.1))) (k x : Bytes) :
    (k, x) ∈ mergeRun r ts ps ↔ ((k, TOp.set x) ∈ ts ∨ ((k, x) ∈ ps ∧ ∀ op, (k, op) ∉ ts)) := by
  fun_induction mergeRun r ts ps with
  | case1 ps => simp
  | case2 tk ts ih =>
    have ht := sorted_head_lt hts
    rw [ih ht.2 hps]
    simp only [List.not_mem_nil, false_and, or_false, List.mem_cons, Prod.mk.injEq]
    constructor
    · intro h; exact Or.inr h
    · rintro (⟨_, h⟩ | h)
      · cases h
      · exact h
  | case3 tk ts v ih =>
    have ht := sorted_head_lt hts
    rw [List.mem_cons, ih ht.2 hps]
    simp only [List.not_mem_nil, false_and, or_false, List.mem_cons, Prod.mk.injEq, TOp.set.injEq]
  | case4 tk top ts pk pv ps hc ih =>
    have hp := sorted_head_lt hps
    have hgt := cmpDir_gt.mp hc
    have hnot : ∀ op, (pk, op) ∉ (tk, top) :: ts := by
      intro op hm
      rcases List.mem_cons.mp hm with h | h
      · simp only [Prod.mk.injEq] at h; exact dlt_irrefl r tk (h.1 ▸ hgt)
      · exact dlt_asymm hgt ((sorted_head_lt hts).1 _ h)
    rw [List.mem_cons, ih hts hp.2]
    constructor
    · rintro (h | h | ⟨h1, h2⟩)
      · simp only [Prod.mk.injEq] at h
        exact Or.inr ⟨by rw [h.1, h.2]; exact List.mem_cons_self, by rw [h.1]; exact hnot⟩
      · exact Or.inl h
      · exact Or.inr ⟨List.mem_cons_of_mem _ h1, h2⟩
    · rintro (h | ⟨h1, h2⟩)
      · exact Or.inr (Or.inl h)
      · rcases List.mem_cons.mp h1 with h | h
        · exact Or.inl h
        · exact Or.inr (Or.inr ⟨h, h2⟩)
  | case5 tk ts pk pv ps hc ih =>
    have ht := sorted_head_lt hts
    have hp := sorted_head_lt hps
    have he := cmpDir_eq.mp hc
    subst he
    rw [ih ht.2 hp.2]
    constructor
    · rintro (h | ⟨h1, h2⟩)
      · exact Or.inl (List.mem_cons_of_mem _ h)
      · refine Or.inr ⟨List.mem_cons_of_mem _ h1, ?_⟩
        intro op hm
        rcases List.mem_cons.mp hm with h | h
        · simp only [Prod.mk.injEq] at h; exact dlt_irrefl r tk (h.1 ▸ hp.1 _ h1)
        · exact h2 op h
    · rintro (h | ⟨h1, h2⟩)
      · rcases List.mem_cons.mp h with h | h
        · cases h
        · exact Or.inl h
      · rcases List.mem_cons.mp h1 with h | h
        · simp only [Prod.mk.injEq] at h
          exact absurd (by rw [h.1]; exact List.mem_cons_self) (h2 .del)
        · exact Or.inr ⟨h, fun op hm => h2 op (List.mem_cons_of_mem _ hm)⟩
  | case6 tk ts pk pv ps hc v ih =>
    have ht := sorted_head_lt hts
    have hp := sorted_head_lt hps
    have he := cmpDir_eq.mp hc
    subst he
    rw [List.mem_cons, ih ht.2 hp.2]
    constructor
    · rintro (h | h | ⟨h1, h2⟩)
      · simp only [Prod.mk.injEq] at h
        exact Or.inl (by rw [h.1, h.2]; exact List.mem_cons_self)
      · exact Or.inl (List.mem_cons_of_mem _ h)
      · refine Or.inr ⟨List.mem_cons_of_mem _ h1, ?_⟩
        intro op hm
        rcases List.mem_cons.mp hm with h | h
        · simp only [Prod.mk.injEq] at h; exact dlt_irrefl r tk (h.1 ▸ hp.1 _ h1)
        · exact h2 op h
    · rintro (h | ⟨h1, h2⟩)
      · rcases List.mem_cons.mp h with h | h
        · simp only [Prod.mk.injEq, TOp.set.injEq] at h
          exact Or.inl (by rw [h.1, h.2])
        · exact Or.inr (Or.inl h)
      · rcases List.mem_cons.mp h1 with h | h
        · simp only [Prod.mk.injEq] at h
          exact absurd (by rw [h.1]; exact List.mem_cons_self) (h2 (.set v))
        · exact Or.inr (Or.inr ⟨h, fun op hm => h2 op (List.mem_cons_of_mem _ hm)⟩)
  | case7 tk ts pk pv ps hc ih =>
    have ht := sorted_head_lt hts
    have hlt := cmpDir_lt.mp hc
    rw [ih ht.2 hps]
    constructor
    · rintro (h | ⟨h1, h2⟩)
      · exact Or.inl (List.mem_cons_of_mem _ h)
      · refine Or.inr ⟨h1, ?_⟩
        intro op hm
        rcases List.mem_cons.mp hm with h | h
        · simp only [Prod.mk.injEq] at h
          have hp := sorted_head_lt hps
          rcases List.mem_cons.mp h1 with h' | h'
          · simp only [Prod.mk.injEq] at h'
            have : tk = pk := by rw [← h.1, h'.1]
            exact dlt_irrefl r pk (this ▸ hlt)
          · exact dlt_asymm hlt (h.1 ▸ hp.1 _ h')
        · exact h2 op h
    · rintro (h | ⟨h1, h2⟩)
      · rcases List.mem_cons.mp h with h | h
        · cases h
        · exact Or.inl h
      · exact Or.inr ⟨h1, fun op hm => h2 op (List.mem_cons_of_mem _ hm)⟩
  | case8 tk ts pk pv ps hc v ih =>
    have ht := sorted_head_lt hts
    have hlt := cmpDir_lt.mp hc
    rw [List.mem_cons, ih ht.2 hps]
    constructor
    · rintro (h | h | ⟨h1, h2⟩)
      · simp only [Prod.mk.injEq] at h
        exact Or.inl (by rw [h.1, h.2]; exact List.mem_cons_self)
      · exact Or.inl (List.mem_cons_of_mem _ h)
      · refine Or.inr ⟨h1, ?_⟩
        intro op hm
        rcases List.mem_cons.mp hm with h | h
        · simp only [Prod.mk.injEq] at h
          have hp := sorted_head_lt hps
          rcases List.mem_cons.mp h1 with h' | h'
          · simp only [Prod.mk.injEq] at h'
            have : tk = pk := by rw [← h.1, h'.1]
            exact dlt_irrefl r pk (this ▸ hlt)
          · exact dlt_asymm hlt (h.1 ▸ hp.1 _ h')
        · exact h2 op h
    · rintro (h | ⟨h1, h2⟩)
      · rcases List.mem_cons.mp h with h | h
        · simp only [Prod.mk.injEq, TOp.set.injEq] at h
          exact Or.inl (by rw [h.1, h.2])
        · exact Or.inr (Or.inl h)
      · exact Or.inr (Or.inr ⟨h1, fun op hm => h2 op (List.mem_cons_of_mem _ hm)⟩)

end Canopy.Store

namespace Canopy.Store
open Canopy

/-! ## the in-memory side of a `TxnIterator` = the pending operations under the prefix, in order -/

theorem takeWhile_congr_mem {α : Type} {l : List α} {p q : α → Bool} (h : ∀ x ∈ l, p x = q x) :
    l.takeWhile p = l.takeWhile q := by
  induction l with
  | nil => rfl
  | cons a l ih =>
    simp only [List.takeWhile_cons, h a List.mem_cons_self]
    rw [ih fun x hx => h x (List.mem_cons_of_mem _ hx)]

theorem not_prefix_of_blt {p k : Bytes} (h : blt k p = true) : hasPrefix p k = false := by
  cases hp : hasPrefix p k with
  | false => rfl
  | true =>
    have := ble_of_prefix (hasPrefix_iff.mp hp)
    unfold ble at this; rw [h] at this; cases this

/-- above `p` but not extending it: above every extension of `p` -/
theorem blt_ext_of_above {p k : Bytes} (h1 : ble p k = true) (h2 : hasPrefix p k = false) (t : Bytes) :
    blt (p ++ t) k = true := by
  have hnp : ¬ p <+: k := fun hp => by rw [hasPrefix_iff.mpr hp] at h2; cases h2
  rcases ble_iff.mp h1 with h | rfl
  · have := blt_append_of_not_prefix h hnp t []
    rwa [List.append_nil] at this
  · exact absurd (List.prefix_refl _) hnp

theorem takeWhile_prefix_asc {α : Type} (p : Bytes) (l : List (Bytes × α)) (hs : SSorted l)
    (hge : ∀ e ∈ l, ble p e.1 = true) :
    l.takeWhile (fun e => hasPrefix p e.1) = l.filter (fun e => hasPrefix p e.1) := by
  induction l with
  | nil => rfl
  | cons a l ih =>
    have iht := ih hs.tail (fun e he => hge e (List.mem_cons_of_mem _ he))
    cases hp : hasPrefix p a.1 with
    | true => simp [hp, iht]
    | false =>
      have hnone : l.filter (fun e => hasPrefix p e.1) = [] := by
        apply List.filter_eq_nil_iff.mpr
        intro e he hpe
        obtain ⟨t, ht⟩ := hasPrefix_iff.mp hpe
        have h1 := blt_ext_of_above (hge a List.mem_cons_self) hp t
        rw [ht] at h1
        have h2 := hs.head_lt e he
        rw [blt_asymm h1] at h2; cases h2
      simp [hp, hnone]

theorem dropWhile_takeWhile_prefix {α : Type} (p : Bytes) (l : List (Bytes × α)) (hs : SSorted l) :
    (l.dropWhile fun e => blt e.1 p).takeWhile (fun e => hasPrefix p e.1) = l.filter (fun e => hasPrefix p e.1) := by
  induction l with
  | nil => rfl
  | cons a l ih =>
    cases hlt : blt a.1 p with
    | true =>
      simp only [List.dropWhile_cons, hlt, if_true, List.filter_cons, not_prefix_of_blt hlt]
      exact ih hs.tail
    | false =>
      simp only [List.dropWhile_cons, hlt, Bool.false_eq_true, if_false]
      apply takeWhile_prefix_asc p _ hs
      intro e he
      rcases List.mem_cons.mp he with rfl | he
      · exact not_blt_iff_ble.mp hlt
      · have := hs.head_lt e he
        have h0 : ble p a.1 = true := not_blt_iff_ble.mp hlt
        rcases ble_iff.mp h0 with h | h
        · exact ble_iff.mpr (Or.inl (blt_trans h this))
        · exact ble_iff.mpr (Or.inl (h ▸ this))

theorem takeWhile_prefix_desc {α : Type} (p : Bytes) (l : List (Bytes × α))
    (hs : l.Pairwise fun a b => blt b.1 a.1 = true)
    (hk : ∀ e ∈ l, blt e.1 p = true ∨ hasPrefix p e.1 = true) :
    l.takeWhile (fun e => hasPrefix p e.1) = l.filter (fun e => hasPrefix p e.1) := by
  induction l with
  | nil => rfl
  | cons a l ih =>
    have hs' := List.pairwise_cons.mp hs
    have iht := ih hs'.2 (fun e he => hk e (List.mem_cons_of_mem _ he))
    cases hp : hasPrefix p a.1 with
    | true => simp [hp, iht]
    | false =>
      have ha : blt a.1 p = true := by
        rcases hk a List.mem_cons_self with h | h
        · exact h
        · rw [hp] at h; cases h
      have hnone : l.filter (fun e => hasPrefix p e.1) = [] := by
        apply List.filter_eq_nil_iff.mpr
        intro e he
        have := blt_trans (hs'.1 e he) ha
        simp [not_prefix_of_blt this]
      simp [hp, hnone]

theorem takeWhile_lt_eq_filter {α : Type} (B : Bytes) (l : List (Bytes × α)) (hs : SSorted l) :
    l.takeWhile (fun e => blt e.1 B) = l.filter (fun e => blt e.1 B) := by
  induction l with
  | nil => rfl
  | cons a l ih =>
    cases hlt : blt a.1 B with
    | true => simp [hlt, ih hs.tail]
    | false =>
      have hnone : l.filter (fun e => blt e.1 B) = [] := by
        apply List.filter_eq_nil_iff.mpr
        intro e he hb
        have := blt_trans (hs.head_lt e he) hb
        rw [hlt] at this; cases this
      simp [hlt, hnone]

theorem prefixEnd_length (p : Bytes) : (prefixEnd p).length = p.length + 257 := by
  unfold prefixEnd endBytes
  rw [List.length_append, List.length_replicate]

/-- keys a `Txn` may hold: non-empty, at most 256 bytes (`maxKeyBytes`) -/
def OvKeysOK (ov : Overlay) : Prop := ∀ e ∈ ov, e.1 ≠ [] ∧ e.1.length ≤ 256

theorem txnItems_eq (ov : Overlay) (hs : SSorted ov) (hk : OvKeysOK ov) (p : Bytes) (reverse : Bool) :
    txnItems ov p reverse =
      if reverse then (ov.filter fun e => hasPrefix p e.1).reverse else ov.filter fun e => hasPrefix p e.1 := by
  unfold txnItems
  cases reverse with
  | false =>
    simp only [Bool.false_eq_true, if_false]
    rw [← dropWhile_takeWhile_prefix p ov hs]
    apply takeWhile_congr_mem
    intro x hx
    have hx' : x ∈ ov := (List.dropWhile_sublist _).subset hx
    have := (hk x hx').1
    cases h : x.1 with
    | nil => exact absurd h this
    | cons _ _ => simp
  | true =>
    simp only [if_true]
    have hnone : smGet ov (prefixEnd p) = none := by
      cases hg : smGet ov (prefixEnd p) with
      | none => rfl
      | some op =>
        have := (hk _ ((smGet_eq_some_iff hs _ _).mp hg)).2
        rw [prefixEnd_length] at this; omega
    simp only [hnone, Option.isSome_none, Bool.false_eq_true, if_false]
    rw [takeWhile_lt_eq_filter _ ov hs]
    have hstep : ((ov.filter fun e => blt e.1 (prefixEnd p ++ endBytes)).reverse.takeWhile
        fun x => !x.1.isEmpty && hasPrefix p x.1) =
        (ov.filter fun e => blt e.1 (prefixEnd p ++ endBytes)).reverse.takeWhile fun x => hasPrefix p x.1 := by
      apply takeWhile_congr_mem
      intro x hx
      have hx' : x ∈ ov := (List.mem_filter.mp (List.mem_reverse.mp hx)).1
      have := (hk x hx').1
      cases h : x.1 with
      | nil => exact absurd h this
      | cons _ _ => simp
    rw [hstep, takeWhile_prefix_desc p]
    · rw [← List.filter_reverse, List.filter_filter, ← List.filter_reverse]
      apply List.filter_congr
      intro x hx
      replace hx := List.mem_reverse.mp hx
      cases hp : hasPrefix p x.1 with
      | false => simp
      | true =>
        obtain ⟨t, ht⟩ := hasPrefix_iff.mp hp
        have hl := (hk x hx).2
        have : blt x.1 (prefixEnd p ++ endBytes) = true := by
          rw [← ht]; unfold prefixEnd; rw [List.append_assoc, blt_append_left]
          have : endBytes ++ endBytes = List.replicate 514 255 := by
            unfold endBytes; rw [List.replicate_append_replicate]
          rw [this]
          apply blt_replicate_ff
          rw [← ht] at hl; simp at hl; omega
        simp [this]
    · rw [List.pairwise_reverse]
      exact (hs.sublist List.filter_sublist).imp fun h => h
    · intro e he
      have hm := List.mem_filter.mp (List.mem_reverse.mp he)
      have hb : blt e.1 (p ++ (endBytes ++ endBytes)) = true := by
        have := hm.2; simp only [prefixEnd, List.append_assoc] at this; exact this
      cases hp : hasPrefix p e.1 with
      | true => exact Or.inr rfl
      | false =>
        left
        cases hlt : blt e.1 p with
        | true => rfl
        | false =>
          have := blt_ext_of_above (not_blt_iff_ble.mp hlt) hp (endBytes ++ endBytes)
          rw [blt_asymm this] at hb; cases hb

end Canopy.Store

namespace Canopy.Store
open Canopy

/-- **one `Txn` over any parent**: the merged iterator yields exactly the prefix scan of the parent's
view with the pending operations applied -/
theorem layer_scan (ov : Overlay) (hs : SSorted ov) (hk : OvKeysOK ov) (R : View) (p : Bytes) (reverse : Bool)
    (ps : List (Bytes × Bytes)) (hps : IsScanR R p reverse ps) :
    IsScanR (applyOvR ov R) p reverse (mergeRun reverse (txnItems ov p reverse) ps) := by
  have hfs : SSorted (ov.filter fun e => hasPrefix p e.1) := hs.sublist List.filter_sublist
  have hts : KeysSorted reverse ((txnItems ov p reverse).map (·.1)) := by
    rw [txnItems_eq ov hs hk]
    unfold KeysSorted
    cases reverse with
    | false => simp only [Bool.false_eq_true, if_false]; rw [List.pairwise_map]; exact hfs
    | true => simp only [if_true]; rw [List.pairwise_map, List.pairwise_reverse]; exact hfs
  have hmem : ∀ k op, (k, op) ∈ txnItems ov p reverse ↔ (hasPrefix p k = true ∧ smGet ov k = some op) := by
    intro k op
    rw [txnItems_eq ov hs hk, smGet_eq_some_iff hs]
    cases reverse <;> simp [List.mem_filter, and_comm]
  refine ⟨mergeRun_sorted reverse _ ps hts hps.1, ?_⟩
  intro k x
  rw [mem_mergeRun reverse _ ps hts hps.1, hmem, hps.2]
  unfold applyOvR
  constructor
  · rintro (⟨hp, hg⟩ | ⟨⟨hp, hR⟩, hno⟩)
    · exact ⟨hp, by rw [hg]; rfl⟩
    · refine ⟨hp, ?_⟩
      cases hg : smGet ov k with
      | none => exact hR
      | some op => exact absurd ((hmem k op).mpr ⟨hp, hg⟩) (hno op)
  · rintro ⟨hp, h⟩
    cases hg : smGet ov k with
    | none =>
      rw [hg] at h
      exact Or.inr ⟨⟨hp, h⟩, fun op hm => by rw [hmem, hg] at hm; cases hm.2⟩
    | some op =>
      rw [hg] at h
      cases op with
      | del => cases h
      | set v =>
        simp only [TOp.read, Option.some.injEq] at h
        exact Or.inl ⟨hp, by rw [h]⟩

/-! ## handles: any nesting of `Txn`s over a `VersionedStore` -/

/-- what the bottom `VersionedStore` reader shows under the handle's key prefix -/
def Handle.baseView (h : Handle) : View := fun k x => Sees h.snap h.rver (h.pfx ++ k) x

/-- what the handle shows: the pending operations of every layer applied, innermost last -/
def Handle.view (h : Handle) : View := h.layers.foldr (fun l acc => applyOvR l.ov acc) h.baseView

structure Handle.WF (h : Handle) : Prop where
  db : WFL h.snap
  ver : h.rver ≤ maxVer
  layers : ∀ l ∈ h.layers, SSorted l.ov ∧ OvKeysOK l.ov

/-- **point reads through any nesting of transactions** -/
theorem Handle.get_view (h : Handle) (hw : h.WF) (k : Bytes) (hk : keyOK k = true)
    (hc : KeyCompat h.snap (h.pfx ++ k)) :
    ∃ r, h.get k = some r ∧ ∀ x, r = some x ↔ h.view k x := by
  unfold Handle.get Handle.view
  generalize h.layers = ls
  induction ls with
  | nil =>
    refine ⟨(VS.mk h.snap h.rver).get (h.pfx ++ k), by simp only [Handle.get.go, hk, if_true], ?_⟩
    intro x
    exact VS.get_sees h.snap hw.db h.rver hw.ver _ hc x
  | cons l ls ih =>
    obtain ⟨r, hr, hrx⟩ := ih
    cases hg : smGet l.ov k with
    | none =>
      refine ⟨r, by simp only [Handle.get.go, hg]; exact hr, ?_⟩
      intro x
      simp only [List.foldr_cons, applyOvR, hg]
      exact hrx x
    | some op =>
      refine ⟨op.read, by simp only [Handle.get.go, hg], ?_⟩
      intro x
      simp only [List.foldr_cons, applyOvR, hg]

theorem base_scan (h : Handle) (hw : h.WF) (p : Bytes) (reverse seek : Bool)
    (hc : PrefixCompat h.snap (h.pfx ++ p)) :
    IsScanR h.baseView p reverse
      (((VS.mk h.snap h.rver).iter (h.pfx ++ p) reverse seek).map fun kv => (kv.1.drop h.pfx.length, kv.2)) := by
  have hraw := VS.iter_sees h.snap hw.db h.rver hw.ver (h.pfx ++ p) hc reverse seek
  generalize (VS.mk h.snap h.rver).iter (h.pfx ++ p) reverse seek = raw at hraw
  have hpre : ∀ e ∈ raw, ∃ t, e.1 = h.pfx ++ (p ++ t) := by
    intro e he
    obtain ⟨t, ht⟩ := hasPrefix_iff.mp ((hraw.2 e.1 e.2).mp he).1
    exact ⟨t, by rw [← ht, List.append_assoc]⟩
  constructor
  · have := hraw.1
    unfold KeysSorted at this ⊢
    rw [List.map_map, List.pairwise_map] at *
    refine this.imp_of_mem fun {a b} ha hb hab => ?_
    obtain ⟨ta, hta⟩ := hpre a ha
    obtain ⟨tb, htb⟩ := hpre b hb
    simp only [Function.comp] at *
    rw [hta, htb, List.drop_left]
    rw [hta, htb] at hab
    cases reverse
    · simpa [blt_append_left] using hab
    · simpa [blt_append_left] using hab
  · intro k x
    rw [List.mem_map]
    constructor
    · rintro ⟨e, he, heq⟩
      obtain ⟨t, ht⟩ := hpre e he
      simp only [Prod.mk.injEq] at heq
      have hk : k = p ++ t := by rw [← heq.1, ht, List.drop_left]
      have hs := ((hraw.2 e.1 e.2).mp he).2
      refine ⟨hasPrefix_iff.mpr ⟨t, hk.symm⟩, ?_⟩
      show Sees _ _ (h.pfx ++ k) x
      rw [hk, ← ht, ← heq.2]; exact hs
    · rintro ⟨hp, hs⟩
      obtain ⟨t, ht⟩ := hasPrefix_iff.mp hp
      refine ⟨(h.pfx ++ k, x), (hraw.2 _ _).mpr ⟨hasPrefix_iff.mpr ⟨t, by rw [← ht, List.append_assoc]⟩, hs⟩, ?_⟩
      simp

/-- **forward/reverse prefix iteration through any nesting of transactions** -/
theorem Handle.iter_view (h : Handle) (hw : h.WF) (p : Bytes) (reverse : Bool) (hp : keyOK p = true)
    (hc : PrefixCompat h.snap (h.pfx ++ p)) :
    ∃ out, h.iter p reverse = some out ∧ IsScanR h.view p reverse out := by
  unfold Handle.iter Handle.view
  simp only [hp, Bool.not_true, Bool.false_eq_true, if_false]
  refine ⟨_, rfl, ?_⟩
  have hbase := base_scan h hw p reverse (match h.layers with | [] => true | l :: _ => l.seek) hc
  generalize ((VS.mk h.snap h.rver).iter (h.pfx ++ p) reverse _).map _ = base at hbase
  have hl := hw.layers
  generalize h.layers = ls at hl
  induction ls with
  | nil => exact hbase
  | cons l ls ih =>
    simp only [List.foldr_cons]
    have := hl l List.mem_cons_self
    exact layer_scan l.ov this.1 this.2 _ p reverse _ (ih fun x hx => hl x (List.mem_cons_of_mem _ hx))

end Canopy.Store
