import Canopy.Proof.SmtHistory
/-! The node-key byte encoding is injective on non-empty bit strings (it has a decoder), and under the
collision-free idealisation of the 4-ary node hash the root determines the tree, hence the state. Core only. -/
namespace Canopy.Smt

/-! ### `decodeKey` (Model/Smt.lean) is a left inverse of `encodeKey` -/

theorem byteBits_ofBits : ∀ a b c d e f g h : Bool,
    byteBits (UInt8.ofNat (bitsVal [a, b, c, d, e, f, g, h])) = [a, b, c, d, e, f, g, h] := by decide

theorem decodeLast_1 : ∀ a : Bool, decodeLast (UInt8.ofNat (bitsVal [a])) (UInt8.ofNat (padOf [a])) = [a] := by decide
theorem decodeLast_2 : ∀ a b : Bool, decodeLast (UInt8.ofNat (bitsVal [a, b])) (UInt8.ofNat (padOf [a, b])) = [a, b] := by decide
theorem decodeLast_3 : ∀ a b c : Bool,
    decodeLast (UInt8.ofNat (bitsVal [a, b, c])) (UInt8.ofNat (padOf [a, b, c])) = [a, b, c] := by decide
theorem decodeLast_4 : ∀ a b c d : Bool,
    decodeLast (UInt8.ofNat (bitsVal [a, b, c, d])) (UInt8.ofNat (padOf [a, b, c, d])) = [a, b, c, d] := by decide
theorem decodeLast_5 : ∀ a b c d e : Bool,
    decodeLast (UInt8.ofNat (bitsVal [a, b, c, d, e])) (UInt8.ofNat (padOf [a, b, c, d, e])) = [a, b, c, d, e] := by decide
theorem decodeLast_6 : ∀ a b c d e f : Bool,
    decodeLast (UInt8.ofNat (bitsVal [a, b, c, d, e, f])) (UInt8.ofNat (padOf [a, b, c, d, e, f])) = [a, b, c, d, e, f] := by
  decide
theorem decodeLast_7 : ∀ a b c d e f g : Bool,
    decodeLast (UInt8.ofNat (bitsVal [a, b, c, d, e, f, g])) (UInt8.ofNat (padOf [a, b, c, d, e, f, g])) =
      [a, b, c, d, e, f, g] := by decide
theorem decodeLast_8 : ∀ a b c d e f g h : Bool,
    decodeLast (UInt8.ofNat (bitsVal [a, b, c, d, e, f, g, h])) (UInt8.ofNat (padOf [a, b, c, d, e, f, g, h])) =
      [a, b, c, d, e, f, g, h] := by decide

theorem decodeLast_encode (c : List Bool) (h1 : 1 ≤ c.length) (h8 : c.length ≤ 8) :
    decodeLast (UInt8.ofNat (bitsVal c)) (UInt8.ofNat (padOf c)) = c := by
  match c, h1, h8 with
  | [a], _, _ => exact decodeLast_1 a
  | [a, b], _, _ => exact decodeLast_2 a b
  | [a, b, c], _, _ => exact decodeLast_3 a b c
  | [a, b, c, d], _, _ => exact decodeLast_4 a b c d
  | [a, b, c, d, e], _, _ => exact decodeLast_5 a b c d e
  | [a, b, c, d, e, f], _, _ => exact decodeLast_6 a b c d e f
  | [a, b, c, d, e, f, g], _, _ => exact decodeLast_7 a b c d e f g
  | [a, b, c, d, e, f, g, h], _, _ => exact decodeLast_8 a b c d e f g h
  | _ :: _ :: _ :: _ :: _ :: _ :: _ :: _ :: _ :: _, _, h => simp at h

theorem encodeKey_short (b : Bool) (bs : List Bool) (h : bs.length < 8) :
    encodeKey (b :: bs) = [UInt8.ofNat (bitsVal (b :: bs)), UInt8.ofNat (padOf (b :: bs))] := by
  unfold encodeKey
  cases hf : (b :: bs).length / 8 with
  | zero => rfl
  | succ f =>
    have : (b :: bs).length ≤ 8 := by simp; omega
    simp only [encodeKeyAux, if_pos this]

theorem encodeKey_long (b : Bool) (bs : List Bool) (h : ¬ bs.length < 8) :
    encodeKey (b :: bs) = UInt8.ofNat (bitsVal ((b :: bs).take 8)) :: encodeKey ((b :: bs).drop 8) := by
  unfold encodeKey
  have hl : (b :: bs).length = bs.length + 1 := rfl
  cases hf : (b :: bs).length / 8 with
  | zero => exfalso; rw [hl] at hf; omega
  | succ f =>
    have hn : ¬ (b :: bs).length ≤ 8 := by rw [hl]; omega
    have hd : ((b :: bs).drop 8).length / 8 = f := by
      rw [List.length_drop, hl]; rw [hl] at hf; omega
    simp only [encodeKeyAux, if_neg hn, hd]

theorem encodeKey_length_ge : ∀ (m : Nat) (k : Key), k.length = m → k ≠ [] → 2 ≤ (encodeKey k).length := by
  intro m
  induction m using Nat.strongRecOn with
  | _ m ih =>
    intro k hm hne
    cases k with
    | nil => exact absurd rfl hne
    | cons b bs =>
      by_cases h : bs.length < 8
      · rw [encodeKey_short b bs h]; simp
      · rw [encodeKey_long b bs h]
        have hd : (b :: bs).drop 8 ≠ [] := by
          intro e
          have := congrArg List.length e
          simp [List.length_drop] at this
          omega
        have := ih ((b :: bs).drop 8).length (by simp [List.length_drop] at *; omega) _ rfl hd
        simp only [List.length_cons]
        omega

/-- `encodeKey` has a left inverse on non-empty keys -/
theorem decodeKey_encodeKey : ∀ (m : Nat) (k : Key), k.length = m → k ≠ [] → decodeKey (encodeKey k) = k := by
  intro m
  induction m using Nat.strongRecOn with
  | _ m ih =>
    intro k hm hne
    cases k with
    | nil => exact absurd rfl hne
    | cons b bs =>
      by_cases h : bs.length < 8
      · rw [encodeKey_short b bs h]
        exact decodeLast_encode (b :: bs) (by simp) (by simp; omega)
      · rw [encodeKey_long b bs h]
        have hd : (b :: bs).drop 8 ≠ [] := by
          intro e
          have := congrArg List.length e
          simp [List.length_drop] at this
          omega
        have hlen := encodeKey_length_ge _ _ rfl hd
        have hrec := ih ((b :: bs).drop 8).length (by simp [List.length_drop] at *; omega) _ rfl hd
        match hE : encodeKey ((b :: bs).drop 8), hlen with
        | x :: y :: rest, _ =>
          rw [hE] at hrec
          simp only [decodeKey, hrec]
          have h8 : ((b :: bs).take 8).length = 8 := by simp [List.length_take]; omega
          have : byteBits (UInt8.ofNat (bitsVal ((b :: bs).take 8))) = (b :: bs).take 8 := by
            match hT : (b :: bs).take 8, h8 with
            | [a1, a2, a3, a4, a5, a6, a7, a8], _ => exact byteBits_ofBits a1 a2 a3 a4 a5 a6 a7 a8
          rw [this, List.take_append_drop]

/-- **the node-key encoding is injective** on non-empty bit strings -/
theorem encodeKey_injective {a b : Key} (ha : a ≠ []) (hb : b ≠ []) (h : encodeKey a = encodeKey b) : a = b := by
  have h1 := decodeKey_encodeKey _ a rfl ha
  have h2 := decodeKey_encodeKey _ b rfl hb
  rw [h] at h1
  exact h1.symm.trans h2

/-! ### the root determines the tree -/

/-- the collision-free idealisation of the node hash, as a hypothesis: the hash of the 4-tuple
(left key bytes, left value, right key bytes, right value) determines the tuple. It subsumes collision
resistance of SHA-256 *and* unambiguity of the unframed concatenation `lk ‖ lv ‖ rk ‖ rv`. -/
def H4Inj (H4 : Bytes → Bytes → Bytes → Bytes → Bytes) : Prop :=
  ∀ a b c d a' b' c' d', H4 a b c d = H4 a' b' c' d' → a = a' ∧ b = b' ∧ c = c' ∧ d = d'

/-- a framed, hence injective, stand-in for the node hash: every byte `x` becomes `1 x`, every field ends in `0` -/
def frame (x : Bytes) : Bytes := x.flatMap (fun b => [1, b]) ++ [0]
def framed4 (a b c d : Bytes) : Bytes := frame a ++ (frame b ++ (frame c ++ frame d))

theorem frame_append_inj : ∀ (x y r s : Bytes), frame x ++ r = frame y ++ s → x = y ∧ r = s
  | [], [], r, s, h => by simpa [frame] using h
  | [], b :: y, r, s, h => by simp [frame] at h
  | a :: x, [], r, s, h => by simp [frame] at h
  | a :: x, b :: y, r, s, h => by
    simp only [frame, List.flatMap_cons, List.append_assoc, List.cons_append, List.nil_append, List.cons.injEq,
      true_and] at h
    obtain ⟨e, h⟩ := h
    have := frame_append_inj x y r s (by simpa [frame] using h)
    exact ⟨by rw [e, this.1], this.2⟩

theorem H4Inj_satisfiable : H4Inj framed4 := by
  intro a b c d a' b' c' d' h
  unfold framed4 at h
  obtain ⟨e1, h⟩ := frame_append_inj _ _ _ _ h
  obtain ⟨e2, h⟩ := frame_append_inj _ _ _ _ h
  obtain ⟨e3, h⟩ := frame_append_inj _ _ _ _ h
  exact ⟨e1, e2, e3, (frame_append_inj d d' [] [] (by simpa using h)).1⟩

namespace Trie

/-- a child's prefix extends its parent's prefix and side bit -/
theorem child_prefix {n : Nat} {c : Trie} (hc : WF n c) {q : Key} (hq : ∀ k ∈ c.keys, q <+: k) : q <+: c.key := by
  cases c with
  | leaf k v => exact hq k (by rw [keys_leaf]; simp)
  | node p a b =>
    obtain ⟨ka, hka⟩ := exists_key a
    obtain ⟨kb, hkb⟩ := exists_key b
    have h1 := hq ka (mem_keys_node.mpr (Or.inl hka))
    have h2 := hq kb (mem_keys_node.mpr (Or.inr hkb))
    have pa := hc.2.2.1 ka hka
    have pb := hc.2.2.2 kb hkb
    rcases List.prefix_or_prefix_of_prefix h1 (prefix_of_snoc_prefix pa) with h | h
    · exact h
    · obtain ⟨rest, hrest⟩ := h
      cases rest with
      | nil => simp at hrest; rw [hrest]; exact List.prefix_refl _
      | cons y rest =>
        exfalso
        rw [← hrest] at h1 h2
        have e1 := prefix_bit_unique (prefix_snoc_of_prefix_cons h1) pa
        have e2 := prefix_bit_unique (prefix_snoc_of_prefix_cons h2) pb
        rw [e1] at e2; cases e2

theorem child_key_ne_nil {n : Nat} {p : Key} {l r : Trie} (h : WF n (node p l r)) : l.key ≠ [] ∧ r.key ≠ [] := by
  have h1 := child_prefix h.1 h.2.2.1
  have h2 := child_prefix h.2.1 h.2.2.2
  constructor
  · intro e; rw [e] at h1; have := h1.length_le; simp at this
  · intro e; rw [e] at h2; have := h2.length_le; simp at this

/-- under the idealisation, (node key, node value) determines the whole subtree -/
theorem value_injective {H4 : Bytes → Bytes → Bytes → Bytes → Bytes} (hH : H4Inj H4) {n : Nat} :
    ∀ t1 t2 : Trie, WF n t1 → WF n t2 → t1.key = t2.key → t1.value H4 = t2.value H4 → t1 = t2
  | leaf k v, leaf k' v', _, _, hk, hv => by
    simp [key] at hk; simp [value] at hv; rw [hk, hv]
  | leaf k v, node p l r, h1, h2, hk, _ => by
    exfalso
    simp [key] at hk
    have := node_prefix_lt h2
    have h1' : k.length = n := h1
    rw [hk] at h1'; omega
  | node p l r, leaf k v, h1, h2, hk, _ => by
    exfalso
    simp [key] at hk
    have := node_prefix_lt h1
    have h2' : k.length = n := h2
    rw [← hk] at h2'; omega
  | node p l r, node p' l' r', h1, h2, hk, hv => by
    simp [key] at hk
    subst hk
    simp only [value] at hv
    obtain ⟨e1, e2, e3, e4⟩ := hH _ _ _ _ _ _ _ _ hv
    have n1 := child_key_ne_nil h1
    have n2 := child_key_ne_nil h2
    have kl := encodeKey_injective n1.1 n2.1 e1
    have kr := encodeKey_injective n1.2 n2.2 e3
    rw [value_injective hH l l' h1.1 h2.1 kl e2, value_injective hH r r' h1.2.1 h2.2.1 kr e4]

/-- the top node of a tree holding both sentinels has the empty prefix -/
theorem top_key_nil {n : Nat} {t : Trie} {S : KMap} (h : t.Rep n S) (hs : S.HasSentinels n) (hn : 0 < n) :
    t.key = [] := by
  have hnode := rep_isNode h hs hn
  cases t with
  | leaf _ _ => cases hnode
  | node p l r =>
    have h1 := node_prefix h.1 (mem_keys_of_rep h hs.1)
    have h2 := node_prefix h.1 (mem_keys_of_rep h hs.2)
    cases p with
    | nil => rfl
    | cons x p' =>
      exfalso
      cases n with
      | zero => omega
      | succ m =>
        simp [minKey, List.replicate_succ] at h1
        simp [maxKey, List.replicate_succ] at h2
        rw [h1.1] at h2; simp at h2

theorem map_eq_of_rep {n : Nat} {t : Trie} {S1 S2 : KMap} (h1 : t.Rep n S1) (h2 : t.Rep n S2) : S1 = S2 := by
  funext k
  cases e1 : S1 k with
  | none =>
    cases e2 : S2 k with
    | none => rfl
    | some v => have := (h1.2 k v).mp ((h2.2 k v).mpr e2); rw [e1] at this; cases this
  | some v => exact ((h2.2 k v).mp ((h1.2 k v).mpr e1)).symm

end Trie
end Canopy.Smt
