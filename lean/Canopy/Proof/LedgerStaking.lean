import Canopy.Proof.LedgerC04c
/-! C12: the staking invariant and its building blocks. -/
namespace Canopy.Ledger
open AMap

set_option linter.unusedSimpArgs false
set_option linter.unusedVariables false

/-! ### the quantities -/

/-- Σ stake over delegates -/
def dstakeSum (L : Ledger) : Nat := sumBy (fun v : Validator => if v.delegate then v.stake else 0) L.validators
/-- Σ stake over the validator records that list committee `c` (with multiplicity) -/
def comSum (L : Ledger) (c : Nat) : Nat := sumBy (fun v : Validator => v.stake * v.committees.count c) L.validators
/-- the same over delegates only -/
def dcomSum (L : Ledger) (c : Nat) : Nat :=
  sumBy (fun v : Validator => if v.delegate then v.stake * v.committees.count c else 0) L.validators

def comGet (L : Ledger) (c : Nat) : Nat := NMap.get L.supply.committee c
def delGet (L : Ledger) (c : Nat) : Nat := NMap.get L.supply.delegated c

/-- the tallies of the supply record equal the sums over the validator records -/
structure Tallies (L : Ledger) : Prop where
  staked : L.supply.staked = stakeSum L
  delegated : L.supply.delegatedOnly = dstakeSum L
  committee : ∀ c, comGet L c = comSum L c
  committeeDelegated : ∀ c, delGet L c = dcomSum L c

/-- every unstaking / paused marker refers to an existing validator in exactly that status, and vice versa -/
structure Markers (L : Ledger) : Prop where
  unstaking : ∀ h a, KSet.has L.unstaking (h, a) = true ↔ ∃ v, valGet? L a = some v ∧ v.unstakingHeight = h ∧ h ≠ 0
  paused : ∀ h a, KSet.has L.paused (h, a) = true ↔ ∃ v, valGet? L a = some v ∧ v.maxPausedHeight = h ∧ h ≠ 0
  exclusive : ∀ a v, valGet? L a = some v → v.unstakingHeight ≠ 0 → v.maxPausedHeight = 0

/-- no key is stored twice (the store is a map) -/
structure WF (L : Ledger) : Prop where
  validators : NodupKeys L.validators
  unstaking : NodupKeys L.unstaking
  paused : NodupKeys L.paused
  committee : NodupKeys L.supply.committee
  delegated : NodupKeys L.supply.delegated

/-- C12 invariant -/
structure InvStaking (L : Ledger) : Prop where
  tallies : Tallies L
  markers : Markers L
  wf : WF L

/-! ### an executable version (for `decide`d witnesses and non-vacuity examples) -/

def chainIds (L : Ledger) : List Nat :=
  L.supply.committee.map (·.1) ++ L.supply.delegated.map (·.1) ++ (L.validators.map (·.2.committees)).flatten

def talliesB (L : Ledger) : Bool :=
  L.supply.staked == stakeSum L && L.supply.delegatedOnly == dstakeSum L &&
  (chainIds L).all fun c => comGet L c == comSum L c && delGet L c == dcomSum L c

def markersB (L : Ledger) : Bool :=
  (L.unstaking.all fun e => match valGet? L e.1.2 with | some v => v.unstakingHeight == e.1.1 && e.1.1 != 0 | none => false) &&
  (L.paused.all fun e => match valGet? L e.1.2 with | some v => v.maxPausedHeight == e.1.1 && e.1.1 != 0 | none => false) &&
  (L.validators.all fun e =>
    (e.2.unstakingHeight == 0 || KSet.has L.unstaking (e.2.unstakingHeight, e.1)) &&
    (e.2.maxPausedHeight == 0 || KSet.has L.paused (e.2.maxPausedHeight, e.1)) &&
    (e.2.unstakingHeight == 0 || e.2.maxPausedHeight == 0))

/-- the empty blocks at heights `L.height, L.height+1, …` (`n` of them) all apply -/
def emptyBlocksOk : Nat → Ledger → Bool
  | 0, _ => true
  | n + 1, L => match emptyBlock L with
    | .ok L' => emptyBlocksOk n L'
    | .error _ => false

end Canopy.Ledger
