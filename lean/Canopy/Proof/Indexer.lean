import Canopy.Proof.StoreState
import Canopy.Proof.Key
import Canopy.Model.Indexer
/-! The indexer partition (C10, "blocks"): what a view at version `v` reads from the database part of
the indexer depends only on the entries of version ≤ `v`, and later commits / rollbacks to heights ≥ `v`
never change those. -/
namespace Canopy.Store
open Canopy

/-! ## point reads need no compatibility hypothesis on a well-formed key space -/

theorem cur_mem_of_seekGE {all : List Entry} {t : Bytes} {e : Entry} (h : (PCur.seekGE all t).cur? = some e) :
    e ∈ all := by
  unfold PCur.cur? PCur.seekGE at h
  simp only [Bool.false_eq_true, if_false] at h
  exact (List.dropWhile_sublist _).subset (List.mem_of_mem_head? h)

/-- **`VersionedStore.Get` on any well-formed key space, for any queried key** -/
theorem VS.get_sees' (db : DB) (h : WFL db) (v : Nat) (hvm : v ≤ maxVer) (uk x : Bytes) :
    (VS.mk db v).get uk = some x ↔ Sees db v uk x := by
  by_cases hst : ∃ e ∈ db, ∃ w, e.1 = mkKey uk w
  · obtain ⟨e, he, w, hew⟩ := hst
    apply VS.get_sees db h v hvm uk
    intro e' he' u w' hu hp
    rcases hp with hp | hp
    · exact h.pf e' he' e he u w' uk w hu hew hp
    · exact (h.pf e he e' he' uk w u w' hew hu hp).symm
  · constructor
    · intro hg
      exfalso
      rw [VS.get_eq_bind] at hg
      cases hraw : (VS.mk db v).getRaw uk with
      | none => rw [hraw] at hg; cases hg
      | some tv =>
        unfold VS.getRaw at hraw
        simp only at hraw
        cases hc : (PCur.seekGE (bound db uk (prefixEnd uk)) (mkKey uk v)).cur? with
        | none => rw [hc] at hraw; cases hraw
        | some e =>
          rw [hc] at hraw
          have hmem : e ∈ db := (List.mem_filter.mp (cur_mem_of_seekGE hc)).1
          obtain ⟨u, w, hew, hne, _, _⟩ := h.shaped e hmem
          simp only at hraw
          rw [hew, userKeyOf_mkKey _ hne] at hraw
          simp only at hraw
          by_cases hu : u = uk
          · exact hst ⟨e, hmem, w, hu ▸ hew⟩
          · rw [if_pos hu] at hraw; cases hraw
    · rintro ⟨w, raw, _, _, hget, _⟩
      exact absurd ⟨_, (smGet_eq_some_iff h.sorted _ _).mp hget, w, rfl⟩ hst

/-! ## reads at `v` depend only on the entries of version ≤ `v` -/

/-- the two key spaces hold the same entries of version ≤ `v` -/
def AgreeUpTo (v : Nat) (a b : DB) : Prop := ∀ u w, w ≤ v → smGet a (mkKey u w) = smGet b (mkKey u w)

theorem AgreeUpTo.refl (v : Nat) (a : DB) : AgreeUpTo v a a := fun _ _ _ => rfl
theorem AgreeUpTo.trans {v : Nat} {a b c : DB} (h1 : AgreeUpTo v a b) (h2 : AgreeUpTo v b c) : AgreeUpTo v a c :=
  fun u w hw => (h1 u w hw).trans (h2 u w hw)
theorem AgreeUpTo.mono {v v' : Nat} {a b : DB} (h : AgreeUpTo v a b) (hv : v' ≤ v) : AgreeUpTo v' a b :=
  fun u w hw => h u w (by omega)

theorem sees_agree {v : Nat} {a b : DB} (h : AgreeUpTo v a b) (uk x : Bytes) : Sees a v uk x ↔ Sees b v uk x := by
  constructor
  · rintro ⟨w, raw, hwv, hwm, hget, hmax, hal⟩
    exact ⟨w, raw, hwv, hwm, by rw [← h uk w hwv]; exact hget,
      fun w' raw' hw' hm' hg' => hmax w' raw' hw' hm' (by rw [h uk w' hw']; exact hg'), hal⟩
  · rintro ⟨w, raw, hwv, hwm, hget, hmax, hal⟩
    exact ⟨w, raw, hwv, hwm, by rw [h uk w hwv]; exact hget,
      fun w' raw' hw' hm' hg' => hmax w' raw' hw' hm' (by rw [← h uk w' hw']; exact hg'), hal⟩

theorem get_agree {v : Nat} {a b : DB} (ha : WFL a) (hb : WFL b) (hvm : v ≤ maxVer) (h : AgreeUpTo v a b) (uk : Bytes) :
    (VS.mk a v).get uk = (VS.mk b v).get uk := by
  apply Option.ext
  intro x
  rw [VS.get_sees' a ha v hvm, VS.get_sees' b hb v hvm, sees_agree h]

theorem iter_agree {v : Nat} {a b : DB} (ha : WFL a) (hb : WFL b) (hvm : v ≤ maxVer) (h : AgreeUpTo v a b)
    (pfx : Bytes) (hpa : PrefixCompat a pfx) (hpb : PrefixCompat b pfx) (reverse seek : Bool) :
    (VS.mk a v).iter pfx reverse seek = (VS.mk b v).iter pfx reverse seek := by
  have sa := VS.iter_sees a ha v hvm pfx hpa reverse seek
  have sb := VS.iter_sees b hb v hvm pfx hpb reverse seek
  exact sorted_mem_unique reverse _ _ sa.1 sb.1 fun e => by
    obtain ⟨k, x⟩ := e; rw [sa.2, sb.2, sees_agree h]

end Canopy.Store

namespace Canopy.Store
open Canopy

/-! ## the indexer partition as a represented key space -/

theorem idxPrefix_eq : idxPrefix = [2, 105, 47] := by decide
theorem idxPrefix_length : idxPrefix.length = 3 := by decide

/-- every entry of the indexer partition is `i/ ++ key ++ ^version` with a key of `IK`, committed at a
version in `[1, ver]` -/
structure IRep (IK : Bytes → Prop) (idb : DB) (ver : Nat) : Prop where
  sorted : SSorted idb
  keys : ∀ e ∈ idb, ∃ k w, IK k ∧ 1 ≤ w ∧ w ≤ ver ∧ e.1 = mkKey (idxPrefix ++ k) w

theorem IRep.init (IK : Bytes → Prop) : IRep IK [] 0 := ⟨List.Pairwise.nil, by simp⟩

theorem IRep.wfl {IK : Bytes → Prop} (hK : WFKeys IK) {idb : DB} {ver : Nat} (h : IRep IK idb ver) (hv : ver ≤ maxVer) :
    WFL idb := by
  refine ⟨h.sorted, ?_, ?_⟩
  · intro e he
    obtain ⟨k, w, hk, _, hw, hek⟩ := h.keys e he
    have hl := (hK.ok k hk).2.1
    exact ⟨idxPrefix ++ k, w, hek, by rw [idxPrefix_eq]; simp, by simp [idxPrefix_length]; omega, by omega⟩
  · intro e1 he1 e2 he2 u1 w1 u2 w2 h1 h2 hp
    obtain ⟨k1, _, hk1, _, _, hek1⟩ := h.keys e1 he1
    obtain ⟨k2, _, hk2, _, _, hek2⟩ := h.keys e2 he2
    have e1' : u1 = idxPrefix ++ k1 := mkKey_uk_inj (h1.symm.trans hek1)
    have e2' : u2 = idxPrefix ++ k2 := mkKey_uk_inj (h2.symm.trans hek2)
    subst e1' e2'
    rw [hK.pf k1 k2 hk1 hk2 ((List.prefix_append_right_inj _).mp hp)]

theorem IRep.compatP {IK : Bytes → Prop} {idb : DB} {ver : Nat} (h : IRep IK idb ver) {p : Bytes} (hp : PfxOK IK p) :
    PrefixCompat idb (idxPrefix ++ p) := by
  intro e he u w hu hpre
  obtain ⟨k, _, hk, _, _, hek⟩ := h.keys e he
  have : u = idxPrefix ++ k := mkKey_uk_inj (hu.symm.trans hek)
  subst this
  rw [hp k hk ((List.prefix_append_right_inj _).mp hpre)]

/-- the indexer's part of a commit: the old entries of every version ≤ `ver` are untouched -/
theorem IRep.commit {IK : Bytes → Prop} {idb : DB} {ver : Nat} (h : IRep IK idb ver) (ov : Overlay)
    (hk : ∀ e ∈ ov, IK e.1) (hver : ver + 1 ≤ maxVer) :
    IRep IK (applyBatch idb (idxBatch ov (ver + 1))) (ver + 1) ∧
    AgreeUpTo ver (applyBatch idb (idxBatch ov (ver + 1))) idb := by
  constructor
  · refine ⟨sorted_applyBatch h.sorted _, ?_⟩
    intro e he
    rcases mem_applyBatch _ he with he | he
    · obtain ⟨k, w, a, b, c, d⟩ := h.keys e he
      exact ⟨k, w, a, b, by omega, d⟩
    · obtain ⟨a, ha, heq⟩ := List.mem_map.mp he
      injection heq with h1 _
      exact ⟨a.1, ver + 1, hk a ha, by omega, Nat.le_refl _, h1.symm⟩
  · intro u w hw
    rw [smGet_applyBatch h.sorted]
    unfold idxBatch
    rw [batchLookup_map_none]
    intro a _
    show mkKey (idxPrefix ++ a.1) (ver + 1) ≠ mkKey u w
    intro e
    have := (mkKey_inj hver (by omega) e).2
    omega

theorem smGet_filter {α : Type} {l : List (Bytes × α)} (hs : SSorted l) (p : Bytes × α → Bool) (k : Bytes) :
    smGet (l.filter p) k = (smGet l k).filter fun x => p (k, x) := by
  induction l with
  | nil => rfl
  | cons a l ih =>
    obtain ⟨ka, va⟩ := a
    by_cases hk : k = ka
    · subst hk
      have hn : smGet l k = none := smGet_eq_none_of_lt hs.head_lt
      cases hp : p (k, va) with
      | true => simp [hp, smGet, Option.filter]
      | false => simp [hp, smGet, ih hs.tail, hn, Option.filter]
    · cases hp : p (ka, va) with
      | true => simp [hp, smGet, hk, ih hs.tail]
      | false => simp [hp, smGet, hk, ih hs.tail]

/-- the indexer's part of a rollback to `t`: the entries of every version ≤ `t` are untouched -/
theorem IRep.rollback {IK : Bytes → Prop} {idb : DB} {ver : Nat} (h : IRep IK idb ver) {t : Nat} (ht : t < ver)
    (hver : ver ≤ maxVer) :
    IRep IK (idxPrune idb (t + 1) ver) t ∧ AgreeUpTo t (idxPrune idb (t + 1) ver) idb := by
  constructor
  · refine ⟨h.sorted.sublist List.filter_sublist, ?_⟩
    intro e he
    obtain ⟨hm, hp⟩ := List.mem_filter.mp he
    obtain ⟨k, w, a, b, c, d⟩ := h.keys e hm
    refine ⟨k, w, a, b, ?_, d⟩
    rw [d, versionOf_mkKey _ (by omega)] at hp
    simp at hp
    omega
  · intro u w hw
    unfold idxPrune
    rw [smGet_filter h.sorted]
    cases hg : smGet idb (mkKey u w) with
    | none => rfl
    | some x =>
      simp only [Option.filter_some]
      rw [versionOf_mkKey _ (by omega)]
      have : ¬ (t + 1 ≤ w) := by omega
      simp [this]

end Canopy.Store

namespace Canopy.Store
open Canopy

/-! ## the process state machine -/

def IOpOK (K IK : Bytes → Prop) : IOp → Prop
  | .store op => OpOK K op
  | .indexBlock h hash txs =>
    IK (blockHashKey hash) ∧ IK (blockHeightKey h) ∧
      ∀ p ∈ txs.zipIdx, IK (txHashKey p.1) ∧ IK (txHeightIndexKey h p.2)
  | .indexQC h _ => IK (qcHeightKey h)
  | _ => True

def IKeeps (v : Nat) : IOp → Prop
  | .store op => KeepsHistory v op
  | _ => True

structure IInv (K IK : Bytes → Prop) (s : IState) (m : VMap) : Prop where
  st : Inv K s.st m
  idx : IRep IK s.idb s.st.version
  pend : ∀ e ∈ s.idxOv, IK e.1

theorem IInv.init (K IK : Bytes → Prop) : IInv K IK {} [] :=
  ⟨Inv.init K, IRep.init IK, by intro e he; cases he⟩

/-- operations other than commit and rollback leave the database and the version alone -/
theorem apply_same_db (s : State) (op : Op) (h1 : op ≠ .commit) (h2 : ∀ t, op ≠ .rollback t) :
    (s.apply op).version = s.version ∧ (s.apply op).db = s.db := by
  cases op with
  | commit => exact absurd rfl h1
  | rollback t => exact absurd rfl (h2 t)
  | flush => simp only [State.apply]; cases flushLayers s.main <;> exact ⟨rfl, rfl⟩
  | discard =>
    simp only [State.apply]
    cases s.main with
    | nil => exact ⟨rfl, rfl⟩
    | cons a r => cases r <;> exact ⟨rfl, rfl⟩
  | pop =>
    simp only [State.apply]
    cases s.main with
    | nil => exact ⟨rfl, rfl⟩
    | cons a r => cases r <;> exact ⟨rfl, rfl⟩
  | cset i k v => simp only [State.apply]; cases s.copies[i]? <;> exact ⟨rfl, rfl⟩
  | cdel i k => simp only [State.apply]; cases s.copies[i]? <;> exact ⟨rfl, rfl⟩
  | _ => exact ⟨rfl, rfl⟩

theorem IInv.apply {K IK : Bytes → Prop} (hK : WFKeys K) (mode : CacheKeying) {s : IState} {m : VMap} (hi : IInv K IK s m) (op : IOp)
    (hop : IOpOK K IK op) (hver : s.st.version + 1 < maxVer) :
    ∃ m', IInv K IK (s.apply mode op) m' ∧ (s.apply mode op).st.version ≤ s.st.version + 1 ∧
      ∀ v, v ≤ s.st.version → IKeeps v op →
        (v ≤ (s.apply mode op).st.version ∧ (∀ k, readAt m' v k = readAt m v k) ∧ AgreeUpTo v (s.apply mode op).idb s.idb) := by
  -- an operation that only touches the cache or the pending index operations
  have same : ∀ s' : IState, s'.st = s.st → s'.idb = s.idb → (∀ e ∈ s'.idxOv, IK e.1) →
      ∃ m', IInv K IK s' m' ∧ s'.st.version ≤ s.st.version + 1 ∧
        ∀ v, v ≤ s.st.version → IKeeps v op →
          (v ≤ s'.st.version ∧ (∀ k, readAt m' v k = readAt m v k) ∧ AgreeUpTo v s'.idb s.idb) := by
    intro s' h1 h2 h3
    refine ⟨m, ⟨h1 ▸ hi.st, by rw [h1, h2]; exact hi.idx, h3⟩, by rw [h1]; omega, fun v hv _ =>
      ⟨by rw [h1]; exact hv, fun _ => rfl, by rw [h2]; exact AgreeUpTo.refl _ _⟩⟩
  cases op with
  | purgeCache => exact same _ rfl rfl hi.pend
  | getBlock vw h hdr => exact same _ rfl rfl hi.pend
  | getQC vw h => exact same _ rfl rfl hi.pend
  | getBlocks vw pn pp => exact same _ rfl rfl hi.pend
  | indexQC h bh =>
    refine same _ rfl rfl ?_
    intro e he
    rcases mem_of_mem_smSet he with rfl | he
    · exact hop
    · exact hi.pend e he
  | indexBlock h hash txs =>
    refine same _ rfl rfl ?_
    obtain ⟨h1, h2, h3⟩ := hop
    show ∀ e ∈ (s.indexBlock mode h hash txs).idxOv, IK e.1
    unfold IState.indexBlock
    simp only
    have hfold : ∀ (l : List (Bytes × Nat)) (acc : Overlay), (∀ e ∈ acc, IK e.1) →
        (∀ p ∈ l, IK (txHashKey p.1) ∧ IK (txHeightIndexKey h p.2)) →
        ∀ e ∈ l.foldl (fun o (p : Bytes × Nat) =>
          smSet (smSet o (txHashKey p.1) (.set (encTx h p.2 p.1))) (txHeightIndexKey h p.2) (.set (txHashKey p.1))) acc, IK e.1 := by
      intro l
      induction l with
      | nil => intro acc ha _; exact ha
      | cons p l ih =>
        intro acc ha hl
        apply ih
        · intro e he
          rcases mem_of_mem_smSet he with rfl | he
          · exact (hl p List.mem_cons_self).2
          · rcases mem_of_mem_smSet he with rfl | he
            · exact (hl p List.mem_cons_self).1
            · exact ha e he
        · exact fun q hq => hl q (List.mem_cons_of_mem _ hq)
    apply hfold _ _ _ h3
    intro e he
    rcases mem_of_mem_smSet he with rfl | he
    · exact h2
    · rcases mem_of_mem_smSet he with rfl | he
      · exact h1
      · exact hi.pend e he
  | reset =>
    simp only [IState.apply]
    cases hm : s.st.main with
    | nil => exact same _ rfl rfl hi.pend
    | cons l rest =>
      cases rest with
      | cons _ _ => exact same _ rfl rfl hi.pend
      | nil =>
        refine ⟨m, ⟨⟨hi.st.rep, layersOK_empty K, hi.st.side⟩, hi.idx, by intro e he; cases he⟩, by show s.st.version ≤ _; omega,
          fun v hv _ => ⟨hv, fun _ => rfl, AgreeUpTo.refl _ _⟩⟩
  | store sop =>
    by_cases hc : sop = .commit
    · subst hc
      obtain ⟨m', hi', hle, hk⟩ := hi.st.apply hK .commit hop hver
      have happ : s.apply mode (.store .commit) = s.commit := rfl
      rw [happ]
      cases hm : s.st.main with
      | nil =>
        have : s.commit = s := by unfold IState.commit; rw [hm]
        rw [this]; exact same _ rfl rfl hi.pend
      | cons l rest =>
        cases rest with
        | cons _ _ =>
          have : s.commit = s := by unfold IState.commit; rw [hm]
          rw [this]; exact same _ rfl rfl hi.pend
        | nil =>
          have hce : s.commit = IState.mk s.st.commit (applyBatch s.idb (idxBatch s.idxOv (s.st.version + 1))) [] s.cache s.idxSort := by
            unfold IState.commit; rw [hm]
          rw [hce]
          have hv' : s.st.commit.version = s.st.version + 1 := by simp [State.commit, hm]
          have hc := hi.idx.commit s.idxOv hi.pend (by omega)
          refine ⟨m', ⟨hi', by show IRep IK _ s.st.commit.version; rw [hv']; exact hc.1, by intro e he; cases he⟩,
            by show s.st.commit.version ≤ _; rw [hv']; exact Nat.le_refl _, ?_⟩
          intro v hv hkeep
          obtain ⟨a, b⟩ := hk v hv hkeep
          exact ⟨a, b, hc.2.mono hv⟩
    · by_cases hr : ∃ t, sop = .rollback t
      · obtain ⟨t, rfl⟩ := hr
        obtain ⟨m', hi', hle, hk⟩ := hi.st.apply hK (.rollback t) hop hver
        simp only [IState.apply]
        cases hm : s.st.main with
        | nil => exact same _ rfl rfl hi.pend
        | cons l rest =>
          cases rest with
          | cons _ _ => exact same _ rfl rfl hi.pend
          | nil =>
            simp only
            have happ : s.st.apply (.rollback t) = (s.st.rollback t).getD s.st := by simp [State.apply, hm]
            unfold IState.rollback
            cases hrb : s.st.rollback t with
            | none => simp only [Option.getD_none]; exact same _ rfl rfl hi.pend
            | some st' =>
              simp only
              by_cases htv : t = s.st.version
              · rw [if_pos htv]; simp only [Option.getD_some]; exact same _ rfl rfl hi.pend
              · rw [if_neg htv]
                simp only [Option.getD_some]
                rw [happ, hrb, Option.getD_some] at hi' hle hk
                -- a real rollback: 0 < t < version and the new version is t
                have hfacts : t < s.st.version ∧ st'.version = t := by
                  unfold State.rollback at hrb
                  by_cases h0 : t = 0
                  · rw [if_pos h0] at hrb; cases hrb
                  · rw [if_neg h0] at hrb
                    by_cases h1 : t > s.st.version
                    · rw [if_pos h1] at hrb; cases hrb
                    · rw [if_neg h1, if_neg htv] at hrb
                      simp only [Option.some.injEq] at hrb
                      exact ⟨by omega, by rw [← hrb]⟩
                have hrbk := hi.idx.rollback hfacts.1 (by omega)
                refine ⟨m', ⟨hi', by rw [hfacts.2]; exact hrbk.1, by intro e he; cases he⟩, hle, ?_⟩
                intro v hv hkeep
                obtain ⟨a, b⟩ := hk v hv hkeep
                have hvt : v ≤ t := hkeep
                exact ⟨a, b, hrbk.2.mono hvt⟩
      · have hne2 : ∀ t, sop ≠ .rollback t := fun t e => hr ⟨t, e⟩
        obtain ⟨m', hi', hle, hk⟩ := hi.st.apply hK sop hop hver
        have hsame := apply_same_db s.st sop hc hne2
        have happ : s.apply mode (.store sop) = { s with st := s.st.apply sop } := by
          cases sop <;> first | rfl | exact absurd rfl hc | exact absurd rfl (hne2 _)
        rw [happ]
        refine ⟨m', ⟨hi', by show IRep IK s.idb _; rw [hsame.1]; exact hi.idx, hi.pend⟩, hle, ?_⟩
        intro v hv hkeep
        obtain ⟨a, b⟩ := hk v hv hkeep
        exact ⟨a, b, AgreeUpTo.refl _ _⟩

end Canopy.Store

namespace Canopy.Store
open Canopy

def runIOps (mode : CacheKeying) (s : IState) (ops : List IOp) : IState := ops.foldl (IState.apply mode) s

theorem IInv.run {K IK : Bytes → Prop} (hK : WFKeys K) (mode : CacheKeying) : ∀ (ops : List IOp) {s : IState} {m : VMap}, IInv K IK s m →
    (∀ op ∈ ops, IOpOK K IK op) → s.st.version + ops.length + 1 < maxVer → ∀ v, v ≤ s.st.version →
    (∀ op ∈ ops, IKeeps v op) →
    ∃ m', IInv K IK (runIOps mode s ops) m' ∧ v ≤ (runIOps mode s ops).st.version ∧
      (runIOps mode s ops).st.version ≤ s.st.version + ops.length ∧
      (∀ k, readAt m' v k = readAt m v k) ∧ AgreeUpTo v (runIOps mode s ops).idb s.idb := by
  intro ops
  induction ops with
  | nil => intro s m hi _ _ v hv _; exact ⟨m, hi, hv, by simp [runIOps], fun _ => rfl, AgreeUpTo.refl _ _⟩
  | cons op ops ih =>
    intro s m hi hops hver v hv hkeep
    simp only [List.length_cons] at hver
    obtain ⟨m1, hi1, hv1, hk1⟩ := hi.apply hK mode op (hops op List.mem_cons_self) (by omega)
    obtain ⟨hvv, hread, hag⟩ := hk1 v hv (hkeep op List.mem_cons_self)
    obtain ⟨m2, hi2, hv2, hle2, hread2, hag2⟩ := ih hi1 (fun o ho => hops o (List.mem_cons_of_mem _ ho)) (by omega) v hvv
      (fun o ho => hkeep o (List.mem_cons_of_mem _ ho))
    refine ⟨m2, hi2, hv2, ?_, fun k => (hread2 k).trans (hread k), hag2.trans hag⟩
    show (runIOps mode (s.apply mode op) ops).st.version ≤ _
    simp only [List.length_cons]; omega

/-- what a view reads from the indexer's database part depends only on the entries of version ≤ its
version: point reads, prefix iteration, and everything composed of them -/
theorem iview_agree {IK : Bytes → Prop} (hIK : WFKeys IK) {a b : DB} {va vb v : Nat} (ha : IRep IK a va) (hb : IRep IK b vb)
    (hva : va ≤ maxVer) (hvb : vb ≤ maxVer) (hv : v ≤ maxVer) (hag : AgreeUpTo v a b)
    (hpfx : ∀ h, PfxOK IK (txHeightKey h)) :
    let x : IView := { idb := a, version := v }
    let y : IView := { idb := b, version := v }
    (∀ k, x.getB k = y.getB k) ∧ (∀ h, x.txsByHeight h = y.txsByHeight h) ∧
    (∀ hk t, x.getBlock hk t = y.getBlock hk t) ∧
    (∀ h, x.dbBlockByHeight h = y.dbBlockByHeight h) ∧ (∀ h, x.dbQCByHeight h = y.dbQCByHeight h) ∧
    (∀ hash, x.getBlockByHash hash = y.getBlockByHash hash) ∧ (∀ hash, x.getTxByHash hash = y.getTxByHash hash) := by
  intro x y
  have wa := ha.wfl hIK hva
  have wb := hb.wfl hIK hvb
  have hget : ∀ k, x.getB k = y.getB k := by
    intro k
    simp only [IView.getB, smGet, x, y]
    rw [get_agree wa wb hv hag]
  have hiter : ∀ h, x.iter (txHeightKey h) = y.iter (txHeightKey h) := by
    intro h
    simp only [IView.iter, IView.dbIter, x, y]
    rw [iter_agree wa wb hv hag _ (ha.compatP (hpfx h)) (hb.compatP (hpfx h))]
  have htxs : ∀ h, x.txsByHeight h = y.txsByHeight h := by
    intro h
    simp only [IView.txsByHeight, hiter h, hget]
  have hblk : ∀ hk t, x.getBlock hk t = y.getBlock hk t := by
    intro hk t
    simp only [IView.getBlock, hget hk, htxs]
  refine ⟨hget, htxs, hblk, ?_, ?_, ?_, ?_⟩
  · intro h; simp only [IView.dbBlockByHeight, hget, hblk]
  · intro h; simp only [IView.dbQCByHeight, hget]
  · intro hash; simp only [IView.getBlockByHash, hblk]
  · intro hash; simp only [IView.getTxByHash, hget]

end Canopy.Store

namespace Canopy.Store
open Canopy

/-! ## the real index key universe is prefix-free -/

/-- the keys `IndexBlock` / `IndexQC` / `IndexTx` write (32-byte hashes, IndexByAccount off) -/
inductive IdxKey : Bytes → Prop
  | blockHash (hash : Bytes) (h : hash.length = 32) : IdxKey (blockHashKey hash)
  | blockHeight (h : Nat) (hh : h < 18446744073709551616) : IdxKey (blockHeightKey h)
  | qcHeight (h : Nat) (hh : h < 18446744073709551616) : IdxKey (qcHeightKey h)
  | txHash (hash : Bytes) (h : hash.length = 32) : IdxKey (txHashKey hash)
  | txHeightIndex (h i : Nat) (hh : h < 18446744073709551616) (hi : i < 18446744073709551616) :
      IdxKey (txHeightIndexKey h i)

/-- the segment list of an index key -/
theorem IdxKey.segs {k : Bytes} (h : IdxKey k) : ∃ segs, SegsOK segs ∧ k = joinLenPrefix segs ∧
    ((∃ hash, hash.length = 32 ∧ segs = [[5], hash]) ∨ (∃ n, n < 18446744073709551616 ∧ segs = [[6], be8 n]) ∨
     (∃ n, n < 18446744073709551616 ∧ segs = [[7], be8 n]) ∨
     (∃ hash, hash.length = 32 ∧ segs = [[1], hash]) ∨
     (∃ n i, n < 18446744073709551616 ∧ i < 18446744073709551616 ∧ segs = [[2], be8 n, be8 i])) := by
  cases h with
  | blockHash hash hl => exact ⟨_, by intro s hs; simp at hs; rcases hs with rfl | rfl <;> simp [hl], rfl, Or.inl ⟨hash, hl, rfl⟩⟩
  | blockHeight n hn => exact ⟨_, by intro s hs; simp at hs; rcases hs with rfl | rfl <;> simp [be8_length], rfl, Or.inr (Or.inl ⟨n, hn, rfl⟩)⟩
  | qcHeight n hn => exact ⟨_, by intro s hs; simp at hs; rcases hs with rfl | rfl <;> simp [be8_length], rfl, Or.inr (Or.inr (Or.inl ⟨n, hn, rfl⟩))⟩
  | txHash hash hl => exact ⟨_, by intro s hs; simp at hs; rcases hs with rfl | rfl <;> simp [hl], rfl, Or.inr (Or.inr (Or.inr (Or.inl ⟨hash, hl, rfl⟩)))⟩
  | txHeightIndex n i hn hi' => exact ⟨_, by intro s hs; simp at hs; rcases hs with rfl | rfl | rfl <;> simp [be8_length], rfl, Or.inr (Or.inr (Or.inr (Or.inr ⟨n, i, hn, hi', rfl⟩)))⟩

theorem prefix_eq_of_length {α : Type} {a b : List α} (h : a <+: b) (hl : a.length = b.length) : a = b := by
  obtain ⟨t, rfl⟩ := h
  have : t = [] := by
    simp at hl; exact hl
  simp [this]

theorem idxKey_wf : WFKeys IdxKey where
  ok := by
    intro k hk
    obtain ⟨segs, hok, rfl, hshape⟩ := hk.segs
    refine ⟨?_, ?_, by unfold keyOK; rw [decode_join segs hok]; rfl⟩
    · rcases hshape with ⟨_, _, rfl⟩ | ⟨_, _, rfl⟩ | ⟨_, _, rfl⟩ | ⟨_, _, rfl⟩ | ⟨_, _, _, _, rfl⟩ <;> simp [joinLenPrefix]
    · rcases hshape with ⟨_, hl, rfl⟩ | ⟨_, _, rfl⟩ | ⟨_, _, rfl⟩ | ⟨_, hl, rfl⟩ | ⟨_, _, _, _, rfl⟩
      · simp [joinLenPrefix, hl]
      · simp [joinLenPrefix, be8_length]
      · simp [joinLenPrefix, be8_length]
      · simp [joinLenPrefix, hl]
      · simp [joinLenPrefix, be8_length]
  pf := by
    intro a b ha hb hp
    obtain ⟨sa, oka, rfl, shA⟩ := ha.segs
    obtain ⟨sb, okb, rfl, shB⟩ := hb.segs
    have hs := join_prefix sa sb oka okb hp
    congr 1
    rcases shA with ⟨_, _, rfl⟩ | ⟨_, _, rfl⟩ | ⟨_, _, rfl⟩ | ⟨_, _, rfl⟩ | ⟨_, _, _, _, rfl⟩ <;>
      rcases shB with ⟨_, _, rfl⟩ | ⟨_, _, rfl⟩ | ⟨_, _, rfl⟩ | ⟨_, _, rfl⟩ | ⟨_, _, _, _, rfl⟩ <;>
      first
        | exact prefix_eq_of_length hs rfl
        | (exfalso; simp [List.cons_prefix_cons] at hs)

/-- no index key is a proper prefix of the per-height tx prefix the block reads iterate -/
theorem idxKey_pfx (h : Nat) : PfxOK IdxKey (txHeightKey h) := by
  intro k hk hp
  exfalso
  obtain ⟨sa, oka, rfl, shA⟩ := hk.segs
  have okb : SegsOK [[2], be8 h] := by intro s hs; simp at hs; rcases hs with rfl | rfl <;> simp [be8_length]
  have hs := join_prefix sa [[2], be8 h] oka okb hp
  rcases shA with ⟨_, _, rfl⟩ | ⟨_, _, rfl⟩ | ⟨_, _, rfl⟩ | ⟨_, _, rfl⟩ | ⟨_, _, _, _, rfl⟩ <;>
    simp [List.cons_prefix_cons] at hs

end Canopy.Store
