import Canopy.Model.SmtProof
import Canopy.Proof.SmtHash
/-! Lemmas about the repaired verifier `verifyFixed` (C16, part B). Core only. -/
namespace Canopy.Smt
open Trie

/-- the repaired verifier has no crash and no hang outcome -/
theorem verifyFixed_no_crash (H : Bytes → Bytes) (n : Nat) (uk v : Bytes) (m : Bool) (root : Bytes) (proof : List PNode) :
    (∀ w, verifyFixed H n uk v m root proof ≠ .crash w) ∧ verifyFixed H n uk v m root proof ≠ .hang := by
  unfold verifyFixed
  cases verifyFixedF H n uk v m root proof <;> simp [FVerdict.toVerdict]

end Canopy.Smt
