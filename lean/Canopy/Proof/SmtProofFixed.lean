import Canopy.Model.SmtProof
import Canopy.Proof.SmtHash
/-! Lemmas about the repaired verifier `verifyFixed` (C16, part B). Core only. -/
namespace Canopy.Smt
open Trie

/-- the repaired verifier has no crash and no hang outcome -/
theorem verifyFixed_no_crash (strict : Bool) (H : Bytes → Bytes) (H4 : Bytes → Bytes → Bytes → Bytes → Bytes) (n : Nat) (uk v : Bytes) (m : Bool) (root : Bytes) (proof : List PNode) :
    (∀ w, verifyFixed strict H H4 n uk v m root proof ≠ .crash w) ∧ verifyFixed strict H H4 n uk v m root proof ≠ .hang := by
  unfold verifyFixed
  cases verifyFixedF strict H H4 n uk v m root proof <;> simp [FVerdict.toVerdict]

/-! ### gcp facts -/

/-- a common prefix is a prefix of the greatest common prefix -/
theorem prefix_gcp : ∀ (x a b : Key), x <+: a → x <+: b → x <+: gcp a b
  | [], _, _, _, _ => List.nil_prefix
  | x :: xs, [], _, h, _ => by simp at h
  | x :: xs, _ :: _, [], _, h => by simp at h
  | x :: xs, a :: as, b :: bs, h1, h2 => by
    rw [List.cons_prefix_cons] at h1 h2
    obtain ⟨rfl, h1⟩ := h1
    obtain ⟨rfl, h2⟩ := h2
    simp only [gcp, if_true]
    exact List.cons_prefix_cons.mpr ⟨rfl, prefix_gcp xs as bs h1 h2⟩

/-- two keys that part ways right after `q` have `q` as greatest common prefix -/
theorem gcp_of_diverge {q a b : Key} {x : Bool} (ha : q ++ [x] <+: a) (hb : q ++ [!x] <+: b) : gcp a b = q := by
  have hq : q <+: gcp a b := prefix_gcp q a b (prefix_of_snoc_prefix ha) (prefix_of_snoc_prefix hb)
  obtain ⟨rest, hrest⟩ := hq
  cases rest with
  | nil => simpa using hrest.symm
  | cons y rest =>
    exfalso
    have hy : q ++ [y] <+: gcp a b := ⟨rest, by rw [← hrest]; simp⟩
    have e1 := prefix_bit_unique (hy.trans (gcp_prefix_left a b)) ha
    have e2 := prefix_bit_unique (hy.trans (gcp_prefix_right a b)) hb
    rw [e1] at e2; cases x <;> simp at e2

theorem gcp_comm : ∀ a b : Key, gcp a b = gcp b a
  | [], [] => rfl
  | [], _ :: _ => rfl
  | _ :: _, [] => rfl
  | a :: as, b :: bs => by
    simp only [gcp]
    by_cases e : a = b
    · subst e; simp [gcp_comm as bs]
    · have : ¬ b = a := fun h => e h.symm
      simp [e, this]

/-- `|gcp a b| = |b|` exactly when `b` is a prefix of `a` -/
theorem gcp_length_eq_iff (a b : Key) : (gcp a b).length = b.length ↔ b <+: a := by
  constructor
  · intro h
    have := (gcp_prefix_right a b).eq_of_length h
    rw [← this]; exact gcp_prefix_left a b
  · intro h
    have h1 : b <+: gcp a b := prefix_gcp b a b h (List.prefix_refl _)
    have h2 := (gcp_prefix_right a b).length_le
    have h3 := h1.length_le
    omega

namespace Trie

/-- the children of a well-formed node part ways right after its prefix -/
theorem gcp_children {n : Nat} {p : Key} {l r : Trie} (h : WF n (node p l r)) : gcp l.key r.key = p :=
  gcp_of_diverge (x := false) (child_prefix h.1 h.2.2.1) (child_prefix h.2.1 h.2.2.2)

theorem child_key_length_gt {n : Nat} {p : Key} {l r : Trie} (h : WF n (node p l r)) :
    p.length < l.key.length ∧ p.length < r.key.length :=
  ⟨length_lt_of_snoc_prefix (child_prefix h.1 h.2.2.1), length_lt_of_snoc_prefix (child_prefix h.2.1 h.2.2.2)⟩

end Trie

/-! ### the key codec on honest keys -/

/-- meaningful bits of the final data byte as the validator computes them -/
def lastBitsOf (v pad : UInt8) : Nat := pad.toNat + max (V.len8 v) 1

theorem lastBits_1 : ∀ a : Bool, lastBitsOf (UInt8.ofNat (bitsVal [a])) (UInt8.ofNat (padOf [a])) = 1 := by decide
theorem lastBits_2 : ∀ a b : Bool, lastBitsOf (UInt8.ofNat (bitsVal [a, b])) (UInt8.ofNat (padOf [a, b])) = 2 := by decide
theorem lastBits_3 : ∀ a b c : Bool,
    lastBitsOf (UInt8.ofNat (bitsVal [a, b, c])) (UInt8.ofNat (padOf [a, b, c])) = 3 := by decide
theorem lastBits_4 : ∀ a b c d : Bool,
    lastBitsOf (UInt8.ofNat (bitsVal [a, b, c, d])) (UInt8.ofNat (padOf [a, b, c, d])) = 4 := by decide
theorem lastBits_5 : ∀ a b c d e : Bool,
    lastBitsOf (UInt8.ofNat (bitsVal [a, b, c, d, e])) (UInt8.ofNat (padOf [a, b, c, d, e])) = 5 := by decide
theorem lastBits_6 : ∀ a b c d e f : Bool,
    lastBitsOf (UInt8.ofNat (bitsVal [a, b, c, d, e, f])) (UInt8.ofNat (padOf [a, b, c, d, e, f])) = 6 := by decide
theorem lastBits_7 : ∀ a b c d e f g : Bool,
    lastBitsOf (UInt8.ofNat (bitsVal [a, b, c, d, e, f, g])) (UInt8.ofNat (padOf [a, b, c, d, e, f, g])) = 7 := by decide
theorem lastBits_8 : ∀ a b c d e f g h : Bool,
    lastBitsOf (UInt8.ofNat (bitsVal [a, b, c, d, e, f, g, h])) (UInt8.ofNat (padOf [a, b, c, d, e, f, g, h])) = 8 := by
  decide

theorem lastBits_encode (c : List Bool) (h1 : 1 ≤ c.length) (h8 : c.length ≤ 8) :
    lastBitsOf (UInt8.ofNat (bitsVal c)) (UInt8.ofNat (padOf c)) = c.length := by
  match c, h1, h8 with
  | [a], _, _ => exact lastBits_1 a
  | [a, b], _, _ => exact lastBits_2 a b
  | [a, b, c], _, _ => exact lastBits_3 a b c
  | [a, b, c, d], _, _ => exact lastBits_4 a b c d
  | [a, b, c, d, e], _, _ => exact lastBits_5 a b c d e
  | [a, b, c, d, e, f], _, _ => exact lastBits_6 a b c d e f
  | [a, b, c, d, e, f, g], _, _ => exact lastBits_7 a b c d e f g
  | [a, b, c, d, e, f, g, h], _, _ => exact lastBits_8 a b c d e f g h
  | _ :: _ :: _ :: _ :: _ :: _ :: _ :: _ :: _ :: _, _, h => simp at h

/-- the quantity `(len - 2) * 8 + lastBits` the validator compares with the key length -/
def bitsOfEnc (b : Bytes) : Option Nat :=
  match b.reverse with
  | pad :: last :: _ => if lastBitsOf last pad ≤ 8 then some ((b.length - 2) * 8 + lastBitsOf last pad) else none
  | _ => none

theorem validNodeKey_iff (n : Nat) (b : Bytes) : validNodeKey n b = true ↔ ∃ m, bitsOfEnc b = some m ∧ m ≤ n := by
  unfold validNodeKey bitsOfEnc lastBitsOf
  generalize b.reverse = rv
  match rv with
  | [] => simp
  | [_] => simp
  | pad :: last :: more =>
    simp only [Bool.and_eq_true, decide_eq_true_eq]
    constructor
    · rintro ⟨h1, h2⟩; exact ⟨_, by rw [if_pos h1], h2⟩
    · rintro ⟨m, hm, hle⟩
      by_cases h1 : pad.toNat + max (V.len8 last) 1 ≤ 8
      · rw [if_pos h1] at hm
        simp at hm; subst hm; exact ⟨h1, hle⟩
      · rw [if_neg h1] at hm; simp at hm

theorem bitsOfEnc_cons (x : UInt8) (rest : Bytes) (h : 2 ≤ rest.length) :
    bitsOfEnc (x :: rest) = (bitsOfEnc rest).map (· + 8) := by
  unfold bitsOfEnc
  match hr : rest.reverse with
  | [] => simp at hr; subst hr; simp at h
  | [_] =>
    have := congrArg List.length hr; simp at this; omega
  | pad :: last :: more =>
    simp only [List.reverse_cons, hr, List.cons_append, List.length_cons]
    split <;> simp <;> omega

/-- an honest key encoding passes the validator and carries its exact bit length -/
theorem bitsOfEnc_encodeKey : ∀ (m : Nat) (k : Key), k.length = m → k ≠ [] → bitsOfEnc (encodeKey k) = some k.length := by
  intro m
  induction m using Nat.strongRecOn with
  | _ m ih =>
    intro k hm hne
    cases k with
    | nil => exact absurd rfl hne
    | cons b bs =>
      by_cases h : bs.length < 8
      · rw [encodeKey_short b bs h]
        have hl := lastBits_encode (b :: bs) (by simp) (by simp; omega)
        simp only [bitsOfEnc, List.reverse_cons, List.reverse_nil, List.nil_append, List.cons_append, hl]
        simp; omega
      · rw [encodeKey_long b bs h]
        have hd : (b :: bs).drop 8 ≠ [] := by
          intro e
          have := congrArg List.length e
          simp [List.length_drop] at this
          omega
        have hlen := encodeKey_length_ge _ _ rfl hd
        rw [bitsOfEnc_cons _ _ hlen, ih ((b :: bs).drop 8).length (by simp [List.length_drop] at *; omega) _ rfl hd]
        simp [List.length_drop]; omega

theorem validNodeKey_encodeKey {n : Nat} {k : Key} (hne : k ≠ []) (hle : k.length ≤ n) :
    validNodeKey n (encodeKey k) = true :=
  (validNodeKey_iff n _).mpr ⟨k.length, bitsOfEnc_encodeKey _ k rfl hne, hle⟩

end Canopy.Smt
