import Canopy.Model.SignBytes
import Canopy.Proof.ProtoTx
/-! Injectivity of the sign-bytes encodings (C19 b). Core Lean only. -/
namespace Canopy.SignBytes
open Canopy Canopy.Proto

/-! ## generic: field lists are determined by their encoding, slots by the field list -/

theorem encFields_inj (a b : List Field) (ha : ∀ f ∈ a, f.WF) (hb : ∀ f ∈ b, f.WF)
    (h : encFields a = encFields b) : a = b := by
  have e := parse_enc a ha
  rw [h, parse_enc b hb] at e
  simpa using e.symm

def slotOf (n : Nat) (fs : List Field) : List WireVal := (fs.filter (·.num == n)).map (·.val)

theorem slotOf_append (n : Nat) (a b : List Field) : slotOf n (a ++ b) = slotOf n a ++ slotOf n b := by
  simp [slotOf]

theorem slotOf_map_mk (m n : Nat) (vs : List WireVal) :
    slotOf n (vs.map (Field.mk m)) = if m == n then vs else [] := by
  unfold slotOf
  by_cases h : (m == n) = true
  · simp [h, List.filter_map, Function.comp_def]
  · simp [h, List.filter_map, Function.comp_def]

theorem assemble_cons (s : Slot) (l : List Slot) : assemble (s :: l) = s.2.map (Field.mk s.1) ++ assemble l := by
  simp [assemble]

theorem slotOf_assemble_notin (l : List Slot) (n : Nat) (h : n ∉ l.map (·.1)) : slotOf n (assemble l) = [] := by
  induction l with
  | nil => simp [assemble, slotOf]
  | cons s l ih =>
    simp only [List.map_cons, List.mem_cons, not_or] at h
    rw [assemble_cons, slotOf_append, slotOf_map_mk, ih h.2]
    have : (s.1 == n) = false := by
      simp only [beq_eq_false_iff_ne, ne_eq]; exact fun e => h.1 e.symm
    simp [this]

theorem slotOf_assemble (l : List Slot) (hn : (l.map (·.1)).Nodup) (n : Nat) (vs : List WireVal)
    (h : (n, vs) ∈ l) : slotOf n (assemble l) = vs := by
  induction l with
  | nil => cases h
  | cons s l ih =>
    simp only [List.map_cons, List.nodup_cons] at hn
    rw [assemble_cons, slotOf_append, slotOf_map_mk]
    rcases List.mem_cons.mp h with rfl | h'
    · simp [slotOf_assemble_notin l _ hn.1]
    · have hne : (s.1 == n) = false := by
        simp only [beq_eq_false_iff_ne, ne_eq]
        intro e
        exact hn.1 (e ▸ List.mem_map.mpr ⟨(n, vs), h', rfl⟩)
      simp [hne, ih hn.2 h']

/-- equal assembled field lists have equal slots -/
theorem slot_eq {l₁ l₂ : List Slot} (h : assemble l₁ = assemble l₂) (hn₁ : (l₁.map (·.1)).Nodup)
    (hn₂ : (l₂.map (·.1)).Nodup) (n : Nat) (v₁ v₂ : List WireVal) (h₁ : (n, v₁) ∈ l₁) (h₂ : (n, v₂) ∈ l₂) :
    v₁ = v₂ := by
  rw [← slotOf_assemble l₁ hn₁ n v₁ h₁, ← slotOf_assemble l₂ hn₂ n v₂ h₂, h]

theorem assemble_wf (l : List Slot) (h : ∀ s ∈ l, 1 ≤ s.1 ∧ s.1 ≤ maxFieldNum ∧ ∀ v ∈ s.2, v.WF) :
    ∀ f ∈ assemble l, f.WF := by
  intro f hf
  simp only [assemble, List.mem_flatMap, List.mem_map] at hf
  obtain ⟨s, hs, v, hv, rfl⟩ := hf
  obtain ⟨h1, h2, h3⟩ := h s hs
  exact ⟨h1, h2, h3 v hv⟩

/-! ## slot constructors -/

theorem uintO_inj {a b : Nat} (h : uintO a = uintO b) : a = b := by
  unfold uintO at h
  by_cases ha : (a == 0) = true <;> by_cases hb : (b == 0) = true <;> simp [ha, hb] at h
  · simp at ha hb; omega
  · exact h

theorem lenO_inj {a b : Bytes} (h : lenO a = lenO b) : a = b := by
  unfold lenO at h
  by_cases ha : a.isEmpty = true <;> by_cases hb : b.isEmpty = true <;> simp [ha, hb] at h
  · rw [isEmpty_eq_nil ha, isEmpty_eq_nil hb]
  · exact h

theorem msgO_inj {α : Type} (enc : α → Bytes) (P : α → Prop)
    (henc : ∀ a b, P a → P b → enc a = enc b → a = b) {x y : Option α}
    (hx : ∀ a, x = some a → P a) (hy : ∀ a, y = some a → P a) (h : msgO enc x = msgO enc y) : x = y := by
  cases x <;> cases y <;> simp [msgO] at h
  · rfl
  · next a b => rw [henc a b (hx a rfl) (hy b rfl) h]

theorem repO_inj {α : Type} (enc : α → Bytes) (P : α → Prop)
    (henc : ∀ a b, P a → P b → enc a = enc b → a = b) {x y : List α}
    (hx : ∀ a ∈ x, P a) (hy : ∀ a ∈ y, P a) (h : repO enc x = repO enc y) : x = y := by
  induction x generalizing y with
  | nil => cases y <;> simp [repO] at h ⊢
  | cons a x ih =>
    cases y with
    | nil => simp [repO] at h
    | cons b y =>
      simp only [repO, List.map_cons, List.cons.injEq, WireVal.len.injEq] at h
      have hab := henc a b (hx a (by simp)) (hy b (by simp)) h.1
      have := ih (y := y) (fun c hc => hx c (by simp [hc])) (fun c hc => hy c (by simp [hc])) h.2
      rw [hab, this]

theorem uintO_wf (n : Nat) (h : n < 2 ^ 64) : ∀ v ∈ uintO n, v.WF := by
  unfold uintO; split <;> simp [WireVal.WF, h]

theorem lenO_wf (b : Bytes) (h : Small b) : ∀ v ∈ lenO b, v.WF := by
  unfold lenO; split <;> simp [WireVal.WF]; exact h

theorem msgO_wf {α : Type} (enc : α → Bytes) (x : Option α) (h : ∀ a, x = some a → Small (enc a)) :
    ∀ v ∈ msgO enc x, v.WF := by
  cases x with
  | none => simp [msgO]
  | some a => simp [msgO, WireVal.WF]; exact h a rfl

theorem repO_wf {α : Type} (enc : α → Bytes) (x : List α) (h : ∀ a ∈ x, Small (enc a)) :
    ∀ v ∈ repO enc x, v.WF := by
  intro v hv
  simp only [repO, List.mem_map] at hv
  obtain ⟨a, ha, rfl⟩ := hv
  exact h a ha

/-! ## View -/

structure ViewC.WF (v : ViewC) : Prop where
  h1 : v.networkId < 2 ^ 64
  h2 : v.chainId < 2 ^ 64
  h3 : v.height < 2 ^ 64
  h4 : v.rootHeight < 2 ^ 64
  h5 : v.round < 2 ^ 64
  h6 : v.phase < 2 ^ 64

theorem view_nodup (v : ViewC) : (v.slots.map (·.1)).Nodup := by simp [ViewC.slots]

theorem view_fields_wf (v : ViewC) (h : v.WF) : ∀ f ∈ assemble v.slots, f.WF := by
  apply assemble_wf
  intro s hs
  simp only [ViewC.slots, List.mem_cons, List.not_mem_nil, or_false] at hs
  rcases hs with rfl | rfl | rfl | rfl | rfl | rfl
  · exact ⟨by simp, by simp [maxFieldNum], uintO_wf _ h.h1⟩
  · exact ⟨by simp, by simp [maxFieldNum], uintO_wf _ h.h2⟩
  · exact ⟨by simp, by simp [maxFieldNum], uintO_wf _ h.h3⟩
  · exact ⟨by simp, by simp [maxFieldNum], uintO_wf _ h.h4⟩
  · exact ⟨by simp, by simp [maxFieldNum], uintO_wf _ h.h5⟩
  · exact ⟨by simp, by simp [maxFieldNum], uintO_wf _ h.h6⟩

theorem canonView_inj (v₁ v₂ : ViewC) (h₁ : v₁.WF) (h₂ : v₂.WF) (h : canonView v₁ = canonView v₂) : v₁ = v₂ := by
  have ha := encFields_inj _ _ (view_fields_wf v₁ h₁) (view_fields_wf v₂ h₂) h
  have s (n : Nat) (a b : List WireVal) (m₁ : (n, a) ∈ v₁.slots) (m₂ : (n, b) ∈ v₂.slots) : a = b :=
    slot_eq ha (view_nodup v₁) (view_nodup v₂) n a b m₁ m₂
  have e1 := uintO_inj (s 1 (uintO v₁.networkId) (uintO v₂.networkId) (by simp [ViewC.slots]) (by simp [ViewC.slots]))
  have e2 := uintO_inj (s 2 (uintO v₁.chainId) (uintO v₂.chainId) (by simp [ViewC.slots]) (by simp [ViewC.slots]))
  have e3 := uintO_inj (s 3 (uintO v₁.height) (uintO v₂.height) (by simp [ViewC.slots]) (by simp [ViewC.slots]))
  have e4 := uintO_inj (s 4 (uintO v₁.rootHeight) (uintO v₂.rootHeight) (by simp [ViewC.slots]) (by simp [ViewC.slots]))
  have e5 := uintO_inj (s 5 (uintO v₁.round) (uintO v₂.round) (by simp [ViewC.slots]) (by simp [ViewC.slots]))
  have e6 := uintO_inj (s 6 (uintO v₁.phase) (uintO v₂.phase) (by simp [ViewC.slots]) (by simp [ViewC.slots]))
  cases v₁; cases v₂; simp_all

/-! ## QuorumCertificate -/

structure QcC.WF (q : QcC) : Prop where
  header : ∀ h, q.header = some h → h.WF ∧ Small (canonView h)
  results : ∀ r, q.results = some r → Small r
  rh : Small q.resultsHash
  block : Small q.block
  bh : Small q.blockHash
  pk : Small q.proposerKey
  sig : ∀ r, q.signature = some r → Small r

theorem qc_nodup (q : QcC) : (q.slots.map (·.1)).Nodup := by simp [QcC.slots]

theorem qc_fields_wf (q : QcC) (h : q.WF) : ∀ f ∈ assemble q.slots, f.WF := by
  apply assemble_wf
  intro s hs
  simp only [QcC.slots, List.mem_cons, List.not_mem_nil, or_false] at hs
  rcases hs with rfl | rfl | rfl | rfl | rfl | rfl | rfl
  · exact ⟨by simp, by simp [maxFieldNum], msgO_wf _ _ (fun a ha => (h.header a ha).2)⟩
  · exact ⟨by simp, by simp [maxFieldNum], msgO_wf _ _ h.results⟩
  · exact ⟨by simp, by simp [maxFieldNum], lenO_wf _ h.rh⟩
  · exact ⟨by simp, by simp [maxFieldNum], lenO_wf _ h.block⟩
  · exact ⟨by simp, by simp [maxFieldNum], lenO_wf _ h.bh⟩
  · exact ⟨by simp, by simp [maxFieldNum], lenO_wf _ h.pk⟩
  · exact ⟨by simp, by simp [maxFieldNum], msgO_wf _ _ h.sig⟩

theorem canonQc_inj (q₁ q₂ : QcC) (h₁ : q₁.WF) (h₂ : q₂.WF) (h : canonQc q₁ = canonQc q₂) : q₁ = q₂ := by
  have ha := encFields_inj _ _ (qc_fields_wf q₁ h₁) (qc_fields_wf q₂ h₂) h
  have s (n : Nat) (a b : List WireVal) (m₁ : (n, a) ∈ q₁.slots) (m₂ : (n, b) ∈ q₂.slots) : a = b :=
    slot_eq ha (qc_nodup q₁) (qc_nodup q₂) n a b m₁ m₂
  have e1 := msgO_inj canonView ViewC.WF canonView_inj (fun a ha => (h₁.header a ha).1) (fun a ha => (h₂.header a ha).1)
    (s 1 (msgO canonView q₁.header) (msgO canonView q₂.header) (by simp [QcC.slots]) (by simp [QcC.slots]))
  have e2 := msgO_inj id (fun _ => True) (fun a b _ _ e => e) (fun _ _ => trivial) (fun _ _ => trivial)
    (s 2 (msgO id q₁.results) (msgO id q₂.results) (by simp [QcC.slots]) (by simp [QcC.slots]))
  have e3 := lenO_inj (s 3 (lenO q₁.resultsHash) (lenO q₂.resultsHash) (by simp [QcC.slots]) (by simp [QcC.slots]))
  have e4 := lenO_inj (s 4 (lenO q₁.block) (lenO q₂.block) (by simp [QcC.slots]) (by simp [QcC.slots]))
  have e5 := lenO_inj (s 5 (lenO q₁.blockHash) (lenO q₂.blockHash) (by simp [QcC.slots]) (by simp [QcC.slots]))
  have e6 := lenO_inj (s 6 (lenO q₁.proposerKey) (lenO q₂.proposerKey) (by simp [QcC.slots]) (by simp [QcC.slots]))
  have e7 := msgO_inj id (fun _ => True) (fun a b _ _ e => e) (fun _ _ => trivial) (fun _ _ => trivial)
    (s 7 (msgO id q₁.signature) (msgO id q₂.signature) (by simp [QcC.slots]) (by simp [QcC.slots]))
  cases q₁; cases q₂; simp_all

theorem small_nil : Small ([] : Bytes) := by simp [Small]

theorem signProjection_wf (q : QcC) (h : q.WF) : q.signProjection.WF := by
  unfold QcC.signProjection
  split
  · exact ⟨h.header, by simp, small_nil, small_nil, small_nil, h.pk, by simp⟩
  · exact ⟨h.header, by simp, h.rh, small_nil, h.bh, h.pk, by simp⟩

/-- equal certificate sign bytes ⇒ equal signed projections -/
theorem qcSignBytes_inj (q₁ q₂ : QcC) (h₁ : q₁.WF) (h₂ : q₂.WF) (h : qcSignBytes q₁ = qcSignBytes q₂) :
    q₁.signProjection = q₂.signProjection :=
  canonQc_inj _ _ (signProjection_wf q₁ h₁) (signProjection_wf q₂ h₂) h

theorem signProjection_header (q : QcC) : q.signProjection.header = q.header := by
  unfold QcC.signProjection; split <;> rfl

theorem signProjection_pk (q : QcC) : q.signProjection.proposerKey = q.proposerKey := by
  unfold QcC.signProjection; split <;> rfl

theorem isElectionVote_of_header (q₁ q₂ : QcC) (h : q₁.header = q₂.header) : q₁.isElectionVote = q₂.isElectionVote := by
  unfold QcC.isElectionVote; rw [h]

/-- stripping fields never lengthens the canonical encoding -/
theorem canonQc_strip_le (q : QcC) :
    (canonQc { q with results := none, block := [] }).length ≤ (canonQc q).length := by
  simp only [canonQc, QcC.slots, assemble, encFields, List.flatMap_cons, List.flatMap_nil, List.append_nil,
    List.length_append, List.flatMap_append, msgO, lenO, List.isEmpty_nil, if_true, List.map_nil, List.length_nil]
  omega

/-! ## Signature, DoubleSignEvidence, Message -/

theorem canonSig_inj (g₁ g₂ : SigC) (h₁ : g₁.WF) (h₂ : g₂.WF) (h : canonSig g₁ = canonSig g₂) : g₁ = g₂ := by
  have e₁ := mergeSig_canon g₁ h₁
  rw [h, mergeSig_canon g₂ h₂] at e₁
  simpa using e₁.symm

structure DseC.WF (d : DseC) : Prop where
  a : ∀ q, d.voteA = some q → q.WF ∧ Small (canonQc q)
  b : ∀ q, d.voteB = some q → q.WF ∧ Small (canonQc q)

theorem dse_nodup (d : DseC) : (d.slots.map (·.1)).Nodup := by simp [DseC.slots]

theorem dse_fields_wf (d : DseC) (h : d.WF) : ∀ f ∈ assemble d.slots, f.WF := by
  apply assemble_wf
  intro s hs
  simp only [DseC.slots, List.mem_cons, List.not_mem_nil, or_false] at hs
  rcases hs with rfl | rfl
  · exact ⟨by simp, by simp [maxFieldNum], msgO_wf _ _ (fun q hq => (h.a q hq).2)⟩
  · exact ⟨by simp, by simp [maxFieldNum], msgO_wf _ _ (fun q hq => (h.b q hq).2)⟩

theorem canonDse_inj (d₁ d₂ : DseC) (h₁ : d₁.WF) (h₂ : d₂.WF) (h : canonDse d₁ = canonDse d₂) : d₁ = d₂ := by
  have ha := encFields_inj _ _ (dse_fields_wf d₁ h₁) (dse_fields_wf d₂ h₂) h
  have s (n : Nat) (a b : List WireVal) (m₁ : (n, a) ∈ d₁.slots) (m₂ : (n, b) ∈ d₂.slots) : a = b :=
    slot_eq ha (dse_nodup d₁) (dse_nodup d₂) n a b m₁ m₂
  have e1 := msgO_inj canonQc QcC.WF canonQc_inj (fun q hq => (h₁.a q hq).1) (fun q hq => (h₂.a q hq).1)
    (s 1 (msgO canonQc d₁.voteA) (msgO canonQc d₂.voteA) (by simp [DseC.slots]) (by simp [DseC.slots]))
  have e2 := msgO_inj canonQc QcC.WF canonQc_inj (fun q hq => (h₁.b q hq).1) (fun q hq => (h₂.b q hq).1)
    (s 2 (msgO canonQc d₁.voteB) (msgO canonQc d₂.voteB) (by simp [DseC.slots]) (by simp [DseC.slots]))
  cases d₁; cases d₂; simp_all

structure MsgC.WF (m : MsgC) : Prop where
  header : ∀ h, m.header = some h → h.WF ∧ Small (canonView h)
  vrf : ∀ g, m.vrf = some g → g.WF ∧ Small (canonSig g)
  qc : ∀ q, m.qc = some q → q.WF ∧ Small (canonQc q)
  highQc : ∀ q, m.highQc = some q → q.WF ∧ Small (canonQc q)
  evidence : ∀ d ∈ m.evidence, d.WF ∧ Small (canonDse d)
  vdf : ∀ r, m.vdf = some r → Small r
  signature : ∀ g, m.signature = some g → g.WF ∧ Small (canonSig g)
  ts : m.timestamp < 2 ^ 64
  rc : m.rcBuildHeight < 2 ^ 64

theorem msg_nodup (m : MsgC) : (m.slots.map (·.1)).Nodup := by simp [MsgC.slots]

theorem msg_fields_wf (m : MsgC) (h : m.WF) : ∀ f ∈ assemble m.slots, f.WF := by
  apply assemble_wf
  intro s hs
  simp only [MsgC.slots, List.mem_cons, List.not_mem_nil, or_false] at hs
  rcases hs with rfl | rfl | rfl | rfl | rfl | rfl | rfl | rfl | rfl
  · exact ⟨by simp, by simp [maxFieldNum], msgO_wf _ _ (fun a ha => (h.header a ha).2)⟩
  · exact ⟨by simp, by simp [maxFieldNum], msgO_wf _ _ (fun a ha => (h.vrf a ha).2)⟩
  · exact ⟨by simp, by simp [maxFieldNum], msgO_wf _ _ (fun a ha => (h.qc a ha).2)⟩
  · exact ⟨by simp, by simp [maxFieldNum], msgO_wf _ _ (fun a ha => (h.highQc a ha).2)⟩
  · exact ⟨by simp, by simp [maxFieldNum], repO_wf _ _ (fun a ha => (h.evidence a ha).2)⟩
  · exact ⟨by simp, by simp [maxFieldNum], msgO_wf _ _ h.vdf⟩
  · exact ⟨by simp, by simp [maxFieldNum], msgO_wf _ _ (fun a ha => (h.signature a ha).2)⟩
  · exact ⟨by simp, by simp [maxFieldNum], uintO_wf _ h.ts⟩
  · exact ⟨by simp, by simp [maxFieldNum], uintO_wf _ h.rc⟩

theorem canonMsg_inj (m₁ m₂ : MsgC) (h₁ : m₁.WF) (h₂ : m₂.WF) (h : canonMsg m₁ = canonMsg m₂) : m₁ = m₂ := by
  have ha := encFields_inj _ _ (msg_fields_wf m₁ h₁) (msg_fields_wf m₂ h₂) h
  have s (n : Nat) (a b : List WireVal) (k₁ : (n, a) ∈ m₁.slots) (k₂ : (n, b) ∈ m₂.slots) : a = b :=
    slot_eq ha (msg_nodup m₁) (msg_nodup m₂) n a b k₁ k₂
  have e1 := msgO_inj canonView ViewC.WF canonView_inj (fun a ha => (h₁.header a ha).1) (fun a ha => (h₂.header a ha).1)
    (s 1 (msgO canonView m₁.header) (msgO canonView m₂.header) (by simp [MsgC.slots]) (by simp [MsgC.slots]))
  have e2 := msgO_inj canonSig SigC.WF canonSig_inj (fun a ha => (h₁.vrf a ha).1) (fun a ha => (h₂.vrf a ha).1)
    (s 2 (msgO canonSig m₁.vrf) (msgO canonSig m₂.vrf) (by simp [MsgC.slots]) (by simp [MsgC.slots]))
  have e3 := msgO_inj canonQc QcC.WF canonQc_inj (fun a ha => (h₁.qc a ha).1) (fun a ha => (h₂.qc a ha).1)
    (s 3 (msgO canonQc m₁.qc) (msgO canonQc m₂.qc) (by simp [MsgC.slots]) (by simp [MsgC.slots]))
  have e4 := msgO_inj canonQc QcC.WF canonQc_inj (fun a ha => (h₁.highQc a ha).1) (fun a ha => (h₂.highQc a ha).1)
    (s 4 (msgO canonQc m₁.highQc) (msgO canonQc m₂.highQc) (by simp [MsgC.slots]) (by simp [MsgC.slots]))
  have e5 := repO_inj canonDse DseC.WF canonDse_inj (fun a ha => (h₁.evidence a ha).1) (fun a ha => (h₂.evidence a ha).1)
    (s 5 (repO canonDse m₁.evidence) (repO canonDse m₂.evidence) (by simp [MsgC.slots]) (by simp [MsgC.slots]))
  have e6 := msgO_inj id (fun _ => True) (fun a b _ _ e => e) (fun _ _ => trivial) (fun _ _ => trivial)
    (s 6 (msgO id m₁.vdf) (msgO id m₂.vdf) (by simp [MsgC.slots]) (by simp [MsgC.slots]))
  have e7 := msgO_inj canonSig SigC.WF canonSig_inj (fun a ha => (h₁.signature a ha).1) (fun a ha => (h₂.signature a ha).1)
    (s 7 (msgO canonSig m₁.signature) (msgO canonSig m₂.signature) (by simp [MsgC.slots]) (by simp [MsgC.slots]))
  have e8 := uintO_inj (s 8 (uintO m₁.timestamp) (uintO m₂.timestamp) (by simp [MsgC.slots]) (by simp [MsgC.slots]))
  have e9 := uintO_inj (s 9 (uintO m₁.rcBuildHeight) (uintO m₂.rcBuildHeight) (by simp [MsgC.slots]) (by simp [MsgC.slots]))
  cases m₁; cases m₂; simp_all

/-! ## `bft.Message.SignBytes` -/

theorem strip_wf (q : QcC) (h : q.WF) : ({ q with results := none, block := [] } : QcC).WF :=
  ⟨h.header, by simp, h.rh, small_nil, h.bh, h.pk, h.sig⟩

theorem proposerProjection_wf (m : MsgC) (h : m.WF) : m.proposerProjection.WF := by
  refine ⟨h.header, h.vrf, ?_, h.highQc, h.evidence, by simp [MsgC.proposerProjection], by simp [MsgC.proposerProjection],
    by simp [MsgC.proposerProjection], by simp [MsgC.proposerProjection]⟩
  intro q' hq'
  simp only [MsgC.proposerProjection, Option.map_eq_some_iff] at hq'
  obtain ⟨q, hq, rfl⟩ := hq'
  refine ⟨strip_wf q (h.qc q hq).1, ?_⟩
  have := canonQc_strip_le q
  have hs := (h.qc q hq).2
  unfold Small at hs ⊢
  omega

theorem voteProjection_wf (q : QcC) (h : q.WF) : (voteProjection q).WF :=
  ⟨h.header, by simp [voteProjection], h.rh, small_nil, h.bh, h.pk, by simp [voteProjection]⟩

theorem msgSignBytes_proposer (m : MsgC) (h : m.isProposer = true) : msgSignBytes m = canonMsg m.proposerProjection := by
  simp [msgSignBytes, h]

theorem msgSignBytes_replica (m : MsgC) (q : QcC) (h0 : m.isProposer = false) (h : m.isReplica = true) (hq : m.qc = some q) :
    msgSignBytes m = qcSignBytes (voteProjection q) := by
  simp [msgSignBytes, h0, h, hq]

theorem msgSignBytes_pacemaker (m : MsgC) (q : QcC) (h0 : m.isProposer = false) (h1 : m.isReplica = false)
    (h : m.isPacemaker = true) (hq : m.qc = some q) : msgSignBytes m = canonMsg (MsgC.pacemakerProjection q) := by
  simp [msgSignBytes, h0, h1, h, hq]

/-- two leader messages with equal sign bytes agree on everything the projection keeps -/
theorem proposer_inj (m₁ m₂ : MsgC) (h₁ : m₁.WF) (h₂ : m₂.WF) (p₁ : m₁.isProposer = true) (p₂ : m₂.isProposer = true)
    (h : msgSignBytes m₁ = msgSignBytes m₂) : m₁.proposerProjection = m₂.proposerProjection := by
  rw [msgSignBytes_proposer m₁ p₁, msgSignBytes_proposer m₂ p₂] at h
  exact canonMsg_inj _ _ (proposerProjection_wf m₁ h₁) (proposerProjection_wf m₂ h₂) h

theorem isProposer_header (m : MsgC) (h : m.isProposer = true) :
    ∃ v, m.header = some v ∧ (v.phase = phElection ∨ v.phase = phPropose ∨ v.phase = phPrecommit ∨ v.phase = phCommit) := by
  unfold MsgC.isProposer at h
  cases hh : m.header with
  | none => simp [hh] at h
  | some v =>
    simp only [hh, Bool.or_eq_true, beq_iff_eq] at h
    exact ⟨v, rfl, by omega⟩

theorem isReplica_qc (m : MsgC) (h : m.isReplica = true) :
    ∃ q v, m.qc = some q ∧ q.header = some v ∧
      (v.phase = phElectionVote ∨ v.phase = phProposeVote ∨ v.phase = phPrecommitVote) := by
  unfold MsgC.isReplica at h
  cases hq : m.qc with
  | none => simp [hq] at h
  | some q =>
    cases hv : q.header with
    | none => simp [hq, hv] at h
    | some v =>
      simp only [hq, hv, Bool.and_eq_true, Bool.or_eq_true, beq_iff_eq] at h
      exact ⟨q, v, rfl, hv, by omega⟩

theorem isPacemaker_qc (m : MsgC) (h : m.isPacemaker = true) : ∃ q, m.qc = some q := by
  unfold MsgC.isPacemaker at h
  cases hq : m.qc with
  | none => simp [hq] at h
  | some q => exact ⟨q, rfl⟩

/-- a leader message and a replica vote never share sign bytes: the view, phase included, is inside
both encodings under field number 1 -/
theorem proposer_replica_disjoint (m₁ m₂ : MsgC) (h₁ : m₁.WF) (h₂ : m₂.WF) (p₁ : m₁.isProposer = true)
    (n₂ : m₂.isProposer = false) (r₂ : m₂.isReplica = true) : msgSignBytes m₁ ≠ msgSignBytes m₂ := by
  intro h
  obtain ⟨v₁, hv₁, hp⟩ := isProposer_header m₁ p₁
  obtain ⟨q, v₂, hq, hv₂, hr⟩ := isReplica_qc m₂ r₂
  rw [msgSignBytes_proposer m₁ p₁, msgSignBytes_replica m₂ q n₂ r₂ hq] at h
  have w₁ := proposerProjection_wf m₁ h₁
  have w₂ := signProjection_wf _ (voteProjection_wf q (h₂.qc q hq).1)
  have ha := encFields_inj _ _ (msg_fields_wf _ w₁) (qc_fields_wf _ w₂) h
  have e := slot_eq ha (msg_nodup _) (qc_nodup _) 1 (msgO canonView m₁.proposerProjection.header)
    (msgO canonView (voteProjection q).signProjection.header) (by simp [MsgC.slots]) (by simp [QcC.slots])
  rw [signProjection_header] at e
  simp only [MsgC.proposerProjection, voteProjection, hv₁, hv₂, msgO, List.cons.injEq, WireVal.len.injEq, and_true] at e
  have := canonView_inj v₁ v₂ (h₁.header v₁ hv₁).1 ((h₂.qc q hq).1.header v₂ hv₂).1 e
  subst this
  simp only [phElection, phPropose, phPrecommit, phCommit, phElectionVote, phProposeVote, phPrecommitVote] at hp hr
  omega

/-- a pacemaker message carries no top-level header, so it never shares sign bytes with a leader
message or a vote -/
theorem proposer_pacemaker_disjoint (m₁ m₂ : MsgC) (h₁ : m₁.WF) (h₂ : m₂.WF) (p₁ : m₁.isProposer = true)
    (n₂ : m₂.isProposer = false) (r₂ : m₂.isReplica = false) (k₂ : m₂.isPacemaker = true) :
    msgSignBytes m₁ ≠ msgSignBytes m₂ := by
  intro h
  obtain ⟨v₁, hv₁, _⟩ := isProposer_header m₁ p₁
  obtain ⟨q, hq⟩ := isPacemaker_qc m₂ k₂
  rw [msgSignBytes_proposer m₁ p₁, msgSignBytes_pacemaker m₂ q n₂ r₂ k₂ hq] at h
  have w₁ := proposerProjection_wf m₁ h₁
  have w₂ : (MsgC.pacemakerProjection q).WF := by
    refine ⟨by simp [MsgC.pacemakerProjection, MsgC.empty], by simp [MsgC.pacemakerProjection, MsgC.empty], ?_,
      by simp [MsgC.pacemakerProjection, MsgC.empty], by simp [MsgC.pacemakerProjection, MsgC.empty],
      by simp [MsgC.pacemakerProjection, MsgC.empty], by simp [MsgC.pacemakerProjection, MsgC.empty],
      by simp [MsgC.pacemakerProjection, MsgC.empty], by simp [MsgC.pacemakerProjection, MsgC.empty]⟩
    intro q' hq'
    simp only [MsgC.pacemakerProjection, Option.some.injEq] at hq'
    subst hq'
    have hw : (⟨q.header, none, [], [], [], [], none⟩ : QcC).WF :=
      ⟨(h₂.qc q hq).1.header, by simp, small_nil, small_nil, small_nil, small_nil, by simp⟩
    refine ⟨hw, ?_⟩
    have hle : (canonQc ⟨q.header, none, [], [], [], [], none⟩).length ≤ (canonQc q).length := by
      simp only [canonQc, QcC.slots, assemble, encFields, List.flatMap_cons, List.flatMap_nil, List.append_nil,
        List.length_append, List.flatMap_append, msgO, lenO, List.isEmpty_nil, if_true, List.map_nil]
      omega
    have hs := (h₂.qc q hq).2
    unfold Small at hs ⊢
    omega
  have ha := encFields_inj _ _ (msg_fields_wf _ w₁) (msg_fields_wf _ w₂) h
  have e := slot_eq ha (msg_nodup _) (msg_nodup _) 1 (msgO canonView m₁.proposerProjection.header)
    (msgO canonView (MsgC.pacemakerProjection q).header) (by simp [MsgC.slots]) (by simp [MsgC.slots])
  simp [MsgC.proposerProjection, MsgC.pacemakerProjection, MsgC.empty, hv₁, msgO] at e

end Canopy.SignBytes
