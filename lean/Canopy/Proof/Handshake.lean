import Canopy.Model.Handshake
/-!
Helper lemmas for C17 (handshake, Dolev-Yao model): the invariant `Pub` that bounds the attacker's
knowledge, the meaning of acceptance (`finish_ok`), and the core case analysis `auth_core`.
Core Lean only.
-/
namespace Canopy.Handshake
open Term

theorem mkDh_inj {a b c d : Nat} (h : mkDh a b = mkDh c d) : (a = c ∧ b = d) ∨ (a = d ∧ b = c) := by
  simp only [mkDh, dh.injEq] at h
  omega

/-- what honest key holders have signed -/
def World.honestSig (W : World) (sk m : Term) : Prop :=
  ∃ s ∈ W.sessions, sk = atom s.party.id ∧
    (m = chal (mkDh s.party.eph s.peer) ∨ m = pmeta s.party.net s.party.chain)

/-- an over-approximation of what the attacker can ever know, defined by recursion on the term -/
def Pub (W : World) : Term → Prop
  | atom n => ¬ W.sec n
  | pk _ => True
  | dh a b => ¬ W.sec a ∨ ¬ W.sec b
  | kdf _ s => Pub W s
  | sig sk m => Pub W m ∧ (Pub W sk ∨ W.honestSig sk m)
  | enc k n m => (Pub W k ∧ Pub W m) ∨ W.outputs (enc k n m)
  | pair a b => Pub W a ∧ Pub W b
  | pmeta _ _ => True

theorem pub_mkDh (W : World) (a b : Nat) : Pub W (mkDh a b) ↔ (¬ W.sec a ∨ ¬ W.sec b) := by
  simp only [mkDh, Pub]
  rcases Nat.le_total a b with h | h
  · rw [Nat.min_eq_left h, Nat.max_eq_right h]
  · rw [Nat.min_eq_right h, Nat.max_eq_left h]; exact Or.comm

theorem pub_sendKey (W : World) (a b : Nat) : Pub W (sendKey a b) ↔ Pub W (mkDh a b) := by
  unfold sendKey; split <;> simp [Pub]

theorem pub_recvKey (W : World) (a b : Nat) : Pub W (recvKey a b) ↔ Pub W (mkDh a b) := by
  unfold recvKey; split <;> simp [Pub]

/-- honest outputs reveal only public things when their key is public -/
theorem pub_of_output (W : World) {k n m} (ho : W.outputs (enc k n m)) (hk : Pub W k) : Pub W m := by
  obtain ⟨s, hs, h | h⟩ := ho
  · simp only [Party.msg2, enc.injEq] at h
    obtain ⟨rfl, rfl, rfl⟩ := h
    rw [pub_sendKey] at hk
    exact ⟨trivial, by simpa [chal, Pub] using hk, Or.inr ⟨s, hs, rfl, Or.inl rfl⟩⟩
  · simp only [Party.msg3, enc.injEq] at h
    obtain ⟨rfl, rfl, rfl⟩ := h
    exact ⟨trivial, trivial, Or.inr ⟨s, hs, rfl, Or.inr rfl⟩⟩

/-- the invariant: everything derivable is `Pub` -/
theorem DY.isPub {W : World} {t : Term} (h : DY W t) : Pub W t := by
  induction h with
  | out ho =>
    obtain ⟨s, hs, h | h⟩ := ho
    · rw [h]; exact Or.inr ⟨s, hs, Or.inl rfl⟩
    · rw [h]; exact Or.inr ⟨s, hs, Or.inr rfl⟩
  | atom h => exact h
  | pub n => trivial
  | pk _ _ => trivial
  | dh b _ ih => exact (pub_mkDh W _ b).mpr (Or.inl ih)
  | kdf i _ ih => exact ih
  | sig _ _ ih1 ih2 => exact ⟨ih2, Or.inl ih1⟩
  | unsig _ ih => exact ih.1
  | enc n _ _ ih1 ih2 => exact Or.inl ⟨ih1, ih2⟩
  | dec _ _ ih1 ih2 =>
    rcases ih1 with h | h
    · exact h.2
    · exact pub_of_output W h ih2
  | pair _ _ ih1 ih2 => exact ⟨ih1, ih2⟩
  | fst _ ih => exact ih.1
  | snd _ ih => exact ih.2
  | pmeta _ _ => trivial
theorem openEnc_some {k : Term} {n : Nat} {t m : Term} (h : openEnc k n t = some m) : t = enc k n m := by
  cases t with
  | enc k' n' m' =>
    simp only [openEnc] at h
    split at h
    · rename_i hc; cases h; rw [hc.1, hc.2]
    · exact absurd h (by simp)
  | _ => simp [openEnc] at h

/-- what acceptance means: exactly these two frames -/
theorem finish_ok {ro : Bool} {p : Party} {x : Nat} {f1 f2 t : Term}
    (h : p.finish ro (pk (atom x)) f1 f2 = .ok t) :
    ∃ j, t = pk (atom j) ∧
      f1 = enc (recvKey p.eph x) 0 (pair (pk (atom j)) (sig (atom j) (chal (mkDh p.eph x)))) ∧
      f2 = enc (recvKey p.eph x) 1 (pair (pmeta p.net p.chain) (sig (atom j) (pmeta p.net p.chain))) ∧
      (ro = true → j ≠ p.id) := by
  unfold Party.finish at h
  simp only at h
  split at h
  · rename_i j s h1
    split at h
    · cases h
    · split at h
      · cases h
      · rename_i hown hs
        split at h
        · rename_i n c ms h2
          split at h
          · cases h
          · split at h
            · cases h
            · split at h
              · cases h
              · rename_i hms hn hc
                cases h
                simp only [ne_eq, Decidable.not_not] at hs hms hn hc
                subst hs hms hn hc
                exact ⟨j, rfl, openEnc_some h1, openEnc_some h2, fun hr hj => hown ⟨hr, hj⟩⟩
        · cases h
  · cases h
  · cases h
theorem sendKey_ne_recvKey_same (a b : Nat) : sendKey a b ≠ recvKey a b := by
  unfold sendKey recvKey; split <;> simp

/-- an honest frame that opens under `p`'s receive key was sent by the run whose ephemeral key `p`
received and which received `p`'s: the two directions use different keys, so `p`'s own frames do not fit -/
theorem key_match {a x e y : Nat} (hk : sendKey e y = recvKey a x) : e = x ∧ y = a := by
  have hd : mkDh e y = mkDh a x := by
    unfold sendKey recvKey at hk
    split at hk <;> split at hk <;> simp only [kdf.injEq] at hk <;> exact hk.2
  rcases mkDh_inj hd with ⟨h1, h2⟩ | ⟨h1, h2⟩
  · subst h1 h2; exact absurd hk (sendKey_ne_recvKey_same e y)
  · exact ⟨h1, h2⟩

/-- **core of `auth`.** `p` (an honest run in the world, which received the ephemeral key of scalar `x`)
accepts identity `j` on frames the attacker could deliver; `j` is uncompromised. Then either the
matching run of `j` exists (it used the ephemeral key `p` received, received `p`'s, and has `p`'s
network and chain) — or the code does not refuse its own key and this is the reflection:
`j` is `p`'s own identity and the ephemeral key `p` received is the attacker's. -/
theorem auth_core (W : World) (ro : Bool) (sA : Session) (hA : sA ∈ W.sessions) {f1 f2 : Term}
    (h1 : DY W f1) (h2 : DY W f2) {j : Nat}
    (hacc : sA.party.finish ro (pk (atom sA.peer)) f1 f2 = .ok (pk (atom j))) (hsec : W.sec j) :
    (∃ s ∈ W.sessions, s.party.id = j ∧ s.party.eph = sA.peer ∧ s.peer = sA.party.eph ∧
        s.party.net = sA.party.net ∧ s.party.chain = sA.party.chain) ∨
    (ro = false ∧ j = sA.party.id ∧ ¬ W.sec sA.peer) := by
  obtain ⟨j', hj, hf1, hf2, hro⟩ := finish_ok hacc
  simp only [pk.injEq, atom.injEq] at hj
  subst hj
  have hsa := W.ephSecret sA hA
  have p1 := h1.isPub
  have p2 := h2.isPub
  rw [hf1] at p1
  rw [hf2] at p2
  -- who produced the first frame?
  rcases p1 with ⟨pk1, pm1⟩ | ⟨s, hs, ho | ho⟩
  · -- the attacker sealed it: it knows the channel key, so the ephemeral key `p` received is its own
    right
    rw [pub_recvKey, pub_mkDh] at pk1
    have hx : ¬ W.sec sA.peer := by
      rcases pk1 with h | h
      · exact absurd hsa h
      · exact h
    obtain ⟨_, _, hsig⟩ := pm1
    rcases hsig with h | ⟨s, hs, hid, hm | hm⟩
    · exact absurd hsec h
    · simp only [atom.injEq] at hid
      simp only [chal, kdf.injEq, true_and] at hm
      rcases mkDh_inj hm with ⟨e1, _⟩ | ⟨_, e1⟩
      · -- the signature is the one `p` itself made in this very run
        have := W.ephFresh sA hA s hs e1
        subst this
        refine ⟨?_, hid, hx⟩
        cases ro with
        | false => rfl
        | true => exact absurd hid (hro rfl)
      · -- signed by a run whose ephemeral key is the attacker's: impossible, honest ephemerals are secret
        exact absurd (W.ephSecret s hs) (by rw [← e1]; exact hx)
    · simp [chal] at hm
  · -- an honest run `s` sealed it as ITS message 2
    left
    simp only [Party.msg2, enc.injEq, pair.injEq, pk.injEq, atom.injEq, sig.injEq, true_and] at ho
    obtain ⟨hk, ⟨hid, _, _⟩⟩ := ho
    obtain ⟨he, hp⟩ := key_match hk.symm
    refine ⟨s, hs, hid.symm, he, hp, ?_⟩
    -- the second frame: either from the same run, or the attacker knows the key (impossible: both ephemerals secret)
    rcases p2 with ⟨pk2, _⟩ | ⟨s', hs', ho' | ho'⟩
    · rw [pub_recvKey, pub_mkDh] at pk2
      rcases pk2 with h | h
      · exact absurd hsa h
      · exact absurd (he ▸ W.ephSecret s hs) h
    · simp [Party.msg2] at ho'
    · simp only [Party.msg3, enc.injEq, pair.injEq, pmeta.injEq, true_and] at ho'
      obtain ⟨hk', ⟨hn, hc⟩, _⟩ := ho'
      obtain ⟨he', _⟩ := key_match hk'.symm
      have := W.ephFresh s hs s' hs' (he.trans he'.symm)
      subst this
      exact ⟨hn.symm, hc.symm⟩
  · simp [Party.msg3] at ho
end Canopy.Handshake
