import Canopy.Model.Proto
/-! Helper lemmas for M-proto: varint / field / message round trips. Core Lean only. -/
namespace Canopy.Proto
open Canopy

/-! ## varints -/

theorem u8_toNat_ofNat (n : Nat) (h : n < 256) : (UInt8.ofNat n).toNat = n := by
  simp [UInt8.toNat_ofNat', Nat.mod_eq_of_lt h]

theorem decVarintAux_enc (k n : Nat) (rest : Bytes) (h : n < 128 ^ (k + 1)) :
    decVarintAux (k + 1) (encVarintAux (k + 1) n ++ rest) = some (n, rest) := by
  induction k generalizing n with
  | zero =>
    have hn : n < 128 := by simpa using h
    have : (UInt8.ofNat n) < 128 := by
      rw [UInt8.lt_iff_toNat_lt, u8_toNat_ofNat n (by omega)]; simpa using hn
    simp [encVarintAux, decVarintAux, hn, this, u8_toNat_ofNat n (by omega)]
  | succ k ih =>
    by_cases hn : n < 128
    · have : (UInt8.ofNat n) < 128 := by
        rw [UInt8.lt_iff_toNat_lt, u8_toNat_ofNat n (by omega)]; simpa using hn
      simp [encVarintAux, decVarintAux, hn, this, u8_toNat_ofNat n (by omega)]
    · have hb : (UInt8.ofNat (n % 128 + 128)).toNat = n % 128 + 128 := u8_toNat_ofNat _ (by omega)
      have hnb : ¬ (UInt8.ofNat (n % 128 + 128)) < 128 := by
        rw [UInt8.lt_iff_toNat_lt, hb]; simp
      have hdiv : n / 128 < 128 ^ (k + 1) := by
        rw [Nat.div_lt_iff_lt_mul (by decide)]
        calc n < 128 ^ (k + 1 + 1) := h
          _ = 128 ^ (k + 1) * 128 := by rw [Nat.pow_succ]
      have := ih (n / 128) hdiv
      rw [encVarintAux]
      simp only [hn, if_false, List.cons_append]
      rw [decVarintAux]
      simp only [hnb, if_false, this, hb]
      congr 2
      omega

theorem decVarint_enc (n : Nat) (rest : Bytes) (h : n < 2 ^ 64) :
    decVarint (encVarint n ++ rest) = some (n, rest) := by
  have h' : n < 128 ^ (9 + 1) := by
    calc n < 2 ^ 64 := h
      _ ≤ 128 ^ (9 + 1) := by decide
  simp [decVarint, encVarint, decVarintAux_enc 9 n rest h', h]

theorem encVarintAux_ne_nil (k n : Nat) : encVarintAux (k + 1) n ≠ [] := by
  rw [encVarintAux]; split <;> simp

theorem encVarint_ne_nil (n : Nat) : encVarint n ≠ [] := encVarintAux_ne_nil 9 n

theorem shorter_iff (b : Bytes) (l : Nat) : shorter b l = true ↔ b.length < l := by
  cases l with
  | zero => simp [shorter]
  | succ l =>
    simp only [shorter, List.isEmpty_iff, List.drop_eq_nil_iff]
    omega

theorem shorter_false (b : Bytes) (l : Nat) (h : l ≤ b.length) : shorter b l = false := by
  cases hs : shorter b l with
  | false => rfl
  | true => have := (shorter_iff b l).mp hs; omega

theorem shorter_true (b : Bytes) (l : Nat) (h : b.length < l) : shorter b l = true := (shorter_iff b l).mpr h

/-! ## fields -/

/-- a field the encoder can emit and the decoder reads back -/
def WireVal.WF : WireVal → Prop
  | .varint n => n < 2 ^ 64
  | .i64 b => b.length = 8
  | .len b => b.length < 2 ^ 64
  | .i32 b => b.length = 4
  | .group _ => False   -- the encoder never emits groups

def Field.WF (f : Field) : Prop := 1 ≤ f.num ∧ f.num ≤ maxFieldNum ∧ f.val.WF

theorem decTag (num wt : Nat) (rest : Bytes) (h1 : num ≤ maxFieldNum) (hw : wt < 8) :
    decVarint (encTag num wt ++ rest) = some (num * 8 + wt, rest) := by
  apply decVarint_enc
  have : num < 2 ^ 29 := by simp [maxFieldNum] at h1; omega
  omega

theorem decField_enc (f : Field) (rest : Bytes) (h : f.WF) :
    decField (encField f ++ rest) = some (f, rest) := by
  obtain ⟨num, val⟩ := f
  obtain ⟨h1, h2, h3⟩ := h
  simp only at h1 h2
  have hnum : ¬ (num < 1 ∨ maxFieldNum < num) := by omega
  cases val with
  | varint n =>
    simp only [WireVal.WF] at h3
    have e : (num * 8 + 0) / 8 = num := by omega
    have e' : (num * 8 + 0) % 8 = 0 := by omega
    simp only [encField, decField, List.append_assoc, decTag num 0 _ h2 (by decide), e, e',
      decVarint_enc n rest h3, if_neg hnum]
  | i64 b =>
    simp only [WireVal.WF] at h3
    have e : (num * 8 + 1) / 8 = num := by omega
    have e' : (num * 8 + 1) % 8 = 1 := by omega
    have hl : shorter (b ++ rest) 8 = false := shorter_false _ _ (by simp only [List.length_append]; omega)
    simp only [encField, decField, List.append_assoc, decTag num 1 _ h2 (by decide), e, e', hl,
      if_neg hnum, if_false, Bool.false_eq_true]
    rw [← h3, List.take_left, List.drop_left]
  | len b =>
    simp only [WireVal.WF] at h3
    have e : (num * 8 + 2) / 8 = num := by omega
    have e' : (num * 8 + 2) % 8 = 2 := by omega
    have hl : shorter (b ++ rest) b.length = false := shorter_false _ _ (by simp only [List.length_append]; omega)
    simp only [encField, decField, List.append_assoc, decTag num 2 _ h2 (by decide), e, e',
      decVarint_enc b.length (b ++ rest) h3, hl, if_neg hnum, if_false, Bool.false_eq_true]
    rw [List.take_left, List.drop_left]
  | i32 b =>
    simp only [WireVal.WF] at h3
    have e : (num * 8 + 5) / 8 = num := by omega
    have e' : (num * 8 + 5) % 8 = 5 := by omega
    have hl : shorter (b ++ rest) 4 = false := shorter_false _ _ (by simp only [List.length_append]; omega)
    simp only [encField, decField, List.append_assoc, decTag num 5 _ h2 (by decide), e, e', hl,
      if_neg hnum, if_false, Bool.false_eq_true]
    rw [← h3, List.take_left, List.drop_left]
  | group b => exact absurd h3 (by simp [WireVal.WF])

/-! ## messages as field lists -/

theorem encField_ne_nil (f : Field) : encField f ≠ [] := by
  obtain ⟨num, val⟩ := f
  cases val <;> simp [encField, encTag, encVarint_ne_nil]

theorem encField_length_pos (f : Field) : 1 ≤ (encField f).length := by
  have := encField_ne_nil f
  cases h : encField f with
  | nil => exact absurd h this
  | cons x xs => simp

theorem encFields_cons (f : Field) (fs : List Field) : encFields (f :: fs) = encField f ++ encFields fs := by
  simp [encFields]

theorem encFields_append (a b : List Field) : encFields (a ++ b) = encFields a ++ encFields b := by
  simp [encFields]

theorem parseAux_succ (k : Nat) (b : Bytes) (hb : b ≠ []) :
    parseAux (k + 1) b = match decField b with
      | some (f, r) => (match parseAux k r with
        | some fs => some (f :: fs)
        | none => none)
      | none => none := by
  cases b with
  | nil => exact absurd rfl hb
  | cons x xs =>
    rw [parseAux]
    all_goals first | rfl | (intro e; exact absurd e hb)

theorem parseAux_enc (fs : List Field) (h : ∀ f ∈ fs, f.WF) (k : Nat) (hk : (encFields fs).length ≤ k) :
    parseAux k (encFields fs) = some fs := by
  induction fs generalizing k with
  | nil => cases k <;> simp [encFields, parseAux]
  | cons f fs ih =>
    rw [encFields_cons] at hk ⊢
    have hpos := encField_length_pos f
    simp only [List.length_append] at hk
    cases k with
    | zero => omega
    | succ k' =>
    have hne : encField f ++ encFields fs ≠ [] := by
      intro e; have := congrArg List.length e
      simp only [List.length_append, List.length_nil] at this; omega
    rw [parseAux_succ _ _ hne, decField_enc f _ (h f (by simp))]
    simp only
    have hc : (encFields fs).length ≤ k' := by omega
    rw [ih (fun g hg => h g (by simp [hg])) k' hc]

/-- **wire round trip**: the decoder reads back exactly the fields the encoder wrote -/
theorem parse_enc (fs : List Field) (h : ∀ f ∈ fs, f.WF) : parse (encFields fs) = some fs :=
  parseAux_enc fs h _ (Nat.le_refl _)

/-! ## the pre-flight scan accepts canonical encodings within the size limits -/

def Field.PreOK (f : Field) : Prop :=
  f.WF ∧ match f.val with
    | .len b => b.length ≤ protoMaxFieldBytes
    | _ => True

theorem preflightAux_succ (k : Nat) (b : Bytes) (hb : b ≠ []) :
    preflightAux (k + 1) b = match decVarint b with
      | none => false
      | some (tag, r) =>
        if tag / 8 < 1 ∨ maxTagNum < tag / 8 then false
        else match tag % 8 with
          | 0 => (match decVarint r with
            | some (_, r') => preflightAux k r'
            | none => false)
          | 5 => if shorter r 4 then false else preflightAux k (r.drop 4)
          | 1 => if shorter r 8 then false else preflightAux k (r.drop 8)
          | 2 => (match decVarint r with
            | some (l, r') =>
              if protoMaxFieldBytes < l then false
              else if shorter r' l then false
              else preflightAux k (r'.drop l)
            | none => false)
          | _ => false := by
  cases b with
  | nil => exact absurd rfl hb
  | cons x xs =>
    rw [preflightAux]
    all_goals first | rfl | (intro e; exact absurd e hb)

theorem preflight_step (f : Field) (rest : Bytes) (k : Nat) (h : f.PreOK) :
    preflightAux (k + 1) (encField f ++ rest) = preflightAux k rest := by
  have hne : encField f ++ rest ≠ [] := by
    intro e; have := congrArg List.length e
    have := encField_length_pos f
    simp only [List.length_append, List.length_nil] at *; omega
  rw [preflightAux_succ _ _ hne]
  obtain ⟨num, val⟩ := f
  obtain ⟨⟨h1, h2, h3⟩, h4⟩ := h
  simp only at h1 h2
  have hmax : maxFieldNum ≤ maxTagNum := by decide
  have hnum : ¬ (num < 1 ∨ maxTagNum < num) := by omega
  cases val with
  | varint n =>
    simp only [WireVal.WF] at h3
    have e : (num * 8 + 0) / 8 = num := by omega
    have e' : (num * 8 + 0) % 8 = 0 := by omega
    simp only [encField, List.append_assoc, decTag num 0 _ h2 (by decide), e, e',
      decVarint_enc n rest h3, if_neg hnum]
  | i64 b =>
    simp only [WireVal.WF] at h3
    have e : (num * 8 + 1) / 8 = num := by omega
    have e' : (num * 8 + 1) % 8 = 1 := by omega
    have hl : shorter (b ++ rest) 8 = false := shorter_false _ _ (by simp only [List.length_append]; omega)
    simp only [encField, List.append_assoc, decTag num 1 _ h2 (by decide), e, e', hl,
      if_neg hnum, if_false, Bool.false_eq_true]
    rw [← h3, List.drop_left]
  | len b =>
    simp only [WireVal.WF] at h3
    simp only at h4
    have e : (num * 8 + 2) / 8 = num := by omega
    have e' : (num * 8 + 2) % 8 = 2 := by omega
    have hl : shorter (b ++ rest) b.length = false := shorter_false _ _ (by simp only [List.length_append]; omega)
    have hs : ¬ protoMaxFieldBytes < b.length := by omega
    simp only [encField, List.append_assoc, decTag num 2 _ h2 (by decide), e, e',
      decVarint_enc b.length (b ++ rest) h3, hl, hs, if_neg hnum, if_false, Bool.false_eq_true]
    rw [List.drop_left]
  | i32 b =>
    simp only [WireVal.WF] at h3
    have e : (num * 8 + 5) / 8 = num := by omega
    have e' : (num * 8 + 5) % 8 = 5 := by omega
    have hl : shorter (b ++ rest) 4 = false := shorter_false _ _ (by simp only [List.length_append]; omega)
    simp only [encField, List.append_assoc, decTag num 5 _ h2 (by decide), e, e', hl,
      if_neg hnum, if_false, Bool.false_eq_true]
    rw [← h3, List.drop_left]
  | group b => exact absurd h3 (by simp [WireVal.WF])

theorem preflightAux_enc (fs : List Field) (h : ∀ f ∈ fs, f.PreOK) (k : Nat) (hk : (encFields fs).length ≤ k) :
    preflightAux k (encFields fs) = true := by
  induction fs generalizing k with
  | nil => cases k <;> simp [encFields, preflightAux]
  | cons f fs ih =>
    rw [encFields_cons] at hk ⊢
    have hpos := encField_length_pos f
    simp only [List.length_append] at hk
    cases k with
    | zero => omega
    | succ k' =>
      rw [preflight_step f _ k' (h f (by simp))]
      exact ih (fun g hg => h g (by simp [hg])) k' (by omega)

theorem preflight_enc (fs : List Field) (h : ∀ f ∈ fs, f.PreOK) : preflight (encFields fs) = true :=
  preflightAux_enc fs h _ (Nat.le_refl _)

/-- the scan refuses a length-delimited element larger than `protoMaxFieldBytes`, wherever the
preceding (well-formed) fields end -/
theorem preflight_rejects_oversize (fs : List Field) (h : ∀ f ∈ fs, f.PreOK) (num : Nat) (b rest : Bytes)
    (h1 : 1 ≤ num) (h2 : num ≤ maxFieldNum) (hb : protoMaxFieldBytes < b.length) (hs : b.length < 2 ^ 64) :
    preflight (encFields fs ++ (encField ⟨num, .len b⟩ ++ rest)) = false := by
  unfold preflight
  generalize hk : (encFields fs ++ (encField ⟨num, .len b⟩ ++ rest)).length = k
  have hk' : (encFields fs ++ (encField ⟨num, .len b⟩ ++ rest)).length ≤ k := by omega
  clear hk
  induction fs generalizing k with
  | nil =>
    simp only [encFields, List.flatMap_nil, List.nil_append] at hk' ⊢
    have hpos := encField_length_pos ⟨num, .len b⟩
    simp only [List.length_append] at hk'
    cases k with
    | zero => omega
    | succ k' =>
      have hne : encField ⟨num, .len b⟩ ++ rest ≠ [] := by
        intro e; have := congrArg List.length e
        simp only [List.length_append, List.length_nil] at this; omega
      rw [preflightAux_succ _ _ hne]
      have hmax : maxFieldNum ≤ maxTagNum := by decide
      have hnum : ¬ (num < 1 ∨ maxTagNum < num) := by omega
      have e : (num * 8 + 2) / 8 = num := by omega
      have e' : (num * 8 + 2) % 8 = 2 := by omega
      simp only [encField, List.append_assoc, decTag num 2 _ h2 (by decide), e, e',
        decVarint_enc b.length (b ++ rest) hs, hb, if_neg hnum, if_true]
  | cons f fs ih =>
    rw [encFields_cons, List.append_assoc] at hk' ⊢
    have hpos := encField_length_pos f
    simp only [List.length_append] at hk'
    cases k with
    | zero => omega
    | succ k' =>
      rw [preflight_step f _ k' (h f (by simp))]
      exact ih (fun g hg => h g (by simp [hg])) k' (by simp only [List.length_append]; omega)

end Canopy.Proto
