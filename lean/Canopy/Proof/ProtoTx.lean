import Canopy.Proof.Proto
/-! Round trip of the `Transaction` schema: `decodeLoose (canon t) = some (t, false)` and injectivity
of `canon`. Core Lean only. -/
namespace Canopy.Proto
open Canopy

/-! ## well-formed contents (what the Go structs can hold and the marshaller accepts) -/

/-- a byte string whose length fits a varint (any byte string that exists in memory) -/
def Small (b : Bytes) : Prop := b.length < 2 ^ 64

structure AnyC.WF (a : AnyC) : Prop where
  utf8 : validUtf8 a.typeUrl = true
  s1 : Small a.typeUrl
  s2 : Small a.value

structure SigC.WF (g : SigC) : Prop where
  s1 : Small g.publicKey
  s2 : Small g.signature

structure TxContent.WF (t : TxContent) : Prop where
  mt : validUtf8 t.messageType = true
  memo : validUtf8 t.memo = true
  smt : Small t.messageType
  smemo : Small t.memo
  msg : ∀ a, t.msg = some a → a.WF ∧ Small (canonAny a)
  sig : ∀ g, t.signature = some g → g.WF ∧ Small (canonSig g)
  h4 : t.createdHeight < 2 ^ 64
  h5 : t.time < 2 ^ 64
  h6 : t.fee < 2 ^ 64
  h8 : t.networkId < 2 ^ 64
  h9 : t.chainId < 2 ^ 64
  h10 : t.nonce < 2 ^ 64

/-! ## canonical encodings as field lists -/

def lenF (num : Nat) (b : Bytes) : List Field := if b.isEmpty then [] else [⟨num, .len b⟩]
def uintF (num n : Nat) : List Field := if n == 0 then [] else [⟨num, .varint n⟩]
def msgF {α : Type} (num : Nat) (enc : α → Bytes) : Option α → List Field
  | some a => [⟨num, .len (enc a)⟩]
  | none => []

def anyFields (a : AnyC) : List Field := lenF 1 a.typeUrl ++ lenF 2 a.value
def sigFields (g : SigC) : List Field := lenF 1 g.publicKey ++ lenF 2 g.signature
def txFields (t : TxContent) : List Field :=
  lenF 1 t.messageType ++ (msgF 2 canonAny t.msg ++ (msgF 3 canonSig t.signature ++
  (uintF 4 t.createdHeight ++ (uintF 5 t.time ++ (uintF 6 t.fee ++ (lenF 7 t.memo ++
  (uintF 8 t.networkId ++ (uintF 9 t.chainId ++ uintF 10 t.nonce))))))))

theorem enc_lenF (num : Nat) (b : Bytes) : encFields (lenF num b) = optLen num b := by
  unfold lenF optLen
  split <;> simp [encFields, encField, encLen]

theorem enc_uintF (num n : Nat) : encFields (uintF num n) = optUint num n := by
  unfold uintF optUint
  split <;> simp [encFields, encField, encUint]

theorem enc_msgF {α : Type} (num : Nat) (enc : α → Bytes) (m : Option α) :
    encFields (msgF num enc m) = optMsg num enc m := by
  cases m <;> simp [msgF, optMsg, encFields, encField, encLen]

theorem canonAny_eq (a : AnyC) : canonAny a = encFields (anyFields a) := by
  simp [canonAny, anyFields, encFields_append, enc_lenF]

theorem canonSig_eq (g : SigC) : canonSig g = encFields (sigFields g) := by
  simp [canonSig, sigFields, encFields_append, enc_lenF]

theorem canon_eq (t : TxContent) : canon t = encFields (txFields t) := by
  simp [canon, txFields, encFields_append, enc_lenF, enc_uintF, enc_msgF, List.append_assoc]

/-! ## well-formedness of the emitted fields -/

theorem wf_lenF (num : Nat) (b : Bytes) (h1 : 1 ≤ num) (h2 : num ≤ maxFieldNum) (hb : Small b) :
    ∀ f ∈ lenF num b, f.WF := by
  unfold lenF
  split
  · simp
  · intro f hf
    simp only [List.mem_singleton] at hf
    subst hf
    exact ⟨h1, h2, hb⟩

theorem wf_uintF (num n : Nat) (h1 : 1 ≤ num) (h2 : num ≤ maxFieldNum) (hn : n < 2 ^ 64) :
    ∀ f ∈ uintF num n, f.WF := by
  unfold uintF
  split
  · simp
  · intro f hf
    simp only [List.mem_singleton] at hf
    subst hf
    exact ⟨h1, h2, hn⟩

theorem wf_msgF {α : Type} (num : Nat) (enc : α → Bytes) (m : Option α) (h1 : 1 ≤ num) (h2 : num ≤ maxFieldNum)
    (hm : ∀ a, m = some a → Small (enc a)) : ∀ f ∈ msgF num enc m, f.WF := by
  cases m with
  | none => simp [msgF]
  | some a =>
    intro f hf
    simp only [msgF, List.mem_singleton] at hf
    subst hf
    exact ⟨h1, h2, hm a rfl⟩

theorem wf_anyFields (a : AnyC) (h : a.WF) : ∀ f ∈ anyFields a, f.WF := by
  intro f hf
  simp only [anyFields, List.mem_append] at hf
  rcases hf with hf | hf
  · exact wf_lenF 1 _ (by decide) (by decide) h.s1 f hf
  · exact wf_lenF 2 _ (by decide) (by decide) h.s2 f hf

theorem wf_sigFields (g : SigC) (h : g.WF) : ∀ f ∈ sigFields g, f.WF := by
  intro f hf
  simp only [sigFields, List.mem_append] at hf
  rcases hf with hf | hf
  · exact wf_lenF 1 _ (by decide) (by decide) h.s1 f hf
  · exact wf_lenF 2 _ (by decide) (by decide) h.s2 f hf

theorem wf_txFields (t : TxContent) (h : t.WF) : ∀ f ∈ txFields t, f.WF := by
  intro f hf
  simp only [txFields, List.mem_append] at hf
  rcases hf with hf | hf | hf | hf | hf | hf | hf | hf | hf | hf
  · exact wf_lenF 1 _ (by decide) (by decide) h.smt f hf
  · exact wf_msgF 2 _ _ (by decide) (by decide) (fun a ha => (h.msg a ha).2) f hf
  · exact wf_msgF 3 _ _ (by decide) (by decide) (fun a ha => (h.sig a ha).2) f hf
  · exact wf_uintF 4 _ (by decide) (by decide) h.h4 f hf
  · exact wf_uintF 5 _ (by decide) (by decide) h.h5 f hf
  · exact wf_uintF 6 _ (by decide) (by decide) h.h6 f hf
  · exact wf_lenF 7 _ (by decide) (by decide) h.smemo f hf
  · exact wf_uintF 8 _ (by decide) (by decide) h.h8 f hf
  · exact wf_uintF 9 _ (by decide) (by decide) h.h9 f hf
  · exact wf_uintF 10 _ (by decide) (by decide) h.h10 f hf

/-! ## the decoder's fold over canonical field lists -/

theorem foldFields_append {α : Type} (step : St α → Field → Option (St α)) (s : St α) (a b : List Field) :
    foldFields step s (a ++ b) = (foldFields step s a).bind (fun s' => foldFields step s' b) := by
  induction a generalizing s with
  | nil => simp [foldFields]
  | cons f fs ih =>
    simp only [List.cons_append, foldFields]
    cases step s f with
    | none => simp
    | some s' => simpa using ih s'

theorem isEmpty_eq_nil {b : Bytes} (h : b.isEmpty = true) : b = [] := by
  cases b <;> simp_all

/-- the Any sub-message -/
theorem foldAny_canon (a : AnyC) (h : a.WF) :
    foldFields applyAny (AnyC.empty, false) (anyFields a) = some (a, false) := by
  obtain ⟨url, val⟩ := a
  have hu := h.utf8
  simp only at hu
  unfold anyFields lenF
  by_cases h1 : url.isEmpty <;> by_cases h2 : val.isEmpty <;>
    simp [h1, h2, foldFields, applyAny, AnyC.empty, hu] <;>
    (try simp [isEmpty_eq_nil h1]) <;> (try simp [isEmpty_eq_nil h2])

theorem foldSig_canon (g : SigC) :
    foldFields applySig (SigC.empty, false) (sigFields g) = some (g, false) := by
  obtain ⟨pk, sg⟩ := g
  unfold sigFields lenF
  by_cases h1 : pk.isEmpty <;> by_cases h2 : sg.isEmpty <;>
    simp [h1, h2, foldFields, applySig, SigC.empty] <;>
    (try simp [isEmpty_eq_nil h1]) <;> (try simp [isEmpty_eq_nil h2])

theorem mergeAny_canon (a : AnyC) (h : a.WF) : mergeAny none (canonAny a) = some (a, false) := by
  simp [mergeAny, canonAny_eq, parse_enc _ (wf_anyFields a h), foldAny_canon a h]

theorem mergeSig_canon (g : SigC) (h : g.WF) : mergeSig none (canonSig g) = some (g, false) := by
  simp [mergeSig, canonSig_eq, parse_enc _ (wf_sigFields g h), foldSig_canon g]

/-! one step per schema field: processing the canonical piece for a field that is still at its
default sets exactly that field -/

theorem step1 (s : TxContent) (u : Bool) (b : Bytes) (hb : validUtf8 b = true) (hs : s.messageType = []) :
    foldFields applyTx (s, u) (lenF 1 b) = some ({ s with messageType := b }, u) := by
  unfold lenF
  split
  · next h => cases s; simp_all [foldFields, isEmpty_eq_nil h]
  · simp [foldFields, applyTx, hb]

theorem step7 (s : TxContent) (u : Bool) (b : Bytes) (hb : validUtf8 b = true) (hs : s.memo = []) :
    foldFields applyTx (s, u) (lenF 7 b) = some ({ s with memo := b }, u) := by
  unfold lenF
  split
  · next h => cases s; simp_all [foldFields, isEmpty_eq_nil h]
  · simp [foldFields, applyTx, hb]

theorem step2 (s : TxContent) (u : Bool) (m : Option AnyC) (hm : ∀ a, m = some a → a.WF) (hs : s.msg = none) :
    foldFields applyTx (s, u) (msgF 2 canonAny m) = some ({ s with msg := m }, u) := by
  cases m with
  | none => cases s; simp_all [msgF, foldFields]
  | some a => simp [msgF, foldFields, applyTx, hs, mergeAny_canon a (hm a rfl)]

theorem step3 (s : TxContent) (u : Bool) (m : Option SigC) (hm : ∀ a, m = some a → a.WF) (hs : s.signature = none) :
    foldFields applyTx (s, u) (msgF 3 canonSig m) = some ({ s with signature := m }, u) := by
  cases m with
  | none => cases s; simp_all [msgF, foldFields]
  | some a => simp [msgF, foldFields, applyTx, hs, mergeSig_canon a (hm a rfl)]

theorem step4 (s : TxContent) (u : Bool) (n : Nat) (hs : s.createdHeight = 0) :
    foldFields applyTx (s, u) (uintF 4 n) = some ({ s with createdHeight := n }, u) := by
  unfold uintF
  split
  · next h => cases s; simp_all [foldFields]
  · simp [foldFields, applyTx]

theorem step5 (s : TxContent) (u : Bool) (n : Nat) (hs : s.time = 0) :
    foldFields applyTx (s, u) (uintF 5 n) = some ({ s with time := n }, u) := by
  unfold uintF
  split
  · next h => cases s; simp_all [foldFields]
  · simp [foldFields, applyTx]

theorem step6 (s : TxContent) (u : Bool) (n : Nat) (hs : s.fee = 0) :
    foldFields applyTx (s, u) (uintF 6 n) = some ({ s with fee := n }, u) := by
  unfold uintF
  split
  · next h => cases s; simp_all [foldFields]
  · simp [foldFields, applyTx]

theorem step8 (s : TxContent) (u : Bool) (n : Nat) (hs : s.networkId = 0) :
    foldFields applyTx (s, u) (uintF 8 n) = some ({ s with networkId := n }, u) := by
  unfold uintF
  split
  · next h => cases s; simp_all [foldFields]
  · simp [foldFields, applyTx]

theorem step9 (s : TxContent) (u : Bool) (n : Nat) (hs : s.chainId = 0) :
    foldFields applyTx (s, u) (uintF 9 n) = some ({ s with chainId := n }, u) := by
  unfold uintF
  split
  · next h => cases s; simp_all [foldFields]
  · simp [foldFields, applyTx]

theorem step10 (s : TxContent) (u : Bool) (n : Nat) (hs : s.nonce = 0) :
    foldFields applyTx (s, u) (uintF 10 n) = some ({ s with nonce := n }, u) := by
  unfold uintF
  split
  · next h => cases s; simp_all [foldFields]
  · simp [foldFields, applyTx]

theorem foldTx_canon (t : TxContent) (h : t.WF) :
    foldFields applyTx (TxContent.empty, false) (txFields t) = some (t, false) := by
  unfold txFields
  rw [foldFields_append, step1 _ _ _ h.mt rfl, Option.bind_some,
    foldFields_append, step2 _ _ _ (fun a ha => (h.msg a ha).1) rfl, Option.bind_some,
    foldFields_append, step3 _ _ _ (fun a ha => (h.sig a ha).1) rfl, Option.bind_some,
    foldFields_append, step4 _ _ _ rfl, Option.bind_some,
    foldFields_append, step5 _ _ _ rfl, Option.bind_some,
    foldFields_append, step6 _ _ _ rfl, Option.bind_some,
    foldFields_append, step7 _ _ _ h.memo rfl, Option.bind_some,
    foldFields_append, step8 _ _ _ rfl, Option.bind_some,
    foldFields_append, step9 _ _ _ rfl, Option.bind_some,
    step10 _ _ _ rfl]

/-- **schema round trip** (`parse_canon` of DESIGN §6): decoding the deterministic marshalling of a
well-formed transaction yields that transaction and no unknown fields. -/
theorem decodeLoose_canon (t : TxContent) (h : t.WF) : decodeLoose (canon t) = some (t, false) := by
  simp [decodeLoose, canon_eq, parse_enc _ (wf_txFields t h), foldTx_canon t h]

/-- **`canon` is injective** on well-formed contents -/
theorem canon_injective (t₁ t₂ : TxContent) (h₁ : t₁.WF) (h₂ : t₂.WF) (h : canon t₁ = canon t₂) : t₁ = t₂ := by
  have e₁ := decodeLoose_canon t₁ h₁
  have e₂ := decodeLoose_canon t₂ h₂
  rw [h, e₂] at e₁
  simpa using e₁.symm

/-! ## the full `lib.Unmarshal` path (size cap, pre-flight, unknown-field refusal) -/

/-- the decoder's size limits, on the canonical form -/
structure TxContent.SizeOK (t : TxContent) : Prop where
  total : (canon t).length ≤ protoMaxMessageBytes
  mt : t.messageType.length ≤ protoMaxFieldBytes
  memo : t.memo.length ≤ protoMaxFieldBytes
  msg : ∀ a, t.msg = some a → (canonAny a).length ≤ protoMaxFieldBytes
  sig : ∀ g, t.signature = some g → (canonSig g).length ≤ protoMaxFieldBytes

theorem pre_lenF (num : Nat) (b : Bytes) (h1 : 1 ≤ num) (h2 : num ≤ maxFieldNum) (hb : Small b)
    (hs : b.length ≤ protoMaxFieldBytes) : ∀ f ∈ lenF num b, f.PreOK := by
  unfold lenF
  split
  · simp
  · intro f hf
    simp only [List.mem_singleton] at hf
    subst hf
    exact ⟨⟨h1, h2, hb⟩, hs⟩

theorem pre_uintF (num n : Nat) (h1 : 1 ≤ num) (h2 : num ≤ maxFieldNum) (hn : n < 2 ^ 64) :
    ∀ f ∈ uintF num n, f.PreOK := by
  unfold uintF
  split
  · simp
  · intro f hf
    simp only [List.mem_singleton] at hf
    subst hf
    exact ⟨⟨h1, h2, hn⟩, trivial⟩

theorem pre_msgF {α : Type} (num : Nat) (enc : α → Bytes) (m : Option α) (h1 : 1 ≤ num) (h2 : num ≤ maxFieldNum)
    (hm : ∀ a, m = some a → Small (enc a) ∧ (enc a).length ≤ protoMaxFieldBytes) : ∀ f ∈ msgF num enc m, f.PreOK := by
  cases m with
  | none => simp [msgF]
  | some a =>
    intro f hf
    simp only [msgF, List.mem_singleton] at hf
    subst hf
    exact ⟨⟨h1, h2, (hm a rfl).1⟩, (hm a rfl).2⟩

theorem pre_txFields (t : TxContent) (h : t.WF) (hs : t.SizeOK) : ∀ f ∈ txFields t, f.PreOK := by
  intro f hf
  simp only [txFields, List.mem_append] at hf
  rcases hf with hf | hf | hf | hf | hf | hf | hf | hf | hf | hf
  · exact pre_lenF 1 _ (by decide) (by decide) h.smt hs.mt f hf
  · exact pre_msgF 2 _ _ (by decide) (by decide) (fun a ha => ⟨(h.msg a ha).2, hs.msg a ha⟩) f hf
  · exact pre_msgF 3 _ _ (by decide) (by decide) (fun a ha => ⟨(h.sig a ha).2, hs.sig a ha⟩) f hf
  · exact pre_uintF 4 _ (by decide) (by decide) h.h4 f hf
  · exact pre_uintF 5 _ (by decide) (by decide) h.h5 f hf
  · exact pre_uintF 6 _ (by decide) (by decide) h.h6 f hf
  · exact pre_lenF 7 _ (by decide) (by decide) h.smemo hs.memo f hf
  · exact pre_uintF 8 _ (by decide) (by decide) h.h8 f hf
  · exact pre_uintF 9 _ (by decide) (by decide) h.h9 f hf
  · exact pre_uintF 10 _ (by decide) (by decide) h.h10 f hf

/-- **`lib.Unmarshal ∘ lib.Marshal = id`** on well-formed transactions within the size limits -/
theorem decodeTx_canon (t : TxContent) (h : t.WF) (hs : t.SizeOK) : decodeTx (canon t) = some t := by
  have hp : preflight (canon t) = true := by
    rw [canon_eq]; exact preflight_enc _ (pre_txFields t h hs)
  have hl : ¬ protoMaxMessageBytes < (canon t).length := by have := hs.total; omega
  simp [decodeTx, hl, hp, decodeLoose_canon t h]

/-- whatever `lib.Unmarshal` accepts carries no unknown field and passed the pre-flight scan -/
theorem decodeTx_sound (raw : Bytes) (t : TxContent) (h : decodeTx raw = some t) :
    decodeLoose raw = some (t, false) ∧ preflight raw = true ∧ raw.length ≤ protoMaxMessageBytes := by
  unfold decodeTx at h
  split at h
  · simp at h
  · next hl =>
    split at h
    · simp at h
    · next hp =>
      split at h
      · next c hc =>
        simp only [Option.some.injEq] at h
        subst h
        exact ⟨hc, by simpa using hp, by omega⟩
      · simp at h

end Canopy.Proto
