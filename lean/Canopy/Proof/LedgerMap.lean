import Canopy.Model.Ledger
/-! Lemmas about the association lists of `Canopy.Model.Ledger` (`AMap`, `NMap`, `KSet`).
Sums are stated additively (no truncated subtraction) so that `omega` can chain them. -/
namespace Canopy.Ledger

class LawfulKLt (κ : Type) [KLt κ] : Prop where
  irrefl : ∀ a : κ, KLt.lt a a = false

instance : LawfulKLt Nat := ⟨fun a => by simp [KLt.lt]⟩
instance {α β} [KLt α] [KLt β] [DecidableEq α] [LawfulKLt α] [LawfulKLt β] : LawfulKLt (α × β) :=
  ⟨fun a => by simp [KLt.lt, LawfulKLt.irrefl]⟩

namespace AMap
set_option linter.unusedSectionVars false
set_option linter.unusedSimpArgs false
set_option linter.unnecessarySimpa false
variable {κ ν : Type} [DecidableEq κ]

/-- weight of an optional value -/
def ow (f : ν → Nat) : Option ν → Nat
  | some v => f v
  | none => 0

@[simp] theorem ow_none (f : ν → Nat) : ow f none = 0 := rfl
@[simp] theorem ow_some (f : ν → Nat) (v : ν) : ow f (some v) = f v := rfl

theorem sumBy_erase (f : ν → Nat) (m : List (κ × ν)) (k : κ) :
    sumBy f (erase m k) + ow f (find? m k) = sumBy f m := by
  induction m with
  | nil => simp [erase, find?, sumBy]
  | cons e t ih =>
    obtain ⟨k', v⟩ := e
    by_cases h : k' = k
    · simp [erase, find?, sumBy, h]; omega
    · simp [erase, find?, sumBy, h]; omega

theorem sumBy_ins [KLt κ] (f : ν → Nat) (m : List (κ × ν)) (k : κ) (v : ν) :
    sumBy f (ins m k v) = f v + sumBy f m := by
  induction m with
  | nil => simp [ins, sumBy]
  | cons e t ih =>
    obtain ⟨k', v'⟩ := e
    by_cases h : KLt.lt k' k = true
    · simp [ins, sumBy, h, ih]; omega
    · simp [ins, sumBy, h]

theorem sumBy_set [KLt κ] (f : ν → Nat) (m : List (κ × ν)) (k : κ) (v : ν) :
    sumBy f (set m k v) + ow f (find? m k) = sumBy f m + f v := by
  have := sumBy_erase f m k
  simp only [set, sumBy_ins]; omega

theorem find?_erase_ne (m : List (κ × ν)) {k k' : κ} (h : k ≠ k') : find? (erase m k) k' = find? m k' := by
  induction m with
  | nil => rfl
  | cons e t ih =>
    obtain ⟨k₀, v⟩ := e
    by_cases h0 : k₀ = k
    · subst h0; simp [erase, find?, h]
    · by_cases h1 : k₀ = k'
      · subst h1; simp [erase, find?, h0]
      · simp [erase, find?, h0, h1, ih]

theorem find?_ins [KLt κ] [LawfulKLt κ] (m : List (κ × ν)) (k k' : κ) (v : ν) :
    find? (ins m k v) k' = if k = k' then some v else find? m k' := by
  induction m with
  | nil => simp [ins, find?]
  | cons e t ih =>
    obtain ⟨k₀, v₀⟩ := e
    by_cases hlt : KLt.lt k₀ k = true
    · have hne : k₀ ≠ k := fun h => by subst h; simp [LawfulKLt.irrefl] at hlt
      by_cases hk : k = k'
      · subst hk; simp [ins, find?, hlt, hne, ih]
      · by_cases h0 : k₀ = k'
        · subst h0; simp [ins, find?, hlt, hk]
        · simp [ins, find?, hlt, hk, h0, ih]
    · by_cases hk : k = k'
      · subst hk; simp [ins, find?, hlt]
      · simp [ins, find?, hlt, hk]

theorem find?_set_ne [KLt κ] [LawfulKLt κ] (m : List (κ × ν)) {k k' : κ} (v : ν) (h : k ≠ k') :
    find? (set m k v) k' = find? m k' := by
  simp [set, find?_ins, h, find?_erase_ne]

theorem find?_set_self [KLt κ] [LawfulKLt κ] (m : List (κ × ν)) (k : κ) (v : ν) :
    find? (set m k v) k = some v := by
  simp [set, find?_ins]

theorem find?_set [KLt κ] [LawfulKLt κ] (m : List (κ × ν)) (k k' : κ) (v : ν) :
    find? (set m k v) k' = if k = k' then some v else find? m k' := by
  by_cases h : k = k'
  · subst h; simp [find?_set_self]
  · simp [h, find?_set_ne]

/-- every key occurs at most once -/
def NodupKeys (m : List (κ × ν)) : Prop := (m.map (·.1)).Nodup

theorem find?_eq_none_of_not_mem (m : List (κ × ν)) (k : κ) (h : k ∉ m.map (·.1)) : find? m k = none := by
  induction m with
  | nil => rfl
  | cons e t ih =>
    obtain ⟨k₀, v⟩ := e
    simp only [List.map_cons, List.mem_cons, not_or] at h
    have h0 : k₀ ≠ k := fun x => h.1 x.symm
    simp [find?, h0, ih h.2]

theorem mem_keys_of_find? (m : List (κ × ν)) (k : κ) (v : ν) (h : find? m k = some v) : k ∈ m.map (·.1) := by
  induction m with
  | nil => simp [find?] at h
  | cons e t ih =>
    obtain ⟨k₀, v₀⟩ := e
    by_cases h0 : k₀ = k
    · simp [h0]
    · simp only [find?, h0, if_false] at h
      simp [ih h]

theorem keys_erase_subset (m : List (κ × ν)) (k x : κ) (h : x ∈ (erase m k).map (·.1)) : x ∈ m.map (·.1) := by
  induction m with
  | nil => simpa [erase] using h
  | cons e t ih =>
    obtain ⟨k₀, v⟩ := e
    by_cases h0 : k₀ = k
    · simp only [erase, h0, if_true] at h; simp [h]
    · simp only [erase, h0, if_false, List.map_cons, List.mem_cons] at h
      rcases h with h | h
      · simp [h]
      · simp [ih h]

theorem nodup_erase (m : List (κ × ν)) (k : κ) (h : NodupKeys m) : NodupKeys (erase m k) := by
  induction m with
  | nil => simpa [erase] using h
  | cons e t ih =>
    obtain ⟨k₀, v⟩ := e
    simp only [NodupKeys, List.map_cons, List.nodup_cons] at h
    by_cases h0 : k₀ = k
    · simp only [erase, h0, if_true]; exact h.2
    · simp only [erase, h0, if_false, NodupKeys, List.map_cons, List.nodup_cons]
      exact ⟨fun hx => h.1 (keys_erase_subset t k k₀ hx), ih h.2⟩

theorem find?_erase_self (m : List (κ × ν)) (k : κ) (h : NodupKeys m) : find? (erase m k) k = none := by
  induction m with
  | nil => rfl
  | cons e t ih =>
    obtain ⟨k₀, v⟩ := e
    simp only [NodupKeys, List.map_cons, List.nodup_cons] at h
    by_cases h0 : k₀ = k
    · subst h0; simp only [erase, if_true]; exact find?_eq_none_of_not_mem t k₀ h.1
    · simp [erase, find?, h0, ih h.2]

theorem keys_ins [KLt κ] (m : List (κ × ν)) (k x : κ) (v : ν) :
    x ∈ (ins m k v).map (·.1) ↔ x = k ∨ x ∈ m.map (·.1) := by
  induction m with
  | nil => simp [ins]
  | cons e t ih =>
    obtain ⟨k₀, v₀⟩ := e
    by_cases hlt : KLt.lt k₀ k = true
    · simp only [ins, hlt, if_true, List.map_cons, List.mem_cons, ih]
      constructor
      · rintro (h | h | h) <;> simp [h]
      · rintro (h | h | h) <;> simp [h]
    · simp [ins, hlt]

theorem nodup_ins [KLt κ] (m : List (κ × ν)) (k : κ) (v : ν) (h : NodupKeys m) (hk : k ∉ m.map (·.1)) :
    NodupKeys (ins m k v) := by
  induction m with
  | nil => simp [ins, NodupKeys]
  | cons e t ih =>
    obtain ⟨k₀, v₀⟩ := e
    simp only [NodupKeys, List.map_cons, List.nodup_cons] at h
    simp only [List.map_cons, List.mem_cons, not_or] at hk
    by_cases hlt : KLt.lt k₀ k = true
    · simp only [ins, hlt, if_true, NodupKeys, List.map_cons, List.nodup_cons]
      refine ⟨fun hx => ?_, ih h.2 hk.2⟩
      rcases (keys_ins t k k₀ v).1 hx with hx | hx
      · exact hk.1 hx.symm
      · exact h.1 hx
    · have hlt' : KLt.lt k₀ k = false := by simpa using hlt
      have e : ins ((k₀, v₀) :: t) k v = (k, v) :: (k₀, v₀) :: t := by simp [ins, hlt']
      rw [e]
      show ((k :: k₀ :: t.map (·.1)) : List κ).Nodup
      rw [List.nodup_cons, List.nodup_cons]
      refine ⟨?_, h.1, h.2⟩
      simp only [List.mem_cons, not_or]
      exact ⟨hk.1, hk.2⟩

theorem not_mem_keys_erase (m : List (κ × ν)) (k : κ) (h : NodupKeys m) : k ∉ (erase m k).map (·.1) := by
  intro hx
  induction m with
  | nil => simp [erase] at hx
  | cons e t ih =>
    obtain ⟨k₀, v⟩ := e
    simp only [NodupKeys, List.map_cons, List.nodup_cons] at h
    by_cases h0 : k₀ = k
    · subst h0; simp only [erase, if_true] at hx; exact h.1 hx
    · simp only [erase, h0, if_false, List.map_cons, List.mem_cons] at hx
      rcases hx with hx | hx
      · exact h0 hx.symm
      · exact ih h.2 hx

theorem nodup_set [KLt κ] (m : List (κ × ν)) (k : κ) (v : ν) (h : NodupKeys m) : NodupKeys (set m k v) :=
  nodup_ins _ _ _ (nodup_erase m k h) (not_mem_keys_erase m k h)

theorem ow_le_sumBy (f : ν → Nat) (m : List (κ × ν)) (k : κ) : ow f (find? m k) ≤ sumBy f m := by
  have := sumBy_erase f m k; omega

end AMap

namespace NMap
set_option linter.unusedSectionVars false
variable {κ : Type} [DecidableEq κ] [KLt κ]

theorem get_eq_ow (m : NMap κ) (k : κ) : get m k = AMap.ow id (AMap.find? m k) := by
  unfold get; cases AMap.find? m k <;> rfl

theorem total_put (m : NMap κ) (k : κ) (v : Nat) : total (put m k v) + get m k = total m + v := by
  unfold put total
  rw [get_eq_ow]
  by_cases hv : v = 0
  · subst hv; simp only [if_true]; have := AMap.sumBy_erase id m k; omega
  · simp only [hv, if_false]; have := AMap.sumBy_set id m k v; simpa using this

theorem get_le_total (m : NMap κ) (k : κ) : get m k ≤ total m := by
  rw [get_eq_ow]; exact AMap.ow_le_sumBy id m k

theorem get_put_ne [LawfulKLt κ] (m : NMap κ) {k k' : κ} (v : Nat) (h : k ≠ k') : get (put m k v) k' = get m k' := by
  unfold put get
  by_cases hv : v = 0
  · simp [hv, AMap.find?_erase_ne m h]
  · simp [hv, AMap.find?_set_ne m v h]

end NMap
end Canopy.Ledger
