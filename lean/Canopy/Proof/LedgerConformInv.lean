import Canopy.Proof.LedgerSlashInv
/-! C12: `InvStaking` under `ConformStateToParamUpdate` (minimum stake raised → forced unstake; MaxCommittees lowered →
committee trimming) and hence under `HandleMessageChangeParameter`. -/
namespace Canopy.Ledger
open AMap

set_option linter.unusedSimpArgs false
set_option linter.unusedVariables false

theorem updateCommittees_eff {L L' : Ledger} {a : Addr} {val : Validator} {s : Nat} {cs : List Nat} (hp : Pools L)
    (h : updateCommittees L a val s cs = .ok L') :
    SameCore L L' ∧ Pools L' ∧ (∀ c, comGet L' c + val.stake * val.committees.count c = comGet L c + s * cs.count c) ∧
    (∀ c, delGet L' c = delGet L c) := by
  unfold updateCommittees at h
  obtain ⟨La, ha, hb⟩ := bind_ok h
  obtain ⟨a1, a2, a3⟩ := deleteCommittees_eff hp ha
  obtain ⟨b1, b2, b3⟩ := setCommittees_eff a3 hb
  refine ⟨(sameCore_deleteCommittees ha).trans (sameCore_setCommittees hb), b3, ?_, ?_⟩
  · intro c; have := a1 c; have := b1 c; omega
  · intro c; rw [b2, a2]

theorem updateDelegations_eff {L L' : Ledger} {a : Addr} {val : Validator} {s : Nat} {cs : List Nat} (hp : Pools L)
    (h : updateDelegations L a val s cs = .ok L') :
    SameCore L L' ∧ Pools L' ∧ (∀ c, comGet L' c + val.stake * val.committees.count c = comGet L c + s * cs.count c) ∧
    (∀ c, delGet L' c + val.stake * val.committees.count c = delGet L c + s * cs.count c) := by
  unfold updateDelegations at h
  obtain ⟨La, ha, hb⟩ := bind_ok h
  obtain ⟨a1, a2, a3⟩ := deleteDelegations_eff hp ha
  obtain ⟨b1, b2, b3⟩ := setDelegations_eff a3 hb
  refine ⟨(sameCore_deleteDelegations ha).trans (sameCore_setDelegations hb), b3, ?_, ?_⟩
  · intro c; have := a1 c; have := b1 c; omega
  · intro c; have := a2 c; have := b2 c; omega

/-- forced unstake of one validator below the (new) minimum -/
theorem conformMinStakeStep_inv {L : Ledger} (a : Addr) (hs : InvStaking L) (hh : HeightsOK L) :
    InvStaking (conformMinStakeStep L a) ∧ (conformMinStakeStep L a).height = L.height ∧ (conformMinStakeStep L a).params = L.params := by
  unfold conformMinStakeStep
  split
  · next val hv =>
    rcases setUnstakingIfBelowMinimum_cases L a val hh with e | ⟨f, hf, hu0, e⟩
    · rw [e]; exact ⟨hs, rfl, rfl⟩
    · rw [e]
      dsimp only
      have hm := setValidatorUnstaking_money L a val f
      obtain ⟨m, w⟩ := markers_setValidatorUnstaking (val := val) hs.markers hs.wfm hv hu0 rfl hf
      refine ⟨InvStaking.mk' (tallies_status hs.tallies hv hm.supply (setValidatorUnstaking_validators ..) rfl rfl rfl) m w
        ⟨by rw [hm.supply]; exact hs.wf.committee, by rw [hm.supply]; exact hs.wf.delegated⟩, ?_, ?_⟩
      · unfold setValidatorUnstaking valPut; split <;> rfl
      · unfold setValidatorUnstaking valPut; split <;> rfl
  · exact ⟨hs, rfl, rfl⟩

theorem foldl_conformMinStake_inv : ∀ (as : List Addr) (L : Ledger), InvStaking L → HeightsOK L →
    InvStaking (as.foldl conformMinStakeStep L) ∧ (as.foldl conformMinStakeStep L).height = L.height ∧
    (as.foldl conformMinStakeStep L).params = L.params
  | [], L, hs, _ => ⟨hs, rfl, rfl⟩
  | a :: as, L, hs, hh => by
    obtain ⟨i1, e1, e2⟩ := conformMinStakeStep_inv a hs hh
    obtain ⟨i2, f1, f2⟩ := foldl_conformMinStake_inv as _ i1 (hh.of_same e1 e2)
    exact ⟨i2, f1.trans e1, f2.trans e2⟩

/-- trimming one validator's committee list -/
theorem conformTrimStep_inv {acc acc' : Ledger × Nat} {a : Addr} (hs : InvStaking acc.1) (h : conformTrimStep acc a = .ok acc') :
    InvStaking acc'.1 := by
  obtain ⟨L, idx⟩ := acc
  unfold conformTrimStep at h
  dsimp only at h
  split at h
  · obtain rfl := Except.ok.inj h; exact hs
  · next val hv =>
    split at h
    · obtain rfl := Except.ok.inj h; exact hs
    · split at h
      · exact absurd h (by intro h; cases h)
      · next L1 h1 =>
        obtain rfl := Except.ok.inj h
        generalize trimCommittees val.committees L.params.maxCommittees idx = newCs at h1 ⊢
        have hs' : InvStaking L := hs
        by_cases hd : val.delegate = true
        · rw [if_pos hd] at h1
          obtain ⟨sc, pl, c1, c2⟩ := updateDelegations_eff ⟨hs'.wf.committee, hs'.wf.delegated⟩ h1
          obtain ⟨m, w⟩ := markers_sameStatus (L' := valPut L1 a { val with committees := newCs }) (v := { val with committees := newCs })
            hs'.markers hs'.wfm hv (by show AMap.set L1.validators a _ = _; rw [sc.validators]) sc.unstaking sc.paused rfl rfl
          have t := tallies_restake (L' := valPut L1 a { val with committees := newCs }) (nv := { val with committees := newCs })
            hs'.tallies hv (by show AMap.set L1.validators a _ = _; rw [sc.validators]) rfl
            (by show L1.supply.staked + _ = _; rw [sc.staked])
            (by show L1.supply.delegatedOnly + _ = _; rw [sc.delegatedOnly])
            c1 (fun c => by have := c2 c; simp only [hd, ↓reduceIte]; exact this)
          exact InvStaking.mk' t m w ⟨pl.committee, pl.delegated⟩
        · rw [if_neg hd] at h1
          obtain ⟨sc, pl, c1, c2⟩ := updateCommittees_eff ⟨hs'.wf.committee, hs'.wf.delegated⟩ h1
          obtain ⟨m, w⟩ := markers_sameStatus (L' := valPut L1 a { val with committees := newCs }) (v := { val with committees := newCs })
            hs'.markers hs'.wfm hv (by show AMap.set L1.validators a _ = _; rw [sc.validators]) sc.unstaking sc.paused rfl rfl
          have t := tallies_restake (L' := valPut L1 a { val with committees := newCs }) (nv := { val with committees := newCs })
            hs'.tallies hv (by show AMap.set L1.validators a _ = _; rw [sc.validators]) rfl
            (by show L1.supply.staked + _ = _; rw [sc.staked])
            (by show L1.supply.delegatedOnly + _ = _; rw [sc.delegatedOnly])
            c1 (fun c => by
              have q := c2 c
              show delGet L1 c + _ = delGet L c + _
              simp only [hd, ↓reduceIte, Bool.false_eq_true]; omega)
          exact InvStaking.mk' t m w ⟨pl.committee, pl.delegated⟩

theorem foldlM_trim_inv : ∀ (as : List Addr) (acc acc' : Ledger × Nat), InvStaking acc.1 → as.foldlM conformTrimStep acc = .ok acc' →
    InvStaking acc'.1
  | [], acc, acc', hs, h => by obtain rfl := Except.ok.inj h; exact hs
  | a :: as, acc, acc', hs, h => by
    simp only [List.foldlM_cons] at h
    obtain ⟨acc1, h1, h2⟩ := bind_ok h
    exact foldlM_trim_inv as acc1 acc' (conformTrimStep_inv hs h1) h2

/-- `ConformStateToParamUpdate` keeps `InvStaking` -/
theorem conformStateToParamUpdate_inv {L L' : Ledger} {prev : Params} (hs : InvStaking L) (hh : HeightsOK L)
    (h : conformStateToParamUpdate L prev = .ok L') : InvStaking L' := by
  unfold conformStateToParamUpdate at h
  dsimp only at h
  have i1 : InvStaking (conformMinStake L prev) := by
    unfold conformMinStake
    split
    · exact (foldl_conformMinStake_inv _ L hs hh).1
    · exact hs
  split at h
  · obtain rfl := Except.ok.inj h; exact i1
  · split at h
    · exact absurd h (by intro h; cases h)
    · next r hr =>
      obtain rfl := Except.ok.inj h
      exact foldlM_trim_inv _ _ r i1 hr

/-- `HandleMessageChangeParameter` keeps `InvStaking`; the deferred-action heights are taken under the NEW parameters -/
theorem handleChangeParameter_inv {L L' : Ledger} {space key : String} {v s e : Nat} (hs : InvStaking L)
    (hh : ∀ p, L.params.setUint space key v = .ok p → HeightsOK { L with params := p })
    (h : handleChangeParameter L space key v s e = .ok L') : InvStaking L' := by
  unfold handleChangeParameter at h
  split at h
  · exact absurd h (by intro h; cases h)
  · split at h
    · exact absurd h (by intro h; cases h)
    · next p hp =>
      exact conformStateToParamUpdate_inv (L := { L with params := p }) (hs.of_same rfl rfl rfl rfl rfl rfl rfl) (hh p hp) h

end Canopy.Ledger
