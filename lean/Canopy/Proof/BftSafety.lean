import Canopy.Proof.BftQuorum
/-!
Safety lemmas of M-bft-abs. Everything the proof uses about the code's decisions is confined to

* `hun    : ∀ w y, c.unlock w y = true → w < y`     (SafeNode's LIVENESS comparison respects the view order),
* `hadopt : ∀ w y, c.adoptOk w y = true → w < y`    (a lock is only replaced by a higher certificate),
* `hfresh : c.Fresh tr`                              (a PRECOMMIT_VOTE locks on the PROPOSE_VOTE certificate of its own view).

`hfresh` follows from the guard when `certBound` binds the certificate to the view (`fresh_of_bound`).
-/
namespace Canopy.Bft

theorem votedPropose_iff (tr : List Ev) (r : Nat) (v : View) (b : Nat) :
    votedPropose tr r v b = true ↔ ∃ hq, Ev.propose r v b hq ∈ tr := by
  induction tr with
  | nil => simp [votedPropose]
  | cons e tr ih =>
    have hc : votedPropose (e :: tr) r v b = (e.isProposeFor r v b || votedPropose tr r v b) := by
      simp [votedPropose, List.any]
    rw [hc, Bool.or_eq_true, ih]
    constructor
    · rintro (h | ⟨hq, h⟩)
      · cases e with
        | propose r' v' b' hq' =>
          simp [Ev.isProposeFor] at h
          obtain ⟨⟨rfl, rfl⟩, rfl⟩ := h
          exact ⟨hq', List.mem_cons_self⟩
        | precommit _ _ _ _ _ => simp [Ev.isProposeFor] at h
        | adopt _ _ _ => simp [Ev.isProposeFor] at h
      · exact ⟨hq, List.mem_cons_of_mem _ h⟩
    · rintro ⟨hq, h⟩
      rcases List.mem_cons.mp h with rfl | h
      · left; simp [Ev.isProposeFor]
      · right; exact ⟨hq, h⟩

theorem votedPrecommit_iff (tr : List Ev) (r : Nat) (v : View) (b : Nat) :
    votedPrecommit tr r v b = true ↔ ∃ q qp, Ev.precommit r v b q qp ∈ tr := by
  induction tr with
  | nil => simp [votedPrecommit]
  | cons e tr ih =>
    have hc : votedPrecommit (e :: tr) r v b = (e.isPrecommitFor r v b || votedPrecommit tr r v b) := by
      simp [votedPrecommit, List.any]
    rw [hc, Bool.or_eq_true, ih]
    constructor
    · rintro (h | ⟨q, qp, h⟩)
      · cases e with
        | precommit r' v' b' q' qp' =>
          simp [Ev.isPrecommitFor] at h
          obtain ⟨⟨rfl, rfl⟩, rfl⟩ := h
          exact ⟨q', qp', List.mem_cons_self⟩
        | propose _ _ _ _ => simp [Ev.isPrecommitFor] at h
        | adopt _ _ _ => simp [Ev.isPrecommitFor] at h
      · exact ⟨q, qp, List.mem_cons_of_mem _ h⟩
    · rintro ⟨q, qp, h⟩
      rcases List.mem_cons.mp h with rfl | h
      · left; simp [Ev.isPrecommitFor]
      · right; exact ⟨q, qp, h⟩

theorem votedPropose_mono (xs s : List Ev) (r : Nat) (v : View) (b : Nat)
    (h : votedPropose s r v b = true) : votedPropose (xs ++ s) r v b = true := by
  obtain ⟨hq, hm⟩ := (votedPropose_iff _ _ _ _).mp h
  exact (votedPropose_iff _ _ _ _).mpr ⟨hq, List.mem_append_right _ hm⟩

namespace Cfg
variable (c : Cfg)

theorem proposeQC_mono (xs s : List Ev) (v : View) (b : Nat) (h : c.proposeQC s v b) :
    c.proposeQC (xs ++ s) v b :=
  Nat.le_trans h (c.powerOf_mono _ _ (fun r hr => votedPropose_mono xs s r v b hr))

theorem proposeQC_cons (e : Ev) (s : List Ev) (v : View) (b : Nat) (h : c.proposeQC s v b) :
    c.proposeQC (e :: s) v b := c.proposeQC_mono [e] s v b h

theorem Valid.tail {c : Cfg} {e : Ev} {tr : List Ev} (h : c.Valid (e :: tr)) : c.Valid tr := by
  cases h <;> assumption

theorem Valid.suffix {c : Cfg} : ∀ (xs s : List Ev), c.Valid (xs ++ s) → c.Valid s
  | [], _, h => h
  | _ :: xs, s, h => Valid.suffix xs s (Valid.tail h)

theorem Valid.guard_head {c : Cfg} {e : Ev} {tr : List Ev} (h : c.Valid (e :: tr))
    (hh : c.byz e.rep = false) : c.guard tr e := by
  cases h with
  | honest _ _ _ _ g => exact g
  | byzantine _ _ _ hb => rw [hh] at hb; cases hb

/-- every honest entry of a valid trace passed its guard against the history before it -/
theorem Valid.guard_mem {c : Cfg} : ∀ (tr : List Ev), c.Valid tr → ∀ e ∈ tr, c.byz e.rep = false →
    ∃ newer t, tr = newer ++ e :: t ∧ c.guard t e
  | [], _, e, he, _ => by cases he
  | x :: tr, h, e, he, hh => by
    rcases List.mem_cons.mp he with rfl | he'
    · exact ⟨[], tr, rfl, Valid.guard_head h hh⟩
    · obtain ⟨newer, t, ht, g⟩ := Valid.guard_mem tr (Valid.tail h) e he' hh
      exact ⟨x :: newer, t, by simp [ht], g⟩

/-- an honest entry in the newer part of a valid trace passed its guard against a history that
    contains the whole older part -/
theorem Valid.guard_mem_newer {c : Cfg} : ∀ (xs s : List Ev), c.Valid (xs ++ s) → ∀ x ∈ xs,
    c.byz x.rep = false → ∃ t, c.guard t x ∧ ∀ y ∈ s, y ∈ t
  | [], _, _, x, hx, _ => by cases hx
  | a :: xs, s, h, x, hx, hh => by
    rcases List.mem_cons.mp hx with rfl | hx'
    · exact ⟨xs ++ s, Valid.guard_head h hh, fun y hy => List.mem_append_right _ hy⟩
    · exact Valid.guard_mem_newer xs s (Valid.tail h) x hx' hh

theorem Fresh.tail {c : Cfg} {e : Ev} {tr : List Ev} (h : c.Fresh (e :: tr)) : c.Fresh tr :=
  fun r v b q qp hm hr => h r v b q qp (List.mem_cons_of_mem _ hm) hr

theorem Fresh.suffix {c : Cfg} (xs s : List Ev) (h : c.Fresh (xs ++ s)) : c.Fresh s :=
  fun r v b q qp hm hr => h r v b q qp (List.mem_append_right _ hm) hr

/-- when the code binds the certificate of a PRECOMMIT message to the view, every valid history is fresh -/
theorem fresh_of_bound {c : Cfg} (hbound : ∀ q qp v, c.certBound q qp v = true → q = v ∧ qp = true) :
    ∀ tr, c.Valid tr → c.Fresh tr
  | [], _ => by intro r v b q qp hm; cases hm
  | e :: tr, h => by
    intro r v b q qp hm hr
    rcases List.mem_cons.mp hm with he | hm'
    · subst he
      have g := Valid.guard_head h (by simpa [Ev.rep] using hr)
      exact hbound q qp v g.2.2.1
    · exact fresh_of_bound hbound tr (Valid.tail h) r v b q qp hm' hr

/-- the lock dominates every PRECOMMIT_VOTE of the replica, and agrees with it at equal views -/
theorem lock_dominates {c : Cfg} (hadopt : ∀ w y, c.adoptOk w y = true → w < y) :
    ∀ (tr : List Ev), c.Valid tr → c.Fresh tr → ∀ (r : Nat), c.byz r = false →
    ∀ (v : View) (b : Nat) (q : View) (qp : Bool), Ev.precommit r v b q qp ∈ tr →
    ∃ w bw, lock tr r = some (w, bw) ∧ v ≤ w ∧ (v = w → b = bw)
  | [], _, _, _, _, _, _, _, _, hm => by cases hm
  | .propose r' v' b' hq' :: tr, h, hf, r, hr, v, b, q, qp, hm => by
    have hm' : Ev.precommit r v b q qp ∈ tr := by
      rcases List.mem_cons.mp hm with h0 | h0
      · cases h0
      · exact h0
    obtain ⟨w, bw, hl, h1, h2⟩ := lock_dominates hadopt tr (Valid.tail h) hf.tail r hr v b q qp hm'
    exact ⟨w, bw, by simp [lock, hl], h1, h2⟩
  | .adopt r' q' b' :: tr, h, hf, r, hr, v, b, q, qp, hm => by
    have hm' : Ev.precommit r v b q qp ∈ tr := by
      rcases List.mem_cons.mp hm with h0 | h0
      · cases h0
      · exact h0
    obtain ⟨w, bw, hl, h1, h2⟩ := lock_dominates hadopt tr (Valid.tail h) hf.tail r hr v b q qp hm'
    by_cases hrr : r' = r
    · subst hrr
      have g := Valid.guard_head h (by simpa [Ev.rep] using hr)
      have ga := g.2
      rw [hl] at ga
      have hlt : w < q' := hadopt _ _ ga
      have hvq : v < q' := View.le_lt_trans h1 hlt
      refine ⟨q', b', by simp [lock], View.le_of_lt hvq, ?_⟩
      intro he; subst he; exact absurd hvq (View.lt_irrefl _)
    · exact ⟨w, bw, by simp [lock, hrr, hl], h1, h2⟩
  | .precommit r' v' b' q' qp' :: tr, h, hf, r, hr, v, b, q, qp, hm => by
    by_cases hrr : r' = r
    · subst hrr
      have hq' : q' = v' := (hf r' v' b' q' qp' List.mem_cons_self hr).1
      subst hq'
      refine ⟨q', b', by simp [lock], ?_, ?_⟩
      · rcases List.mem_cons.mp hm with h0 | h0
        · cases h0; exact View.le_refl _
        · have g := Valid.guard_head h (by simpa [Ev.rep] using hr)
          exact g.1 _ h0 rfl v rfl
      · intro hv
        rcases List.mem_cons.mp hm with h0 | h0
        · cases h0; rfl
        · have g := Valid.guard_head h (by simpa [Ev.rep] using hr)
          subst hv
          have := g.2.1 _ h0
          simp [Ev.isPrecommitAt] at this
    · have hm' : Ev.precommit r v b q qp ∈ tr := by
        rcases List.mem_cons.mp hm with h0 | h0
        · cases h0; exact absurd rfl hrr
        · exact h0
      obtain ⟨w, bw, hl, h1, h2⟩ := lock_dominates hadopt tr (Valid.tail h) hf.tail r hr v b q qp hm'
      exact ⟨w, bw, by simp [lock, hrr, hl], h1, h2⟩

/-- an honest replica's lock is a PROPOSE_VOTE certificate that exists in the history -/
theorem lock_cert {c : Cfg} : ∀ (tr : List Ev), c.Valid tr → c.Fresh tr → ∀ (r : Nat), c.byz r = false →
    ∀ (w : View) (bw : Nat), lock tr r = some (w, bw) → c.proposeQC tr w bw
  | [], _, _, _, _, _, _, hl => by simp [lock] at hl
  | .propose r' v' b' hq' :: tr, h, hf, r, hr, w, bw, hl => by
    simp only [lock] at hl
    exact c.proposeQC_cons _ _ _ _ (lock_cert tr (Valid.tail h) hf.tail r hr w bw hl)
  | .adopt r' q' b' :: tr, h, hf, r, hr, w, bw, hl => by
    simp only [lock] at hl
    by_cases hrr : r' = r
    · subst hrr
      simp at hl
      obtain ⟨rfl, rfl⟩ := hl
      have g := Valid.guard_head h (by simpa [Ev.rep] using hr)
      exact c.proposeQC_cons _ _ _ _ g.1
    · simp [hrr] at hl
      exact c.proposeQC_cons _ _ _ _ (lock_cert tr (Valid.tail h) hf.tail r hr w bw hl)
  | .precommit r' v' b' q' qp' :: tr, h, hf, r, hr, w, bw, hl => by
    simp only [lock] at hl
    by_cases hrr : r' = r
    · subst hrr
      simp at hl
      obtain ⟨rfl, rfl⟩ := hl
      have hfr := hf r' v' b' q' qp' List.mem_cons_self hr
      have g := Valid.guard_head h (by simpa [Ev.rep] using hr)
      have gc := g.2.2.2
      rw [hfr.2] at gc
      simp only [certQC, if_true] at gc
      exact c.proposeQC_cons _ _ _ _ gc
    · simp [hrr] at hl
      exact c.proposeQC_cons _ _ _ _ (lock_cert tr (Valid.tail h) hf.tail r hr w bw hl)

theorem precommit_unique {c : Cfg} : ∀ (tr : List Ev), c.Valid tr → ∀ (r : Nat), c.byz r = false →
    ∀ (v : View) (b1 b2 : Nat) (q1 q2 : View) (p1 p2 : Bool),
    Ev.precommit r v b1 q1 p1 ∈ tr → Ev.precommit r v b2 q2 p2 ∈ tr → b1 = b2
  | [], _, _, _, _, _, _, _, _, _, _, h1, _ => by cases h1
  | x :: tr, h, r, hr, v, b1, b2, q1, q2, p1, p2, h1, h2 => by
    rcases List.mem_cons.mp h1 with e1 | m1 <;> rcases List.mem_cons.mp h2 with e2 | m2
    · rw [← e1] at e2; cases e2; rfl
    · subst e1
      have g := Valid.guard_head h (by simpa [Ev.rep] using hr)
      have := g.2.1 _ m2
      simp [Ev.isPrecommitAt] at this
    · subst e2
      have g := Valid.guard_head h (by simpa [Ev.rep] using hr)
      have := g.2.1 _ m1
      simp [Ev.isPrecommitAt] at this
    · exact precommit_unique tr (Valid.tail h) r hr v b1 b2 q1 q2 p1 p2 m1 m2

/-- Key claim: once a PRECOMMIT_VOTE quorum for `(v1,b1)` exists in the final trace, no honest member of it
    ever propose-votes a different block at a later view. Induction over time (suffixes of the trace). -/
theorem no_conflicting_propose {c : Cfg} (hb : 3 * c.powerOf c.byz < c.total)
    (hun : ∀ w y, c.unlock w y = true → w < y) (hadopt : ∀ w y, c.adoptOk w y = true → w < y)
    (tr : List Ev) (hv : c.Valid tr) (hf : c.Fresh tr) (v1 : View) (b1 : Nat) (hq : c.precommitQC tr v1 b1) :
    ∀ (s newer : List Ev), tr = newer ++ s →
    ∀ (r : Nat) (v : View) (b : Nat) (j : Option View), c.byz r = false → votedPrecommit tr r v1 b1 = true →
      Ev.propose r v b j ∈ s → v1 < v → b = b1
  | [], _, _, _, _, _, _, _, _, hm, _ => by cases hm
  | e :: s, newer, ht, r, v, b, j, hr, hpc, hm, hlt => by
    have ht' : tr = (newer ++ [e]) ++ s := by simp [ht]
    have ih := no_conflicting_propose hb hun hadopt tr hv hf v1 b1 hq s (newer ++ [e]) ht'
    rcases List.mem_cons.mp hm with he | hm'
    · subst he
      have hvs : c.Valid (Ev.propose r v b j :: s) := Valid.suffix newer _ (ht ▸ hv)
      have hfs : c.Fresh s := Fresh.suffix (newer ++ [Ev.propose r v b j]) s (ht' ▸ hf)
      have g := Valid.guard_head hvs (by simpa [Ev.rep] using hr)
      obtain ⟨q1, p1, hpcm⟩ := (votedPrecommit_iff _ _ _ _).mp hpc
      -- r's PRECOMMIT_VOTE for (v1,b1) is older than this vote
      have hpc_s : Ev.precommit r v1 b1 q1 p1 ∈ s := by
        rw [ht] at hpcm
        rcases List.mem_append.mp hpcm with hin | hin
        · exfalso
          obtain ⟨t2, g2, hsub⟩ := Valid.guard_mem_newer newer (Ev.propose r v b j :: s) (ht ▸ hv) _ hin
            (by simpa [Ev.rep] using hr)
          have this := g2.1 _ (hsub _ List.mem_cons_self) rfl v rfl
          exact View.lt_irrefl _ (View.lt_le_trans hlt this)
        · rcases List.mem_cons.mp hin with h0 | h0
          · cases h0
          · exact h0
      obtain ⟨w, bw, hl, hle, heq⟩ := lock_dominates hadopt s (Valid.tail hvs) hfs r hr v1 b1 q1 p1 hpc_s
      have hbw : bw = b1 := by
        rcases hle with hlt1 | heq1
        · -- the lock is a PROPOSE_VOTE certificate at a view above v1: one of its honest signers is in the commit quorum
          have hc := lock_cert s (Valid.tail hvs) hfs r hr w bw hl
          obtain ⟨r', _, hp', hq', hh'⟩ := c.quorum_intersect hb _ _ hc hq
          obtain ⟨j', hj'⟩ := (votedPropose_iff _ _ _ _).mp hp'
          exact ih r' w bw j' hh' hq' hj' hlt1
        · exact (heq heq1).symm
      have gs := g.2.2
      rw [hl] at gs
      rcases gs with hsame | hjust
      · rw [← hsame, hbw]
      · cases j with
        | none => exact absurd hjust (by simp [justified])
        | some y =>
          obtain ⟨hwy, hqc⟩ := hjust
          obtain ⟨r', _, hp', hq', hh'⟩ := c.quorum_intersect hb _ _ hqc hq
          obtain ⟨j', hj'⟩ := (votedPropose_iff _ _ _ _).mp hp'
          exact ih r' y b j' hh' hq' hj' (View.le_lt_trans hle (hun _ _ hwy))
    · exact ih r v b j hr hpc hm' hlt

/-- Agreement for fresh histories: two commit certificates in one valid history carry the same block. -/
theorem agreement_of_fresh (c : Cfg) (hb : 3 * c.powerOf c.byz < c.total)
    (hun : ∀ w y, c.unlock w y = true → w < y) (hadopt : ∀ w y, c.adoptOk w y = true → w < y)
    (tr : List Ev) (hv : c.Valid tr) (hf : c.Fresh tr)
    (v1 v2 : View) (b1 b2 : Nat) (h1 : c.precommitQC tr v1 b1) (h2 : c.precommitQC tr v2 b2) : b1 = b2 := by
  have later : ∀ (va vb : View) (ba bb : Nat), c.precommitQC tr va ba → c.precommitQC tr vb bb → va < vb → bb = ba := by
    intro va vb ba bb ha hbq hlt
    obtain ⟨r2, _, hp2, hh2⟩ := c.quorum_honest hb _ hbq
    obtain ⟨q2, p2, hm2⟩ := (votedPrecommit_iff _ _ _ _).mp hp2
    obtain ⟨newer, t, ht, g⟩ := Valid.guard_mem tr hv _ hm2 (by simpa [Ev.rep] using hh2)
    have hfr := hf r2 vb bb q2 p2 hm2 hh2
    have gc := g.2.2.2
    rw [hfr.1, hfr.2] at gc
    simp only [certQC, if_true] at gc
    obtain ⟨r, _, hp, hq, hh⟩ := c.quorum_intersect hb _ _ gc ha
    obtain ⟨j, hj⟩ := (votedPropose_iff _ _ _ _).mp hp
    exact no_conflicting_propose hb hun hadopt tr hv hf va ba ha t (newer ++ [Ev.precommit r2 vb bb q2 p2])
      (by simp [ht]) r vb bb j hh hq hj hlt
  rcases View.lt_or_ge v1 v2 with h | h
  · exact (later v1 v2 b1 b2 h1 h2 h).symm
  · rcases h with h | h
    · exact later v2 v1 b2 b1 h2 h1 h
    · subst h
      obtain ⟨r, _, hp, hq, hh⟩ := c.quorum_intersect hb _ _ h1 h2
      obtain ⟨qa, pa, hma⟩ := (votedPrecommit_iff _ _ _ _).mp hp
      obtain ⟨qb, pb, hmb⟩ := (votedPrecommit_iff _ _ _ _).mp hq
      exact precommit_unique tr hv r hh _ b1 b2 qa qb pa pb hma hmb

/-- Agreement, parametric in the three code decisions. -/
theorem agreement_param (c : Cfg) (hb : 3 * c.powerOf c.byz < c.total)
    (hun : ∀ w y, c.unlock w y = true → w < y) (hadopt : ∀ w y, c.adoptOk w y = true → w < y)
    (hbound : ∀ q qp v, c.certBound q qp v = true → q = v ∧ qp = true)
    (tr : List Ev) (hv : c.Valid tr)
    (v1 v2 : View) (b1 b2 : Nat) (h1 : c.precommitQC tr v1 b1) (h2 : c.precommitQC tr v2 b2) : b1 = b2 :=
  agreement_of_fresh c hb hun hadopt tr hv (fresh_of_bound hbound tr hv) v1 v2 b1 b2 h1 h2

end Cfg
end Canopy.Bft
