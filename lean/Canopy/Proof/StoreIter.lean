import Canopy.Proof.StoreGroups
/-! The `VersionedIterator` machine (`first/advanceToNextKey/rewindToLatestVersion/step`) yields, for
each of its four strategies, exactly one entry per user-key group: the newest version ≤ the read
version, unless it is a tombstone (C10). -/
namespace Canopy.Store
open Canopy

/-! ## unfolding `advance` -/

/-- reset of the output fields at the top of `advanceToNextKey` -/
def VIt.clr (it : VIt) : VIt := { it with isValid := false, key := [], value := [] }

@[simp] theorem VIt.clr_clr (it : VIt) : it.clr.clr = it.clr := rfl
@[simp] theorem VIt.clr_cur (it : VIt) : it.clr.cur = it.cur := rfl
@[simp] theorem VIt.clr_last (it : VIt) : it.clr.last = it.last := rfl
@[simp] theorem VIt.clr_version (it : VIt) : it.clr.version = it.version := rfl
@[simp] theorem VIt.clr_all (it : VIt) : it.clr.all = it.all := rfl
@[simp] theorem VIt.clr_reverse (it : VIt) : it.clr.reverse = it.reverse := rfl
@[simp] theorem VIt.clr_seek (it : VIt) : it.clr.seek = it.seek := rfl
@[simp] theorem VIt.clr_snp (it : VIt) : it.clr.snp = it.snp := rfl
@[simp] theorem VIt.clr_vbuf (it : VIt) : it.clr.vbuf = it.vbuf := rfl
@[simp] theorem VIt.clr_isValid (it : VIt) : it.clr.isValid = false := rfl

theorem VIt.step_clr (it : VIt) : it.clr.step = it.step.clr := by
  unfold VIt.step VIt.clr
  simp only
  split <;> (try split) <;> (try split) <;> (try split) <;> (try split) <;> (try split) <;> rfl

theorem VIt.advance_clr (f : Nat) (it : VIt) : VIt.advance f it.clr = VIt.advance f it := by
  cases f <;> rfl

theorem VIt.advance_none (f : Nat) (it : VIt) (h : it.cur.cur? = none) : VIt.advance (f + 1) it = it.clr := by
  have h' : it.clr.cur.cur? = none := h
  simp only [VIt.advance]
  show (match it.clr.cur.cur? with | none => it.clr | some e => _) = _
  rw [h']

theorem VIt.advance_skip (f : Nat) (it : VIt) (e : Entry) (h : it.cur.cur? = some e)
    (hs : versionOf e.1 > it.version ∨ userKeyOf? e.1 = none ∨ it.last = userKeyOf? e.1) :
    VIt.advance (f + 1) it = VIt.advance f it.step := by
  have h' : it.clr.cur.cur? = some e := h
  rw [← VIt.advance_clr f it.step, ← VIt.step_clr]
  simp only [VIt.advance]
  show (match it.clr.cur.cur? with | none => it.clr | some e => _) = _
  rw [h']
  dsimp only
  by_cases hv : versionOf e.1 > it.version
  · rw [if_pos hv]; rfl
  · rw [if_neg hv]
    cases huk : userKeyOf? e.1 with
    | none => rfl
    | some uk =>
      rcases hs with hs | hs | hs
      · exact absurd hs hv
      · rw [huk] at hs; cases hs
      · rw [huk] at hs
        dsimp only
        rw [if_pos hs]; rfl

/-- the state right after a new user key has been found and (in reverse mode) rewound -/
def VIt.found (it : VIt) (e : Entry) (uk : Bytes) : VIt :=
  let it1 : VIt := { it.clr with last := some uk, vbuf := e.2 }
  if it1.reverse then it1.rewind uk else it1

theorem VIt.advance_new (f : Nat) (it : VIt) (e : Entry) (uk : Bytes) (h : it.cur.cur? = some e)
    (hv : versionOf e.1 ≤ it.version) (huk : userKeyOf? e.1 = some uk) (hl : it.last ≠ some uk) :
    VIt.advance (f + 1) it =
      if (parseVal (it.found e uk).vbuf).1 = deadTomb then VIt.advance f (it.found e uk).step
      else { it.found e uk with key := uk, value := (parseVal (it.found e uk).vbuf).2, isValid := true } := by
  have h' : it.clr.cur.cur? = some e := h
  simp only [VIt.advance]
  show (match it.clr.cur.cur? with | none => it.clr | some e => _) = _
  rw [h']
  dsimp only
  rw [if_neg (by show ¬ versionOf e.1 > it.version; omega)]
  simp only [huk]
  rw [if_neg hl]
  rfl

/-! ## cursor positions -/

/-- positioned at the head of `rest`, with `A` before it -/
def posAt (A rest : List Entry) : PCur := { rpre := A.reverse, post := rest, bof := false }

/-- positioned at the last entry of `A` (before-first when `A` is empty), `rest` after it -/
def posEnd (A rest : List Entry) : PCur :=
  match A.reverse with
  | [] => { rpre := [], post := rest, bof := true }
  | a :: r => { rpre := r, post := a :: rest, bof := false }

theorem posAt_cur (A : List Entry) (e : Entry) (rest : List Entry) : (posAt A (e :: rest)).cur? = some e := rfl
theorem posAt_cur_nil (A : List Entry) : (posAt A []).cur? = none := rfl
theorem posAt_next (A : List Entry) (e : Entry) (rest : List Entry) :
    (posAt A (e :: rest)).next = posAt (A ++ [e]) rest := by
  simp [posAt, PCur.next]

theorem posEnd_snoc (A : List Entry) (a : Entry) (rest : List Entry) :
    posEnd (A ++ [a]) rest = posAt A (a :: rest) := by
  simp [posEnd, posAt]

theorem posEnd_nil (rest : List Entry) : posEnd [] rest = { rpre := [], post := rest, bof := true } := rfl

theorem posAt_prev_snoc (A : List Entry) (a : Entry) (rest : List Entry) :
    (posAt (A ++ [a]) rest).prev = posAt A (a :: rest) := by
  simp [posAt, PCur.prev]

theorem posAt_prev (A rest : List Entry) : (posAt A rest).prev = posEnd A rest := by
  cases hA : A.reverse with
  | nil => simp [posAt, PCur.prev, posEnd, hA]
  | cons a r => simp [posAt, PCur.prev, posEnd, hA]

theorem takeWhile_append_stop {α : Type} (p : α → Bool) (A rest : List α) (hA : ∀ a ∈ A, p a = true)
    (hr : ∀ x, rest.head? = some x → p x = false) :
    (A ++ rest).takeWhile p = A ∧ (A ++ rest).dropWhile p = rest := by
  induction A with
  | nil =>
    cases rest with
    | nil => simp
    | cons x xs => simp [hr x rfl]
  | cons a A ih =>
    have := ih (fun x hx => hA x (List.mem_cons_of_mem _ hx))
    simp [hA a List.mem_cons_self, this]

theorem seekGE_split (A rest : List Entry) (t : Bytes) (hA : ∀ a ∈ A, blt a.1 t = true)
    (hr : ∀ x, rest.head? = some x → blt x.1 t = false) : PCur.seekGE (A ++ rest) t = posAt A rest := by
  have := takeWhile_append_stop (fun e : Entry => blt e.1 t) A rest hA hr
  simp [PCur.seekGE, posAt, this.1, this.2]

theorem seekLT_split (A rest : List Entry) (t : Bytes) (hA : ∀ a ∈ A, blt a.1 t = true)
    (hr : ∀ x, rest.head? = some x → blt x.1 t = false) : PCur.seekLT (A ++ rest) t = posEnd A rest := by
  have := takeWhile_append_stop (fun e : Entry => blt e.1 t) A rest hA hr
  unfold PCur.seekLT posEnd
  rw [this.1, this.2]
  cases hA' : A.reverse with
  | nil =>
    have : A = [] := by simpa using hA'
    subst this; rfl
  | cons a r => rfl

end Canopy.Store

namespace Canopy.Store
open Canopy

/-! ## small state helpers -/

def VIt.setCur (it : VIt) (c : PCur) : VIt := { it with cur := c }

@[simp] theorem VIt.setCur_cur (it : VIt) (c : PCur) : (it.setCur c).cur = c := rfl
@[simp] theorem VIt.setCur_last (it : VIt) (c : PCur) : (it.setCur c).last = it.last := rfl
@[simp] theorem VIt.setCur_version (it : VIt) (c : PCur) : (it.setCur c).version = it.version := rfl
@[simp] theorem VIt.setCur_all (it : VIt) (c : PCur) : (it.setCur c).all = it.all := rfl
@[simp] theorem VIt.setCur_reverse (it : VIt) (c : PCur) : (it.setCur c).reverse = it.reverse := rfl
@[simp] theorem VIt.setCur_seek (it : VIt) (c : PCur) : (it.setCur c).seek = it.seek := rfl
@[simp] theorem VIt.setCur_snp (it : VIt) (c : PCur) : (it.setCur c).snp = it.snp := rfl
@[simp] theorem VIt.setCur_vbuf (it : VIt) (c : PCur) : (it.setCur c).vbuf = it.vbuf := rfl
@[simp] theorem VIt.setCur_setCur (it : VIt) (c d : PCur) : (it.setCur c).setCur d = it.setCur d := rfl
theorem VIt.setCur_self (it : VIt) (c : PCur) (h : it.cur = c) : it.setCur c = it := by
  subst h; rfl

/-- entries of one user key -/
def ents (uk : Bytes) (ps : List (Nat × Bytes)) : List Entry := ps.map fun p => (mkKey uk p.1, p.2)

@[simp] theorem ents_nil (uk : Bytes) : ents uk [] = [] := rfl
@[simp] theorem ents_cons (uk : Bytes) (p : Nat × Bytes) (ps : List (Nat × Bytes)) :
    ents uk (p :: ps) = (mkKey uk p.1, p.2) :: ents uk ps := rfl
@[simp] theorem ents_append (uk : Bytes) (a b : List (Nat × Bytes)) : ents uk (a ++ b) = ents uk a ++ ents uk b := by
  simp [ents]
@[simp] theorem ents_length (uk : Bytes) (ps : List (Nat × Bytes)) : (ents uk ps).length = ps.length := by simp [ents]
theorem G.entries_eq (g : G) : g.entries = ents g.uk g.es := rfl

/-! ## forward strategies -/

theorem VIt.step_fwd_normal (it : VIt) (hr : it.reverse = false)
    (h : it.seek = false ∨ it.last = none ∨
      (∃ e ck, it.cur.cur? = some e ∧ userKeyOf? e.1 = some ck ∧ it.last ≠ some ck)) :
    it.step = it.setCur it.cur.next := by
  rcases it with ⟨all, cur, version, reverse, seek, last, vbuf, snp, isValid, key, value⟩
  simp only at hr h
  subst hr
  cases seek with
  | false => rfl
  | true =>
    rcases h with h | h | ⟨e, ck, he, hk, hl⟩
    · cases h
    · subst h
      simp only [VIt.step, VIt.setCur]
      cases cur.cur? <;> rfl
    · simp only [VIt.step, VIt.setCur, he]
      cases last with
      | none => rfl
      | some L =>
        simp only [hk]
        rw [if_pos trivial, if_neg (by intro h; exact hl (by rw [h]))]
        rfl

theorem VIt.step_fwd_seek (it : VIt) (hr : it.reverse = false) (hs : it.seek = true) (e : Entry) (L : Bytes)
    (hc : it.cur.cur? = some e) (hk : userKeyOf? e.1 = some L) (hl : it.last = some L) :
    it.step = it.setCur (PCur.seekGE it.all (prefixEnd L)) := by
  rcases it with ⟨all, cur, version, reverse, seek, last, vbuf, snp, isValid, key, value⟩
  simp only at hr hs hc hl
  subst hr hs hl
  simp only [VIt.step, VIt.setCur, hc, hk]
  rfl

/-- forward, entries newer than the read version are stepped over one by one -/
theorem fwd_skip_ver (v : Nat) (uk : Bytes) (huk : uk ≠ []) :
    ∀ (ps : List (Nat × Bytes)) (A R : List Entry) (it : VIt) (f : Nat),
      (∀ p ∈ ps, v < p.1 ∧ p.1 ≤ maxVer) → it.cur = posAt A (ents uk ps ++ R) → it.reverse = false →
      it.version = v → it.last ≠ some uk →
      VIt.advance (f + ps.length) it = VIt.advance f (it.setCur (posAt (A ++ ents uk ps) R)) := by
  intro ps
  induction ps with
  | nil =>
    intro A R it f _ hc _ _ _
    simp only [ents_nil, List.append_nil, List.nil_append, List.length_nil, Nat.add_zero] at hc ⊢
    rw [VIt.setCur_self it _ hc]
  | cons p ps ih =>
    intro A R it f hp hc hr hv hl
    have hp1 := hp p List.mem_cons_self
    have hcur : it.cur.cur? = some (mkKey uk p.1, p.2) := by rw [hc]; rfl
    rw [List.length_cons, ← Nat.add_assoc, VIt.advance_skip _ it _ hcur
      (Or.inl (by rw [versionOf_mkKey _ hp1.2, hv]; exact hp1.1))]
    rw [VIt.step_fwd_normal it hr (Or.inr (Or.inr ⟨_, uk, hcur, userKeyOf_mkKey _ huk, hl⟩))]
    have hnext : it.cur.next = posAt (A ++ [(mkKey uk p.1, p.2)]) (ents uk ps ++ R) := by
      rw [hc]; exact posAt_next _ _ _
    rw [hnext, ih (A ++ [(mkKey uk p.1, p.2)]) R (it.setCur (posAt (A ++ [(mkKey uk p.1, p.2)]) (ents uk ps ++ R))) f (fun q hq => hp q (List.mem_cons_of_mem _ hq)) rfl hr hv hl]
    simp [List.append_assoc]

/-- forward linear, the remaining versions of the key just decided are stepped over one by one -/
theorem fwd_skip_key_lin (uk : Bytes) (huk : uk ≠ []) :
    ∀ (ps : List (Nat × Bytes)) (A R : List Entry) (it : VIt) (f : Nat),
      it.cur = posAt A (ents uk ps ++ R) → it.reverse = false → it.seek = false → it.last = some uk →
      VIt.advance (f + ps.length) it = VIt.advance f (it.setCur (posAt (A ++ ents uk ps) R)) := by
  intro ps
  induction ps with
  | nil =>
    intro A R it f hc _ _ _
    simp only [ents_nil, List.append_nil, List.nil_append, List.length_nil, Nat.add_zero] at hc ⊢
    rw [VIt.setCur_self it _ hc]
  | cons p ps ih =>
    intro A R it f hc hr hs hl
    have hcur : it.cur.cur? = some (mkKey uk p.1, p.2) := by rw [hc]; rfl
    rw [List.length_cons, ← Nat.add_assoc, VIt.advance_skip _ it _ hcur
      (Or.inr (Or.inr (by rw [hl, userKeyOf_mkKey _ huk])))]
    rw [VIt.step_fwd_normal it hr (Or.inl hs)]
    have hnext : it.cur.next = posAt (A ++ [(mkKey uk p.1, p.2)]) (ents uk ps ++ R) := by
      rw [hc]; exact posAt_next _ _ _
    rw [hnext, ih (A ++ [(mkKey uk p.1, p.2)]) R (it.setCur (posAt (A ++ [(mkKey uk p.1, p.2)]) (ents uk ps ++ R))) f rfl hr hs hl]
    simp [List.append_assoc]

end Canopy.Store

namespace Canopy.Store
open Canopy

theorem VIt.collect_succ (n : Nat) (it : VIt) :
    VIt.collect (n + 1) it =
      if it.isValid then (it.key, it.value) :: VIt.collect n (it.advance (iterFuel it.all)) else [] := rfl

/-- a version list splits into the versions newer than `v` and the rest, whose head is the visible one -/
theorem split_newer (v : Nat) (es : List (Nat × Bytes)) :
    ∃ es1 rest, es = es1 ++ rest ∧ (∀ p ∈ es1, v < p.1) ∧ (∀ p, rest.head? = some p → p.1 ≤ v) ∧
      es.find? (fun p => decide (p.1 ≤ v)) = rest.head? := by
  induction es with
  | nil => exact ⟨[], [], rfl, by simp, by simp, rfl⟩
  | cons p ps ih =>
    obtain ⟨es1, rest, he, h1, h2, h3⟩ := ih
    by_cases hp : p.1 ≤ v
    · exact ⟨[], p :: ps, rfl, by simp, by simp [hp], by simp [hp]⟩
    · refine ⟨p :: es1, rest, by rw [he]; rfl, ?_, h2, ?_⟩
      · intro q hq
        rcases List.mem_cons.mp hq with rfl | hq
        · omega
        · exact h1 q hq
      · rw [List.find?_cons_of_neg (by simpa using hp), h3]

theorem G.pick_of_split {v : Nat} {g : G} {rest : List (Nat × Bytes)}
    (h : g.es.find? (fun p => decide (p.1 ≤ v)) = rest.head?) :
    g.pick v = match rest.head? with
      | none => none
      | some p => if (parseVal p.2).1 = deadTomb then none else some (g.uk, (parseVal p.2).2) := by
  unfold G.pick
  rw [h]
  cases rest.head? <;> rfl

/-- forward, after the visible version of a key has been decided: the remaining versions of that key
are skipped (one by one, or by one `SeekGE(prefixEnd(userKey))`) -/
theorem fwd_after (g : G) (gsA gs' : List G) (hW : WFG (gsA ++ g :: gs'))
    (es1 : List (Nat × Bytes)) (p : Nat × Bytes) (es2 : List (Nat × Bytes)) (hes : g.es = es1 ++ p :: es2)
    (it : VIt) (hc : it.cur = posAt (flat gsA ++ ents g.uk es1) (ents g.uk (p :: es2) ++ flat gs'))
    (hall : it.all = flat gsA ++ g.entries ++ flat gs') (hr : it.reverse = false) (hl : it.last = some g.uk)
    (f : Nat) (hf : es2.length ≤ f) :
    ∃ f', f - es2.length ≤ f' ∧
      VIt.advance f it.step = VIt.advance f' (it.setCur (posAt (flat gsA ++ g.entries) (flat gs'))) := by
  have hg : g.WF := hW.wf g (by simp)
  have hent : g.entries = ents g.uk es1 ++ (mkKey g.uk p.1, p.2) :: ents g.uk es2 := by
    rw [G.entries_eq, hes]; simp
  have hcur : it.cur.cur? = some (mkKey g.uk p.1, p.2) := by rw [hc]; rfl
  cases hs : it.seek with
  | false =>
    refine ⟨f - es2.length, Nat.le_refl _, ?_⟩
    rw [VIt.step_fwd_normal it hr (Or.inl hs)]
    have hnext : it.cur.next = posAt (flat gsA ++ ents g.uk es1 ++ [(mkKey g.uk p.1, p.2)]) (ents g.uk es2 ++ flat gs') := by
      rw [hc]; exact posAt_next _ _ _
    rw [hnext]
    have := fwd_skip_key_lin g.uk hg.uk_ne es2 _ (flat gs')
      (it.setCur (posAt (flat gsA ++ ents g.uk es1 ++ [(mkKey g.uk p.1, p.2)]) (ents g.uk es2 ++ flat gs')))
      (f - es2.length) rfl hr hs hl
    rw [Nat.sub_add_cancel hf] at this
    rw [this, hent]
    simp [List.append_assoc]
  | true =>
    refine ⟨f, Nat.sub_le _ _, ?_⟩
    rw [VIt.step_fwd_seek it hr hs _ g.uk hcur (userKeyOf_mkKey _ hg.uk_ne) hl, hall, List.append_assoc]
    rw [show flat gsA ++ (g.entries ++ flat gs') = (flat gsA ++ g.entries) ++ flat gs' by simp]
    rw [seekGE_split]
    · intro a ha
      rcases List.mem_append.mp ha with ha | ha
      · exact hW.before ha _
      · obtain ⟨q, _, rfl⟩ := mem_entries.mp ha
        exact blt_prefixEnd (by simp [invVer_length])
    · intro x hx
      have hx' : x ∈ flat gs' := List.mem_of_mem_head? hx
      exact blt_asymm (hW.after hx' _)

theorem flat_length_pos {g : G} (hg : g.WF) : 0 < g.entries.length := by
  have := List.length_pos_iff.mpr hg.es_ne
  simpa [G.entries] using this

/-- **forward strategies** (linear and seek): one entry per user-key group, in order -/
theorem fwd_main (v : Nat) : ∀ (gs gsA : List G) (it : VIt) (f n : Nat),
    WFG (gsA ++ gs) → it.cur = posAt (flat gsA) (flat gs) → it.all = flat gsA ++ flat gs →
    it.reverse = false → it.version = v → (∀ g ∈ gs, it.last ≠ some g.uk) →
    (flat gs).length + 1 ≤ f → gs.length + 1 ≤ n →
    (it.advance f).collect n = gs.filterMap (G.pick v) := by
  intro gs
  induction gs with
  | nil =>
    intro gsA it f n _ hc _ _ _ _ hf hn
    obtain ⟨f, rfl⟩ : ∃ f', f = f' + 1 := ⟨f - 1, by simp at hf; omega⟩
    obtain ⟨n, rfl⟩ : ∃ n', n = n' + 1 := ⟨n - 1, by simp at hn; omega⟩
    rw [VIt.advance_none f it (by rw [hc]; rfl)]
    rfl
  | cons g gs ih =>
    intro gsA it f n hW hc hall hr hv hl hf hn
    have hg : g.WF := hW.wf g (by simp)
    have hlg : it.last ≠ some g.uk := hl g (by simp)
    have hW' : WFG ((gsA ++ [g]) ++ gs) := by simpa using hW
    have hne := (hW.uk_ne_of_mem).2
    obtain ⟨es1, rest, hes, h1, h2, h3⟩ := split_newer v g.es
    have hmax : ∀ q ∈ g.es, q.1 ≤ maxVer := hg.le_max
    -- skip the versions newer than v
    have hc1 : it.cur = posAt (flat gsA) (ents g.uk es1 ++ (ents g.uk rest ++ flat gs)) := by
      rw [hc, flat_cons, G.entries_eq, hes]; simp
    have hlen : (flat (g :: gs)).length = es1.length + rest.length + (flat gs).length := by
      rw [flat_cons, G.entries_eq, hes]; simp; omega
    have hskip := fwd_skip_ver v g.uk hg.uk_ne es1 (flat gsA) (ents g.uk rest ++ flat gs) it (f - es1.length)
      (fun q hq => ⟨h1 q hq, hmax q (by rw [hes]; exact List.mem_append_left _ hq)⟩) hc1 hr hv hlg
    rw [Nat.sub_add_cancel (by omega)] at hskip
    rw [hskip, List.filterMap_cons, G.pick_of_split h3]
    cases rest with
    | nil =>
      -- the whole group is newer than v
      simp only [List.head?_nil]
      have hes' : g.es = es1 := by simpa using hes
      apply ih (gsA ++ [g]) _ _ _ hW'
      · simp [G.entries_eq, hes']
      · simp [hall, G.entries_eq, hes']
      · exact hr
      · exact hv
      · intro x hx; exact hl x (List.mem_cons_of_mem _ hx)
      · simp only [List.length_nil] at hlen; omega
      · simp only [List.length_cons] at hn; omega
    | cons p es2 =>
      simp only [List.length_cons] at hlen hn
      have hp : p.1 ≤ v := h2 p rfl
      have hpm : p.1 ≤ maxVer := hmax p (by rw [hes]; simp)
      let it1 := it.setCur (posAt (flat gsA ++ ents g.uk es1) (ents g.uk (p :: es2) ++ flat gs))
      have hcur1 : it1.cur.cur? = some (mkKey g.uk p.1, p.2) := rfl
      obtain ⟨f1, hf1⟩ : ∃ f1, f - es1.length = f1 + 1 := ⟨f - es1.length - 1, by omega⟩
      rw [hf1, VIt.advance_new f1 it1 _ g.uk hcur1 (by rw [versionOf_mkKey _ hpm]; exact hv ▸ hp)
        (userKeyOf_mkKey _ hg.uk_ne) hlg]
      -- the decided state
      have hfound : it1.found (mkKey g.uk p.1, p.2) g.uk =
          { it1.clr with last := some g.uk, vbuf := p.2 } := by
        unfold VIt.found
        have hrr : it1.clr.reverse = false := hr
        simp only [hrr, Bool.false_eq_true, if_false]
      rw [hfound]
      let itD : VIt := { it1.clr with last := some g.uk, vbuf := p.2 }
      have hallD : itD.all = flat gsA ++ g.entries ++ flat gs := by
        show it.all = _; rw [hall]; simp
      have hafter := fun f (hf : es2.length ≤ f) => fwd_after g gsA gs hW es1 p es2 hes itD rfl hallD hr rfl f hf
      have hihD : ∀ f' n', (flat gs).length + 1 ≤ f' → gs.length + 1 ≤ n' →
          (VIt.advance f' (itD.setCur (posAt (flat gsA ++ g.entries) (flat gs)))).collect n' =
            gs.filterMap (G.pick v) := by
        intro f' n' hf' hn'
        apply ih (gsA ++ [g]) _ _ _ hW'
        · simp
        · show it.all = _; rw [hall]; simp
        · exact hr
        · exact hv
        · intro x hx h; exact hne x hx (by injection h with h; exact h.symm)
        · exact hf'
        · exact hn'
      show (if (parseVal itD.vbuf).1 = deadTomb then VIt.advance f1 itD.step
        else { itD with key := g.uk, value := (parseVal itD.vbuf).2, isValid := true }).collect n = _
      by_cases hd : (parseVal p.2).1 = deadTomb
      · rw [if_pos hd]
        simp only [List.head?_cons, hd, if_true]
        obtain ⟨f', hf', he⟩ := hafter f1 (by omega)
        rw [he]
        exact hihD f' n (by omega) (by omega)
      · rw [if_neg hd]
        simp only [List.head?_cons, hd, if_false]
        obtain ⟨n', rfl⟩ : ∃ n', n = n' + 1 := ⟨n - 1, by omega⟩
        rw [VIt.collect_succ]
        simp only [if_true]
        congr 1
        -- the next call re-examines the decided entry, skips it by key, and continues
        let it3 : VIt := { itD with key := g.uk, value := (parseVal itD.vbuf).2, isValid := true }
        have h3 : VIt.advance (iterFuel it3.all) it3 = VIt.advance (iterFuel it3.all) itD := by
          rw [← VIt.advance_clr _ it3]; rfl
        have hF : iterFuel it3.all = (2 * it.all.length + 3) + 1 := rfl
        show (VIt.advance (iterFuel it3.all) it3).collect n' = _
        rw [h3, hF, VIt.advance_skip _ itD (mkKey g.uk p.1, p.2) rfl
          (Or.inr (Or.inr (by show some g.uk = _; rw [userKeyOf_mkKey _ hg.uk_ne])))]
        have hal : it.all.length = (flat gsA).length + (es1.length + (es2.length + 1)) + (flat gs).length := by
          rw [hall, flat_cons, G.entries_eq, hes]; simp; omega
        obtain ⟨f', hf', he⟩ := hafter (2 * it.all.length + 3) (by omega)
        rw [he]
        exact hihD f' n' (by omega) (by omega)

end Canopy.Store

namespace Canopy.Store
open Canopy

/-! ## reverse strategies -/

def VIt.setSnp (it : VIt) (b : Bool) : VIt := { it with snp := b }

@[simp] theorem VIt.setSnp_cur (it : VIt) (b : Bool) : (it.setSnp b).cur = it.cur := rfl
@[simp] theorem VIt.setSnp_last (it : VIt) (b : Bool) : (it.setSnp b).last = it.last := rfl
@[simp] theorem VIt.setSnp_version (it : VIt) (b : Bool) : (it.setSnp b).version = it.version := rfl
@[simp] theorem VIt.setSnp_all (it : VIt) (b : Bool) : (it.setSnp b).all = it.all := rfl
@[simp] theorem VIt.setSnp_reverse (it : VIt) (b : Bool) : (it.setSnp b).reverse = it.reverse := rfl
@[simp] theorem VIt.setSnp_seek (it : VIt) (b : Bool) : (it.setSnp b).seek = it.seek := rfl
@[simp] theorem VIt.setSnp_snp (it : VIt) (b : Bool) : (it.setSnp b).snp = b := rfl
@[simp] theorem VIt.setCur_setSnp_snp (it : VIt) (c : PCur) (b : Bool) : ((it.setCur c).setSnp b).snp = b := rfl
theorem VIt.setSnp_self (it : VIt) (b : Bool) (h : it.snp = b) : it.setSnp b = it := by subst h; rfl

theorem VIt.step_rev_normal (it : VIt) (hr : it.reverse = true) (hsnp : it.snp = false)
    (h : it.seek = false ∨ it.last = none ∨ it.cur.cur? = none ∨
      (∃ e ck, it.cur.cur? = some e ∧ userKeyOf? e.1 = some ck ∧ it.last ≠ some ck)) :
    it.step = it.setCur it.cur.prev := by
  rcases it with ⟨all, cur, version, reverse, seek, last, vbuf, snp, isValid, key, value⟩
  simp only at hr h hsnp
  subst hr hsnp
  cases seek with
  | false => rfl
  | true =>
    rcases h with h | h | h | ⟨e, ck, he, hk, hl⟩
    · cases h
    · subst h
      simp only [VIt.step, VIt.setCur]
      cases cur.cur? <;> rfl
    · simp only [VIt.step, VIt.setCur, h]
      rfl
    · simp only [VIt.step, VIt.setCur, he]
      cases last with
      | none => rfl
      | some L =>
        simp only [hk]
        rw [if_pos trivial, if_neg (by intro h; exact hl (by rw [h]))]
        rfl

theorem VIt.step_rev_clear (it : VIt) (hr : it.reverse = true) (hs : it.seek = false) (hsnp : it.snp = true) :
    it.step = it.setSnp false := by
  rcases it with ⟨all, cur, version, reverse, seek, last, vbuf, snp, isValid, key, value⟩
  simp only at hr hs hsnp
  subst hr hs hsnp
  rfl

theorem VIt.step_rev_seek (it : VIt) (hr : it.reverse = true) (hs : it.seek = true) (e : Entry) (L : Bytes)
    (hc : it.cur.cur? = some e) (hk : userKeyOf? e.1 = some L) (hl : it.last = some L) :
    it.step = it.setCur (PCur.seekLT it.all L) := by
  rcases it with ⟨all, cur, version, reverse, seek, last, vbuf, snp, isValid, key, value⟩
  simp only at hr hs hc hl
  subst hr hs hl
  simp only [VIt.step, VIt.setCur, hc, hk]
  rfl

theorem posEnd_cur_snoc (A : List Entry) (a : Entry) (R : List Entry) : (posEnd (A ++ [a]) R).cur? = some a := by
  rw [posEnd_snoc]; rfl

theorem posEnd_prev_snoc (A : List Entry) (a : Entry) (R : List Entry) :
    (posEnd (A ++ [a]) R).prev = posEnd A (a :: R) := by
  rw [posEnd_snoc, posAt_prev]

/-- reverse, entries newer than the read version are stepped over one by one (`psr` = versions, oldest first) -/
theorem rev_skip_ver_aux (v : Nat) (uk : Bytes) (huk : uk ≠ []) :
    ∀ (psr : List (Nat × Bytes)) (A R : List Entry) (it : VIt) (f : Nat),
      (∀ p ∈ psr, v < p.1 ∧ p.1 ≤ maxVer) → it.cur = posEnd (A ++ ents uk psr.reverse) R → it.reverse = true →
      it.version = v → it.snp = false → (it.seek = false ∨ it.last ≠ some uk) →
      VIt.advance (f + psr.length) it = VIt.advance f (it.setCur (posEnd A (ents uk psr.reverse ++ R))) := by
  intro psr
  induction psr with
  | nil =>
    intro A R it f _ hc _ _ _ _
    simp only [List.reverse_nil, ents_nil, List.append_nil, List.nil_append, List.length_nil, Nat.add_zero] at hc ⊢
    rw [VIt.setCur_self it _ hc]
  | cons p psr ih =>
    intro A R it f hp hc hr hv hsnp hl
    have hp1 := hp p List.mem_cons_self
    have hc' : it.cur = posEnd ((A ++ ents uk psr.reverse) ++ [(mkKey uk p.1, p.2)]) R := by
      rw [hc]; simp [List.append_assoc]
    have hcur : it.cur.cur? = some (mkKey uk p.1, p.2) := by rw [hc']; exact posEnd_cur_snoc _ _ _
    rw [List.length_cons, ← Nat.add_assoc, VIt.advance_skip _ it _ hcur
      (Or.inl (by rw [versionOf_mkKey _ hp1.2, hv]; exact hp1.1))]
    have hstep : it.step = it.setCur it.cur.prev := by
      apply VIt.step_rev_normal it hr hsnp
      rcases hl with hl | hl
      · exact Or.inl hl
      · exact Or.inr (Or.inr (Or.inr ⟨_, uk, hcur, userKeyOf_mkKey _ huk, hl⟩))
    rw [hstep, hc', posEnd_prev_snoc]
    rw [ih A ((mkKey uk p.1, p.2) :: R) (it.setCur (posEnd (A ++ ents uk psr.reverse) ((mkKey uk p.1, p.2) :: R))) f
      (fun q hq => hp q (List.mem_cons_of_mem _ hq)) rfl hr hv hsnp hl]
    simp [List.append_assoc]

theorem rev_skip_ver (v : Nat) (uk : Bytes) (huk : uk ≠ []) (ps : List (Nat × Bytes)) (A R : List Entry)
    (it : VIt) (f : Nat) (hp : ∀ p ∈ ps, v < p.1 ∧ p.1 ≤ maxVer) (hc : it.cur = posEnd (A ++ ents uk ps) R)
    (hr : it.reverse = true) (hv : it.version = v) (hsnp : it.snp = false)
    (hl : it.seek = false ∨ it.last ≠ some uk) :
    VIt.advance (f + ps.length) it = VIt.advance f (it.setCur (posEnd A (ents uk ps ++ R))) := by
  have := rev_skip_ver_aux v uk huk ps.reverse A R it f (fun p hp' => hp p (List.mem_reverse.mp hp'))
    (by simpa using hc) hr hv hsnp hl
  simpa using this

end Canopy.Store

namespace Canopy.Store
open Canopy

/-- the linear rewind walks back over the versions ≤ `v` of the key (`qsr`, oldest first), keeps the
value of the newest of them, and stops on the first entry that is newer than `v` or of another key -/
theorem rewindLin_spec (v : Nat) (uk : Bytes) (huk : uk ≠ []) :
    ∀ (qsr : List (Nat × Bytes)) (A' post : List Entry) (vbuf : Bytes) (snp : Bool),
      (∀ q ∈ qsr, q.1 ≤ v ∧ q.1 ≤ maxVer) →
      (∀ a, A'.getLast? = some a → versionOf a.1 > v ∨ userKeyOf? a.1 ≠ some uk) →
      rewindLin v uk ((A' ++ ents uk qsr.reverse).reverse) post vbuf snp =
        (posEnd A' (ents uk qsr.reverse ++ post), (qsr.getLast?.map (·.2)).getD vbuf,
          if A' = [] ∧ qsr = [] then snp else true) := by
  intro qsr
  induction qsr with
  | nil =>
    intro A' post vbuf snp _ hstop
    simp only [List.reverse_nil, ents_nil, List.append_nil, List.nil_append, List.getLast?_nil, Option.map_none,
      Option.getD_none, and_true]
    cases hA : A'.reverse with
    | nil =>
      have : A' = [] := by simpa using hA
      subst this
      simp [rewindLin, posEnd]
    | cons a r =>
      have hA' : A' = r.reverse ++ [a] := by
        have := congrArg List.reverse hA; simpa using this
      have hne : A' ≠ [] := by rw [hA']; simp
      have hs := hstop a (by rw [hA']; simp)
      simp only [hne, if_false]
      unfold rewindLin posEnd
      rw [hA]
      rcases hs with hs | hs
      · simp only [hs, if_true]
      · by_cases hv : versionOf a.1 > v
        · simp only [hv, if_true]
        · simp only [hv, if_false, hs, ne_eq, not_false_eq_true, if_true]
  | cons q qsr ih =>
    intro A' post vbuf snp hq hstop
    have hq1 := hq q List.mem_cons_self
    have hrev : (A' ++ ents uk (q :: qsr).reverse).reverse
        = (mkKey uk q.1, q.2) :: (A' ++ ents uk qsr.reverse).reverse := by simp
    rw [hrev, rewindLin]
    rw [if_neg (by rw [versionOf_mkKey _ hq1.2]; omega), if_neg (by rw [userKeyOf_mkKey _ huk]; simp)]
    rw [ih A' ((mkKey uk q.1, q.2) :: post) q.2 true (fun x hx => hq x (List.mem_cons_of_mem _ hx)) hstop]
    have h1 : ents uk qsr.reverse ++ (mkKey uk q.1, q.2) :: post = ents uk (q :: qsr).reverse ++ post := by simp
    have h2 : (qsr.getLast?.map (·.2)).getD q.2 = (((q :: qsr).getLast?).map (·.2)).getD vbuf := by
      cases qsr with
      | nil => rfl
      | cons x xs =>
        rw [List.getLast?_cons_cons]
        cases hl : (x :: xs).getLast? with
        | none => simp at hl
        | some y => rfl
    rw [h1, h2]
    simp

end Canopy.Store

namespace Canopy.Store
open Canopy

def VIt.setLV (it : VIt) (uk vb : Bytes) : VIt := { it with last := some uk, vbuf := vb }

theorem exists_snoc {α : Type} (l : List α) (h : l ≠ []) : ∃ l' x, l = l' ++ [x] :=
  ⟨l.dropLast, l.getLast h, (List.dropLast_concat_getLast h).symm⟩

/-- reverse, loop head inside/after a run of entries newer than `v`: they are stepped over
(`shouldNotPrev` costs one extra round) -/
theorem rev_skip_any (v : Nat) (uk : Bytes) (huk : uk ≠ []) (ps : List (Nat × Bytes)) (A R : List Entry)
    (it : VIt) (hp : ∀ p ∈ ps, v < p.1 ∧ p.1 ≤ maxVer) (hc : it.cur = posEnd (A ++ ents uk ps) R)
    (hr : it.reverse = true) (hv : it.version = v) (hs : it.seek = true → it.snp = false ∧ it.last ≠ some uk)
    (f : Nat) (hf : ps.length + 1 ≤ f) :
    ∃ f' b, f - ps.length - 1 ≤ f' ∧ (it.seek = true → b = false) ∧
      VIt.advance f it = VIt.advance f' ((it.setCur (posEnd A (ents uk ps ++ R))).setSnp b) := by
  have hl : ∀ it' : VIt, it'.seek = it.seek → it'.last = it.last → it'.seek = false ∨ it'.last ≠ some uk := by
    intro it' h1 h2
    cases hseek : it.seek with
    | false => left; rw [h1, hseek]
    | true => right; rw [h2]; exact (hs hseek).2
  cases hsnp : it.snp with
  | false =>
    refine ⟨f - ps.length, false, by omega, fun _ => rfl, ?_⟩
    have := rev_skip_ver v uk huk ps A R it (f - ps.length) hp hc hr hv hsnp (hl it rfl rfl)
    rw [Nat.sub_add_cancel (by omega)] at this
    rw [this, VIt.setSnp_self _ _ (by simpa using hsnp)]
  | true =>
    have hseek : it.seek = false := by
      cases h : it.seek with
      | false => rfl
      | true => have := (hs h).1; rw [hsnp] at this; cases this
    by_cases hps : ps = []
    · subst hps
      refine ⟨f, true, ?_, ?_, ?_⟩
      · omega
      · intro h; rw [hseek] at h; cases h
      · simp only [ents_nil, List.append_nil, List.nil_append] at hc ⊢
        rw [VIt.setCur_self it _ hc, VIt.setSnp_self _ _ hsnp]
    · obtain ⟨ps', p, rfl⟩ := exists_snoc ps hps
      have hp1 := hp p (by simp)
      have hc' : it.cur = posEnd ((A ++ ents uk ps') ++ [(mkKey uk p.1, p.2)]) R := by
        rw [hc]; simp [List.append_assoc]
      have hcur : it.cur.cur? = some (mkKey uk p.1, p.2) := by rw [hc']; exact posEnd_cur_snoc _ _ _
      obtain ⟨f1, rfl⟩ : ∃ f1, f = f1 + 1 := ⟨f - 1, by omega⟩
      refine ⟨f1 - (ps' ++ [p]).length, false, by omega, fun _ => rfl, ?_⟩
      show VIt.advance (f1 + 1) it = _
      rw [VIt.advance_skip _ it _ hcur (Or.inl (by rw [versionOf_mkKey _ hp1.2, hv]; exact hp1.1)),
        VIt.step_rev_clear it hr hseek hsnp]
      have := rev_skip_ver v uk huk (ps' ++ [p]) A R (it.setSnp false) (f1 - (ps' ++ [p]).length) hp hc hr hv rfl
        (Or.inl hseek)
      rw [Nat.sub_add_cancel (by simp at hf ⊢; omega)] at this
      rw [this]
      rfl

/-- reverse linear: the state after `rewindToLatestVersion` -/
theorem rev_found_lin (v : Nat) (uk : Bytes) (huk : uk ≠ []) (it : VIt) (A' B : List Entry)
    (rest' : List (Nat × Bytes)) (pn : Nat × Bytes)
    (hc : it.cur = posAt (A' ++ ents uk rest') ((mkKey uk pn.1, pn.2) :: B))
    (hr : it.reverse = true) (hs : it.seek = false) (hv : it.version = v)
    (hq : ∀ q ∈ rest', q.1 ≤ v ∧ q.1 ≤ maxVer)
    (hstop : ∀ a, A'.getLast? = some a → versionOf a.1 > v ∨ userKeyOf? a.1 ≠ some uk) :
    it.found (mkKey uk pn.1, pn.2) uk =
      (((it.clr.setLV uk ((rest'.head?.map (·.2)).getD pn.2)).setCur
        (posEnd A' (ents uk rest' ++ (mkKey uk pn.1, pn.2) :: B))).setSnp
        (if A' = [] ∧ rest' = [] then it.snp else true)) := by
  have hspec := rewindLin_spec v uk huk rest'.reverse A' ((mkKey uk pn.1, pn.2) :: B) pn.2 it.snp
    (fun q hq' => hq q (List.mem_reverse.mp hq')) hstop
  simp only [List.reverse_reverse, List.getLast?_reverse, List.reverse_eq_nil_iff] at hspec
  rcases it with ⟨all, cur, version, reverse, seek, last, vbuf, snp, isValid, key, value⟩
  simp only at hc hr hs hv hspec
  subst hc hr hs hv
  simp only [VIt.found, VIt.clr, VIt.rewind, posAt, Bool.false_eq_true, if_false, if_true, hspec]
  rfl

/-- reverse seek: the state after `rewindToLatestVersion` (`SeekGE(userKey ++ ^version)`) -/
theorem rev_found_seek (v : Nat) (uk : Bytes) (huk : uk ≠ []) (it : VIt) (A' B' : List Entry)
    (q : Nat × Bytes) (rest2 : List (Nat × Bytes)) (e : Entry)
    (hall : it.all = A' ++ (ents uk (q :: rest2) ++ B'))
    (hr : it.reverse = true) (hs : it.seek = true) (hv : it.version = v)
    (hA : ∀ a ∈ A', blt a.1 (mkKey uk v) = true) (hq : q.1 ≤ v ∧ q.1 ≤ maxVer) (hvm : v ≤ maxVer) :
    it.found e uk = (it.clr.setLV uk q.2).setCur (posAt A' (ents uk (q :: rest2) ++ B')) := by
  have hseek : PCur.seekGE it.all (mkKey uk v) = posAt A' (ents uk (q :: rest2) ++ B') := by
    rw [hall]
    apply seekGE_split _ _ _ hA
    intro x hx
    simp only [ents_cons, List.cons_append, List.head?_cons, Option.some.injEq] at hx
    subst hx
    rw [blt_mkKey_same uk hq.2 hvm]
    simp; omega
  rcases it with ⟨all, cur, version, reverse, seek, last, vbuf, snp, isValid, key, value⟩
  simp only at hall hr hs hv hseek
  subst hr hs hv
  simp only [VIt.found, VIt.clr, VIt.rewind, if_true, hseek]
  simp only [posAt, ents_cons, List.cons_append, PCur.cur?, Bool.false_eq_true, if_false, List.head?_cons,
    userKeyOf_mkKey _ huk, ne_eq, not_true_eq_false]
  rfl

end Canopy.Store

namespace Canopy.Store
open Canopy

/-- reverse seek: `SeekLT(lastUserKey)` lands on the last entry of the previous group -/
theorem rev_seek_jump (g : G) (gs0 gsB : List G) (hW : WFG (gs0 ++ g :: gsB)) (it : VIt) (e : Entry)
    (hall : it.all = flat gs0 ++ (g.entries ++ flat gsB)) (hr : it.reverse = true) (hs : it.seek = true)
    (hc : it.cur.cur? = some e) (hk : userKeyOf? e.1 = some g.uk) (hl : it.last = some g.uk) :
    it.step = it.setCur (posEnd (flat gs0) (g.entries ++ flat gsB)) := by
  have hg : g.WF := hW.wf g (by simp)
  rw [VIt.step_rev_seek it hr hs e g.uk hc hk hl, hall, seekLT_split]
  · intro a ha
    have := hW.before ha []
    rwa [List.append_nil] at this
  · intro x hx
    obtain ⟨p, ps, hes⟩ := List.exists_cons_of_ne_nil hg.es_ne
    rw [G.entries_eq, hes] at hx
    simp only [ents_cons, List.cons_append, List.head?_cons, Option.some.injEq] at hx
    subst hx
    apply blt_asymm
    show blt g.uk (g.uk ++ invVer p.1) = true
    rw [blt_append_self]; rfl

theorem le_of_desc_head {es1 rest : List (Nat × Bytes)} {v : Nat} {es : List (Nat × Bytes)}
    (hes : es = es1 ++ rest) (hd : es.Pairwise fun p q => q.1 < p.1)
    (h2 : ∀ p, rest.head? = some p → p.1 ≤ v) : ∀ q ∈ rest, q.1 ≤ v := by
  subst hes
  have hr := (List.pairwise_append.mp hd).2.1
  cases rest with
  | nil => simp
  | cons p ps =>
    intro q hq
    have hp := h2 p rfl
    rcases List.mem_cons.mp hq with rfl | hq
    · exact hp
    · have := (List.pairwise_cons.mp hr).1 q hq; omega

/-- **reverse strategies** (linear and seek): one entry per user-key group, last group first
(`gsr` = the groups still to visit, in visiting order) -/
theorem rev_main (v : Nat) (hvm : v ≤ maxVer) : ∀ (gsr gsB : List G) (it : VIt) (f n : Nat),
    WFG (gsr.reverse ++ gsB) → it.cur = posEnd (flat gsr.reverse) (flat gsB) →
    it.all = flat gsr.reverse ++ flat gsB → it.reverse = true → it.version = v →
    (it.seek = true → it.snp = false) → (∀ g ∈ gsr, it.last ≠ some g.uk) →
    2 * (flat gsr.reverse).length + 1 ≤ f → gsr.length + 1 ≤ n →
    (it.advance f).collect n = gsr.filterMap (G.pick v) := by
  intro gsr
  induction gsr with
  | nil =>
    intro gsB it f n _ hc _ _ _ _ _ hf hn
    obtain ⟨f, rfl⟩ : ∃ f', f = f' + 1 := ⟨f - 1, by omega⟩
    obtain ⟨n, rfl⟩ : ∃ n', n = n' + 1 := ⟨n - 1, by simp at hn; omega⟩
    rw [VIt.advance_none f it (by rw [hc]; rfl)]
    rfl
  | cons g gsr ih =>
    intro gsB it f n hW hc hall hr hv hsnp hl hf hn
    have hW0 : WFG (gsr.reverse ++ g :: gsB) := by simpa using hW
    have hg : g.WF := hW0.wf g (by simp)
    have hlg : it.last ≠ some g.uk := hl g (by simp)
    have hne := (hW0.uk_ne_of_mem).1
    have hc0 : it.cur = posEnd (flat gsr.reverse ++ g.entries) (flat gsB) := by simpa using hc
    have hall0 : it.all = flat gsr.reverse ++ (g.entries ++ flat gsB) := by simpa using hall
    obtain ⟨es1, rest, hes, h1, h2, h3⟩ := split_newer v g.es
    have hmax : ∀ q ∈ g.es, q.1 ≤ maxVer := hg.le_max
    have hes1 : ∀ q ∈ es1, v < q.1 ∧ q.1 ≤ maxVer :=
      fun q hq => ⟨h1 q hq, hmax q (by rw [hes]; exact List.mem_append_left _ hq)⟩
    have hrest : ∀ q ∈ rest, q.1 ≤ v ∧ q.1 ≤ maxVer :=
      fun q hq => ⟨le_of_desc_head hes hg.desc h2 q hq, hmax q (by rw [hes]; exact List.mem_append_right _ hq)⟩
    have hent : g.entries = ents g.uk es1 ++ ents g.uk rest := by rw [G.entries_eq, hes]; simp
    have hlen : (flat (g :: gsr).reverse).length = (flat gsr.reverse).length + es1.length + rest.length := by
      simp [hent]; omega
    -- continuing with the previous groups
    have ihE : ∀ (itE : VIt) (f' n' : Nat), itE.cur = posEnd (flat gsr.reverse) (g.entries ++ flat gsB) →
        itE.all = it.all → itE.reverse = true → itE.version = v → (itE.seek = true → itE.snp = false) →
        (itE.last = it.last ∨ itE.last = some g.uk) → 2 * (flat gsr.reverse).length + 1 ≤ f' → gsr.length + 1 ≤ n' →
        (itE.advance f').collect n' = gsr.filterMap (G.pick v) := by
      intro itE f' n' h1 h2 h3 h4 h5 h6 h7 h8
      apply ih (g :: gsB) itE f' n' hW0
      · simpa using h1
      · rw [h2, hall0]; simp
      · exact h3
      · exact h4
      · exact h5
      · intro x hx
        rcases h6 with h6 | h6
        · rw [h6]; exact hl x (List.mem_cons_of_mem _ hx)
        · rw [h6]; intro h; exact hne x (List.mem_reverse.mpr hx) (by injection h with h; exact h.symm)
      · exact h7
      · exact h8
    rw [List.filterMap_cons, G.pick_of_split h3]
    cases rest with
    | nil =>
      -- the whole group is newer than v
      simp only [List.head?_nil]
      have hes' : g.es = es1 := by simpa using hes
      have hpos : 0 < es1.length := by rw [← hes']; exact List.length_pos_iff.mpr hg.es_ne
      obtain ⟨f', b, hf', hb, he⟩ := rev_skip_any v g.uk hg.uk_ne g.es (flat gsr.reverse) (flat gsB) it
        (by rw [hes']; exact hes1) hc0 hr hv (fun h => ⟨hsnp h, hlg⟩) f
        (by simp only [List.length_nil] at hlen; rw [hes']; omega)
      rw [he]
      apply ihE _ f' n
      · rfl
      · rfl
      · exact hr
      · exact hv
      · intro h; exact hb h
      · exact Or.inl rfl
      · simp only [List.length_nil] at hlen; rw [hes'] at hf'; omega
      · simp only [List.length_cons] at hn; omega
    | cons q rest2 =>
      simp only [List.head?_cons]
      obtain ⟨rest', pn, hrp⟩ := exists_snoc (q :: rest2) (by simp)
      have hq : q.1 ≤ v ∧ q.1 ≤ maxVer := hrest q (by simp)
      have hpn : pn.1 ≤ v ∧ pn.1 ≤ maxVer := hrest pn (by rw [hrp]; simp)
      have hrest' : ∀ x ∈ rest', x.1 ≤ v ∧ x.1 ≤ maxVer := fun x hx => hrest x (by rw [hrp]; simp [hx])
      have hqv : ((rest'.head?.map (·.2)).getD pn.2) = q.2 := by
        cases rest' with
        | nil => simp at hrp; rw [hrp.1]; rfl
        | cons y ys => simp at hrp; rw [hrp.1]; rfl
      simp only [List.length_cons] at hlen hn
      let en : Entry := (mkKey g.uk pn.1, pn.2)
      have hcn : it.cur = posAt ((flat gsr.reverse ++ ents g.uk es1) ++ ents g.uk rest') (en :: flat gsB) := by
        rw [hc0, hent, hrp, ← posEnd_snoc]; simp [en, List.append_assoc]
      have hcur : it.cur.cur? = some en := by rw [hcn]; rfl
      obtain ⟨f1, rfl⟩ : ∃ f1, f = f1 + 1 := ⟨f - 1, by omega⟩
      rw [VIt.advance_new f1 it en g.uk hcur (by rw [versionOf_mkKey _ hpn.2, hv]; exact hpn.1)
        (userKeyOf_mkKey _ hg.uk_ne) hlg]
      have hal : it.all.length = (flat gsr.reverse).length + (es1.length + (rest2.length + 1)) + (flat gsB).length := by
        rw [hall0, hent]; simp; omega
      cases hseek : it.seek with
      | false =>
        -- linear: walk back to the newest version ≤ v
        have hstop : ∀ a, (flat gsr.reverse ++ ents g.uk es1).getLast? = some a →
            versionOf a.1 > v ∨ userKeyOf? a.1 ≠ some g.uk := by
          intro a ha
          have hmem : a ∈ flat gsr.reverse ++ ents g.uk es1 := List.mem_of_getLast? ha
          by_cases he1 : es1 = []
          · subst he1
            simp only [ents_nil, List.append_nil] at hmem
            obtain ⟨x, hx, hax⟩ := mem_flat.mp hmem
            right
            rw [(hW0.wf x (List.mem_append_left _ hx)).userKeyOf hax]
            intro h; exact hne x hx (by injection h)
          · left
            obtain ⟨es1', p1, rfl⟩ := exists_snoc es1 he1
            have hlast : (flat gsr.reverse ++ ents g.uk (es1' ++ [p1])).getLast? = some (mkKey g.uk p1.1, p1.2) := by
              rw [ents_append, ← List.append_assoc]; exact List.getLast?_concat
            have : a = (mkKey g.uk p1.1, p1.2) := by
              rw [hlast] at ha; exact (Option.some.inj ha).symm
            have hp1 := hes1 p1 (by simp)
            rw [this, versionOf_mkKey _ hp1.2]; exact hp1.1
        rw [rev_found_lin v g.uk hg.uk_ne it _ (flat gsB) rest' pn hcn hr hseek hv hrest' hstop, hqv]
        let s : Bool := if flat gsr.reverse ++ ents g.uk es1 = [] ∧ rest' = [] then it.snp else true
        let itD : VIt := ((it.clr.setLV g.uk q.2).setCur
          (posEnd (flat gsr.reverse ++ ents g.uk es1) (ents g.uk rest' ++ en :: flat gsB))).setSnp s
        have hR : ents g.uk rest' ++ en :: flat gsB = ents g.uk (q :: rest2) ++ flat gsB := by
          rw [hrp]; simp [en]
        have hEcur : posEnd (flat gsr.reverse) (ents g.uk es1 ++ (ents g.uk rest' ++ en :: flat gsB))
            = posEnd (flat gsr.reverse) (g.entries ++ flat gsB) := by rw [hR, hent]; simp
        -- from the loop head of the decided state to the previous group
        have hloop : ∀ f, es1.length + 1 ≤ f → ∃ f' itE, f - es1.length - 1 ≤ f' ∧
            itE.cur = posEnd (flat gsr.reverse) (g.entries ++ flat gsB) ∧ itE.all = it.all ∧
            itE.reverse = true ∧ itE.version = v ∧ itE.seek = false ∧ itE.last = some g.uk ∧
            VIt.advance f itD = VIt.advance f' itE := by
          intro f hf
          obtain ⟨f', b, hf', _, he⟩ := rev_skip_any v g.uk hg.uk_ne es1 (flat gsr.reverse)
            (ents g.uk rest' ++ en :: flat gsB) itD hes1 rfl hr hv
            (fun h => by rw [show itD.seek = it.seek from rfl, hseek] at h; cases h) f hf
          exact ⟨f', (itD.setCur (posEnd (flat gsr.reverse) (ents g.uk es1 ++ (ents g.uk rest' ++ en :: flat gsB)))).setSnp b,
            hf', hEcur, rfl, hr, hv, hseek, rfl, he⟩
        have hdead : ∀ f, es1.length + 1 ≤ f → ∃ f' itE, f - es1.length - 1 ≤ f' ∧
            itE.cur = posEnd (flat gsr.reverse) (g.entries ++ flat gsB) ∧ itE.all = it.all ∧
            itE.reverse = true ∧ itE.version = v ∧ itE.seek = false ∧ itE.last = some g.uk ∧
            VIt.advance f itD.step = VIt.advance f' itE := by
          intro f hf
          by_cases hs' : s = true
          · have hstep : itD.step = itD.setSnp false := VIt.step_rev_clear itD hr hseek hs'
            obtain ⟨f', b, hf', _, he⟩ := rev_skip_any v g.uk hg.uk_ne es1 (flat gsr.reverse)
              (ents g.uk rest' ++ en :: flat gsB) (itD.setSnp false) hes1 rfl hr hv
              (fun h => by rw [show (itD.setSnp false).seek = it.seek from rfl, hseek] at h; cases h) f hf
            exact ⟨f', ((itD.setSnp false).setCur (posEnd (flat gsr.reverse) (ents g.uk es1 ++ (ents g.uk rest' ++ en :: flat gsB)))).setSnp b,
              hf', hEcur, rfl, hr, hv, hseek, rfl, by rw [hstep]; exact he⟩
          · -- nothing before the group: the cursor is exhausted
            have hemp : flat gsr.reverse ++ ents g.uk es1 = [] ∧ rest' = [] := by
              by_cases h : flat gsr.reverse ++ ents g.uk es1 = [] ∧ rest' = []
              · exact h
              · exact absurd (if_neg h) hs'
            have hA0 : flat gsr.reverse = [] := (List.append_eq_nil_iff.mp hemp.1).1
            have he10 : es1 = [] := by
              have := (List.append_eq_nil_iff.mp hemp.1).2
              cases es1 with
              | nil => rfl
              | cons _ _ => simp at this
            have hcurD : itD.cur = posEnd (flat gsr.reverse) (g.entries ++ flat gsB) := by
              rw [← hEcur]; show posEnd _ _ = _; rw [hA0, he10]; simp
            have hbof : itD.cur.prev = itD.cur := by rw [hcurD, hA0]; rfl
            refine ⟨f, itD.step, by omega, ?_, ?_, ?_, ?_, ?_, ?_, rfl⟩
            all_goals
              cases hsn : itD.snp with
              | true => rw [VIt.step_rev_clear itD hr hseek hsn]; first | exact hcurD | rfl | exact hr | exact hv | exact hseek
              | false =>
                rw [VIt.step_rev_normal itD hr hsn (Or.inl hseek), hbof, VIt.setCur_self _ _ rfl]
                first | exact hcurD | rfl | exact hr | exact hv | exact hseek
        show (if (parseVal itD.vbuf).1 = deadTomb then VIt.advance f1 itD.step
          else { itD with key := g.uk, value := (parseVal itD.vbuf).2, isValid := true }).collect n = _
        have hvb : itD.vbuf = q.2 := rfl
        rw [hvb]
        by_cases hd : (parseVal q.2).1 = deadTomb
        · rw [if_pos hd]; simp only [hd, if_true]
          obtain ⟨f', itE, hf', e1, e2, e3, e4, e5, e6, he⟩ := hdead f1 (by omega)
          rw [he]
          exact ihE itE f' n e1 e2 e3 e4 (fun h => by rw [e5] at h; cases h) (Or.inr e6) (by omega) (by omega)
        · rw [if_neg hd]; simp only [hd, if_false]
          obtain ⟨n', rfl⟩ : ∃ n', n = n' + 1 := ⟨n - 1, by omega⟩
          rw [VIt.collect_succ]
          simp only [if_true]
          congr 1
          let it3 : VIt := { itD with key := g.uk, value := (parseVal q.2).2, isValid := true }
          have h3 : VIt.advance (iterFuel it3.all) it3 = VIt.advance (iterFuel it3.all) itD := by
            rw [← VIt.advance_clr _ it3]; rfl
          have hF : iterFuel it3.all = 2 * it.all.length + 4 := rfl
          show (VIt.advance (iterFuel it3.all) it3).collect n' = _
          rw [h3, hF]
          obtain ⟨f', itE, hf', e1, e2, e3, e4, e5, e6, he⟩ := hloop (2 * it.all.length + 4) (by omega)
          rw [he]
          exact ihE itE f' n' e1 e2 e3 e4 (fun h => by rw [e5] at h; cases h) (Or.inr e6) (by omega) (by omega)
      | true =>
        -- seek: `SeekGE(userKey ++ ^v)` lands on the newest version ≤ v
        have hall1 : it.all = (flat gsr.reverse ++ ents g.uk es1) ++ (ents g.uk (q :: rest2) ++ flat gsB) := by
          rw [hall0, hent]; simp
        have hA : ∀ a ∈ flat gsr.reverse ++ ents g.uk es1, blt a.1 (mkKey g.uk v) = true := by
          intro a ha
          rcases List.mem_append.mp ha with ha | ha
          · exact hW0.before ha _
          · obtain ⟨p, hp, rfl⟩ := List.mem_map.mp ha
            have := hes1 p hp
            rw [blt_mkKey_same g.uk this.2 hvm]; simp; exact this.1
        rw [rev_found_seek v g.uk hg.uk_ne it _ (flat gsB) q rest2 en hall1 hr hseek hv hA hq hvm]
        let itD : VIt := (it.clr.setLV g.uk q.2).setCur
          (posAt (flat gsr.reverse ++ ents g.uk es1) (ents g.uk (q :: rest2) ++ flat gsB))
        have hcurD : itD.cur.cur? = some (mkKey g.uk q.1, q.2) := rfl
        have hstep : itD.step = itD.setCur (posEnd (flat gsr.reverse) (g.entries ++ flat gsB)) :=
          rev_seek_jump g gsr.reverse gsB hW0 itD _ (by show it.all = _; exact hall0) hr hseek hcurD
            (userKeyOf_mkKey _ hg.uk_ne) rfl
        have hsnpD : itD.snp = false := hsnp hseek
        show (if (parseVal itD.vbuf).1 = deadTomb then VIt.advance f1 itD.step
          else { itD with key := g.uk, value := (parseVal itD.vbuf).2, isValid := true }).collect n = _
        have hvb : itD.vbuf = q.2 := rfl
        rw [hvb]
        by_cases hd : (parseVal q.2).1 = deadTomb
        · rw [if_pos hd]; simp only [hd, if_true]
          rw [hstep]
          exact ihE _ f1 n rfl rfl hr hv (fun _ => hsnpD) (Or.inr rfl) (by omega) (by omega)
        · rw [if_neg hd]; simp only [hd, if_false]
          obtain ⟨n', rfl⟩ : ∃ n', n = n' + 1 := ⟨n - 1, by omega⟩
          rw [VIt.collect_succ]
          simp only [if_true]
          congr 1
          let it3 : VIt := { itD with key := g.uk, value := (parseVal q.2).2, isValid := true }
          have h3 : VIt.advance (iterFuel it3.all) it3 = VIt.advance (iterFuel it3.all) itD := by
            rw [← VIt.advance_clr _ it3]; rfl
          have hF : iterFuel it3.all = (2 * it.all.length + 3) + 1 := rfl
          show (VIt.advance (iterFuel it3.all) it3).collect n' = _
          rw [h3, hF, VIt.advance_skip _ itD _ hcurD
            (Or.inr (Or.inr (by show some g.uk = _; rw [userKeyOf_mkKey _ hg.uk_ne]))), hstep]
          exact ihE _ _ n' rfl rfl hr hv (fun _ => hsnpD) (Or.inr rfl) (by omega) (by omega)

end Canopy.Store

namespace Canopy.Store
open Canopy

/-! ## iterator bounds select whole groups -/

theorem flat_filter_groups (gs : List G) (c : G → Bool) (p : Entry → Bool)
    (h : ∀ g ∈ gs, ∀ e ∈ g.entries, p e = c g) : (flat gs).filter p = flat (gs.filter c) := by
  induction gs with
  | nil => rfl
  | cons g gs ih =>
    have ih' := ih (fun x hx => h x (List.mem_cons_of_mem _ hx))
    have hg := h g List.mem_cons_self
    rw [flat_cons, List.filter_append, ih', List.filter_cons]
    cases hc : c g with
    | true =>
      have : g.entries.filter p = g.entries := List.filter_eq_self.mpr (fun e he => by rw [hg e he, hc])
      simp [this]
    | false =>
      have : g.entries.filter p = [] := List.filter_eq_nil_iff.mpr (fun e he => by rw [hg e he, hc]; simp)
      simp [this]

/-- `QueryOK`: no stored user key is a *proper* byte-prefix of the iteration prefix -/
def QueryOK (gs : List G) (pfx : Bytes) : Prop := ∀ g ∈ gs, g.uk <+: pfx → g.uk = pfx

theorem bound_groups (gs : List G) (hW : WFG gs) (pfx : Bytes) (hq : QueryOK gs pfx) :
    bound (flat gs) pfx (prefixEnd pfx) = flat (gs.filter fun g => hasPrefix pfx g.uk) := by
  unfold bound
  apply flat_filter_groups
  intro g hg e he
  have hgw := hW.wf g hg
  obtain ⟨p, _, rfl⟩ := mem_entries.mp he
  show (ble pfx (mkKey g.uk p.1) && blt (mkKey g.uk p.1) (prefixEnd pfx)) = hasPrefix pfx g.uk
  cases hp : hasPrefix pfx g.uk with
  | true =>
    obtain ⟨r, hr⟩ := hasPrefix_iff.mp hp
    have h1 : ble pfx (mkKey g.uk p.1) = true := ble_of_prefix ⟨r ++ invVer p.1, by rw [← List.append_assoc, hr]; rfl⟩
    have h2 : blt (mkKey g.uk p.1) (prefixEnd pfx) = true := by
      have : mkKey g.uk p.1 = pfx ++ (r ++ invVer p.1) := by rw [← List.append_assoc, hr]; rfl
      rw [this]
      apply blt_prefixEnd
      have hl := hgw.uk_len
      rw [← hr] at hl
      simp [invVer_length] at hl ⊢; omega
    rw [h1, h2]; rfl
  | false =>
    cases h1 : ble pfx (mkKey g.uk p.1) with
    | false => rfl
    | true =>
      cases h2 : blt (mkKey g.uk p.1) (prefixEnd pfx) with
      | false => rfl
      | true =>
        exfalso
        have hpre : pfx <+: g.uk ++ invVer p.1 := prefix_of_range h1 h2
        have huk : g.uk <+: g.uk ++ invVer p.1 := List.prefix_append _ _
        rcases List.prefix_or_prefix_of_prefix hpre huk with h | h
        · rw [hasPrefix_iff.mpr h] at hp; cases hp
        · have := hq g hg h
          rw [this, hasPrefix_iff.mpr (List.prefix_refl _)] at hp; cases hp

theorem WFG.filter {gs : List G} (h : WFG gs) (c : G → Bool) : WFG (gs.filter c) :=
  ⟨fun g hg => h.wf g (List.mem_filter.mp hg).1, h.order.filter c⟩

theorem length_le_flat {gs : List G} (h : WFG gs) : gs.length ≤ (flat gs).length := by
  induction gs with
  | nil => simp
  | cons g gs ih =>
    have := flat_length_pos (h.wf g List.mem_cons_self)
    have := ih h.tail
    simp; omega

/-- **the `VersionedIterator`, all four strategies**: over any bounded range that consists of whole
groups it yields exactly one entry per group — the newest version ≤ the read version, unless it is a
tombstone — in ascending (forward) or descending (reverse) group order. -/
theorem VS.iter_groups (db : DB) (v : Nat) (hvm : v ≤ maxVer) (pfx : Bytes) (reverse seek : Bool)
    (gs : List G) (hW : WFG gs) (hb : bound db pfx (prefixEnd pfx) = flat gs) :
    (VS.mk db v).iter pfx reverse seek =
      if reverse then gs.reverse.filterMap (G.pick v) else gs.filterMap (G.pick v) := by
  have hlen := length_le_flat hW
  have hbl : ∀ e ∈ flat gs, ble pfx e.1 = true ∧ blt e.1 (prefixEnd pfx) = true := by
    intro e he
    rw [← hb] at he
    have := (List.mem_filter.mp he).2
    simpa using this
  unfold VS.iter VS.newIter
  simp only [hb]
  cases reverse with
  | false =>
    have hseek : PCur.seekGE (flat gs) pfx = posAt [] (flat gs) := by
      have := seekGE_split [] (flat gs) pfx (by simp) (fun x hx => by
        have := (hbl x (List.mem_of_mem_head? hx)).1
        exact not_blt_iff_ble.mpr this)
      simpa using this
    simp only [Bool.false_eq_true, if_false, hseek]
    cases hgs : gs with
    | nil => subst hgs; rfl
    | cons g gs' =>
      have hpos : 0 < (flat gs).length := by
        rw [hgs, flat_cons]; have := flat_length_pos (hW.wf g (by rw [hgs]; simp)); simp; omega
      have hvalid : (posAt [] (flat gs)).valid = true := by
        unfold posAt PCur.valid
        cases hf : flat gs with
        | nil => rw [hf] at hpos; simp at hpos
        | cons _ _ => rfl
      rw [← hgs]
      simp only [hvalid, if_true]
      exact fwd_main v gs [] _ _ _ (by simpa using hW) rfl rfl rfl rfl (fun _ _ => by simp)
        (by simp only [iterFuel]; omega) (by omega)
  | true =>
    have hseek : PCur.seekLT (flat gs) (prefixEnd pfx) = posEnd (flat gs) [] := by
      have := seekLT_split (flat gs) [] (prefixEnd pfx) (fun a ha => (hbl a ha).2) (by simp)
      simpa using this
    simp only [if_true, hseek]
    cases hgs : gs with
    | nil => subst hgs; rfl
    | cons g gs' =>
      have hpos : 0 < (flat gs).length := by
        rw [hgs, flat_cons]; have := flat_length_pos (hW.wf g (by rw [hgs]; simp)); simp; omega
      have hvalid : (posEnd (flat gs) []).valid = true := by
        unfold posEnd PCur.valid
        cases hf : (flat gs).reverse with
        | nil =>
          have : flat gs = [] := by simpa using hf
          rw [this] at hpos; simp at hpos
        | cons _ _ => rfl
      rw [← hgs]
      simp only [hvalid, if_true]
      have := rev_main v hvm gs.reverse []
        { all := flat gs, cur := posEnd (flat gs) [], version := v, reverse := true, seek := seek }
        (iterFuel (flat gs)) ((flat gs).length + 1)
        (by simpa using hW) (by simp) (by simp) rfl rfl (fun _ => rfl) (fun _ _ => by simp)
        (by simp only [iterFuel, List.reverse_reverse]; omega) (by simp; omega)
      exact this

end Canopy.Store

namespace Canopy.Store
open Canopy

/-! ## point reads -/

theorem filter_key_eq_find {gs : List G} (hW : WFG gs) (uk : Bytes) :
    gs.filter (fun g => decide (g.uk = uk)) = (gs.find? fun g => decide (g.uk = uk)).toList := by
  induction gs with
  | nil => rfl
  | cons g gs ih =>
    by_cases h : g.uk = uk
    · have hnone : gs.filter (fun g => decide (g.uk = uk)) = [] := by
        apply List.filter_eq_nil_iff.mpr
        intro x hx
        have := (List.pairwise_cons.mp hW.order).1 x hx
        simp only [decide_eq_true_eq]
        intro hxu
        rw [h, hxu, blt_irrefl] at this
        simp at this
      simp [h, hnone]
    · simp [h, ih hW.tail]

/-- **`VersionedStore.getRaw`**: the newest version ≤ the read version of exactly this user key,
provided the queried key is not a proper prefix/extension of a stored user key -/
theorem VS.getRaw_groups (gs : List G) (hW : WFG gs) (v : Nat) (hvm : v ≤ maxVer) (uk : Bytes)
    (hcompat : ∀ g ∈ gs, (g.uk <+: uk ∨ uk <+: g.uk) → g.uk = uk) :
    (VS.mk (flat gs) v).getRaw uk =
      match gs.find? (fun g => decide (g.uk = uk)) with
      | none => none
      | some g => (g.es.find? fun p => decide (p.1 ≤ v)).map fun p => parseVal p.2 := by
  have hq : QueryOK gs uk := fun g hg h => hcompat g hg (Or.inl h)
  have hfil : (gs.filter fun g => hasPrefix uk g.uk) = gs.filter (fun g => decide (g.uk = uk)) := by
    apply List.filter_congr
    intro g hg
    cases hp : hasPrefix uk g.uk with
    | true =>
      have := hcompat g hg (Or.inr (hasPrefix_iff.mp hp))
      simp [this]
    | false =>
      have : g.uk ≠ uk := by
        intro h; rw [h, hasPrefix_iff.mpr (List.prefix_refl _)] at hp; cases hp
      simp [this]
  unfold VS.getRaw
  simp only [bound_groups gs hW uk hq, hfil, filter_key_eq_find hW]
  cases hf : gs.find? (fun g => decide (g.uk = uk)) with
  | none => rfl
  | some g =>
    have hg : g ∈ gs := List.mem_of_find?_eq_some hf
    have hgu : g.uk = uk := by simpa using List.find?_some hf
    have hgw := hW.wf g hg
    obtain ⟨es1, rest, hes, h1, h2, h3⟩ := split_newer v g.es
    have hseek : PCur.seekGE (flat [g]) (mkKey uk v) = posAt (ents uk es1) (ents uk rest) := by
      have : flat [g] = ents uk es1 ++ ents uk rest := by simp [G.entries_eq, hes, hgu]
      rw [this]
      apply seekGE_split
      · intro a ha
        obtain ⟨p, hp, rfl⟩ := List.mem_map.mp ha
        rw [blt_mkKey_same uk (hgw.le_max p (by rw [hes]; exact List.mem_append_left _ hp)) hvm]
        simp; exact h1 p hp
      · intro x hx
        cases rest with
        | nil => simp at hx
        | cons q rest2 =>
          simp only [ents_cons, List.head?_cons, Option.some.injEq] at hx
          subst hx
          rw [blt_mkKey_same uk (hgw.le_max q (by rw [hes]; simp)) hvm]
          have := h2 q rfl
          simp; omega
    simp only [Option.toList_some, hseek, h3]
    cases rest with
    | nil => rfl
    | cons q rest2 =>
      have hqm := hgw.le_max q (by rw [hes]; simp)
      have hqv := h2 q rfl
      simp only [posAt, ents_cons, PCur.cur?, Bool.false_eq_true, if_false, List.head?_cons, Option.map_some]
      rw [userKeyOf_mkKey _ (hgu ▸ hgw.uk_ne)]
      simp only [ne_eq, not_true_eq_false, if_false, versionOf_mkKey _ hqm]
      rw [if_neg (by omega)]

end Canopy.Store
