import Canopy.Proof.StoreTxn
/-! The spec side of C10: the simple versioned map, its reads, commits and rollbacks. -/
namespace Canopy.Store
open Canopy

/-! ## `readAt`: the write with the greatest version ≤ v -/

theorem newestLE_some {v : Nat} {l : List (Nat × Option Bytes)} {w : Nat} {y : Option Bytes}
    (h : newestLE v l = some (w, y)) :
    (w, y) ∈ l ∧ w ≤ v ∧ ∀ q ∈ l, q.1 ≤ v → q.1 ≤ w := by
  induction l generalizing w y with
  | nil => cases h
  | cons a l ih =>
    obtain ⟨w0, y0⟩ := a
    unfold newestLE at h
    cases hr : newestLE v l with
    | none =>
      rw [hr] at h
      have hnone : ∀ q ∈ l, ¬ q.1 ≤ v := by
        clear h ih
        induction l with
        | nil => simp
        | cons b l ih2 =>
          obtain ⟨w1, y1⟩ := b
          unfold newestLE at hr
          cases hr2 : newestLE v l with
          | none =>
            rw [hr2] at hr
            by_cases hb : w1 ≤ v
            · simp [hb] at hr
            · intro q hq
              rcases List.mem_cons.mp hq with rfl | hq
              · exact hb
              · exact ih2 hr2 q hq
          | some p =>
            rw [hr2] at hr
            obtain ⟨w2, y2⟩ := p
            simp only at hr
            split at hr <;> cases hr
      by_cases h0 : w0 ≤ v
      · simp only [h0, if_true, Option.some.injEq, Prod.mk.injEq] at h
        obtain ⟨rfl, rfl⟩ := h
        refine ⟨List.mem_cons_self, h0, ?_⟩
        intro q hq hqv
        rcases List.mem_cons.mp hq with rfl | hq
        · exact Nat.le_refl _
        · exact absurd hqv (hnone q hq)
      · simp [h0] at h
    | some p =>
      obtain ⟨w1, y1⟩ := p
      rw [hr] at h
      obtain ⟨hm, hv, hmax⟩ := ih hr
      simp only at h
      by_cases hc : (decide (w0 ≤ v) && decide (w1 < w0)) = true
      · rw [if_pos hc] at h
        simp only [Option.some.injEq, Prod.mk.injEq] at h
        obtain ⟨rfl, rfl⟩ := h
        simp only [Bool.and_eq_true, decide_eq_true_eq] at hc
        refine ⟨List.mem_cons_self, hc.1, ?_⟩
        intro q hq hqv
        rcases List.mem_cons.mp hq with rfl | hq
        · exact Nat.le_refl _
        · have := hmax q hq hqv; omega
      · rw [if_neg hc] at h
        simp only [Option.some.injEq, Prod.mk.injEq] at h
        obtain ⟨rfl, rfl⟩ := h
        refine ⟨List.mem_cons_of_mem _ hm, hv, ?_⟩
        intro q hq hqv
        rcases List.mem_cons.mp hq with rfl | hq
        · simp only [Bool.and_eq_true, decide_eq_true_eq, not_and] at hc
          have := hc hqv; simp at this ⊢; omega
        · exact hmax q hq hqv

theorem newestLE_none {v : Nat} {l : List (Nat × Option Bytes)} (h : newestLE v l = none) :
    ∀ q ∈ l, ¬ q.1 ≤ v := by
  induction l with
  | nil => simp
  | cons b l ih =>
    obtain ⟨w1, y1⟩ := b
    unfold newestLE at h
    cases hr : newestLE v l with
    | none =>
      rw [hr] at h
      by_cases hb : w1 ≤ v
      · simp [hb] at h
      · intro q hq
        rcases List.mem_cons.mp hq with rfl | hq
        · exact hb
        · exact ih hr q hq
    | some p =>
      rw [hr] at h
      obtain ⟨w2, y2⟩ := p
      simp only at h
      split at h <;> cases h

theorem mem_hist {m : VMap} {k : Bytes} {w : Nat} {y : Option Bytes} : (w, y) ∈ hist m k ↔ (k, w, y) ∈ m := by
  unfold hist
  rw [List.mem_filterMap]
  constructor
  · rintro ⟨⟨k', w', y'⟩, hm, he⟩
    by_cases hk : k' = k
    · simp only [hk, if_true, Option.some.injEq, Prod.mk.injEq] at he
      rw [← he.1, ← he.2, ← hk]; exact hm
    · simp [hk] at he
  · intro h; exact ⟨(k, w, y), h, by simp⟩

/-- at most one committed write per key and version -/
def Uniq (m : VMap) : Prop := ∀ k w y y', (k, w, y) ∈ m → (k, w, y') ∈ m → y = y'

/-- **`readAt` is the newest write at or below `v`** -/
theorem readAt_iff {m : VMap} (hu : Uniq m) (v : Nat) (k x : Bytes) :
    readAt m v k = some x ↔
      ∃ w, (k, w, some x) ∈ m ∧ w ≤ v ∧ ∀ w' y, (k, w', y) ∈ m → w' ≤ v → w' ≤ w := by
  unfold readAt
  cases hr : newestLE v (hist m k) with
  | none =>
    simp only
    constructor
    · intro h; cases h
    · rintro ⟨w, hm, hw, _⟩
      exact absurd hw (newestLE_none hr (w, some x) (mem_hist.mpr hm))
  | some p =>
    obtain ⟨w, y⟩ := p
    obtain ⟨hm, hv, hmax⟩ := newestLE_some hr
    simp only
    constructor
    · intro h
      subst h
      exact ⟨w, mem_hist.mp hm, hv, fun w' y' hm' hw' => hmax (w', y') (mem_hist.mpr hm') hw'⟩
    · rintro ⟨w2, hm2, hw2, hmax2⟩
      have h1 := hmax (w2, some x) (mem_hist.mpr hm2) hw2
      have h2 := hmax2 w y (mem_hist.mp hm) hv
      have : w = w2 := Nat.le_antisymm h2 h1
      subst this
      exact hu k w y (some x) (mem_hist.mp hm) hm2

theorem readAt_none_of_no_key {m : VMap} {v : Nat} {k : Bytes} (h : ∀ w y, (k, w, y) ∉ m) : readAt m v k = none := by
  unfold readAt
  cases hr : newestLE v (hist m k) with
  | none => rfl
  | some p =>
    obtain ⟨w, y⟩ := p
    exact absurd (mem_hist.mp (newestLE_some hr).1) (h w y)

/-! ## commit and rollback on the spec -/

/-- committing the pending operations `ov` as version `next` -/
def VMap.commit (m : VMap) (ov : Overlay) (next : Nat) : VMap := m ++ ov.map fun e => (e.1, next, e.2.read)

/-- rolling back to version `t` forgets every later write -/
def VMap.rollback (m : VMap) (t : Nat) : VMap := m.filter fun e => decide (e.2.1 ≤ t)

/-- every committed version lies in `[1, ver]` -/
def VersBound (m : VMap) (ver : Nat) : Prop := ∀ e ∈ m, 1 ≤ e.2.1 ∧ e.2.1 ≤ ver

theorem mem_commit {m : VMap} {ov : Overlay} {next : Nat} {k : Bytes} {w : Nat} {y : Option Bytes} :
    (k, w, y) ∈ m.commit ov next ↔ ((k, w, y) ∈ m ∨ (w = next ∧ ∃ op, (k, op) ∈ ov ∧ y = op.read)) := by
  unfold VMap.commit
  rw [List.mem_append, List.mem_map]
  constructor
  · rintro (h | ⟨e, he, heq⟩)
    · exact Or.inl h
    · simp only [Prod.mk.injEq] at heq
      exact Or.inr ⟨heq.2.1.symm, e.2, by rw [← heq.1]; exact he, heq.2.2.symm⟩
  · rintro (h | ⟨rfl, op, hop, rfl⟩)
    · exact Or.inl h
    · exact Or.inr ⟨(k, op), hop, rfl⟩

theorem uniq_commit {m : VMap} {ov : Overlay} {ver : Nat} (hu : Uniq m) (hb : VersBound m ver) (hs : SSorted ov) :
    Uniq (m.commit ov (ver + 1)) := by
  intro k w y y' h1 h2
  rcases mem_commit.mp h1 with h1 | ⟨rfl, op1, ho1, rfl⟩ <;> rcases mem_commit.mp h2 with h2 | ⟨hw2, op2, ho2, rfl⟩
  · exact hu k w y y' h1 h2
  · have := (hb _ h1).2; simp at this; omega
  · have := (hb _ h2).2; simp at this; omega
  · have e1 := (smGet_eq_some_iff hs k op1).mpr ho1
    have e2 := (smGet_eq_some_iff hs k op2).mpr ho2
    rw [e1] at e2; injection e2 with e2; rw [e2]

theorem versBound_commit {m : VMap} {ov : Overlay} {ver : Nat} (hb : VersBound m ver) :
    VersBound (m.commit ov (ver + 1)) (ver + 1) := by
  intro e he
  obtain ⟨k, w, y⟩ := e
  rcases mem_commit.mp he with h | ⟨rfl, _⟩
  · have := hb _ h; simp at this ⊢; omega
  · simp

/-- a later commit does not change what a reader at `v ≤ ver` sees -/
theorem readAt_commit_old {m : VMap} {ov : Overlay} {ver : Nat} (hu : Uniq m) (hb : VersBound m ver) (hs : SSorted ov)
    {v : Nat} (hv : v ≤ ver) (k : Bytes) : readAt (m.commit ov (ver + 1)) v k = readAt m v k := by
  have hu' := uniq_commit hu hb hs
  apply Option.ext
  intro x
  rw [readAt_iff hu', readAt_iff hu]
  constructor
  · rintro ⟨w, hm, hw, hmax⟩
    rcases mem_commit.mp hm with hm' | ⟨rfl, _⟩
    · exact ⟨w, hm', hw, fun w' y h' => hmax w' y (mem_commit.mpr (Or.inl h'))⟩
    · omega
  · rintro ⟨w, hm, hw, hmax⟩
    refine ⟨w, mem_commit.mpr (Or.inl hm), hw, ?_⟩
    intro w' y h' hw'
    rcases mem_commit.mp h' with h' | ⟨rfl, _⟩
    · exact hmax w' y h' hw'
    · omega

/-- the view at the new version: the pending operations applied to the previous latest view -/
theorem readAt_commit_new {m : VMap} {ov : Overlay} {ver : Nat} (hu : Uniq m) (hb : VersBound m ver) (hs : SSorted ov)
    (k : Bytes) : readAt (m.commit ov (ver + 1)) (ver + 1) k = applyOv ov (readAt m ver) k := by
  have hu' := uniq_commit hu hb hs
  unfold applyOv
  cases hg : smGet ov k with
  | some op =>
    apply Option.ext
    intro x
    rw [readAt_iff hu']
    have hop := (smGet_eq_some_iff hs k op).mp hg
    constructor
    · rintro ⟨w, hm, hw, hmax⟩
      have : w = ver + 1 := by
        have := hmax (ver + 1) op.read (mem_commit.mpr (Or.inr ⟨rfl, op, hop, rfl⟩)) (Nat.le_refl _)
        omega
      subst this
      rcases mem_commit.mp hm with hm' | ⟨_, op2, ho2, hy⟩
      · have := (hb _ hm').2; simp at this; omega
      · have e2 := (smGet_eq_some_iff hs k op2).mpr ho2
        rw [hg] at e2; injection e2 with e2; rw [e2]; exact hy.symm
    · intro hx
      exact ⟨ver + 1, mem_commit.mpr (Or.inr ⟨rfl, op, hop, hx.symm⟩), Nat.le_refl _, fun w' y h' hw' => hw'⟩
  | none =>
    have hno : ∀ op, (k, op) ∉ ov := fun op h => by
      rw [(smGet_eq_some_iff hs k op).mpr h] at hg; cases hg
    apply Option.ext
    intro x
    rw [readAt_iff hu', readAt_iff hu]
    constructor
    · rintro ⟨w, hm, hw, hmax⟩
      rcases mem_commit.mp hm with hm' | ⟨_, op, hop, _⟩
      · exact ⟨w, hm', (hb _ hm').2, fun w' y h' _ => hmax w' y (mem_commit.mpr (Or.inl h')) (by have := (hb _ h').2; simp at this; omega)⟩
      · exact absurd hop (hno op)
    · rintro ⟨w, hm, hw, hmax⟩
      refine ⟨w, mem_commit.mpr (Or.inl hm), by omega, ?_⟩
      intro w' y h' _
      rcases mem_commit.mp h' with h' | ⟨_, op, hop, _⟩
      · exact hmax w' y h' (by have := (hb _ h').2; simp at this; omega)
      · exact absurd hop (hno op)

theorem mem_rollback {m : VMap} {t : Nat} {e : Bytes × Nat × Option Bytes} :
    e ∈ m.rollback t ↔ (e ∈ m ∧ e.2.1 ≤ t) := by
  unfold VMap.rollback; rw [List.mem_filter]; simp

/-- a rollback to `t ≥ v` does not change what a reader at `v` sees -/
theorem readAt_rollback {m : VMap} (hu : Uniq m) {t v : Nat} (hv : v ≤ t) (k : Bytes) :
    readAt (m.rollback t) v k = readAt m v k := by
  have hu' : Uniq (m.rollback t) := fun k w y y' h1 h2 => hu k w y y' (mem_rollback.mp h1).1 (mem_rollback.mp h2).1
  apply Option.ext
  intro x
  rw [readAt_iff hu', readAt_iff hu]
  constructor
  · rintro ⟨w, hm, hw, hmax⟩
    exact ⟨w, (mem_rollback.mp hm).1, hw, fun w' y h' hw' => hmax w' y (mem_rollback.mpr ⟨h', by simp; omega⟩) hw'⟩
  · rintro ⟨w, hm, hw, hmax⟩
    exact ⟨w, mem_rollback.mpr ⟨hm, by simp; omega⟩, hw, fun w' y h' hw' => hmax w' y (mem_rollback.mp h').1 hw'⟩

/-- after a rollback to `t`, a reader at ANY version sees the map as of `min v t`: nothing of the versions
above `t` is left for a reader at `v > t` to find -/
theorem readAt_rollback_any {m : VMap} (hu : Uniq m) (t v : Nat) (k : Bytes) :
    readAt (m.rollback t) v k = readAt m (min v t) k := by
  by_cases hv : v ≤ t
  · rw [Nat.min_eq_left hv]; exact readAt_rollback hu hv k
  · have hu' : Uniq (m.rollback t) := fun k w y y' h1 h2 => hu k w y y' (mem_rollback.mp h1).1 (mem_rollback.mp h2).1
    rw [Nat.min_eq_right (by omega), ← readAt_rollback hu (Nat.le_refl t) k]
    apply Option.ext
    intro x
    rw [readAt_iff hu', readAt_iff hu']
    constructor
    · rintro ⟨w, hm, _, hmax⟩
      have hwt : w ≤ t := (mem_rollback.mp hm).2
      exact ⟨w, hm, hwt, fun w' y h' _ => hmax w' y h' (by have := (mem_rollback.mp h').2; simp at this; omega)⟩
    · rintro ⟨w, hm, hw, hmax⟩
      exact ⟨w, hm, by omega, fun w' y h' _ => hmax w' y h' (mem_rollback.mp h').2⟩

end Canopy.Store
