import Canopy.Proof.LedgerC04b
/-! C04: reward distribution at end of block. The committee pool is paid out to the recipients recorded by the
certificate results and the undistributed remainder is burned (`SubFromTotalSupply`). The code computes the
remainder with an unguarded subtraction; it is exact because the recorded percents never exceed
`100 × numberOfSamples` (`PercentsOK`, established by `handleCertificateResults` from the per-certificate limit). -/
namespace Canopy.Ledger
open AMap

set_option linter.unusedSimpArgs false
set_option linter.unusedVariables false

theorem div_add_div_le' (a b d : Nat) : a / d + b / d ≤ (a + b) / d := by
  by_cases hd : d = 0
  · subst hd; simp
  · have hd' : 0 < d := Nat.pos_of_ne_zero hd
    rw [Nat.le_div_iff_mul_le hd']
    have h1 := Nat.div_mul_le_self a d
    have h2 := Nat.div_mul_le_self b d
    rw [Nat.add_mul]; omega

def percentSum (ps : List (Addr × Nat)) : Nat := (ps.map (·.2)).sum

/-- the full reward of a stub, before truncation to 64 bits -/
def fullOf (p pool samples : Nat) : Nat := if samples ≠ 0 then p * pool / (samples * 100) else 0

def fullSum (ps : List (Addr × Nat)) (pool samples : Nat) : Nat := (ps.map fun e => fullOf e.2 pool samples).sum

theorem fullSum_le (ps : List (Addr × Nat)) (pool samples : Nat) :
    fullSum ps pool samples ≤ fullOf (percentSum ps) pool samples := by
  by_cases hs : samples = 0
  · have : ∀ qs : List (Addr × Nat), fullSum qs pool samples = 0 := by
      intro qs
      induction qs with
      | nil => rfl
      | cons e t ih => simp only [fullSum, List.map_cons, List.sum_cons] at ih ⊢; rw [ih]; simp [fullOf, hs]
    rw [this]; exact Nat.zero_le _
  · induction ps with
    | nil => simp [fullSum, percentSum]
    | cons e t ih =>
      simp only [fullSum, percentSum, List.map_cons, List.sum_cons] at ih ⊢
      unfold fullOf at ih ⊢
      simp only [ne_eq, hs, not_false_eq_true, if_true] at ih ⊢
      have := div_add_div_le' (e.2 * pool) ((t.map (·.2)).sum * pool) (samples * 100)
      rw [← Nat.add_mul] at this
      omega

theorem fullOf_le_pool {S pool samples : Nat} (h : S ≤ 100 * samples) : fullOf S pool samples ≤ pool := by
  unfold fullOf
  split
  · apply Nat.div_le_of_le_mul
    calc S * pool ≤ (100 * samples) * pool := Nat.mul_le_mul_right pool h
      _ = samples * 100 * pool := by rw [Nat.mul_comm 100 samples]
  · omega

theorem rewardAmounts_le (L : Ledger) (p pool samples : Nat) :
    (rewardAmounts L p pool samples).1 ≤ fullOf p pool samples ∧ (rewardAmounts L p pool samples).2 ≤ (rewardAmounts L p pool samples).1 := by
  unfold rewardAmounts fullOf
  dsimp only
  refine ⟨?_, ?_⟩
  · split
    · exact Nat.mod_le _ _
    · omega
  · generalize (if samples ≠ 0 then p * pool / (samples * 100) % U64 else 0) = full
    split
    · omega
    · split
      · omega
      · exact safeMulDiv_le _ _ (by omega)

/-- one reward: the real sum grows by what was distributed, which is at most the stub's full reward; pools,
the recorded total and the committee data are untouched -/
theorem distributeReward_ok {L L1 : Ledger} {a : Addr} {p pool samples d : Nat}
    (hw : ∀ val, valGet? L a = some val → val.stake + fullOf p pool samples < U64)
    (h : distributeReward L a p pool samples = .ok (d, L1)) :
    d ≤ fullOf p pool samples ∧ L1.supply.total = L.supply.total ∧ L1.pools = L.pools ∧ bal L1 = bal L + d ∧
    L1.committeesData = L.committeesData := by
  have hr := rewardAmounts_le L p pool samples
  unfold distributeReward at h
  dsimp only at h
  split at h
  · split at h
    · cases h
    · next L' h1 =>
      simp only [Except.ok.injEq, Prod.mk.injEq] at h
      obtain ⟨rfl, rfl⟩ := h
      obtain ⟨acc, vs, rfl, e⟩ := accountAdd_ok h1
      refine ⟨by omega, rfl, rfl, ?_, rfl⟩
      ledger_norm; omega
  · next val hv =>
    split at h
    · split at h
      · cases h
      · next L' h1 =>
        simp only [Except.ok.injEq, Prod.mk.injEq] at h
        obtain ⟨rfl, rfl⟩ := h
        have hw' := hw val hv
        obtain ⟨t, b⟩ := updateValidatorStake_bal hv rfl (by omega) h1
        refine ⟨hr.1, t, ?_, b, ?_⟩
        · -- pools and committee data: `UpdateValidatorStake` touches supply counters, committee pools and the validator record
          unfold updateValidatorStake at h1
          obtain ⟨La, ha, h1⟩ := bind_ok h1
          rw [addToStaked_ok ha] at h1
          dsimp only at h1
          split at h1
          · obtain ⟨Lb, hb, h1⟩ := bind_ok h1
            obtain ⟨Lc, hc, h1⟩ := bind_ok h1
            cases h1
            rw [addToDelegated_ok hb] at hc
            exact (sameCore_updateDelegations hc).pools
          · obtain ⟨Lc, hc, h1⟩ := bind_ok h1
            cases h1
            exact (sameCore_updateCommittees hc).pools
        · unfold updateValidatorStake at h1
          obtain ⟨La, ha, h1⟩ := bind_ok h1
          rw [addToStaked_ok ha] at h1
          dsimp only at h1
          split at h1
          · obtain ⟨Lb, hb, h1⟩ := bind_ok h1
            obtain ⟨Lc, hc, h1⟩ := bind_ok h1
            cases h1
            rw [addToDelegated_ok hb] at hc
            exact (sameCore_updateDelegations hc).committeesData
          · obtain ⟨Lc, hc, h1⟩ := bind_ok h1
            cases h1
            exact (sameCore_updateCommittees hc).committeesData
    · split at h
      · cases h
      · next L' h1 =>
        simp only [Except.ok.injEq, Prod.mk.injEq] at h
        obtain ⟨rfl, rfl⟩ := h
        obtain ⟨acc, vs, rfl, e⟩ := accountAdd_ok h1
        refine ⟨by omega, rfl, rfl, ?_, rfl⟩
        ledger_norm; omega

/-- the stubs of one committee: loop invariant `bal = bal₀ + tot`, with everything still to come bounded by the pool -/
theorem distributeStubs_ok {chain pool samples : Nat} : ∀ (ps : List (Addr × Nat)) (L L1 : Ledger) (tot tot' : Nat),
    poolGet L chain = pool → bal L + fullSum ps pool samples < U64 + pool →
    distributeStubs L pool samples ps tot = .ok (tot', L1) →
    tot ≤ tot' ∧ tot' ≤ tot + fullSum ps pool samples ∧ L1.supply.total = L.supply.total ∧ poolGet L1 chain = pool ∧
    bal L1 + tot = bal L + tot' ∧ L1.committeesData = L.committeesData
  | [], L, L1, tot, tot', hp, hb, h => by
    simp only [distributeStubs, Except.ok.injEq, Prod.mk.injEq] at h
    obtain ⟨rfl, rfl⟩ := h
    simp [fullSum, hp]
  | (a, p) :: rest, L, L1, tot, tot', hp, hb, h => by
    unfold distributeStubs at h
    simp only [fullSum, List.map_cons, List.sum_cons] at hb ⊢
    split at h
    · cases h
    · next d L2 h1 =>
      have hw : ∀ val, valGet? L a = some val → val.stake + fullOf p pool samples < U64 := by
        intro val hv
        have h1 := stake_le L a val hv
        have h2 := poolGet_le L chain
        unfold bal at hb; omega
      obtain ⟨hd, ht, hpools, hbal, hcd⟩ := distributeReward_ok hw h1
      have hp2 : poolGet L2 chain = pool := by unfold poolGet at hp ⊢; rw [hpools]; exact hp
      have hb2 : bal L2 + fullSum rest pool samples < U64 + pool := by unfold fullSum; omega
      split at h
      · split at h
        · cases h
        · obtain ⟨i1, i2, i3, i4, i5, i6⟩ := distributeStubs_ok rest L2 L1 (tot + d) tot' hp2 hb2 h
          unfold fullSum at i2
          exact ⟨by omega, by omega, by omega, i4, by omega, i6.trans hcd⟩
      · next hd0 =>
        obtain ⟨i1, i2, i3, i4, i5, i6⟩ := distributeStubs_ok rest L2 L1 tot tot' hp2 hb2 h
        unfold fullSum at i2
        exact ⟨i1, by omega, by omega, i4, by omega, i6.trans hcd⟩

/-- the recorded percents of a committee never exceed 100 per sample -/
def PercentsOK (L : Ledger) : Prop := ∀ d ∈ L.committeesData, percentSum d.percents ≤ 100 * d.samples

/-- the end of one committee's distribution burns exactly `pool - tot` when at most the pool was distributed -/
theorem distributeFinish_burns {L1 L' : Ledger} {d : CommitteeData} {pool tot : Nat}
    (hp : poolGet L1 d.chainId = pool) (hle : tot ≤ pool) (hlt : pool < U64)
    (h : distributeFinish L1 d pool tot = .ok L') :
    L'.supply.total + (pool - tot) = L1.supply.total ∧ bal L' + pool = bal L1 := by
  have hburn : (pool + U64 - tot) % U64 = pool - tot := by
    have : pool + U64 - tot = (pool - tot) + U64 := by omega
    rw [this, Nat.add_mod_right, Nat.mod_eq_of_lt (by omega)]
  unfold distributeFinish at h
  rw [hburn] at h
  generalize pool - tot = B at h ⊢
  obtain ⟨L2, h2, h⟩ := bind_ok h
  · obtain rfl := Except.ok.inj h
    obtain ⟨hx, rfl⟩ := subFromTotal_ok h2
    have s := putCommitteeData_sameBal (poolPut { L1 with supply := { L1.supply with total := L1.supply.total - B } } d.chainId 0)
      { chainId := d.chainId, lastRootHeight := d.lastRootHeight, lastChainHeight := d.lastChainHeight }
    have hpp := poolSum_poolPut { L1 with supply := { L1.supply with total := L1.supply.total - B } } d.chainId 0
    have hpg : poolGet { L1 with supply := { L1.supply with total := L1.supply.total - B } } d.chainId = pool := hp
    rw [hpg] at hpp
    have e1 := s.bal_eq; have e2 := s.total
    have e3 : (poolPut { L1 with supply := { L1.supply with total := L1.supply.total - B } } d.chainId 0).supply.total = L1.supply.total - B := rfl
    have ea : accSum (poolPut { L1 with supply := { L1.supply with total := L1.supply.total - B } } d.chainId 0) = accSum L1 := rfl
    have es : stakeSum (poolPut { L1 with supply := { L1.supply with total := L1.supply.total - B } } d.chainId 0) = stakeSum L1 := rfl
    have ep : poolSum { L1 with supply := { L1.supply with total := L1.supply.total - B } } = poolSum L1 := rfl
    rw [ep] at hpp
    refine ⟨by rw [e2, e3]; omega, ?_⟩
    rw [e1]
    unfold bal
    rw [ea, es]
    omega

/-- one committee: pays out at most the pool and burns exactly the remainder -/
theorem distributeFor_burns {L L' : Ledger} {d : CommitteeData} (hi : InvSupply L) (hd : percentSum d.percents ≤ 100 * d.samples)
    (h : distributeFor L d = .ok L') : Burns L L' := by
  unfold distributeFor at h
  split at h
  · obtain rfl := Except.ok.inj h; exact Burns.refl L
  · split at h
    · exact absurd h (by intro h; cases h)
    · next r hds =>
      obtain ⟨tot, L1⟩ := r
      have hfs := Nat.le_trans (fullSum_le d.percents (poolGet L d.chainId) d.samples) (fullOf_le_pool hd)
      have hpl := poolGet_le L d.chainId
      obtain ⟨i1, i2⟩ := hi
      obtain ⟨_, htot, ht, hp, hb, _⟩ := distributeStubs_ok (chain := d.chainId) d.percents L L1 0 tot rfl (by
        unfold bal at i1 ⊢; omega) hds
      have hlt : poolGet L d.chainId < U64 := by unfold bal at i1; omega
      obtain ⟨f1, f2⟩ := distributeFinish_burns (L1 := L1) hp (by omega) hlt h
      exact ⟨poolGet L d.chainId - tot, by omega, by omega⟩


/-! ### the committee data during distribution (for `PercentsOK`) -/

theorem updateValidatorStake_committeesData {L L' : Ledger} {a : Addr} {val : Validator} {cs : List Nat} {amt : Nat}
    (h : updateValidatorStake L a val cs amt = .ok L') : L'.committeesData = L.committeesData := by
  unfold updateValidatorStake at h
  obtain ⟨La, ha, h⟩ := bind_ok h
  rw [addToStaked_ok ha] at h
  dsimp only at h
  split at h
  · obtain ⟨Lb, hb, h⟩ := bind_ok h
    obtain ⟨Lc, hc, h⟩ := bind_ok h
    obtain rfl := Except.ok.inj h
    rw [addToDelegated_ok hb] at hc
    exact (sameCore_updateDelegations hc).committeesData
  · obtain ⟨Lc, hc, h⟩ := bind_ok h
    obtain rfl := Except.ok.inj h
    exact (sameCore_updateCommittees hc).committeesData

theorem distributeReward_committeesData {L L1 : Ledger} {a : Addr} {p pool samples d : Nat}
    (h : distributeReward L a p pool samples = .ok (d, L1)) : L1.committeesData = L.committeesData := by
  unfold distributeReward at h
  dsimp only at h
  split at h
  · split at h
    · exact absurd h (by intro h; cases h)
    · next L' h1 =>
      simp only [Except.ok.injEq, Prod.mk.injEq] at h
      obtain ⟨_, rfl⟩ := h
      obtain ⟨acc, vs, rfl, _⟩ := accountAdd_ok h1; rfl
  · split at h
    · split at h
      · exact absurd h (by intro h; cases h)
      · next L' h1 =>
        simp only [Except.ok.injEq, Prod.mk.injEq] at h
        obtain ⟨_, rfl⟩ := h
        exact updateValidatorStake_committeesData h1
    · split at h
      · exact absurd h (by intro h; cases h)
      · next L' h1 =>
        simp only [Except.ok.injEq, Prod.mk.injEq] at h
        obtain ⟨_, rfl⟩ := h
        obtain ⟨acc, vs, rfl, _⟩ := accountAdd_ok h1; rfl

theorem distributeStubs_committeesData {pool samples : Nat} : ∀ (ps : List (Addr × Nat)) (L L1 : Ledger) (tot tot' : Nat),
    distributeStubs L pool samples ps tot = .ok (tot', L1) → L1.committeesData = L.committeesData
  | [], L, L1, tot, tot', h => by
    simp only [distributeStubs, Except.ok.injEq, Prod.mk.injEq] at h
    obtain ⟨_, rfl⟩ := h; rfl
  | (a, p) :: rest, L, L1, tot, tot', h => by
    unfold distributeStubs at h
    split at h
    · exact absurd h (by intro h; cases h)
    · next d L2 h1 =>
      have e1 := distributeReward_committeesData h1
      split at h
      · split at h
        · exact absurd h (by intro h; cases h)
        · exact (distributeStubs_committeesData rest L2 L1 _ tot' h).trans e1
      · exact (distributeStubs_committeesData rest L2 L1 _ tot' h).trans e1

/-- after one committee's distribution every committee-data entry is an old one or has no percents left -/
theorem distributeFor_committeesData {L L' : Ledger} {d : CommitteeData} (h : distributeFor L d = .ok L') :
    ∀ e ∈ L'.committeesData, e ∈ L.committeesData ∨ e.percents = [] := by
  unfold distributeFor at h
  split at h
  · obtain rfl := Except.ok.inj h; intro e he; exact Or.inl he
  · split at h
    · exact absurd h (by intro h; cases h)
    · next r hds =>
      obtain ⟨tot, L1⟩ := r
      have hcd := distributeStubs_committeesData d.percents L L1 0 tot hds
      unfold distributeFinish at h
      obtain ⟨L2, h2, h⟩ := bind_ok h
      obtain rfl := Except.ok.inj h
      obtain ⟨_, rfl⟩ := subFromTotal_ok h2
      intro e he
      unfold putCommitteeData at he
      dsimp only at he
      split at he
      · simp only [List.mem_map] at he
        obtain ⟨e0, he0, rfl⟩ := he
        split
        · exact Or.inr rfl
        · exact Or.inl (by rw [← hcd]; exact he0)
      · simp only [List.mem_append, List.mem_singleton] at he
        rcases he with he | rfl
        · exact Or.inl (by rw [← hcd]; exact he)
        · exact Or.inr rfl

/-- `DistributeCommitteeRewards`: pays at most the pools and burns the remainders; afterwards `PercentsOK` still holds -/
theorem distributeCommitteeRewards_burns {L L' : Ledger} (hi : InvSupply L) (hp : PercentsOK L)
    (h : distributeCommitteeRewards L = .ok L') : Burns L L' ∧ PercentsOK L' := by
  unfold distributeCommitteeRewards at h
  have key : ∀ (ds : List CommitteeData) (A B : Ledger), (∀ d ∈ ds, percentSum d.percents ≤ 100 * d.samples) → InvSupply A →
      (∀ e ∈ A.committeesData, e ∈ L.committeesData ∨ e.percents = []) → ds.foldlM distributeFor A = .ok B →
      Burns A B ∧ (∀ e ∈ B.committeesData, e ∈ L.committeesData ∨ e.percents = []) := by
    intro ds
    induction ds with
    | nil => intro A B _ _ hA h; obtain rfl := Except.ok.inj h; exact ⟨Burns.refl A, hA⟩
    | cons d ds ih =>
      intro A B hds iA hA h
      simp only [List.foldlM_cons] at h
      obtain ⟨A1, h1, h2⟩ := bind_ok h
      have b1 := distributeFor_burns iA (hds d (List.mem_cons_self ..)) h1
      have hA1 : ∀ e ∈ A1.committeesData, e ∈ L.committeesData ∨ e.percents = [] := by
        intro e he
        rcases distributeFor_committeesData h1 e he with h' | h'
        · exact hA e h'
        · exact Or.inr h'
      obtain ⟨b2, hB⟩ := ih A1 B (fun d hd => hds d (List.mem_cons_of_mem _ hd)) (b1.inv iA) hA1 h2
      exact ⟨b1.trans b2, hB⟩
  obtain ⟨b, hB⟩ := key L.committeesData L L' hp hi (fun e he => Or.inl he) h
  refine ⟨b, ?_⟩
  intro e he
  rcases hB e he with h' | h'
  · exact hp e h'
  · rw [h']; simp [percentSum]

end Canopy.Ledger
