import Canopy.Proof.LedgerC04b
/-! C04: reward distribution at end of block. The committee pool is paid out to the recipients recorded by the
certificate results and the undistributed remainder is burned (`SubFromTotalSupply`). The code computes the
remainder with an unguarded subtraction; it is exact because the recorded percents never exceed
`100 × numberOfSamples` (`PercentsOK`, established by `handleCertificateResults` from the per-certificate limit). -/
namespace Canopy.Ledger
open AMap

set_option linter.unusedSimpArgs false
set_option linter.unusedVariables false

theorem div_add_div_le' (a b d : Nat) : a / d + b / d ≤ (a + b) / d := by
  by_cases hd : d = 0
  · subst hd; simp
  · have hd' : 0 < d := Nat.pos_of_ne_zero hd
    rw [Nat.le_div_iff_mul_le hd']
    have h1 := Nat.div_mul_le_self a d
    have h2 := Nat.div_mul_le_self b d
    rw [Nat.add_mul]; omega

def percentSum (ps : List (Addr × Nat)) : Nat := (ps.map (·.2)).sum

/-- the full reward of a stub, before truncation to 64 bits -/
def fullOf (p pool samples : Nat) : Nat := if samples ≠ 0 then p * pool / (samples * 100) else 0

def fullSum (ps : List (Addr × Nat)) (pool samples : Nat) : Nat := (ps.map fun e => fullOf e.2 pool samples).sum

theorem fullSum_le (ps : List (Addr × Nat)) (pool samples : Nat) :
    fullSum ps pool samples ≤ fullOf (percentSum ps) pool samples := by
  by_cases hs : samples = 0
  · have : ∀ qs : List (Addr × Nat), fullSum qs pool samples = 0 := by
      intro qs
      induction qs with
      | nil => rfl
      | cons e t ih => simp only [fullSum, List.map_cons, List.sum_cons] at ih ⊢; rw [ih]; simp [fullOf, hs]
    rw [this]; exact Nat.zero_le _
  · induction ps with
    | nil => simp [fullSum, percentSum]
    | cons e t ih =>
      simp only [fullSum, percentSum, List.map_cons, List.sum_cons] at ih ⊢
      unfold fullOf at ih ⊢
      simp only [ne_eq, hs, not_false_eq_true, if_true] at ih ⊢
      have := div_add_div_le' (e.2 * pool) ((t.map (·.2)).sum * pool) (samples * 100)
      rw [← Nat.add_mul] at this
      omega

theorem fullOf_le_pool {S pool samples : Nat} (h : S ≤ 100 * samples) : fullOf S pool samples ≤ pool := by
  unfold fullOf
  split
  · apply Nat.div_le_of_le_mul
    calc S * pool ≤ (100 * samples) * pool := Nat.mul_le_mul_right pool h
      _ = samples * 100 * pool := by rw [Nat.mul_comm 100 samples]
  · omega

theorem rewardAmounts_le (L : Ledger) (p pool samples : Nat) :
    (rewardAmounts L p pool samples).1 ≤ fullOf p pool samples ∧ (rewardAmounts L p pool samples).2 ≤ (rewardAmounts L p pool samples).1 := by
  unfold rewardAmounts fullOf
  dsimp only
  refine ⟨?_, ?_⟩
  · split
    · exact Nat.mod_le _ _
    · omega
  · generalize (if samples ≠ 0 then p * pool / (samples * 100) % U64 else 0) = full
    split
    · omega
    · split
      · omega
      · exact safeMulDiv_le _ _ (by omega)

/-- one reward: the real sum grows by what was distributed, which is at most the stub's full reward; pools,
the recorded total and the committee data are untouched -/
theorem distributeReward_ok {L L1 : Ledger} {a : Addr} {p pool samples d : Nat}
    (hw : ∀ val, valGet? L a = some val → val.stake + fullOf p pool samples < U64)
    (h : distributeReward L a p pool samples = .ok (d, L1)) :
    d ≤ fullOf p pool samples ∧ L1.supply.total = L.supply.total ∧ L1.pools = L.pools ∧ bal L1 = bal L + d ∧
    L1.committeesData = L.committeesData := by
  have hr := rewardAmounts_le L p pool samples
  unfold distributeReward at h
  dsimp only at h
  split at h
  · split at h
    · cases h
    · next L' h1 =>
      simp only [Except.ok.injEq, Prod.mk.injEq] at h
      obtain ⟨rfl, rfl⟩ := h
      obtain ⟨acc, rfl, e⟩ := accountAdd_ok h1
      refine ⟨by omega, rfl, rfl, ?_, rfl⟩
      ledger_norm; omega
  · next val hv =>
    split at h
    · split at h
      · cases h
      · next L' h1 =>
        simp only [Except.ok.injEq, Prod.mk.injEq] at h
        obtain ⟨rfl, rfl⟩ := h
        have hw' := hw val hv
        obtain ⟨t, b⟩ := updateValidatorStake_bal hv rfl (by omega) h1
        refine ⟨hr.1, t, ?_, b, ?_⟩
        · -- pools and committee data: `UpdateValidatorStake` touches supply counters, committee pools and the validator record
          unfold updateValidatorStake at h1
          obtain ⟨La, ha, h1⟩ := bind_ok h1
          rw [addToStaked_ok ha] at h1
          dsimp only at h1
          split at h1
          · obtain ⟨Lb, hb, h1⟩ := bind_ok h1
            obtain ⟨Lc, hc, h1⟩ := bind_ok h1
            cases h1
            rw [addToDelegated_ok hb] at hc
            exact (sameCore_updateDelegations hc).pools
          · obtain ⟨Lc, hc, h1⟩ := bind_ok h1
            cases h1
            exact (sameCore_updateCommittees hc).pools
        · unfold updateValidatorStake at h1
          obtain ⟨La, ha, h1⟩ := bind_ok h1
          rw [addToStaked_ok ha] at h1
          dsimp only at h1
          split at h1
          · obtain ⟨Lb, hb, h1⟩ := bind_ok h1
            obtain ⟨Lc, hc, h1⟩ := bind_ok h1
            cases h1
            rw [addToDelegated_ok hb] at hc
            exact (sameCore_updateDelegations hc).committeesData
          · obtain ⟨Lc, hc, h1⟩ := bind_ok h1
            cases h1
            exact (sameCore_updateCommittees hc).committeesData
    · split at h
      · cases h
      · next L' h1 =>
        simp only [Except.ok.injEq, Prod.mk.injEq] at h
        obtain ⟨rfl, rfl⟩ := h
        obtain ⟨acc, rfl, e⟩ := accountAdd_ok h1
        refine ⟨by omega, rfl, rfl, ?_, rfl⟩
        ledger_norm; omega

/-- the stubs of one committee: loop invariant `bal = bal₀ + tot`, with everything still to come bounded by the pool -/
theorem distributeStubs_ok {chain pool samples : Nat} : ∀ (ps : List (Addr × Nat)) (L L1 : Ledger) (tot tot' : Nat),
    poolGet L chain = pool → bal L + fullSum ps pool samples < U64 + pool →
    distributeStubs L pool samples ps tot = .ok (tot', L1) →
    tot ≤ tot' ∧ tot' ≤ tot + fullSum ps pool samples ∧ L1.supply.total = L.supply.total ∧ poolGet L1 chain = pool ∧
    bal L1 + tot = bal L + tot' ∧ L1.committeesData = L.committeesData
  | [], L, L1, tot, tot', hp, hb, h => by
    simp only [distributeStubs, Except.ok.injEq, Prod.mk.injEq] at h
    obtain ⟨rfl, rfl⟩ := h
    simp [fullSum, hp]
  | (a, p) :: rest, L, L1, tot, tot', hp, hb, h => by
    unfold distributeStubs at h
    simp only [fullSum, List.map_cons, List.sum_cons] at hb ⊢
    split at h
    · cases h
    · next d L2 h1 =>
      have hw : ∀ val, valGet? L a = some val → val.stake + fullOf p pool samples < U64 := by
        intro val hv
        have h1 := stake_le L a val hv
        have h2 := poolGet_le L chain
        unfold bal at hb; omega
      obtain ⟨hd, ht, hpools, hbal, hcd⟩ := distributeReward_ok hw h1
      have hp2 : poolGet L2 chain = pool := by unfold poolGet at hp ⊢; rw [hpools]; exact hp
      have hb2 : bal L2 + fullSum rest pool samples < U64 + pool := by unfold fullSum; omega
      split at h
      · split at h
        · cases h
        · obtain ⟨i1, i2, i3, i4, i5, i6⟩ := distributeStubs_ok rest L2 L1 (tot + d) tot' hp2 hb2 h
          unfold fullSum at i2
          exact ⟨by omega, by omega, by omega, i4, by omega, i6.trans hcd⟩
      · next hd0 =>
        obtain ⟨i1, i2, i3, i4, i5, i6⟩ := distributeStubs_ok rest L2 L1 tot tot' hp2 hb2 h
        unfold fullSum at i2
        exact ⟨i1, by omega, by omega, i4, by omega, i6.trans hcd⟩

end Canopy.Ledger
