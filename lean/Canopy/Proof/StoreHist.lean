import Canopy.Proof.StoreBatch
/-! The store as a whole (C10): the representation relation between the pebble key space and the
versioned map, preserved by `Commit` and `Rollback`; the latest-state store equals the historical
store at the current version; committed history never changes. -/
namespace Canopy.Store
open Canopy

/-- the raw value of a committed write -/
def enc : Option Bytes → Bytes
  | some x => rawAlive x
  | none => rawDead

theorem rawOf_eq (op : TOp) : rawOf op = enc op.read := by cases op <;> rfl

/-- **`WFKeys`**: the keys the store is used with — non-empty, length-prefix decodable, at most 245
bytes, and no key a proper byte-prefix of another (the versioned suffix then never makes one user
key's physical entries interleave with another's) -/
structure WFKeys (K : Bytes → Prop) : Prop where
  ok : ∀ k, K k → k ≠ [] ∧ k.length ≤ 245 ∧ keyOK k = true
  pf : ∀ a b, K a → K b → a <+: b → a = b

/-- an iteration prefix no key is a *proper* prefix of -/
def PfxOK (K : Bytes → Prop) (p : Bytes) : Prop := ∀ k, K k → k <+: p → k = p

/-! ## the two state partitions -/

theorem lssPrefix_eq : lssPrefix = [2, 115, 47] := by decide
theorem hssPrefix_eq : hssPrefix = [2, 104, 47] := by decide

theorem part_not_prefix (a b : Bytes) : ¬ (hssPrefix ++ a) <+: (lssPrefix ++ b) ∧ ¬ (lssPrefix ++ a) <+: (hssPrefix ++ b) := by
  rw [lssPrefix_eq, hssPrefix_eq]
  constructor <;> (intro h; simp [List.cons_prefix_cons] at h)

theorem part_ne (a b : Bytes) : hssPrefix ++ a ≠ lssPrefix ++ b := by
  rw [lssPrefix_eq, hssPrefix_eq]; simp

theorem mkKey_uk_inj {u u' : Bytes} {w w' : Nat} (h : mkKey u w = mkKey u' w') : u = u' := by
  unfold mkKey at h
  have hl : u.length = u'.length := by
    have := congrArg List.length h
    simp [invVer_length] at this; exact this
  exact (List.append_inj h hl).1

theorem hkey_inj {k k' : Bytes} {w w' : Nat} (hw : w ≤ maxVer) (hw' : w' ≤ maxVer)
    (h : mkKey (hssPrefix ++ k) w = mkKey (hssPrefix ++ k') w') : k = k' ∧ w = w' := by
  obtain ⟨h1, h2⟩ := mkKey_inj hw hw' h
  exact ⟨List.append_cancel_left h1, h2⟩

theorem lkey_inj {k k' : Bytes} {w w' : Nat} (hw : w ≤ maxVer) (hw' : w' ≤ maxVer)
    (h : mkKey (lssPrefix ++ k) w = mkKey (lssPrefix ++ k') w') : k = k' ∧ w = w' := by
  obtain ⟨h1, h2⟩ := mkKey_inj hw hw' h
  exact ⟨List.append_cancel_left h1, h2⟩

theorem hkey_ne_lkey (k k' : Bytes) (w w' : Nat) : mkKey (hssPrefix ++ k) w ≠ mkKey (lssPrefix ++ k') w' :=
  fun h => part_ne k k' (mkKey_uk_inj h)

/-- **the representation relation**: the key space holds exactly (a) under `h/`, every committed write
at its version, and (b) under `s/` at version 2^64-1, the live keys of the current version -/
structure Rep (K : Bytes → Prop) (db : DB) (m : VMap) (ver : Nat) : Prop where
  sorted : SSorted db
  keys : ∀ e ∈ db, ∃ k w, K k ∧ w ≤ maxVer ∧ (e.1 = mkKey (hssPrefix ++ k) w ∨ e.1 = mkKey (lssPrefix ++ k) w)
  hss : ∀ k w raw, w ≤ maxVer →
    (smGet db (mkKey (hssPrefix ++ k) w) = some raw ↔ ∃ y, (k, w, y) ∈ m ∧ raw = enc y)
  lss : ∀ k w raw, w ≤ maxVer →
    (smGet db (mkKey (lssPrefix ++ k) w) = some raw ↔ (w = maxVer ∧ ∃ x, readAt m ver k = some x ∧ raw = rawAlive x))
  uniq : Uniq m
  vb : VersBound m ver
  mkeys : ∀ e ∈ m, K e.1
  ver_lt : ver < maxVer

theorem Rep.init (K : Bytes → Prop) : Rep K [] [] 0 where
  sorted := List.Pairwise.nil
  keys := by simp
  hss := by intro k w raw _; simp [smGet]
  lss := by intro k w raw _; simp [smGet, readAt, hist, newestLE]
  uniq := by intro k w y y' h; cases h
  vb := by intro e h; cases h
  mkeys := by intro e h; cases h
  ver_lt := by decide

/-- **`Commit`** (state part) preserves the representation: the batch writes the pending operations
under `h/` at `version+1` and under `s/` at 2^64-1, and purges the latest-state tombstones -/
theorem Rep.commit {K : Bytes → Prop} {db : DB} {m : VMap} {ver : Nat} (h : Rep K db m ver)
    (ov : Overlay) (hs : SSorted ov) (hk : ∀ e ∈ ov, K e.1) (hver : ver + 1 < maxVer) :
    Rep K (applyBatch db (commitBatch ov (ver + 1))) (m.commit ov (ver + 1)) (ver + 1) := by
  have hFL : ∀ a b, mkKey (lssPrefix ++ a) maxVer = mkKey (lssPrefix ++ b) maxVer → a = b :=
    fun a b e => (lkey_inj (Nat.le_refl _) (Nat.le_refl _) e).1
  have hFH : ∀ a b, mkKey (hssPrefix ++ a) (ver + 1) = mkKey (hssPrefix ++ b) (ver + 1) → a = b :=
    fun a b e => (hkey_inj (by omega) (by omega) e).1
  refine ⟨sorted_applyBatch h.sorted _, ?_, ?_, ?_, uniq_commit h.uniq h.vb hs, versBound_commit h.vb, ?_, hver⟩
  · -- every key has the shape of a state key
    intro e he
    rcases mem_applyBatch _ he with he | he
    · exact h.keys e he
    · unfold commitBatch at he
      simp only [List.mem_append, List.mem_map, List.mem_filterMap] at he
      rcases he with (⟨a, ha, heq⟩ | ⟨a, ha, heq⟩) | ⟨a, _, heq⟩
      · injection heq with h1 _
        exact ⟨a.1, maxVer, hk a ha, Nat.le_refl _, Or.inr h1.symm⟩
      · injection heq with h1 _
        exact ⟨a.1, ver + 1, hk a ha, by omega, Or.inl h1.symm⟩
      · unfold delOf at heq
        cases hop : a.2 <;> simp [hop] at heq
  · -- historical state
    intro k w raw hw
    rw [smGet_applyBatch h.sorted]
    unfold commitBatch
    rw [batchLookup_append, batchLookup_none (key := mkKey (hssPrefix ++ k) w)]
    · simp only
      rw [batchLookup_append]
      by_cases hwn : w = ver + 1
      · subst hwn
        rw [batchLookup_ov_puts ov hs (fun a => mkKey (hssPrefix ++ a) (ver + 1)) hFH rawOf k]
        have hold : smGet db (mkKey (hssPrefix ++ k) (ver + 1)) = none := by
          cases hg : smGet db (mkKey (hssPrefix ++ k) (ver + 1)) with
          | none => rfl
          | some r =>
            obtain ⟨y, hy, _⟩ := (h.hss k (ver + 1) r hw).mp hg
            have := (h.vb _ hy).2; simp at this; omega
        cases hg : smGet ov k with
        | some op =>
          simp only [Option.map_some, Option.some.injEq]
          have hop := (smGet_eq_some_iff hs k op).mp hg
          constructor
          · intro e; exact ⟨op.read, mem_commit.mpr (Or.inr ⟨rfl, op, hop, rfl⟩), by rw [← e, rawOf_eq]⟩
          · rintro ⟨y, hy, rfl⟩
            rcases mem_commit.mp hy with hy | ⟨_, op2, ho2, rfl⟩
            · have := (h.vb _ hy).2; simp at this; omega
            · have e2 := (smGet_eq_some_iff hs k op2).mpr ho2
              rw [hg] at e2; injection e2 with e2; rw [e2, rawOf_eq]
        | none =>
          simp only [Option.map_none]
          rw [batchLookup_none (key := mkKey (hssPrefix ++ k) (ver + 1)), hold]
          · simp only
            constructor
            · intro e; cases e
            · rintro ⟨y, hy, _⟩
              rcases mem_commit.mp hy with hy | ⟨_, op2, ho2, _⟩
              · have := (h.vb _ hy).2; simp at this; omega
              · rw [(smGet_eq_some_iff hs k op2).mpr ho2] at hg; cases hg
          · intro op hop
            obtain ⟨a, _, rfl⟩ := List.mem_map.mp hop
            exact ⟨fun k' v' e => by injection e with e1 _; rw [← e1]; exact fun e2 => hkey_ne_lkey _ _ _ _ e2.symm,
              fun k' e => by cases e⟩
      · rw [batchLookup_none (key := mkKey (hssPrefix ++ k) w)]
        · simp only
          rw [batchLookup_none (key := mkKey (hssPrefix ++ k) w)]
          · simp only
            rw [h.hss k w raw hw]
            constructor
            · rintro ⟨y, hy, e⟩; exact ⟨y, mem_commit.mpr (Or.inl hy), e⟩
            · rintro ⟨y, hy, e⟩
              rcases mem_commit.mp hy with hy | ⟨hw', _⟩
              · exact ⟨y, hy, e⟩
              · exact absurd hw' hwn
          · intro op hop
            obtain ⟨a, _, rfl⟩ := List.mem_map.mp hop
            exact ⟨fun k' v' e => by injection e with e1 _; rw [← e1]; exact fun e2 => hkey_ne_lkey _ _ _ _ e2.symm,
              fun k' e => by cases e⟩
        · intro op hop
          obtain ⟨a, _, rfl⟩ := List.mem_map.mp hop
          refine ⟨fun k' v' e => ?_, fun k' e => by cases e⟩
          injection e with e1 _
          rw [← e1]
          intro e2
          exact hwn (hkey_inj (by omega) hw e2).2.symm
    · intro op hop
      obtain ⟨a, _, rfl⟩ := mem_filterMap_delOf hop
      refine ⟨fun k' v' e => (by cases e), fun k' e => ?_⟩
      injection e with e1
      rw [← e1]
      exact fun e2 => hkey_ne_lkey _ _ _ _ e2.symm
  · -- latest state
    intro k w raw hw
    rw [smGet_applyBatch h.sorted]
    by_cases hwm : w = maxVer
    · subst hwm
      unfold commitBatch
      rw [batchLookup_append, batchLookup_ov_dels ov hs (fun a => mkKey (lssPrefix ++ a) maxVer) hFL k]
      rw [batchLookup_append, batchLookup_none (key := mkKey (lssPrefix ++ k) maxVer) (b := ov.map _)]
      · rw [batchLookup_ov_puts ov hs (fun a => mkKey (lssPrefix ++ a) maxVer) hFL rawOf k]
        rw [readAt_commit_new h.uniq h.vb hs]
        unfold applyOv
        cases hg : smGet ov k with
        | none =>
          simp only [Option.map_none]
          rw [h.lss k maxVer raw hw]
          simp
        | some op =>
          cases op with
          | del => simp [TOp.read]
          | set v =>
            simp only [Option.map_some, Option.some.injEq, TOp.read, rawOf, true_and]
            constructor
            · intro e; exact ⟨v, rfl, e.symm⟩
            · rintro ⟨x, hx, e⟩; rw [e, ← hx]
      · intro op hop
        obtain ⟨a, _, rfl⟩ := List.mem_map.mp hop
        exact ⟨fun k' v' e => by injection e with e1 _; rw [← e1]; exact hkey_ne_lkey _ _ _ _, fun k' e => by cases e⟩
    · rw [batchLookup_none (key := mkKey (lssPrefix ++ k) w)]
      · simp only
        rw [h.lss k w raw hw]
        constructor
        · rintro ⟨e, _⟩; exact absurd e hwm
        · rintro ⟨e, _⟩; exact absurd e hwm
      · intro op hop
        unfold commitBatch at hop
        simp only [List.mem_append, List.mem_map, List.mem_filterMap] at hop
        rcases hop with (⟨a, _, rfl⟩ | ⟨a, _, rfl⟩) | ⟨a, _, heq⟩
        · refine ⟨fun k' v' e => ?_, fun k' e => by cases e⟩
          injection e with e1 _
          rw [← e1]; intro e2
          exact hwm (lkey_inj (Nat.le_refl _) hw e2).2.symm
        · exact ⟨fun k' v' e => by injection e with e1 _; rw [← e1]; exact hkey_ne_lkey _ _ _ _, fun k' e => by cases e⟩
        · obtain ⟨a', _, rfl⟩ := mem_filterMap_delOf (List.mem_filterMap.mpr ⟨a, ‹_›, heq⟩)
          refine ⟨fun k' v' e => (by cases e), fun k' e => ?_⟩
          injection e with e1
          rw [← e1]; intro e2
          exact hwm (lkey_inj (Nat.le_refl _) hw e2).2.symm
  · intro e he
    obtain ⟨k, w, y⟩ := e
    rcases mem_commit.mp he with he | ⟨_, op, hop, _⟩
    · exact h.mkeys _ he
    · exact hk _ hop

end Canopy.Store

namespace Canopy.Store
open Canopy

/-! ## the representation gives a well-formed key space -/

theorem Rep.uk_of {K : Bytes → Prop} {db : DB} {m : VMap} {ver : Nat} (h : Rep K db m ver)
    {e : Entry} (he : e ∈ db) {u : Bytes} {w : Nat} (hu : e.1 = mkKey u w) :
    ∃ k, K k ∧ (u = hssPrefix ++ k ∨ u = lssPrefix ++ k) := by
  obtain ⟨k, w', hk, _, hor⟩ := h.keys e he
  rcases hor with hor | hor
  · exact ⟨k, hk, Or.inl (mkKey_uk_inj (hu.symm.trans hor))⟩
  · exact ⟨k, hk, Or.inr (mkKey_uk_inj (hu.symm.trans hor))⟩

theorem lssPrefix_length : lssPrefix.length = 3 := by decide
theorem hssPrefix_length : hssPrefix.length = 3 := by decide

theorem Rep.wfl {K : Bytes → Prop} (hK : WFKeys K) {db : DB} {m : VMap} {ver : Nat} (h : Rep K db m ver) : WFL db := by
  refine ⟨h.sorted, ?_, ?_⟩
  · intro e he
    obtain ⟨k, w, hk, hw, hor⟩ := h.keys e he
    have hl := (hK.ok k hk).2.1
    rcases hor with hor | hor
    · exact ⟨hssPrefix ++ k, w, hor, by rw [hssPrefix_eq]; simp, by simp [hssPrefix_length]; omega, hw⟩
    · exact ⟨lssPrefix ++ k, w, hor, by rw [lssPrefix_eq]; simp, by simp [lssPrefix_length]; omega, hw⟩
  · intro e1 he1 e2 he2 u1 w1 u2 w2 h1 h2 hp
    obtain ⟨k1, hk1, hu1⟩ := h.uk_of he1 h1
    obtain ⟨k2, hk2, hu2⟩ := h.uk_of he2 h2
    rcases hu1 with rfl | rfl <;> rcases hu2 with rfl | rfl
    · rw [hK.pf k1 k2 hk1 hk2 ((List.prefix_append_right_inj _).mp hp)]
    · exact absurd hp (part_not_prefix k1 k2).1
    · exact absurd hp (part_not_prefix k1 k2).2
    · rw [hK.pf k1 k2 hk1 hk2 ((List.prefix_append_right_inj _).mp hp)]

theorem Rep.compatK {K : Bytes → Prop} (hK : WFKeys K) {db : DB} {m : VMap} {ver : Nat} (h : Rep K db m ver)
    {k : Bytes} (hk : K k) : KeyCompat db (hssPrefix ++ k) ∧ KeyCompat db (lssPrefix ++ k) := by
  constructor
  · intro e he u w hu hp
    obtain ⟨k', hk', hu'⟩ := h.uk_of he hu
    rcases hu' with rfl | rfl
    · rcases hp with hp | hp
      · rw [hK.pf k' k hk' hk ((List.prefix_append_right_inj _).mp hp)]
      · rw [hK.pf k k' hk hk' ((List.prefix_append_right_inj _).mp hp)]
    · rcases hp with hp | hp
      · exact absurd hp (part_not_prefix k' k).2
      · exact absurd hp (part_not_prefix k k').1
  · intro e he u w hu hp
    obtain ⟨k', hk', hu'⟩ := h.uk_of he hu
    rcases hu' with rfl | rfl
    · rcases hp with hp | hp
      · exact absurd hp (part_not_prefix k' k).1
      · exact absurd hp (part_not_prefix k k').2
    · rcases hp with hp | hp
      · rw [hK.pf k' k hk' hk ((List.prefix_append_right_inj _).mp hp)]
      · rw [hK.pf k k' hk hk' ((List.prefix_append_right_inj _).mp hp)]

theorem Rep.compatP {K : Bytes → Prop} {db : DB} {m : VMap} {ver : Nat} (h : Rep K db m ver)
    {p : Bytes} (hp : PfxOK K p) : PrefixCompat db (hssPrefix ++ p) ∧ PrefixCompat db (lssPrefix ++ p) := by
  constructor
  · intro e he u w hu hpre
    obtain ⟨k', hk', hu'⟩ := h.uk_of he hu
    rcases hu' with rfl | rfl
    · rw [hp k' hk' ((List.prefix_append_right_inj _).mp hpre)]
    · exact absurd hpre (part_not_prefix k' p).2
  · intro e he u w hu hpre
    obtain ⟨k', hk', hu'⟩ := h.uk_of he hu
    rcases hu' with rfl | rfl
    · exact absurd hpre (part_not_prefix k' p).1
    · rw [hp k' hk' ((List.prefix_append_right_inj _).mp hpre)]

/-! ## what the two partitions show -/

theorem parseVal_enc_some (x : Bytes) : parseVal (enc (some x)) = (aliveTomb, x) := rfl
theorem parseVal_enc_none : parseVal (enc none) = (deadTomb, []) := rfl

theorem alive_ne_dead : aliveTomb ≠ deadTomb := by decide

/-- the historical partition read at `v` shows the versioned map as of `v` -/
theorem Rep.sees_hss {K : Bytes → Prop} {db : DB} {m : VMap} {ver : Nat} (h : Rep K db m ver) (v : Nat)
    (k x : Bytes) : Sees db v (hssPrefix ++ k) x ↔ readAt m v k = some x := by
  rw [readAt_iff h.uniq]
  have hvm : ∀ {k w y}, (k, w, y) ∈ m → w ≤ maxVer := fun hm => by
    have := (h.vb _ hm).2; have := h.ver_lt; simp at *; omega
  constructor
  · rintro ⟨w, raw, hwv, hwm, hget, hmax, hal, hx⟩
    obtain ⟨y, hy, rfl⟩ := (h.hss k w _ hwm).mp hget
    cases y with
    | none => exact absurd rfl hal
    | some x' =>
      rw [parseVal_enc_some] at hx
      simp only at hx
      subst hx
      exact ⟨w, hy, hwv, fun w' y' hm' hw' => hmax w' (enc y') hw' (hvm hm') ((h.hss k w' _ (hvm hm')).mpr ⟨y', hm', rfl⟩)⟩
  · rintro ⟨w, hm, hwv, hmax⟩
    refine ⟨w, enc (some x), hwv, hvm hm, (h.hss k w _ (hvm hm)).mpr ⟨some x, hm, rfl⟩, ?_, alive_ne_dead, rfl⟩
    intro w' raw' hw'v hw'm hget'
    obtain ⟨y', hy', _⟩ := (h.hss k w' _ hw'm).mp hget'
    exact hmax w' y' hy' hw'v

/-- **`lss_eq_hss`, key-space form**: the latest-state partition shows the versioned map as of the
current version -/
theorem Rep.sees_lss {K : Bytes → Prop} {db : DB} {m : VMap} {ver : Nat} (h : Rep K db m ver)
    (k x : Bytes) : Sees db maxVer (lssPrefix ++ k) x ↔ readAt m ver k = some x := by
  constructor
  · rintro ⟨w, raw, _, hwm, hget, _, _, hx⟩
    obtain ⟨_, x', hx', rfl⟩ := (h.lss k w _ hwm).mp hget
    have : x' = x := hx
    rw [← this]; exact hx'
  · intro hr
    refine ⟨maxVer, rawAlive x, Nat.le_refl _, Nat.le_refl _,
      (h.lss k maxVer _ (Nat.le_refl _)).mpr ⟨rfl, x, hr, rfl⟩, fun w' _ hw' _ _ => hw', alive_ne_dead, rfl⟩

/-! ## handles over a represented key space -/

/-- the handle's bottom reader (snapshot, read version, key prefix) shows the map `f` -/
structure Reads (K : Bytes → Prop) (h : Handle) (f : Bytes → Option Bytes) : Prop where
  db : WFL h.snap
  ver : h.rver ≤ maxVer
  compatK : ∀ k, K k → KeyCompat h.snap (h.pfx ++ k)
  compatP : ∀ p, PfxOK K p → PrefixCompat h.snap (h.pfx ++ p)
  base : ∀ k x, h.baseView k x ↔ f k = some x

/-- the spec: the pending operations of every layer applied to `f`, innermost last -/
def specView (layers : List Layer) (f : Bytes → Option Bytes) : Bytes → Option Bytes :=
  layers.foldr (fun l acc => applyOv l.ov acc) f

theorem view_iff_spec (h : Handle) (f : Bytes → Option Bytes) (hb : ∀ k x, h.baseView k x ↔ f k = some x)
    (k x : Bytes) : h.view k x ↔ specView h.layers f k = some x := by
  unfold Handle.view specView
  generalize h.layers = ls
  induction ls generalizing k x with
  | nil => exact hb k x
  | cons l ls ih =>
    simp only [List.foldr_cons, applyOvR, applyOv]
    cases smGet l.ov k with
    | none => exact ih k x
    | some op => rfl

/-- layers a handle may carry: sorted, keys from `K` -/
def LayersOK (K : Bytes → Prop) (ls : List Layer) : Prop := ∀ l ∈ ls, SSorted l.ov ∧ ∀ e ∈ l.ov, K e.1

theorem LayersOK.ovKeys {K : Bytes → Prop} (hK : WFKeys K) {ls : List Layer} (h : LayersOK K ls) :
    ∀ l ∈ ls, SSorted l.ov ∧ OvKeysOK l.ov := by
  intro l hl
  refine ⟨(h l hl).1, fun e he => ?_⟩
  have := hK.ok e.1 ((h l hl).2 e he)
  exact ⟨this.1, by omega⟩

/-- `Reads` only depends on the bottom reader -/
theorem Reads.of_same {K : Bytes → Prop} {h h' : Handle} {f : Bytes → Option Bytes} (hr : Reads K h f)
    (h1 : h'.snap = h.snap) (h2 : h'.rver = h.rver) (h3 : h'.pfx = h.pfx) : Reads K h' f := by
  refine ⟨h1 ▸ hr.db, h2 ▸ hr.ver, ?_, ?_, ?_⟩
  · intro k hk; rw [h1, h3]; exact hr.compatK k hk
  · intro p hp; rw [h1, h3]; exact hr.compatP p hp
  · intro k x
    have : h'.baseView k x ↔ h.baseView k x := by unfold Handle.baseView; rw [h1, h2, h3]
    rw [this]; exact hr.base k x

theorem Reads.wf {K : Bytes → Prop} (hK : WFKeys K) {h : Handle} {f : Bytes → Option Bytes} (hr : Reads K h f)
    (hl : LayersOK K h.layers) : h.WF := ⟨hr.db, hr.ver, hl.ovKeys hK⟩

/-- **`get_refines`**: a point read through any nesting of transactions returns exactly what the
versioned map with the pending operations applied holds -/
theorem Reads.get {K : Bytes → Prop} (hK : WFKeys K) {h : Handle} {f : Bytes → Option Bytes} (hr : Reads K h f)
    (hl : LayersOK K h.layers) {k : Bytes} (hk : K k) : h.get k = some (specView h.layers f k) := by
  obtain ⟨r, hget, hrx⟩ := Handle.get_view h (hr.wf hK hl) k (hK.ok k hk).2.2 (hr.compatK k hk)
  rw [hget]
  congr 1
  apply Option.ext
  intro x
  rw [hrx x, view_iff_spec h f hr.base]

/-- **`iter_refines`**: a forward or reverse prefix iteration through any nesting of transactions
yields exactly the scan of the versioned map with the pending operations applied: complete, strictly
ordered, duplicate-free -/
theorem Reads.iter {K : Bytes → Prop} (hK : WFKeys K) {h : Handle} {f : Bytes → Option Bytes} (hr : Reads K h f)
    (hl : LayersOK K h.layers) {p : Bytes} (hp : PfxOK K p) (hpk : keyOK p = true) (reverse : Bool) :
    ∃ out, h.iter p reverse = some out ∧ IsScan (specView h.layers f) p reverse out := by
  obtain ⟨out, hit, hscan⟩ := Handle.iter_view h (hr.wf hK hl) p reverse hpk (hr.compatP p hp)
  exact ⟨out, hit, (isScan_iff_isScanR _ _ _ _).mpr (hscan.congr (view_iff_spec h f hr.base))⟩

theorem Rep.reads_lss {K : Bytes → Prop} (hK : WFKeys K) {db : DB} {m : VMap} {ver : Nat} (h : Rep K db m ver)
    (ls : List Layer) :
    Reads K { snap := db, rver := maxVer, pfx := lssPrefix, layers := ls } (readAt m ver) :=
  ⟨h.wfl hK, Nat.le_refl _, fun _ hk => (h.compatK hK hk).2, fun _ hp => (h.compatP hp).2,
   fun k x => h.sees_lss k x⟩

theorem Rep.reads_hss {K : Bytes → Prop} (hK : WFKeys K) {db : DB} {m : VMap} {ver : Nat} (h : Rep K db m ver)
    {v : Nat} (hv : v ≤ maxVer) (ls : List Layer) :
    Reads K { snap := db, rver := v, pfx := hssPrefix, layers := ls } (readAt m v) :=
  ⟨h.wfl hK, hv, fun _ hk => (h.compatK hK hk).1, fun _ hp => (h.compatP hp).1,
   fun k x => h.sees_hss v k x⟩

end Canopy.Store
