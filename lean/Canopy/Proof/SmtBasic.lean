import Canopy.Model.Smt
/-! Helper lemmas for M-smt: prefixes, well-formed tries, uniqueness of the canonical form. Core only. -/
namespace Canopy.Smt

theorem prefix_bit_unique {p k : Key} {a b : Bool} (h1 : p ++ [a] <+: k) (h2 : p ++ [b] <+: k) : a = b := by
  have h := List.prefix_of_prefix_length_le h1 h2 (by simp)
  have he := h.eq_of_length (by simp)
  have := List.append_cancel_left he
  simpa using this

theorem prefix_snoc_of_prefix_cons {p rest k : Key} {x : Bool} (h : p ++ x :: rest <+: k) : p ++ [x] <+: k := by
  have : p ++ [x] <+: p ++ x :: rest := (List.prefix_append_right_inj p).mpr ⟨rest, by simp⟩
  exact this.trans h

theorem prefix_of_snoc_prefix {p k : Key} {x : Bool} (h : p ++ [x] <+: k) : p <+: k :=
  (List.prefix_append p _).trans h

theorem length_lt_of_snoc_prefix {p k : Key} {x : Bool} (h : p ++ [x] <+: k) : p.length < k.length := by
  have := h.length_le; simp at this; omega

/-- a proper prefix of `k` extends to `k` by a definite next bit -/
theorem snoc_prefix_of_prefix_lt {p k : Key} (h : p <+: k) (hl : p.length < k.length) :
    p ++ [false] <+: k ∨ p ++ [true] <+: k := by
  obtain ⟨rest, rfl⟩ := h
  cases rest with
  | nil => simp at hl
  | cons x rest =>
    cases x
    · exact Or.inl ((List.prefix_append_right_inj p).mpr ⟨rest, by simp⟩)
    · exact Or.inr ((List.prefix_append_right_inj p).mpr ⟨rest, by simp⟩)

namespace Trie

theorem toList_ne_nil : ∀ t : Trie, t.toList ≠ []
  | leaf _ _ => by simp [toList]
  | node _ l _ => by simp [toList, toList_ne_nil l]

theorem keys_ne_nil (t : Trie) : t.keys ≠ [] := by
  simp [keys, toList_ne_nil t]

theorem exists_key (t : Trie) : ∃ k, k ∈ t.keys := by
  cases h : t.keys with
  | nil => exact absurd h (keys_ne_nil t)
  | cons k _ => exact ⟨k, by simp⟩

theorem keys_leaf (k : Key) (v : Bytes) : (leaf k v).keys = [k] := by simp [keys, toList]

theorem keys_node (p : Key) (l r : Trie) : (node p l r).keys = l.keys ++ r.keys := by
  simp [keys, toList]

theorem mem_keys_node {p : Key} {l r : Trie} {k : Key} : k ∈ (node p l r).keys ↔ k ∈ l.keys ∨ k ∈ r.keys := by
  rw [keys_node]; exact List.mem_append

theorem mem_keys_of_mem {t : Trie} {k : Key} {v : Bytes} (h : (k, v) ∈ t.toList) : k ∈ t.keys :=
  List.mem_map_of_mem (f := Prod.fst) h

theorem exists_mem_of_mem_keys {t : Trie} {k : Key} (h : k ∈ t.keys) : ∃ v, (k, v) ∈ t.toList := by
  simp only [keys, List.mem_map] at h
  obtain ⟨⟨k', v⟩, hm, rfl⟩ := h
  exact ⟨v, hm⟩

theorem mem_toList_node {p : Key} {l r : Trie} {kv : Key × Bytes} :
    kv ∈ (node p l r).toList ↔ kv ∈ l.toList ∨ kv ∈ r.toList := by
  simp [toList]

/-- every key below a well-formed node extends the node's prefix by one definite bit -/
theorem node_key_prefix {n : Nat} {p : Key} {l r : Trie} (h : WF n (node p l r)) {k : Key}
    (hk : k ∈ (node p l r).keys) : p ++ [false] <+: k ∨ p ++ [true] <+: k := by
  rcases mem_keys_node.mp hk with h1 | h1
  · exact Or.inl (h.2.2.1 k h1)
  · exact Or.inr (h.2.2.2 k h1)

theorem node_prefix {n : Nat} {p : Key} {l r : Trie} (h : WF n (node p l r)) {k : Key}
    (hk : k ∈ (node p l r).keys) : p <+: k := by
  rcases node_key_prefix h hk with h1 | h1 <;> exact prefix_of_snoc_prefix h1

/-- all keys of a well-formed trie have the full length -/
theorem keys_length {n : Nat} : ∀ {t : Trie}, WF n t → ∀ k ∈ t.keys, k.length = n
  | leaf k' _, h, k, hk => by
    rw [keys_leaf] at hk; simp at hk; subst hk; exact h
  | node _ l r, h, k, hk => by
    rcases mem_keys_node.mp hk with h1 | h1
    · exact keys_length h.1 k h1
    · exact keys_length h.2.1 k h1

/-- the key of a (sub)trie is a prefix of every key in it -/
theorem key_prefix {n : Nat} {t : Trie} (h : WF n t) {k : Key} (hk : k ∈ t.keys) : t.key <+: k := by
  cases t with
  | leaf k' v => rw [keys_leaf] at hk; simp at hk; subst hk; exact List.prefix_refl _
  | node p l r => exact node_prefix h hk

/-- an inner node's prefix is strictly shorter than the key length -/
theorem node_prefix_lt {n : Nat} {p : Key} {l r : Trie} (h : WF n (node p l r)) : p.length < n := by
  obtain ⟨k, hk⟩ := exists_key l
  have h1 := length_lt_of_snoc_prefix (h.2.2.1 k hk)
  have h2 := keys_length h.1 k hk
  omega

theorem key_length_le {n : Nat} {t : Trie} (h : WF n t) : t.key.length ≤ n := by
  cases t with
  | leaf k v => exact Nat.le_of_eq h
  | node p l r => exact Nat.le_of_lt (node_prefix_lt h)

/-- left and right keys of a well-formed node are different -/
theorem left_ne_right {n : Nat} {p : Key} {l r : Trie} (h : WF n (node p l r)) {a b : Key}
    (ha : a ∈ l.keys) (hb : b ∈ r.keys) : a ≠ b := by
  intro e; subst e
  have := prefix_bit_unique (h.2.2.1 a ha) (h.2.2.2 a hb)
  cases this

/-- a key occurs at most once, with one value -/
theorem value_unique {n : Nat} : ∀ {t : Trie}, WF n t → ∀ {k : Key} {v v' : Bytes},
    (k, v) ∈ t.toList → (k, v') ∈ t.toList → v = v'
  | leaf _ _, _, k, v, v', h1, h2 => by
    simp [toList] at h1 h2; rw [h1.2, h2.2]
  | node _ l r, h, k, v, v', h1, h2 => by
    rcases mem_toList_node.mp h1 with a | a <;> rcases mem_toList_node.mp h2 with b | b
    · exact value_unique h.1 a b
    · exact absurd rfl (left_ne_right h (mem_keys_of_mem a) (mem_keys_of_mem b))
    · exact absurd rfl (left_ne_right h (mem_keys_of_mem b) (mem_keys_of_mem a))
    · exact value_unique h.2.1 a b

/-- one direction of prefix equality -/
theorem prefix_eq_aux {n : Nat} {p p' : Key} {l r l' r' : Trie}
    (h : WF n (node p l r)) (h' : WF n (node p' l' r'))
    (hk : ∀ k, k ∈ (node p l r).keys → k ∈ (node p' l' r').keys) (hpp : p <+: p') : p = p' := by
  obtain ⟨rest, hrest⟩ := hpp
  cases rest with
  | nil => simpa using hrest
  | cons x rest =>
    exfalso
    obtain ⟨kl, hkl⟩ := exists_key l
    obtain ⟨kr, hkr⟩ := exists_key r
    have hl1 := h.2.2.1 kl hkl
    have hr1 := h.2.2.2 kr hkr
    have hl2 : p' <+: kl := node_prefix h' (hk _ (mem_keys_node.mpr (Or.inl hkl)))
    have hr2 : p' <+: kr := node_prefix h' (hk _ (mem_keys_node.mpr (Or.inr hkr)))
    rw [← hrest] at hl2 hr2
    have e1 : false = x := prefix_bit_unique hl1 (prefix_snoc_of_prefix_cons hl2)
    have e2 : true = x := prefix_bit_unique hr1 (prefix_snoc_of_prefix_cons hr2)
    rw [← e1] at e2; cases e2

theorem prefix_eq {n : Nat} {p p' : Key} {l r l' r' : Trie}
    (h : WF n (node p l r)) (h' : WF n (node p' l' r'))
    (hk : ∀ k, k ∈ (node p l r).keys ↔ k ∈ (node p' l' r').keys) : p = p' := by
  obtain ⟨k, hkm⟩ := exists_key (node p l r)
  have h1 := node_prefix h hkm
  have h2 := node_prefix h' ((hk k).mp hkm)
  rcases List.prefix_or_prefix_of_prefix h1 h2 with hp | hp
  · exact prefix_eq_aux h h' (fun k => (hk k).mp) hp
  · exact (prefix_eq_aux h' h (fun k => (hk k).mpr) hp).symm

theorem keys_iff_of_toList_iff {t1 t2 : Trie} (h : ∀ kv, kv ∈ t1.toList ↔ kv ∈ t2.toList) :
    ∀ k, k ∈ t1.keys ↔ k ∈ t2.keys := by
  intro k
  constructor
  · intro hk; obtain ⟨v, hv⟩ := exists_mem_of_mem_keys hk; exact mem_keys_of_mem ((h _).mp hv)
  · intro hk; obtain ⟨v, hv⟩ := exists_mem_of_mem_keys hk; exact mem_keys_of_mem ((h _).mpr hv)

/-- **Canonical form is unique** (extensional version): two well-formed tries with the same contents are the
same tree — so the tree, and with it the root, is a function of the key/value set. -/
theorem wf_unique (n : Nat) : ∀ (t1 t2 : Trie), WF n t1 → WF n t2 →
    (∀ kv, kv ∈ t1.toList ↔ kv ∈ t2.toList) → t1 = t2
  | leaf k v, leaf k' v', _, _, h => by
    have := (h (k, v)).mp (by simp [toList])
    simp [toList] at this
    rw [this.1, this.2]
  | leaf k v, node p l r, _, h2, h => by
    exfalso
    obtain ⟨a, ha⟩ := exists_key l
    obtain ⟨b, hb⟩ := exists_key r
    obtain ⟨va, hva⟩ := exists_mem_of_mem_keys ha
    obtain ⟨vb, hvb⟩ := exists_mem_of_mem_keys hb
    have e1 := (h (a, va)).mpr (mem_toList_node.mpr (Or.inl hva))
    have e2 := (h (b, vb)).mpr (mem_toList_node.mpr (Or.inr hvb))
    simp [toList] at e1 e2
    exact left_ne_right h2 ha hb (e1.1.trans e2.1.symm)
  | node p l r, leaf k v, h1, _, h => by
    exfalso
    obtain ⟨a, ha⟩ := exists_key l
    obtain ⟨b, hb⟩ := exists_key r
    obtain ⟨va, hva⟩ := exists_mem_of_mem_keys ha
    obtain ⟨vb, hvb⟩ := exists_mem_of_mem_keys hb
    have e1 := (h (a, va)).mp (mem_toList_node.mpr (Or.inl hva))
    have e2 := (h (b, vb)).mp (mem_toList_node.mpr (Or.inr hvb))
    simp [toList] at e1 e2
    exact left_ne_right h1 ha hb (e1.1.trans e2.1.symm)
  | node p l r, node p' l' r', h1, h2, h => by
    have hp : p = p' := prefix_eq h1 h2 (keys_iff_of_toList_iff h)
    subst hp
    have hl : ∀ kv, kv ∈ l.toList ↔ kv ∈ l'.toList := by
      intro kv
      constructor
      · intro hm
        rcases mem_toList_node.mp ((h kv).mp (mem_toList_node.mpr (Or.inl hm))) with x | x
        · exact x
        · exact absurd (prefix_bit_unique (h1.2.2.1 _ (mem_keys_of_mem hm)) (h2.2.2.2 _ (mem_keys_of_mem x))) (by simp)
      · intro hm
        rcases mem_toList_node.mp ((h kv).mpr (mem_toList_node.mpr (Or.inl hm))) with x | x
        · exact x
        · exact absurd (prefix_bit_unique (h2.2.2.1 _ (mem_keys_of_mem hm)) (h1.2.2.2 _ (mem_keys_of_mem x))) (by simp)
    have hr : ∀ kv, kv ∈ r.toList ↔ kv ∈ r'.toList := by
      intro kv
      constructor
      · intro hm
        rcases mem_toList_node.mp ((h kv).mp (mem_toList_node.mpr (Or.inr hm))) with x | x
        · exact absurd (prefix_bit_unique (h1.2.2.2 _ (mem_keys_of_mem hm)) (h2.2.2.1 _ (mem_keys_of_mem x))) (by simp)
        · exact x
      · intro hm
        rcases mem_toList_node.mp ((h kv).mpr (mem_toList_node.mpr (Or.inr hm))) with x | x
        · exact absurd (prefix_bit_unique (h2.2.2.2 _ (mem_keys_of_mem hm)) (h1.2.2.1 _ (mem_keys_of_mem x))) (by simp)
        · exact x
    rw [wf_unique n l l' h1.1 h2.1 hl, wf_unique n r r' h1.2.1 h2.2.1 hr]

/-- two trees representing the same map are equal -/
theorem rep_unique {n : Nat} {t1 t2 : Trie} {S : KMap} (h1 : t1.Rep n S) (h2 : t2.Rep n S) : t1 = t2 :=
  wf_unique n t1 t2 h1.1 h2.1 fun ⟨k, v⟩ => (h1.2 k v).trans (h2.2 k v).symm

end Trie
end Canopy.Smt
