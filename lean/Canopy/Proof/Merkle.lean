import Canopy.Model.Merkle
/-! Injectivity of the Merkle root on lists of equal length. Core Lean only. -/
namespace Canopy.Merkle

theorem pairUp_length {α : Type} (node : α → α → α) : ∀ l : List α, (pairUp node l).length = (l.length + 1) / 2
  | [] => by simp [pairUp]
  | [_] => by simp [pairUp]
  | _ :: _ :: rest => by
    simp only [pairUp, List.length_cons, pairUp_length node rest]
    omega

theorem rootAux_step {α : Type} (node : α → α → α) (k : Nat) (a b : α) (r : List α) :
    rootAux node (k + 1) (a :: b :: r) = rootAux node k (pairUp node (a :: b :: r)) := by
  rw [rootAux]
  all_goals simp

/-- `node` is injective as a function of the pair -/
def NodeInj {α : Type} (node : α → α → α) : Prop := ∀ a b c d, node a b = node c d → a = c ∧ b = d

theorem pairUp_inj {α : Type} (node : α → α → α) (hn : NodeInj node) :
    ∀ l₁ l₂ : List α, l₁.length = l₂.length → pairUp node l₁ = pairUp node l₂ → l₁ = l₂
  | [], [], _, _ => rfl
  | [], _ :: _, h, _ => by simp at h
  | _ :: _, [], h, _ => by simp at h
  | [a], [b], _, h => by
    simp only [pairUp, List.cons.injEq, and_true] at h
    rw [(hn a a b b h).1]
  | [_], _ :: _ :: _, h, _ => by simp at h
  | _ :: _ :: _, [_], h, _ => by simp at h
  | a :: b :: r₁, c :: d :: r₂, hl, h => by
    simp only [pairUp, List.cons.injEq] at h
    obtain ⟨h1, h2⟩ := h
    obtain ⟨e1, e2⟩ := hn a b c d h1
    have := pairUp_inj node hn r₁ r₂ (by simpa using hl) h2
    rw [e1, e2, this]

theorem rootAux_inj {α : Type} (node : α → α → α) (hn : NodeInj node) :
    ∀ (k : Nat) (l₁ l₂ : List α), l₁.length = l₂.length → l₁.length ≤ k → l₁ ≠ [] →
      rootAux node k l₁ = rootAux node k l₂ → l₁ = l₂ := by
  intro k
  induction k with
  | zero =>
    intro l₁ l₂ hl hk hne _
    cases l₁ with
    | nil => exact absurd rfl hne
    | cons a r => simp at hk
  | succ k ih =>
    intro l₁ l₂ hl hk hne h
    match l₁, l₂, hl, hk, hne, h with
    | [], _, _, _, hne, _ => exact absurd rfl hne
    | [a], [b], _, _, _, h =>
      simp only [rootAux, Option.some.injEq] at h
      rw [h]
    | [_], [], hl, _, _, _ => simp at hl
    | [_], _ :: _ :: _, hl, _, _, _ => simp at hl
    | _ :: _ :: _, [], hl, _, _, _ => simp at hl
    | _ :: _ :: _, [_], hl, _, _, _ => simp at hl
    | a :: b :: r₁, c :: d :: r₂, hl, hk, _, h =>
      rw [rootAux_step, rootAux_step] at h
      have hpl : (pairUp node (a :: b :: r₁)).length = (pairUp node (c :: d :: r₂)).length := by
        rw [pairUp_length, pairUp_length, hl]
      have hpk : (pairUp node (a :: b :: r₁)).length ≤ k := by
        rw [pairUp_length]; simp only [List.length_cons] at hk ⊢; omega
      have hpne : pairUp node (a :: b :: r₁) ≠ [] := by simp [pairUp]
      exact pairUp_inj node hn _ _ hl (ih _ _ hpl hpk hpne h)

theorem rootAux_isSome {α : Type} (node : α → α → α) :
    ∀ (k : Nat) (l : List α), l.length ≤ k → l ≠ [] → (rootAux node k l).isSome = true := by
  intro k
  induction k with
  | zero => intro l hk hne; cases l with
    | nil => exact absurd rfl hne
    | cons a r => simp at hk
  | succ k ih =>
    intro l hk hne
    match l, hk, hne with
    | [], _, hne => exact absurd rfl hne
    | [a], _, _ => rfl
    | a :: b :: r, hk, _ =>
      rw [rootAux_step]
      apply ih
      · rw [pairUp_length]; simp only [List.length_cons] at hk ⊢; omega
      · simp [pairUp]

theorem map_inj {α β : Type} (f : β → α) (hf : ∀ x y, f x = f y → x = y) :
    ∀ l₁ l₂ : List β, l₁.map f = l₂.map f → l₁ = l₂
  | [], [], _ => rfl
  | [], _ :: _, h => by simp at h
  | _ :: _, [], h => by simp at h
  | a :: r, b :: s, h => by
    simp only [List.map_cons, List.cons.injEq] at h
    rw [hf a b h.1, map_inj f hf r s h.2]

end Canopy.Merkle
