import Canopy.Model.Atomic
/-! Helper lemmas for the atomicity mechanism model (C07): simulation of the mechanism by the
specification, step by step. The property theorems are in `Props/C07.lean`. -/
namespace Canopy.Atomic

theorem get_of_coherent {F : Fsm} (h : Coherent F) : F.get = F.store := by
  funext k
  unfold Fsm.get
  cases hc : F.cache k with
  | none => rfl
  | some x => exact (h k x hc).symm

theorem coherent_noCache (v : View) (e t : List Nat) : Coherent ⟨v, noCache, e, t⟩ := by
  intro k x h; simp [noCache] at h

theorem coherent_touch {F : Fsm} (h : Coherent F) (k : Key) : Coherent (F.touch k) := by
  intro k' x hc
  simp only [Fsm.touch] at hc ⊢
  by_cases hk : k' = k
  · subst hk
    simp only [if_true, Option.some.injEq] at hc
    rw [← hc, get_of_coherent h]
  · simp only [hk, if_false] at hc
    exact h k' x hc

theorem touch_pure (F : Fsm) (k : Key) : (F.touch k).pure = F.pure := rfl

theorem coherent_put {F : Fsm} (h : Coherent F) (k : Key) (x : Option Val) : Coherent (F.put k x) := by
  intro k' y hc
  simp only [Fsm.put, View.set] at hc ⊢
  by_cases hk : k' = k
  · simp only [hk, if_true, Option.some.injEq] at hc ⊢
    exact hc
  · simp only [hk, if_false] at hc ⊢
    exact h k' y hc

/-- a handler run on a coherent mechanism state is the specification run on its store -/
theorem runActs_sim (acts : Handler) : ∀ (F : Fsm), Coherent F →
    Coherent (runActs F acts).1 ∧
    ((runActs F acts).2 = true → specActs F.pure acts = some (runActs F acts).1.pure) ∧
    ((runActs F acts).2 = false → specActs F.pure acts = none) := by
  induction acts with
  | nil => intro F h; simp [runActs, specActs, h]
  | cons a r ih =>
    intro F h
    have hg := get_of_coherent h
    cases a with
    | put k f =>
      have := ih (F.put k (f F.get)) (coherent_put h k _)
      simp only [runActs, specActs]
      rw [hg] at this ⊢
      exact this
    | touch k =>
      have := ih (F.touch k) (coherent_touch h k)
      simp only [runActs, specActs]
      exact this
    | emit e =>
      have := ih { F with events := F.events ++ [e] } (by intro k x hc; exact h k x hc)
      simp only [runActs, specActs]
      exact this
    | slash i =>
      have := ih { F with tracker := F.tracker ++ [i] } (by intro k x hc; exact h k x hc)
      simp only [runActs, specActs]
      exact this
    | guard p =>
      simp only [runActs, specActs]
      rw [hg]
      by_cases hp : p F.store
      · simp only [hp, if_true, Fsm.pure]
        exact ih F h
      · simp [hp, h, Fsm.pure]

theorem touches_sim (ks : List Key) : ∀ (F : Fsm), Coherent F →
    Coherent (ks.foldl Fsm.touch F) ∧ (ks.foldl Fsm.touch F).pure = F.pure := by
  induction ks with
  | nil => intro F h; exact ⟨h, rfl⟩
  | cons k r ih =>
    intro F h
    have := ih (F.touch k) (coherent_touch h k)
    simp only [List.foldl_cons]
    exact ⟨this.1, this.2.trans (touch_pure F k)⟩

/-- the first pass only fills caches: the state is unchanged and every verdict is `check` of the
post-begin-block store -/
theorem precheck_sim (txs : List Tx) : ∀ (F : Fsm), Coherent F →
    Coherent (precheck F txs).1 ∧ (precheck F txs).1.pure = F.pure ∧
    (precheck F txs).2 = txs.map (fun t => t.check F.store) := by
  induction txs with
  | nil => intro F h; simp [precheck, h]
  | cons t r ih =>
    intro F h
    have ht := touches_sim t.checkTouches F h
    have hr := ih (t.checkTouches.foldl Fsm.touch F) ht.1
    have hs : (t.checkTouches.foldl Fsm.touch F).store = F.store := by
      have := ht.2; simp only [Fsm.pure, Pure.mk.injEq] at this; exact this.1
    simp only [precheck, List.map_cons]
    refine ⟨hr.1, hr.2.1.trans ht.2, ?_⟩
    rw [hr.2.2, get_of_coherent ht.1, hs]

/-- the simulation relation between the mechanism's loop state and the specification's -/
structure Rel (L : Loop) (S : SLoop) : Prop where
  coh : Coherent L.F
  cur : L.F.pure = S.cur
  noEv : S.cur.events = []
  inc : L.included = S.included
  fail : L.failed = S.failed
  over : L.oversized = S.oversized
  bev : L.blockEvents = S.blockEvents
  size : L.size = S.size
  os : L.oversize = S.oversize
  pre : L.oversize = true → L.preOver = (S.blk.view, S.blk.tracker) ∧ S.blk.events = []
  blk : L.oversize = false → S.blk = S.cur

theorem rel_start (F : Fsm) (h : Coherent F) (he : F.events = []) : Rel (Loop.start F) (SLoop.start F.pure) := by
  refine ⟨h, rfl, ?_, rfl, rfl, rfl, rfl, rfl, rfl, ?_, ?_⟩
  · simpa [SLoop.start, Fsm.pure] using he
  · intro h; simp [Loop.start] at h
  · intro _; rfl

/-- one iteration: with every manual restoration in place the mechanism follows the specification -/
theorem stepTx_sim (max : Nat) (allow : Bool) (L : Loop) (S : SLoop) (t : Tx) (p : Bool) (h : Rel L S) :
    match stepTx Cfg.all max allow L t p, specStep max allow S t p with
    | some L', some S' => Rel L' S'
    | none, none => True
    | _, _ => False := by
  obtain ⟨coh, cur, noEv, inc, fail, over, bev, size, os, pre, blk⟩ := h
  obtain ⟨Scur, Sblk, Sinc, Sfail, Sover, Sbev, Ssize, Sos⟩ := S
  simp only at cur noEv inc fail over bev size os pre blk
  subst cur inc fail over bev size os
  have hev : L.F.events = [] := noEv
  have hsim := runActs_sim t.fullActs L.F coh
  unfold stepTx specStep
  cases p with
  | false =>
    simp only [Bool.not_false, if_true]
    exact ⟨coh, rfl, noEv, rfl, rfl, rfl, rfl, rfl, rfl, pre, blk⟩
  | true =>
    simp only [Bool.not_true, Bool.false_eq_true, if_false]
    cases hr : runActs L.F t.fullActs with
    | mk F' ok =>
    rw [hr] at hsim
    obtain ⟨hcoh', hok, hfail⟩ := hsim
    by_cases hent : (decide (t.size + L.size > max) && !L.oversize) = true
    · have hnos : L.oversize = false := by
        cases ho : L.oversize <;> simp [ho] at hent ⊢
      cases allow with
      | false => simp [hent]
      | true =>
        simp only [hent, Bool.not_true, Bool.and_false, Bool.false_eq_true, if_false, if_true, hr]
        cases ok with
        | true =>
          have h2 := hok rfl
          simp only [h2]
          exact ⟨fun k x hc => hcoh' k x hc, rfl, rfl, rfl, rfl, rfl, rfl, rfl, rfl,
            fun _ => ⟨rfl, hev⟩, fun hf => by simp at hf⟩
        | false =>
          have h2 := hfail rfl
          simp only [h2, Cfg.all, if_true]
          refine ⟨coherent_noCache _ _ _, ?_, noEv, rfl, rfl, rfl, rfl, rfl, rfl, fun _ => ⟨rfl, hev⟩,
            fun hf => by simp at hf⟩
          simp [Fsm.pure, hev]
    · have hent' : (decide (t.size + L.size > max) && !L.oversize) = false := by
        cases hb : (decide (t.size + L.size > max) && !L.oversize) <;> simp_all
      simp only [hent', Bool.false_and, Bool.false_eq_true, if_false, hr]
      cases ok with
      | true =>
        have h2 := hok rfl
        simp only [h2]
        cases ho : L.oversize with
        | true =>
          simp only [if_true]
          exact ⟨fun k x hc => hcoh' k x hc, rfl, rfl, rfl, rfl, rfl, rfl, rfl, rfl,
            fun _ => pre ho, fun hf => by simp at hf⟩
        | false =>
          simp only [Bool.false_eq_true, if_false]
          exact ⟨fun k x hc => hcoh' k x hc, rfl, rfl, rfl, rfl, rfl, rfl, rfl, rfl,
            fun hf => by simp at hf, fun _ => rfl⟩
      | false =>
        have h2 := hfail rfl
        simp only [h2, Cfg.all, if_true]
        refine ⟨coherent_noCache _ _ _, ?_, noEv, rfl, rfl, rfl, rfl, rfl, rfl, pre, blk⟩
        simp [Fsm.pure, hev]

theorem loop_sim (max : Nat) (allow : Bool) (txs : List Tx) : ∀ (ps : List Bool) (L : Loop) (S : SLoop),
    Rel L S →
    match loopTxs Cfg.all max allow L txs ps, specLoop max allow S txs ps with
    | some L', some S' => Rel L' S'
    | none, none => True
    | _, _ => False := by
  induction txs with
  | nil => intro ps L S h; simp only [loopTxs, specLoop]; exact h
  | cons t r ih =>
    intro ps L S h
    cases ps with
    | nil => simp only [loopTxs, specLoop]; exact h
    | cons p ps =>
      simp only [loopTxs, specLoop]
      have hs := stepTx_sim max allow L S t p h
      cases h1 : stepTx Cfg.all max allow L t p with
      | none =>
        cases h2 : specStep max allow S t p with
        | none => simp
        | some S' => rw [h1, h2] at hs; exact hs.elim
      | some L' =>
        cases h2 : specStep max allow S t p with
        | none => rw [h1, h2] at hs; exact hs.elim
        | some S' =>
          rw [h1, h2] at hs
          exact ih ps L' S' hs

/-- after the loop -/
theorem finish_sim (L : Loop) (S : SLoop) (h : Rel L S) :
    Coherent (finishLoop Cfg.all L).F ∧ (finishLoop Cfg.all L).F.pure = S.final := by
  obtain ⟨coh, cur, noEv, inc, fail, over, bev, size, os, pre, blk⟩ := h
  unfold finishLoop SLoop.final
  by_cases ho : L.oversize = true
  · simp only [ho, if_true, Cfg.all]
    have hp := pre ho
    refine ⟨coherent_noCache _ _ _, ?_⟩
    have hev : L.F.events = [] := by
      have := congrArg Pure.events cur; simp only [Fsm.pure] at this; rw [this]; exact noEv
    simp only [Fsm.pure, hp.1, hev]
    cases hb : S.blk with
    | mk v e t => simp [hb] at hp ⊢; exact hp.2
  · have ho' : L.oversize = false := by cases hb : L.oversize <;> simp_all
    simp only [ho', Bool.false_eq_true, if_false]
    exact ⟨coh, by rw [blk ho']; exact cur⟩

end Canopy.Atomic

namespace Canopy.Atomic

/-- the mechanism (with every manual restoration in place) refines the specification -/
theorem run_refines (max : Nat) (allow : Bool) (F : Fsm) (hc : Coherent F) (he : F.events = [])
    (txs : List Tx) :
    match run Cfg.all max allow F txs, specRun max allow F.pure txs with
    | some L, some S => Coherent L.F ∧ L.F.pure = S.final ∧ L.included = S.included ∧
        L.failed = S.failed ∧ L.oversized = S.oversized ∧ L.blockEvents = S.blockEvents
    | none, none => True
    | _, _ => False := by
  have hp := precheck_sim txs F hc
  unfold run specRun
  cases hpc : precheck F txs with
  | mk F1 pres =>
    rw [hpc] at hp
    obtain ⟨hc1, hpure, hpres⟩ := hp
    simp only at hc1 hpure hpres
    have he1 : F1.events = [] := by
      have := congrArg Pure.events hpure; simp only [Fsm.pure] at this; rw [this]; exact he
    have hrel := rel_start F1 hc1 he1
    rw [hpure] at hrel
    have hl := loop_sim max allow txs pres (Loop.start F1) (SLoop.start F.pure) hrel
    have hview : (fun t : Tx => t.check F.pure.view) = (fun t : Tx => t.check F.store) := rfl
    rw [hview, ← hpres]
    cases h1 : loopTxs Cfg.all max allow (Loop.start F1) txs pres with
    | none =>
      cases h2 : specLoop max allow (SLoop.start F.pure) txs pres with
      | none => simp [h1, h2]
      | some S => rw [h1, h2] at hl; exact hl.elim
    | some L =>
      cases h2 : specLoop max allow (SLoop.start F.pure) txs pres with
      | none => rw [h1, h2] at hl; exact hl.elim
      | some S =>
        rw [h1, h2] at hl
        have hf := finish_sim L S hl
        simp only [h1, h2, Option.map_some]
        have hfin : (finishLoop Cfg.all L).included = L.included ∧ (finishLoop Cfg.all L).failed = L.failed ∧
            (finishLoop Cfg.all L).oversized = L.oversized ∧ (finishLoop Cfg.all L).blockEvents = L.blockEvents := by
          unfold finishLoop; split <;> simp
        exact ⟨hf.1, hf.2, hfin.1.trans hl.inc, hfin.2.1.trans hl.fail, hfin.2.2.1.trans hl.over,
          hfin.2.2.2.trans hl.bev⟩

/-! ## specification level: what the proposer keeps is a block every replica accepts -/

/-- once the block is oversize nothing more is included and the block state is frozen -/
theorem oversize_frozen (max : Nat) (txs : List Tx) : ∀ (ps : List Bool) (L Lf : SLoop),
    L.oversize = true → specLoop max true L txs ps = some Lf →
    Lf.included = L.included ∧ Lf.blk = L.blk ∧ Lf.blockEvents = L.blockEvents := by
  induction txs with
  | nil => intro ps L Lf _ h; simp only [specLoop, Option.some.injEq] at h; subst h; simp
  | cons t r ih =>
    intro ps L Lf ho h
    cases ps with
    | nil => simp only [specLoop, Option.some.injEq] at h; subst h; simp
    | cons p ps =>
      simp only [specLoop] at h
      cases hs : specStep max true L t p with
      | none => rw [hs] at h; simp at h
      | some L' =>
        rw [hs] at h
        have hL' : L'.oversize = true ∧ L'.included = L.included ∧ L'.blk = L.blk ∧ L'.blockEvents = L.blockEvents := by
          unfold specStep at hs
          cases p with
          | false => simp at hs; subst hs; simp [ho]
          | true =>
            simp only [Bool.not_true, Bool.false_eq_true, if_false, ho, Bool.and_false] at hs
            cases hx : specActs L.cur t.fullActs with
            | none => simp [hx] at hs; subst hs; simp [ho]
            | some P' => simp [hx, ho] at hs; subst hs; simp [ho]
        have := ih ps L' Lf hL'.1 h
        exact ⟨this.1.trans hL'.2.1, this.2.1.trans hL'.2.2.1, this.2.2.trans hL'.2.2.2⟩

/-- `L` without its lists of failed and oversized transactions -/
def SLoop.clean (L : SLoop) : SLoop := { L with failed := [], oversized := [] }

theorem replay_included (max : Nat) (f : Tx → Bool) (txs : List Tx) : ∀ (L Lf : SLoop),
    L.oversize = false → L.blk = L.cur →
    specLoop max true L txs (txs.map f) = some Lf →
    ∃ inc Rf, Lf.included = L.included ++ inc ∧
      specLoop max false L.clean inc (inc.map f) = some Rf ∧
      Rf.blk = Lf.blk ∧ Rf.included = Lf.included ∧ Rf.blockEvents = Lf.blockEvents ∧
      Rf.failed = [] ∧ Rf.oversized = [] := by
  induction txs with
  | nil =>
    intro L Lf _ _ h
    simp only [List.map_nil, specLoop, Option.some.injEq] at h
    subst h
    exact ⟨[], L.clean, by simp, by simp [specLoop], rfl, rfl, rfl, rfl, rfl⟩
  | cons t r ih =>
    intro L Lf ho hb h
    obtain ⟨cur, blk, inc0, fail0, over0, bev0, size0, os0⟩ := L
    simp only at ho hb
    have hb' : cur = blk := hb.symm
    subst ho hb'
    simp only [List.map_cons, specLoop] at h
    cases hs : specStep max true ⟨cur, cur, inc0, fail0, over0, bev0, size0, false⟩ t (f t) with
    | none => simp [hs] at h
    | some L' =>
      simp only [hs] at h
      unfold specStep at hs
      cases hft : f t with
      | false =>
        simp only [hft, Bool.not_false, if_true, Option.some.injEq] at hs
        subst hs
        exact ih ⟨cur, cur, inc0, fail0 ++ [t], over0, bev0, size0, false⟩ Lf rfl rfl h
      | true =>
        by_cases hent : t.size + size0 > max
        · -- the block becomes oversize here: nothing more is included
          have hL' : L'.oversize = true ∧ L'.included = inc0 ∧ L'.blk = cur ∧ L'.blockEvents = bev0 := by
            cases hx : specActs cur t.fullActs with
            | none => simp [hft, hent, hx] at hs; subst hs; simp
            | some P' => simp [hft, hent, hx] at hs; subst hs; simp
          have hfz := oversize_frozen max r (r.map f) L' Lf hL'.1 h
          refine ⟨[], SLoop.clean ⟨cur, cur, inc0, fail0, over0, bev0, size0, false⟩, ?_, by simp [specLoop], ?_, ?_, ?_, rfl, rfl⟩
          · simp [hfz.1, hL'.2.1]
          · simp [SLoop.clean, hfz.2.1, hL'.2.2.1]
          · simp [SLoop.clean, hfz.1, hL'.2.1]
          · simp [SLoop.clean, hfz.2.2, hL'.2.2.2]
        · cases hx : specActs cur t.fullActs with
          | none =>
            simp [hft, hent, hx] at hs
            subst hs
            exact ih ⟨cur, cur, inc0, fail0 ++ [t], over0, bev0, size0, false⟩ Lf rfl rfl h
          | some P' =>
            simp [hft, hent, hx] at hs
            subst hs
            obtain ⟨inc', Rf, h1, h2, h3, h4, h5, h6, h7⟩ := ih
              ⟨{ P' with events := [] }, { P' with events := [] }, inc0 ++ [t], fail0, over0, bev0 ++ P'.events,
                size0 + t.size, false⟩ Lf rfl rfl h
            refine ⟨t :: inc', Rf, ?_, ?_, h3, h4, h5, h6, h7⟩
            · simp [h1]
            · simp only [List.map_cons, hft, specLoop]
              have : specStep max false (SLoop.clean ⟨cur, cur, inc0, fail0, over0, bev0, size0, false⟩) t true = some
                  (SLoop.clean ⟨{ P' with events := [] }, { P' with events := [] }, inc0 ++ [t], fail0, over0,
                    bev0 ++ P'.events, size0 + t.size, false⟩) := by
                simp [specStep, SLoop.clean, hent, hx]
              rw [this]
              exact h2

/-- **specification level.** What the proposer path keeps (`allow = true`: failing transactions
dropped, the oversize remainder dropped) is a transaction list that the replica path
(`allow = false`) executes without any failure, to the same block state and the same events. -/
theorem proposal_validates_spec (max : Nat) (P : Pure) (txs : List Tx) (S : SLoop)
    (h : specRun max true P txs = some S) :
    ∃ S', specRun max false P S.included = some S' ∧ S'.final = S.final ∧ S'.included = S.included ∧
      S'.failed = [] ∧ S'.oversized = [] ∧ S'.blockEvents = S.blockEvents := by
  unfold specRun at h
  obtain ⟨inc, Rf, h1, h2, h3, h4, h5, h6, h7⟩ :=
    replay_included max (fun t => t.check P.view) txs (SLoop.start P) S rfl rfl h
  have hinc : S.included = inc := by simpa [SLoop.start] using h1
  refine ⟨Rf, ?_, h3, h4, h6, h7, h5⟩
  unfold specRun
  rw [hinc]
  simpa [SLoop.clean, SLoop.start] using h2

end Canopy.Atomic

namespace Canopy.Atomic

/-- blocks: the mechanism's `ApplyBlock` is the specification's -/
theorem block_refines (max : Nat) (allow : Bool) (F : Fsm) (hc : Coherent F) (b : Handler) (txs : List Tx)
    (e : Handler) :
    match applyBlock Cfg.all max allow F b txs e, specBlock max allow F.pure b txs e with
    | some (F2, inc), some (P2, inc') => Coherent F2 ∧ F2.pure = P2 ∧ inc = inc'
    | none, none => True
    | _, _ => False := by
  unfold applyBlock specBlock
  have hb := runActs_sim b F hc
  cases hrb : runActs F b with
  | mk F1 ok =>
    rw [hrb] at hb
    cases ok with
    | false => simp [hb.2.2 rfl]
    | true =>
      have hb2 := hb.2.1 rfl
      simp only [hb2]
      have hc1 : Coherent { F1 with events := [] } := fun k x h => hb.1 k x h
      have hr := run_refines max allow { F1 with events := [] } hc1 rfl txs
      have hp : ({ F1 with events := [] } : Fsm).pure = { F1.pure with events := [] } := rfl
      rw [hp] at hr
      cases h1 : run Cfg.all max allow { F1 with events := [] } txs with
      | none =>
        cases h2 : specRun max allow { F1.pure with events := [] } txs with
        | none => simp
        | some S => rw [h1, h2] at hr; exact hr.elim
      | some L =>
        cases h2 : specRun max allow { F1.pure with events := [] } txs with
        | none => rw [h1, h2] at hr; exact hr.elim
        | some S =>
          rw [h1, h2] at hr
          obtain ⟨hcL, hpL, hinc, _, _, _⟩ := hr
          simp only
          have he := runActs_sim e L.F hcL
          rw [hpL] at he
          cases hre : runActs L.F e with
          | mk F2 ok2 =>
            rw [hre] at he
            cases ok2 with
            | false => simp [he.2.2 rfl]
            | true => simp [he.2.1 rfl, hinc]; exact he.1

/-- specification level, blocks: the block the proposer path builds is executed by the replica path
to the same state -/
theorem proposal_validates_block_spec (max : Nat) (P : Pure) (b : Handler) (txs : List Tx) (e : Handler)
    (P2 : Pure) (inc : List Tx) (h : specBlock max true P b txs e = some (P2, inc)) :
    specBlock max false P b inc e = some (P2, inc) := by
  unfold specBlock at h ⊢
  cases hb : specActs P b with
  | none => simp [hb] at h
  | some P1 =>
    simp only [hb] at h ⊢
    cases hr : specRun max true { P1 with events := [] } txs with
    | none => simp [hr] at h
    | some S =>
      simp only [hr] at h
      obtain ⟨S', h1, h2, h3, _, _, _⟩ := proposal_validates_spec max _ txs S hr
      cases he : specActs S.final e with
      | none => simp [he] at h
      | some P2' =>
        simp only [he, Option.some.injEq, Prod.mk.injEq] at h
        obtain ⟨hP, hI⟩ := h
        subst hP hI
        simp [h1, h2, h3, he]

end Canopy.Atomic
