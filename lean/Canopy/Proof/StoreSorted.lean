import Canopy.Proof.StoreIter
/-! Sorted association lists (`smSet/smDel/smGet`: the pebble key space and the txn overlays) and the
decomposition of a well-formed key space into per-user-key groups (C10). -/
namespace Canopy.Store
open Canopy

/-- strictly sorted by key -/
def SSorted {α : Type} (l : List (Bytes × α)) : Prop := l.Pairwise fun a b => blt a.1 b.1 = true

theorem SSorted.tail {α : Type} {a : Bytes × α} {l : List (Bytes × α)} (h : SSorted (a :: l)) : SSorted l :=
  (List.pairwise_cons.mp h).2

theorem SSorted.head_lt {α : Type} {a : Bytes × α} {l : List (Bytes × α)} (h : SSorted (a :: l)) :
    ∀ b ∈ l, blt a.1 b.1 = true := (List.pairwise_cons.mp h).1

/-! ## lookup after update (no sortedness needed for `smSet`) -/

theorem smGet_smSet {α : Type} (l : List (Bytes × α)) (k : Bytes) (v : α) (k' : Bytes) :
    smGet (smSet l k v) k' = if k' = k then some v else smGet l k' := by
  induction l with
  | nil => simp [smSet, smGet]
  | cons a l ih =>
    obtain ⟨ka, va⟩ := a
    unfold smSet
    by_cases h1 : blt k ka = true
    · simp only [h1, if_true, smGet]
    · simp only [h1, Bool.false_eq_true, if_false]
      by_cases h2 : k = ka
      · subst h2
        simp only [if_true, smGet]
        by_cases h3 : k' = k <;> simp [h3]
      · simp only [h2, if_false, smGet, ih]
        by_cases h3 : k' = ka
        · subst h3; simp [Ne.symm h2]
        · simp [h3]

theorem mem_of_mem_smSet {α : Type} {l : List (Bytes × α)} {k : Bytes} {v : α} {e : Bytes × α}
    (h : e ∈ smSet l k v) : e = (k, v) ∨ e ∈ l := by
  induction l with
  | nil => simp [smSet] at h; exact Or.inl h
  | cons a l ih =>
    obtain ⟨ka, va⟩ := a
    unfold smSet at h
    by_cases h1 : blt k ka = true
    · simp only [h1, if_true, List.mem_cons] at h
      rcases h with h | h | h
      · exact Or.inl h
      · exact Or.inr (by simp [h])
      · exact Or.inr (by simp [h])
    · simp only [h1, Bool.false_eq_true, if_false] at h
      by_cases h2 : k = ka
      · simp only [h2, if_true, List.mem_cons] at h
        rcases h with h | h
        · exact Or.inl (by rw [h, h2])
        · exact Or.inr (by simp [h])
      · simp only [h2, if_false, List.mem_cons] at h
        rcases h with h | h
        · exact Or.inr (by simp [h])
        · rcases ih h with h | h
          · exact Or.inl h
          · exact Or.inr (by simp [h])

theorem mem_of_mem_smDel {α : Type} {l : List (Bytes × α)} {k : Bytes} {e : Bytes × α}
    (h : e ∈ smDel l k) : e ∈ l := by
  induction l with
  | nil => simp [smDel] at h
  | cons a l ih =>
    obtain ⟨ka, va⟩ := a
    unfold smDel at h
    by_cases h2 : k = ka
    · simp only [h2, if_true] at h; exact List.mem_cons_of_mem _ h
    · simp only [h2, if_false, List.mem_cons] at h
      rcases h with h | h
      · simp [h]
      · exact List.mem_cons_of_mem _ (ih h)

/-! ## sortedness is preserved -/

theorem sorted_smSet {α : Type} {l : List (Bytes × α)} (hs : SSorted l) (k : Bytes) (v : α) :
    SSorted (smSet l k v) := by
  induction l with
  | nil => simp [smSet, SSorted]
  | cons a l ih =>
    obtain ⟨ka, va⟩ := a
    unfold smSet
    by_cases h1 : blt k ka = true
    · simp only [h1, if_true]
      refine List.pairwise_cons.mpr ⟨?_, hs⟩
      intro b hb
      rcases List.mem_cons.mp hb with rfl | hb
      · exact h1
      · exact blt_trans h1 (hs.head_lt b hb)
    · simp only [h1, Bool.false_eq_true, if_false]
      by_cases h2 : k = ka
      · subst h2
        simp only [if_true]
        exact List.pairwise_cons.mpr ⟨fun b hb => hs.head_lt b hb, hs.tail⟩
      · simp only [h2, if_false]
        refine List.pairwise_cons.mpr ⟨?_, ih hs.tail⟩
        intro b hb
        rcases mem_of_mem_smSet hb with rfl | hb
        · rcases blt_trichotomy k ka with h | h | h
          · exact absurd h h1
          · exact absurd h h2
          · exact h
        · exact hs.head_lt b hb

theorem sorted_smDel {α : Type} {l : List (Bytes × α)} (hs : SSorted l) (k : Bytes) : SSorted (smDel l k) := by
  induction l with
  | nil => simp [smDel, SSorted]
  | cons a l ih =>
    obtain ⟨ka, va⟩ := a
    unfold smDel
    by_cases h2 : k = ka
    · simp only [h2, if_true]; exact hs.tail
    · simp only [h2, if_false]
      exact List.pairwise_cons.mpr ⟨fun b hb => hs.head_lt b (mem_of_mem_smDel hb), ih hs.tail⟩

theorem smGet_eq_none_of_lt {α : Type} {l : List (Bytes × α)} {k : Bytes}
    (h : ∀ b ∈ l, blt k b.1 = true) : smGet l k = none := by
  induction l with
  | nil => rfl
  | cons a l ih =>
    obtain ⟨ka, va⟩ := a
    have h1 := h (ka, va) List.mem_cons_self
    have : k ≠ ka := by intro e; subst e; simp [blt_irrefl] at h1
    simp only [smGet, this, if_false]
    exact ih fun b hb => h b (List.mem_cons_of_mem _ hb)

theorem smGet_smDel {α : Type} {l : List (Bytes × α)} (hs : SSorted l) (k k' : Bytes) :
    smGet (smDel l k) k' = if k' = k then none else smGet l k' := by
  induction l with
  | nil => simp [smDel, smGet]
  | cons a l ih =>
    obtain ⟨ka, va⟩ := a
    unfold smDel
    by_cases h2 : k = ka
    · subst h2
      simp only [if_true]
      by_cases h3 : k' = k
      · subst h3
        simp only [if_true]
        exact smGet_eq_none_of_lt (hs.head_lt)
      · simp [smGet, h3]
    · simp only [h2, if_false, smGet, ih hs.tail]
      by_cases h3 : k' = ka
      · subst h3; simp [Ne.symm h2]
      · simp [h3]

theorem smGet_eq_some_iff {α : Type} {l : List (Bytes × α)} (hs : SSorted l) (k : Bytes) (v : α) :
    smGet l k = some v ↔ (k, v) ∈ l := by
  induction l with
  | nil => simp [smGet]
  | cons a l ih =>
    obtain ⟨ka, va⟩ := a
    simp only [smGet, List.mem_cons, Prod.mk.injEq]
    by_cases h : k = ka
    · subst h
      simp only [if_true, Option.some.injEq, true_and]
      constructor
      · intro h; exact Or.inl h.symm
      · rintro (h | h)
        · exact h.symm
        · have := hs.head_lt _ h
          simp [blt_irrefl] at this
    · simp only [h, if_false, false_and, false_or]
      exact ih hs.tail

theorem smGet_isSome_iff {α : Type} {l : List (Bytes × α)} (hs : SSorted l) (k : Bytes) :
    (smGet l k).isSome ↔ ∃ v, (k, v) ∈ l := by
  constructor
  · intro h
    obtain ⟨v, hv⟩ := Option.isSome_iff_exists.mp h
    exact ⟨v, (smGet_eq_some_iff hs k v).mp hv⟩
  · rintro ⟨v, hv⟩
    rw [(smGet_eq_some_iff hs k v).mpr hv]; rfl

end Canopy.Store

namespace Canopy.Store
open Canopy

/-! ## a well-formed key space decomposes into groups -/

theorem mkKey_inj {u u' : Bytes} {w w' : Nat} (hw : w ≤ maxVer) (hw' : w' ≤ maxVer)
    (h : mkKey u w = mkKey u' w') : u = u' ∧ w = w' := by
  unfold mkKey at h
  have hl : u.length = u'.length := by
    have := congrArg List.length h
    simp [invVer_length] at this; exact this
  obtain ⟨h1, h2⟩ := List.append_inj h hl
  exact ⟨h1, invVer_injective hw hw' h2⟩

/-- `WFKeys` at the level of the pebble key space: sorted, every key is `userKey ++ ^version` with a
non-empty user key of at most 248 bytes, and no user key is a proper byte-prefix of another -/
structure WFL (l : List Entry) : Prop where
  sorted : SSorted l
  shaped : ∀ e ∈ l, ∃ uk w, e.1 = mkKey uk w ∧ uk ≠ [] ∧ uk.length ≤ 248 ∧ w ≤ maxVer
  pf : ∀ e1 ∈ l, ∀ e2 ∈ l, ∀ u1 w1 u2 w2, e1.1 = mkKey u1 w1 → e2.1 = mkKey u2 w2 → u1 <+: u2 → u1 = u2

theorem WFL.tail {e : Entry} {l : List Entry} (h : WFL (e :: l)) : WFL l :=
  ⟨h.sorted.tail, fun x hx => h.shaped x (List.mem_cons_of_mem _ hx),
   fun a ha b hb => h.pf a (List.mem_cons_of_mem _ ha) b (List.mem_cons_of_mem _ hb)⟩

/-- keys of unrelated user keys are ordered like the user keys -/
theorem blt_uk_of_blt_key {u1 u2 : Bytes} {i1 i2 : Bytes} (hne : u1 ≠ u2) (h21 : ¬ u2 <+: u1)
    (h : blt (u1 ++ i1) (u2 ++ i2) = true) : blt u1 u2 = true := by
  rcases blt_trichotomy u1 u2 with h' | h' | h'
  · exact h'
  · exact absurd h' hne
  · have := blt_append_of_not_prefix h' h21 i2 i1
    rw [blt_asymm this] at h; cases h

theorem exists_groups (l : List Entry) (h : WFL l) : ∃ gs, WFG gs ∧ flat gs = l := by
  induction l with
  | nil => exact ⟨[], WFG.nil, rfl⟩
  | cons e l ih =>
    obtain ⟨gs, hW, hfl⟩ := ih h.tail
    obtain ⟨uk, w, hek, hne, hlen, hw⟩ := h.shaped e List.mem_cons_self
    obtain ⟨ek, raw⟩ := e
    simp only at hek
    subst hek
    -- facts about every later entry
    have hlater : ∀ g ∈ gs, ∀ q ∈ g.es, blt (mkKey uk w) (mkKey g.uk q.1) = true := by
      intro g hg q hq
      have : (mkKey g.uk q.1, q.2) ∈ l := by
        rw [← hfl]; exact mem_flat.mpr ⟨g, hg, mem_entries.mpr ⟨q, hq, rfl⟩⟩
      exact h.sorted.head_lt _ this
    have hpf : ∀ g ∈ gs, (uk <+: g.uk → uk = g.uk) ∧ (g.uk <+: uk → g.uk = uk) := by
      intro g hg
      obtain ⟨q, qs, hq⟩ := List.exists_cons_of_ne_nil (hW.wf g hg).es_ne
      have hm : (mkKey g.uk q.1, q.2) ∈ l := by
        rw [← hfl]; exact mem_flat.mpr ⟨g, hg, mem_entries.mpr ⟨q, by rw [hq]; simp, rfl⟩⟩
      exact ⟨h.pf _ List.mem_cons_self _ (List.mem_cons_of_mem _ hm) uk w g.uk q.1 rfl rfl,
        h.pf _ (List.mem_cons_of_mem _ hm) _ List.mem_cons_self g.uk q.1 uk w rfl rfl⟩
    have hord : ∀ g ∈ gs, g.uk ≠ uk → blt uk g.uk = true ∧ ¬ uk <+: g.uk := by
      intro g hg hne'
      have h12 : ¬ uk <+: g.uk := fun hp => hne' ((hpf g hg).1 hp).symm
      have h21 : ¬ g.uk <+: uk := fun hp => hne' ((hpf g hg).2 hp)
      obtain ⟨q, qs, hq⟩ := List.exists_cons_of_ne_nil (hW.wf g hg).es_ne
      exact ⟨blt_uk_of_blt_key (Ne.symm hne') h21 (hlater g hg q (by rw [hq]; simp)), h12⟩
    cases gs with
    | nil =>
      refine ⟨[⟨uk, [(w, raw)]⟩], ⟨?_, by simp⟩, ?_⟩
      · intro g hg
        simp only [List.mem_singleton] at hg
        subst hg
        exact ⟨hne, hlen, by simp, by simp, by simpa using hw⟩
      · simp [G.entries] at hfl ⊢; exact hfl
    | cons g gs' =>
      by_cases hgu : g.uk = uk
      · -- same user key: a newer version of the first group
        refine ⟨⟨uk, (w, raw) :: g.es⟩ :: gs', ⟨?_, ?_⟩, ?_⟩
        · intro x hx
          rcases List.mem_cons.mp hx with rfl | hx
          · have hgw := hW.wf g List.mem_cons_self
            refine ⟨hne, hlen, by simp, ?_, ?_⟩
            · refine List.pairwise_cons.mpr ⟨?_, hgw.desc⟩
              intro q hq
              have := hlater g List.mem_cons_self q hq
              rw [hgu, blt_mkKey_same uk hw (hgw.le_max q hq)] at this
              simpa using this
            · intro q hq
              rcases List.mem_cons.mp hq with rfl | hq
              · exact hw
              · exact hgw.le_max q hq
          · exact hW.wf x (List.mem_cons_of_mem _ hx)
        · have := hW.order
          rw [List.pairwise_cons] at this ⊢
          exact ⟨fun x hx => hgu ▸ this.1 x hx, this.2⟩
        · rw [← hfl]; simp [G.entries, hgu]
      · -- a new first group
        have hall : ∀ x ∈ g :: gs', x.uk ≠ uk := by
          intro x hx hxu
          rcases List.mem_cons.mp hx with rfl | hx'
          · exact hgu hxu
          · -- contiguity: g's entries lie between two entries of uk
            have h1 := hord g List.mem_cons_self hgu
            have h2 := (List.pairwise_cons.mp hW.order).1 x hx'
            rw [hxu] at h2
            have := blt_trans h1.1 h2.1
            rw [blt_irrefl] at this; cases this
        refine ⟨⟨uk, [(w, raw)]⟩ :: g :: gs', ⟨?_, ?_⟩, ?_⟩
        · intro x hx
          rcases List.mem_cons.mp hx with rfl | hx
          · exact ⟨hne, hlen, by simp, by simp, by simpa using hw⟩
          · exact hW.wf x hx
        · exact List.pairwise_cons.mpr ⟨fun x hx => hord x hx (hall x hx), hW.order⟩
        · rw [← hfl]; simp [G.entries]

theorem sorted_flat {gs : List G} (hW : WFG gs) : SSorted (flat gs) := by
  unfold SSorted flat
  rw [List.pairwise_flatten]
  constructor
  · intro l hl
    obtain ⟨g, hg, rfl⟩ := List.mem_map.mp hl
    have hgw := hW.wf g hg
    unfold G.entries
    rw [List.pairwise_map]
    exact hgw.desc.imp_of_mem fun {p q} hp hq hlt => by
      show blt (mkKey g.uk p.1) (mkKey g.uk q.1) = true
      rw [blt_mkKey_same g.uk (hgw.le_max p hp) (hgw.le_max q hq)]; simpa using hlt
  · rw [List.pairwise_map]
    exact hW.order.imp fun {g h} hgh x hx y hy => by
      obtain ⟨q, _, rfl⟩ := mem_entries.mp hy
      exact blt_of_earlier hgh.1 hgh.2 hx _

theorem WFG.uk_unique {gs : List G} (hW : WFG gs) {g h : G} (hg : g ∈ gs) (hh : h ∈ gs) (e : g.uk = h.uk) : g = h := by
  induction gs with
  | nil => cases hg
  | cons a gs ih =>
    have ho := List.pairwise_cons.mp hW.order
    rcases List.mem_cons.mp hg with rfl | hg' <;> rcases List.mem_cons.mp hh with rfl | hh'
    · rfl
    · have := (ho.1 h hh').1; rw [e, blt_irrefl] at this; cases this
    · have := (ho.1 g hg').1; rw [← e, blt_irrefl] at this; cases this
    · exact ih hW.tail hg' hh'

/-- the key space as a finite map: which versions of which user key are present -/
theorem smGet_flat {gs : List G} (hW : WFG gs) (uk : Bytes) (w : Nat) (hw : w ≤ maxVer) (raw : Bytes) :
    smGet (flat gs) (mkKey uk w) = some raw ↔ ∃ g ∈ gs, g.uk = uk ∧ (w, raw) ∈ g.es := by
  rw [smGet_eq_some_iff (sorted_flat hW)]
  constructor
  · intro h
    obtain ⟨g, hg, he⟩ := mem_flat.mp h
    obtain ⟨q, hq, heq⟩ := mem_entries.mp he
    simp only [Prod.mk.injEq] at heq
    obtain ⟨h1, h2⟩ := mkKey_inj hw ((hW.wf g hg).le_max q hq) heq.1
    refine ⟨g, hg, h1.symm, ?_⟩
    rw [h2, heq.2]; exact hq
  · rintro ⟨g, hg, rfl, hq⟩
    exact mem_flat.mpr ⟨g, hg, mem_entries.mpr ⟨(w, raw), hq, rfl⟩⟩

end Canopy.Store
