import Canopy.Proof.LedgerPercents
/-! C12: `InvStaking` under re-staking an existing validator with a different stake / committee list (slash,
committee trimming), and under the full `SlashValidator`. -/
namespace Canopy.Ledger
open AMap

set_option linter.unusedSimpArgs false
set_option linter.unusedVariables false

theorem Markers.of_same {L L' : Ledger} (hm : Markers L) (hv : L'.validators = L.validators) (hu : L'.unstaking = L.unstaking)
    (hp : L'.paused = L.paused) : Markers L' := by
  have hget : ∀ b, valGet? L' b = valGet? L b := by intro b; unfold valGet?; rw [hv]
  exact ⟨fun h b => by rw [hu, hget]; exact hm.unstaking h b, fun h b => by rw [hp, hget]; exact hm.paused h b,
    fun b v hvb => by rw [hget] at hvb; exact hm.exclusive b v hvb⟩

theorem WFm.of_same {L L' : Ledger} (hw : WFm L) (hv : L'.validators = L.validators) (hu : L'.unstaking = L.unstaking)
    (hp : L'.paused = L.paused) : WFm L' := ⟨by rw [hv]; exact hw.validators, by rw [hu]; exact hw.unstaking, by rw [hp]; exact hw.paused⟩

theorem InvStaking.of_sameStaking {L L' : Ledger} (hs : InvStaking L) (h : SameStaking L L') : InvStaking L' :=
  hs.of_same h.validators h.staked h.delegatedOnly h.committee h.delegated h.unstaking h.paused

/-- the tallies after an existing validator's record is replaced by `nv`, given how the supply counters moved
(additive form) -/
theorem tallies_restake {L L' : Ledger} {a : Addr} {old nv : Validator} (t : Tallies L) (hg : valGet? L a = some old)
    (hv : L'.validators = AMap.set L.validators a nv) (n2 : nv.delegate = old.delegate)
    (s1 : L'.supply.staked + old.stake = L.supply.staked + nv.stake)
    (s2 : L'.supply.delegatedOnly + (if old.delegate then old.stake else 0) = L.supply.delegatedOnly + (if old.delegate then nv.stake else 0))
    (s3 : ∀ c, comGet L' c + old.stake * old.committees.count c = comGet L c + nv.stake * nv.committees.count c)
    (s4 : ∀ c, delGet L' c + (if old.delegate then old.stake * old.committees.count c else 0) =
          delGet L c + (if old.delegate then nv.stake * nv.committees.count c else 0)) : Tallies L' := by
  have hg' : find? L.validators a = some old := hg
  have w1 := sumBy_set (fun v : Validator => v.stake) L.validators a nv
  have w2 := sumBy_set (fun v : Validator => if v.delegate then v.stake else 0) L.validators a nv
  have w3 := fun c => sumBy_set (fun v : Validator => v.stake * v.committees.count c) L.validators a nv
  have w4 := fun c => sumBy_set (fun v : Validator => if v.delegate then v.stake * v.committees.count c else 0) L.validators a nv
  rw [hg'] at w1 w2
  simp only [ow_some, n2] at w1 w2
  refine ⟨?_, ?_, ?_, ?_⟩
  · show L'.supply.staked = sumBy _ L'.validators
    rw [hv]; have := t.staked; unfold stakeSum at this; omega
  · show L'.supply.delegatedOnly = sumBy _ L'.validators
    rw [hv]; have := t.delegated; unfold dstakeSum at this
    by_cases hod : old.delegate = true
    · simp only [hod, ↓reduceIte] at w2 s2; omega
    · simp only [hod, ↓reduceIte, Bool.false_eq_true] at w2 s2; omega
  · intro c
    show comGet L' c = sumBy _ L'.validators
    rw [hv]
    have q1 := s3 c; have q3 := w3 c; have q4 := t.committee c
    rw [hg'] at q3; simp only [ow_some] at q3
    unfold comSum at q4; omega
  · intro c
    show delGet L' c = sumBy _ L'.validators
    rw [hv]
    have q1 := s4 c; have q3 := w4 c; have q4 := t.committeeDelegated c
    rw [hg'] at q3; simp only [ow_some, n2] at q3
    unfold dcomSum at q4
    by_cases hod : old.delegate = true
    · simp only [hod, ↓reduceIte] at q1 q3; omega
    · simp only [hod, ↓reduceIte, Bool.false_eq_true] at q1 q3; omega

/-- the committee / delegation bookkeeping of the non-zero slash branch, as equations on the pools -/
theorem slashMembership_eff {L L' : Ledger} {a : Addr} {val : Validator} {after x : Nat} {cs : List Nat} (hp : Pools L)
    (h : slashMembership L a val after cs x = .ok L') :
    L'.validators = L.validators ∧ L'.unstaking = L.unstaking ∧ L'.paused = L.paused ∧ L'.supply.staked = L.supply.staked ∧
    L'.params = L.params ∧ L'.height = L.height ∧ Pools L' ∧
    L'.supply.delegatedOnly + (if val.delegate then x else 0) = L.supply.delegatedOnly ∧
    (∀ c, comGet L' c + val.stake * val.committees.count c = comGet L c + after * cs.count c) ∧
    (∀ c, delGet L' c + (if val.delegate then val.stake * val.committees.count c else 0) =
          delGet L c + (if val.delegate then after * cs.count c else 0)) := by
  unfold slashMembership at h
  split at h
  · next hd =>
    obtain ⟨L1, h1, h2⟩ := bind_ok h
    obtain ⟨hle, rfl⟩ := subFromDelegated_ok h1
    unfold updateDelegations at h2
    obtain ⟨La, ha, hb⟩ := bind_ok h2
    have sa := sameCore_deleteDelegations ha
    have sb := sameCore_setDelegations hb
    obtain ⟨a1, a2, a3⟩ := deleteDelegations_eff (L := { L with supply := { L.supply with delegatedOnly := L.supply.delegatedOnly - x } })
      ⟨hp.committee, hp.delegated⟩ ha
    obtain ⟨b1, b2, b3⟩ := setDelegations_eff a3 hb
    refine ⟨by rw [sb.validators, sa.validators], by rw [sb.unstaking, sa.unstaking], by rw [sb.paused, sa.paused],
      by rw [sb.staked, sa.staked], by rw [sb.params, sa.params], by rw [sb.height, sa.height], b3, ?_, ?_, ?_⟩
    · rw [sb.delegatedOnly, sa.delegatedOnly, if_pos hd]; show L.supply.delegatedOnly - x + x = _; omega
    · intro c
      have q1 := a1 c; have q2 := b1 c
      unfold comGet at *; dsimp only at *; omega
    · intro c
      have q1 := a2 c; have q2 := b2 c
      unfold delGet at *; dsimp only at *
      simp only [hd, ↓reduceIte]; omega
  · next hd =>
    unfold updateCommittees at h
    obtain ⟨La, ha, hb⟩ := bind_ok h
    have sa := sameCore_deleteCommittees ha
    have sb := sameCore_setCommittees hb
    obtain ⟨a1, a2, a3⟩ := deleteCommittees_eff hp ha
    obtain ⟨b1, b2, b3⟩ := setCommittees_eff a3 hb
    refine ⟨by rw [sb.validators, sa.validators], by rw [sb.unstaking, sa.unstaking], by rw [sb.paused, sa.paused],
      by rw [sb.staked, sa.staked], by rw [sb.params, sa.params], by rw [sb.height, sa.height], b3, ?_, ?_, ?_⟩
    · rw [sb.delegatedOnly, sa.delegatedOnly, if_neg hd]; rfl
    · intro c
      have q1 := a1 c; have q2 := b1 c; omega
    · intro c
      have q1 := a2 c; have q2 := b2 c
      simp only [hd, ↓reduceIte, Bool.false_eq_true]; omega

end Canopy.Ledger

namespace Canopy.Ledger
open AMap
set_option linter.unusedSimpArgs false
set_option linter.unusedVariables false

/-- the heights at which deferred actions scheduled now will fire are not 0 modulo 2^64 -/
structure HeightsOK (L : Ledger) : Prop where
  unstaking : (L.height + L.params.unstakingBlocks) % U64 ≠ 0
  delegateUnstaking : (L.height + L.params.delegateUnstakingBlocks) % U64 ≠ 0
  maxPause : (L.height + L.params.maxPauseBlocks) % U64 ≠ 0

theorem HeightsOK.of_same {L L' : Ledger} (h : HeightsOK L) (h1 : L'.height = L.height) (h2 : L'.params = L.params) : HeightsOK L' :=
  ⟨by rw [h1, h2]; exact h.unstaking, by rw [h1, h2]; exact h.delegateUnstaking, by rw [h1, h2]; exact h.maxPause⟩

theorem setUnstakingIfBelowMinimum_cases (L : Ledger) (a : Addr) (val : Validator) (hh : HeightsOK L) :
    setUnstakingIfBelowMinimum L a val = (false, L) ∨
    ∃ f, f ≠ 0 ∧ val.unstakingHeight = 0 ∧ setUnstakingIfBelowMinimum L a val = (true, setValidatorUnstaking L a val f) := by
  unfold setUnstakingIfBelowMinimum
  split
  · exact Or.inl rfl
  · next hu =>
    have hu0 : val.unstakingHeight = 0 := by simpa using hu
    split
    · split
      · exact Or.inr ⟨_, hh.delegateUnstaking, hu0, rfl⟩
      · exact Or.inl rfl
    · split
      · exact Or.inr ⟨_, hh.unstaking, hu0, rfl⟩
      · exact Or.inl rfl

/-- writing the re-staked record (or force-unstaking it below the minimum) restores `InvStaking` -/
theorem restake_finish_inv {L L3 : Ledger} {a : Addr} {old nv : Validator} (hs : InvStaking L) (hg : valGet? L a = some old)
    (hv : L3.validators = L.validators) (hu : L3.unstaking = L.unstaking) (hp : L3.paused = L.paused) (pl : Pools L3)
    (hh : HeightsOK L3)
    (n2 : nv.delegate = old.delegate) (n4 : nv.unstakingHeight = old.unstakingHeight) (n5 : nv.maxPausedHeight = old.maxPausedHeight)
    (s1 : L3.supply.staked + old.stake = L.supply.staked + nv.stake)
    (s2 : L3.supply.delegatedOnly + (if old.delegate then old.stake else 0) = L.supply.delegatedOnly + (if old.delegate then nv.stake else 0))
    (s3 : ∀ c, comGet L3 c + old.stake * old.committees.count c = comGet L c + nv.stake * nv.committees.count c)
    (s4 : ∀ c, delGet L3 c + (if old.delegate then old.stake * old.committees.count c else 0) =
          delGet L c + (if old.delegate then nv.stake * nv.committees.count c else 0)) :
    InvStaking (slashFinish L3 a nv) := by
  have m3 : Markers L3 := hs.markers.of_same hv hu hp
  have w3 : WFm L3 := hs.wfm.of_same hv hu hp
  have hg3 : valGet? L3 a = some old := by unfold valGet?; rw [hv]; exact hg
  unfold slashFinish
  dsimp only
  rcases setUnstakingIfBelowMinimum_cases L3 a nv hh with e | ⟨f, hf, hu0, e⟩
  · rw [e]; simp only [Bool.false_eq_true, if_false]
    obtain ⟨m, w⟩ := markers_sameStatus (L' := valPut L3 a nv) (v := nv) m3 w3 hg3 rfl rfl rfl n4 n5
    have t := tallies_restake (L' := valPut L3 a nv) hs.tallies hg (by show AMap.set L3.validators a nv = _; rw [hv]) n2 s1 s2 s3 s4
    exact InvStaking.mk' t m w ⟨pl.committee, pl.delegated⟩
  · rw [e]; simp only [if_true]
    have hm := setValidatorUnstaking_money L3 a nv f
    obtain ⟨m, w⟩ := markers_setValidatorUnstaking (val := nv) m3 w3 hg3 (by rw [← n4]; exact hu0) n5 hf
    have t := tallies_restake (L' := setValidatorUnstaking L3 a nv f) (nv := { nv with maxPausedHeight := 0, unstakingHeight := f })
      hs.tallies hg (by rw [setValidatorUnstaking_validators, hv]) n2
      (by rw [hm.supply]; exact s1) (by rw [hm.supply]; exact s2)
      (fun c => by have := s3 c; unfold comGet at *; rw [hm.supply]; exact this)
      (fun c => by have := s4 c; unfold delGet at *; rw [hm.supply]; exact this)
    exact InvStaking.mk' t m w ⟨by rw [hm.supply]; exact pl.committee, by rw [hm.supply]; exact pl.delegated⟩

theorem sameStaking_subFromTotal {L L' : Ledger} {x : Nat} (h : subFromTotal L x = .ok L') : SameStaking L L' := by
  obtain ⟨_, rfl⟩ := subFromTotal_ok h; exact ⟨rfl, rfl, rfl, rfl, rfl, rfl, rfl, ⟨rfl, rfl, rfl, rfl⟩⟩

theorem subFromStaked_fields {L L' : Ledger} {x : Nat} (h : subFromStaked L x = .ok L') :
    L'.validators = L.validators ∧ L'.unstaking = L.unstaking ∧ L'.paused = L.paused ∧ L'.supply.staked + x = L.supply.staked ∧
    L'.supply.delegatedOnly = L.supply.delegatedOnly ∧ L'.supply.committee = L.supply.committee ∧
    L'.supply.delegated = L.supply.delegated ∧ L'.params = L.params ∧ L'.height = L.height := by
  obtain ⟨hle, rfl⟩ := subFromStaked_ok h
  exact ⟨rfl, rfl, rfl, by show L.supply.staked - x + x = _; omega, rfl, rfl, rfl, rfl, rfl⟩

theorem sameStaking_slashScope {L L0 : Ledger} {a : Addr} {val : Validator} {ch p p' : Nat} {cs' : List Nat}
    (h : slashScope L a val ch p = some (p', cs', L0)) : SameStaking L L0 := by
  obtain ⟨s0, e1, e2, e3, e4, e5⟩ := slashScope_sameBal h
  refine ⟨s0.validators, e2, e3, by rw [e1], by rw [e1], by rw [e1], by rw [e1], ⟨e5, e4, ?_, ?_⟩⟩
  · unfold slashScope at h
    split at h
    · split at h
      · cases h
      · dsimp only at h
        split at h
        · cases h
        · simp only [Option.some.injEq, Prod.mk.injEq] at h; obtain ⟨_, _, rfl⟩ := h; rfl
    · simp only [Option.some.injEq, Prod.mk.injEq] at h; obtain ⟨_, _, rfl⟩ := h; rfl
  · unfold slashScope at h
    split at h
    · split at h
      · cases h
      · dsimp only at h
        split at h
        · cases h
        · simp only [Option.some.injEq, Prod.mk.injEq] at h; obtain ⟨_, _, rfl⟩ := h; rfl
    · simp only [Option.some.injEq, Prod.mk.injEq] at h; obtain ⟨_, _, rfl⟩ := h; rfl

theorem deleteValidator_ctx {L L' : Ledger} {a : Addr} {val : Validator} (h : deleteValidator L a val = .ok L') :
    L'.height = L.height ∧ L'.params = L.params := by
  unfold deleteValidator at h
  obtain ⟨L1, h1, h⟩ := bind_ok h
  obtain ⟨_, rfl⟩ := subFromStaked_ok h1
  dsimp only at h
  split at h
  · obtain ⟨L1', h3, h⟩ := bind_ok h
    obtain ⟨_, rfl⟩ := subFromDelegated_ok h3
    dsimp only at h
    obtain ⟨L2, h2, h⟩ := bind_ok h
    obtain rfl := Except.ok.inj h
    exact ⟨(sameCore_deleteDelegations h2).height, (sameCore_deleteDelegations h2).params⟩
  · obtain ⟨L2, h2, h⟩ := bind_ok h
    obtain rfl := Except.ok.inj h
    exact ⟨(sameCore_deleteCommittees h2).height, (sameCore_deleteCommittees h2).params⟩

theorem slashFinish_ctx (L : Ledger) (a : Addr) (v : Validator) :
    (slashFinish L a v).height = L.height ∧ (slashFinish L a v).params = L.params := by
  unfold slashFinish
  dsimp only
  rcases setUnstakingIfBelowMinimum_eq L a v with e | ⟨f, e⟩
  · rw [e]; simp only [Bool.false_eq_true, if_false]; exact ⟨rfl, rfl⟩
  · rw [e]; simp only [if_true]
    unfold setValidatorUnstaking valPut; split <;> exact ⟨rfl, rfl⟩

/-- **`SlashValidator` keeps `InvStaking`** — zero branch (record and markers removed), non-zero branch for validators
and delegates, committee-scoped ejection under protocol v2, forced unstake below the minimum -/
theorem slashValidator_inv {L L' : Ledger} {a : Addr} {val : Validator} {ch p : Nat} (hs : InvStaking L) (hh : HeightsOK L)
    (hg : valGet? L a = some val) (h : slashValidator L a val ch p = .ok L') :
    InvStaking L' ∧ L'.height = L.height ∧ L'.params = L.params := by
  unfold slashValidator slashValidatorWith at h
  split at h
  · obtain rfl := Except.ok.inj h; exact ⟨hs, rfl, rfl⟩
  · next p' cs' L0 hsc =>
    have ss0 := sameStaking_slashScope hsc
    have hle := stakeAfterSlash_le val.stake p'
    dsimp only at h
    split at h
    · exact absurd h (by intro h; cases h)
    · next L1 h1 =>
      have ss1 := ss0.trans (sameStaking_subFromTotal h1)
      have hs1 : InvStaking L1 := hs.of_sameStaking ss1
      have hg1 : valGet? L1 a = some val := by unfold valGet?; rw [ss1.validators]; exact hg
      have hh1 : HeightsOK L1 := hh.of_same ss1.ctx.height ss1.ctx.params
      split at h
      · have hz := slashToZero_inv hs1 hg1 h
        have e1 : (slashCleanMarkers true L1 a val).height = L1.height := by
          unfold slashCleanMarkers; dsimp only; split <;> split <;> rfl
        have e2 : (slashCleanMarkers true L1 a val).params = L1.params := by
          unfold slashCleanMarkers; dsimp only; split <;> split <;> rfl
        obtain ⟨c1, c2⟩ := deleteValidator_ctx h
        exact ⟨hz, by rw [c1, e1, ss1.ctx.height], by rw [c2, e2, ss1.ctx.params]⟩
      · split at h
        · exact absurd h (by intro h; cases h)
        · next L2 h2 =>
          obtain ⟨f1, f2, f3, f4, f5, f6, f7, f8, f9⟩ := subFromStaked_fields h2
          split at h
          · exact absurd h (by intro h; cases h)
          · next L3 h3 =>
            obtain rfl := Except.ok.inj h
            obtain ⟨m1, m2, m3, m4, m5, m6, m7, m8, m9, m10⟩ := slashMembership_eff (h := h3)
              (hp := ⟨by rw [f6]; exact hs1.wf.committee, by rw [f7]; exact hs1.wf.delegated⟩)
            have hcom : ∀ c, comGet L2 c = comGet L1 c := by intro c; unfold comGet; rw [f6]
            have hdel : ∀ c, delGet L2 c = delGet L1 c := by intro c; unfold delGet; rw [f7]
            have hfin := restake_finish_inv (L := L1) (L3 := L3) (a := a) (old := val)
              (nv := { val with committees := cs', stake := stakeAfterSlash val.stake p' }) hs1 hg1
              (by rw [m1, f1]) (by rw [m2, f2]) (by rw [m3, f3]) m7 (hh1.of_same (by rw [m6, f9]) (by rw [m5, f8]))
              rfl rfl rfl (by rw [m4]; show L2.supply.staked + val.stake = L1.supply.staked + stakeAfterSlash val.stake p'; omega)
              (by
                show L3.supply.delegatedOnly + _ = L1.supply.delegatedOnly + _
                have q := m8
                by_cases hd : val.delegate = true
                · simp only [hd, ↓reduceIte] at q ⊢; omega
                · simp only [hd, ↓reduceIte, Bool.false_eq_true] at q ⊢; omega)
              (fun c => by have := m9 c; rw [hcom] at this; exact this)
              (fun c => by have := m10 c; rw [hdel] at this; exact this)
            obtain ⟨c1, c2⟩ := slashFinish_ctx L3 a { val with committees := cs', stake := stakeAfterSlash val.stake p' }
            exact ⟨hfin, by rw [c1, m6, f9, ss1.ctx.height], by rw [c2, m5, f8, ss1.ctx.params]⟩

end Canopy.Ledger

namespace Canopy.Ledger
open AMap
set_option linter.unusedSimpArgs false
set_option linter.unusedVariables false

/-- `SlashValidators` (every listed validator is looked up again before it is slashed) -/
theorem slashValidators_inv {ch p : Nat} : ∀ {as : List Addr} {L L' : Ledger}, InvStaking L → HeightsOK L →
    slashValidators L ch p as = .ok L' → InvStaking L' ∧ L'.height = L.height ∧ L'.params = L.params
  | [], L, L', hs, _, h => by obtain rfl := Except.ok.inj h; exact ⟨hs, rfl, rfl⟩
  | a :: as, L, L', hs, hh, h => by
    unfold slashValidators slashValidatorsWith at h
    split at h
    · exact slashValidators_inv hs hh h
    · next val hv =>
      obtain ⟨L1, h1, h2⟩ := bind_ok h
      obtain ⟨i1, f1, f2⟩ := slashValidator_inv hs hh hv h1
      obtain ⟨i2, e1, e2⟩ := slashValidators_inv (L := L1) i1 (hh.of_same f1 f2) h2
      exact ⟨i2, e1.trans f1, e2.trans f2⟩

end Canopy.Ledger
