import Canopy.Proof.SmtHistory
/-! `CommitParallel` of the model equals the sequential `Commit` (C08): a worker confined to the subtree below its
3-bit prefix does what the same operations do on the whole tree; the synthetic borders keep every subtree root in
place and leave no trace. Core only. -/
namespace Canopy.Smt
open Trie

/-! ### map level: what a batch with one operation per key does -/

/-- the binding an operation leaves at its key -/
def Op.effect : Op → Option Bytes
  | .set _ v => some v
  | .del _ => none

/-- at most one operation per key (a Go map keyed by the user key, and no two user keys on one leaf) -/
def KeyFun (ops : List Op) : Prop := ∀ a ∈ ops, ∀ b ∈ ops, a.key = b.key → a = b

theorem KMap.apply_key (S : KMap) (op : Op) : (S.apply op) op.key = op.effect := by
  cases op <;> simp [KMap.apply, KMap.set, KMap.erase, Op.key, Op.effect]

theorem KMap.apply_other (S : KMap) (op : Op) {k : Key} (h : op.key ≠ k) : (S.apply op) k = S k := by
  cases op <;> simp [KMap.apply, KMap.set, KMap.erase, Op.key] at h ⊢ <;> intro e <;> exact absurd e.symm h

theorem run_absent : ∀ (ops : List Op) (S : KMap) (k : Key), (∀ op ∈ ops, op.key ≠ k) → (S.run ops) k = S k
  | [], _, _, _ => rfl
  | op :: ops, S, k, h => by
    have := run_absent ops (S.apply op) k (fun o ho => h o (by simp [ho]))
    simp only [KMap.run, List.foldl_cons] at this ⊢
    rw [this, KMap.apply_other S op (h op (by simp))]

theorem run_unique : ∀ (ops : List Op) (S : KMap) (op : Op), KeyFun ops → op ∈ ops →
    (S.run ops) op.key = op.effect
  | [], _, _, _, h => by simp at h
  | o :: ops, S, op, hf, hm => by
    simp only [KMap.run, List.foldl_cons]
    by_cases hin : op ∈ ops
    · exact run_unique ops (S.apply o) op (fun a ha b hb => hf a (by simp [ha]) b (by simp [hb])) hin
    · have ho : op = o := by simpa [hin] using hm
      subst ho
      have habs : ∀ x ∈ ops, x.key ≠ op.key := by
        intro x hx e
        have := hf x (by simp [hx]) op (by simp) e
        exact hin (this ▸ hx)
      have := run_absent ops (S.apply op) op.key habs
      simp only [KMap.run] at this
      rw [this, KMap.apply_key]

theorem run_append (S : KMap) (a b : List Op) : S.run (a ++ b) = (S.run a).run b := by
  simp [KMap.run, List.foldl_append]

theorem Trie.run_append (t : Trie) (a b : List Op) : t.run (a ++ b) = (t.run a).run b := by
  simp [Trie.run, List.foldl_append]

/-! ### tree level: a worker below its subtree root -/

namespace Trie

theorem applyAt_id (path : Key) : ∀ t : Trie, applyAt path (fun x => x) t = t
  | leaf _ _ => rfl
  | node p l r => by
    unfold applyAt
    split
    · rfl
    · split
      · rw [applyAt_id path l]
      · split
        · rw [applyAt_id path r]
        · rfl

/-- the two keys that pin the subtree root at `path`: one on each side right below it -/
structure Pinned (n : Nat) (path lo hi : Key) (t : Trie) : Prop where
  wf : WF n t
  lo_side : path ++ [false] <+: lo
  hi_side : path ++ [true] <+: hi
  lo_mem : lo ∈ t.keys
  hi_mem : hi ∈ t.keys

theorem Pinned.not_leaf {n : Nat} {path lo hi k : Key} {v : Bytes} : ¬ Pinned n path lo hi (leaf k v) := by
  intro h
  have h1 := h.lo_mem; have h2 := h.hi_mem
  rw [keys_leaf] at h1 h2; simp at h1 h2
  have := prefix_bit_unique (h1 ▸ h.lo_side) (h2 ▸ h.hi_side)
  cases this

/-- below a pinned node the prefix is `path` itself or a proper prefix of it, and then both pins are on the side
towards `path` -/
theorem Pinned.cases {n : Nat} {path lo hi p : Key} {l r : Trie} (h : Pinned n path lo hi (node p l r)) :
    p = path ∨ (p ++ [false] <+: path ∧ Pinned n path lo hi l) ∨ (p ++ [true] <+: path ∧ Pinned n path lo hi r) := by
  have plo := node_prefix h.wf h.lo_mem
  have phi := node_prefix h.wf h.hi_mem
  have hlo := prefix_of_snoc_prefix h.lo_side
  rcases List.prefix_or_prefix_of_prefix plo hlo with hp | hp
  · -- p is a prefix of path
    obtain ⟨rest, hrest⟩ := hp
    cases rest with
    | nil => left; simpa using hrest
    | cons c rest =>
      right
      have hc : p ++ [c] <+: path := ⟨rest, by rw [← hrest]; simp⟩
      have hclo : p ++ [c] <+: lo := hc.trans hlo
      have hchi : p ++ [c] <+: hi := hc.trans (prefix_of_snoc_prefix h.hi_side)
      cases c
      · left
        refine ⟨hc, h.wf.1, h.lo_side, h.hi_side, ?_, ?_⟩
        · rcases mem_keys_node.mp h.lo_mem with x | x
          · exact x
          · exact absurd (prefix_bit_unique hclo (h.wf.2.2.2 _ x)) (by simp)
        · rcases mem_keys_node.mp h.hi_mem with x | x
          · exact x
          · exact absurd (prefix_bit_unique hchi (h.wf.2.2.2 _ x)) (by simp)
      · right
        refine ⟨hc, h.wf.2.1, h.lo_side, h.hi_side, ?_, ?_⟩
        · rcases mem_keys_node.mp h.lo_mem with x | x
          · exact absurd (prefix_bit_unique hclo (h.wf.2.2.1 _ x)) (by simp)
          · exact x
        · rcases mem_keys_node.mp h.hi_mem with x | x
          · exact absurd (prefix_bit_unique hchi (h.wf.2.2.1 _ x)) (by simp)
          · exact x
  · -- path is a prefix of p: then p = path, otherwise both pins would agree on the bit after path
    obtain ⟨rest, hrest⟩ := hp
    cases rest with
    | nil => left; simpa using hrest.symm
    | cons c rest =>
      exfalso
      have hc : path ++ [c] <+: p := ⟨rest, by rw [← hrest]; simp⟩
      have e1 := prefix_bit_unique (hc.trans plo) h.lo_side
      have e2 := prefix_bit_unique (hc.trans phi) h.hi_side
      rw [e1] at e2; cases e2

/-- a set below `path`, done by the worker at the subtree root or on the whole tree, is the same thing -/
theorem applyAt_insert {n : Nat} {path lo hi k : Key} {v : Bytes} (g : Trie → Trie) (hk : k.length = n)
    (hpk : path <+: k) (hpl : path.length < n) :
    ∀ t : Trie, Pinned n path lo hi t → applyAt path (fun x => g (insert k v x)) t = applyAt path g (insert k v t)
  | leaf _ _, h => absurd h Pinned.not_leaf
  | node p l r, h => by
    have hside : ∀ q : Key, q <+: path → q.length < n → q ++ [false] <+: k ∨ q ++ [true] <+: k := fun q hq hl =>
      snoc_prefix_of_prefix_lt (hq.trans hpk) (by omega)
    rcases h.cases with e | ⟨hc, hl⟩ | ⟨hc, hr⟩
    · subst e
      have hins : ∃ l' r', insert k v (node p l r) = node p l' r' := by
        rcases hside p (List.prefix_refl _) hpl with s | s
        · exact ⟨insert k v l, r, by simp only [insert, if_pos s]⟩
        · by_cases s' : p ++ [false] <+: k
          · exact ⟨insert k v l, r, by simp only [insert, if_pos s']⟩
          · exact ⟨l, insert k v r, by simp only [insert, if_neg s', if_pos s]⟩
      obtain ⟨l', r', e⟩ := hins
      rw [e]
      simp only [applyAt, if_true]
      rw [← e]
    · have hne : p ≠ path := by
        intro e; subst e
        have := hc.length_le; simp at this; omega
      have hk' : p ++ [false] <+: k := hc.trans hpk
      have e : insert k v (node p l r) = node p (insert k v l) r := by
        simp only [insert, if_pos hk']
      rw [e]
      simp only [applyAt, if_neg hne, if_pos hc]
      rw [applyAt_insert g hk hpk hpl l hl]
    · have hne : p ≠ path := by
        intro e; subst e
        have := hc.length_le; simp at this; omega
      have hk' : p ++ [true] <+: k := hc.trans hpk
      have hnf : ¬ p ++ [false] <+: k := fun x => absurd (prefix_bit_unique x hk') (by simp)
      have hnf' : ¬ p ++ [false] <+: path := fun x => absurd (prefix_bit_unique x hc) (by simp)
      have e : insert k v (node p l r) = node p l (insert k v r) := by
        simp only [insert, if_neg hnf, if_pos hk']
      rw [e]
      simp only [applyAt, if_neg hne, if_neg hnf', if_pos hc]
      rw [applyAt_insert g hk hpk hpl r hr]

/-- deleting below a pinned node never removes the node: the pins stay -/
theorem delete_pinned_root {n : Nat} {p lo hi k : Key} {l r : Trie} (h : Pinned n p lo hi (node p l r))
    (hlo : k ≠ lo) (hhi : k ≠ hi) : ∃ l' r', delete k (node p l r) = node p l' r' := by
  have lo_l : lo ∈ l.keys := by
    rcases mem_keys_node.mp h.lo_mem with x | x
    · exact x
    · exact absurd (prefix_bit_unique h.lo_side (h.wf.2.2.2 _ x)) (by simp)
  have hi_r : hi ∈ r.keys := by
    rcases mem_keys_node.mp h.hi_mem with x | x
    · exact absurd (prefix_bit_unique h.hi_side (h.wf.2.2.1 _ x)) (by simp)
    · exact x
  by_cases s : p ++ [false] <+: k
  · cases l with
    | leaf k0 v0 =>
      have : k0 ≠ k := by
        intro e; subst e
        rw [keys_leaf] at lo_l; simp at lo_l; exact hlo lo_l.symm
      exact ⟨leaf k0 v0, r, by simp only [delete, if_pos s, if_neg this]⟩
    | node q a b => exact ⟨delete k (node q a b), r, by simp only [delete, if_pos s]⟩
  · by_cases s' : p ++ [true] <+: k
    · cases r with
      | leaf k0 v0 =>
        have : k0 ≠ k := by
          intro e; subst e
          rw [keys_leaf] at hi_r; simp at hi_r; exact hhi hi_r.symm
        exact ⟨l, leaf k0 v0, by simp only [delete, if_neg s, if_pos s', if_neg this]⟩
      | node q a b => exact ⟨l, delete k (node q a b), by simp only [delete, if_neg s, if_pos s']⟩
    · exact ⟨l, r, by simp only [delete, if_neg s, if_neg s']⟩

theorem applyAt_delete {n : Nat} {path lo hi k : Key} (g : Trie → Trie)
    (hpk : path <+: k) (hlo : k ≠ lo) (hhi : k ≠ hi) :
    ∀ t : Trie, Pinned n path lo hi t → applyAt path (fun x => g (delete k x)) t = applyAt path g (delete k t)
  | leaf _ _, h => absurd h Pinned.not_leaf
  | node p l r, h => by
    rcases h.cases with e | ⟨hc, hl⟩ | ⟨hc, hr⟩
    · subst e
      obtain ⟨l', r', e⟩ := delete_pinned_root h hlo hhi
      rw [e]
      simp only [applyAt, if_true]
      rw [← e]
    · have hne : p ≠ path := by
        intro e; subst e
        have := hc.length_le; simp at this; omega
      have hk' : p ++ [false] <+: k := hc.trans hpk
      cases l with
      | leaf _ _ => exact absurd hl Pinned.not_leaf
      | node q a b =>
        have e : delete k (node p (node q a b) r) = node p (delete k (node q a b)) r := by
          simp only [delete, if_pos hk']
        rw [e]
        simp only [applyAt, if_neg hne, if_pos hc]
        have := applyAt_delete g hpk hlo hhi (node q a b) hl
        simp only [applyAt] at this
        rw [this]
    · have hne : p ≠ path := by
        intro e; subst e
        have := hc.length_le; simp at this; omega
      have hk' : p ++ [true] <+: k := hc.trans hpk
      have hnf : ¬ p ++ [false] <+: k := fun x => absurd (prefix_bit_unique x hk') (by simp)
      have hnf' : ¬ p ++ [false] <+: path := fun x => absurd (prefix_bit_unique x hc) (by simp)
      cases r with
      | leaf _ _ => exact absurd hr Pinned.not_leaf
      | node q a b =>
        have e : delete k (node p l (node q a b)) = node p l (delete k (node q a b)) := by
          simp only [delete, if_neg hnf, if_pos hk']
        rw [e]
        simp only [applyAt, if_neg hne, if_neg hnf', if_pos hc]
        have := applyAt_delete g hpk hlo hhi (node q a b) hr
        simp only [applyAt] at this
        rw [this]

end Trie
end Canopy.Smt

namespace Canopy.Smt
open Trie

/-! ### one worker -/

theorem foldl_apply_cons (op : Op) (rest : List Op) (x : Trie) :
    (op :: rest).foldl Op.apply x = rest.foldl Op.apply (op.apply x) := rfl

/-- what one worker does below its subtree root is what the same operations do on the whole tree -/
theorem worker_ops_eq {n : Nat} {path lo hi : Key} (hn : 0 < n) (hpl : path.length < n)
    (hlo : path ++ [false] <+: lo) (hhi : path ++ [true] <+: hi) :
    ∀ (mine : List Op) (s : Trie) (M : KMap), s.Rep n M → M.HasSentinels n → M lo ≠ none → M hi ≠ none →
      (∀ op ∈ mine, op.Valid n ∧ op.key.length = n ∧ path <+: op.key ∧ op.key ≠ lo ∧ op.key ≠ hi) →
      applyAt path (fun x => mine.foldl Op.apply x) s = mine.foldl Op.apply s
  | [], s, _, _, _, _, _, _ => applyAt_id path s
  | op :: rest, s, M, hr, hs, mlo, mhi, hops => by
    obtain ⟨hv, hlen, hpk, nlo, nhi⟩ := hops op (by simp)
    have pin : Pinned n path lo hi s := ⟨hr.1, hlo, hhi, mem_keys_of_rep hr mlo, mem_keys_of_rep hr mhi⟩
    have hr' := rep_apply hr hs hn hv
    have hs' := hasSentinels_apply hs hv
    have mlo' : (M.apply op) lo ≠ none := by rw [KMap.apply_other M op nlo]; exact mlo
    have mhi' : (M.apply op) hi ≠ none := by rw [KMap.apply_other M op nhi]; exact mhi
    have ih := worker_ops_eq hn hpl hlo hhi rest (op.apply s) (M.apply op) hr' hs' mlo' mhi'
      (fun o ho => hops o (by simp [ho]))
    simp only [foldl_apply_cons]
    rw [← ih]
    cases op with
    | set k v => exact applyAt_insert (fun y => rest.foldl Op.apply y) hlen hpk hpl s pin
    | del k => exact applyAt_delete (fun y => rest.foldl Op.apply y) hpk nlo nhi s pin

/-! ### the synthetic borders -/

/-- the smallest / largest key below the 3-bit prefix `i`: a synthetic border, or the sentinel at the two ends -/
def lowK (n i : Nat) : Key := bits3 i ++ List.replicate (n - 3) false
def highK (n i : Nat) : Key := bits3 i ++ List.replicate (n - 3) true

theorem bits3_length (i : Nat) : (bits3 i).length = 3 := rfl

theorem borderLow_eq {n : Nat} (hn : 3 ≤ n) (i : Nat) : borderLow n i = lowK n i := by
  unfold borderLow lowK
  apply List.take_of_length_le
  simp [bits3_length]; omega

theorem borderHigh_eq {n : Nat} (hn : 3 ≤ n) (i : Nat) : borderHigh n i = highK n i := by
  unfold borderHigh highK
  apply List.take_of_length_le
  simp [bits3_length]; omega

theorem lowK_zero {n : Nat} (hn : 3 ≤ n) : lowK n 0 = minKey n := by
  unfold lowK minKey
  obtain ⟨m, rfl⟩ : ∃ m, n = m + 3 := ⟨n - 3, by omega⟩
  simp [bits3, List.replicate_succ]

theorem highK_seven {n : Nat} (hn : 3 ≤ n) : highK n 7 = maxKey n := by
  unfold highK maxKey
  obtain ⟨m, rfl⟩ : ∃ m, n = m + 3 := ⟨n - 3, by omega⟩
  simp [bits3, List.replicate_succ]

theorem lowK_length {n : Nat} (hn : 3 ≤ n) (i : Nat) : (lowK n i).length = n := by
  simp [lowK, bits3_length]; omega
theorem highK_length {n : Nat} (hn : 3 ≤ n) (i : Nat) : (highK n i).length = n := by
  simp [highK, bits3_length]; omega

theorem lowK_side {n : Nat} (hn : 4 ≤ n) (i : Nat) : bits3 i ++ [false] <+: lowK n i := by
  unfold lowK
  apply (List.prefix_append_right_inj _).mpr
  have : n - 3 = (n - 4) + 1 := by omega
  rw [this, List.replicate_succ]
  exact ⟨_, rfl⟩

theorem highK_side {n : Nat} (hn : 4 ≤ n) (i : Nat) : bits3 i ++ [true] <+: highK n i := by
  unfold highK
  apply (List.prefix_append_right_inj _).mpr
  have : n - 3 = (n - 4) + 1 := by omega
  rw [this, List.replicate_succ]
  exact ⟨_, rfl⟩

theorem mem_borders {n : Nat} (hn : 3 ≤ n) {b : Key} :
    b ∈ borders n ↔ ∃ i, i < 8 ∧ ((i ≠ 0 ∧ b = lowK n i) ∨ (i ≠ 7 ∧ b = highK n i)) := by
  unfold borders
  simp only [List.mem_flatMap, List.mem_range, List.mem_append]
  constructor
  · rintro ⟨i, hi, h | h⟩
    · by_cases e : i = 0
      · simp [e] at h
      · simp [e] at h; exact ⟨i, hi, Or.inl ⟨e, by rw [h, borderLow_eq hn]⟩⟩
    · by_cases e : i = 7
      · simp [e] at h
      · simp [e] at h; exact ⟨i, hi, Or.inr ⟨e, by rw [h, borderHigh_eq hn]⟩⟩
  · rintro ⟨i, hi, ⟨e, h⟩ | ⟨e, h⟩⟩
    · exact ⟨i, hi, Or.inl (by simp [e, h, borderLow_eq hn])⟩
    · exact ⟨i, hi, Or.inr (by simp [e, h, borderHigh_eq hn])⟩

theorem bits3_has_true : ∀ i, i < 8 → i ≠ 0 → true ∈ bits3 i := by decide
theorem bits3_has_false : ∀ i, i < 8 → i ≠ 7 → false ∈ bits3 i := by decide
theorem bits3_inj : ∀ i, i < 8 → ∀ j, j < 8 → bits3 i = bits3 j → i = j := by decide

theorem border_not_sentinel {n : Nat} (hn : 4 ≤ n) {b : Key} (hb : b ∈ borders n) : b ≠ minKey n ∧ b ≠ maxKey n := by
  obtain ⟨i, hi, ⟨e, rfl⟩ | ⟨e, rfl⟩⟩ := (mem_borders (by omega)).mp hb
  · constructor
    · intro h
      have : true ∈ minKey n := h ▸ (by simp [lowK, bits3_has_true i hi e])
      simp [minKey] at this
    · intro h
      have : false ∈ maxKey n := h ▸ (by
        simp only [lowK, List.mem_append, List.mem_replicate]
        exact Or.inr ⟨by omega, trivial⟩)
      simp [maxKey] at this
  · constructor
    · intro h
      have : true ∈ minKey n := h ▸ (by
        simp only [highK, List.mem_append, List.mem_replicate]
        exact Or.inr ⟨by omega, trivial⟩)
      simp [minKey] at this
    · intro h
      have : false ∈ maxKey n := h ▸ (by simp [highK, bits3_has_false i hi e])
      simp [maxKey] at this

theorem border_length {n : Nat} (hn : 3 ≤ n) {b : Key} (hb : b ∈ borders n) : b.length = n := by
  obtain ⟨i, _, ⟨_, rfl⟩ | ⟨_, rfl⟩⟩ := (mem_borders hn).mp hb
  · exact lowK_length hn i
  · exact highK_length hn i

/-- `lowK n i` / `highK n i` is a border or a sentinel -/
theorem lowK_cases {n : Nat} (hn : 3 ≤ n) {i : Nat} (hi : i < 8) : lowK n i = minKey n ∨ lowK n i ∈ borders n := by
  by_cases e : i = 0
  · left; rw [e, lowK_zero hn]
  · right; exact (mem_borders hn).mpr ⟨i, hi, Or.inl ⟨e, rfl⟩⟩

theorem highK_cases {n : Nat} (hn : 3 ≤ n) {i : Nat} (hi : i < 8) : highK n i = maxKey n ∨ highK n i ∈ borders n := by
  by_cases e : i = 7
  · left; rw [e, highK_seven hn]
  · right; exact (mem_borders hn).mpr ⟨i, hi, Or.inr ⟨e, rfl⟩⟩

theorem take3_bits3 : ∀ (k : Key), 3 ≤ k.length → ∃ i, i < 8 ∧ k.take 3 = bits3 i
  | a :: b :: c :: _, _ => by
    cases a <;> cases b <;> cases c
    · exact ⟨0, by decide, rfl⟩
    · exact ⟨1, by decide, rfl⟩
    · exact ⟨2, by decide, rfl⟩
    · exact ⟨3, by decide, rfl⟩
    · exact ⟨4, by decide, rfl⟩
    · exact ⟨5, by decide, rfl⟩
    · exact ⟨6, by decide, rfl⟩
    · exact ⟨7, by decide, rfl⟩
  | [], h => by simp at h
  | [_], h => by simp at h
  | [_, _], h => by simp at h

end Canopy.Smt

namespace Canopy.Smt
open Trie

/-! ### assembling `CommitParallel` -/

/-- the conditions under which `CommitParallel` is meant to run: one valid operation per key, no operation on a reserved
key, and no key — in the batch or in the state — equal to one of the 14 synthetic borders (each of these needs a
SHA-256 preimage for 160-bit keys) -/
structure ParOK (n : Nat) (S : KMap) (ops : List Op) : Prop where
  valid : ∀ op ∈ ops, op.Valid n
  len : ∀ op ∈ ops, op.key.length = n
  notReserved : ∀ op ∈ ops, op.key ≠ minKey n ∧ op.key ≠ maxKey n ∧ op.key ≠ rootKey n
  keyFun : KeyFun ops
  opsAvoidBorders : ∀ op ∈ ops, op.key ∉ borders n
  stateAvoidsBorders : ∀ b ∈ borders n, S b = none

/-- the group of worker `i` -/
def mine (ops : List Op) (i : Nat) : List Op := (sortOps ops).filter fun op => op.key.take 3 == bits3 i

theorem mem_mine {ops : List Op} {i : Nat} {op : Op} : op ∈ mine ops i ↔ op ∈ ops ∧ op.key.take 3 = bits3 i := by
  simp [mine, sortOps]

theorem worker_def (i : Nat) (ops : List Op) (t : Trie) :
    worker i ops t = applyAt (bits3 i) (fun s => (mine ops i).foldl Op.apply s) t := rfl

/-- the pins of all eight subtrees are in the map -/
def PinsPresent (n : Nat) (M : KMap) : Prop := ∀ i, i < 8 → M (lowK n i) ≠ none ∧ M (highK n i) ≠ none

theorem op_ne_pin {n : Nat} {S : KMap} {ops : List Op} (hn : 3 ≤ n) (ok : ParOK n S ops) {op : Op} (hop : op ∈ ops)
    {j : Nat} (hj : j < 8) : op.key ≠ lowK n j ∧ op.key ≠ highK n j := by
  have hr := ok.notReserved op hop
  have hb := ok.opsAvoidBorders op hop
  constructor
  · intro e
    rcases lowK_cases hn hj with h | h
    · exact hr.1 (e.trans h)
    · exact hb (e ▸ h)
  · intro e
    rcases highK_cases hn hj with h | h
    · exact hr.2.1 (e.trans h)
    · exact hb (e ▸ h)

theorem pins_run {n : Nat} {S M : KMap} {ops : List Op} (hn : 3 ≤ n) (ok : ParOK n S ops) (hp : PinsPresent n M)
    (l : List Op) (hl : ∀ op ∈ l, op ∈ ops) : PinsPresent n (M.run l) := by
  intro j hj
  constructor
  · rw [run_absent l M _ (fun op ho => (op_ne_pin hn ok (hl op ho) hj).1)]; exact (hp j hj).1
  · rw [run_absent l M _ (fun op ho => (op_ne_pin hn ok (hl op ho) hj).2)]; exact (hp j hj).2

/-- all workers, in any order: the concatenation of their groups as one history on the whole tree -/
theorem workers_eq {n : Nat} {S : KMap} {ops : List Op} (hn : 4 ≤ n) (ok : ParOK n S ops) :
    ∀ (sched : List Nat), (∀ i ∈ sched, i < 8) → ∀ (t1 : Trie) (M1 : KMap), t1.Rep n M1 → M1.HasSentinels n →
      PinsPresent n M1 →
      sched.foldl (fun s i => worker i ops s) t1 = t1.run (sched.flatMap (mine ops))
  | [], _, _, _, _, _, _ => rfl
  | i :: sched, hs, t1, M1, hr, hsen, hp => by
    have hi : i < 8 := hs i (by simp)
    have hmem : ∀ op ∈ mine ops i, op ∈ ops := fun op ho => (mem_mine.mp ho).1
    have hvalid : ∀ op ∈ mine ops i, op.Valid n := fun op ho => ok.valid op (hmem op ho)
    have hw : worker i ops t1 = t1.run (mine ops i) := by
      rw [worker_def]
      exact worker_ops_eq (by omega) (by rw [bits3_length]; omega) (lowK_side hn i) (highK_side hn i) (mine ops i) t1 M1
        hr hsen (hp i hi).1 (hp i hi).2 (fun op ho => by
          have hm := mem_mine.mp ho
          refine ⟨ok.valid op hm.1, ok.len op hm.1, ?_, (op_ne_pin (by omega) ok hm.1 hi).1, (op_ne_pin (by omega) ok hm.1 hi).2⟩
          rw [← hm.2]; exact List.take_prefix _ _)
    have hrun := rep_run (by omega : 0 < n) (mine ops i) hr hsen hvalid
    have ih := workers_eq hn ok sched (fun j hj => hs j (by simp [hj])) (t1.run (mine ops i)) (M1.run (mine ops i))
      hrun.1 hrun.2 (pins_run (by omega) ok hp _ hmem)
    simp only [List.foldl_cons, List.flatMap_cons, hw, ih, Trie.run_append]

theorem not_reserved_any {n : Nat} {S : KMap} {ops : List Op} (ok : ParOK n S ops) :
    (ops.any fun op => op.key == minKey n || op.key == maxKey n || op.key == rootKey n) = false := by
  rw [List.any_eq_false]
  intro op hop
  have := ok.notReserved op hop
  simp [this.1, this.2.1, this.2.2]

def borderSets (n : Nat) : List Op := (borders n).map fun b => Op.set b borderVal
def borderDels (n : Nat) : List Op := (borders n).map Op.del

theorem mem_borderSets {n : Nat} {op : Op} : op ∈ borderSets n ↔ ∃ b ∈ borders n, op = Op.set b borderVal := by
  simp [borderSets, eq_comm]
theorem mem_borderDels {n : Nat} {op : Op} : op ∈ borderDels n ↔ ∃ b ∈ borders n, op = Op.del b := by
  simp [borderDels, eq_comm]

theorem keyFun_borderSets (n : Nat) : KeyFun (sortOps (borderSets n)) := by
  intro a ha b hb e
  obtain ⟨x, _, rfl⟩ := mem_borderSets.mp (by simpa [sortOps] using ha)
  obtain ⟨y, _, rfl⟩ := mem_borderSets.mp (by simpa [sortOps] using hb)
  simp [Op.key] at e; rw [e]

theorem keyFun_borderDels (n : Nat) : KeyFun (sortOps (borderDels n)) := by
  intro a ha b hb e
  obtain ⟨x, _, rfl⟩ := mem_borderDels.mp (by simpa [sortOps] using ha)
  obtain ⟨y, _, rfl⟩ := mem_borderDels.mp (by simpa [sortOps] using hb)
  simp [Op.key] at e; rw [e]

/-- **Parallel = sequential.** On a batch and state that satisfy `ParOK`, `CommitParallel` — borders in, the eight
workers each confined to its subtree and taken in ANY order `sched`, borders out — returns exactly what the sequential
`Commit` returns: no error, and the canonical tree of the updated state ("removed without trace"). -/
theorem commitParallelWith_eq_commit {n : Nat} (hn : 4 ≤ n) {t : Trie} {S : KMap} {ops : List Op}
    (h : t.Rep n S) (hs : S.HasSentinels n) (ok : ParOK n S ops)
    (sched : List Nat) (hsched : ∀ i, i ∈ sched ↔ i < 8) :
    commitParallelWith sched n t ops = commit t ops := by
  have hn0 : 0 < n := by omega
  have hn3 : 3 ≤ n := by omega
  -- the sequential side
  have hseq := commit_eq_run hn0 h hs ok.valid
  have rseq := (rep_run hn0 (sortOps ops) h hs (valid_sortOps ok.valid)).1
  -- 1. borders in
  have vset : ∀ op ∈ borderSets n, op.Valid n := by
    intro op ho
    obtain ⟨b, hb, rfl⟩ := mem_borderSets.mp ho
    exact border_length hn3 hb
  have c1 := commit_eq_run hn0 h hs vset
  have r1 := rep_run hn0 (sortOps (borderSets n)) h hs (valid_sortOps vset)
  -- all pins present after step 1
  have pins1 : PinsPresent n (S.run (sortOps (borderSets n))) := by
    have border_set : ∀ b ∈ borders n, (S.run (sortOps (borderSets n))) b ≠ none := by
      intro b hb
      have hm : Op.set b borderVal ∈ sortOps (borderSets n) := by
        simp only [sortOps, List.mem_mergeSort]; exact mem_borderSets.mpr ⟨b, hb, rfl⟩
      have := run_unique _ S _ (keyFun_borderSets n) hm
      simp only [Op.key, Op.effect] at this
      rw [this]; simp
    intro i hi
    constructor
    · rcases lowK_cases hn3 hi with e | e
      · rw [e]; exact r1.2.1
      · exact border_set _ e
    · rcases highK_cases hn3 hi with e | e
      · rw [e]; exact r1.2.2
      · exact border_set _ e
  -- 2. the workers
  have hw := workers_eq hn ok sched (fun i hi => (hsched i).mp hi) _ _ r1.1 r1.2 pins1
  have gmem : ∀ op, op ∈ sched.flatMap (mine ops) ↔ op ∈ ops := by
    intro op
    simp only [List.mem_flatMap, mem_mine]
    constructor
    · rintro ⟨_, _, h, _⟩; exact h
    · intro hop
      obtain ⟨i, hi, e⟩ := take3_bits3 op.key (by rw [ok.len op hop]; exact hn3)
      exact ⟨i, (hsched i).mpr hi, hop, e⟩
  have gvalid : ∀ op ∈ sched.flatMap (mine ops), op.Valid n := fun op ho => ok.valid op ((gmem op).mp ho)
  have r2 := rep_run hn0 (sched.flatMap (mine ops)) r1.1 r1.2 gvalid
  -- 3. borders out
  have vdel : ∀ op ∈ borderDels n, op.Valid n := by
    intro op ho
    obtain ⟨b, hb, rfl⟩ := mem_borderDels.mp ho
    exact border_not_sentinel hn hb
  have c3 := commit_eq_run hn0 r2.1 r2.2 vdel
  have r3 := (rep_run hn0 (sortOps (borderDels n)) r2.1 r2.2 (valid_sortOps vdel)).1
  -- put the pieces together
  unfold commitParallelWith
  rw [not_reserved_any ok]
  simp only [Bool.false_eq_true, if_false]
  change (match commit t (borderSets n) with
    | .ok t1 => commit (sched.foldl (fun s i => worker i ops s) t1) (borderDels n)
    | o => o) = commit t ops
  rw [c1]
  simp only
  rw [hw, c3, hseq]
  congr 1
  -- both trees are canonical for the same map
  apply rep_unique r3
  have hmap : ((S.run (sortOps (borderSets n))).run (sched.flatMap (mine ops))).run (sortOps (borderDels n))
      = S.run (sortOps ops) := by
    funext k
    have kf_ops : KeyFun (sortOps ops) := fun a ha b hb e =>
      ok.keyFun a (by simpa [sortOps] using ha) b (by simpa [sortOps] using hb) e
    have kf_g : KeyFun (sched.flatMap (mine ops)) := fun a ha b hb e =>
      ok.keyFun a ((gmem a).mp ha) b ((gmem b).mp hb) e
    by_cases hk : k ∈ borders n
    · -- a border key: deleted by the cleanup; never in the state, never in the batch
      have hm : Op.del k ∈ sortOps (borderDels n) := by
        simp only [sortOps, List.mem_mergeSort]; exact mem_borderDels.mpr ⟨k, hk, rfl⟩
      have e1 := run_unique _ ((S.run (sortOps (borderSets n))).run (sched.flatMap (mine ops))) _ (keyFun_borderDels n) hm
      simp only [Op.key, Op.effect] at e1
      rw [e1]
      rw [run_absent (sortOps ops) S k (fun op ho e => ok.opsAvoidBorders op (by simpa [sortOps] using ho) (e ▸ hk))]
      exact (ok.stateAvoidsBorders k hk).symm
    · -- any other key: untouched by the border operations
      rw [run_absent (sortOps (borderDels n)) _ k (fun op ho e => by
        obtain ⟨b, hb, rfl⟩ := mem_borderDels.mp (by simpa [sortOps] using ho)
        exact hk (e ▸ hb))]
      by_cases hex : ∃ op ∈ ops, op.key = k
      · obtain ⟨op, hop, rfl⟩ := hex
        rw [run_unique _ _ op kf_g ((gmem op).mpr hop)]
        rw [run_unique _ S op kf_ops (by simpa [sortOps] using hop)]
      · have habs : ∀ op ∈ ops, op.key ≠ k := fun op ho e => hex ⟨op, ho, e⟩
        rw [run_absent _ _ k (fun op ho => habs op ((gmem op).mp ho))]
        rw [run_absent (sortOps ops) S k (fun op ho => habs op (by simpa [sortOps] using ho))]
        exact run_absent _ S k (fun op ho e => by
          obtain ⟨b, hb, rfl⟩ := mem_borderSets.mp (by simpa [sortOps] using ho)
          exact hk (e ▸ hb))
  rw [hmap]
  exact rseq

/-! ### the order a batch is committed in -/

/-- `key.cmp(a, b) < 0` is the strict bitwise order: `a` before `b`, i.e. not (`b` ≤ `a`) in the order `sortOps` sorts by -/
theorem keyCmp_neg_iff : ∀ (a b : Key), a.length = b.length → (decide (keyCmp a b < 0)) = !keyLe b a
  | [], [], _ => by simp [keyCmp, keyLe]
  | [], _ :: _, h => by simp at h
  | _ :: _, [], h => by simp at h
  | a :: as, b :: bs, h => by
    have ih := keyCmp_neg_iff as bs (by simpa using h)
    cases a <;> cases b <;> simp [keyCmp, keyLe] <;> simpa using ih

end Canopy.Smt
