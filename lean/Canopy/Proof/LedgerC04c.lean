import Canopy.Proof.LedgerRewards
/-! C04, third part: end of block, transactions, genesis. -/
namespace Canopy.Ledger
open AMap

set_option linter.unusedSimpArgs false
set_option linter.unusedVariables false

/-- `EndBlock`: rewards (burning the undistributed remainder), max-pause force-unstake, finished unstaking -/
theorem endBlock_burns {L L' : Ledger} (hi : InvSupply L) (hp : PercentsOK L) (h : endBlock L = .ok L') : Burns L L' := by
  unfold endBlock at h
  split at h
  · exact absurd h (by intro h; cases h)
  · next L1 h1 =>
    obtain ⟨b1, _⟩ := distributeCommitteeRewards_burns hi hp h1
    split at h
    · exact absurd h (by intro h; cases h)
    · next L3 h3 =>
      obtain rfl := Except.ok.inj h
      have i1 := b1.inv hi
      have m2 := forceUnstakeMaxPaused_moves L1
      have m3 := deleteFinishedUnstaking_moves (m2.inv i1) h3
      have s4 : SameBal L3 { L3 with height := L3.height + 1, slashTracker := [] } := ⟨rfl, rfl, rfl, rfl⟩
      exact ((b1.trans m2.burns).trans m3.burns).trans s4.moves.burns

/-! ### transactions -/

/-- what a transaction may mint: the faucet top-up of a send from the configured faucet, and a governance DAO
transfer with `mint` set; everything else only moves tokens -/
def txMint (L : Ledger) (sender : Addr) (fee : Nat) : Msg → Nat
  | .send _ _ amount => faucetMint L sender (amount + fee)
  | .sendVesting _ _ amount _ _ _ => faucetMint L sender (amount + fee)
  | .daoTransfer _ amount true _ _ => amount
  | _ => 0

theorem handleMessage_step {L L' : Ledger} {sender : Addr} {msg : Msg} (hi : InvSupply L)
    (hx : ∀ a x s e, msg = .daoTransfer a x true s e → L.supply.total + x < U64)
    (h : handleMessage L sender msg = .ok L') :
    Step (match msg with | .daoTransfer _ x true _ _ => x | _ => 0) 0 L L' := by
  cases msg with
  | send s d x => exact handleSend_moves h
  | sendVesting s d x st cl en => exact handleSendVesting_moves h
  | stake a x cs dl c o => exact handleStake_moves h
  | editStake a x cs c o => exact handleEditStake_moves hi h
  | unstake a => exact handleUnstake_moves h
  | pause a => exact handlePause_moves h
  | unpause a => exact handleUnpause_moves h
  | daoTransfer a x m s e =>
    have := handleDaoTransfer_step hi (fun hm => hx a x s e (by rw [hm])) h
    cases m <;> simpa using this
  | subsidy a c x => exact handleSubsidy_moves hi h
  | changeParameter sg sp k v s e => exact handleChangeParameter_moves h

/-- `ApplyTransaction`: fee to the reward pool, then the handler; mints only what `txMint` names -/
theorem applyTx_step {L L' : Ledger} {sender : Addr} {fee : Nat} {msg : Msg} (hi : InvSupply L)
    (hx : L.supply.total + txMint L sender fee msg < U64)
    (h : applyTx L sender fee msg = .ok L') : Step (txMint L sender fee msg) 0 L L' := by
  unfold applyTx at h
  split at h
  · exact absurd h (by intro h; cases h)
  · split at h
    · exact absurd h (by intro h; cases h)
    · split at h
      · exact absurd h (by intro h; cases h)
      · split at h
        · exact absurd h (by intro h; cases h)
        · split at h
          · exact absurd h (by intro h; cases h)
          · next L1 h1 =>
            split at h
            · exact absurd h (by intro h; cases h)
            · next L2 h2 =>
              -- faucet step
              have s1 : Step (match msg with | .send _ _ amount => faucetMint L sender (amount + fee) | .sendVesting _ _ amount _ _ _ => faucetMint L sender (amount + fee) | _ => 0) 0 L L1 := by
                cases msg with
                | send s d x =>
                  simp only [txFaucet] at h1
                  split at h1
                  · exact absurd h1 (by intro h; cases h)
                  · exact faucetTopUp_mints (by simpa [txMint] using hx) h1
                | sendVesting s d x st cl en =>
                  simp only [txFaucet] at h1
                  split at h1
                  · exact absurd h1 (by intro h; cases h)
                  · exact faucetTopUp_mints (by simpa [txMint] using hx) h1
                | stake | editStake | unstake | pause | unpause | daoTransfer | subsidy | changeParameter =>
                  simp only [txFaucet] at h1; obtain rfl := Except.ok.inj h1; exact Moves.refl L
              have hlt1 : L1.supply.total < U64 := by
                have := s1.1
                cases msg <;> simp only [txMint] at hx this <;> omega
              have i1 := s1.inv hi hlt1
              have m2 := deductFees_moves i1 h2
              have i2 := m2.inv i1
              have t1 := s1.1; have t2 := m2.1
              have s3 := handleMessage_step (msg := msg) i2 (by
                intro a x s e hm; subst hm
                simp only [txMint] at hx t1; omega) h
              have := (s1.trans m2).trans s3
              cases msg with
              | daoTransfer a x m s e => cases m <;> simpa [txMint] using this
              | send | sendVesting | stake | editStake | unstake | pause | unpause | subsidy | changeParameter => simpa [txMint] using this

end Canopy.Ledger

namespace Canopy.Ledger
open AMap
set_option linter.unusedSimpArgs false
set_option linter.unusedVariables false

/-! ### genesis -/

theorem hasDup_false_nodup : ∀ (xs : List Nat), hasDup xs = false → xs.Nodup
  | [], _ => List.nodup_nil
  | x :: xs, h => by
    simp only [hasDup, Bool.or_eq_false_iff] at h
    rw [List.nodup_cons]
    refine ⟨?_, hasDup_false_nodup xs h.2⟩
    intro hm
    have : xs.contains x = true := by simpa using hm
    rw [this] at h; exact absurd h.1 (by decide)

/-- what the validator loop of `ValidateGenesisState` guarantees when it passes -/
theorem genesisValidatorsError_none : ∀ (vals : List GenesisValidator) (seen : List Addr), genesisValidatorsError seen vals = none →
    (∀ g ∈ vals, g.addr ∉ seen) ∧ hasDup (vals.map (·.addr)) = false ∧ ∀ g ∈ vals, hasDup g.val.committees = false
  | [], _, _ => ⟨fun _ h => by simp at h, rfl, fun _ h => by simp at h⟩
  | g :: rest, seen, h => by
    unfold genesisValidatorsError at h
    split at h
    · cases h
    · next hs =>
      split at h
      · cases h
      · next hc =>
        obtain ⟨i1, i2, i3⟩ := genesisValidatorsError_none rest (g.addr :: seen) h
        refine ⟨?_, ?_, ?_⟩
        · intro g' hg'
          simp only [List.mem_cons] at hg'
          rcases hg' with rfl | hg'
          · simpa using hs
          · exact fun hm => i1 g' hg' (List.mem_cons_of_mem _ hm)
        · simp only [List.map_cons, hasDup, Bool.or_eq_false_iff]
          refine ⟨?_, i2⟩
          cases hcon : (rest.map (·.addr)).contains g.addr with
          | false => rfl
          | true =>
            have hm : g.addr ∈ rest.map (·.addr) := by simpa using hcon
            obtain ⟨g', hg', e⟩ := List.mem_map.1 hm
            exact absurd (by rw [e]; exact List.mem_cons_self ..) (i1 g' hg')
        · intro g' hg'
          simp only [List.mem_cons] at hg'
          rcases hg' with rfl | hg'
          · simpa using hc
          · exact i3 g' hg'

theorem keys_put {κ} [DecidableEq κ] [KLt κ] (m : NMap κ) (k x : κ) (v : Nat) (h : x ∈ (NMap.put m k v).map (·.1)) :
    x = k ∨ x ∈ m.map (·.1) := by
  unfold NMap.put at h
  split at h
  · exact Or.inr (keys_erase_subset m k x h)
  · unfold AMap.set at h
    rcases (keys_ins _ k x v).1 h with h | h
    · exact Or.inl h
    · exact Or.inr (keys_erase_subset m k x h)

theorem get_eq_zero_of_not_mem {κ} [DecidableEq κ] [KLt κ] (m : NMap κ) (k : κ) (h : k ∉ m.map (·.1)) : NMap.get m k = 0 := by
  unfold NMap.get; rw [find?_eq_none_of_not_mem m k h]; rfl

/-- the part of the ledger the account / pool loading does not touch -/
structure SameRest (L L' : Ledger) : Prop where
  validators : L'.validators = L.validators
  staked : L'.supply.staked = L.supply.staked
  delegatedOnly : L'.supply.delegatedOnly = L.supply.delegatedOnly
  committee : L'.supply.committee = L.supply.committee
  delegated : L'.supply.delegated = L.supply.delegated
  unstaking : L'.unstaking = L.unstaking
  paused : L'.paused = L.paused
  params : L'.params = L.params
  height : L'.height = L.height
  cfg : L'.cfg = L.cfg

theorem SameRest.refl (L : Ledger) : SameRest L L := by constructor <;> rfl
theorem SameRest.trans {A B C : Ledger} (h1 : SameRest A B) (h2 : SameRest B C) : SameRest A C := by
  constructor
  · exact h2.validators.trans h1.validators
  · exact h2.staked.trans h1.staked
  · exact h2.delegatedOnly.trans h1.delegatedOnly
  · exact h2.committee.trans h1.committee
  · exact h2.delegated.trans h1.delegated
  · exact h2.unstaking.trans h1.unstaking
  · exact h2.paused.trans h1.paused
  · exact h2.params.trans h1.params
  · exact h2.height.trans h1.height
  · exact h2.cfg.trans h1.cfg

theorem genesisAccount_ok {L L1 : Ledger} {e : Addr × Nat} (hf : e.1 ∉ L.accounts.map (·.1)) (hu : e.2 ≤ MAXU) (h : genesisAccount L e = .ok L1) :
    L1.supply.total = L.supply.total + e.2 ∧ L.supply.total + e.2 ≤ MAXU ∧ bal L1 = bal L + e.2 ∧ L1.pools = L.pools ∧
    SameRest L L1 ∧ (∀ x ∈ L1.accounts.map (·.1), x = e.1 ∨ x ∈ L.accounts.map (·.1)) := by
  unfold genesisAccount at h
  split at h
  · exact absurd h (by intro h; cases h)
  · next hg =>
    obtain rfl := Except.ok.inj h
    have hz : NMap.get L.accounts e.1 = 0 := get_eq_zero_of_not_mem _ _ hf
    have hs := NMap.total_put L.accounts e.1 e.2
    refine ⟨rfl, by omega, ?_, rfl, by constructor <;> rfl, fun x hx => keys_put _ _ _ _ hx⟩
    simp only [bal, accSum, poolSum, stakeSum, accPut]
    omega

theorem genesisPool_ok {L L1 : Ledger} {e : Nat × Nat} (hf : e.1 ∉ L.pools.map (·.1)) (hu : e.2 ≤ MAXU) (h : genesisPool L e = .ok L1) :
    L1.supply.total = L.supply.total + e.2 ∧ L.supply.total + e.2 ≤ MAXU ∧ bal L1 = bal L + e.2 ∧ L1.accounts = L.accounts ∧
    SameRest L L1 ∧ (∀ x ∈ L1.pools.map (·.1), x = e.1 ∨ x ∈ L.pools.map (·.1)) := by
  unfold genesisPool at h
  split at h
  · exact absurd h (by intro h; cases h)
  · next hg =>
    obtain rfl := Except.ok.inj h
    have hz : NMap.get L.pools e.1 = 0 := get_eq_zero_of_not_mem _ _ hf
    have hs := NMap.total_put L.pools e.1 e.2
    refine ⟨rfl, by omega, ?_, rfl, by constructor <;> rfl, fun x hx => keys_put _ _ _ _ hx⟩
    simp only [bal, accSum, poolSum, stakeSum, poolPut]
    omega

/-! ### genesis order books: the escrow credit on top of the listed pools -/

/-- what the order-book loading leaves alone and what it keeps true -/
structure BooksOk (L L' : Ledger) : Prop where
  ident : L'.supply.total = bal L'
  le : L'.supply.total ≤ MAXU
  rest : SameRest L L'
  accounts : L'.accounts = L.accounts
  committeesData : L'.committeesData = L.committeesData

theorem genesisOrder_ok {chain : Nat} {L L1 : Ledger} {amt : Nat} (hb : L.supply.total = bal L) (hx : amt ≤ MAXU)
    (h : genesisOrder chain L amt = .ok L1) : BooksOk L L1 := by
  unfold genesisOrder at h
  split at h
  · exact absurd h (by intro h; cases h)
  · next hg =>
    obtain rfl := Except.ok.inj h
    have hpl := poolGet_le L (chain + Canopy.Gen.LedgerFacts.escrowPoolAddend)
    have hlt : poolGet { L with supply := { L.supply with total := L.supply.total + amt } } (chain + Canopy.Gen.LedgerFacts.escrowPoolAddend) + amt < U64 := by
      show poolGet L _ + amt < U64
      unfold bal at hb; unfold MAXU at hg hx; unfold U64; omega
    obtain ⟨p, e2, e3⟩ := poolAdd_noWrap { L with supply := { L.supply with total := L.supply.total + amt } } (chain + Canopy.Gen.LedgerFacts.escrowPoolAddend) amt hlt
    generalize hX : poolAdd { L with supply := { L.supply with total := L.supply.total + amt } } (chain + Canopy.Gen.LedgerFacts.escrowPoolAddend) amt = X at e2 e3 ⊢
    have ep : poolSum { L with supply := { L.supply with total := L.supply.total + amt } } = poolSum L := rfl
    rw [ep] at e3
    subst e2
    refine ⟨?_, ?_, by constructor <;> rfl, rfl, rfl⟩
    · show L.supply.total + amt = _
      have ea : accSum { L with supply := { L.supply with total := L.supply.total + amt }, pools := p } = accSum L := rfl
      have es : stakeSum { L with supply := { L.supply with total := L.supply.total + amt }, pools := p } = stakeSum L := rfl
      unfold bal at hb ⊢
      rw [ea, es, e3]
      omega
    · show L.supply.total + amt ≤ MAXU
      unfold MAXU at hg hx ⊢; omega

theorem BooksOk.trans {A B C : Ledger} (h1 : BooksOk A B) (h2 : BooksOk B C) : BooksOk A C :=
  ⟨h2.ident, h2.le, h1.rest.trans h2.rest, h2.accounts.trans h1.accounts, h2.committeesData.trans h1.committeesData⟩

theorem foldlM_genesisOrder_ok (chain : Nat) : ∀ (amts : List Nat) (L L' : Ledger), L.supply.total = bal L → L.supply.total ≤ MAXU →
    (∀ x ∈ amts, x ≤ MAXU) → amts.foldlM (genesisOrder chain) L = .ok L' → BooksOk L L'
  | [], L, L', hb, hl, _, h => by obtain rfl := Except.ok.inj h; exact ⟨hb, hl, SameRest.refl _, rfl, rfl⟩
  | x :: amts, L, L', hb, hl, hx, h => by
    simp only [List.foldlM_cons] at h
    obtain ⟨L1, h1, h2⟩ := bind_ok h
    have k1 := genesisOrder_ok hb (hx x (List.mem_cons_self ..)) h1
    exact k1.trans (foldlM_genesisOrder_ok chain amts L1 L' k1.ident k1.le (fun y hy => hx y (List.mem_cons_of_mem _ hy)) h2)

/-- `SetOrderBooks` on a ledger whose recorded total is the real sum: it still is afterwards (every order's amount
goes to the total and to the escrow pool), and nothing but the pools and the total changed -/
theorem foldlM_genesisBook_ok : ∀ (books : List GenesisBook) (L L' : Ledger), L.supply.total = bal L → L.supply.total ≤ MAXU →
    (∀ b ∈ books, ∀ x ∈ b.2, x ≤ MAXU) → books.foldlM genesisBook L = .ok L' → BooksOk L L'
  | [], L, L', hb, hl, _, h => by obtain rfl := Except.ok.inj h; exact ⟨hb, hl, SameRest.refl _, rfl, rfl⟩
  | b :: books, L, L', hb, hl, hx, h => by
    simp only [List.foldlM_cons] at h
    obtain ⟨L1, h1, h2⟩ := bind_ok h
    have k1 := foldlM_genesisOrder_ok b.1 b.2 L L1 hb hl (hx b (List.mem_cons_self ..)) h1
    exact k1.trans (foldlM_genesisBook_ok books L1 L' k1.ident k1.le (fun b' hb' => hx b' (List.mem_cons_of_mem _ hb')) h2)

/-- … and, without any hypothesis, it touches nothing but the pools and the total -/
theorem foldlM_genesisBook_rest : ∀ (books : List GenesisBook) (L L' : Ledger), books.foldlM genesisBook L = .ok L' → SameRest L L'
  | [], L, L', h => by obtain rfl := Except.ok.inj h; exact SameRest.refl _
  | b :: books, L, L', h => by
    simp only [List.foldlM_cons] at h
    obtain ⟨L1, h1, h2⟩ := bind_ok h
    have inner : ∀ (amts : List Nat) (A B : Ledger), amts.foldlM (genesisOrder b.1) A = .ok B → SameRest A B := by
      intro amts
      induction amts with
      | nil => intro A B h; obtain rfl := Except.ok.inj h; exact SameRest.refl _
      | cons x amts ih =>
        intro A B h
        simp only [List.foldlM_cons] at h
        obtain ⟨A1, g1, g2⟩ := bind_ok h
        unfold genesisOrder at g1
        split at g1
        · exact absurd g1 (by intro h; cases h)
        · obtain rfl := Except.ok.inj g1
          exact (show SameRest A _ by constructor <;> rfl).trans (ih _ B g2)
    exact (inner b.2 L L1 h1).trans (foldlM_genesisBook_rest books L1 L' h2)

/-- genesis accounts: the running total and the real sum grow together -/
theorem foldlM_genesisAccount : ∀ (es : List (Addr × Nat)) (L L' : Ledger),
    (es.map (·.1)).Nodup → (∀ e ∈ es, e.1 ∉ L.accounts.map (·.1)) → (∀ e ∈ es, e.2 ≤ MAXU) → es.foldlM genesisAccount L = .ok L' →
    L'.supply.total + bal L = L.supply.total + bal L' ∧ (L.supply.total ≤ MAXU → L'.supply.total ≤ MAXU) ∧
    L'.pools = L.pools ∧ SameRest L L'
  | [], L, L', _, _, _, h => by obtain rfl := Except.ok.inj h; exact ⟨rfl, id, rfl, SameRest.refl _⟩
  | e :: es, L, L', hn, hk, hu, h => by
    simp only [List.foldlM_cons] at h
    obtain ⟨L1, h1, h2⟩ := bind_ok h
    simp only [List.map_cons, List.nodup_cons] at hn
    obtain ⟨t1, g1, b1, p1, r1, k1⟩ := genesisAccount_ok (hk e (List.mem_cons_self ..)) (hu e (List.mem_cons_self ..)) h1
    obtain ⟨i1, i2, i3, i4⟩ := foldlM_genesisAccount es L1 L' hn.2 (by
      intro e' he' hm
      rcases k1 _ hm with h' | h'
      · exact hn.1 (by rw [← h']; exact List.mem_map_of_mem he')
      · exact hk e' (List.mem_cons_of_mem _ he') h') (fun e' he' => hu e' (List.mem_cons_of_mem _ he')) h2
    exact ⟨by omega, fun _ => i2 (by omega), i3.trans p1, r1.trans i4⟩

/-- genesis pools -/
theorem foldlM_genesisPool : ∀ (es : List (Nat × Nat)) (L L' : Ledger),
    (es.map (·.1)).Nodup → (∀ e ∈ es, e.1 ∉ L.pools.map (·.1)) → (∀ e ∈ es, e.2 ≤ MAXU) → es.foldlM genesisPool L = .ok L' →
    L'.supply.total + bal L = L.supply.total + bal L' ∧ (L.supply.total ≤ MAXU → L'.supply.total ≤ MAXU) ∧
    L'.accounts = L.accounts ∧ SameRest L L'
  | [], L, L', _, _, _, h => by obtain rfl := Except.ok.inj h; exact ⟨rfl, id, rfl, SameRest.refl _⟩
  | e :: es, L, L', hn, hk, hu, h => by
    simp only [List.foldlM_cons] at h
    obtain ⟨L1, h1, h2⟩ := bind_ok h
    simp only [List.map_cons, List.nodup_cons] at hn
    obtain ⟨t1, g1, b1, p1, r1, k1⟩ := genesisPool_ok (hk e (List.mem_cons_self ..)) (hu e (List.mem_cons_self ..)) h1
    obtain ⟨i1, i2, i3, i4⟩ := foldlM_genesisPool es L1 L' hn.2 (by
      intro e' he' hm
      rcases k1 _ hm with h' | h'
      · exact hn.1 (by rw [← h']; exact List.mem_map_of_mem he')
      · exact hk e' (List.mem_cons_of_mem _ he') h') (fun e' he' => hu e' (List.mem_cons_of_mem _ he')) h2
    exact ⟨by omega, fun _ => i2 (by omega), i3.trans p1, r1.trans i4⟩

end Canopy.Ledger

namespace Canopy.Ledger
open AMap
set_option linter.unusedSimpArgs false
set_option linter.unusedVariables false

theorem keys_set {κ ν} [DecidableEq κ] [KLt κ] (m : List (κ × ν)) (k x : κ) (v : ν) (h : x ∈ (AMap.set m k v).map (·.1)) :
    x = k ∨ x ∈ m.map (·.1) := by
  unfold AMap.set at h
  rcases (keys_ins _ k x v).1 h with h | h
  · exact Or.inl h
  · exact Or.inr (keys_erase_subset m k x h)

/-- the marker step of `SetValidators` for a fresh address: afterwards the address holds a record with the same stake
(or nothing was written) -/
theorem genesisMarker_step (L : Ledger) (a : Addr) (v : Validator) (hf : valGet? L a = none) :
    let L1 := if v.unstakingHeight ≠ 0 then setValidatorUnstaking L a v v.unstakingHeight
      else if v.maxPausedHeight ≠ 0 then setValidatorPaused L a v v.maxPausedHeight else L
    SameMoney L L1 ∧ L1.params = L.params ∧ L1.height = L.height ∧ L1.cfg = L.cfg ∧
    ((L1.validators = L.validators) ∨ (∃ v0, v0.stake = v.stake ∧ L1.validators = AMap.set L.validators a v0)) := by
  intro L1
  show SameMoney L L1 ∧ _
  by_cases hu : v.unstakingHeight ≠ 0
  · have e : L1 = setValidatorUnstaking L a v v.unstakingHeight := if_pos hu
    rw [e]
    refine ⟨setValidatorUnstaking_money .., ?_, ?_, ?_, Or.inr ⟨{ v with maxPausedHeight := 0, unstakingHeight := v.unstakingHeight }, rfl, setValidatorUnstaking_validators ..⟩⟩
    · unfold setValidatorUnstaking valPut; split <;> rfl
    · unfold setValidatorUnstaking valPut; split <;> rfl
    · unfold setValidatorUnstaking valPut; split <;> rfl
  · by_cases hp : v.maxPausedHeight ≠ 0
    · have e : L1 = setValidatorPaused L a v v.maxPausedHeight := (if_neg hu).trans (if_pos hp)
      rw [e]
      exact ⟨setValidatorPaused_money .., rfl, rfl, rfl, Or.inr ⟨_, rfl, rfl⟩⟩
    · have e : L1 = L := (if_neg hu).trans (if_neg hp)
      rw [e]
      exact ⟨⟨rfl, rfl, rfl⟩, rfl, rfl, rfl, Or.inl rfl⟩

theorem genesisValidator_ok {L L' : Ledger} {g : GenesisValidator} (hf : g.addr ∉ L.validators.map (·.1)) (hu : g.val.stake ≤ MAXU)
    (h : genesisValidator L g = .ok L') :
    L'.supply.total = L.supply.total + g.val.stake ∧ L.supply.total + g.val.stake ≤ MAXU ∧ bal L' = bal L + g.val.stake ∧
    (∀ x ∈ L'.validators.map (·.1), x = g.addr ∨ x ∈ L.validators.map (·.1)) := by
  have hnone : valGet? L g.addr = none := find?_eq_none_of_not_mem _ _ hf
  unfold genesisValidator at h
  dsimp only at h
  split at h
  · exact absurd h (by intro h; cases h)
  · next hg1 =>
    split at h
    · exact absurd h (by intro h; cases h)
    · obtain ⟨hm, _, _, _, hv⟩ := genesisMarker_step L g.addr g.val hnone
      generalize hL1 : (if g.val.unstakingHeight ≠ 0 then setValidatorUnstaking L g.addr g.val g.val.unstakingHeight
        else if g.val.maxPausedHeight ≠ 0 then setValidatorPaused L g.addr g.val g.val.maxPausedHeight else L) = L1 at h hm hv
      generalize hv1 : (if g.val.unstakingHeight ≠ 0 then ({ g.val with maxPausedHeight := 0 } : Validator) else g.val) = v1 at h
      have hv1s : v1.stake = g.val.stake := by rw [← hv1]; split <;> rfl
      -- the record write
      have key : ∀ X : Ledger, X.accounts = L.accounts → X.pools = L.pools → X.validators = L1.validators →
          bal (valPut X g.addr v1) = bal L + g.val.stake ∧
          (∀ x ∈ (valPut X g.addr v1).validators.map (·.1), x = g.addr ∨ x ∈ L.validators.map (·.1)) := by
        intro X ha hp hvv
        have hb := stakeSum_valPut X g.addr v1
        have hX : valGet? X g.addr = AMap.find? L1.validators g.addr := by unfold valGet?; rw [hvv]
        refine ⟨?_, ?_⟩
        · unfold bal
          have ea : accSum (valPut X g.addr v1) = accSum L := by unfold accSum valPut; exact congrArg _ ha
          have ep : poolSum (valPut X g.addr v1) = poolSum L := by unfold poolSum valPut; exact congrArg _ hp
          rw [ea, ep]
          rcases hv with e | ⟨v0, hs0, e⟩
          · rw [hX, e] at hb
            have : AMap.find? L.validators g.addr = none := hnone
            rw [this] at hb
            have e2 : stakeSum X = stakeSum L := by unfold stakeSum; rw [hvv, e]
            simp only [ow_none] at hb; omega
          · rw [hX, e, find?_set_self] at hb
            have e2 : stakeSum X + ow (fun x : Validator => x.stake) (AMap.find? L.validators g.addr) = stakeSum L + v0.stake := by
              unfold stakeSum; rw [hvv, e]; exact sumBy_set _ _ _ _
            have : AMap.find? L.validators g.addr = none := hnone
            rw [this] at e2
            simp only [ow_some, ow_none] at hb e2; omega
        · intro x hx
          rcases keys_set _ _ _ _ hx with h' | h'
          · exact Or.inl h'
          · rw [hvv] at h'
            rcases hv with e | ⟨v0, _, e⟩
            · rw [e] at h'; exact Or.inr h'
            · rw [e] at h'; exact keys_set _ _ _ _ h'
      have hg : L.supply.total + g.val.stake ≤ MAXU := by
        simp only [Bool.or_eq_true, decide_eq_true_eq, not_or, Nat.not_lt] at hg1; omega
      split at h
      · obtain ⟨k1, k2⟩ := key { L1 with supply := { L1.supply with total := L1.supply.total + g.val.stake, staked := L1.supply.staked + g.val.stake } } hm.accounts hm.pools rfl
        have sc := sameCore_setDelegations h
        refine ⟨?_, hg, ?_, ?_⟩
        · rw [sc.total]; show L1.supply.total + _ = _; rw [hm.supply]
        · rw [bal_of_sameCore sc]; exact k1
        · rw [sc.validators]; exact k2
      · obtain ⟨k1, k2⟩ := key { L1 with supply := { L1.supply with total := L1.supply.total + g.val.stake, staked := L1.supply.staked + g.val.stake } } hm.accounts hm.pools rfl
        have sc := sameCore_setCommittees h
        refine ⟨?_, hg, ?_, ?_⟩
        · rw [sc.total]; show L1.supply.total + _ = _; rw [hm.supply]
        · rw [bal_of_sameCore sc]; exact k1
        · rw [sc.validators]; exact k2

end Canopy.Ledger

namespace Canopy.Ledger
open AMap
set_option linter.unusedSimpArgs false
set_option linter.unusedVariables false

theorem foldlM_genesisValidator : ∀ (gs : List GenesisValidator) (L L' : Ledger),
    (gs.map (·.addr)).Nodup → (∀ g ∈ gs, g.addr ∉ L.validators.map (·.1)) → (∀ g ∈ gs, g.val.stake ≤ MAXU) →
    gs.foldlM genesisValidator L = .ok L' →
    L'.supply.total + bal L = L.supply.total + bal L' ∧ (L.supply.total ≤ MAXU → L'.supply.total ≤ MAXU)
  | [], L, L', _, _, _, h => by obtain rfl := Except.ok.inj h; exact ⟨rfl, id⟩
  | g :: gs, L, L', hn, hk, hu, h => by
    simp only [List.foldlM_cons] at h
    obtain ⟨L1, h1, h2⟩ := bind_ok h
    simp only [List.map_cons, List.nodup_cons] at hn
    obtain ⟨t1, g1, b1, k1⟩ := genesisValidator_ok (hk g (List.mem_cons_self ..)) (hu g (List.mem_cons_self ..)) h1
    obtain ⟨i1, i2⟩ := foldlM_genesisValidator gs L1 L' hn.2 (by
      intro g' hg' hm
      rcases k1 _ hm with h' | h'
      · exact hn.1 (by rw [← h']; exact List.mem_map_of_mem hg')
      · exact hk g' (List.mem_cons_of_mem _ hg') h') (fun g' hg' => hu g' (List.mem_cons_of_mem _ hg')) h2
    exact ⟨by omega, fun _ => i2 (by omega)⟩

/-- a genesis that the loader accepts (in particular: no address or pool id listed twice, the running total never
overflows) yields a ledger whose recorded total is the exact sum of everything it holds -/
theorem genesis_invSupply {cfg : Config} {params : Params} {accounts : List (Addr × Nat)} {pools : List (Nat × Nat)}
    {vals : List GenesisValidator} {retired : List Nat} {books : List GenesisBook} {L : Ledger}
    (ha : ∀ e ∈ accounts, e.2 ≤ MAXU) (hp : ∀ e ∈ pools, e.2 ≤ MAXU) (hv : ∀ g ∈ vals, g.val.stake ≤ MAXU)
    (ho : ∀ b ∈ books, ∀ x ∈ b.2, x ≤ MAXU)
    (h : genesis cfg params accounts pools vals retired books = .ok L) : InvSupply L := by
  unfold genesis at h
  split at h
  · exact absurd h (by intro h; cases h)
  · next hval =>
    -- the loader's duplicate checks
    unfold validateGenesis at hval
    split at hval
    · exact absurd hval (by intro h; cases h)
    · split at hval
      · exact absurd hval (by intro h; cases h)
      · split at hval
        · exact absurd hval (by intro h; cases h)
        · next hcv =>
          have hdv := (genesisValidatorsError_none _ _ hcv).2.1
          have hdc := (genesisValidatorsError_none _ _ hcv).2.2
          split at hval
          · exact absurd hval (by intro h; cases h)
          · next hda =>
            split at hval
            · exact absurd hval (by intro h; cases h)
            · next hdp =>
              have nv := hasDup_false_nodup _ (by simpa using hdv)
              have na := hasDup_false_nodup _ (by simpa using hda)
              have np := hasDup_false_nodup _ (by simpa using hdp)
              split at h
              · exact absurd h (by intro h; cases h)
              · next L1 h1 =>
                split at h
                · exact absurd h (by intro h; cases h)
                · next L2 h2 =>
                  split at h
                  · exact absurd h (by intro h; cases h)
                  · next L3 h3 =>
                    split at h
                    · exact absurd h (by intro h; cases h)
                    next L4 h4 =>
                    obtain rfl := Except.ok.inj h
                    obtain ⟨a1, a2, a3, a4⟩ := foldlM_genesisAccount accounts _ L1 na (by intro e _ hm; simp at hm) ha h1
                    obtain ⟨p1, p2, p3, p4⟩ := foldlM_genesisPool pools L1 L2 np (by
                      intro e _ hm; rw [a3] at hm; simp at hm) hp h2
                    obtain ⟨v1, v2⟩ := foldlM_genesisValidator vals L2 L3 nv (by
                      intro g _ hm; rw [p4.validators, a4.validators] at hm; simp at hm) hv h3
                    have z : bal ({ cfg := cfg, params := params, height := 0 } : Ledger) = 0 := rfl
                    have zt : ({ cfg := cfg, params := params, height := 0 } : Ledger).supply.total = 0 := rfl
                    rw [z, zt] at a1
                    have hle : L3.supply.total ≤ MAXU := v2 (p2 (a2 (by rw [zt]; exact Nat.zero_le _)))
                    have k := foldlM_genesisBook_ok books L3 L4 (by omega) hle ho h4
                    have hb : bal { L4 with retired := retired, height := 1 } = bal L4 := rfl
                    refine ⟨?_, ?_⟩
                    · show L4.supply.total = _; rw [hb]; exact k.ident
                    · show L4.supply.total < U64
                      have : MAXU < U64 := by decide
                      have := k.le
                      omega

end Canopy.Ledger
