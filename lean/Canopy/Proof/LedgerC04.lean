import Canopy.Proof.LedgerSupply
/-! C04: every modelled operation preserves `InvSupply` and changes the recorded total only by what it
mints or burns. `Moves L L'` = "only moved tokens"; `Burns b L L'`, `Mints m L L'` accordingly. -/
namespace Canopy.Ledger
open AMap

set_option linter.unusedSimpArgs false
set_option linter.unusedVariables false

/-- `L'` is `L` after minting `m` and burning `b`: the recorded total and the real sum moved together -/
def Step (m b : Nat) (L L' : Ledger) : Prop :=
  L'.supply.total + b = L.supply.total + m ∧ bal L' + b = bal L + m

abbrev Moves := Step 0 0

theorem Step.inv {m b : Nat} {L L' : Ledger} (hs : Step m b L L') (hi : InvSupply L) (hlt : L'.supply.total < U64) : InvSupply L' := by
  obtain ⟨h1, h2⟩ := hs; obtain ⟨i1, i2⟩ := hi
  exact ⟨by omega, hlt⟩

theorem Step.inv_of_le {m b : Nat} {L L' : Ledger} (hs : Step m b L L') (hi : InvSupply L) (hm : m ≤ b) : InvSupply L' := by
  obtain ⟨h1, h2⟩ := hs; obtain ⟨i1, i2⟩ := hi
  exact ⟨by omega, by omega⟩

theorem Step.trans {m1 b1 m2 b2 : Nat} {A B C : Ledger} (h1 : Step m1 b1 A B) (h2 : Step m2 b2 B C) : Step (m1 + m2) (b1 + b2) A C := by
  obtain ⟨a1, a2⟩ := h1; obtain ⟨c1, c2⟩ := h2
  exact ⟨by omega, by omega⟩

theorem Moves.refl (L : Ledger) : Moves L L := ⟨rfl, rfl⟩

theorem moves_of_sameCore {L L' : Ledger} (h : SameCore L L') : Moves L L' :=
  ⟨by rw [h.total], by rw [bal_of_sameCore h]⟩

/-- tactic: after every intermediate ledger has been written as a record update, reduce all quantities to
sums over fields -/
macro "ledger_norm" : tactic =>
  `(tactic| simp only [Moves, Step, InvSupply, bal, accSum, poolSum, stakeSum, accGet, poolGet, true_and, and_true, Nat.add_zero] at *)

/-! ### fee deduction and plain transfers -/

theorem deductFees_moves {L L' : Ledger} {a : Addr} {fee : Nat} (hi : InvSupply L) (h : deductFees L a fee = .ok L') : Moves L L' := by
  unfold deductFees at h
  obtain ⟨L1, h1, h2⟩ := bind_ok h
  obtain ⟨acc, vs, rfl, e1⟩ := accountSub_ok h1
  cases h2
  have hb := poolGet_le { L with accounts := acc, vesting := vs } { L with accounts := acc, vesting := vs }.cfg.chainId
  obtain ⟨p, e2, e3⟩ := poolAdd_noWrap { L with accounts := acc, vesting := vs } { L with accounts := acc, vesting := vs }.cfg.chainId fee (by
    ledger_norm; omega)
  rw [e2] at e3 ⊢
  ledger_norm; omega

theorem handleSend_moves {L L' : Ledger} {s d : Addr} {x : Nat} (h : handleSend L s d x = .ok L') : Moves L L' := by
  unfold handleSend at h
  obtain ⟨L1, h1, h2⟩ := bind_ok h
  obtain ⟨acc, vs, rfl, e1⟩ := accountSub_ok h1
  obtain ⟨acc2, vs, rfl, e2⟩ := accountAdd_ok h2
  ledger_norm; omega

theorem accountAddWithVesting_ok {L L' : Ledger} {dst : Addr} {x st cl en : Nat}
    (h : accountAddWithVesting L dst x st cl en = .ok L') :
    ∃ acc vs, L' = { L with accounts := acc, vesting := vs } ∧ accSum L' = accSum L + x := by
  unfold accountAddWithVesting at h
  split at h
  · exact absurd h (by intro h; cases h)
  · split at h
    · exact absurd h (by intro h; cases h)
    · split at h
      · obtain rfl := Except.ok.inj h
        refine ⟨_, _, rfl, ?_⟩
        have := accSum_setAccount L dst (accGet L dst + x) (some ⟨x, st, cl, en⟩); omega
      · obtain rfl := Except.ok.inj h
        refine ⟨_, _, rfl, ?_⟩
        have := accSum_setAccount L dst (accGet L dst + x) (vestTopUp (vestGet? L dst) x st cl en)
        omega

/-- a vesting send only moves tokens: the sender is debited (spendable part only), the recipient credited, and
the tranche bookkeeping does not touch any balance -/
theorem handleSendVesting_moves {L L' : Ledger} {s d : Addr} {x st cl en : Nat} (h : handleSendVesting L s d x st cl en = .ok L') :
    Moves L L' := by
  unfold handleSendVesting at h
  obtain ⟨_, _, h⟩ := bind_ok h
  obtain ⟨L1, h1, h2⟩ := bind_ok h
  obtain ⟨acc, vs, rfl, e1⟩ := accountSub_ok h1
  obtain ⟨acc2, vs2, rfl, e2⟩ := accountAddWithVesting_ok h2
  ledger_norm; omega

theorem handleSubsidy_moves {L L' : Ledger} {a : Addr} {c x : Nat} (hi : InvSupply L) (h : handleSubsidy L a c x = .ok L') : Moves L L' := by
  unfold handleSubsidy at h
  split at h
  · cases h
  obtain ⟨L1, h1, h2⟩ := bind_ok h
  obtain ⟨acc, vs, rfl, e1⟩ := accountSub_ok h1
  cases h2
  have hb := poolGet_le { L with accounts := acc, vesting := vs } c
  obtain ⟨p, e2, e3⟩ := poolAdd_noWrap { L with accounts := acc, vesting := vs } c x (by ledger_norm; omega)
  rw [e2] at e3 ⊢
  ledger_norm; omega

/-! ### minting -/

/-- `MintToPool` mints exactly `x` provided the recorded total does not overflow (F5: the code has no guard) -/
theorem mintToPool_mints {L : Ledger} {id x : Nat} (hi : InvSupply L) (hx : L.supply.total + x < U64) :
    Step x 0 L (mintToPool L id x) := by
  unfold mintToPool
  rw [addToTotal_noWrap L x hx]
  have hb := poolGet_le { L with supply := { L.supply with total := L.supply.total + x } } id
  obtain ⟨p, e2, e3⟩ := poolAdd_noWrap { L with supply := { L.supply with total := L.supply.total + x } } id x (by
    ledger_norm; omega)
  rw [e2] at e3 ⊢
  ledger_norm; omega

/-- companion of `mintToPool_mints` at the excluded point: the recorded total wraps while the pool does not
lose anything, so the identity breaks by exactly 2^64 -/
theorem mintToPool_wraps {L : Ledger} {id x : Nat} (hi : InvSupply L) (hx : U64 ≤ L.supply.total + x) (hxlt : x < U64)
    (hp : poolGet L id + x < U64) :
    (mintToPool L id x).supply.total + U64 = bal (mintToPool L id x) := by
  unfold mintToPool
  have ht := addToTotal_wraps L x hx hxlt hi.2
  obtain ⟨p, e2, e3⟩ := poolAdd_noWrap (addToTotal L x) id x (by simpa [poolGet, addToTotal] using hp)
  rw [e2] at e3 ⊢
  have : poolSum (addToTotal L x) = poolSum L := rfl
  simp only [addToTotal] at *
  ledger_norm; omega

theorem mintToAccount_mints {L L' : Ledger} {a : Addr} {x : Nat} (hx : L.supply.total + x < U64)
    (h : mintToAccount L a x = .ok L') : Step x 0 L L' := by
  unfold mintToAccount at h
  split at h
  · next h0 => cases h; subst h0; exact Moves.refl L
  · rw [addToTotal_noWrap L x hx] at h
    obtain ⟨acc, vs, rfl, e⟩ := accountAdd_ok h
    ledger_norm; omega

/-- `HandleMessageDAOTransfer`: mints `amount` when `mint` is set (hypothesis: no overflow), otherwise only moves -/
theorem handleDaoTransfer_step {L L' : Ledger} {a : Addr} {x s e : Nat} {mint : Bool} (hi : InvSupply L)
    (hx : mint = true → L.supply.total + x < U64)
    (h : handleDaoTransfer L a x mint s e = .ok L') : Step (if mint then x else 0) 0 L L' := by
  unfold handleDaoTransfer at h
  obtain ⟨_, _, h⟩ := bind_ok h
  obtain ⟨L2, h2, h3⟩ := bind_ok h
  cases mint with
  | false =>
    simp only [Bool.false_eq_true, if_false] at h2 ⊢
    obtain ⟨p, rfl, e1⟩ := poolSub_ok h2
    obtain ⟨acc, vs, rfl, e2⟩ := accountAdd_ok h3
    ledger_norm; omega
  | true =>
    simp only [if_true] at h2 ⊢
    have hm := mintToPool_mints (id := Canopy.Gen.LedgerFacts.daoPoolId) hi (hx rfl)
    obtain ⟨p, rfl, e1⟩ := poolSub_ok h2
    obtain ⟨acc, vs, rfl, e2⟩ := accountAdd_ok h3
    ledger_norm; omega

/-- `maybeFaucetTopUpForSendTx`: mints the shortfall when the sender is the configured faucet -/
def faucetMint (L : Ledger) (sender : Addr) (required : Nat) : Nat :=
  match L.cfg.faucet with
  | none => 0
  | some f => if sender ≠ f then 0 else if accSpendable L sender ≥ required then 0 else required - accSpendable L sender

theorem faucetTopUp_mints {L L' : Ledger} {a : Addr} {r : Nat} (hx : L.supply.total + faucetMint L a r < U64)
    (h : faucetTopUp L a r = .ok L') : Step (faucetMint L a r) 0 L L' := by
  unfold faucetTopUp at h
  unfold faucetMint at hx ⊢
  cases hf : L.cfg.faucet with
  | none => simp only [hf] at h ⊢; cases h; exact Moves.refl L
  | some f =>
    simp only [hf] at h hx ⊢
    by_cases hne : a ≠ f
    · rw [if_pos hne] at h ⊢; cases h; exact Moves.refl L
    · rw [if_neg hne] at h hx ⊢
      by_cases hge : accSpendable L a ≥ r
      · rw [if_pos hge] at h ⊢; cases h; exact Moves.refl L
      · rw [if_neg hge] at h hx ⊢
        exact mintToAccount_mints hx h

/-! ### staking life cycle -/

theorem moves_of_money {L L' : Ledger} (hm : SameMoney L L') (hs : stakeSum L' = stakeSum L) : Moves L L' := by
  obtain ⟨h1, h2, h3⟩ := hm
  simp only [Moves, Step, bal, accSum, poolSum, h1, h2, h3, hs, and_self]

/-- in a failed guard `if c then throw e` nothing is returned -/
theorem throw_ne_ok {α β} {e : Err} {f : α → M β} {b : β} : ((throw e : M α) >>= f) = .ok b → False := by
  intro h; cases h

/-- discharge a statement-level guard `if c then throw e` in a `do` block: the main goal continues in the
branch where the guard did not fire, with the negated condition available -/
macro "guard_at" h:ident : tactic =>
  `(tactic| (
    try dsimp only at $h:ident
    split at $h:ident
    · exact (throw_ne_ok $h:ident).elim))

theorem handleUnstake_moves {L L' : Ledger} {a : Addr} (h : handleUnstake L a = .ok L') : Moves L L' := by
  unfold handleUnstake at h
  obtain ⟨val, hv, h⟩ := bind_ok h
  guard_at h
  cases h
  exact moves_of_money (setValidatorUnstaking_money ..) (stakeSum_setValidatorUnstaking _ (getValidator_ok hv) rfl)

theorem handlePause_moves {L L' : Ledger} {a : Addr} (h : handlePause L a = .ok L') : Moves L L' := by
  unfold handlePause at h
  obtain ⟨val, hv, h⟩ := bind_ok h
  guard_at h
  guard_at h
  guard_at h
  cases h
  exact moves_of_money (setValidatorPaused_money ..) (stakeSum_setValidatorPaused _ (getValidator_ok hv) rfl)

theorem handleUnpause_moves {L L' : Ledger} {a : Addr} (h : handleUnpause L a = .ok L') : Moves L L' := by
  unfold handleUnpause at h
  obtain ⟨val, hv, h⟩ := bind_ok h
  guard_at h
  guard_at h
  guard_at h
  cases h
  exact moves_of_money (setValidatorUnpaused_money ..) (stakeSum_setValidatorUnpaused (getValidator_ok hv) rfl)

/-! ### stake changes -/

/-- same recorded total, accounts, pools and validator records -/
structure SameBal (L L' : Ledger) : Prop where
  total : L'.supply.total = L.supply.total
  accounts : L'.accounts = L.accounts
  pools : L'.pools = L.pools
  validators : L'.validators = L.validators

theorem SameBal.refl (L : Ledger) : SameBal L L := ⟨rfl, rfl, rfl, rfl⟩
theorem SameBal.trans {A B C : Ledger} (h1 : SameBal A B) (h2 : SameBal B C) : SameBal A C :=
  ⟨h2.total.trans h1.total, h2.accounts.trans h1.accounts, h2.pools.trans h1.pools, h2.validators.trans h1.validators⟩
theorem SameCore.sameBal {L L' : Ledger} (h : SameCore L L') : SameBal L L' := ⟨h.total, h.accounts, h.pools, h.validators⟩
theorem SameBal.bal_eq {L L' : Ledger} (h : SameBal L L') : Ledger.bal L' = Ledger.bal L := by
  simp [Ledger.bal, accSum, poolSum, stakeSum, h.accounts, h.pools, h.validators]
theorem SameBal.moves {L L' : Ledger} (h : SameBal L L') : Moves L L' := ⟨by rw [h.total], by rw [h.bal_eq]⟩
theorem SameBal.valGet {L L' : Ledger} (h : SameBal L L') (a : Addr) : valGet? L' a = valGet? L a := by
  simp [valGet?, h.validators]

theorem sameBal_addToStaked {L L' : Ledger} {x : Nat} (h : addToStaked L x = .ok L') : SameBal L L' := by
  rw [addToStaked_ok h]; exact ⟨rfl, rfl, rfl, rfl⟩
theorem sameBal_subFromStaked {L L' : Ledger} {x : Nat} (h : subFromStaked L x = .ok L') : SameBal L L' := by
  rw [(subFromStaked_ok h).2]; exact ⟨rfl, rfl, rfl, rfl⟩
theorem sameBal_addToDelegated {L L' : Ledger} {x : Nat} (h : addToDelegated L x = .ok L') : SameBal L L' := by
  rw [addToDelegated_ok h]; exact ⟨rfl, rfl, rfl, rfl⟩
theorem sameBal_subFromDelegated {L L' : Ledger} {x : Nat} (h : subFromDelegated L x = .ok L') : SameBal L L' := by
  rw [(subFromDelegated_ok h).2]; exact ⟨rfl, rfl, rfl, rfl⟩

/-- writing a validator record changes the real sum by the difference of the stakes -/
theorem bal_valPut (L : Ledger) (a : Addr) (v : Validator) :
    (valPut L a v).supply.total = L.supply.total ∧ bal (valPut L a v) + ow (·.stake) (valGet? L a) = bal L + v.stake := by
  have := stakeSum_valPut L a v
  refine ⟨rfl, ?_⟩
  have e1 : accSum (valPut L a v) = accSum L := rfl
  have e2 : poolSum (valPut L a v) = poolSum L := rfl
  unfold bal; rw [e1, e2]; omega

theorem bal_valDel (L : Ledger) (a : Addr) :
    (valDel L a).supply.total = L.supply.total ∧ bal (valDel L a) + ow (·.stake) (valGet? L a) = bal L := by
  have := stakeSum_valDel L a
  refine ⟨rfl, ?_⟩
  have e1 : accSum (valDel L a) = accSum L := rfl
  have e2 : poolSum (valDel L a) = poolSum L := rfl
  unfold bal; rw [e1, e2]; omega

/-- `UpdateValidatorStake` adds `amt` to the stake of an existing validator (no wrap: stake + amt < 2^64) -/
theorem updateValidatorStake_bal {L L' : Ledger} {a : Addr} {old val : Validator} {cs : List Nat} {amt : Nat}
    (hg : valGet? L a = some old) (hs : val.stake = old.stake) (hw : val.stake + amt < U64)
    (h : updateValidatorStake L a val cs amt = .ok L') :
    L'.supply.total = L.supply.total ∧ bal L' = bal L + amt := by
  unfold updateValidatorStake at h
  obtain ⟨L1, h1, h⟩ := bind_ok h
  have s1 := sameBal_addToStaked h1
  have key : ∀ L2, SameBal L1 L2 → L' = valPut L2 a { val with committees := cs, stake := (val.stake + amt) % U64 } →
      L'.supply.total = L.supply.total ∧ bal L' = bal L + amt := by
    intro L2 s2 e
    subst e
    rw [Nat.mod_eq_of_lt hw]
    have s := s1.trans s2
    have hb := bal_valPut L2 a { val with committees := cs, stake := val.stake + amt }
    rw [s.valGet, hg] at hb
    simp only [ow_some] at hb
    have := s.bal_eq; have := s.total
    exact ⟨by omega, by omega⟩
  dsimp only at h
  split at h
  · obtain ⟨L1', h3, h⟩ := bind_ok h
    obtain ⟨L2, h4, h⟩ := bind_ok h
    cases h
    exact key L2 ((sameBal_addToDelegated h3).trans (sameCore_updateDelegations h4).sameBal) rfl
  · obtain ⟨L2, h4, h⟩ := bind_ok h
    cases h
    exact key L2 (sameCore_updateCommittees h4).sameBal rfl

/-- `DeleteValidator` removes the stake of an existing validator from the real sum -/
theorem deleteValidator_bal {L L' : Ledger} {a : Addr} {val : Validator} (hg : valGet? L a = some val)
    (h : deleteValidator L a val = .ok L') :
    L'.supply.total = L.supply.total ∧ bal L' + val.stake = bal L := by
  unfold deleteValidator at h
  obtain ⟨L1, h1, h⟩ := bind_ok h
  have s1 := sameBal_subFromStaked h1
  have key : ∀ L2, SameBal L1 L2 → L' = valDel L2 a → L'.supply.total = L.supply.total ∧ bal L' + val.stake = bal L := by
    intro L2 s2 e
    subst e
    have s := s1.trans s2
    have hb := bal_valDel L2 a
    rw [s.valGet, hg] at hb
    simp only [ow_some] at hb
    have := s.bal_eq; have := s.total
    exact ⟨by omega, by omega⟩
  dsimp only at h
  split at h
  · obtain ⟨L1', h3, h⟩ := bind_ok h
    obtain ⟨L2, h4, h⟩ := bind_ok h
    cases h
    exact key L2 ((sameBal_subFromDelegated h3).trans (sameCore_deleteDelegations h4).sameBal) rfl
  · obtain ⟨L2, h4, h⟩ := bind_ok h
    cases h
    exact key L2 (sameCore_deleteCommittees h4).sameBal rfl

/-! ### inversion of the stake / edit-stake handlers -/

/-- what a successful `HandleMessageStake` did -/
theorem handleStake_inv {L L' : Ledger} {s a o : Addr} {x : Nat} {cs : List Nat} {d c : Bool}
    (h : handleStake L s a x cs d c o = .ok L') :
    valGet? L a = none ∧
    (if d then L.params.minStakeDelegates ≤ x else L.params.minStakeValidators ≤ x) ∧
    ∃ L1 L2 L3, accountSub L s x = .ok L1 ∧ addToStaked L1 x = .ok L2 ∧
      (if d then ∃ L2', addToDelegated L2 x = .ok L2' ∧ setDelegations L2' a x cs = .ok L3 else setCommittees L2 a x cs = .ok L3) ∧
      L' = valPut L3 a { stake := x, committees := cs, delegate := d, compound := c, output := o } := by
  unfold handleStake at h
  guard_at h
  next hex =>
  have hnone : valGet? L a = none := by
    cases hv : valGet? L a with
    | none => rfl
    | some v => simp [hv] at hex
  cases d with
  | true =>
    simp only [if_true] at h ⊢
    guard_at h
    next hmin =>
    obtain ⟨L1, h1, h⟩ := bind_ok h
    obtain ⟨L2, h2, h⟩ := bind_ok h
    obtain ⟨L2', h3, h⟩ := bind_ok h
    obtain ⟨L3, h4, h⟩ := bind_ok h
    cases h
    exact ⟨hnone, by omega, L1, L2, L3, h1, h2, ⟨L2', h3, h4⟩, rfl⟩
  | false =>
    simp only [Bool.false_eq_true, if_false] at h ⊢
    guard_at h
    next hmin =>
    obtain ⟨L1, h1, h⟩ := bind_ok h
    obtain ⟨L2, h2, h⟩ := bind_ok h
    obtain ⟨L3, h4, h⟩ := bind_ok h
    cases h
    exact ⟨hnone, by omega, L1, L2, L3, h1, h2, h4, rfl⟩

theorem handleStake_moves {L L' : Ledger} {s a o : Addr} {x : Nat} {cs : List Nat} {d c : Bool}
    (h : handleStake L s a x cs d c o = .ok L') : Moves L L' := by
  obtain ⟨hnone, _, L1, L2, L3, h1, h2, h3, rfl⟩ := handleStake_inv h
  obtain ⟨acc, vs, rfl, e1⟩ := accountSub_ok h1
  have s2 := sameBal_addToStaked h2
  have s3 : SameBal L2 L3 := by
    cases d with
    | true => simp only [if_true] at h3; obtain ⟨L2', h4, h5⟩ := h3
              exact (sameBal_addToDelegated h4).trans (sameCore_setDelegations h5).sameBal
    | false => simp only [Bool.false_eq_true, if_false] at h3; exact (sameCore_setCommittees h3).sameBal
  have s := s2.trans s3
  have hb := bal_valPut L3 a { stake := x, committees := cs, delegate := d, compound := c, output := o }
  rw [s.valGet] at hb
  have hn : valGet? { L with accounts := acc, vesting := vs } a = none := hnone
  rw [hn] at hb
  have := s.bal_eq; have := s.total
  ledger_norm; simp only [ow_none] at hb; omega

/-- what a successful `HandleMessageEditStake` did -/
theorem handleEditStake_inv {L L' : Ledger} {s a o : Addr} {x : Nat} {cs : List Nat} {c : Bool}
    (h : handleEditStake L s a x cs c o = .ok L') :
    ∃ val L1, valGet? L a = some val ∧ val.unstakingHeight = 0 ∧
      accountSub L s (if x ≤ val.stake then 0 else x - val.stake) = .ok L1 ∧
      updateValidatorStake L1 a { val with output := o, compound := c } cs (if x ≤ val.stake then 0 else x - val.stake) = .ok L' := by
  unfold handleEditStake at h
  obtain ⟨val, hv, h⟩ := bind_ok h
  guard_at h
  next hu =>
  guard_at h
  obtain ⟨L1, h1, h⟩ := bind_ok h
  exact ⟨val, L1, getValidator_ok hv, by simpa using hu, h1, h⟩

theorem handleEditStake_moves {L L' : Ledger} {s a o : Addr} {x : Nat} {cs : List Nat} {c : Bool} (hi : InvSupply L)
    (h : handleEditStake L s a x cs c o = .ok L') : Moves L L' := by
  obtain ⟨val, L1, hv, _, h1, h2⟩ := handleEditStake_inv h
  obtain ⟨acc, vs, rfl, e1⟩ := accountSub_ok h1
  have hst := stake_le L a val hv
  have hv1 : valGet? { L with accounts := acc, vesting := vs } a = some val := hv
  obtain ⟨t, b⟩ := updateValidatorStake_bal (val := { val with output := o, compound := c }) hv1 rfl (by
    ledger_norm; show val.stake + _ < U64; omega) h2
  ledger_norm; omega

/-! ### slashing -/

theorem safeMulDiv_le (a b : Nat) (hb : b ≤ 100) : safeMulDiv a b 100 ≤ a := by
  unfold safeMulDiv
  simp only [show (100 : Nat) ≠ 0 by decide, if_false]
  refine Nat.le_trans (Nat.mod_le _ _) ?_
  apply Nat.div_le_of_le_mul
  calc a * b ≤ a * 100 := Nat.mul_le_mul_left a hb
    _ = 100 * a := Nat.mul_comm _ _

theorem stakeAfterSlash_le (stake p : Nat) : stakeAfterSlash stake p ≤ stake := by
  unfold stakeAfterSlash
  split
  · omega
  · split
    · omega
    · exact safeMulDiv_le _ _ (by omega)

theorem slashScope_sameBal {L L0 : Ledger} {a : Addr} {val : Validator} {ch p p' : Nat} {cs' : List Nat}
    (h : slashScope L a val ch p = some (p', cs', L0)) :
    SameBal L L0 ∧ L0.supply = L.supply ∧ L0.unstaking = L.unstaking ∧ L0.paused = L.paused ∧ L0.params = L.params ∧ L0.height = L.height := by
  unfold slashScope at h
  split at h
  · split at h
    · cases h
    · dsimp only at h
      split at h
      · cases h
      · simp only [Option.some.injEq, Prod.mk.injEq] at h
        obtain ⟨_, _, rfl⟩ := h
        exact ⟨⟨rfl, rfl, rfl, rfl⟩, rfl, rfl, rfl, rfl, rfl⟩
  · simp only [Option.some.injEq, Prod.mk.injEq] at h
    obtain ⟨_, _, rfl⟩ := h
    exact ⟨SameBal.refl L, rfl, rfl, rfl, rfl, rfl⟩

theorem slashCleanMarkers_sameBal (mc : Bool) (L : Ledger) (a : Addr) (val : Validator) :
    SameBal L (slashCleanMarkers mc L a val) := by
  unfold slashCleanMarkers
  dsimp only
  split <;> split <;> exact ⟨rfl, rfl, rfl, rfl⟩

theorem slashMembership_sameBal {L L' : Ledger} {a : Addr} {val : Validator} {after x : Nat} {cs : List Nat}
    (h : slashMembership L a val after cs x = .ok L') : SameBal L L' := by
  unfold slashMembership at h
  split at h
  · obtain ⟨L1, h1, h2⟩ := bind_ok h
    exact (sameBal_subFromDelegated h1).trans (sameCore_updateDelegations h2).sameBal
  · exact (sameCore_updateCommittees h).sameBal

theorem setUnstakingIfBelowMinimum_eq (L : Ledger) (a : Addr) (val : Validator) :
    setUnstakingIfBelowMinimum L a val = (false, L) ∨
    ∃ f, setUnstakingIfBelowMinimum L a val = (true, setValidatorUnstaking L a val f) := by
  unfold setUnstakingIfBelowMinimum
  split
  · exact Or.inl rfl
  · split
    · split
      · exact Or.inr ⟨_, rfl⟩
      · exact Or.inl rfl
    · split
      · exact Or.inr ⟨_, rfl⟩
      · exact Or.inl rfl

theorem bal_setValidatorUnstaking (L : Ledger) (a : Addr) (val : Validator) (f : Nat) :
    (setValidatorUnstaking L a val f).supply.total = L.supply.total ∧
    bal (setValidatorUnstaking L a val f) + ow (·.stake) (valGet? L a) = bal L + val.stake := by
  have hm := setValidatorUnstaking_money L a val f
  have hb := bal_valPut L a { val with maxPausedHeight := 0, unstakingHeight := f }
  refine ⟨by rw [hm.supply], ?_⟩
  have e : bal (setValidatorUnstaking L a val f) = bal (valPut L a { val with maxPausedHeight := 0, unstakingHeight := f }) := by
    unfold bal accSum poolSum stakeSum
    rw [hm.accounts, hm.pools, setValidatorUnstaking_validators]; rfl
  rw [e]; exact hb.2

/-- the end of the non-zero slash branch writes a record with the reduced stake -/
theorem slashFinish_bal (L : Ledger) (a : Addr) (val' : Validator) :
    (slashFinish L a val').supply.total = L.supply.total ∧
    bal (slashFinish L a val') + ow (·.stake) (valGet? L a) = bal L + val'.stake := by
  unfold slashFinish
  dsimp only
  rcases setUnstakingIfBelowMinimum_eq L a val' with e | ⟨f, e⟩
  · rw [e]; simp only [Bool.false_eq_true, if_false]; exact bal_valPut L a val'
  · rw [e]; simp only [if_true]; exact bal_setValidatorUnstaking L a val' f

/-- `SlashValidator` burns exactly the slashed amount -/
theorem slashValidator_burns {mc : Bool} {L L' : Ledger} {a : Addr} {val : Validator} {ch p : Nat}
    (hg : valGet? L a = some val) (h : slashValidatorWith mc L a val ch p = .ok L') :
    ∃ b, Step 0 b L L' := by
  unfold slashValidatorWith at h
  split at h
  · cases h; exact ⟨0, Moves.refl L⟩
  · next p' cs' L0 hsc =>
    obtain ⟨s0, -⟩ := slashScope_sameBal hsc
    have hle := stakeAfterSlash_le val.stake p'
    dsimp only at h
    split at h
    · cases h
    · next L1 h1 =>
      obtain ⟨hx, rfl⟩ := subFromTotal_ok h1
      refine ⟨val.stake - stakeAfterSlash val.stake p', ?_⟩
      have hg0 : valGet? L0 a = some val := by rw [s0.valGet]; exact hg
      split at h
      · next hz =>
        have sc := slashCleanMarkers_sameBal mc { L0 with supply := { L0.supply with total := L0.supply.total - (val.stake - stakeAfterSlash val.stake p') } } a val
        obtain ⟨t, b⟩ := deleteValidator_bal (by rw [sc.valGet]; exact hg0) h
        have := sc.bal_eq; have := sc.total; have := s0.bal_eq; have := s0.total
        ledger_norm; omega
      · split at h
        · cases h
        · next L2 h2 =>
          split at h
          · cases h
          · next L3 h3 =>
            cases h
            have s2 := sameBal_subFromStaked h2
            have s3 := slashMembership_sameBal h3
            have s := s2.trans s3
            obtain ⟨t, b⟩ := slashFinish_bal L3 a { val with committees := cs', stake := stakeAfterSlash val.stake p' }
            rw [s.valGet] at b
            have hg1 : valGet? { L0 with supply := { L0.supply with total := L0.supply.total - (val.stake - stakeAfterSlash val.stake p') } } a = some val := hg0
            rw [hg1] at b
            simp only [ow_some] at b
            have := s.bal_eq; have := s.total; have := s0.bal_eq; have := s0.total
            ledger_norm; omega

theorem slashValidators_burns {mc : Bool} {ch p : Nat} : ∀ {as : List Addr} {L L' : Ledger},
    slashValidatorsWith mc L ch p as = .ok L' → ∃ b, Step 0 b L L'
  | [], L, L', h => by cases h; exact ⟨0, Moves.refl L⟩
  | a :: as, L, L', h => by
    unfold slashValidatorsWith at h
    split at h
    · exact slashValidators_burns h
    · next val hv =>
      obtain ⟨L1, h1, h2⟩ := bind_ok h
      obtain ⟨b1, s1⟩ := slashValidator_burns hv h1
      obtain ⟨b2, s2⟩ := slashValidators_burns h2
      exact ⟨b1 + b2, by simpa using s1.trans s2⟩

end Canopy.Ledger
