import Canopy.Proof.LedgerSupply
/-! C04: every modelled operation preserves `InvSupply` and changes the recorded total only by what it
mints or burns. `Moves L L'` = "only moved tokens"; `Burns b L L'`, `Mints m L L'` accordingly. -/
namespace Canopy.Ledger
open AMap

set_option linter.unusedSimpArgs false
set_option linter.unusedVariables false

/-- `L'` is `L` after minting `m` and burning `b`: the recorded total and the real sum moved together -/
def Step (m b : Nat) (L L' : Ledger) : Prop :=
  L'.supply.total + b = L.supply.total + m ∧ bal L' + b = bal L + m

abbrev Moves := Step 0 0

theorem Step.inv {m b : Nat} {L L' : Ledger} (hs : Step m b L L') (hi : InvSupply L) (hlt : L'.supply.total < U64) : InvSupply L' := by
  obtain ⟨h1, h2⟩ := hs; obtain ⟨i1, i2⟩ := hi
  exact ⟨by omega, hlt⟩

theorem Step.inv_of_le {m b : Nat} {L L' : Ledger} (hs : Step m b L L') (hi : InvSupply L) (hm : m ≤ b) : InvSupply L' := by
  obtain ⟨h1, h2⟩ := hs; obtain ⟨i1, i2⟩ := hi
  exact ⟨by omega, by omega⟩

theorem Step.trans {m1 b1 m2 b2 : Nat} {A B C : Ledger} (h1 : Step m1 b1 A B) (h2 : Step m2 b2 B C) : Step (m1 + m2) (b1 + b2) A C := by
  obtain ⟨a1, a2⟩ := h1; obtain ⟨c1, c2⟩ := h2
  exact ⟨by omega, by omega⟩

theorem Moves.refl (L : Ledger) : Moves L L := ⟨rfl, rfl⟩

theorem moves_of_sameCore {L L' : Ledger} (h : SameCore L L') : Moves L L' :=
  ⟨by rw [h.total], by rw [bal_of_sameCore h]⟩

/-- tactic: after every intermediate ledger has been written as a record update, reduce all quantities to
sums over fields -/
macro "ledger_norm" : tactic =>
  `(tactic| simp only [Moves, Step, InvSupply, bal, accSum, poolSum, stakeSum, accGet, poolGet, true_and, and_true, Nat.add_zero] at *)

/-! ### fee deduction and plain transfers -/

theorem deductFees_moves {L L' : Ledger} {a : Addr} {fee : Nat} (hi : InvSupply L) (h : deductFees L a fee = .ok L') : Moves L L' := by
  unfold deductFees at h
  obtain ⟨L1, h1, h2⟩ := bind_ok h
  obtain ⟨acc, rfl, e1⟩ := accountSub_ok h1
  cases h2
  have hb := poolGet_le { L with accounts := acc } { L with accounts := acc }.cfg.chainId
  obtain ⟨p, e2, e3⟩ := poolAdd_noWrap { L with accounts := acc } { L with accounts := acc }.cfg.chainId fee (by
    ledger_norm; omega)
  rw [e2] at e3 ⊢
  ledger_norm; omega

theorem handleSend_moves {L L' : Ledger} {s d : Addr} {x : Nat} (h : handleSend L s d x = .ok L') : Moves L L' := by
  unfold handleSend at h
  obtain ⟨L1, h1, h2⟩ := bind_ok h
  obtain ⟨acc, rfl, e1⟩ := accountSub_ok h1
  obtain ⟨acc2, rfl, e2⟩ := accountAdd_ok h2
  ledger_norm; omega

theorem handleSubsidy_moves {L L' : Ledger} {a : Addr} {c x : Nat} (hi : InvSupply L) (h : handleSubsidy L a c x = .ok L') : Moves L L' := by
  unfold handleSubsidy at h
  split at h
  · cases h
  obtain ⟨L1, h1, h2⟩ := bind_ok h
  obtain ⟨acc, rfl, e1⟩ := accountSub_ok h1
  cases h2
  have hb := poolGet_le { L with accounts := acc } c
  obtain ⟨p, e2, e3⟩ := poolAdd_noWrap { L with accounts := acc } c x (by ledger_norm; omega)
  rw [e2] at e3 ⊢
  ledger_norm; omega

/-! ### minting -/

/-- `MintToPool` mints exactly `x` provided the recorded total does not overflow (F5: the code has no guard) -/
theorem mintToPool_mints {L : Ledger} {id x : Nat} (hi : InvSupply L) (hx : L.supply.total + x < U64) :
    Step x 0 L (mintToPool L id x) := by
  unfold mintToPool
  rw [addToTotal_noWrap L x hx]
  have hb := poolGet_le { L with supply := { L.supply with total := L.supply.total + x } } id
  obtain ⟨p, e2, e3⟩ := poolAdd_noWrap { L with supply := { L.supply with total := L.supply.total + x } } id x (by
    ledger_norm; omega)
  rw [e2] at e3 ⊢
  ledger_norm; omega

/-- companion of `mintToPool_mints` at the excluded point: the recorded total wraps while the pool does not
lose anything, so the identity breaks by exactly 2^64 -/
theorem mintToPool_wraps {L : Ledger} {id x : Nat} (hi : InvSupply L) (hx : U64 ≤ L.supply.total + x) (hxlt : x < U64)
    (hp : poolGet L id + x < U64) :
    (mintToPool L id x).supply.total + U64 = bal (mintToPool L id x) := by
  unfold mintToPool
  have ht := addToTotal_wraps L x hx hxlt hi.2
  obtain ⟨p, e2, e3⟩ := poolAdd_noWrap (addToTotal L x) id x (by simpa [poolGet, addToTotal] using hp)
  rw [e2] at e3 ⊢
  have : poolSum (addToTotal L x) = poolSum L := rfl
  simp only [addToTotal] at *
  ledger_norm; omega

theorem mintToAccount_mints {L L' : Ledger} {a : Addr} {x : Nat} (hx : L.supply.total + x < U64)
    (h : mintToAccount L a x = .ok L') : Step x 0 L L' := by
  unfold mintToAccount at h
  split at h
  · next h0 => cases h; subst h0; exact Moves.refl L
  · rw [addToTotal_noWrap L x hx] at h
    obtain ⟨acc, rfl, e⟩ := accountAdd_ok h
    ledger_norm; omega

/-- `HandleMessageDAOTransfer`: mints `amount` when `mint` is set (hypothesis: no overflow), otherwise only moves -/
theorem handleDaoTransfer_step {L L' : Ledger} {a : Addr} {x s e : Nat} {mint : Bool} (hi : InvSupply L)
    (hx : mint = true → L.supply.total + x < U64)
    (h : handleDaoTransfer L a x mint s e = .ok L') : Step (if mint then x else 0) 0 L L' := by
  unfold handleDaoTransfer at h
  obtain ⟨_, _, h⟩ := bind_ok h
  obtain ⟨L2, h2, h3⟩ := bind_ok h
  cases mint with
  | false =>
    simp only [Bool.false_eq_true, if_false] at h2 ⊢
    obtain ⟨p, rfl, e1⟩ := poolSub_ok h2
    obtain ⟨acc, rfl, e2⟩ := accountAdd_ok h3
    ledger_norm; omega
  | true =>
    simp only [if_true] at h2 ⊢
    have hm := mintToPool_mints (id := Canopy.Gen.LedgerFacts.daoPoolId) hi (hx rfl)
    obtain ⟨p, rfl, e1⟩ := poolSub_ok h2
    obtain ⟨acc, rfl, e2⟩ := accountAdd_ok h3
    ledger_norm; omega

/-- `maybeFaucetTopUpForSendTx`: mints the shortfall when the sender is the configured faucet -/
def faucetMint (L : Ledger) (sender : Addr) (required : Nat) : Nat :=
  match L.cfg.faucet with
  | none => 0
  | some f => if sender ≠ f then 0 else if accGet L sender ≥ required then 0 else required - accGet L sender

theorem faucetTopUp_mints {L L' : Ledger} {a : Addr} {r : Nat} (hx : L.supply.total + faucetMint L a r < U64)
    (h : faucetTopUp L a r = .ok L') : Step (faucetMint L a r) 0 L L' := by
  unfold faucetTopUp at h
  unfold faucetMint at hx ⊢
  cases hf : L.cfg.faucet with
  | none => simp only [hf] at h ⊢; cases h; exact Moves.refl L
  | some f =>
    simp only [hf] at h hx ⊢
    by_cases hne : a ≠ f
    · rw [if_pos hne] at h ⊢; cases h; exact Moves.refl L
    · rw [if_neg hne] at h hx ⊢
      by_cases hge : accGet L a ≥ r
      · rw [if_pos hge] at h ⊢; cases h; exact Moves.refl L
      · rw [if_neg hge] at h hx ⊢
        exact mintToAccount_mints hx h

/-! ### staking life cycle -/

theorem moves_of_money {L L' : Ledger} (hm : SameMoney L L') (hs : stakeSum L' = stakeSum L) : Moves L L' := by
  obtain ⟨h1, h2, h3⟩ := hm
  simp only [Moves, Step, bal, accSum, poolSum, h1, h2, h3, hs, and_self]

/-- in a failed guard `if c then throw e` nothing is returned -/
theorem throw_ne_ok {α β} {e : Err} {f : α → M β} {b : β} : ((throw e : M α) >>= f) = .ok b → False := by
  intro h; cases h

/-- discharge a statement-level guard `if c then throw e` in a `do` block: the main goal continues in the
branch where the guard did not fire, with the negated condition available -/
macro "guard_at" h:ident : tactic =>
  `(tactic| (
    try dsimp only at $h:ident
    split at $h:ident
    · exact (throw_ne_ok $h:ident).elim))

theorem handleUnstake_moves {L L' : Ledger} {a : Addr} (h : handleUnstake L a = .ok L') : Moves L L' := by
  unfold handleUnstake at h
  obtain ⟨val, hv, h⟩ := bind_ok h
  guard_at h
  cases h
  refine moves_of_money (setValidatorUnstaking_money ..) ?_
  exact stakeSum_valPut_same (getValidator_ok hv) rfl

end Canopy.Ledger
