import Canopy.Proof.Indexer
/-! The block cache keyed by hash key is transparent (C10): on every state reached by a disciplined
history — a block is indexed once per commit, for the next height, under a hash not used before —
`GetBlockByHeight` of a read-only view answers exactly what the database part says. -/
namespace Canopy.Store
open Canopy

abbrev B64 : Nat := 18446744073709551616

/-- the physical key of index key `k` at version `w` -/
def IKey (k : Bytes) (w : Nat) : Bytes := mkKey (idxPrefix ++ k) w

/-! ## keys and values decode -/

theorem be8_inj {a b : Nat} (ha : a < B64) (hb : b < B64) (h : be8 a = be8 b) : a = b := by
  have := congrArg beNat h
  rwa [beNat_be8 a ha, beNat_be8 b hb] at this

theorem segsOK2 (a b : Bytes) (ha : a.length ≤ 255) (hb : b.length ≤ 255) : SegsOK [a, b] := by
  intro s hs; simp at hs; rcases hs with rfl | rfl <;> assumption

theorem segsOK3 (a b c : Bytes) (ha : a.length ≤ 255) (hb : b.length ≤ 255) (hc : c.length ≤ 255) : SegsOK [a, b, c] := by
  intro s hs; simp at hs; rcases hs with rfl | rfl | rfl <;> assumption

theorem blockHashKey_inj {a b : Bytes} (h : blockHashKey a = blockHashKey b) : a = b := by
  simp [blockHashKey, joinLenPrefix] at h; exact h.2

theorem txHashKey_inj {a b : Bytes} (h : txHashKey a = txHashKey b) : a = b := by
  simp [txHashKey, joinLenPrefix] at h; exact h.2

theorem blockHeightKey_inj {a b : Nat} (ha : a < B64) (hb : b < B64) (h : blockHeightKey a = blockHeightKey b) : a = b := by
  have := join_injective _ _ (segsOK2 [6] (be8 a) (by simp) (by simp [be8_length])) (segsOK2 [6] (be8 b) (by simp) (by simp [be8_length])) h
  simp only [List.cons.injEq, and_true, true_and] at this
  exact be8_inj ha hb this

theorem txHeightIndexKey_inj {a b i j : Nat} (ha : a < B64) (hb : b < B64) (hi : i < B64) (hj : j < B64)
    (h : txHeightIndexKey a i = txHeightIndexKey b j) : a = b ∧ i = j := by
  have := join_injective _ _ (segsOK3 [2] (be8 a) (be8 i) (by simp) (by simp [be8_length]) (by simp [be8_length]))
    (segsOK3 [2] (be8 b) (be8 j) (by simp) (by simp [be8_length]) (by simp [be8_length])) h
  simp only [List.cons.injEq, and_true, true_and] at this
  exact ⟨be8_inj ha hb this.1, be8_inj hi hj this.2⟩

theorem decHdr_encHdr (h : Nat) (H : Bytes) (hh : h < B64) : decHdr (encHdr h H) = (h, H) := by
  unfold decHdr encHdr
  have hne : (be8 h ++ H).isEmpty = false := by simp [be8]
  rw [hne]
  simp only [Bool.false_eq_true, if_false]
  rw [List.take_left' (by rfl), List.drop_left' (by rfl), beNat_be8 h hh]

theorem decTxHash_encTx (h i : Nat) (th : Bytes) : decTxHash (encTx h i th) = th := by
  unfold decTxHash encTx
  have : (be8 h ++ be8 i).length = 16 := by simp [be8_length]
  rw [List.drop_left' this]

theorem IKey_inj {k k' : Bytes} {w w' : Nat} (hw : w ≤ maxVer) (hw' : w' ≤ maxVer) (h : IKey k w = IKey k' w') :
    k = k' ∧ w = w' := by
  obtain ⟨h1, h2⟩ := mkKey_inj hw hw' h
  exact ⟨List.append_cancel_left h1, h2⟩

/-- an index key under the per-height transaction prefix is a height.index key of that height -/
theorem idxKey_under_txHeight {k : Bytes} (hk : IdxKey k) {c : Nat} (hc : c < B64) (hp : txHeightKey c <+: k) :
    ∃ i, i < B64 ∧ k = txHeightIndexKey c i := by
  obtain ⟨sa, oka, rfl, shA⟩ := hk.segs
  have okb : SegsOK [[2], be8 c] := segsOK2 _ _ (by simp) (by simp [be8_length])
  have hs := join_prefix [[2], be8 c] sa okb oka hp
  rcases shA with ⟨_, _, rfl⟩ | ⟨_, _, rfl⟩ | ⟨_, _, rfl⟩ | ⟨_, _, rfl⟩ | ⟨n, i, hn, hi, rfl⟩
  · simp [List.cons_prefix_cons] at hs
  · simp [List.cons_prefix_cons] at hs
  · simp [List.cons_prefix_cons] at hs
  · simp [List.cons_prefix_cons] at hs
  · simp only [List.cons_prefix_cons, true_and] at hs
    have : c = n := be8_inj hc hn hs.1
    subst this
    exact ⟨i, hi, rfl⟩

/-! ## sorted-insert folds: the last write to a key wins -/

def lookupLast (es : List (Bytes × TOp)) (k : Bytes) : Option TOp := (es.reverse.find? fun e => e.1 == k).map (·.2)

theorem smGet_foldl_last (es : List (Bytes × TOp)) (acc : Overlay) (k : Bytes) :
    smGet (es.foldl (fun o e => smSet o e.1 e.2) acc) k =
      match lookupLast es k with
      | some v => some v
      | none => smGet acc k := by
  induction es generalizing acc with
  | nil => rfl
  | cons e es ih =>
    rw [List.foldl_cons, ih]
    unfold lookupLast
    simp only [List.reverse_cons, List.find?_append]
    cases hf : es.reverse.find? (fun x => x.1 == k) with
    | some x => simp
    | none =>
      simp only [Option.none_or, Option.map_none, List.find?_cons, List.find?_nil]
      rw [smGet_smSet]
      by_cases hk : k = e.1
      · subst hk; simp
      · have : (e.1 == k) = false := by simp [Ne.symm hk]
        simp [this, hk]

theorem nodup_keys_inj {α : Type} {es : List (Bytes × α)} (hn : (es.map (·.1)).Nodup) {x y : Bytes × α}
    (hx : x ∈ es) (hy : y ∈ es) (hk : x.1 = y.1) : x = y := by
  induction es with
  | nil => cases hx
  | cons e es ih =>
    rw [List.map_cons, List.nodup_cons] at hn
    rcases List.mem_cons.mp hx with rfl | hx' <;> rcases List.mem_cons.mp hy with rfl | hy'
    · rfl
    · exact absurd (List.mem_map_of_mem (f := (·.1)) hy') (hk ▸ hn.1)
    · exact absurd (List.mem_map_of_mem (f := (·.1)) hx') (hk ▸ hn.1)
    · exact ih hn.2 hx' hy'

/-- with pairwise distinct keys, the last write to a key is the only one -/
theorem lookupLast_of_nodup {es : List (Bytes × TOp)} (hn : (es.map (·.1)).Nodup) (k : Bytes) (v : TOp) :
    lookupLast es k = some v ↔ (k, v) ∈ es := by
  unfold lookupLast
  constructor
  · intro h
    cases hf : es.reverse.find? (fun e => e.1 == k) with
    | none => rw [hf] at h; cases h
    | some x =>
      rw [hf] at h
      simp only [Option.map_some, Option.some.injEq] at h
      have hm := List.mem_reverse.mp (List.mem_of_find?_eq_some hf)
      have hk : x.1 = k := by simpa using List.find?_some hf
      rw [← hk, ← h]; exact hm
  · intro hm
    cases hf : es.reverse.find? (fun e => e.1 == k) with
    | none =>
      have := List.find?_eq_none.mp hf (k, v) (List.mem_reverse.mpr hm)
      simp at this
    | some x =>
      have hxm := List.mem_reverse.mp (List.mem_of_find?_eq_some hf)
      have hk : x.1 = k := by simpa using List.find?_some hf
      -- same key, distinct keys in the list: same element
      have : x = (k, v) := nodup_keys_inj hn hxm hm hk
      simp [this]

end Canopy.Store

namespace Canopy.Store
open Canopy

/-! ## the discipline of the index partition -/

/-- every block record sits at the version that equals its height, points to a header stored once, and
its transactions are stored once, at that same version -/
structure DBDisc (idb : DB) : Prop where
  hgt : ∀ h w raw, h < B64 → w ≤ maxVer → smGet idb (IKey (blockHeightKey h) w) = some raw →
    h = w ∧ ∃ H, H.length = 32 ∧ raw = rawAlive (blockHashKey H) ∧
      smGet idb (IKey (blockHashKey H) w) = some (rawAlive (encHdr w H))
  hdr_uniq : ∀ H w w' raw raw', w ≤ maxVer → w' ≤ maxVer → smGet idb (IKey (blockHashKey H) w) = some raw →
    smGet idb (IKey (blockHashKey H) w') = some raw' → w = w'
  txi : ∀ h i w raw, h < B64 → i < B64 → w ≤ maxVer → smGet idb (IKey (txHeightIndexKey h i) w) = some raw →
    h = w ∧ ∃ th, th.length = 32 ∧ raw = rawAlive (txHashKey th) ∧ ∃ raw2, smGet idb (IKey (txHashKey th) w) = some raw2
  txh : ∀ th w raw, w ≤ maxVer → smGet idb (IKey (txHashKey th) w) = some raw → ∃ a, a.length = 16 ∧ raw = rawAlive (a ++ th)
  txh_uniq : ∀ th w w' raw raw', w ≤ maxVer → w' ≤ maxVer → smGet idb (IKey (txHashKey th) w) = some raw →
    smGet idb (IKey (txHashKey th) w') = some raw' → w = w'

theorem DBDisc.init : DBDisc [] := by
  constructor <;> intros <;> simp_all [smGet]

/-- a read-only view of the indexer -/
abbrev roV (idb : DB) (v : Nat) : IView := { idb := idb, version := v }

/-- a view without pending operations iterates the database -/
theorem roV_iter (idb : DB) (v : Nat) (p : Bytes) : (roV idb v).iter p = (roV idb v).dbIter p := by
  simp [IView.iter, roV]

theorem roV_getB (idb : DB) (v : Nat) (k : Bytes) :
    (roV idb v).getB k = ((VS.mk idb v).get (idxPrefix ++ k)).getD [] := by
  simp [IView.getB, smGet]

theorem parseVal_rawAlive (x : Bytes) : parseVal (rawAlive x) = (aliveTomb, x) := rfl

/-- a key stored at exactly one version `c ≤ v` reads as its value -/
theorem getB_of_unique {idb : DB} (hw : WFL idb) {v c : Nat} (hv : v ≤ maxVer) (hc : c ≤ v) {k x : Bytes}
    (hget : smGet idb (IKey k c) = some (rawAlive x))
    (huniq : ∀ w raw, w ≤ maxVer → smGet idb (IKey k w) = some raw → w = c) :
    (roV idb v).getB k = x := by
  rw [roV_getB]
  have : (VS.mk idb v).get (idxPrefix ++ k) = some x := by
    rw [VS.get_sees' idb hw v hv]
    exact ⟨c, rawAlive x, hc, by omega, hget, fun w' raw' _ hm hg => by rw [huniq w' raw' hm hg]; exact Nat.le_refl _,
      alive_ne_dead, rfl⟩
  rw [this]; rfl

/-- resolving a height in a view: the hash key of the block committed at that height, visible in the view -/
theorem resolve_height {idb : DB} (hw : WFL idb) (hd : DBDisc idb) {v h : Nat} (hv : v ≤ maxVer) (hh : h < B64)
    {hk : Bytes} (hne : hk ≠ []) (hres : (roV idb v).getB (blockHeightKey h) = hk) :
    ∃ H, H.length = 32 ∧ hk = blockHashKey H ∧ h ≤ v ∧
      smGet idb (IKey (blockHashKey H) h) = some (rawAlive (encHdr h H)) := by
  rw [roV_getB] at hres
  cases hg : (VS.mk idb v).get (idxPrefix ++ blockHeightKey h) with
  | none => rw [hg] at hres; exact absurd hres.symm hne
  | some x =>
    rw [hg] at hres
    simp only [Option.getD_some] at hres
    subst hres
    obtain ⟨w, raw, hwv, hwm, hget, _, _, hx⟩ := (VS.get_sees' idb hw v hv _ _).mp hg
    obtain ⟨e, H, hl, hraw, hhdr⟩ := hd.hgt h w raw hh hwm hget
    subst e
    rw [hraw, parseVal_rawAlive] at hx
    exact ⟨H, hl, hx.symm, hwv, hhdr⟩

/-- the header read of a resolved block -/
theorem header_read {idb : DB} (hw : WFL idb) (hd : DBDisc idb) {v c : Nat} (hv : v ≤ maxVer) (hc : c ≤ v) {H : Bytes}
    (hhdr : smGet idb (IKey (blockHashKey H) c) = some (rawAlive (encHdr c H))) :
    (roV idb v).getB (blockHashKey H) = encHdr c H :=
  getB_of_unique hw hv hc hhdr fun w raw hm hg => hd.hdr_uniq H w c raw _ hm (by omega) hg hhdr

end Canopy.Store

namespace Canopy.Store
open Canopy

theorem iter_congr_sees {a b : DB} {va vb : Nat} (ha : WFL a) (hb : WFL b) (hva : va ≤ maxVer) (hvb : vb ≤ maxVer)
    (pfx : Bytes) (hpa : PrefixCompat a pfx) (hpb : PrefixCompat b pfx) (reverse seek seek' : Bool)
    (h : ∀ uk x, hasPrefix pfx uk = true → (Sees a va uk x ↔ Sees b vb uk x)) :
    (VS.mk a va).iter pfx reverse seek = (VS.mk b vb).iter pfx reverse seek' := by
  have sa := VS.iter_sees a ha va hva pfx hpa reverse seek
  have sb := VS.iter_sees b hb vb hvb pfx hpb reverse seek'
  exact sorted_mem_unique reverse _ _ sa.1 sb.1 fun e => by
    obtain ⟨k, x⟩ := e
    rw [sa.2, sb.2]
    constructor
    · rintro ⟨hp, hs⟩; exact ⟨hp, (h k x hp).mp hs⟩
    · rintro ⟨hp, hs⟩; exact ⟨hp, (h k x hp).mpr hs⟩

/-- reading a transaction record stored once -/
theorem decTxHash_read {idb : DB} (hw : WFL idb) (hd : DBDisc idb) {v c : Nat} (hv : v ≤ maxVer) (hc : c ≤ v) {th raw2 : Bytes}
    (hrec : smGet idb (IKey (txHashKey th) c) = some raw2) :
    decTxHash ((roV idb v).getB (txHashKey th)) = th := by
  obtain ⟨a, hal, rfl⟩ := hd.txh th c raw2 (by omega) hrec
  rw [getB_of_unique hw hv hc hrec fun w raw hm hg => hd.txh_uniq th w c raw _ hm (by omega) hg hrec]
  unfold decTxHash
  rw [List.drop_left' hal]

/-- an entry of the key space under the per-height transaction prefix -/
theorem entry_under_txHeight {idb : DB} {ver : Nat} (hr : IRep IdxKey idb ver) {c : Nat} (hc : c < B64)
    {uk : Bytes} (hp : hasPrefix (idxPrefix ++ txHeightKey c) uk = true) {w : Nat} {raw : Bytes}
    (hget : smGet idb (mkKey uk w) = some raw) :
    ∃ i, i < B64 ∧ uk = idxPrefix ++ txHeightIndexKey c i := by
  have hmem := (smGet_eq_some_iff hr.sorted _ _).mp hget
  obtain ⟨k, w', hk, _, hw', hek⟩ := hr.keys _ hmem
  have huk : uk = idxPrefix ++ k := mkKey_uk_inj hek
  subst huk
  have hp' : txHeightKey c <+: k := (List.prefix_append_right_inj _).mp (hasPrefix_iff.mp hp)
  obtain ⟨i, hi, rfl⟩ := idxKey_under_txHeight hk hc hp'
  exact ⟨i, hi, rfl⟩

/-- the per-height transaction list read by two views (possibly of two key spaces) that hold the same
height.index entries for that height -/
theorem txs_eq {a b : DB} {vera verb va vb c : Nat} (hra : IRep IdxKey a vera) (hrb : IRep IdxKey b verb)
    (hvera : vera ≤ maxVer) (hverb : verb ≤ maxVer) (hda : DBDisc a) (hdb : DBDisc b) (hc : c < B64)
    (hva : va ≤ maxVer) (hvb : vb ≤ maxVer) (hca : c ≤ va) (hcb : c ≤ vb)
    (hag : ∀ i raw, i < B64 → (smGet a (IKey (txHeightIndexKey c i) c) = some raw ↔
      smGet b (IKey (txHeightIndexKey c i) c) = some raw)) :
    (roV a va).txsByHeight c = (roV b vb).txsByHeight c := by
  have wa := hra.wfl idxKey_wf hvera
  have wb := hrb.wfl idxKey_wf hverb
  -- one direction of the visibility equivalence, used twice
  have dir : ∀ {x y : DB} {verx vx vy : Nat}, IRep IdxKey x verx → verx ≤ maxVer → DBDisc x → DBDisc y → c ≤ vy →
      (∀ i raw, i < B64 → smGet x (IKey (txHeightIndexKey c i) c) = some raw → smGet y (IKey (txHeightIndexKey c i) c) = some raw) →
      ∀ uk v, hasPrefix (idxPrefix ++ txHeightKey c) uk = true → Sees x vx uk v → Sees y vy uk v := by
    intro x y verx vx vy hrx hvx hdx hdy hcy hxy uk v hp ⟨w, raw, hwv, hwm, hget, _, hal, hx⟩
    obtain ⟨i, hi, rfl⟩ := entry_under_txHeight hrx hc hp hget
    have hwc : c = w := (hdx.txi c i w raw hc hi hwm hget).1
    subst hwc
    refine ⟨c, raw, hcy, hwm, hxy i raw hi hget, ?_, hal, hx⟩
    intro w' raw' _ hm' hg'
    rw [(hdy.txi c i w' raw' hc hi hm' hg').1]
    exact Nat.le_refl _
  have hiter : (roV a va).iter (txHeightKey c) = (roV b vb).iter (txHeightKey c) := by
    rw [roV_iter, roV_iter]
    simp only [IView.dbIter]
    rw [iter_congr_sees wa wb hva hvb _ (hra.compatP (idxKey_pfx c)) (hrb.compatP (idxKey_pfx c)) false false false]
    intro uk x hp
    exact ⟨dir hra hvera hda hdb hcb (fun i raw hi h => (hag i raw hi).mp h) uk x hp,
      dir hrb hverb hdb hda hca (fun i raw hi h => (hag i raw hi).mpr h) uk x hp⟩
  unfold IView.txsByHeight
  rw [← hiter]
  apply List.map_congr_left
  intro kv hkv
  -- every element is a height.index entry of version `c` whose value is a tx hash key stored at `c`
  rw [roV_iter] at hkv
  simp only [IView.dbIter, List.mem_map] at hkv
  obtain ⟨e, he, rfl⟩ := hkv
  have hsa := ((VS.iter_sees a wa va hva _ (hra.compatP (idxKey_pfx c)) false false).2 e.1 e.2).mp he
  obtain ⟨w, raw, hwv, hwm, hget, _, _, hx⟩ := hsa.2
  obtain ⟨i, hi, hek⟩ := entry_under_txHeight hra hc hsa.1 hget
  rw [hek] at hget
  obtain ⟨hcw, th, hl, hraw, raw2, hrec⟩ := hda.txi c i w raw hc hi hwm hget
  subst hcw
  have hgetb := (hag i raw hi).mp hget
  obtain ⟨_, th', hl', hraw', raw2', hrec'⟩ := hdb.txi c i c raw hc hi hwm hgetb
  have hval : e.2 = txHashKey th := by rw [← hx, hraw, parseVal_rawAlive]
  have hval' : e.2 = txHashKey th' := by rw [← hx, hraw', parseVal_rawAlive]
  simp only
  rw [hval, decTxHash_read wa hda hva hca hrec]
  rw [hval'] at hval
  rw [← hval, decTxHash_read wb hdb hvb hcb hrec']
  -- both decode the hash named by the same value
  exact txHashKey_inj hval.symm

end Canopy.Store

namespace Canopy.Store
open Canopy

/-- the block committed at height `c` with hash `H`, as the database part assembles it -/
def blockOf (idb : DB) (c : Nat) (H : Bytes) : BlockRes :=
  { hHeight := c, hash := H, txs := (roV idb c).txsByHeight c }

/-- every view that sees the header assembles the same block -/
theorem getBlock_resolved {idb : DB} {ver : Nat} (hr : IRep IdxKey idb ver) (hver : ver ≤ maxVer) (hd : DBDisc idb)
    {v c : Nat} (hv : v ≤ maxVer) (hc : c ≤ v) (hcb : c < B64) {H : Bytes}
    (hhdr : smGet idb (IKey (blockHashKey H) c) = some (rawAlive (encHdr c H))) :
    (roV idb v).getBlock (blockHashKey H) true = blockOf idb c H := by
  have hw := hr.wfl idxKey_wf hver
  unfold IView.getBlock blockOf
  rw [header_read hw hd hv hc hhdr, decHdr_encHdr c H hcb]
  simp only [if_true]
  rw [txs_eq hr hr hver hver hd hd hcb hv (by omega) hc (Nat.le_refl _) (fun _ _ _ => Iff.rfl)]

/-! ## the cache as a lookup table -/

theorem find?_congr_mem {α : Type} {l : List α} {p q : α → Bool} (h : ∀ x ∈ l, p x = q x) : l.find? p = l.find? q := by
  induction l with
  | nil => rfl
  | cons a l ih =>
    simp only [List.find?_cons, h a List.mem_cons_self]
    rw [ih fun x hx => h x (List.mem_cons_of_mem _ hx)]

theorem find?_take_some {α : Type} {p : α → Bool} {l : List α} {n : Nat} {x : α}
    (h : (l.take n).find? p = some x) : l.find? p = some x := by
  have := List.take_append_drop n l
  rw [← this, List.find?_append, h]; rfl

theorem Cache.lookup_add {c : Cache} {k k' : Bytes} {b b' : BlockRes} (h : (c.add k b).lookup k' = some b') :
    (k' = k ∧ b' = b) ∨ (k' ≠ k ∧ c.lookup k' = some b') := by
  unfold Cache.lookup Cache.add at *
  cases hf : (((k, b) :: c.filter fun x => x.1 != k).take 64).find? (fun e => e.1 == k') with
  | none => rw [hf] at h; cases h
  | some e =>
    rw [hf] at h
    simp only [Option.map_some, Option.some.injEq] at h
    have hf' := find?_take_some hf
    rw [List.find?_cons] at hf'
    by_cases hk : k = k'
    · subst hk
      simp only [beq_self_eq_true, Option.some.injEq] at hf'
      subst hf'
      exact Or.inl ⟨rfl, h.symm⟩
    · have : (k == k') = false := by simp [hk]
      simp only [this] at hf'
      right
      refine ⟨Ne.symm hk, ?_⟩
      rw [List.find?_filter] at hf'
      have hfind : c.find? (fun e => e.1 == k') = some e := by
        rw [← hf']
        apply find?_congr_mem
        intro x _
        by_cases hx : x.1 = k'
        · simp [hx, Ne.symm hk]
        · simp [hx]
      rw [hfind]; simp [h]

theorem Cache.lookup_touch (c : Cache) (k k' : Bytes) : (c.touch k).lookup k' = c.lookup k' := by
  unfold Cache.touch
  cases hf : c.find? (fun e => e.1 == k) with
  | none => rfl
  | some e =>
    have hek : e.1 = k := by simpa using List.find?_some hf
    unfold Cache.lookup
    simp only [List.find?_cons]
    by_cases hk : k = k'
    · subst hk
      simp [hek, hf]
    · have h1 : (e.1 == k') = false := by rw [hek]; simp [hk]
      simp only [h1]
      congr 1
      rw [List.find?_filter]
      apply find?_congr_mem
      intro x _
      by_cases hx : x.1 = k'
      · simp [hx, Ne.symm hk]
      · simp [hx]

/-- a cached block whose header is committed is the block the database part assembles -/
def CacheOK (idb : DB) (cache : Cache) : Prop :=
  ∀ H b c, H.length = 32 → cache.lookup (blockHashKey H) = some b → c < B64 → c ≤ maxVer →
    smGet idb (IKey (blockHashKey H) c) = some (rawAlive (encHdr c H)) → b = blockOf idb c H

/-- **the cache is transparent for read-only views** -/
theorem transparent {idb : DB} {ver : Nat} (hr : IRep IdxKey idb ver) (hver : ver ≤ maxVer) (hd : DBDisc idb)
    {cache : Cache} (hc : CacheOK idb cache) {v h : Nat} (hv : v ≤ maxVer) (hh : h < B64) :
    (getBlockByHeight .byHashKey cache (roV idb v) h).1 = (roV idb v).dbBlockByHeight h := by
  have hw := hr.wfl idxKey_wf hver
  unfold getBlockByHeight IView.dbBlockByHeight
  simp only
  by_cases he : ((roV idb v).getB (blockHeightKey h)).isEmpty = true
  · rw [if_pos he]
  · rw [if_neg he]
    have hne : (roV idb v).getB (blockHeightKey h) ≠ [] := by
      intro e; rw [e] at he; simp at he
    obtain ⟨H, hl, hk, hle, hhdr⟩ := resolve_height hw hd hv hh hne rfl
    cases hl' : cache.lookup ((roV idb v).getB (blockHeightKey h)) with
    | none => first | rfl | (simp only; split <;> rfl)
    | some b =>
      simp only
      rw [hk] at hl' ⊢
      rw [hc H b h hl hl' hh (by omega) hhdr, getBlock_resolved hr hver hd hv hle hh hhdr]

end Canopy.Store

namespace Canopy.Store
open Canopy

/-! ## what `IndexBlock` leaves pending -/

/-- the records of one block, in the order `IndexBlock` writes them -/
def blockRecs (c : Nat) (H : Bytes) (txs : List Bytes) : List (Bytes × TOp) :=
  [(blockHashKey H, .set (encHdr c H)), (blockHeightKey c, .set (blockHashKey H))] ++
  txs.zipIdx.flatMap fun p => [(txHashKey p.1, .set (encTx c p.2 p.1)), (txHeightIndexKey c p.2, .set (txHashKey p.1))]

theorem foldl_two {α : Type} (l : List α) (f g : α → Bytes × TOp) (acc : Overlay) :
    l.foldl (fun o p => smSet (smSet o (f p).1 (f p).2) (g p).1 (g p).2) acc =
      (l.flatMap fun p => [f p, g p]).foldl (fun o e => smSet o e.1 e.2) acc := by
  induction l generalizing acc with
  | nil => rfl
  | cons a l ih => simp [List.flatMap_cons, ih]

theorem indexBlock_ov (mode : CacheKeying) (s : IState) (c : Nat) (H : Bytes) (txs : List Bytes) :
    (s.indexBlock mode c H txs).idxOv = (blockRecs c H txs).foldl (fun o e => smSet o e.1 e.2) s.idxOv := by
  unfold IState.indexBlock blockRecs
  simp only [List.foldl_append, List.foldl_cons, List.foldl_nil]
  exact foldl_two txs.zipIdx (fun p => (txHashKey p.1, .set (encTx c p.2 p.1)))
    (fun p => (txHeightIndexKey c p.2, .set (txHashKey p.1))) _

theorem mem_blockRecs {c : Nat} {H : Bytes} {txs : List Bytes} {k : Bytes} {op : TOp} :
    (k, op) ∈ blockRecs c H txs ↔
      (k = blockHashKey H ∧ op = .set (encHdr c H)) ∨ (k = blockHeightKey c ∧ op = .set (blockHashKey H)) ∨
      ∃ i th, txs[i]? = some th ∧
        ((k = txHashKey th ∧ op = .set (encTx c i th)) ∨ (k = txHeightIndexKey c i ∧ op = .set (txHashKey th))) := by
  unfold blockRecs
  simp only [List.mem_append, List.mem_cons, Prod.mk.injEq, List.not_mem_nil, or_false, List.mem_flatMap]
  constructor
  · rintro ((h | h) | ⟨p, hp, h | h⟩)
    · exact Or.inl h
    · exact Or.inr (Or.inl h)
    · exact Or.inr (Or.inr ⟨p.2, p.1, List.mem_zipIdx_iff_getElem?.mp hp, Or.inl h⟩)
    · exact Or.inr (Or.inr ⟨p.2, p.1, List.mem_zipIdx_iff_getElem?.mp hp, Or.inr h⟩)
  · rintro (h | h | ⟨i, th, hi, h | h⟩)
    · exact Or.inl (Or.inl h)
    · exact Or.inl (Or.inr h)
    · exact Or.inr ⟨(th, i), List.mem_zipIdx_iff_getElem?.mpr hi, Or.inl h⟩
    · exact Or.inr ⟨(th, i), List.mem_zipIdx_iff_getElem?.mpr hi, Or.inr h⟩

theorem lookupLast_mem {es : List (Bytes × TOp)} {k : Bytes} {v : TOp} (h : lookupLast es k = some v) : (k, v) ∈ es := by
  unfold lookupLast at h
  cases hf : es.reverse.find? (fun e => e.1 == k) with
  | none => rw [hf] at h; cases h
  | some x =>
    rw [hf] at h
    simp only [Option.map_some, Option.some.injEq] at h
    have hm := List.mem_reverse.mp (List.mem_of_find?_eq_some hf)
    have hk : x.1 = k := by simpa using List.find?_some hf
    rw [← hk, ← h]; exact hm

theorem lookupLast_of_functional {es : List (Bytes × TOp)} {k : Bytes} {v : TOp} (hm : (k, v) ∈ es)
    (hf : ∀ v', (k, v') ∈ es → v' = v) : lookupLast es k = some v := by
  cases hl : lookupLast es k with
  | none =>
    unfold lookupLast at hl
    cases hfind : es.reverse.find? (fun e => e.1 == k) with
    | none =>
      have := List.find?_eq_none.mp hfind (k, v) (List.mem_reverse.mpr hm)
      simp at this
    | some x => rw [hfind] at hl; cases hl
  | some v' => rw [hf v' (lookupLast_mem hl)]

theorem lookupLast_none {es : List (Bytes × TOp)} {k : Bytes} (h : ∀ v, (k, v) ∉ es) : lookupLast es k = none := by
  cases hl : lookupLast es k with
  | none => rfl
  | some v => exact absurd (lookupLast_mem hl) (h v)

/-- one block's records name each key once (32-byte, pairwise distinct tx hashes) -/
theorem blockRecs_functional {c : Nat} {H : Bytes} {txs : List Bytes} (hc : c < B64) (hl : ∀ th ∈ txs, th.length = 32)
    (hn : txs.Nodup) (hlen : txs.length < B64) {k : Bytes} {op op' : TOp}
    (h1 : (k, op) ∈ blockRecs c H txs) (h2 : (k, op') ∈ blockRecs c H txs) : op = op' := by
  have hlt : ∀ {i : Nat} {th : Bytes}, txs[i]? = some th → i < B64 ∧ th.length = 32 := by
    intro i th h
    obtain ⟨hi, he⟩ := List.getElem?_eq_some_iff.mp h
    exact ⟨by omega, hl th (he ▸ List.getElem_mem hi)⟩
  have hidx : ∀ {i j : Nat} {th : Bytes}, txs[i]? = some th → txs[j]? = some th → i = j := by
    intro i j th h1 h2
    obtain ⟨hi, he⟩ := List.getElem?_eq_some_iff.mp h1
    obtain ⟨hj, he'⟩ := List.getElem?_eq_some_iff.mp h2
    have hp := List.pairwise_iff_getElem.mp hn
    rcases Nat.lt_trichotomy i j with h | h | h
    · exact absurd (he.trans he'.symm) (hp i j hi hj h)
    · exact h
    · exact absurd (he'.trans he.symm) (hp j i hj hi h)
  rcases mem_blockRecs.mp h1 with ⟨rfl, rfl⟩ | ⟨rfl, rfl⟩ | ⟨i, th, hi, ⟨rfl, rfl⟩ | ⟨rfl, rfl⟩⟩ <;>
    rcases mem_blockRecs.mp h2 with ⟨e, rfl⟩ | ⟨e, rfl⟩ | ⟨j, th', hj, ⟨e, rfl⟩ | ⟨e, rfl⟩⟩
  all_goals first
    | rfl
    | (exfalso; simp [blockHashKey, blockHeightKey, txHashKey, txHeightIndexKey, joinLenPrefix] at e; done)
    | skip
  · -- two tx-by-hash records with the same key
    have := txHashKey_inj e
    subst this
    rw [hidx hi hj]
  · -- two height.index records with the same key
    have := (txHeightIndexKey_inj hc hc (hlt hi).1 (hlt hj).1 e).2
    subst this
    rw [hi] at hj
    injection hj with hj
    rw [hj]

end Canopy.Store

namespace Canopy.Store
open Canopy

/-! ## the pending layer and the commit -/

def IsQC (k : Bytes) (op : TOp) : Prop := ∃ h bh, h < B64 ∧ k = qcHeightKey h ∧ op = .set (encQC h bh)

def FreshH (idb : DB) (H : Bytes) : Prop := ∀ w, w ≤ maxVer → smGet idb (IKey (blockHashKey H) w) = none
def FreshTxs (idb : DB) (txs : List Bytes) : Prop := ∀ th ∈ txs, ∀ w, w ≤ maxVer → smGet idb (IKey (txHashKey th) w) = none

/-- the pending index operations: quorum certificates, and at most one block — for the next height,
under a fresh hash, with fresh transactions — whose cache entry (if any) is the block as indexed -/
structure PendOK (s : IState) (pb : Option (Bytes × List Bytes)) : Prop where
  sorted : SSorted s.idxOv
  noBlock : pb = none → ∀ k op, smGet s.idxOv k = some op → IsQC k op
  block : ∀ H txs, pb = some (H, txs) →
    H.length = 32 ∧ (∀ th ∈ txs, th.length = 32) ∧ txs.Nodup ∧ txs.length < B64 ∧ s.st.version + 1 < B64 ∧
    FreshH s.idb H ∧ FreshTxs s.idb txs ∧
    (∀ k op, (k, op) ∈ blockRecs (s.st.version + 1) H txs → smGet s.idxOv k = some op) ∧
    (∀ k op, smGet s.idxOv k = some op → (k, op) ∈ blockRecs (s.st.version + 1) H txs ∨ IsQC k op) ∧
    (∀ b, s.cache.lookup (blockHashKey H) = some b → b = { hHeight := s.st.version + 1, hash := H, txs := txs })

theorem IKey_ne_version {k k' : Bytes} {w w' : Nat} (hw : w ≤ maxVer) (hw' : w' ≤ maxVer) (h : w ≠ w') : IKey k w ≠ IKey k' w' :=
  fun e => h (IKey_inj hw hw' e).2

/-- the key space after the indexer's part of the commit, pointwise -/
theorem smGet_commit_idx {idb : DB} {ver : Nat} (hr : IRep IdxKey idb ver) (ov : Overlay) (hs : SSorted ov)
    (hver : ver + 1 ≤ maxVer) (k : Bytes) (w : Nat) (hw : w ≤ maxVer) :
    smGet (applyBatch idb (idxBatch ov (ver + 1))) (IKey k w) =
      if w = ver + 1 then (smGet ov k).map rawOf else smGet idb (IKey k w) := by
  rw [smGet_applyBatch hr.sorted]
  unfold idxBatch
  by_cases hwv : w = ver + 1
  · subst hwv
    rw [if_pos rfl]
    have := batchLookup_ov_puts ov hs (fun a => mkKey (idxPrefix ++ a) (ver + 1))
      (fun a b e => (IKey_inj hver hver e).1) rawOf k
    show (match batchLookup (ov.map fun e => BatchOp.put (mkKey (idxPrefix ++ e.1) (ver + 1)) (rawOf e.2)) (IKey k (ver + 1)) with
      | some r => r | none => smGet idb (IKey k (ver + 1))) = _
    unfold IKey
    rw [this]
    cases hg : smGet ov k with
    | some op => rfl
    | none =>
      simp only [Option.map_none]
      -- no old entry at the new version
      cases hold : smGet idb (mkKey (idxPrefix ++ k) (ver + 1)) with
      | none => rfl
      | some raw =>
        exfalso
        obtain ⟨k', w', _, _, hw', hek⟩ := hr.keys _ ((smGet_eq_some_iff hr.sorted _ _).mp hold)
        have := (mkKey_inj hver (by omega) hek).2
        omega
  · rw [if_neg hwv, batchLookup_map_none]
    intro a _
    exact fun e => hwv (IKey_inj hver hw e).2.symm

end Canopy.Store

namespace Canopy.Store
open Canopy

theorem notQC_blockHeight {h : Nat} {op : TOp} : ¬ IsQC (blockHeightKey h) op := by
  rintro ⟨h', _, _, e, _⟩; simp [blockHeightKey, qcHeightKey, joinLenPrefix] at e
theorem notQC_blockHash {H : Bytes} {op : TOp} : ¬ IsQC (blockHashKey H) op := by
  rintro ⟨h', _, _, e, _⟩; simp [blockHashKey, qcHeightKey, joinLenPrefix] at e
theorem notQC_txHash {H : Bytes} {op : TOp} : ¬ IsQC (txHashKey H) op := by
  rintro ⟨h', _, _, e, _⟩; simp [txHashKey, qcHeightKey, joinLenPrefix] at e
theorem notQC_txHeightIndex {h i : Nat} {op : TOp} : ¬ IsQC (txHeightIndexKey h i) op := by
  rintro ⟨h', _, _, e, _⟩; simp [txHeightIndexKey, qcHeightKey, joinLenPrefix] at e

theorem maxVer_succ : maxVer + 1 = B64 := rfl

/-- **the commit keeps the index partition disciplined** -/
theorem DBDisc.commit {s : IState} {pb : Option (Bytes × List Bytes)} (hr : IRep IdxKey s.idb s.st.version)
    (hd : DBDisc s.idb) (hp : PendOK s pb) (hver : s.st.version + 1 ≤ maxVer) :
    DBDisc (applyBatch s.idb (idxBatch s.idxOv (s.st.version + 1))) := by
  have hc64 : s.st.version + 1 < B64 := by have := maxVer_succ; omega
  have hget := fun k w hw => smGet_commit_idx hr s.idxOv hp.sorted hver k w hw
  -- a new entry comes from a pending operation
  have hnew : ∀ k raw, smGet (applyBatch s.idb (idxBatch s.idxOv (s.st.version + 1))) (IKey k (s.st.version + 1)) = some raw →
      ∃ op, smGet s.idxOv k = some op ∧ raw = rawOf op := by
    intro k raw h
    rw [hget k _ hver, if_pos rfl] at h
    cases hg : smGet s.idxOv k with
    | none => rw [hg] at h; cases h
    | some op => rw [hg] at h; exact ⟨op, rfl, by simpa using h.symm⟩
  -- the records of the pending block, when a pending operation is not a quorum certificate
  have hblock : ∀ k op, smGet s.idxOv k = some op → ¬ IsQC k op →
      ∃ H txs, pb = some (H, txs) ∧ (k, op) ∈ blockRecs (s.st.version + 1) H txs := by
    intro k op hg hq
    cases hpb : pb with
    | none => exact absurd (hp.noBlock hpb k op hg) hq
    | some p =>
      obtain ⟨H, txs⟩ := p
      rcases (hp.block H txs hpb).2.2.2.2.2.2.2.2.1 k op hg with h | h
      · exact ⟨H, txs, rfl, h⟩
      · exact absurd h hq
  have hput : ∀ H txs, pb = some (H, txs) → ∀ k op, (k, op) ∈ blockRecs (s.st.version + 1) H txs →
      smGet (applyBatch s.idb (idxBatch s.idxOv (s.st.version + 1))) (IKey k (s.st.version + 1)) = some (rawOf op) := by
    intro H txs hpb k op hm
    rw [hget k _ hver, if_pos rfl, (hp.block H txs hpb).2.2.2.2.2.2.2.1 k op hm]; rfl
  have hold : ∀ k w, w ≤ maxVer → w ≠ s.st.version + 1 →
      smGet (applyBatch s.idb (idxBatch s.idxOv (s.st.version + 1))) (IKey k w) = smGet s.idb (IKey k w) := by
    intro k w hw hne; rw [hget k w hw, if_neg hne]
  constructor
  · -- hgt
    intro h w raw hh hw hg
    by_cases hwv : w = s.st.version + 1
    · subst hwv
      obtain ⟨op, hop, rfl⟩ := hnew _ _ hg
      obtain ⟨H, txs, hpb, hm⟩ := hblock _ _ hop notQC_blockHeight
      have hb := hp.block H txs hpb
      rcases mem_blockRecs.mp hm with ⟨e, _⟩ | ⟨e, rfl⟩ | ⟨i, th, _, ⟨e, _⟩ | ⟨e, _⟩⟩
      · simp [blockHashKey, blockHeightKey, joinLenPrefix] at e
      · refine ⟨blockHeightKey_inj hh hc64 e, H, hb.1, rfl, ?_⟩
        exact hput H txs hpb _ _ (mem_blockRecs.mpr (Or.inl ⟨rfl, rfl⟩))
      · simp [txHashKey, blockHeightKey, joinLenPrefix] at e
      · simp [txHeightIndexKey, blockHeightKey, joinLenPrefix] at e
    · rw [hold _ w hw hwv] at hg
      obtain ⟨e, H, hl, hraw, hhdr⟩ := hd.hgt h w raw hh hw hg
      exact ⟨e, H, hl, hraw, by rw [hold _ w hw hwv]; exact hhdr⟩
  · -- hdr_uniq
    intro H0 w w' raw raw' hw hw' hg hg'
    have key : ∀ w1 w2 r1 r2, w1 ≤ maxVer → w2 ≤ maxVer → w1 = s.st.version + 1 → w2 ≠ s.st.version + 1 →
        smGet (applyBatch s.idb (idxBatch s.idxOv (s.st.version + 1))) (IKey (blockHashKey H0) w1) = some r1 →
        smGet (applyBatch s.idb (idxBatch s.idxOv (s.st.version + 1))) (IKey (blockHashKey H0) w2) = some r2 → False := by
      intro w1 w2 r1 r2 h1 h2 e1 e2 g1 g2
      subst e1
      obtain ⟨op, hop, _⟩ := hnew _ _ g1
      obtain ⟨H, txs, hpb, hm⟩ := hblock _ _ hop notQC_blockHash
      rw [hold _ w2 h2 e2] at g2
      rcases mem_blockRecs.mp hm with ⟨e, _⟩ | ⟨e, _⟩ | ⟨i, th, _, ⟨e, _⟩ | ⟨e, _⟩⟩
      · rw [blockHashKey_inj e, (hp.block H txs hpb).2.2.2.2.2.1 w2 h2] at g2; cases g2
      · simp [blockHashKey, blockHeightKey, joinLenPrefix] at e
      · simp [txHashKey, blockHashKey, joinLenPrefix] at e
      · simp [txHeightIndexKey, blockHashKey, joinLenPrefix] at e
    by_cases h1 : w = s.st.version + 1 <;> by_cases h2 : w' = s.st.version + 1
    · rw [h1, h2]
    · exact (key w w' raw raw' hw hw' h1 h2 hg hg').elim
    · exact (key w' w raw' raw hw' hw h2 h1 hg' hg).elim
    · rw [hold _ w hw h1] at hg; rw [hold _ w' hw' h2] at hg'
      exact hd.hdr_uniq H0 w w' raw raw' hw hw' hg hg'
  · -- txi
    intro h i w raw hh hi hw hg
    by_cases hwv : w = s.st.version + 1
    · subst hwv
      obtain ⟨op, hop, rfl⟩ := hnew _ _ hg
      obtain ⟨H, txs, hpb, hm⟩ := hblock _ _ hop notQC_txHeightIndex
      have hb := hp.block H txs hpb
      rcases mem_blockRecs.mp hm with ⟨e, _⟩ | ⟨e, _⟩ | ⟨j, th, hj, ⟨e, _⟩ | ⟨e, rfl⟩⟩
      · simp [txHeightIndexKey, blockHashKey, joinLenPrefix] at e
      · simp [txHeightIndexKey, blockHeightKey, joinLenPrefix] at e
      · simp [txHeightIndexKey, txHashKey, joinLenPrefix] at e
      · obtain ⟨hjlt, hje⟩ := List.getElem?_eq_some_iff.mp hj
        have hinj := txHeightIndexKey_inj hh hc64 hi (by have := hb.2.2.2.1; omega) e
        refine ⟨hinj.1, th, hb.2.1 th (hje ▸ List.getElem_mem hjlt), rfl, rawOf (.set (encTx (s.st.version + 1) j th)), ?_⟩
        exact hput H txs hpb _ _ (mem_blockRecs.mpr (Or.inr (Or.inr ⟨j, th, hj, Or.inl ⟨rfl, rfl⟩⟩)))
    · rw [hold _ w hw hwv] at hg
      obtain ⟨e, th, hl, hraw, raw2, hrec⟩ := hd.txi h i w raw hh hi hw hg
      exact ⟨e, th, hl, hraw, raw2, by rw [hold _ w hw hwv]; exact hrec⟩
  · -- txh
    intro th0 w raw hw hg
    by_cases hwv : w = s.st.version + 1
    · subst hwv
      obtain ⟨op, hop, rfl⟩ := hnew _ _ hg
      obtain ⟨H, txs, hpb, hm⟩ := hblock _ _ hop notQC_txHash
      rcases mem_blockRecs.mp hm with ⟨e, _⟩ | ⟨e, _⟩ | ⟨j, th, hj, ⟨e, rfl⟩ | ⟨e, _⟩⟩
      · simp [txHashKey, blockHashKey, joinLenPrefix] at e
      · simp [txHashKey, blockHeightKey, joinLenPrefix] at e
      · rw [txHashKey_inj e]
        exact ⟨be8 (s.st.version + 1) ++ be8 j, by simp [be8_length], rfl⟩
      · simp [txHeightIndexKey, txHashKey, joinLenPrefix] at e
    · rw [hold _ w hw hwv] at hg
      exact hd.txh th0 w raw hw hg
  · -- txh_uniq
    intro th0 w w' raw raw' hw hw' hg hg'
    have key : ∀ w1 w2 r1 r2, w1 ≤ maxVer → w2 ≤ maxVer → w1 = s.st.version + 1 → w2 ≠ s.st.version + 1 →
        smGet (applyBatch s.idb (idxBatch s.idxOv (s.st.version + 1))) (IKey (txHashKey th0) w1) = some r1 →
        smGet (applyBatch s.idb (idxBatch s.idxOv (s.st.version + 1))) (IKey (txHashKey th0) w2) = some r2 → False := by
      intro w1 w2 r1 r2 h1 h2 e1 e2 g1 g2
      subst e1
      obtain ⟨op, hop, _⟩ := hnew _ _ g1
      obtain ⟨H, txs, hpb, hm⟩ := hblock _ _ hop notQC_txHash
      rw [hold _ w2 h2 e2] at g2
      rcases mem_blockRecs.mp hm with ⟨e, _⟩ | ⟨e, _⟩ | ⟨j, th, hj, ⟨e, _⟩ | ⟨e, _⟩⟩
      · simp [txHashKey, blockHashKey, joinLenPrefix] at e
      · simp [txHashKey, blockHeightKey, joinLenPrefix] at e
      · obtain ⟨hjlt, hje⟩ := List.getElem?_eq_some_iff.mp hj
        rw [txHashKey_inj e, (hp.block H txs hpb).2.2.2.2.2.2.1 th (hje ▸ List.getElem_mem hjlt) w2 h2] at g2
        cases g2
      · simp [txHeightIndexKey, txHashKey, joinLenPrefix] at e
    by_cases h1 : w = s.st.version + 1 <;> by_cases h2 : w' = s.st.version + 1
    · rw [h1, h2]
    · exact (key w w' raw raw' hw hw' h1 h2 hg hg').elim
    · exact (key w' w raw' raw hw' hw h2 h1 hg' hg).elim
    · rw [hold _ w hw h1] at hg; rw [hold _ w' hw' h2] at hg'
      exact hd.txh_uniq th0 w w' raw raw' hw hw' hg hg'

end Canopy.Store

namespace Canopy.Store
open Canopy

theorem txHeightIndexKey_split (c i : Nat) : txHeightIndexKey c i = ([1, 2, 8] ++ be8 c ++ [8]) ++ be8 i := by
  simp [txHeightIndexKey, joinLenPrefix, be8_length]

theorem txHeightKey_prefix (c i : Nat) : txHeightKey c <+: txHeightIndexKey c i := by
  refine ⟨8 :: be8 i, ?_⟩
  simp [txHeightKey, txHeightIndexKey, joinLenPrefix, be8_length]

theorem blt_txHeightIndexKey (c : Nat) {i j : Nat} (hi : i < B64) (hj : j < B64) (hij : i < j) :
    blt (txHeightIndexKey c i) (txHeightIndexKey c j) = true := by
  rw [txHeightIndexKey_split, txHeightIndexKey_split, blt_append_left, blt_be8 i j hi hj]
  simp [hij]

/-- **the transactions of a freshly committed block, as the database part lists them**: exactly the
indexed ones, in index order -/
theorem txs_of_committed {idb : DB} {ver c : Nat} (hr : IRep IdxKey idb ver) (hver : ver ≤ maxVer) (hd : DBDisc idb)
    (hc : c < B64) (hcm : c ≤ maxVer) (txs : List Bytes) (hlen : txs.length < B64)
    (hin : ∀ (j : Nat) (th : Bytes), txs[j]? = some th →
      smGet idb (IKey (txHeightIndexKey c j) c) = some (rawAlive (txHashKey th)) ∧
      ∃ raw2, smGet idb (IKey (txHashKey th) c) = some raw2)
    (hex : ∀ i raw, i < B64 → smGet idb (IKey (txHeightIndexKey c i) c) = some raw → ∃ th, txs[i]? = some th) :
    (roV idb c).txsByHeight c = txs := by
  have hw := hr.wfl idxKey_wf hver
  have hsc := VS.iter_sees idb hw c hcm (idxPrefix ++ txHeightKey c) (hr.compatP (idxKey_pfx c)) false false
  -- the candidate: one height.index entry per transaction, in index order
  let L : List (Bytes × Bytes) := txs.zipIdx.map fun p => (idxPrefix ++ txHeightIndexKey c p.2, txHashKey p.1)
  have hL : (VS.mk idb c).iter (idxPrefix ++ txHeightKey c) false false = L := by
    apply sorted_mem_unique false _ _ hsc.1
    · -- the candidate is sorted
      show KeysSorted false (L.map (·.1))
      unfold KeysSorted
      simp only [L, List.map_map, List.pairwise_map, Bool.false_eq_true, if_false, Function.comp]
      rw [List.pairwise_iff_getElem]
      intro i j hi hj hij
      simp only [List.length_zipIdx] at hi hj
      simp only [List.getElem_zipIdx, Nat.zero_add]
      rw [blt_append_left]
      exact blt_txHeightIndexKey c (by omega) (by omega) hij
    · -- and has exactly the visible entries under the prefix
      intro e
      obtain ⟨uk, x⟩ := e
      rw [hsc.2]
      constructor
      · rintro ⟨hp, w, raw, hwv, hwm, hget, _, _, hx⟩
        obtain ⟨i, hi, rfl⟩ := entry_under_txHeight hr hc hp hget
        have hwc : c = w := (hd.txi c i w raw hc hi hwm hget).1
        subst hwc
        obtain ⟨th, hth⟩ := hex i raw hi hget
        have := (hin i th hth).1
        rw [show IKey (txHeightIndexKey c i) c = mkKey (idxPrefix ++ txHeightIndexKey c i) c from rfl, hget] at this
        injection this with this
        rw [this, parseVal_rawAlive] at hx
        simp only [L, List.mem_map]
        exact ⟨(th, i), List.mem_zipIdx_iff_getElem?.mpr hth, by simp [← hx]⟩
      · intro hm
        simp only [L, List.mem_map, Prod.mk.injEq] at hm
        obtain ⟨p, hp, rfl, rfl⟩ := hm
        have hth := List.mem_zipIdx_iff_getElem?.mp hp
        have hj : p.2 < B64 := by have := (List.getElem?_eq_some_iff.mp hth).1; omega
        refine ⟨hasPrefix_iff.mpr ((List.prefix_append_right_inj _).mpr (txHeightKey_prefix c p.2)), c, _, Nat.le_refl _, hcm,
          (hin p.2 p.1 hth).1, ?_, alive_ne_dead, rfl⟩
        intro w' raw' _ hm' hg'
        rw [(hd.txi c p.2 w' raw' hc hj hm' hg').1]
        exact Nat.le_refl _
  unfold IView.txsByHeight
  rw [roV_iter]
  unfold IView.dbIter
  rw [hL]
  simp only [L, List.map_map]
  -- element-wise: the tx record of each listed hash decodes that hash
  conv => rhs; rw [← List.zipIdx_map_fst 0 txs]
  apply List.map_congr_left
  intro p hp
  have hth := List.mem_zipIdx_iff_getElem?.mp hp
  obtain ⟨raw2, hrec⟩ := (hin p.2 p.1 hth).2
  simp only [Function.comp, List.drop_left' (rfl : idxPrefix.length = idxPrefix.length)]
  exact decTxHash_read hw hd hcm (Nat.le_refl _) hrec

end Canopy.Store

namespace Canopy.Store
open Canopy

/-- every pending index operation is on a real index key -/
theorem PendOK.keys {s : IState} {pb : Option (Bytes × List Bytes)} (hp : PendOK s pb) : ∀ e ∈ s.idxOv, IdxKey e.1 := by
  intro e he
  have hg : smGet s.idxOv e.1 = some e.2 := (smGet_eq_some_iff hp.sorted _ _).mpr he
  have hqc : IsQC e.1 e.2 → IdxKey e.1 := by
    rintro ⟨h, _, hh, ek, _⟩; rw [ek]; exact IdxKey.qcHeight h hh
  cases hpb : pb with
  | none => exact hqc (hp.noBlock hpb _ _ hg)
  | some p =>
    obtain ⟨H, txs⟩ := p
    have hb := hp.block H txs hpb
    rcases hb.2.2.2.2.2.2.2.2.1 _ _ hg with hm | hq
    · rcases mem_blockRecs.mp hm with ⟨e1, _⟩ | ⟨e1, _⟩ | ⟨i, th, hi, ⟨e1, _⟩ | ⟨e1, _⟩⟩
      · rw [e1]; exact IdxKey.blockHash H hb.1
      · rw [e1]; exact IdxKey.blockHeight _ hb.2.2.2.2.1
      · obtain ⟨hlt, he'⟩ := List.getElem?_eq_some_iff.mp hi
        rw [e1]; exact IdxKey.txHash th (hb.2.1 th (he' ▸ List.getElem_mem hlt))
      · obtain ⟨hlt, _⟩ := List.getElem?_eq_some_iff.mp hi
        rw [e1]; exact IdxKey.txHeightIndex _ i hb.2.2.2.2.1 (Nat.lt_trans hlt hb.2.2.2.1)
    · exact hqc hq

/-- **the commit keeps the cache coherent**: old entries still name the blocks the database part
assembles, and the entry `IndexBlock` made for the committed block is that block -/
theorem CacheOK.commit {s : IState} {pb : Option (Bytes × List Bytes)} (hr : IRep IdxKey s.idb s.st.version)
    (hd : DBDisc s.idb) (hp : PendOK s pb) (hc : CacheOK s.idb s.cache) (hver : s.st.version + 1 ≤ maxVer) :
    CacheOK (applyBatch s.idb (idxBatch s.idxOv (s.st.version + 1))) s.cache := by
  have hc64 : s.st.version + 1 < B64 := by have := maxVer_succ; omega
  have hr' := (hr.commit s.idxOv hp.keys hver).1
  have hag := (hr.commit s.idxOv hp.keys hver).2
  have hd' := DBDisc.commit hr hd hp hver
  have hget := fun k w hw => smGet_commit_idx hr s.idxOv hp.sorted hver k w hw
  intro H b c hl hlook hcb hcm hhdr
  by_cases hcv : c = s.st.version + 1
  · -- the block committed now
    subst hcv
    rw [hget _ _ hver, if_pos rfl] at hhdr
    cases hg : smGet s.idxOv (blockHashKey H) with
    | none => rw [hg] at hhdr; cases hhdr
    | some op =>
      cases hpb : pb with
      | none => exact absurd (hp.noBlock hpb _ _ hg) notQC_blockHash
      | some p =>
        obtain ⟨Hp, txs⟩ := p
        have hb := hp.block Hp txs hpb
        rcases hb.2.2.2.2.2.2.2.2.1 _ _ hg with hm | hq
        · have hH : H = Hp := by
            rcases mem_blockRecs.mp hm with ⟨e, _⟩ | ⟨e, _⟩ | ⟨i, th, _, ⟨e, _⟩ | ⟨e, _⟩⟩
            · exact blockHashKey_inj e
            · simp [blockHashKey, blockHeightKey, joinLenPrefix] at e
            · simp [txHashKey, blockHashKey, joinLenPrefix] at e
            · simp [txHeightIndexKey, blockHashKey, joinLenPrefix] at e
          subst hH
          rw [hb.2.2.2.2.2.2.2.2.2 b hlook]
          unfold blockOf
          congr 1
          symm
          apply txs_of_committed hr' hver hd' hc64 hver txs hb.2.2.2.1
          · intro j th hj
            have h1 := hb.2.2.2.2.2.2.2.1 _ _ (mem_blockRecs.mpr (Or.inr (Or.inr ⟨j, th, hj, Or.inr ⟨rfl, rfl⟩⟩)))
            have h2 := hb.2.2.2.2.2.2.2.1 _ _ (mem_blockRecs.mpr (Or.inr (Or.inr ⟨j, th, hj, Or.inl ⟨rfl, rfl⟩⟩)))
            constructor
            · rw [hget _ _ hver, if_pos rfl, h1]; rfl
            · exact ⟨_, by rw [hget _ _ hver, if_pos rfl, h2]; rfl⟩
          · intro i raw hi hgi
            rw [hget _ _ hver, if_pos rfl] at hgi
            cases hgo : smGet s.idxOv (txHeightIndexKey (s.st.version + 1) i) with
            | none => rw [hgo] at hgi; cases hgi
            | some op' =>
              rcases hb.2.2.2.2.2.2.2.2.1 _ _ hgo with hm' | hq'
              · rcases mem_blockRecs.mp hm' with ⟨e, _⟩ | ⟨e, _⟩ | ⟨j, th, hj, ⟨e, _⟩ | ⟨e, _⟩⟩
                · simp [txHeightIndexKey, blockHashKey, joinLenPrefix] at e
                · simp [txHeightIndexKey, blockHeightKey, joinLenPrefix] at e
                · simp [txHeightIndexKey, txHashKey, joinLenPrefix] at e
                · have hjlt : j < B64 := Nat.lt_trans (List.getElem?_eq_some_iff.mp hj).1 hb.2.2.2.1
                  rw [(txHeightIndexKey_inj hc64 hc64 hi hjlt e).2]
                  exact ⟨th, hj⟩
              · exact absurd hq' notQC_txHeightIndex
        · exact absurd hq notQC_blockHash
  · -- a block committed earlier
    rw [hget _ _ hcm, if_neg hcv] at hhdr
    rw [hc H b c hl hlook hcb hcm hhdr]
    unfold blockOf
    congr 1
    symm
    apply txs_eq hr' hr hver (by omega) hd' hd hcb hcm hcm (Nat.le_refl _) (Nat.le_refl _)
    intro i raw _
    rw [hget _ _ hcm, if_neg hcv]

end Canopy.Store

namespace Canopy.Store
open Canopy

/-! ## rollback -/

theorem smGet_prune {idb : DB} (hs : SSorted idb) (lo hi : Nat) (k : Bytes) (w : Nat) (hw : w ≤ maxVer) :
    smGet (idxPrune idb lo hi) (IKey k w) = if lo ≤ w ∧ w ≤ hi then none else smGet idb (IKey k w) := by
  unfold idxPrune
  rw [smGet_filter hs]
  cases hg : smGet idb (IKey k w) with
  | none => simp
  | some x =>
    simp only [Option.filter_some]
    unfold IKey
    rw [versionOf_mkKey _ hw]
    by_cases h : lo ≤ w ∧ w ≤ hi
    · simp [h]
    · rw [if_neg h]
      have : (decide (lo ≤ w) && decide (w ≤ hi)) = false := by
        simp only [Bool.and_eq_false_iff, decide_eq_false_iff_not]
        by_cases h1 : lo ≤ w
        · right; exact fun h2 => h ⟨h1, h2⟩
        · left; exact h1
      simp [this]

theorem DBDisc.prune {idb : DB} (hs : SSorted idb) (hd : DBDisc idb) (lo hi : Nat) : DBDisc (idxPrune idb lo hi) := by
  have hget := fun k w hw => smGet_prune hs lo hi k w hw
  -- an entry that survived the pruning
  have surv : ∀ k w raw, w ≤ maxVer → smGet (idxPrune idb lo hi) (IKey k w) = some raw →
      ¬ (lo ≤ w ∧ w ≤ hi) ∧ smGet idb (IKey k w) = some raw := by
    intro k w raw hw h
    rw [hget k w hw] at h
    by_cases hc : lo ≤ w ∧ w ≤ hi
    · rw [if_pos hc] at h; cases h
    · rw [if_neg hc] at h; exact ⟨hc, h⟩
  have keep : ∀ k w raw, w ≤ maxVer → ¬ (lo ≤ w ∧ w ≤ hi) → smGet idb (IKey k w) = some raw →
      smGet (idxPrune idb lo hi) (IKey k w) = some raw := by
    intro k w raw hw hc h; rw [hget k w hw, if_neg hc]; exact h
  constructor
  · intro h w raw hh hw hg
    obtain ⟨hc, hg'⟩ := surv _ w raw hw hg
    obtain ⟨e, H, hl, hraw, hhdr⟩ := hd.hgt h w raw hh hw hg'
    exact ⟨e, H, hl, hraw, keep _ w _ hw hc hhdr⟩
  · intro H w w' raw raw' hw hw' hg hg'
    exact hd.hdr_uniq H w w' raw raw' hw hw' (surv _ w raw hw hg).2 (surv _ w' raw' hw' hg').2
  · intro h i w raw hh hi hw hg
    obtain ⟨hc, hg'⟩ := surv _ w raw hw hg
    obtain ⟨e, th, hl, hraw, raw2, hrec⟩ := hd.txi h i w raw hh hi hw hg'
    exact ⟨e, th, hl, hraw, raw2, keep _ w _ hw hc hrec⟩
  · intro th w raw hw hg
    exact hd.txh th w raw hw (surv _ w raw hw hg).2
  · intro th w w' raw raw' hw hw' hg hg'
    exact hd.txh_uniq th w w' raw raw' hw hw' (surv _ w raw hw hg).2 (surv _ w' raw' hw' hg').2

theorem Cache.lookup_nil (k : Bytes) : Cache.lookup [] k = none := rfl

theorem CacheOK.nil (idb : DB) : CacheOK idb [] := by
  intro H b c _ h; cases h

end Canopy.Store

namespace Canopy.Store
open Canopy

/-! ## the invariant of the process, and the discipline of a history -/

/-- what the node's commit path guarantees about an operation, given the current state: a block is
indexed for the next height, once per commit, under a hash not used by any stored or cached block, with
32-byte pairwise distinct transaction hashes not indexed before; heights are `uint64` -/
def Disc (s : IState) : IOp → Prop
  | .indexBlock h H txs =>
    h = s.st.version + 1 ∧ H.length = 32 ∧ (∀ th ∈ txs, th.length = 32) ∧ txs.Nodup ∧ txs.length < B64 ∧
    (∀ k op, smGet s.idxOv k = some op → IsQC k op) ∧ FreshH s.idb H ∧ FreshTxs s.idb txs ∧
    s.cache.lookup (blockHashKey H) = none
  | .indexQC h _ => h < B64
  | .getBlock vw h _ => h < B64 ∧ ∀ v, vw = some v → v ≤ maxVer
  | .getQC vw h => h < B64 ∧ ∀ v, vw = some v → v ≤ maxVer
  | _ => True

structure CInv (K : Bytes → Prop) (s : IState) (m : VMap) (pb : Option (Bytes × List Bytes)) : Prop where
  inv : IInv K IdxKey s m
  disc : DBDisc s.idb
  cache : CacheOK s.idb s.cache
  pend : PendOK s pb

theorem CInv.init (K : Bytes → Prop) : CInv K {} [] none where
  inv := IInv.init K IdxKey
  disc := DBDisc.init
  cache := CacheOK.nil _
  pend := ⟨List.Pairwise.nil, fun _ k op h => by simp [smGet] at h, fun _ _ h => by cases h⟩

theorem sorted_foldl_smSet (es : List (Bytes × TOp)) (acc : Overlay) (h : SSorted acc) :
    SSorted (es.foldl (fun o e => smSet o e.1 e.2) acc) := by
  induction es generalizing acc with
  | nil => exact h
  | cons e es ih => exact ih _ (sorted_smSet h _ _)

/-- a cache-only step: a read through the cache keeps every invariant -/
theorem CInv.read {K : Bytes → Prop} {s : IState} {m : VMap} {pb : Option (Bytes × List Bytes)} (hi : CInv K s m pb)
    (hver : s.st.version ≤ maxVer) (vw : Option Nat) (h : Nat) (hh : h < B64) (hv : ∀ v, vw = some v → v ≤ maxVer) :
    CacheOK s.idb (getBlockByHeight .byHashKey s.cache (s.view vw) h).2 ∧
    (∀ H txs, pb = some (H, txs) → ∀ b,
      (getBlockByHeight .byHashKey s.cache (s.view vw) h).2.lookup (blockHashKey H) = some b →
        b = { hHeight := s.st.version + 1, hash := H, txs := txs }) := by
  have hr := hi.inv.idx
  have hw := hr.wfl idxKey_wf hver
  have hold := fun H txs hpb => (hi.pend.block H txs hpb).2.2.2.2.2.2.2.2.2
  unfold getBlockByHeight
  simp only
  by_cases he : ((s.view vw).getB (blockHeightKey h)).isEmpty = true
  · rw [if_pos he]; exact ⟨hi.cache, hold⟩
  · rw [if_neg he]
    cases hl : s.cache.lookup ((s.view vw).getB (blockHeightKey h)) with
    | some b =>
      simp only
      refine ⟨?_, ?_⟩
      · intro H b' c hl32 hlook
        rw [Cache.lookup_touch] at hlook
        exact hi.cache H b' c hl32 hlook
      · intro H txs hpb b' hlook
        rw [Cache.lookup_touch] at hlook
        exact hold H txs hpb b' hlook
    | none =>
      simp only
      by_cases hpe : (s.view vw).pend.isEmpty = true
      · rw [if_pos hpe]
        -- the reading view is a read-only view of the committed data
        obtain ⟨v0, hv0, hview⟩ : ∃ v0, v0 ≤ maxVer ∧ s.view vw = roV s.idb v0 := by
          cases vw with
          | none =>
            refine ⟨s.st.version, hver, ?_⟩
            have : s.idxOv = [] := by
              have : s.live.pend.isEmpty = true := hpe
              simpa [IState.live] using this
            simp [IState.view, IState.live, roV, this]
          | some v => exact ⟨v, hv v rfl, rfl⟩
        rw [hview] at he ⊢
        have hne : (roV s.idb v0).getB (blockHeightKey h) ≠ [] := by
          intro e; rw [e] at he; simp at he
        obtain ⟨H0, hl0, hk, hle, hhdr⟩ := resolve_height hw hi.disc hv0 hh hne rfl
        rw [hk]
        refine ⟨?_, ?_⟩
        · intro H b' c hl32 hlook hcb hcm hhdr'
          rcases Cache.lookup_add hlook with ⟨ek, eb⟩ | ⟨_, hl'⟩
          · have : H = H0 := blockHashKey_inj ek
            subst this
            have : c = h := hi.disc.hdr_uniq H c h _ _ hcm (by omega) hhdr' hhdr
            subst this
            rw [eb, getBlock_resolved hr hver hi.disc hv0 hle hh hhdr]
          · exact hi.cache H b' c hl32 hl' hcb hcm hhdr'
        · intro H txs hpb b' hlook
          rcases Cache.lookup_add hlook with ⟨ek, _⟩ | ⟨_, hl'⟩
          · -- the pending block's hash is fresh: no committed height resolves to it
            have : H = H0 := blockHashKey_inj ek
            subst this
            have := (hi.pend.block H txs hpb).2.2.2.2.2.1 h (by omega)
            rw [this] at hhdr; cases hhdr
          · exact hold H txs hpb b' hl'
      · rw [if_neg hpe]; exact ⟨hi.cache, hold⟩

end Canopy.Store

namespace Canopy.Store
open Canopy

/-- the index operations of a disciplined block are on real index keys -/
theorem Disc.opOK {K : Bytes → Prop} {s : IState} {op : IOp} (hd : Disc s op) (hs : ∀ o, op = .store o → OpOK K o)
    (hv : s.st.version + 1 < B64) : IOpOK K IdxKey op := by
  cases op with
  | store o => exact hs o rfl
  | indexBlock h H txs =>
    obtain ⟨rfl, hl, hlt, _, hlen, _⟩ := hd
    refine ⟨IdxKey.blockHash H hl, IdxKey.blockHeight _ hv, ?_⟩
    intro p hp
    have := List.mem_zipIdx_iff_getElem?.mp hp
    obtain ⟨hi, he⟩ := List.getElem?_eq_some_iff.mp this
    exact ⟨IdxKey.txHash p.1 (hlt p.1 (he ▸ List.getElem_mem hi)), IdxKey.txHeightIndex _ p.2 hv (Nat.lt_trans hi hlen)⟩
  | indexQC h bh => exact IdxKey.qcHeight h hd
  | _ => trivial

/-! `GetBlocks` only reads the cache: at most touches -/

theorem getBlockForPage_lookup (c : Cache) (v : IView) (h : Nat) (t : Bool) (k : Bytes) :
    (getBlockForPage .none c v h t).2.lookup k = c.lookup k := by
  unfold getBlockForPage
  simp only
  split
  · exact Cache.lookup_touch _ _ _
  · rfl

theorem pageReads_lookup (v : IView) (hs : List Nat) (k : Bytes) : ∀ (acc : List BlockRes × Cache),
    (hs.foldl (fun (acc : List BlockRes × Cache) h =>
      let r := getBlockForPage .none acc.2 v h true
      (acc.1 ++ [r.1], r.2)) acc).2.lookup k = acc.2.lookup k := by
  induction hs with
  | nil => intro acc; rfl
  | cons h hs ih =>
    intro acc
    simp only [List.foldl_cons]
    rw [ih]
    exact getBlockForPage_lookup _ _ _ _ _

theorem getBlocks_lookup (c : Cache) (v : IView) (pn pp : Nat) (k : Bytes) :
    (getBlocks .none c v pn pp).2.lookup k = c.lookup k := by
  unfold getBlocks
  simp only
  split
  · simp only
    split
    · split
      · exact pageReads_lookup _ _ _ _
      · rw [getBlockForPage_lookup]; exact pageReads_lookup _ _ _ _
    · exact pageReads_lookup _ _ _ _
  · rfl

/-- **every disciplined operation preserves the invariant** -/
theorem CInv.apply {K : Bytes → Prop} (hK : WFKeys K) {s : IState} {m : VMap} {pb : Option (Bytes × List Bytes)}
    (hi : CInv K s m pb) (op : IOp) (hd : Disc s op) (hs : ∀ o, op = .store o → OpOK K o)
    (hver : s.st.version + 1 < maxVer) :
    ∃ m' pb', CInv K (s.apply .byHashKey op) m' pb' := by
  have hmv : maxVer + 1 = B64 := rfl
  have hv64 : s.st.version + 1 < B64 := by omega
  obtain ⟨m', hinv', _, _⟩ := hi.inv.apply hK .byHashKey op (hd.opOK hs hv64) hver
  -- a step that leaves the database, the pending operations, the cache and the version alone
  cases op with
  | purgeCache =>
    refine ⟨m', pb, hinv', hi.disc, CacheOK.nil _, ⟨hi.pend.sorted, hi.pend.noBlock, ?_⟩⟩
    intro H txs hpb
    obtain ⟨a, b, c, d, e, f, g, h1, h2, _⟩ := hi.pend.block H txs hpb
    exact ⟨a, b, c, d, e, f, g, h1, h2, fun b' hb' => by cases hb'⟩
  | getBlock vw h hdr =>
    obtain ⟨hh, hv⟩ := hd
    cases hdr with
    | false =>
      obtain ⟨hc', hp'⟩ := hi.read (by omega) vw h hh hv
      refine ⟨m', pb, hinv', hi.disc, hc', ⟨hi.pend.sorted, hi.pend.noBlock, ?_⟩⟩
      intro H txs hpb
      obtain ⟨a, b, c, d, e, f, g, h1, h2, _⟩ := hi.pend.block H txs hpb
      exact ⟨a, b, c, d, e, f, g, h1, h2, hp' H txs hpb⟩
    | true =>
      -- the header read never adds: at most a touch
      have hlook : ∀ k, (getBlockHeaderByHeight .byHashKey s.cache (s.view vw) h).2.lookup k = s.cache.lookup k := by
        intro k
        unfold getBlockHeaderByHeight
        simp only
        split
        · rfl
        · split
          · exact Cache.lookup_touch _ _ _
          · rfl
      refine ⟨m', pb, hinv', hi.disc, ?_, ⟨hi.pend.sorted, hi.pend.noBlock, ?_⟩⟩
      · intro H b c hl hlk
        rw [show (s.apply .byHashKey (.getBlock vw h true)).cache = (getBlockHeaderByHeight .byHashKey s.cache (s.view vw) h).2 from rfl,
          hlook] at hlk
        exact hi.cache H b c hl hlk
      · intro H txs hpb
        obtain ⟨a, b, c, d, e, f, g, h1, h2, h3⟩ := hi.pend.block H txs hpb
        refine ⟨a, b, c, d, e, f, g, h1, h2, fun b' hb' => h3 b' ?_⟩
        rw [show (s.apply .byHashKey (.getBlock vw h true)).cache = (getBlockHeaderByHeight .byHashKey s.cache (s.view vw) h).2 from rfl,
          hlook] at hb'
        exact hb'
  | getBlocks vw pn pp =>
    -- a page query never adds to the cache: at most touches
    have hlook : ∀ k, (s.apply .byHashKey (.getBlocks vw pn pp)).cache.lookup k = s.cache.lookup k :=
      fun k => getBlocks_lookup s.cache (s.view vw) pn pp k
    refine ⟨m', pb, hinv', hi.disc, ?_, ⟨hi.pend.sorted, hi.pend.noBlock, ?_⟩⟩
    · intro H b c hl hlk
      rw [hlook] at hlk
      exact hi.cache H b c hl hlk
    · intro H txs hpb
      obtain ⟨a, b, c, d, e, f, g, h1, h2, h3⟩ := hi.pend.block H txs hpb
      refine ⟨a, b, c, d, e, f, g, h1, h2, fun b' hb' => h3 b' ?_⟩
      rw [hlook] at hb'
      exact hb'
  | getQC vw h =>
    obtain ⟨hh, hv⟩ := hd
    obtain ⟨hc', hp'⟩ := hi.read (by omega) vw h hh hv
    refine ⟨m', pb, hinv', hi.disc, hc', ⟨hi.pend.sorted, hi.pend.noBlock, ?_⟩⟩
    intro H txs hpb
    obtain ⟨a, b, c, d, e, f, g, h1, h2, _⟩ := hi.pend.block H txs hpb
    exact ⟨a, b, c, d, e, f, g, h1, h2, hp' H txs hpb⟩
  | indexQC h bh =>
    refine ⟨m', pb, hinv', hi.disc, hi.cache, ⟨sorted_smSet hi.pend.sorted _ _, ?_, ?_⟩⟩
    · intro hpb k op hg
      have hg' : smGet (smSet s.idxOv (qcHeightKey h) (.set (encQC h bh))) k = some op := hg
      rw [smGet_smSet] at hg'
      by_cases hk : k = qcHeightKey h
      · rw [if_pos hk] at hg'; injection hg' with hg'
        exact ⟨h, bh, hd, hk, hg'.symm⟩
      · rw [if_neg hk] at hg'; exact hi.pend.noBlock hpb k op hg'
    · intro H txs hpb
      obtain ⟨a, b, c, d, e, f, g, h1, h2, h3⟩ := hi.pend.block H txs hpb
      refine ⟨a, b, c, d, e, f, g, ?_, ?_, h3⟩
      · intro k op hm
        show smGet (smSet s.idxOv (qcHeightKey h) (.set (encQC h bh))) k = some op
        rw [smGet_smSet, if_neg]
        · exact h1 k op hm
        · intro hk
          rw [hk] at hm
          rcases mem_blockRecs.mp hm with ⟨e1, _⟩ | ⟨e1, _⟩ | ⟨i, th, _, ⟨e1, _⟩ | ⟨e1, _⟩⟩ <;>
            simp [qcHeightKey, blockHashKey, blockHeightKey, txHashKey, txHeightIndexKey, joinLenPrefix] at e1
      · intro k op hg
        have hg' : smGet (smSet s.idxOv (qcHeightKey h) (.set (encQC h bh))) k = some op := hg
        rw [smGet_smSet] at hg'
        by_cases hk : k = qcHeightKey h
        · rw [if_pos hk] at hg'; injection hg' with hg'
          exact Or.inr ⟨h, bh, hd, hk, hg'.symm⟩
        · rw [if_neg hk] at hg'; exact h2 k op hg'
  | indexBlock h H txs =>
    obtain ⟨rfl, hl, hlt, hnd, hlen, honly, hfH, hfT, hcl⟩ := hd
    have hov := indexBlock_ov .byHashKey s (s.st.version + 1) H txs
    have hgetov : ∀ k, smGet (s.indexBlock .byHashKey (s.st.version + 1) H txs).idxOv k =
        match lookupLast (blockRecs (s.st.version + 1) H txs) k with
        | some v => some v
        | none => smGet s.idxOv k := by
      intro k; rw [hov]; exact smGet_foldl_last _ _ k
    have happ : s.apply .byHashKey (.indexBlock (s.st.version + 1) H txs) = s.indexBlock .byHashKey (s.st.version + 1) H txs := rfl
    rw [happ] at hinv' ⊢
    have hcache : (s.indexBlock .byHashKey (s.st.version + 1) H txs).cache =
        s.cache.add (blockHashKey H) { hHeight := s.st.version + 1, hash := H, txs := txs } := rfl
    refine ⟨m', some (H, txs), hinv', hi.disc, ?_, ⟨?_, ?_, ?_⟩⟩
    · -- the cache: the new entry names a block whose header is not committed
      intro H' b c hl' hlook hcb hcm hhdr
      have hhdr' : smGet s.idb (IKey (blockHashKey H') c) = some (rawAlive (encHdr c H')) := hhdr
      rw [hcache] at hlook
      rcases Cache.lookup_add hlook with ⟨ek, _⟩ | ⟨_, hl''⟩
      · rw [blockHashKey_inj ek, hfH c hcm] at hhdr'; cases hhdr'
      · exact hi.cache H' b c hl' hl'' hcb hcm hhdr'
    · rw [hov]; exact sorted_foldl_smSet _ _ hi.pend.sorted
    · intro h; cases h
    · intro H' txs' hpb
      injection hpb with hpb
      injection hpb with e1 e2
      subst e1 e2
      refine ⟨hl, hlt, hnd, hlen, hv64, hfH, hfT, ?_, ?_, ?_⟩
      · intro k op hm
        have hm0 : (k, op) ∈ blockRecs (s.st.version + 1) H txs := hm
        rw [hgetov k, lookupLast_of_functional hm0 fun v' hm' => blockRecs_functional hv64 hlt hnd hlen hm' hm0]
      · intro k op hg
        show (k, op) ∈ blockRecs (s.st.version + 1) H txs ∨ IsQC k op
        rw [hgetov k] at hg
        cases hll : lookupLast (blockRecs (s.st.version + 1) H txs) k with
        | some v => rw [hll] at hg; injection hg with hg; exact Or.inl (hg ▸ lookupLast_mem hll)
        | none => rw [hll] at hg; exact Or.inr (honly k op hg)
      · intro b hlook
        rw [hcache] at hlook
        rcases Cache.lookup_add hlook with ⟨_, eb⟩ | ⟨hne, _⟩
        · exact eb
        · exact absurd rfl hne
  | reset =>
    show ∃ m' pb', CInv K (match s.st.main with | [_] => s.reset | _ => s) m' pb'
    cases hm : s.st.main with
    | nil => exact ⟨m, pb, hi⟩
    | cons l rest =>
      cases rest with
      | cons _ _ => exact ⟨m, pb, hi⟩
      | nil =>
        have hinv'' : IInv K IdxKey s.reset m' := by
          have : s.apply .byHashKey .reset = s.reset := by simp [IState.apply, hm]
          rw [← this]; exact hinv'
        exact ⟨m', none, hinv'', hi.disc, hi.cache,
          ⟨List.Pairwise.nil, fun _ k op h => by simp [IState.reset, smGet] at h, fun _ _ h => by cases h⟩⟩
  | store sop =>
    by_cases hc : sop = .commit
    · subst hc
      have happ : s.apply .byHashKey (.store .commit) = s.commit := rfl
      rw [happ] at hinv' ⊢
      cases hm : s.st.main with
      | nil =>
        have : s.commit = s := by unfold IState.commit; rw [hm]
        rw [this]; exact ⟨m, pb, hi⟩
      | cons l rest =>
        cases rest with
        | cons _ _ =>
          have : s.commit = s := by unfold IState.commit; rw [hm]
          rw [this]; exact ⟨m, pb, hi⟩
        | nil =>
          have hce : s.commit = IState.mk s.st.commit (applyBatch s.idb (idxBatch s.idxOv (s.st.version + 1))) [] s.cache s.idxSort := by
            unfold IState.commit; rw [hm]
          rw [hce] at hinv' ⊢
          exact ⟨m', none, hinv', DBDisc.commit hi.inv.idx hi.disc hi.pend (by omega),
            CacheOK.commit hi.inv.idx hi.disc hi.pend hi.cache (by omega),
            ⟨List.Pairwise.nil, fun _ k op h => by simp [smGet] at h, fun _ _ h => by cases h⟩⟩
    · by_cases hr : ∃ t, sop = .rollback t
      · obtain ⟨t, rfl⟩ := hr
        have happ : s.apply .byHashKey (.store (.rollback t)) =
            match s.st.main with | [_] => (s.rollback t).getD s | _ => s := rfl
        rw [happ] at hinv' ⊢
        cases hm : s.st.main with
        | nil => exact ⟨m, pb, hi⟩
        | cons l rest =>
          cases rest with
          | cons _ _ => exact ⟨m, pb, hi⟩
          | nil =>
            rw [hm] at hinv'
            simp only at hinv' ⊢
            unfold IState.rollback at hinv' ⊢
            cases hrb : s.st.rollback t with
            | none => exact ⟨m, pb, hi⟩
            | some st' =>
              rw [hrb] at hinv'
              simp only at hinv' ⊢
              by_cases htv : t = s.st.version
              · rw [if_pos htv]; exact ⟨m, pb, hi⟩
              · rw [if_neg htv] at hinv' ⊢
                simp only [Option.getD_some] at hinv' ⊢
                exact ⟨m', none, hinv', DBDisc.prune hi.inv.idx.sorted hi.disc _ _, CacheOK.nil _,
                  ⟨List.Pairwise.nil, fun _ k op h => by simp [smGet] at h, fun _ _ h => by cases h⟩⟩
      · have hne2 : ∀ t, sop ≠ .rollback t := fun t e => hr ⟨t, e⟩
        have hsame := apply_same_db s.st sop hc hne2
        have happ : s.apply .byHashKey (.store sop) = { s with st := s.st.apply sop } := by
          cases sop <;> first | rfl | exact absurd rfl hc | exact absurd rfl (hne2 _)
        rw [happ] at hinv' ⊢
        refine ⟨m', pb, hinv', hi.disc, hi.cache, ⟨hi.pend.sorted, hi.pend.noBlock, ?_⟩⟩
        intro H txs hpb
        have := hi.pend.block H txs hpb
        dsimp only
        rw [hsame.1]
        exact this

end Canopy.Store

namespace Canopy.Store
open Canopy

/-- a disciplined history: every operation satisfies `Disc` in the state it is applied to -/
def DiscRun (K : Bytes → Prop) : IState → List IOp → Prop
  | _, [] => True
  | s, op :: ops => Disc s op ∧ (∀ o, op = .store o → OpOK K o) ∧ DiscRun K (s.apply .byHashKey op) ops

theorem CInv.run {K : Bytes → Prop} (hK : WFKeys K) : ∀ (ops : List IOp) {s : IState} {m : VMap}
    {pb : Option (Bytes × List Bytes)}, CInv K s m pb → DiscRun K s ops → s.st.version + ops.length + 1 < maxVer →
    (∃ m' pb', CInv K (runIOps .byHashKey s ops) m' pb') ∧ ∀ op ∈ ops, IOpOK K IdxKey op := by
  intro ops
  induction ops with
  | nil => intro s m pb hi _ _; exact ⟨⟨m, pb, hi⟩, by simp⟩
  | cons op ops ih =>
    intro s m pb hi hd hver
    simp only [List.length_cons] at hver
    obtain ⟨hd1, hs1, hd2⟩ := hd
    have hmv : maxVer + 1 = B64 := rfl
    have hok : IOpOK K IdxKey op := hd1.opOK hs1 (by omega)
    obtain ⟨m1, pb1, hi1⟩ := hi.apply hK op hd1 hs1 (by omega)
    obtain ⟨_, _, hle, _⟩ := hi.inv.apply hK .byHashKey op hok (by omega)
    obtain ⟨hres, hoks⟩ := ih hi1 hd2 (by omega)
    refine ⟨hres, ?_⟩
    intro o ho
    rcases List.mem_cons.mp ho with rfl | ho
    · exact hok
    · exact hoks o ho

/-- **`GetBlockByHeight` and `GetQCByHeight` of a read-only view answer what the database part says** -/
theorem CInv.transparent {K : Bytes → Prop} {s : IState} {m : VMap} {pb : Option (Bytes × List Bytes)}
    (hi : CInv K s m pb) {v h : Nat} (hv : v ≤ maxVer) (hh : h < B64) :
    (getBlockByHeight .byHashKey s.cache (s.ro v) h).1 = (s.ro v).dbBlockByHeight h ∧
    (getQCByHeight .byHashKey s.cache (s.ro v) h).1 =
      (((s.ro v).dbQCByHeight h).1, ((s.ro v).dbQCByHeight h).2, (s.ro v).dbBlockByHeight h) := by
  have hver : s.st.version ≤ maxVer := by have := hi.inv.st.rep.ver_lt; omega
  have h1 : (getBlockByHeight .byHashKey s.cache (s.ro v) h).1 = (s.ro v).dbBlockByHeight h :=
    Canopy.Store.transparent hi.inv.idx hver hi.disc hi.cache hv hh
  exact ⟨h1, by unfold getQCByHeight; simp only; rw [h1]⟩

/-! ## iteration through the block store's indexer sees the block's own pending writes -/

theorem sorted_foldl_smSet2 {α : Type} (l : List α) (f g : α → Bytes × TOp) : ∀ (ov : Overlay), SSorted ov →
    SSorted (l.foldl (fun o a => smSet (smSet o (f a).1 (f a).2) (g a).1 (g a).2) ov) := by
  induction l with
  | nil => intro ov h; exact h
  | cons a l ih => intro ov h; exact ih _ (sorted_smSet (sorted_smSet h _ _) _ _)

/-- the pending index operations stay a sorted overlay -/
theorem IState.apply_sorted_idxOv (mode : CacheKeying) (s : IState) (op : IOp) (h : SSorted s.idxOv) :
    SSorted (s.apply mode op).idxOv := by
  cases op with
  | store o =>
    cases o with
    | commit =>
      simp only [IState.apply, IState.commit]
      split
      · exact List.Pairwise.nil
      · exact h
    | rollback t =>
      simp only [IState.apply]
      split
      · unfold IState.rollback
        split
        · exact h
        · split
          · exact h
          · exact List.Pairwise.nil
      · exact h
    | _ => exact h
  | indexBlock hh hash txs =>
    simp only [IState.apply, IState.indexBlock]
    exact sorted_foldl_smSet2 _ (fun (p : Bytes × Nat) => (txHashKey p.1, TOp.set (encTx hh p.2 p.1))) (fun (p : Bytes × Nat) => (txHeightIndexKey hh p.2, TOp.set (txHashKey p.1))) _
      (sorted_smSet (sorted_smSet h _ _) _ _)
  | indexQC hh bh => exact sorted_smSet h _ _
  | reset =>
    simp only [IState.apply]
    split
    · exact List.Pairwise.nil
    · exact h
  | purgeCache => exact h
  | getBlock vw hh hdr => exact h
  | getQC vw hh => exact h
  | getBlocks vw pn pp => exact h

theorem runIOps_sorted_idxOv (mode : CacheKeying) (ops : List IOp) : ∀ (s : IState), SSorted s.idxOv →
    SSorted (runIOps mode s ops).idxOv := by
  induction ops with
  | nil => intro s h; exact h
  | cons op ops ih => intro s h; exact ih _ (IState.apply_sorted_idxOv mode s op h)

/-- **iteration through an indexer `Txn` built with `sort = true`** (its sorted tree holds every pending
operation) over a represented index: the merged iterator yields *the* scan — strictly ordered, complete,
duplicate-free — of the committed index as of the view's version with the pending operations applied:
pending puts are there, pending deletes hide committed entries. -/
theorem sorted_txn_iter_scan {IK : Bytes → Prop} (hIK : WFKeys IK) {idb : DB} {ver : Nat} (hr : IRep IK idb ver)
    (hver : ver ≤ maxVer) (v : Nat) (hv : v ≤ maxVer) (ov : Overlay) (hs : SSorted ov) (hk : ∀ e ∈ ov, IK e.1)
    (p : Bytes) (hp : PfxOK IK p) :
    IsScanR (applyOvR ov fun k x => Sees idb v (idxPrefix ++ k) x) p false
      (IView.iter { idb := idb, version := v, pend := ov, ipend := ov } p) := by
  have hw := hr.wfl hIK hver
  let hd : Handle := { snap := idb, rver := v, pfx := idxPrefix, layers := [] }
  have hwf : hd.WF := ⟨hw, hv, by intro l hl; cases hl⟩
  have hbase := base_scan hd hwf p false false (hr.compatP hp)
  have hok : OvKeysOK ov := by
    intro e he
    have := hIK.ok e.1 (hk e he)
    exact ⟨this.1, by have := this.2.1; omega⟩
  have hm := layer_scan ov hs hok hd.baseView p false _ hbase
  cases ov with
  | nil =>
    simp only [IView.iter, IView.dbIter]
    refine IsScanR.congr ?_ hbase
    intro k x
    simp [applyOvR, smGet, Handle.baseView, hd]
  | cons e rest => exact hm

end Canopy.Store
