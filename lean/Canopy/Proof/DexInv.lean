import Canopy.Proof.DexFrame
/-! The escrow invariant along every run of the model (C20). Core Lean only. -/
namespace Canopy.Dex

/-- side conditions under which an operation is covered by `escrow_eq`:
* `create`: the order id is fresh (ids are the first 20 bytes of the transaction hash; freshness is what replay
  protection, C06, provides) and the escrow balance stays a `uint64` (`PoolAdd` is unguarded; supply < 2^64, C04);
* `edit`: the same `uint64` bound for an increase;
* `swaps`, `dexBatch`: the certificate's chain id is a valid committee id (`≤ MaxChainId`), as `checkChainId`
  enforces for every user message;
* `setPool` (harness set-up only) does not overwrite an escrow pool. -/
def OpOk (s : State) : Op → Prop
  | .create m => AM.get? s.orders (m.chain, m.id) = none ∧ escAmt s m.chain + m.amount < U64
  | .edit m => ∀ o, AM.get? s.orders (m.chain, m.id) = some o → escAmt s m.chain + (m.amount - o.amount) < U64
  | .swaps c _ => c ≤ maxChainId
  | .dexBatch c nested _ _ => (if nested then s.root else c) ≤ maxChainId
  | .setPool id _ => id < 65535
  | .seedNext c _ => c ≤ maxChainId
  | _ => True

/-- a successful operation keeps the invariant -/
theorem apply_sinv {s s' : State} {op : Op} (hi : SInv s) (hok : OpOk s op) (h : apply s op = .ok s') : SInv s' := by
  cases op with
  | fund a n => exact sinv_of_sellFrame hi (frame_accountAdd h)
  | setPool id p =>
    injection h with h; subst h
    exact sinv_of_sellFrame hi (frame_setPool _ _ _ hok)
  | seedNext c b =>
    injection h with h; subst h
    exact sinv_of_sellFrame hi ((frame_poolAdd _ _ _ (holdingId_lt hok)).trans (frame_setNext _ _ _))
  | subsidy a id n op =>
    change subsidy s a id n op = Except.ok s' at h
    unfold subsidy at h
    obtain ⟨_, _, h⟩ := bind_ok h
    obtain ⟨u, hu, h⟩ := bind_ok h
    have hid := (checkChainId_ok hu).2
    split at h
    · cases h
    · obtain ⟨s1, h1, h⟩ := bind_ok h
      injection h with h; subst h
      obtain ⟨ho1, hp1, _, _, _, _⟩ := accountSub_ok h1
      refine sinv_of_frame hi (by rw [poolAdd_orders, ho1]) (fun c hc => ?_) (by rw [poolAdd_accounts]; exact accountSub_nodup h1 hi.accountsNodup)
      -- an accepted subsidy goes to a chain id (≤ MaxChainId): below every escrow pool id
      have hne : escrowId c ≠ id := by
        unfold escrowId Gen.Dex.EscrowPoolAddend U64; unfold maxChainId at hid hc; omega
      unfold escAmt
      rw [poolAdd_other _ _ _ _ hne, getPool_congr hp1]
  | create m => exact createOrder_inv hi h hok.1 hok.2
  | edit m => exact editOrder_inv hi h hok
  | delete c id => exact deleteOrderMsg_inv hi h
  | swaps c o =>
    injection h with h; subst h
    exact handleCommitteeSwaps_inv o hi (maxChainId_lt hok)
  | limit c o => exact sinv_of_sellFrame hi (frame_dexLimitOrder h)
  | deposit c d => exact sinv_of_sellFrame hi (frame_dexDeposit h)
  | withdraw c w => exact sinv_of_sellFrame hi (frame_dexWithdraw h)
  | dexBatch c nested remote bh => exact sinv_of_sellFrame hi (frame_handleDexBatch hok h)
  | endBlock =>
    injection h with h; subst h
    exact sinv_of_sellFrame hi (frame_endBlock _)

theorem step_sinv {s : State} {op : Op} (hi : SInv s) (hok : OpOk s op) : SInv (step s op) := by
  unfold step
  split
  · exact sinv_of_sellFrame (apply_sinv hi hok ‹apply s op = Except.ok _›) (frame_normalize _)
  · exact sinv_of_sellFrame hi (frame_normalize _)

/-- every operation of the run satisfies its side condition in the state it is applied to -/
def Admissible : State → List Op → Prop
  | _, [] => True
  | s, op :: ops => OpOk s op ∧ Admissible (step s op) ops

theorem run_sinv {s : State} {ops : List Op} (hi : SInv s) (h : Admissible s ops) : SInv (run s ops) := by
  induction ops generalizing s with
  | nil => exact hi
  | cons op ops ih => exact ih (step_sinv hi h.1) h.2

theorem sinv_init (self root height minOrder : Nat) : SInv { self, root, height, minOrder } where
  ordersNodup := by simp [AM.keys]
  accountsNodup := by simp [AM.keys]
  eq := fun c _ => by simp [escAmt, escrowSum, getPool, AM.get?, AM.wsum]
  keyed := fun k o h => by simp [AM.get?] at h

end Canopy.Dex
