import Canopy.Proof.DexSell
/-! The DEX operations never touch the order book or an escrow pool (C20). Core Lean only. -/
namespace Canopy.Dex

/-- the sell-order world (order book, pools with id ≥ 65535, i.e. every escrow pool) is untouched -/
structure SellFrame (s s' : State) : Prop where
  orders : s'.orders = s.orders
  pools : ∀ id, 65535 ≤ id → (getPool s' id).amount = (getPool s id).amount
  accounts : (AM.keys s.accounts).Nodup → (AM.keys s'.accounts).Nodup

theorem SellFrame.refl (s : State) : SellFrame s s := ⟨rfl, fun _ _ => rfl, id⟩

theorem SellFrame.trans {a b c : State} (h1 : SellFrame a b) (h2 : SellFrame b c) : SellFrame a c :=
  ⟨h2.orders.trans h1.orders, fun id h => (h2.pools id h).trans (h1.pools id h), fun h => h2.accounts (h1.accounts h)⟩

theorem frame_accountAdd {s s' : State} {a : Bytes} {n : Nat} (h : accountAdd s a n = .ok s') : SellFrame s s' :=
  ⟨(accountAdd_ok h).1, fun id _ => by rw [getPool_congr (accountAdd_ok h).2.1], accountAdd_nodup h⟩

theorem frame_accountSub {s s' : State} {a : Bytes} {n : Nat} (h : accountSub s a n = .ok s') : SellFrame s s' :=
  ⟨(accountSub_ok h).1, fun id _ => by rw [getPool_congr (accountSub_ok h).2.1], accountSub_nodup h⟩

theorem frame_setPool (s : State) (id : Nat) (p : Pool) (hid : id < 65535) : SellFrame s (setPool s id p) :=
  ⟨rfl, fun id' h => by rw [getPool_setPool_other _ _ _ _ (by omega)], fun h => h⟩

theorem frame_poolAdd (s : State) (id n : Nat) (hid : id < 65535) : SellFrame s (poolAdd s id n) :=
  frame_setPool s id _ hid

theorem frame_poolSub {s s' : State} {id n : Nat} (hid : id < 65535) (h : poolSub s id n = .ok s') : SellFrame s s' := by
  obtain ⟨_, rfl⟩ := poolSub_ok h
  exact frame_setPool s id _ hid

theorem frame_setNext (s : State) (c : Nat) (b : Batch) : SellFrame s (setNext s c b) := ⟨rfl, fun _ _ => rfl, id⟩
theorem frame_delNext (s : State) (c : Nat) : SellFrame s (delNext s c) := ⟨rfl, fun _ _ => rfl, id⟩
theorem frame_setLocked (s : State) (c : Nat) (b : Batch) : SellFrame s (setLocked s c b) := ⟨rfl, fun _ _ => rfl, id⟩
theorem frame_delLocked (s : State) (c : Nat) : SellFrame s (delLocked s c) := ⟨rfl, fun _ _ => rfl, id⟩

theorem getPool_normalize_amount (s : State) (id : Nat) : (getPool (normalize s) id).amount = (getPool s id).amount := by
  unfold getPool normalize
  simp only
  induction s.pools with
  | nil => simp [AM.get?]
  | cons e m ih =>
    obtain ⟨k, p⟩ := e
    by_cases hp : p.amount = 0 <;> by_cases hk : k = id <;> simp [AM.get?, hp, hk, ih]

theorem frame_normalize (s : State) : SellFrame s (normalize s) :=
  ⟨rfl, fun id _ => getPool_normalize_amount s id, fun h => h⟩

theorem holdingId_lt {c : Nat} (h : c ≤ maxChainId) : holdingId c < 65535 := by
  unfold holdingId Gen.Dex.HoldingPoolAddend U64; unfold maxChainId at h; omega
theorem liquidityId_lt {c : Nat} (h : c ≤ maxChainId) : liquidityId c < 65535 := by
  unfold liquidityId Gen.Dex.LiquidityPoolAddend U64; unfold maxChainId at h; omega

end Canopy.Dex

namespace Canopy.Dex

theorem escrowId_ge {c : Nat} (h : c ≤ maxChainId) : 65535 ≤ escrowId c := by
  unfold escrowId Gen.Dex.EscrowPoolAddend U64; unfold maxChainId at h; omega

theorem sinv_of_sellFrame {s s' : State} (hi : SInv s) (hf : SellFrame s s') : SInv s' :=
  sinv_of_frame hi hf.orders (fun c hc => hf.pools _ (escrowId_ge hc)) (hf.accounts hi.accountsNodup)

macro "dex_unfold" f:ident "at" h:ident : tactic =>
  `(tactic| (unfold $f at $h:ident
             simp only [bind, Except.bind, pure, Except.pure, throw, throwThe, MonadExceptOf.throw] at $h:ident))

theorem frame_dexLimitOrder {s s' : State} {c : Nat} {o : LimitOrder} (h : dexLimitOrder s c o = .ok s') : SellFrame s s' := by
  dex_unfold dexLimitOrder at h
  repeat' (split at h <;> try (cases h; done))
  injection h with h; subst h
  have hc := (checkChainId_ok ‹checkChainId c = Except.ok _›).2
  exact (frame_accountSub ‹accountSub s _ _ = Except.ok _›).trans
    ((frame_poolAdd _ _ _ (holdingId_lt hc)).trans (frame_setNext _ _ _))

theorem frame_dexDeposit {s s' : State} {c : Nat} {d : Deposit} (h : dexDeposit s c d = .ok s') : SellFrame s s' := by
  dex_unfold dexDeposit at h
  repeat' (split at h <;> try (cases h; done))
  injection h with h; subst h
  have hc := (checkChainId_ok ‹checkChainId c = Except.ok _›).2
  exact (frame_accountSub ‹accountSub s _ _ = Except.ok _›).trans
    ((frame_poolAdd _ _ _ (holdingId_lt hc)).trans (frame_setNext _ _ _))

theorem frame_dexWithdraw {s s' : State} {c : Nat} {w : Withdraw} (h : dexWithdraw s c w = .ok s') : SellFrame s s' := by
  dex_unfold dexWithdraw at h
  repeat' (split at h <;> try (cases h; done))
  injection h with h; subst h
  exact frame_setNext _ _ _

/-! ### withdrawals -/

theorem frame_withdrawPay (tx ty T : Nat) (isLocal : Bool) (ws : List Withdraw) (st st' : WState)
    (h : withdrawPay tx ty T isLocal ws st = .ok st') : SellFrame st.s st'.s := by
  induction ws generalizing st with
  | nil => simp [withdrawPay] at h; subst h; exact SellFrame.refl _
  | cons w ws ih =>
    unfold withdrawPay at h
    split at h
    · exact ih _ h
    · simp only [bind, Except.bind, pure, Except.pure] at h
      split at h
      · cases h
      · exact (frame_accountAdd ‹accountAdd st.s _ _ = Except.ok _›).trans (ih _ h)

theorem frame_batchWithdraw {s : State} {ws : List Withdraw} {c x y : Nat} {isLocal : Bool} {p0 : Option Pool} {persist : Bool}
    {l : Ledger} (hc : c ≤ maxChainId) (h : batchWithdraw s ws c x y isLocal p0 persist = .ok l) : SellFrame s l.s := by
  dex_unfold batchWithdraw at h
  repeat' (split at h <;> try (cases h; done))
  all_goals (injection h with h; subst h)
  all_goals first
    | exact SellFrame.refl _
    | exact frame_setPool _ _ _ (liquidityId_lt hc)
    | exact (frame_withdrawPay _ _ _ _ _ _ _ ‹withdrawPay _ _ _ _ _ _ = Except.ok _›).trans (frame_setPool _ _ _ (liquidityId_lt hc))
    | exact frame_withdrawPay _ _ _ _ _ _ _ ‹withdrawPay _ _ _ _ _ _ = Except.ok _›

/-! ### deposits -/

theorem frame_depositPass1 (p : Pool) (c : Nat) (isLocal : Bool) (hc : c ≤ maxChainId) (ds : List Deposit) (st st' : P1)
    (h : depositPass1 p c isLocal ds st = .ok st') : SellFrame st.s st'.s := by
  induction ds generalizing st with
  | nil => simp [depositPass1] at h; subst h; exact SellFrame.refl _
  | cons d ds ih =>
    unfold depositPass1 at h
    simp only [bind, Except.bind, pure, Except.pure, throw, throwThe, MonadExceptOf.throw] at h
    repeat' (split at h <;> try (cases h; done))
    all_goals (have f := ih _ h)
    all_goals first
      | exact ((frame_poolSub (holdingId_lt hc) ‹poolSub st.s _ _ = Except.ok _›).trans
          (frame_accountAdd ‹accountAdd _ _ _ = Except.ok _›)).trans f
      | exact f

theorem frame_depositLocal {s : State} {p : Pool} {c : Nat} {d : Deposit} {isLocal : Bool} {r : State × Pool}
    (hc : c ≤ maxChainId) (h : depositLocal s p c d isLocal = .ok r) : SellFrame s r.1 := by
  unfold depositLocal at h
  split at h
  · split at h
    · cases h
    · split at h
      · cases h
      · injection h with h; subst h
        exact frame_poolSub (holdingId_lt hc) ‹poolSub s _ _ = Except.ok _›
  · injection h with h; subst h; exact SellFrame.refl _

theorem frame_depositPass2 (dl td c : Nat) (isLocal : Bool) (hc : c ≤ maxChainId) (ds : List (Deposit × Bool)) (st st' : P2)
    (h : depositPass2 dl td c isLocal ds st = .ok st') : SellFrame st.s st'.s := by
  induction ds generalizing st with
  | nil => simp [depositPass2] at h; subst h; exact SellFrame.refl _
  | cons e ds ih =>
    obtain ⟨d, acc⟩ := e
    cases acc
    · unfold depositPass2 at h; have f := ih _ h; exact f
    · unfold depositPass2 at h
      split at h
      · cases h
      · split at h
        · cases h
        · split at h
          · cases h
          · have f := ih _ h
            exact (frame_depositLocal hc ‹depositLocal _ _ _ _ _ = Except.ok _›).trans f

theorem frame_mintDeposits {p1 : P1} {p : Pool} {ds : List Deposit} {c x y : Nat} {isLocal persist : Bool} {l : Ledger}
    (hc : c ≤ maxChainId) (h : mintDeposits p1 p ds c x y isLocal persist = .ok l) : SellFrame p1.s l.s := by
  unfold mintDeposits at h
  split at h
  · cases h
  · split at h
    · cases h
    · split at h
      · cases h
      · split at h
        · cases h
        · injection h with h; subst h
          have f2 := frame_depositPass2 _ _ _ _ hc _ _ _ ‹depositPass2 _ _ _ _ _ _ = Except.ok _›
          dsimp only
          split
          · exact f2.trans (frame_setPool _ _ _ (liquidityId_lt hc))
          · exact f2

theorem frame_batchDepositCore {s : State} {ds : List Deposit} {c x y : Nat} {isLocal : Bool} {p0 : Option Pool} {persist : Bool}
    {l : Ledger} (hc : c ≤ maxChainId) (h : batchDepositCore s ds c x y isLocal p0 persist = .ok l) : SellFrame s l.s := by
  unfold batchDepositCore at h
  dsimp only at h
  split at h
  · injection h with h; subst h; exact SellFrame.refl _
  · split at h
    · cases h
    · split at h
      · injection h with h; subst h; exact SellFrame.refl _
      · split at h
        · cases h
        · have f1 := frame_depositPass1 _ _ _ hc _ _ _ ‹depositPass1 _ _ _ _ _ = Except.ok _›
          split at h
          · injection h with h; subst h; exact f1
          · exact f1.trans (frame_mintDeposits hc h)

theorem bind_ok {α β : Type} {m : M α} {f : α → M β} {r : β} (h : (m >>= f) = .ok r) : ∃ a, m = .ok a ∧ f a = .ok r := by
  cases m with
  | error e => cases h
  | ok a => exact ⟨a, rfl, h⟩

theorem frame_cappedEvict {c : Nat} {isLocal : Bool} (hc : c ≤ maxChainId) {nc : Newcomer} {l : Ledger} {low : Bytes × Nat}
    {r : Ledger × Option (Bytes × Nat)} (h : cappedEvict c isLocal nc l low = .ok r) : SellFrame l.s r.1.s := by
  unfold cappedEvict at h
  obtain ⟨ts, h1, h⟩ := bind_ok h
  clear h1
  dsimp only at h
  split at h
  · split at h
    · obtain ⟨s1, h2, h⟩ := bind_ok h
      obtain ⟨s2, h3, h⟩ := bind_ok h
      injection h with h; subst h
      exact (frame_poolSub (holdingId_lt hc) h2).trans (frame_accountAdd h3)
    · injection h with h; subst h
      exact SellFrame.refl _
  · obtain ⟨l1, h2, h⟩ := bind_ok h
    obtain ⟨l2, h3, h⟩ := bind_ok h
    injection h with h; subst h
    exact (frame_batchWithdraw hc h2).trans (frame_batchDepositCore hc h3)

theorem frame_cappedStep {c : Nat} {isLocal : Bool} (hc : c ≤ maxChainId) {nc : Newcomer} {l : Ledger} {low : Option (Bytes × Nat)}
    {r : Ledger × Option (Bytes × Nat)} (h : cappedStep c isLocal nc l low = .ok r) : SellFrame l.s r.1.s := by
  unfold cappedStep at h
  split at h
  · split at h
    · cases h
    · injection h with h; subst h
      exact frame_batchDepositCore hc ‹batchDepositCore _ _ _ _ _ _ _ _ = Except.ok _›
  · split at h
    · cases h
    · exact frame_cappedEvict hc h

theorem frame_cappedLoop (c : Nat) (isLocal : Bool) (hc : c ≤ maxChainId) (ncs : List Newcomer) (l l' : Ledger)
    (low : Option (Bytes × Nat)) (h : cappedLoop c isLocal ncs l low = .ok l') : SellFrame l.s l'.s := by
  induction ncs generalizing l low with
  | nil => simp [cappedLoop] at h; subst h; exact SellFrame.refl _
  | cons nc rest ih =>
    unfold cappedLoop at h
    split at h
    · cases h
    · exact (frame_cappedStep hc ‹cappedStep _ _ _ _ _ = Except.ok _›).trans (ih _ _ h)

theorem frame_batchDeposit {s : State} {b : Batch} {c x y : Nat} {isLocal : Bool} {l : Ledger} (hc : c ≤ maxChainId)
    (h : batchDeposit s b c x y isLocal = .ok l) : SellFrame s l.s := by
  dex_unfold batchDeposit at h
  repeat' (split at h <;> try (cases h; done))
  all_goals (try (injection h with h; subst h))
  all_goals (try have fd := frame_batchDepositCore hc ‹batchDepositCore _ _ _ _ _ _ _ _ = Except.ok _›)
  all_goals (try have fc := frame_cappedLoop _ _ hc _ _ _ _ ‹cappedLoop _ _ _ _ _ = Except.ok _›)
  all_goals first
    | exact SellFrame.refl _
    | exact frame_batchDepositCore hc h
    | exact (fd.trans fc).trans (frame_setPool _ _ _ (liquidityId_lt hc))

/-! ### receipts, AMM payouts, rotation -/

theorem frame_orderReceipts (c : Nat) (hc : c ≤ maxChainId) (os : List LimitOrder) (rs : List Nat) (s : State) (x y : Nat)
    (r : State × Nat × Nat) (h : orderReceipts c os rs s x y = .ok r) : SellFrame s r.1 := by
  induction os generalizing rs s x y with
  | nil => simp [orderReceipts] at h; subst h; exact SellFrame.refl _
  | cons o os ih =>
    unfold orderReceipts at h
    simp only [bind, Except.bind, pure, Except.pure, throw, throwThe, MonadExceptOf.throw] at h
    repeat' (split at h <;> try (cases h; done))
    all_goals (have f := ih _ _ _ _ h)
    all_goals (have fs := frame_poolSub (holdingId_lt hc) ‹poolSub s _ _ = Except.ok _›)
    all_goals first
      | exact (fs.trans (frame_poolAdd _ _ _ (liquidityId_lt hc))).trans f
      | exact (fs.trans (frame_accountAdd ‹accountAdd _ _ _ = Except.ok _›)).trans f

theorem frame_payReceipts (c : Nat) (hc : c ≤ maxChainId) (os : List (OrderKey × LimitOrder)) (res : List (OrderKey × Nat)) (s : State)
    (acc : List Nat) (r : State × List Nat) (h : payReceipts c os res s acc = .ok r) : SellFrame s r.1 := by
  induction os generalizing s acc with
  | nil => simp [payReceipts] at h; subst h; exact SellFrame.refl _
  | cons o os ih =>
    obtain ⟨k, o⟩ := o
    unfold payReceipts at h
    simp only [bind, Except.bind, pure, Except.pure, throw, throwThe, MonadExceptOf.throw] at h
    repeat' (split at h <;> try (cases h; done))
    all_goals (have f := ih _ _ h)
    all_goals first
      | exact f
      | exact ((frame_poolSub (liquidityId_lt hc) ‹poolSub s _ _ = Except.ok _›).trans
          (frame_accountAdd ‹accountAdd _ _ _ = Except.ok _›)).trans f

theorem frame_dexBatchOrders {s : State} {os : List LimitOrder} {bh : Bytes} {x y c : Nat} {r : State × Nat × Nat × List Nat}
    (hc : c ≤ maxChainId) (h : dexBatchOrders s os bh x y c = .ok r) : SellFrame s r.1 := by
  dex_unfold dexBatchOrders at h
  repeat' (split at h <;> try (cases h; done))
  injection h with h; subst h
  exact frame_payReceipts _ hc _ _ _ _ _ ‹payReceipts _ _ _ _ _ = Except.ok _›

theorem frame_rotate (s : State) (rh : Bytes) (a b c : Nat) (rs : List Nat) : SellFrame s (rotate s rh a b c rs) := by
  unfold rotate
  split
  · exact SellFrame.refl _
  · exact (frame_delNext _ _).trans (frame_setLocked _ _ _)

/-! ### the batch entry points -/

theorem frame_executeRemote {s s' : State} {remote : Batch} {c : Nat} {bh : Bytes} {mirror : Nat} (hc : c ≤ maxChainId)
    (h : executeRemote s remote c bh mirror = .ok s') : SellFrame s s' := by
  unfold executeRemote at h
  dsimp only at h
  obtain ⟨r, hr, h⟩ := bind_ok h
  obtain ⟨l1, hl1, h⟩ := bind_ok h
  obtain ⟨l2, hl2, h⟩ := bind_ok h
  injection h with h; subst h
  exact (((frame_dexBatchOrders hc hr).trans (frame_batchWithdraw hc hl1)).trans (frame_batchDeposit hc hl2)).trans
    (frame_rotate _ _ _ _ _ _)

theorem frame_applyReceipts {s : State} {lb remote : Batch} {c : Nat} {r : State × Nat} (hc : c ≤ maxChainId)
    (h : applyReceipts s lb remote c = .ok r) : SellFrame s r.1 := by
  unfold applyReceipts at h
  obtain ⟨r0, hr, h⟩ := bind_ok h
  obtain ⟨l1, hl1, h⟩ := bind_ok h
  obtain ⟨l2, hl2, h⟩ := bind_ok h
  injection h with h; subst h
  exact (((frame_orderReceipts _ hc _ _ _ _ _ _ hr).trans (frame_batchWithdraw hc hl1)).trans (frame_batchDeposit hc hl2)).trans
    (frame_delLocked _ _)

theorem frame_remoteDexBatch {s s' : State} {remote : Batch} {c : Nat} {bh : Bytes} (hc : c ≤ maxChainId)
    (h : remoteDexBatch s remote c bh = .ok s') : SellFrame s s' := by
  unfold remoteDexBatch at h
  dsimp only at h
  split at h
  · injection h with h; subst h
    exact frame_rotate _ _ _ _ _ _
  · split at h
    · exact frame_executeRemote hc h
    · split at h
      · injection h with h; subst h; exact SellFrame.refl _
      · split at h
        · cases h
        · exact (frame_applyReceipts hc ‹applyReceipts _ _ _ _ = Except.ok _›).trans (frame_executeRemote hc h)

theorem frame_refundAll (c : Nat) (hc : c ≤ maxChainId) (l : List (Bytes × Nat)) (s s' : State)
    (h : refundAll c l s = .ok s') : SellFrame s s' := by
  induction l generalizing s with
  | nil => simp [refundAll] at h; subst h; exact SellFrame.refl _
  | cons e l ih =>
    obtain ⟨a, n⟩ := e
    unfold refundAll at h
    split at h
    · cases h
    · rename_i s1 hr
      unfold refund at hr
      obtain ⟨s0, h0, hr⟩ := bind_ok hr
      exact ((frame_poolSub (holdingId_lt hc) h0).trans (frame_accountAdd hr)).trans (ih _ h)

theorem frame_livenessFallback {s s' : State} {c : Nat} {lb remote : Batch} (hc : c ≤ maxChainId)
    (h : livenessFallback s c lb remote = .ok s') : SellFrame s s' := by
  unfold livenessFallback at h
  obtain ⟨s1, h1, h⟩ := bind_ok h
  obtain ⟨s2, h2, h⟩ := bind_ok h
  injection h with h; subst h
  exact (((frame_refundAll _ hc _ _ _ h1).trans (frame_refundAll _ hc _ _ _ h2)).trans
    (frame_setPool _ _ _ (liquidityId_lt hc))).trans (frame_setLocked _ _ _)

theorem frame_dexBatchOn {s s' : State} {c : Nat} {nested : Bool} {remote : Batch} {bh : Bytes}
    (hc : c ≤ maxChainId) (h : dexBatchOn s c nested remote bh = .ok s') : SellFrame s s' := by
  unfold dexBatchOn at h
  split at h
  · cases h
  · split at h
    · cases h
    · split at h
      · injection h with h; subst h; exact SellFrame.refl _
      · split at h
        · split at h
          · cases h
          · exact (frame_livenessFallback hc ‹livenessFallback _ _ _ _ = Except.ok _›).trans (frame_remoteDexBatch hc h)
        · exact frame_remoteDexBatch hc h

/-- `HandleDexBatch` on a valid chain id (the certificate's committee, or the root chain id when nested) -/
theorem frame_handleDexBatch {s s' : State} {c : Nat} {nested : Bool} {remote : Option Batch} {bh : Bytes}
    (hc : (if nested then s.root else c) ≤ maxChainId) (h : handleDexBatch s c nested remote bh = .ok s') : SellFrame s s' := by
  unfold handleDexBatch at h
  split at h
  · injection h with h; subst h; exact SellFrame.refl _
  · exact frame_dexBatchOn hc h

theorem frame_includeOne (s : State) (k : Nat) (b : Batch) : SellFrame s (includeOne s k b) := by
  unfold includeOne
  dsimp only
  repeat' split
  all_goals first
    | exact SellFrame.refl _
    | exact (frame_setLocked _ _ _).trans (frame_delNext _ _)
    | exact (frame_setLocked _ _ _).trans (frame_setNext _ _ _)

theorem frame_foldl {α : Type} (f : State → α → State) (l : List α) (s : State)
    (h : ∀ s a, SellFrame s (f s a)) : SellFrame s (l.foldl f s) := by
  induction l generalizing s with
  | nil => exact SellFrame.refl _
  | cons a l ih => exact (h s a).trans (ih _)

theorem frame_endBlock (s : State) : SellFrame s (endBlock s) := by
  unfold endBlock
  dsimp only
  refine SellFrame.trans (frame_foldl _ _ _ (fun s k => ?_)) ⟨rfl, fun _ _ => rfl, fun h => h⟩
  split
  · exact frame_includeOne _ _ _
  · exact SellFrame.refl _

end Canopy.Dex
