import Canopy.Proof.DexSell
/-! The DEX operations never touch the order book or an escrow pool (C20). Core Lean only. -/
namespace Canopy.Dex

/-- the sell-order world (order book, pools with id ≥ 65535, i.e. every escrow pool) is untouched -/
structure SellFrame (s s' : State) : Prop where
  orders : s'.orders = s.orders
  pools : ∀ id, 65535 ≤ id → (getPool s' id).amount = (getPool s id).amount
  accounts : (AM.keys s.accounts).Nodup → (AM.keys s'.accounts).Nodup

theorem SellFrame.refl (s : State) : SellFrame s s := ⟨rfl, fun _ _ => rfl, id⟩

theorem SellFrame.trans {a b c : State} (h1 : SellFrame a b) (h2 : SellFrame b c) : SellFrame a c :=
  ⟨h2.orders.trans h1.orders, fun id h => (h2.pools id h).trans (h1.pools id h), fun h => h2.accounts (h1.accounts h)⟩

theorem frame_accountAdd {s s' : State} {a : Bytes} {n : Nat} (h : accountAdd s a n = .ok s') : SellFrame s s' :=
  ⟨(accountAdd_ok h).1, fun id _ => by rw [getPool_congr (accountAdd_ok h).2.1], accountAdd_nodup h⟩

theorem frame_accountSub {s s' : State} {a : Bytes} {n : Nat} (h : accountSub s a n = .ok s') : SellFrame s s' :=
  ⟨(accountSub_ok h).1, fun id _ => by rw [getPool_congr (accountSub_ok h).2.1], accountSub_nodup h⟩

theorem frame_setPool (s : State) (id : Nat) (p : Pool) (hid : id < 65535) : SellFrame s (setPool s id p) :=
  ⟨rfl, fun id' h => by rw [getPool_setPool_other _ _ _ _ (by omega)], fun h => h⟩

theorem frame_poolAdd (s : State) (id n : Nat) (hid : id < 65535) : SellFrame s (poolAdd s id n) :=
  frame_setPool s id _ hid

theorem frame_poolSub {s s' : State} {id n : Nat} (hid : id < 65535) (h : poolSub s id n = .ok s') : SellFrame s s' := by
  obtain ⟨_, rfl⟩ := poolSub_ok h
  exact frame_setPool s id _ hid

theorem frame_setNext (s : State) (c : Nat) (b : Batch) : SellFrame s (setNext s c b) := ⟨rfl, fun _ _ => rfl, id⟩
theorem frame_delNext (s : State) (c : Nat) : SellFrame s (delNext s c) := ⟨rfl, fun _ _ => rfl, id⟩
theorem frame_setLocked (s : State) (c : Nat) (b : Batch) : SellFrame s (setLocked s c b) := ⟨rfl, fun _ _ => rfl, id⟩
theorem frame_delLocked (s : State) (c : Nat) : SellFrame s (delLocked s c) := ⟨rfl, fun _ _ => rfl, id⟩

theorem getPool_normalize_amount (s : State) (id : Nat) : (getPool (normalize s) id).amount = (getPool s id).amount := by
  unfold getPool normalize
  simp only
  induction s.pools with
  | nil => simp [AM.get?]
  | cons e m ih =>
    obtain ⟨k, p⟩ := e
    by_cases hp : p.amount = 0 <;> by_cases hk : k = id <;> simp [AM.get?, hp, hk, ih]

theorem frame_normalize (s : State) : SellFrame s (normalize s) :=
  ⟨rfl, fun id _ => getPool_normalize_amount s id, fun h => h⟩

theorem holdingId_lt {c : Nat} (h : c ≤ maxChainId) : holdingId c < 65535 := by
  unfold holdingId Gen.Dex.HoldingPoolAddend U64; unfold maxChainId at h; omega
theorem liquidityId_lt {c : Nat} (h : c ≤ maxChainId) : liquidityId c < 65535 := by
  unfold liquidityId Gen.Dex.LiquidityPoolAddend U64; unfold maxChainId at h; omega

end Canopy.Dex

namespace Canopy.Dex

theorem escrowId_ge {c : Nat} (h : c ≤ maxChainId) : 65535 ≤ escrowId c := by
  unfold escrowId Gen.Dex.EscrowPoolAddend U64; unfold maxChainId at h; omega

theorem sinv_of_sellFrame {s s' : State} (hi : SInv s) (hf : SellFrame s s') : SInv s' :=
  sinv_of_frame hi hf.orders (fun c hc => hf.pools _ (escrowId_ge hc)) (hf.accounts hi.accountsNodup)

macro "dex_unfold" f:ident "at" h:ident : tactic =>
  `(tactic| (unfold $f at $h:ident
             simp only [bind, Except.bind, pure, Except.pure, throw, throwThe, MonadExceptOf.throw] at $h:ident))

theorem frame_dexLimitOrder {s s' : State} {c : Nat} {o : LimitOrder} (h : dexLimitOrder s c o = .ok s') : SellFrame s s' := by
  dex_unfold dexLimitOrder at h
  repeat' (split at h <;> try (cases h; done))
  injection h with h; subst h
  have hc := (checkChainId_ok ‹checkChainId c = Except.ok _›).2
  exact (frame_accountSub ‹accountSub s _ _ = Except.ok _›).trans
    ((frame_poolAdd _ _ _ (holdingId_lt hc)).trans (frame_setNext _ _ _))

theorem frame_dexDeposit {s s' : State} {c : Nat} {d : Deposit} (h : dexDeposit s c d = .ok s') : SellFrame s s' := by
  dex_unfold dexDeposit at h
  repeat' (split at h <;> try (cases h; done))
  injection h with h; subst h
  have hc := (checkChainId_ok ‹checkChainId c = Except.ok _›).2
  exact (frame_accountSub ‹accountSub s _ _ = Except.ok _›).trans
    ((frame_poolAdd _ _ _ (holdingId_lt hc)).trans (frame_setNext _ _ _))

theorem frame_dexWithdraw {s s' : State} {c : Nat} {w : Withdraw} (h : dexWithdraw s c w = .ok s') : SellFrame s s' := by
  dex_unfold dexWithdraw at h
  repeat' (split at h <;> try (cases h; done))
  injection h with h; subst h
  exact frame_setNext _ _ _

/-! ### withdrawals -/

theorem frame_withdrawPay (tx ty T : Nat) (isLocal : Bool) (ws : List Withdraw) (st st' : WState)
    (h : withdrawPay tx ty T isLocal ws st = .ok st') : SellFrame st.s st'.s := by
  induction ws generalizing st with
  | nil => simp [withdrawPay] at h; subst h; exact SellFrame.refl _
  | cons w ws ih =>
    unfold withdrawPay at h
    split at h
    · exact ih _ h
    · simp only [bind, Except.bind, pure, Except.pure] at h
      split at h
      · cases h
      · exact (frame_accountAdd ‹accountAdd st.s _ _ = Except.ok _›).trans (ih _ h)

theorem frame_batchWithdraw {s : State} {ws : List Withdraw} {c x y : Nat} {isLocal : Bool} {p0 : Option Pool} {persist : Bool}
    {l : Ledger} (hc : c ≤ maxChainId) (h : batchWithdraw s ws c x y isLocal p0 persist = .ok l) : SellFrame s l.s := by
  dex_unfold batchWithdraw at h
  repeat' (split at h <;> try (cases h; done))
  all_goals (injection h with h; subst h)
  all_goals first
    | exact SellFrame.refl _
    | exact frame_setPool _ _ _ (liquidityId_lt hc)
    | exact (frame_withdrawPay _ _ _ _ _ _ _ ‹withdrawPay _ _ _ _ _ _ = Except.ok _›).trans (frame_setPool _ _ _ (liquidityId_lt hc))
    | exact frame_withdrawPay _ _ _ _ _ _ _ ‹withdrawPay _ _ _ _ _ _ = Except.ok _›

/-! ### deposits -/

theorem frame_depositPass1 (p : Pool) (c : Nat) (isLocal : Bool) (hc : c ≤ maxChainId) (ds : List Deposit) (st st' : P1)
    (h : depositPass1 p c isLocal ds st = .ok st') : SellFrame st.s st'.s := by
  induction ds generalizing st with
  | nil => simp [depositPass1] at h; subst h; exact SellFrame.refl _
  | cons d ds ih =>
    unfold depositPass1 at h
    simp only [bind, Except.bind, pure, Except.pure, throw, throwThe, MonadExceptOf.throw] at h
    repeat' (split at h <;> try (cases h; done))
    all_goals (have f := ih _ h)
    all_goals first
      | exact ((frame_poolSub (holdingId_lt hc) ‹poolSub st.s _ _ = Except.ok _›).trans
          (frame_accountAdd ‹accountAdd _ _ _ = Except.ok _›)).trans f
      | exact f

theorem frame_depositPass2 (dl td c : Nat) (isLocal : Bool) (hc : c ≤ maxChainId) (ds : List (Deposit × Bool)) (st st' : P2)
    (h : depositPass2 dl td c isLocal ds st = .ok st') : SellFrame st.s st'.s := by
  induction ds generalizing st with
  | nil => simp [depositPass2] at h; subst h; exact SellFrame.refl _
  | cons e ds ih =>
    obtain ⟨d, acc⟩ := e
    cases acc
    · unfold depositPass2 at h; have f := ih _ h; exact f
    · unfold depositPass2 at h
      simp only [bind, Except.bind, pure, Except.pure, throw, throwThe, MonadExceptOf.throw] at h
      repeat' (split at h <;> try (cases h; done))
      all_goals (have f := ih _ h)
      all_goals first
        | exact (frame_poolSub (holdingId_lt hc) ‹poolSub st.s _ _ = Except.ok _›).trans f
        | exact f

end Canopy.Dex
