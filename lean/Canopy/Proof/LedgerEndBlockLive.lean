import Canopy.Proof.LedgerOpsInv
/-! C12: `EndBlock` SUCCEEDS on every ledger satisfying the invariants, also when reward percents are waiting to be
distributed. The only place where that is not automatic is the guarded addition to a committee's staking tally in
`SetCommittees` / `SetDelegations` during auto-compounding: it needs `CommitteeStaked[c] + reward ≤ 2^64 − 1`, which
follows from the supply identity when no validator lists a committee twice (`CommitteesDistinct`). -/
namespace Canopy.Ledger
open AMap

set_option linter.unusedSimpArgs false
set_option linter.unusedVariables false

/-! ### duplicate-free committee lists -/

def dupC (v : Validator) : Nat := if v.committees.Nodup then 0 else 1
/-- number of validator records that list some committee twice -/
def dupCommittees (L : Ledger) : Nat := sumBy dupC L.validators

/-- no validator lists a committee twice (what `checkCommittees` enforces for stake / edit-stake messages) -/
def CommitteesDistinct (L : Ledger) : Prop := ∀ a v, valGet? L a = some v → v.committees.Nodup

theorem sumBy_eq_zero_of {κ ν} [DecidableEq κ] (g : ν → Nat) : ∀ (m : List (κ × ν)), NodupKeys m → (∀ k v, find? m k = some v → g v = 0) → sumBy g m = 0
  | [], _, _ => rfl
  | (k, v) :: t, hn, h => by
    unfold NodupKeys at hn
    simp only [List.map_cons, List.nodup_cons] at hn
    have h0 : g v = 0 := h k v (by simp [find?])
    have ht : sumBy g t = 0 := sumBy_eq_zero_of g t hn.2 (by
      intro k' v' hf
      refine h k' v' ?_
      have hne : k ≠ k' := by
        intro e; subst e
        exact hn.1 (mem_keys_of_find? t k v' hf)
      simp [find?, hne, hf])
    simp [sumBy, h0, ht]

theorem dupCommittees_zero_of {L : Ledger} (hn : NodupKeys L.validators) (h : CommitteesDistinct L) : dupCommittees L = 0 :=
  sumBy_eq_zero_of dupC L.validators hn (fun k v hf => by unfold dupC; rw [if_pos (h k v hf)])

theorem committeesDistinct_of_zero {L : Ledger} (h : dupCommittees L = 0) : CommitteesDistinct L := by
  intro a v hv
  have := ow_le_sumBy dupC L.validators a
  unfold valGet? at hv
  rw [hv] at this
  simp only [ow_some] at this
  unfold dupCommittees at h
  rw [h] at this
  unfold dupC at this
  by_cases hd : v.committees.Nodup
  · exact hd
  · rw [if_neg hd] at this; omega

theorem sumBy_le_of_zero {κ ν} (g f1 f2 : ν → Nat) : ∀ (m : List (κ × ν)), sumBy g m = 0 → (∀ v, g v = 0 → f1 v ≤ f2 v) →
    sumBy f1 m ≤ sumBy f2 m
  | [], _, _ => Nat.le_refl _
  | (k, v) :: t, h0, h => by
    simp only [sumBy] at h0 ⊢
    have := h v (by omega)
    have := sumBy_le_of_zero g f1 f2 t (by omega) h
    omega

theorem count_le_one_of_dupC {v : Validator} (h : dupC v = 0) (c : Nat) : v.committees.count c ≤ 1 := by
  unfold dupC at h
  by_cases hd : v.committees.Nodup
  · rw [hd.count]; split <;> omega
  · rw [if_neg hd] at h; omega

theorem comSum_le_stakeSum {L : Ledger} (h : dupCommittees L = 0) (c : Nat) : comSum L c ≤ stakeSum L := by
  unfold comSum stakeSum
  refine sumBy_le_of_zero dupC _ _ L.validators h ?_
  intro v hv
  have := count_le_one_of_dupC hv c
  have : v.stake * v.committees.count c ≤ v.stake * 1 := Nat.mul_le_mul_left _ this
  omega

theorem dcomSum_le_dstakeSum {L : Ledger} (h : dupCommittees L = 0) (c : Nat) : dcomSum L c ≤ dstakeSum L := by
  unfold dcomSum dstakeSum
  refine sumBy_le_of_zero dupC _ _ L.validators h ?_
  intro v hv
  have := count_le_one_of_dupC hv c
  have : v.stake * v.committees.count c ≤ v.stake * 1 := Nat.mul_le_mul_left _ this
  split <;> omega

theorem dstakeSum_le_stakeSum (L : Ledger) : dstakeSum L ≤ stakeSum L := by
  unfold dstakeSum stakeSum
  refine sumBy_le_of_zero (fun _ => 0) _ _ L.validators ?_ ?_
  · induction L.validators with
    | nil => rfl
    | cons e t ih => obtain ⟨k, v⟩ := e; simp [sumBy, ih]
  · intro v _; split <;> omega

/-! ### the guarded additions succeed below the bound -/

theorem addToCommitteeSupply_ok_of (L : Ledger) (c x : Nat) (h : comGet L c + x ≤ MAXU) : ∃ L', addToCommitteeSupply L c x = .ok L' := by
  unfold addToCommitteeSupply
  unfold comGet at h
  rw [if_neg (by omega)]
  exact ⟨_, rfl⟩

theorem addToDelegateSupply_ok_of (L : Ledger) (c x : Nat) (h : delGet L c + x ≤ MAXU) : ∃ L', addToDelegateSupply L c x = .ok L' := by
  unfold addToDelegateSupply
  unfold delGet at h
  rw [if_neg (by omega)]
  exact ⟨_, rfl⟩

theorem setCommittees_ok_of {a : Addr} {s : Nat} : ∀ (cs : List Nat) (L : Ledger), Pools L →
    (∀ c, comGet L c + s * cs.count c ≤ MAXU) → ∃ L', setCommittees L a s cs = .ok L'
  | [], L, _, _ => ⟨L, rfl⟩
  | c0 :: cs, L, hp, hle => by
    simp only [setCommittees]
    have hs := (supply_member L a c0 s).1
    have h0 := hle c0
    simp only [List.count_cons_self, Nat.mul_add, Nat.mul_one] at h0
    obtain ⟨L1, h1⟩ := addToCommitteeSupply_ok_of (setCommitteeMember L a c0 s) c0 s (by
      rw [(comGet_member L a c0 s c0).1]; omega)
    obtain ⟨e1, e2, e3⟩ := addToCommitteeSupply_eff (by rw [hs]; exact hp.committee) h1
    have hp1 : Pools L1 := ⟨e3, by rw [e2, hs]; exact hp.delegated⟩
    obtain ⟨L', h2⟩ := setCommittees_ok_of (a := a) (s := s) cs L1 hp1 (by
      intro c
      have := e1 c; have := hle c
      rw [(comGet_member L a c0 s c).1] at *
      rw [List.count_cons] at *
      by_cases hc : c0 = c
      · subst hc; simp [Nat.mul_add] at *; omega
      · have hb : (c0 == c) = false := by simpa using hc
        simp [hc, hb] at *; omega)
    exact ⟨L', by rw [h1]; simp only [bind, Except.bind]; exact h2⟩

theorem setDelegations_ok_of {a : Addr} {s : Nat} : ∀ (cs : List Nat) (L : Ledger), Pools L →
    (∀ c, comGet L c + s * cs.count c ≤ MAXU) → (∀ c, delGet L c + s * cs.count c ≤ MAXU) → ∃ L', setDelegations L a s cs = .ok L'
  | [], L, _, _, _ => ⟨L, rfl⟩
  | c0 :: cs, L, hp, hle, hld => by
    simp only [setDelegations]
    have hs := (supply_member L a c0 s).2.2.1
    have h0 := hle c0; have h0d := hld c0
    simp only [List.count_cons_self, Nat.mul_add, Nat.mul_one] at h0 h0d
    obtain ⟨L1, h1⟩ := addToDelegateSupply_ok_of (setDelegate L a c0 s) c0 s (by
      rw [(delGet_member L a c0 s c0).2.2.1]; omega)
    obtain ⟨d1, d2, d3⟩ := addToDelegateSupply_eff (by rw [hs]; exact hp.delegated) h1
    have hc1 : ∀ c, comGet L1 c = comGet L c := by intro c; unfold comGet; rw [d2, hs]
    obtain ⟨L2, h3⟩ := addToCommitteeSupply_ok_of L1 c0 s (by rw [hc1]; omega)
    obtain ⟨e1, e2, e3⟩ := addToCommitteeSupply_eff (by rw [d2, hs]; exact hp.committee) h3
    have hp2 : Pools L2 := ⟨e3, by rw [e2]; exact d3⟩
    obtain ⟨L', h4⟩ := setDelegations_ok_of (a := a) (s := s) cs L2 hp2 (by
      intro c
      have := e1 c; have := hle c; have := hc1 c
      rw [List.count_cons] at *
      by_cases hc : c0 = c
      · subst hc; simp [Nat.mul_add] at *; omega
      · have hb : (c0 == c) = false := by simpa using hc
        simp [hc, hb] at *; omega) (by
      intro c
      have := d1 c; have := hld c
      have hc2 : delGet L2 c = delGet L1 c := by unfold delGet; rw [e2]
      rw [(delGet_member L a c0 s c).2.2.1] at *
      rw [List.count_cons] at *
      by_cases hc : c0 = c
      · subst hc; simp [Nat.mul_add] at *; omega
      · have hb : (c0 == c) = false := by simpa using hc
        simp [hc, hb] at *; omega)
    exact ⟨L', by rw [h1]; simp only [bind, Except.bind]; rw [h3]; exact h4⟩

/-! ### auto-compounding succeeds -/

theorem updateCommittees_ok_of {L : Ledger} {a : Addr} {val : Validator} {s : Nat} {cs : List Nat} (hp : Pools L)
    (hlo : ∀ c, val.stake * val.committees.count c ≤ comGet L c)
    (hhi : ∀ c, comGet L c + s * cs.count c ≤ MAXU + val.stake * val.committees.count c) :
    ∃ L', updateCommittees L a val s cs = .ok L' := by
  unfold updateCommittees
  obtain ⟨La, ha⟩ := deleteCommittees_ok_of (a := a) (s := val.stake) val.committees L hp hlo
  obtain ⟨a1, a2, a3⟩ := deleteCommittees_eff hp ha
  obtain ⟨L', hb⟩ := setCommittees_ok_of (a := a) (s := s) cs La a3 (by
    intro c; have := a1 c; have := hhi c; omega)
  exact ⟨L', by rw [ha]; simp only [bind, Except.bind]; exact hb⟩

theorem updateDelegations_ok_of {L : Ledger} {a : Addr} {val : Validator} {s : Nat} {cs : List Nat} (hp : Pools L)
    (hlo : ∀ c, val.stake * val.committees.count c ≤ comGet L c) (hlod : ∀ c, val.stake * val.committees.count c ≤ delGet L c)
    (hhi : ∀ c, comGet L c + s * cs.count c ≤ MAXU + val.stake * val.committees.count c)
    (hhid : ∀ c, delGet L c + s * cs.count c ≤ MAXU + val.stake * val.committees.count c) :
    ∃ L', updateDelegations L a val s cs = .ok L' := by
  unfold updateDelegations
  obtain ⟨La, ha⟩ := deleteDelegations_ok_of (a := a) (s := val.stake) val.committees L hp hlo hlod
  obtain ⟨a1, a2, a3⟩ := deleteDelegations_eff hp ha
  obtain ⟨L', hb⟩ := setDelegations_ok_of (a := a) (s := s) cs La a3 (by
    intro c; have := a1 c; have := hhi c; omega) (by intro c; have := a2 c; have := hhid c; omega)
  exact ⟨L', by rw [ha]; simp only [bind, Except.bind]; exact hb⟩

/-- `UpdateValidatorStake` with an unchanged committee list succeeds when the new total stake fits into a `uint64`
and no validator lists a committee twice -/
theorem updateValidatorStake_ok_of {L : Ledger} {a : Addr} {val : Validator} {amt : Nat} (ht : Tallies L) (hp : Pools L)
    (hg : valGet? L a = some val) (hd : dupCommittees L = 0) (hb : stakeSum L + amt ≤ MAXU) :
    ∃ L', updateValidatorStake L a val val.committees amt = .ok L' := by
  have w1 := ow_le_sumBy (fun v : Validator => v.stake) L.validators a
  have w3 := fun c => ow_le_sumBy (fun v : Validator => v.stake * v.committees.count c) L.validators a
  have w4 := fun c => ow_le_sumBy (fun v : Validator => if v.delegate then v.stake * v.committees.count c else 0) L.validators a
  have w5 := ow_le_sumBy dupC L.validators a
  unfold valGet? at hg
  rw [hg] at w1 w5
  simp only [ow_some] at w1 w5
  have hdv : dupC val = 0 := by unfold dupCommittees at hd; omega
  have hst : val.stake ≤ stakeSum L := w1
  have w3' : ∀ c, val.stake * val.committees.count c ≤ comGet L c := by
    intro c; have := w3 c; rw [hg] at this; simp only [ow_some] at this; rw [ht.committee c]; exact this
  have hns : (val.stake + amt) % U64 = val.stake + amt := Nat.mod_eq_of_lt (by unfold MAXU at hb; unfold U64 at *; omega)
  have hk : ∀ c, (val.stake + amt) * val.committees.count c ≤ val.stake * val.committees.count c + amt := by
    intro c
    have h1 := count_le_one_of_dupC hdv c
    rw [Nat.add_mul]
    have : amt * val.committees.count c ≤ amt * 1 := Nat.mul_le_mul_left _ h1
    omega
  have hcs : ∀ c, comGet L c ≤ stakeSum L := fun c => by rw [ht.committee c]; exact comSum_le_stakeSum hd c
  unfold updateValidatorStake
  have e1 : addToStaked L amt = .ok { L with supply := { L.supply with staked := L.supply.staked + amt } } := by
    unfold addToStaked; rw [if_neg (by rw [ht.staked]; omega)]
  rw [e1]
  simp only [bind, Except.bind, hns]
  cases hdl : val.delegate with
  | false =>
    simp only [Bool.false_eq_true, if_false]
    obtain ⟨L2, h2⟩ := updateCommittees_ok_of (a := a) (val := val) (s := val.stake + amt) (cs := val.committees)
      (L := { L with supply := { L.supply with staked := L.supply.staked + amt } }) ⟨hp.committee, hp.delegated⟩ w3' (by
        intro c
        have := hk c; have := hcs c
        show comGet L c + _ ≤ _
        omega)
    rw [h2]; exact ⟨_, rfl⟩
  | true =>
    simp only [if_true]
    have hds : L.supply.delegatedOnly ≤ stakeSum L := by rw [ht.delegated]; exact dstakeSum_le_stakeSum L
    have e2 : addToDelegated { L with supply := { L.supply with staked := L.supply.staked + amt } } amt =
        .ok { L with supply := { L.supply with staked := L.supply.staked + amt, delegatedOnly := L.supply.delegatedOnly + amt } } := by
      unfold addToDelegated; rw [if_neg (by show ¬ L.supply.delegatedOnly > MAXU - amt; omega)]
    rw [e2]
    have w4' : ∀ c, val.stake * val.committees.count c ≤ delGet L c := by
      intro c; have := w4 c; rw [hg] at this; simp only [ow_some, hdl, if_true] at this; rw [ht.committeeDelegated c]; exact this
    have hdc : ∀ c, delGet L c ≤ stakeSum L := fun c => by
      rw [ht.committeeDelegated c]
      exact Nat.le_trans (dcomSum_le_dstakeSum hd c) (dstakeSum_le_stakeSum L)
    obtain ⟨L2, h2⟩ := updateDelegations_ok_of (a := a) (val := val) (s := val.stake + amt) (cs := val.committees)
      (L := { L with supply := { L.supply with staked := L.supply.staked + amt, delegatedOnly := L.supply.delegatedOnly + amt } })
      ⟨hp.committee, hp.delegated⟩ w3' w4' (by
        intro c
        have := hk c; have := hcs c
        show comGet L c + _ ≤ _
        omega) (by
        intro c
        have := hk c; have := hdc c
        show delGet L c + _ ≤ _
        omega)
    simp only []
    rw [h2]; exact ⟨_, rfl⟩

/-- … and keeps the committee lists duplicate-free -/
theorem updateValidatorStake_dup {L L' : Ledger} {a : Addr} {val : Validator} {amt : Nat} (hg : valGet? L a = some val)
    (h : updateValidatorStake L a val val.committees amt = .ok L') : dupCommittees L' = dupCommittees L := by
  unfold updateValidatorStake at h
  obtain ⟨La, ha, h⟩ := bind_ok h
  rw [addToStaked_ok ha] at h
  dsimp only at h
  have key : ∀ L2 : Ledger, L2.validators = L.validators →
      dupCommittees (valPut L2 a { val with committees := val.committees, stake := (val.stake + amt) % U64 }) = dupCommittees L := by
    intro L2 e
    unfold dupCommittees valPut
    dsimp only
    have := sumBy_set dupC L2.validators a { val with committees := val.committees, stake := (val.stake + amt) % U64 }
    rw [e] at this ⊢
    unfold valGet? at hg
    rw [hg] at this
    simp only [ow_some] at this
    have e2 : dupC { val with committees := val.committees, stake := (val.stake + amt) % U64 } = dupC val := rfl
    omega
  split at h
  · obtain ⟨Lb, hb, h⟩ := bind_ok h
    obtain ⟨Lc, hc, h⟩ := bind_ok h
    obtain rfl := Except.ok.inj h
    rw [addToDelegated_ok hb] at hc
    exact key Lc (sameCore_updateDelegations hc).validators
  · obtain ⟨Lc, hc, h⟩ := bind_ok h
    obtain rfl := Except.ok.inj h
    exact key Lc (sameCore_updateCommittees hc).validators

/-! ### reward distribution succeeds -/

theorem accountAdd_ok_of (L : Ledger) (a : Addr) (x : Nat) (h : accSum L + x ≤ MAXU) : ∃ L', accountAdd L a x = .ok L' := by
  have := accGet_le L a
  unfold accountAdd
  split
  · exact ⟨L, rfl⟩
  · rw [if_neg (by omega)]; exact ⟨_, rfl⟩

theorem distributeReward_ok_of {L : Ledger} {a : Addr} {p pool samples : Nat} (hs : InvStaking L) (hd : dupCommittees L = 0)
    (hb : accSum L + stakeSum L + fullOf p pool samples ≤ MAXU) : ∃ r, distributeReward L a p pool samples = .ok r := by
  have hr := rewardAmounts_le L p pool samples
  unfold distributeReward
  dsimp only
  split
  · obtain ⟨L1, h1⟩ := accountAdd_ok_of L a (rewardAmounts L p pool samples).2 (by omega)
    rw [h1]; exact ⟨_, rfl⟩
  · next val hv =>
    split
    · obtain ⟨L1, h1⟩ := updateValidatorStake_ok_of (amt := (rewardAmounts L p pool samples).1) hs.tallies
        ⟨hs.wf.committee, hs.wf.delegated⟩ hv hd (by omega)
      rw [h1]; exact ⟨_, rfl⟩
    · obtain ⟨L1, h1⟩ := accountAdd_ok_of L val.output (rewardAmounts L p pool samples).2 (by omega)
      rw [h1]; exact ⟨_, rfl⟩

theorem distributeReward_dup {L L1 : Ledger} {a : Addr} {p pool samples d : Nat}
    (h : distributeReward L a p pool samples = .ok (d, L1)) : dupCommittees L1 = dupCommittees L := by
  unfold distributeReward at h
  dsimp only at h
  split at h
  · split at h
    · exact absurd h (by intro h; cases h)
    · next L' h1 =>
      simp only [Except.ok.injEq, Prod.mk.injEq] at h
      obtain ⟨_, rfl⟩ := h
      obtain ⟨acc, vs, rfl, _⟩ := accountAdd_ok h1
      rfl
  · next val hv =>
    split at h
    · split at h
      · exact absurd h (by intro h; cases h)
      · next L' h1 =>
        simp only [Except.ok.injEq, Prod.mk.injEq] at h
        obtain ⟨_, rfl⟩ := h
        exact updateValidatorStake_dup hv h1
    · split at h
      · exact absurd h (by intro h; cases h)
      · next L' h1 =>
        simp only [Except.ok.injEq, Prod.mk.injEq] at h
        obtain ⟨_, rfl⟩ := h
        obtain ⟨acc, vs, rfl, _⟩ := accountAdd_ok h1
        rfl

/-- the stubs of one committee are all paid: no guarded addition fails -/
theorem distributeStubs_ok_of {chain pool samples : Nat} : ∀ (ps : List (Addr × Nat)) (L : Ledger) (tot : Nat),
    InvStaking L → dupCommittees L = 0 → poolGet L chain = pool → bal L + fullSum ps pool samples < U64 + pool →
    tot + fullSum ps pool samples ≤ MAXU →
    ∃ r, distributeStubs L pool samples ps tot = .ok r ∧ dupCommittees r.2 = 0
  | [], L, tot, _, hd, _, _, _ => ⟨(tot, L), rfl, hd⟩
  | (a, p) :: rest, L, tot, hs, hd, hp, hb, ht => by
    unfold distributeStubs
    simp only [fullSum, List.map_cons, List.sum_cons] at hb ht
    have hpl := poolGet_le L chain
    obtain ⟨r, h1⟩ := distributeReward_ok_of (a := a) (p := p) (pool := pool) (samples := samples) hs hd (by
      unfold bal at hb; unfold MAXU; unfold U64 at hb; omega)
    obtain ⟨d, L2⟩ := r
    rw [h1]
    dsimp only
    have hw : ∀ val, valGet? L a = some val → val.stake + fullOf p pool samples < U64 := by
      intro val hv
      have h1 := stake_le L a val hv
      unfold bal at hb; omega
    obtain ⟨hdle, _, hpools, hbal, _⟩ := distributeReward_ok hw h1
    obtain ⟨i2, _, _⟩ := distributeReward_inv hs hw h1
    have hd2 : dupCommittees L2 = 0 := by rw [distributeReward_dup h1]; exact hd
    have hp2 : poolGet L2 chain = pool := by unfold poolGet at hp ⊢; rw [hpools]; exact hp
    have hb2 : bal L2 + fullSum rest pool samples < U64 + pool := by unfold fullSum; omega
    split
    · rw [if_neg (by omega)]
      exact distributeStubs_ok_of rest L2 (tot + d) i2 hd2 hp2 hb2 (by unfold fullSum; omega)
    · exact distributeStubs_ok_of rest L2 tot i2 hd2 hp2 hb2 (by unfold fullSum; omega)

theorem subFromTotal_ok_of (L : Ledger) (x : Nat) (h : x ≤ L.supply.total) : ∃ L', subFromTotal L x = .ok L' := by
  unfold subFromTotal; rw [if_neg (by omega)]; exact ⟨_, rfl⟩

/-- one committee of `DistributeCommitteeRewards` succeeds and keeps every invariant -/
theorem distributeFor_ok_of {L : Ledger} {d : CommitteeData} (hi : InvSupply L) (hs : InvStaking L) (hd : dupCommittees L = 0)
    (hpc : percentSum d.percents ≤ 100 * d.samples) :
    ∃ L', distributeFor L d = .ok L' ∧ dupCommittees L' = 0 := by
  unfold distributeFor
  split
  · exact ⟨L, rfl, hd⟩
  · have hfs := Nat.le_trans (fullSum_le d.percents (poolGet L d.chainId) d.samples) (fullOf_le_pool hpc)
    have hpl := poolGet_le L d.chainId
    obtain ⟨i1, i2⟩ := hi
    have hbb : bal L + fullSum d.percents (poolGet L d.chainId) d.samples < U64 + poolGet L d.chainId := by unfold bal at i1 ⊢; omega
    have hplt : poolGet L d.chainId < U64 := by unfold bal at i1; omega
    obtain ⟨r, hr, hdr⟩ := distributeStubs_ok_of (chain := d.chainId) d.percents L 0 hs hd rfl hbb (by unfold MAXU; unfold U64 at hplt; omega)
    obtain ⟨tot, L1⟩ := r
    rw [hr]
    dsimp only
    obtain ⟨_, htot, ht, hp, hb, _⟩ := distributeStubs_ok (chain := d.chainId) d.percents L L1 0 tot rfl hbb hr
    have hburn : (poolGet L d.chainId + U64 - tot) % U64 = poolGet L d.chainId - tot := by
      have : poolGet L d.chainId + U64 - tot = (poolGet L d.chainId - tot) + U64 := by omega
      rw [this, Nat.add_mod_right, Nat.mod_eq_of_lt (by omega)]
    unfold distributeFinish
    rw [hburn]
    obtain ⟨L2, h2⟩ := subFromTotal_ok_of L1 (poolGet L d.chainId - tot) (by unfold bal at i1; omega)
    rw [h2]
    refine ⟨_, rfl, ?_⟩
    obtain ⟨_, rfl⟩ := subFromTotal_ok h2
    have : ∀ X : Ledger, dupCommittees (putCommitteeData X { chainId := d.chainId, lastRootHeight := d.lastRootHeight, lastChainHeight := d.lastChainHeight }) = dupCommittees X := by
      intro X; unfold putCommitteeData; split <;> rfl
    rw [this]
    exact hdr

/-- **`DistributeCommitteeRewards` succeeds** on a ledger satisfying the invariants -/
theorem distributeCommitteeRewards_ok_of {L : Ledger} (hi : InvSupply L) (hp : PercentsOK L) (hs : InvStaking L)
    (hd : dupCommittees L = 0) : ∃ L', distributeCommitteeRewards L = .ok L' ∧ dupCommittees L' = 0 := by
  unfold distributeCommitteeRewards
  have key : ∀ (ds : List CommitteeData) (A : Ledger), (∀ d ∈ ds, percentSum d.percents ≤ 100 * d.samples) → InvSupply A →
      InvStaking A → dupCommittees A = 0 → ∃ B, ds.foldlM distributeFor A = .ok B ∧ dupCommittees B = 0 := by
    intro ds
    induction ds with
    | nil => intro A _ _ _ dA; exact ⟨A, rfl, dA⟩
    | cons d ds ih =>
      intro A hds iA sA dA
      simp only [List.foldlM_cons]
      have hdd := hds d (List.mem_cons_self ..)
      obtain ⟨A1, h1, d1⟩ := distributeFor_ok_of iA sA dA hdd
      obtain ⟨s1, _, _⟩ := distributeFor_inv iA sA hdd h1
      have i1 := (distributeFor_burns iA hdd h1).inv iA
      obtain ⟨B, h2, dB⟩ := ih A1 (fun d' hd' => hds d' (List.mem_cons_of_mem _ hd')) i1 s1 d1
      exact ⟨B, by rw [h1]; exact h2, dB⟩
  exact key L.committeesData L hp hi hs hd

/-! ### the deferred actions keep the committee lists duplicate-free -/

theorem dup_valPut_same {L L2 : Ledger} {a : Addr} {val v' : Validator} (hg : valGet? L a = some val)
    (hc : v'.committees = val.committees) (e : L2.validators = L.validators) : dupCommittees (valPut L2 a v') = dupCommittees L := by
  unfold dupCommittees valPut
  dsimp only
  have := sumBy_set dupC L2.validators a v'
  rw [e] at this ⊢
  unfold valGet? at hg
  rw [hg] at this
  simp only [ow_some] at this
  have e2 : dupC v' = dupC val := by unfold dupC; rw [hc]
  omega

theorem forceUnstakeValidator_dup (L : Ledger) (a : Addr) : dupCommittees (forceUnstakeValidator L a) = dupCommittees L := by
  unfold forceUnstakeValidator
  split
  · rfl
  · next val hv =>
    split
    · rfl
    · unfold setValidatorUnstaking
      dsimp only
      refine dup_valPut_same hv rfl ?_
      split <;> rfl

theorem foldl_forceUnstake_dup : ∀ (as : List Addr) (L : Ledger), dupCommittees (as.foldl forceUnstakeValidator L) = dupCommittees L
  | [], _ => rfl
  | a :: as, L => by
    simp only [List.foldl_cons]
    rw [foldl_forceUnstake_dup as _, forceUnstakeValidator_dup]

theorem forceUnstakeMaxPaused_dup (L : Ledger) : dupCommittees (forceUnstakeMaxPaused L) = dupCommittees L := by
  unfold forceUnstakeMaxPaused
  dsimp only
  obtain ⟨i1, _⟩ := foldl_pausedDel_frame (dueAt L.paused L.height) ((dueAt L.paused L.height).foldl forceUnstakeValidator L)
  unfold dupCommittees at *
  rw [i1]
  exact foldl_forceUnstake_dup _ L

theorem finishUnstakingStep_dup {L L' : Ledger} {a : Addr} (h : finishUnstakingStep L a = .ok L') : dupCommittees L' ≤ dupCommittees L := by
  unfold finishUnstakingStep at h
  split at h
  · exact absurd h (by intro h; cases h)
  · next val hv =>
    split at h
    · exact absurd h (by intro h; cases h)
    · next L1 h1 =>
      obtain ⟨acc, vs, rfl, _⟩ := accountAdd_ok h1
      have key : ∀ L2 : Ledger, L2.validators = L.validators → dupCommittees (valDel L2 a) ≤ dupCommittees L := by
        intro L2 e
        unfold dupCommittees valDel
        dsimp only
        have := sumBy_erase dupC L2.validators a
        rw [e] at this ⊢
        omega
      unfold deleteValidator at h
      obtain ⟨La, ha, h⟩ := bind_ok h
      obtain ⟨_, rfl⟩ := subFromStaked_ok ha
      dsimp only at h
      split at h
      · obtain ⟨Lb, hb, h⟩ := bind_ok h
        obtain ⟨Lc, hc, h⟩ := bind_ok h
        obtain rfl := Except.ok.inj h
        obtain ⟨_, rfl⟩ := subFromDelegated_ok hb
        exact key Lc (sameCore_deleteDelegations hc).validators
      · obtain ⟨Lc, hc, h⟩ := bind_ok h
        obtain rfl := Except.ok.inj h
        exact key Lc (sameCore_deleteCommittees hc).validators

theorem foldlM_finishUnstaking_dup : ∀ (as : List Addr) (L L' : Ledger), as.foldlM finishUnstakingStep L = .ok L' →
    dupCommittees L' ≤ dupCommittees L
  | [], L, L', h => by obtain rfl := Except.ok.inj h; exact Nat.le_refl _
  | a :: as, L, L', h => by
    simp only [List.foldlM_cons] at h
    obtain ⟨L1, h1, h2⟩ := bind_ok h
    exact Nat.le_trans (foldlM_finishUnstaking_dup as L1 L' h2) (finishUnstakingStep_dup h1)

theorem foldl_unstakingDel_validators : ∀ (as : List Addr) (L : Ledger),
    (as.foldl (fun L a => { L with unstaking := KSet.del L.unstaking (L.height, a) }) L).validators = L.validators
  | [], _ => rfl
  | a :: as, L => by simp only [List.foldl_cons]; rw [foldl_unstakingDel_validators as _]

theorem deleteFinishedUnstaking_dup {L L' : Ledger} (h : deleteFinishedUnstaking L = .ok L') : dupCommittees L' ≤ dupCommittees L := by
  unfold deleteFinishedUnstaking at h
  dsimp only at h
  split at h
  · exact absurd h (by intro h; cases h)
  · next L1 h1 =>
    obtain rfl := Except.ok.inj h
    have := foldlM_finishUnstaking_dup _ L L1 h1
    unfold dupCommittees at *
    rw [foldl_unstakingDel_validators]
    exact this

/-! ### `cfg` is never written -/

theorem updateValidatorStake_cfg {L L' : Ledger} {a : Addr} {val : Validator} {cs : List Nat} {amt : Nat}
    (h : updateValidatorStake L a val cs amt = .ok L') : L'.cfg = L.cfg := by
  unfold updateValidatorStake at h
  obtain ⟨La, ha, h⟩ := bind_ok h
  rw [addToStaked_ok ha] at h
  dsimp only at h
  split at h
  · obtain ⟨Lb, hb, h⟩ := bind_ok h
    obtain ⟨Lc, hc, h⟩ := bind_ok h
    obtain rfl := Except.ok.inj h
    rw [addToDelegated_ok hb] at hc
    exact (sameCore_updateDelegations hc).cfg
  · obtain ⟨Lc, hc, h⟩ := bind_ok h
    obtain rfl := Except.ok.inj h
    exact (sameCore_updateCommittees hc).cfg

theorem distributeReward_cfg {L L1 : Ledger} {a : Addr} {p pool samples d : Nat}
    (h : distributeReward L a p pool samples = .ok (d, L1)) : L1.cfg = L.cfg := by
  unfold distributeReward at h
  dsimp only at h
  split at h
  · split at h
    · exact absurd h (by intro h; cases h)
    · next L' h1 =>
      simp only [Except.ok.injEq, Prod.mk.injEq] at h
      obtain ⟨_, rfl⟩ := h
      obtain ⟨acc, vs, rfl, _⟩ := accountAdd_ok h1
      rfl
  · next val hv =>
    split at h
    · split at h
      · exact absurd h (by intro h; cases h)
      · next L' h1 =>
        simp only [Except.ok.injEq, Prod.mk.injEq] at h
        obtain ⟨_, rfl⟩ := h
        exact updateValidatorStake_cfg h1
    · split at h
      · exact absurd h (by intro h; cases h)
      · next L' h1 =>
        simp only [Except.ok.injEq, Prod.mk.injEq] at h
        obtain ⟨_, rfl⟩ := h
        obtain ⟨acc, vs, rfl, _⟩ := accountAdd_ok h1
        rfl

theorem distributeStubs_cfg {pool samples : Nat} : ∀ (ps : List (Addr × Nat)) (L : Ledger) (tot : Nat) (r : Nat × Ledger),
    distributeStubs L pool samples ps tot = .ok r → r.2.cfg = L.cfg
  | [], L, tot, r, h => by
    simp only [distributeStubs, Except.ok.injEq] at h
    subst h; rfl
  | (a, p) :: rest, L, tot, r, h => by
    unfold distributeStubs at h
    split at h
    · exact absurd h (by intro h; cases h)
    · next d L2 h1 =>
      have e := distributeReward_cfg h1
      split at h
      · split at h
        · exact absurd h (by intro h; cases h)
        · exact (distributeStubs_cfg rest L2 _ r h).trans e
      · exact (distributeStubs_cfg rest L2 _ r h).trans e

theorem distributeFor_cfg {L L' : Ledger} {d : CommitteeData} (h : distributeFor L d = .ok L') : L'.cfg = L.cfg := by
  unfold distributeFor at h
  split at h
  · obtain rfl := Except.ok.inj h; rfl
  · split at h
    · exact absurd h (by intro h; cases h)
    · next r hds =>
      have e := distributeStubs_cfg _ _ _ r hds
      unfold distributeFinish at h
      obtain ⟨L2, h2, h⟩ := bind_ok h
      obtain rfl := Except.ok.inj h
      obtain ⟨_, rfl⟩ := subFromTotal_ok h2
      have : ∀ (X : Ledger) (cd : CommitteeData), (putCommitteeData X cd).cfg = X.cfg := by
        intro X cd; unfold putCommitteeData; split <;> rfl
      rw [this]
      exact e

theorem distributeCommitteeRewards_cfg {L L' : Ledger} (h : distributeCommitteeRewards L = .ok L') : L'.cfg = L.cfg := by
  unfold distributeCommitteeRewards at h
  have key : ∀ (ds : List CommitteeData) (A B : Ledger), ds.foldlM distributeFor A = .ok B → B.cfg = A.cfg := by
    intro ds
    induction ds with
    | nil => intro A B h; obtain rfl := Except.ok.inj h; rfl
    | cons d ds ih =>
      intro A B h
      simp only [List.foldlM_cons] at h
      obtain ⟨A1, h1, h2⟩ := bind_ok h
      exact (ih A1 B h2).trans (distributeFor_cfg h1)
  exact key _ L L' h

theorem forceUnstakeMaxPaused_ctx {L : Ledger} (hs : InvStaking L) (hh : (L.height + L.params.unstakingBlocks) % U64 ≠ 0) : SameCtx L (forceUnstakeMaxPaused L) := by
  unfold forceUnstakeMaxPaused
  dsimp only
  obtain ⟨_, c1, _, _⟩ := foldl_forceUnstake_inv (dueAt L.paused L.height) L hs hh
  obtain ⟨_, _, _, _, _, i6⟩ := foldl_pausedDel_frame (dueAt L.paused L.height) ((dueAt L.paused L.height).foldl forceUnstakeValidator L)
  exact c1.trans i6

/-! ### `EndBlock` and the empty block -/

/-- **`EndBlock` succeeds** on every ledger satisfying the invariants whose committee lists are duplicate-free, with or
without reward percents waiting to be distributed -/
theorem endBlock_ok_of {L : Ledger} (hi : InvSupply L) (hp : PercentsOK L) (hs : InvStaking L) (hh : (L.height + L.params.unstakingBlocks) % U64 ≠ 0)
    (hd : dupCommittees L = 0) :
    ∃ L', endBlock L = .ok L' ∧ InvSupply L' ∧ PercentsOK L' ∧ InvStaking L' ∧ dupCommittees L' = 0 ∧
      L'.height = L.height + 1 ∧ L'.params = L.params ∧ L'.cfg = L.cfg ∧ L'.supply.total ≤ L.supply.total := by
  obtain ⟨L1, h1, d1⟩ := distributeCommitteeRewards_ok_of hi hp hs hd
  obtain ⟨b1, p1⟩ := distributeCommitteeRewards_burns hi hp h1
  obtain ⟨s1, e1, e2⟩ := distributeCommitteeRewards_inv hi hp hs h1
  have i1 := b1.inv hi
  have hh1 : (L1.height + L1.params.unstakingBlocks) % U64 ≠ 0 := by rw [e1, e2]; exact hh
  have s2 := forceUnstakeMaxPaused_inv s1 hh1
  have i2 := (forceUnstakeMaxPaused_moves L1).inv i1
  obtain ⟨L3, h3, s3, c3⟩ := deleteFinishedUnstaking_inv i2 s2
  have d3 : dupCommittees L3 = 0 := by
    have := deleteFinishedUnstaking_dup h3
    rw [forceUnstakeMaxPaused_dup, d1] at this
    omega
  have hE : endBlock L = .ok { L3 with height := L3.height + 1, slashTracker := [] } := by
    unfold endBlock; rw [h1]; dsimp only; rw [h3]
  have i3 := (deleteFinishedUnstaking_moves i2 h3).inv i2
  have t3 := (deleteFinishedUnstaking_moves i2 h3).1
  have t2 := (forceUnstakeMaxPaused_moves L1).1
  have t1 := b1.total_le
  refine ⟨_, hE, ?_, endBlock_percents hi hp hE, endBlock_inv hi hp hs hh hE, d3, ?_, ?_, ?_, ?_⟩
  · have m : SameBal L3 { L3 with height := L3.height + 1, slashTracker := [] } := ⟨rfl, rfl, rfl, rfl⟩
    exact m.moves.inv i3
  · show L3.height + 1 = L.height + 1
    rw [c3.height, (forceUnstakeMaxPaused_ctx s1 hh1).height, e1]
  · show L3.params = L.params
    rw [c3.params, (forceUnstakeMaxPaused_ctx s1 hh1).params, e2]
  · show L3.cfg = L.cfg
    rw [c3.cfg, (forceUnstakeMaxPaused_ctx s1 hh1).cfg, distributeCommitteeRewards_cfg h1]
  · show L3.supply.total ≤ _
    omega

/-- **an empty block (begin-block mint + `EndBlock`) applies** on every ledger satisfying the invariants, and the
invariants hold again at the next height -/
theorem emptyBlock_ok {L : Ledger} (hi : InvSupply L) (hp : PercentsOK L) (hs : InvStaking L) (hd : dupCommittees L = 0)
    (hb : L.cfg.blocksPerHalvening ≠ 0) (hx : L.supply.total + scheduledMint L < U64)
    (hh : (L.height + L.params.unstakingBlocks) % U64 ≠ 0) :
    ∃ L', emptyBlock L = .ok L' ∧ InvSupply L' ∧ PercentsOK L' ∧ InvStaking L' ∧ dupCommittees L' = 0 ∧
      L'.height = L.height + 1 ∧ L'.params = L.params ∧ L'.cfg = L.cfg ∧ L'.supply.total ≤ L.supply.total + scheduledMint L := by
  obtain ⟨L1, h1⟩ := beginBlockMint_ok_of L hb
  obtain ⟨m, hm, s1⟩ := beginBlockMint_mints hi hx h1
  have ss := beginBlockMint_sameStaking h1
  have i1 : InvSupply L1 := s1.inv hi (by have := s1.1; omega)
  have p1 : PercentsOK L1 := (show KeepCD L L1 from ss.ctx.committeesData).percents hp
  have d1 : dupCommittees L1 = 0 := by unfold dupCommittees at *; rw [ss.validators]; exact hd
  obtain ⟨L', h2, i2, p2, s2, d2, e1, e2, e3, e4⟩ := endBlock_ok_of i1 p1 (hs.of_sameStaking ss) (by
    rw [ss.ctx.height, ss.ctx.params]; exact hh) d1
  refine ⟨L', ?_, i2, p2, s2, d2, by rw [e1, ss.ctx.height], by rw [e2, ss.ctx.params], by rw [e3, ss.ctx.cfg], ?_⟩
  · unfold emptyBlock; simp only [bind, Except.bind, h1]; exact h2
  · have := s1.1; omega

end Canopy.Ledger
