import Canopy.Proof.DexEff
/-! Settlement of the limit orders of a remote batch (`HandleDexBatchOrders`): every order has its own payout slot,
Σ receipts = ledger debit, at most `MaxOrdersSettledPerBlock` orders are paid, the real pool follows the ledger (C20).
Core Lean only. -/
namespace Canopy.Dex

/-! ### the index is hashed at full width -/

def fromBE (b : Bytes) : Nat := b.foldl (fun acc x => acc * 256 + x.toNat) 0

theorem be64_eq (i : Nat) : be64 i = [UInt8.ofNat (i / 72057594037927936 % 256), UInt8.ofNat (i / 281474976710656 % 256),
    UInt8.ofNat (i / 1099511627776 % 256), UInt8.ofNat (i / 4294967296 % 256), UInt8.ofNat (i / 16777216 % 256),
    UInt8.ofNat (i / 65536 % 256), UInt8.ofNat (i / 256 % 256), UInt8.ofNat (i / 1 % 256)] := by
  simp [be64, List.range, List.range.loop]
theorem fromBE_be64 (i : Nat) (h : i < 18446744073709551616) : fromBE (be64 i) = i := by
  rw [be64_eq]
  simp only [fromBE, List.foldl, UInt8.toNat_ofNat', Nat.reducePow, Nat.mod_mod, Nat.div_one, Nat.zero_mul, Nat.zero_add]
  have e2 : i / 65536 = i / 256 / 256 := by rw [Nat.div_div_eq_div_mul]
  have e3 : i / 16777216 = i / 256 / 256 / 256 := by rw [Nat.div_div_eq_div_mul, Nat.div_div_eq_div_mul]
  have e4 : i / 4294967296 = i / 256 / 256 / 256 / 256 := by simp only [Nat.div_div_eq_div_mul]
  have e5 : i / 1099511627776 = i / 256 / 256 / 256 / 256 / 256 := by simp only [Nat.div_div_eq_div_mul]
  have e6 : i / 281474976710656 = i / 256 / 256 / 256 / 256 / 256 / 256 := by simp only [Nat.div_div_eq_div_mul]
  have e7 : i / 72057594037927936 = i / 256 / 256 / 256 / 256 / 256 / 256 / 256 := by simp only [Nat.div_div_eq_div_mul]
  rw [e2, e3, e4, e5, e6, e7]
  omega

theorem be64_injective {i j : Nat} (hi : i < U64) (hj : j < U64) (h : be64 i = be64 j) : i = j := by
  rw [← fromBE_be64 i hi, ← fromBE_be64 j hj, h]

theorem be64_length (i : Nat) : (be64 i).length = 8 := by rw [be64_eq]; rfl

/-- the bytes that are hashed for order `i` determine `i`: two orders of one batch never hash the same input -/
theorem orderKeyInput_index_injective {bh : Bytes} {i j : Nat} {o o' : LimitOrder} (hi : i < U64) (hj : j < U64)
    (h : orderKeyInput bh i o = orderKeyInput bh j o') : i = j := by
  unfold orderKeyInput at h
  rw [List.append_assoc, List.append_assoc] at h
  have h2 := List.append_cancel_left h
  have h3 := congrArg (List.take 8) h2
  rw [List.take_left' (be64_length i), List.take_left' (be64_length j)] at h3
  exact be64_injective hi hj h3

/-! ### sums over payout slots -/

section
variable {κ : Type} [DecidableEq κ]

def lookupD (res : List (κ × Nat)) (k : κ) : Nat := (AM.get? res k).getD 0

theorem sum_map_zero {α : Type} (l : List α) : (l.map fun _ => 0).sum = 0 := by
  induction l with
  | nil => rfl
  | cons a l ih => simp [ih]

theorem sum_ite_nodup (K : List κ) (k0 : κ) (a : Nat) (g : κ → Nat) (hK : K.Nodup) (hm : k0 ∈ K) :
    (K.map fun k => if k0 = k then a else g k).sum + g k0 = a + (K.map g).sum := by
  induction K with
  | nil => cases hm
  | cons k K ih =>
    have hnd := List.nodup_cons.mp hK
    by_cases h : k0 = k
    · subst h
      have hrest : (K.map fun k => if k0 = k then a else g k) = K.map g := by
        apply List.map_congr_left
        intro k hk
        have : k0 ≠ k := fun e => hnd.1 (e ▸ hk)
        simp [this]
      simp [hrest]; omega
    · have hm' : k0 ∈ K := by
        rcases List.mem_cons.mp hm with e | e
        · exact absurd e h
        · exact e
      have := ih hnd.2 hm'
      simp [h] at this ⊢; omega

theorem sum_lookup (K : List κ) : ∀ (res : List (κ × Nat)), K.Nodup → (AM.keys res).Nodup → (∀ k ∈ AM.keys res, k ∈ K) →
    (K.map (lookupD res)).sum = (res.map (·.2)).sum := by
  intro res
  induction res with
  | nil =>
    intro _ _ _
    have : lookupD ([] : List (κ × Nat)) = fun _ => 0 := rfl
    rw [this]
    exact sum_map_zero K
  | cons e r ih =>
    intro hK hres hsub
    obtain ⟨k0, v0⟩ := e
    simp only [AM.keys, List.map_cons, List.nodup_cons] at hres
    have hk0 : k0 ∈ K := hsub k0 (by simp [AM.keys])
    have hr := ih hK (by simpa [AM.keys] using hres.2) (fun k hk => hsub k (by simp [AM.keys] at hk ⊢; exact Or.inr hk))
    have hfun : (K.map (lookupD ((k0, v0) :: r))) = K.map fun k => if k0 = k then v0 else lookupD r k := by
      apply List.map_congr_left
      intro k _
      unfold lookupD
      by_cases h : k0 = k <;> simp [AM.get?, h]
    have hz : lookupD r k0 = 0 := by
      unfold lookupD
      rw [AM.get?_none_of_not_mem r k0 (by simpa [AM.keys] using hres.1)]; rfl
    have := sum_ite_nodup K k0 v0 (lookupD r) hK hk0
    rw [hfun]
    simp only [List.map_cons, List.sum_cons]
    omega

theorem count_lookup (K : List κ) (hK : K.Nodup) : ∀ (res : List (κ × Nat)),
    ((K.map (lookupD res)).filter (· ≠ 0)).length ≤ res.length := by
  intro res
  induction res with
  | nil =>
    have : lookupD ([] : List (κ × Nat)) = fun _ => 0 := rfl
    rw [this]
    have : ((K.map fun _ => 0).filter (· ≠ 0)) = [] := by
      clear this
      induction K with
      | nil => rfl
      | cons k K ih => simp [List.filter, ih (List.nodup_cons.mp hK).2]
    simp [this]
  | cons e r ih =>
    obtain ⟨k0, v0⟩ := e
    -- a slot is non-zero under (k0,v0)::r only if it is k0 or non-zero under r
    have key : ∀ (L : List κ), L.Nodup →
        ((L.map (lookupD ((k0, v0) :: r))).filter (· ≠ 0)).length
          ≤ ((L.map (lookupD r)).filter (· ≠ 0)).length + (if k0 ∈ L then 1 else 0) := by
      intro L
      induction L with
      | nil => intro _; simp
      | cons k L ihL =>
        intro hL
        have hnd := List.nodup_cons.mp hL
        have := ihL hnd.2
        by_cases h : k0 = k
        · subst h
          have hnot : k0 ∉ L := hnd.1
          simp only [hnot, if_false] at this
          simp only [List.map_cons, List.mem_cons, true_or, if_true]
          by_cases h1 : lookupD ((k0, v0) :: r) k0 ≠ 0 <;> by_cases h2 : lookupD r k0 ≠ 0 <;>
            simp [List.filter, h1, h2] at this ⊢ <;> omega
        · have e1 : lookupD ((k0, v0) :: r) k = lookupD r k := by
            unfold lookupD; simp [AM.get?, h]
          have hmem : (k0 ∈ k :: L) ↔ k0 ∈ L := by simp [h]
          simp only [List.map_cons, e1]
          by_cases h2 : lookupD r k ≠ 0
          · simp [List.filter, h2, hmem] at this ⊢; omega
          · simp [List.filter, h2, hmem] at this ⊢; omega
    have := key K hK
    simp only [List.length_cons]
    split at this <;> omega
end

/-! ### the stable sort is a permutation -/

theorem insertSorted_perm {α : Type} (lt : α → α → Bool) (a : α) (l : List α) : (insertSorted lt a l).Perm (a :: l) := by
  induction l with
  | nil => exact List.Perm.refl _
  | cons b bs ih =>
    unfold insertSorted
    split
    · exact (List.Perm.cons b ih).trans (List.Perm.swap a b bs)
    · exact List.Perm.refl _

theorem stableSort_perm {α : Type} (lt : α → α → Bool) (l : List α) : (stableSort lt l).Perm l := by
  induction l with
  | nil => exact List.Perm.refl _
  | cons a l ih =>
    show (insertSorted lt a (stableSort lt l)).Perm (a :: l)
    exact (insertSorted_perm lt a _).trans (List.Perm.cons a ih)

theorem nodup_of_map_nodup {α β : Type} (f : α → β) : ∀ {l : List α}, (l.map f).Nodup → l.Nodup := by
  intro l
  induction l with
  | nil => intro _; exact List.nodup_nil
  | cons a l ih =>
    intro h
    simp only [List.map_cons, List.nodup_cons] at h ⊢
    exact ⟨fun hm => h.1 (List.mem_map.mpr ⟨a, hm, rfl⟩), ih h.2⟩

/-! ### the AMM loop and the payout loop -/

theorem computeDY_lt {x y dX : Nat} (hx : 0 < x) (hy : 0 < y) : ∃ d, computeDY x y dX = some d ∧ d < y := by
  refine ⟨rawDY x y dX % U64, computeDY_eq x y dX (Or.inl hx), ?_⟩
  exact Nat.lt_of_le_of_lt (Nat.mod_le _ _) (rawDY_lt x y dX hx hy)

def cap : Nat := Gen.Dex.MaxOrdersSettledPerBlock

/-- the loop settles a prefix of at most `cap − i` orders (in shuffled order), one slot per order, and what it
takes out of the local reserve `y` is exactly the Σ of the slots it wrote -/
theorem ammLoop_spec : ∀ (l : List (OrderKey × LimitOrder)) (i x y : Nat) (res : List (OrderKey × Nat))
    (r : Nat × Nat × List (OrderKey × Nat)), 0 < x → 0 < y → ammLoop l i x y res = .ok r →
      ∃ add, r.2.2 = res ++ add ∧ add.map (·.1) = (l.take (cap - i)).map (·.1) ∧ r.2.1 + (add.map (·.2)).sum = y := by
  intro l
  induction l with
  | nil => intro i x y res r _ _ h; simp [ammLoop] at h; subst h; exact ⟨[], by simp, by simp, by simp⟩
  | cons e l ih =>
    intro i x y res r hx hy h
    obtain ⟨k, o⟩ := e
    unfold ammLoop at h
    split at h
    · rename_i hi
      injection h with h; subst h
      have : cap - i = 0 := by unfold cap; omega
      exact ⟨[], by simp, by simp [this], by simp⟩
    · rename_i hi
      obtain ⟨d0, hd0, hlt⟩ := computeDY_lt (dX := o.amount) hx hy
      rw [hd0] at h
      dsimp only at h
      have hcap : cap - i = (cap - (i + 1)) + 1 := by unfold cap; omega
      generalize hdY : (if d0 < o.requested then 0 else d0) = dY at h
      have hdle : dY ≤ d0 := by rw [← hdY]; split <;> omega
      by_cases hd : dY ≠ 0
      · rw [if_pos hd] at h
        by_cases hov : (addUint64 x o.amount).2 = true
        · rw [if_pos hov] at h; cases h
        · rw [if_neg hov] at h
          obtain ⟨add, h1, h2, h3⟩ := ih (i + 1) _ (y - dY) _ r (by rw [addUint64_exact hov]; omega) (by omega) h
          refine ⟨(k, dY) :: add, by rw [h1]; simp, ?_, ?_⟩
          · rw [hcap]; simp [h2]
          · simp; omega
      · rw [if_neg hd] at h
        have hz : dY = 0 := by omega
        obtain ⟨add, h1, h2, h3⟩ := ih (i + 1) x y _ r hx hy h
        refine ⟨(k, 0) :: add, by rw [h1]; simp, ?_, ?_⟩
        · rw [hcap]; simp [h2]
        · simp; omega

theorem liqAmt_poolSub {s s' : State} {c n : Nat} (h : poolSub s (liquidityId c) n = .ok s') : liqAmt s' c + n = liqAmt s c := by
  obtain ⟨hle, rfl⟩ := poolSub_ok h
  unfold liqAmt; rw [getPool_setPool_self]; simp only; omega

/-- every order is paid the content of ITS slot (0 when it has none), and the real pool goes down by exactly the Σ paid -/
theorem payReceipts_spec (c : Nat) : ∀ (os : List (OrderKey × LimitOrder)) (res : List (OrderKey × Nat)) (s : State)
    (acc : List Nat) (r : State × List Nat), payReceipts c os res s acc = .ok r →
      r.2 = acc ++ os.map (fun e => lookupD res e.1) ∧ liqAmt r.1 c + (os.map fun e => lookupD res e.1).sum = liqAmt s c := by
  intro os
  induction os with
  | nil => intro res s acc r h; simp [payReceipts] at h; subst h; simp
  | cons e os ih =>
    intro res s acc r h
    obtain ⟨k, o⟩ := e
    unfold payReceipts at h
    dsimp only at h
    split at h
    · obtain ⟨s1, h1, h⟩ := bind_ok h
      obtain ⟨s2, h2, h⟩ := bind_ok h
      obtain ⟨e1, e2⟩ := ih _ _ _ _ h
      have hp := liqAmt_poolSub h1
      have ha := liqAmt_congr (accountAdd_ok h2).2.1 c
      refine ⟨by rw [e1]; simp [lookupD], ?_⟩
      simp only [List.map_cons, List.sum_cons, lookupD] at e2 ⊢
      omega
    · rename_i hz
      obtain ⟨e1, e2⟩ := ih _ _ _ _ h
      have hz' : (AM.get? res k).getD 0 = 0 := by omega
      refine ⟨by rw [e1]; simp [lookupD], ?_⟩
      simp only [List.map_cons, List.sum_cons, lookupD, hz'] at e2 ⊢
      omega

/-- **settlement of a remote batch's orders.** `HandleDexBatchOrders` succeeds only on non-zero reserves; then
* there is one receipt per order;
* Σ receipts = what the AMM ledger of the local reserve was debited (`y − y'`);
* at most `MaxOrdersSettledPerBlock` receipts are non-zero;
* the real liquidity pool went down by exactly Σ receipts — so if the ledger started at the pool's balance it ends there.
The proof needs every order to have its own payout slot: keys carry the order's index (`orderKeyInput_index_injective`). -/
theorem dexBatchOrders_settlement {s : State} {os : List LimitOrder} {bh : Bytes} {x y c : Nat} {r : State × Nat × Nat × List Nat}
    (h : dexBatchOrders s os bh x y c = .ok r) :
    r.2.2.2.length = os.length ∧ r.2.2.2.sum + r.2.2.1 = y ∧ (r.2.2.2.filter (· ≠ 0)).length ≤ cap ∧
    liqAmt r.1 c + r.2.2.2.sum = liqAmt s c ∧ (y = liqAmt s c → r.2.2.1 = liqAmt r.1 c) := by
  unfold dexBatchOrders at h
  dsimp only at h
  split at h
  · cases h
  · rename_i hz
    obtain ⟨a, ha, h⟩ := bind_ok h
    obtain ⟨p, hp, h⟩ := bind_ok h
    injection h with h; subst h
    have hx : 0 < x := by omega
    have hy : 0 < y := by omega
    generalize hkd : (List.map (fun (x : Nat × LimitOrder) => (orderKey bh x.1 x.2, x.2)) ((List.range os.length).zip os)) = keyed at ha hp
    obtain ⟨add, h1, h2, h3⟩ := ammLoop_spec _ _ _ _ _ _ hx hy ha
    simp only [List.nil_append] at h1
    subst h1
    obtain ⟨p1, p2⟩ := payReceipts_spec c _ _ _ _ _ hp
    simp only [List.nil_append] at p1
    -- the keys of the batch are pairwise distinct: they carry the index
    have hidx : (keyed.map (·.1)).map (·.1) = List.range os.length := by
      rw [← hkd]
      simp only [List.map_map]
      have : ((fun (x : OrderKey) => x.1) ∘ (fun (x : OrderKey × LimitOrder) => x.1) ∘ fun (x : Nat × LimitOrder) => (orderKey bh x.1 x.2, x.2))
          = fun (x : Nat × LimitOrder) => x.1 := by funext x; rfl
      rw [this, List.map_fst_zip]; simp
    have hK : (keyed.map (·.1)).Nodup := by
      apply nodup_of_map_nodup (·.1)
      rw [hidx]; exact List.nodup_range
    have hperm := stableSort_perm (fun (a b : OrderKey × LimitOrder) => bytesLt a.1.2 b.1.2) keyed
    have hsortedK : ((stableSort (fun (a b : OrderKey × LimitOrder) => bytesLt a.1.2 b.1.2) keyed).map (·.1)).Nodup :=
      (hperm.map (·.1)).nodup_iff.mpr hK
    have hresK : (AM.keys a.2.2).Nodup := by
      unfold AM.keys; rw [h2, List.map_take]
      exact hsortedK.sublist (List.take_sublist _ _)
    have hsub : ∀ k ∈ AM.keys a.2.2, k ∈ keyed.map (·.1) := by
      intro k hk
      unfold AM.keys at hk; rw [h2] at hk
      obtain ⟨e, he, rfl⟩ := List.mem_map.mp hk
      exact List.mem_map.mpr ⟨e, stableSort_mem _ _ _ (List.mem_of_mem_take he), rfl⟩
    have hsum := sum_lookup (keyed.map (·.1)) a.2.2 hK hresK hsub
    have hcount := count_lookup (keyed.map (·.1)) hK a.2.2
    have hmap : keyed.map (fun e => lookupD a.2.2 e.1) = (keyed.map (·.1)).map (lookupD a.2.2) := by
      simp [List.map_map, Function.comp_def]
    have hlen : a.2.2.length ≤ cap := by
      have := congrArg List.length h2
      simp only [List.length_map, List.length_take] at this
      omega
    refine ⟨?_, ?_, ?_, ?_, ?_⟩
    · show p.2.length = _
      rw [p1, List.length_map, ← hkd]; simp
    · show p.2.sum + a.2.1 = y
      rw [p1, hmap, hsum]; omega
    · show (p.2.filter (· ≠ 0)).length ≤ cap
      rw [p1, hmap]; omega
    · show liqAmt p.1 c + p.2.sum = _
      rw [p1]; exact p2
    · intro hyl
      show a.2.1 = liqAmt p.1 c
      rw [hmap, hsum] at p2
      omega

end Canopy.Dex
